import NflowsModel.Core.Density
import NflowsModel.Real.RealX
import NflowsModel.Lemmas.Gaussian
import NflowsModel.Lemmas.Bernoulli
import NflowsModel.Lemmas.MoG
import Mathlib.MeasureTheory.Integral.IntervalIntegral.Basic
import Mathlib.LinearAlgebra.Matrix.Determinant.Basic
import Mathlib.LinearAlgebra.Matrix.Notation
/-!
# Lemmas/DistReal — the executable definitions of `Core/Dist` at `realX` are the shallow real formulas

Bridge lemmas `fooG (realX e) (List.ofFn …) = <real formula of Lemmas/{Gaussian,Bernoulli,MoG}>` used by `Properties/C05`.
-/
open DualSound NF NF.Density

namespace DistReal
noncomputable section
variable (e : Float → ℝ)

/-! ## lists built by `List.ofFn` -/

theorem zipWith3_ofFn {α : Type} (f : α → α → α → α) : ∀ {D : ℕ} (a b c : Fin D → α),
    zipWith3 f (List.ofFn a) (List.ofFn b) (List.ofFn c) = List.ofFn (fun i => f (a i) (b i) (c i))
  | 0, a, b, c => by simp [zipWith3]
  | D+1, a, b, c => by
    simp only [List.ofFn_succ, zipWith3]
    rw [zipWith3_ofFn f]

theorem zipWith_ofFn {α β γ : Type} (f : α → β → γ) : ∀ {D : ℕ} (a : Fin D → α) (b : Fin D → β),
    List.zipWith f (List.ofFn a) (List.ofFn b) = List.ofFn (fun i => f (a i) (b i))
  | 0, a, b => by simp
  | D+1, a, b => by
    simp only [List.ofFn_succ, List.zipWith_cons_cons]
    rw [zipWith_ofFn f]

theorem exists_ofFn {α : Type} {D : ℕ} (l : List α) (h : l.length = D) : ∃ f : Fin D → α, l = List.ofFn f := by
  subst h; exact ⟨l.get, (List.ofFn_get l).symm⟩

theorem sumG_ofFn {D : ℕ} (f : Fin D → ℝ) : sumG (realX e) (List.ofFn f) = ∑ i, f i := by
  rw [sumG_real, List.sum_ofFn]

/-! ## constants -/

@[simp] theorem piG_real : piG (realX e) = Real.pi := by
  simp [piG, Real.arctan_one]; ring

@[simp] theorem log2piG_real : log2piG (realX e) = Real.log (2 * Real.pi) := by
  simp [log2piG]

theorem logZ_real (D : ℕ) : logZ (realX e) D = (1/2) * D * Real.log (2 * Real.pi) := by
  simp [logZ]

/-! ## normal -/

theorem stdNormalRow_real {D : ℕ} (x : Fin D → ℝ) :
    stdNormalRow (realX e) D (List.ofFn x) = Gaussian.stdNormalLogp x := by
  unfold stdNormalRow Gaussian.stdNormalLogp
  rw [List.map_ofFn, sumG_ofFn, logZ_real]
  simp only [realX_sub, realX_mul, realX_ofRat, Function.comp, realX_sq]
  norm_num

theorem diagNormalRow_real {D : ℕ} (μ ls x : Fin D → ℝ) :
    diagNormalRow (realX e) D (List.ofFn μ) (List.ofFn ls) (List.ofFn x) = Gaussian.diagNormalLogp μ ls x := by
  unfold diagNormalRow Gaussian.diagNormalLogp
  dsimp only
  rw [zipWith3_ofFn, List.map_ofFn, sumG_ofFn, sumG_ofFn, logZ_real]
  simp only [realX_sub, realX_mul, realX_ofRat, Function.comp, realX_sq, realX_exp, realX_neg]
  norm_num


/-! ## Bernoulli -/

theorem softplus_small (x : ℝ) (h : x ≤ 20) : (realX e).softplus x = Bernoulli.softplus x := by
  rw [realX_softplus, if_neg (not_lt.mpr h)]; rfl

theorem bernRow_real {D : ℕ} (l : Fin D → ℝ) (x : Fin D → Bool) (h : ∀ i, |l i| ≤ 20) :
    bernRow (realX e) (List.ofFn l) (List.ofFn fun i => Bernoulli.ind (x i)) = ∑ i, Bernoulli.bernLogp (l i) (x i) := by
  unfold bernRow
  rw [zipWith_ofFn, sumG_ofFn]
  apply Finset.sum_congr rfl
  intro i _
  have h1 := abs_le.mp (h i)
  simp only [realX_sub, realX_mul, realX_neg, realX_one]
  rw [softplus_small e (-(l i)) (by linarith [h1.1]), softplus_small e (l i) h1.2]
  rfl

/-- Σ_x x_i · p(x) = σ(l_i) for the ideal (un-thresholded) formula -/
theorem bernoulli_mean {D : ℕ} (l : Fin D → ℝ) (i : Fin D) :
    ∑ x : Fin D → Bool, Bernoulli.ind (x i) * Real.exp (∑ j, Bernoulli.bernLogp (l j) (x j)) = 1 / (1 + Real.exp (-(l i))) := by
  have h1 : ∀ x : Fin D → Bool, Bernoulli.ind (x i) * Real.exp (∑ j, Bernoulli.bernLogp (l j) (x j))
      = ∏ j, ((if j = i then Bernoulli.ind (x j) else 1) * Real.exp (Bernoulli.bernLogp (l j) (x j))) := by
    intro x
    rw [Finset.prod_mul_distrib, Real.exp_sum, Finset.prod_ite_eq' Finset.univ i (fun j => Bernoulli.ind (x j))]
    simp
  simp_rw [h1]
  rw [← Fintype.prod_sum (fun j (b : Bool) => (if j = i then Bernoulli.ind b else 1) * Real.exp (Bernoulli.bernLogp (l j) b))]
  have h2 : ∀ j, ∑ b : Bool, (if j = i then Bernoulli.ind b else 1) * Real.exp (Bernoulli.bernLogp (l j) b)
      = if j = i then Real.exp (Bernoulli.bernLogp (l i) true) else 1 := by
    intro j
    rw [Fintype.sum_bool]
    by_cases hj : j = i
    · subst hj; simp [Bernoulli.ind]
    · simp only [if_neg hj, one_mul]; exact Bernoulli.bern_two (l j)
  simp_rw [h2]
  rw [Finset.prod_ite_eq' Finset.univ i (fun _ => Real.exp (Bernoulli.bernLogp (l i) true))]
  simp only [Finset.mem_univ, if_true]
  have : Bernoulli.bernLogp (l i) true = - Bernoulli.softplus (-(l i)) := by
    simp [Bernoulli.bernLogp, Bernoulli.ind]
  rw [this, Bernoulli.exp_neg_softplus]


/-! ## mixture of Gaussians -/

theorem sum_exp_pos (xs : List ℝ) (h : xs ≠ []) (m : ℝ) : 0 < (xs.map (fun x => Real.exp (x - m))).sum := by
  apply List.sum_pos
  · intro y hy
    obtain ⟨x, _, rfl⟩ := List.mem_map.mp hy
    exact Real.exp_pos _
  · simpa using h

/-- the executed `log_softmax` produces log-weights that sum to one (any non-empty list, whatever the shift `m`) -/
theorem logSoftmax_sum_one (xs : List ℝ) (h : xs ≠ []) :
    ((logSoftmaxG (realX e) xs).map Real.exp).sum = 1 := by
  unfold logSoftmaxG
  dsimp only
  rw [sumG_real, List.map_map]
  have hS := sum_exp_pos xs h (maxG (realX e) xs)
  change (List.map (fun x => Real.exp (x - maxG (realX e) xs
      - Real.log ((xs.map (fun x => Real.exp (x - maxG (realX e) xs))).sum))) xs).sum = 1
  set m := maxG (realX e) xs
  set S := (xs.map (fun x => Real.exp (x - m))).sum with hSdef
  have : (fun x => Real.exp (x - m - Real.log S)) = fun x => Real.exp (x - m) * S⁻¹ := by
    funext x
    rw [Real.exp_sub (x - m), Real.exp_log hS]; rfl
  rw [this, List.sum_map_mul_right]
  exact mul_inv_cancel₀ hS.ne'

/-- the executed `logsumexp` is `log Σ exp` (any non-empty list, whatever the shift) -/
theorem logSumExp_real (xs : List ℝ) (h : xs ≠ []) :
    logSumExpG (realX e) xs = Real.log ((xs.map Real.exp).sum) := by
  unfold logSumExpG
  dsimp only
  rw [sumG_real]
  have hS := sum_exp_pos xs h (maxG (realX e) xs)
  change Real.log ((xs.map (fun x => Real.exp (x - maxG (realX e) xs))).sum) + maxG (realX e) xs = _
  set m := maxG (realX e) xs
  have h2 : (xs.map (fun x => Real.exp (x - m))).sum = (xs.map Real.exp).sum * Real.exp (-m) := by
    rw [← List.sum_map_mul_right]; congr 1; apply List.map_congr_left; intro x _; rw [sub_eq_add_neg, Real.exp_add]
  have hT : 0 < (xs.map Real.exp).sum := by
    have := sum_exp_pos xs h 0; simpa using this
  rw [h2, Real.log_mul hT.ne' (Real.exp_pos _).ne', Real.log_exp]; ring

theorem mogStd_pos (eps : ℝ) (heps : 0 < eps) (u : ℝ) : 0 < mogStd (realX e) eps u := by
  unfold mogStd
  rw [realX_add, realX_softplus]
  split_ifs with h
  · linarith
  · have : 0 < Real.log (1 + Real.exp u) := Real.log_pos (by linarith [Real.exp_pos u])
    linarith

theorem mogTermG_real (x lp m s : ℝ) :
    mogTermG (realX e) x lp m s = lp - (1/2) * (Real.log (2 * Real.pi) + 2 * Real.log s + ((x - m) / s)^2) := by
  simp [mogTermG]

/-- one executed conditional of the mixture = `MoG.mogLogp` with the executed log-softmax weights and `softplus + ε` stds -/
theorem mogFeature_real {M : ℕ} (hM : 0 < M) (eps : ℝ) (lg μ u : Fin M → ℝ) (x : ℝ) :
    mogFeature (realX e) eps (List.ofFn lg) (List.ofFn μ) (List.ofFn u) x
      = MoG.mogLogp (fun k => lg k - maxG (realX e) (List.ofFn lg) - Real.log ((List.ofFn fun k => Real.exp (lg k - maxG (realX e) (List.ofFn lg))).sum))
          μ (fun k => mogStd (realX e) eps (u k)) x := by
  unfold mogFeature MoG.mogLogp
  dsimp only
  have hls : logSoftmaxG (realX e) (List.ofFn lg)
      = List.ofFn (fun k => lg k - maxG (realX e) (List.ofFn lg) - Real.log ((List.ofFn fun k => Real.exp (lg k - maxG (realX e) (List.ofFn lg))).sum)) := by
    unfold logSoftmaxG
    dsimp only
    rw [sumG_real, List.map_ofFn, List.map_ofFn]
    rfl
  rw [hls, List.map_ofFn, zipWith3_ofFn, logSumExp_real]
  · rw [List.map_ofFn, List.sum_ofFn]
    congr 1
    apply Finset.sum_congr rfl
    intro k _
    simp only [Function.comp, mogTermG_real, MoG.mogTerm]
  · intro hnil
    have := congrArg List.length hnil
    simp at this; omega


/-- `F.softplus` with its threshold, as a real function -/
def softplusT (v : ℝ) : ℝ := if 20 < v then v else Real.log (1 + Real.exp v)

theorem measurable_softplusT : Measurable softplusT := by
  unfold softplusT
  exact Measurable.ite (measurableSet_lt measurable_const measurable_id) measurable_id (by fun_prop)

theorem mogStd_real (eps u : ℝ) : mogStd (realX e) eps u = softplusT u + eps := by
  simp [mogStd, realX_softplus, softplusT]

/-- shift-free closed form of one executed conditional of the mixture -/
theorem mogFeature_closed {M : ℕ} (hM : 0 < M) (eps : ℝ) (lg μ u : Fin M → ℝ) (x : ℝ) :
    mogFeature (realX e) eps (List.ofFn lg) (List.ofFn μ) (List.ofFn u) x
      = Real.log (∑ k, Real.exp ((lg k - Real.log (∑ j, Real.exp (lg j)))
          - (1/2) * (Real.log (2 * Real.pi) + 2 * Real.log (softplusT (u k) + eps) + ((x - μ k) / (softplusT (u k) + eps))^2))) := by
  rw [mogFeature_real e hM]
  unfold MoG.mogLogp MoG.mogTerm
  congr 1
  apply Finset.sum_congr rfl
  intro k _
  congr 1
  dsimp only
  rw [mogStd_real]
  congr 1
  set m := maxG (realX e) (List.ofFn lg)
  rw [List.sum_ofFn]
  have hpos : 0 < ∑ j, Real.exp (lg j) :=
    Finset.sum_pos (fun j _ => Real.exp_pos _) ⟨⟨0, hM⟩, Finset.mem_univ _⟩
  have : ∑ j, Real.exp (lg j - m) = (∑ j, Real.exp (lg j)) * Real.exp (-m) := by
    rw [Finset.sum_mul]; apply Finset.sum_congr rfl; intro j _; rw [sub_eq_add_neg, Real.exp_add]
  rw [this, Real.log_mul hpos.ne' (Real.exp_pos _).ne', Real.log_exp]; ring

theorem measurable_mogFeature {M : ℕ} (hM : 0 < M) (eps : ℝ) {β : Type} [MeasurableSpace β] (lg μ u : β → Fin M → ℝ)
    (hlg : ∀ k, Measurable fun b => lg b k) (hμ : ∀ k, Measurable fun b => μ b k) (hu : ∀ k, Measurable fun b => u b k) :
    Measurable (fun p : β × ℝ => mogFeature (realX e) eps (List.ofFn (lg p.1)) (List.ofFn (μ p.1)) (List.ofFn (u p.1)) p.2) := by
  simp_rw [mogFeature_closed e hM]
  have h1 : ∀ k, Measurable fun p : β × ℝ => lg p.1 k := fun k => (hlg k).comp measurable_fst
  have h2 : ∀ k, Measurable fun p : β × ℝ => μ p.1 k := fun k => (hμ k).comp measurable_fst
  have h3 : ∀ k, Measurable fun p : β × ℝ => softplusT (u p.1 k) + eps :=
    fun k => (measurable_softplusT.comp ((hu k).comp measurable_fst)).add_const _
  apply Real.measurable_log.comp
  apply Finset.measurable_sum
  intro k _
  apply Real.measurable_exp.comp
  apply Measurable.sub
  · exact (h1 k).sub (Real.measurable_log.comp (Finset.measurable_sum _ (fun j _ => Real.measurable_exp.comp (h1 j))))
  · apply Measurable.const_mul
    apply Measurable.add
    · exact (measurable_const.add ((Real.measurable_log.comp (h3 k)).const_mul 2))
    · exact ((measurable_snd.sub (h2 k)).div (h3 k)).pow_const 2

/-! ## Gaussian kernel density evaluator -/

theorem kdeStd_real (N D : ℕ) : kdeStd (realX e) N D = Real.exp (-(1 / ((D + 4 : ℕ) : ℝ)) * Real.log N) := by
  simp [kdeStd]

theorem kdeStd_pos (N D : ℕ) : 0 < kdeStd (realX e) N D := by
  rw [kdeStd_real]; exact Real.exp_pos _

theorem kde_term {D : ℕ} (N : ℕ) (std : ℝ) (hstd : 0 < std) (s q : Fin D → ℝ) :
    kdeQuad (realX e) std (List.ofFn s) (List.ofFn q) + kdeConst (realX e) N D std
      = Gaussian.diagNormalLogp s (fun _ => Real.log std) q - Real.log N := by
  unfold kdeQuad kdeConst Gaussian.diagNormalLogp
  dsimp only
  rw [zipWith_ofFn, sumG_ofFn]
  simp only [realX_sub, realX_mul, realX_ofRat, realX_sq, realX_div, realX_one, realX_neg, realX_log, realX_ofNat,
    realX_two, log2piG_real, Finset.sum_const, Finset.card_univ, Fintype.card_fin, nsmul_eq_mul]
  have h1 : ∀ i, (q i - s i) * ((q i - s i) * (1 / std ^ 2)) = ((q i - s i) * Real.exp (-Real.log std)) ^ 2 := by
    intro i
    rw [Real.exp_neg, Real.exp_log hstd]
    field_simp
  simp_rw [h1]
  push_cast
  ring

/-- `exp (gaussian_kde_log_eval S q)` is the equal-weight mixture of the `N` isotropic Gaussians centred at the samples -/
theorem kdeLogEval_real {N D : ℕ} (hN : 0 < N) (S : Fin N → Fin D → ℝ) (q : Fin D → ℝ) :
    Real.exp (kdeLogEval (realX e) D (List.ofFn fun n => List.ofFn (S n)) (List.ofFn q))
      = ∑ n, (N : ℝ)⁻¹ * Real.exp (Gaussian.diagNormalLogp (S n) (fun _ => Real.log (kdeStd (realX e) N D)) q) := by
  unfold kdeLogEval
  dsimp only
  rw [List.length_ofFn, List.map_ofFn, logSumExp_real, List.map_ofFn, List.sum_ofFn]
  · have hpos : 0 < ∑ n : Fin N, (Real.exp ∘ (fun s => (realX e).add (kdeQuad (realX e) (kdeStd (realX e) N D) s (List.ofFn q))
          (kdeConst (realX e) N D (kdeStd (realX e) N D))) ∘ fun n => List.ofFn (S n)) n := by
      apply Finset.sum_pos
      · intro i _; exact Real.exp_pos _
      · exact ⟨⟨0, hN⟩, Finset.mem_univ _⟩
    rw [Real.exp_log hpos]
    apply Finset.sum_congr rfl
    intro n _
    simp only [Function.comp, realX_add]
    rw [kde_term e N _ (kdeStd_pos e N D), Real.exp_sub, Real.exp_log (by exact_mod_cast hN)]
    ring
  · intro hnil
    have := congrArg List.length hnil
    simp at this; omega


/-! ## uniform-module priors -/

/-- the two matrices of `MG1Uniform` (uniform.py:43-49) -/
def mg1A : Matrix (Fin 3) (Fin 3) ℝ := !![1, -1, 0; 0, 1, 0; 0, 0, 1]
def mg1Ainv : Matrix (Fin 3) (Fin 3) ℝ := !![1, 1, 0; 0, 1, 0; 0, 0, 1]

theorem all_ofFn {α : Type} {D : ℕ} (f : Fin D → α) (p : α → Bool) :
    (List.ofFn f).all p = true ↔ ∀ i, p (f i) = true := by
  rw [List.all_eq_true]
  constructor
  · intro h i; exact h _ (by simp [List.mem_ofFn])
  · intro h y hy
    obtain ⟨i, rfl⟩ := (List.mem_ofFn' f y).mp hy
    exact h i

theorem insideBox_real {D : ℕ} (a b x : Fin D → ℝ) :
    insideBox (realX e) (List.ofFn a) (List.ofFn b) (List.ofFn x) = true ↔ ∀ i, a i ≤ x i ∧ x i < b i := by
  unfold insideBox
  rw [zipWith3_ofFn, all_ofFn]
  apply forall_congr'
  intro i
  simp only [realX_le, realX_lt, realX_one, realX_zero, Bool.and_eq_true, decide_eq_true_eq]
  by_cases h : a i ≤ x i ∧ x i < b i
  · simp [h]
  · simp [h]

theorem uniformCoord_inside (l h x : ℝ) (hin : l ≤ x ∧ x < h) :
    uniformCoord (realX e) l h x = -Real.log (h - l) := by
  simp [uniformCoord, hin.1, hin.2]

theorem boxUniformRow_real {D : ℕ} (l h x : Fin D → ℝ) (hin : ∀ i, l i ≤ x i ∧ x i < h i) :
    boxUniformRow (realX e) (List.ofFn l) (List.ofFn h) (List.ofFn x) = -∑ i, Real.log (h i - l i) := by
  unfold boxUniformRow
  rw [zipWith3_ofFn, sumG_ofFn, ← Finset.sum_neg_distrib]
  exact Finset.sum_congr rfl (fun i _ => uniformCoord_inside e _ _ _ (hin i))

/-! ## truncated Gaussian (LotkaVolterraOscillating) -/

/-- mass of `N(μ, v)` on `[a, b)` — the quantity the code's `0.5*(erf(..) - erf(..))` stands for -/
def gaussMass (μ : ℝ) (v : NNReal) (a b : ℝ) : ℝ := ∫ x in Set.Ico a b, ProbabilityTheory.gaussianPDFReal μ v x

/-- `σ²` as an `ℝ≥0` -/
def sqNN (σ : ℝ) : NNReal := ⟨σ ^ 2, sq_nonneg σ⟩
@[simp] theorem sqNN_coe (σ : ℝ) : ((sqNN σ : NNReal) : ℝ) = σ ^ 2 := rfl

/-- `erf` defined through the Gaussian integral (Mathlib has no `Real.erf`) -/
def erfR (z : ℝ) : ℝ := 2 / Real.sqrt Real.pi * ∫ t in (0:ℝ)..z, Real.exp (-t ^ 2)

theorem gaussMass_eq_interval (μ : ℝ) (v : NNReal) {a b : ℝ} (hab : a ≤ b) :
    gaussMass μ v a b = ∫ x in a..b, ProbabilityTheory.gaussianPDFReal μ v x := by
  unfold gaussMass
  rw [intervalIntegral.integral_of_le hab, MeasureTheory.integral_Ico_eq_integral_Ioo, MeasureTheory.integral_Ioc_eq_integral_Ioo]

theorem gaussMass_pos (μ : ℝ) (v : NNReal) (hv : v ≠ 0) {a b : ℝ} (hab : a < b) : 0 < gaussMass μ v a b := by
  rw [gaussMass_eq_interval μ v hab.le]
  exact intervalIntegral.intervalIntegral_pos_of_pos_on
    (ProbabilityTheory.integrable_gaussianPDFReal μ v).intervalIntegrable
    (fun x _ => ProbabilityTheory.gaussianPDFReal_pos μ v x hv) hab

theorem diagNormal_factor {D : ℕ} (μ ls x : Fin D → ℝ) :
    Real.exp (Gaussian.diagNormalLogp μ ls x) = ∏ i, ProbabilityTheory.gaussianPDFReal (μ i) (Gaussian.var (ls i)) (x i) := by
  simp_rw [← Gaussian.gauss_factor]
  rw [← Real.exp_sum]
  congr 1
  unfold Gaussian.diagNormalLogp
  simp only [Finset.sum_sub_distrib, Finset.mul_sum, Finset.sum_const, Finset.card_univ, Fintype.card_fin, nsmul_eq_mul]
  ring

theorem isoNormalRow_real {D : ℕ} (σ : ℝ) (hσ : 0 < σ) (μ x : Fin D → ℝ) :
    isoNormalRow (realX e) σ (List.ofFn μ) (List.ofFn x) = Gaussian.diagNormalLogp μ (fun _ => Real.log σ) x := by
  unfold isoNormalRow Gaussian.diagNormalLogp
  dsimp only
  rw [zipWith_ofFn, sumG_ofFn, List.map_ofFn, sumG_ofFn, List.length_ofFn]
  simp only [realX_sub, realX_mul, realX_ofRat, realX_sq, realX_div, realX_add, realX_log, realX_ofNat, log2piG_real,
    Function.comp, Finset.sum_const, Finset.card_univ, Fintype.card_fin, nsmul_eq_mul]
  have h1 : ∀ i, ((x i - μ i) / σ) ^ 2 = ((x i - μ i) * Real.exp (-Real.log σ)) ^ 2 := by
    intro i; rw [Real.exp_neg, Real.exp_log hσ]; rfl
  simp_rw [h1]
  push_cast
  ring

end
end DistReal
