import NflowsModel.Lemmas.FlowRowsExec
import NflowsModel.Lemmas.CouplingJacobian
import NflowsModel.Lemmas.NonlinExec
import NflowsModel.Lemmas.StageMoreRows
import Mathlib.Tactic
/-!
# Lemmas/StageMore — the round-trip law `RoundTripStage` of `Lemmas/FlowRowsExec.lean` for the EXECUTED stages (C04, C02)

`FlowRowsExec.flowSalpExec_consistent` (C04: the value `sample_and_log_prob` returns for a sample is the `log_prob` of that
sample) has the hypothesis `RoundTripStage o w T Tinv`: forward ∘ inverse = id on one-row calls, with negated log-det.  This file
discharges it over the reals (`NF.realX e`) for the executed passes.

* §1 vocabulary: `RoundTripEq o P Q T Tinv` (for inputs satisfying `P`: the inverse output satisfies `Q`, its log-det is one
  number `d`, and the forward pass returns the input array EXACTLY with `[-d]`), `RoundTripOn o P w T Tinv` (the law of
  `RoundTripStage` restricted to inputs satisfying `P`), `roundTripStage_iff_on`, `RoundTripEq.on`, `RoundTripEq.stage`;
  `flowSalpExec_consistent_on` (C04 consistency under the restricted law, for noise rows satisfying `P`).
  FINDING: `RoundTripStage` quantifies over arrays `z` of ANY size; for an element-wise stage of width `n` and a one-row array
  shorter than `n` it is false (the output always has `n` entries, the input has fewer: `roundTripStage_cdf_short_false`), so the
  size of the row is a forced hypothesis — hence the `P`-restricted forms.
* §2 the executed coupling layer, ANY conditioner network (the identity features pass through, so the conditioner is given the
  same input in both directions): `roundTrip_couplingStage` (from per-element invertibility in the other order),
  `roundTrip_couplingStage_affine`, `roundTrip_couplingStage_additive`, `roundTrip_couplingStage_rqTails`.
* §3 `CompositeTransform`: `roundTrip_compStage` (inverse = cascade of the inverses in reversed order, `Wrap.composite`).
* §4 element-wise non-linearities `nonlinApply` as a stage `nonlinStage`: `roundTrip_nonlinStage` (generic),
  `roundTrip_nonlinStage_exp`, `_affine`, `_leakyRelu`, `_tanh` (inside the exact range); here `RoundTripStage` itself holds
  (`roundTripStage_nonlinStage_exp` …: for a one-row call the width is the size of the array).
* §5 the finding (`roundTripStage_cdf_short_false`, `roundTripStage_cdf_rqTails_false`); §5b `Piecewise*CDF` stage on a full row:
  `roundTrip_cdfStage` (generic), `roundTrip_cdfStage_rqTails`.
* §6 corollaries with no round-trip hypothesis left: `flowSalpExec_consistent_coupling` (generic family),
  `flowSalpExec_consistent_coupling_affine`, `_additive`, `_rqTails`.
* §7 non-vacuity examples.
The companion file `Lemmas/StageMoreRows.lean` (imported here, same namespace) holds the C12 part: more `RowWiseStage`s
(`rowWise_permStage`, `rowWise_luStage`, `rowWise_qrStage`, `rowWise_svdStage`, `rowWise_bnEvalStage`, `rowWise_actStage`, …) and
`flowExec_act_lu_coupling` ([ActNorm, LU linear, coupling] through `flowExec_composite`).
-/
open NF NF.StructureExec NF.RowErr NF.RowIndependenceMore NF.Density NF.FlowRowsExec

namespace NF.StageMore
variable {α : Type}

/-! ## 1. vocabulary -/

/-- **exact round trip of a forward / inverse pair of one-row calls**: for an input `z` satisfying `P`, whenever the inverse call
    is accepted with `(s, l)`: `s` satisfies `Q`, `l` is one number `d`, and the forward call on `s` (same context) is accepted
    and returns the array `z` itself with log-det `[-d]`. -/
def RoundTripEq (o : XOps α) (P Q : Array α → Prop) (T Tinv : BStage α) : Prop :=
  ∀ (z e s : Array α) (l : List α), P z → Tinv 1 z e = .ok (s, l) →
    Q s ∧ ∃ d, l = [d] ∧ T 1 s e = .ok (z, [o.neg d])

/-- the law of `FlowRowsExec.RoundTripStage`, for inputs satisfying `P` -/
def RoundTripOn (o : XOps α) (P : Array α → Prop) (w : Nat) (T Tinv : BStage α) : Prop :=
  ∀ (z e s : Array α) (d : α), P z → Tinv 1 z e = .ok (s, [d]) →
    ∃ z', T 1 s e = .ok (z', [o.neg d]) ∧ RowEq w 0 0 z' z

theorem roundTripStage_iff_on (o : XOps α) (w : Nat) (T Tinv : BStage α) :
    RoundTripStage o w T Tinv ↔ RoundTripOn o (fun _ => True) w T Tinv :=
  ⟨fun h z e s d _ hz => h z e s d hz, fun h z e s d hz => h z e s d trivial hz⟩

theorem RoundTripEq.on {o : XOps α} {P Q : Array α → Prop} {T Tinv : BStage α} (h : RoundTripEq o P Q T Tinv) (w : Nat) :
    RoundTripOn o P w T Tinv := by
  intro z e s d hP hz
  obtain ⟨-, d', hd, hT⟩ := h z e s [d] hP hz
  obtain rfl : d = d' := by simpa using hd
  exact ⟨z, hT, RowEq.refl _ _ _⟩

theorem RoundTripEq.stage {o : XOps α} {Q : Array α → Prop} {T Tinv : BStage α}
    (h : RoundTripEq o (fun _ => True) Q T Tinv) (w : Nat) : RoundTripStage o w T Tinv :=
  (roundTripStage_iff_on o w T Tinv).2 (h.on w)

theorem RoundTripEq.mono {o : XOps α} {P P' Q Q' : Array α → Prop} {T Tinv : BStage α} (h : RoundTripEq o P Q T Tinv)
    (hP : ∀ z, P' z → P z) (hQ : ∀ s, Q s → Q' s) : RoundTripEq o P' Q' T Tinv := by
  intro z e s l hz hi
  obtain ⟨hq, r⟩ := h z e s l (hP z hz) hi
  exact ⟨hQ s hq, r⟩

/-- **C04, consistency over the executed passes, under the round-trip law restricted to noise rows satisfying `P`** (the proof of
    `FlowRowsExec.flowSalpExec_consistent`, the law being used at the one row `zr` only). -/
theorem flowSalpExec_consistent_on (o : XOps α) {P : Array α → Prop} {w rcw cw R n : Nat} {emb : Nat → Array α → Array α}
    {T Tinv : BStage α} {base : BaseD α} {noise ctx : Array α} (hT : RowWiseStage w cw Tinv) (hbase : RowIndepBase cw base)
    (hemb : EmbRowWise rcw cw emb) (hsize : R * cw ≤ (emb R ctx).size) (hround : RoundTripOn o P w T Tinv)
    (hsub : ∀ a b : α, o.sub a b = o.add a (o.neg b)) {s : Array α} {lps : List α}
    (h : flowSalpExec o w cw R n emb Tinv base noise ctx = .ok (s, lps))
    {i j : Nat} (hi : i < R) (hj : j < n) (zr cr : Array α) (hP : P zr) (hz : RowEq w (i * n + j) 0 noise zr)
    (hc : RowEq rcw i 0 ctx cr) :
    ∃ (si : Array α) (lp : α), RowEq w (i * n + j) 0 s si ∧ lps[i * n + j]? = some lp ∧
      flowLogProbExec o w emb T base 1 si cr = .ok [lp] := by
  obtain ⟨si, d, l, hsi, hs, hb, hl⟩ := flowSalpExec_pairing o hT hbase hemb hsize h hi hj zr cr hz hc
  obtain ⟨z', hz', hzz⟩ := hround zr (emb 1 cr) si d hP hsi
  refine ⟨si, o.sub l d, hs, hl, ?_⟩
  have hrow : rowsOf w 1 z'.toList = rowsOf w 1 zr.toList := by
    simp only [rowsOf, List.range_one, List.map_cons, List.map_nil]
    rw [row_list_eq hzz]
  rw [← hrow] at hb
  rw [flow_of_ok o hz' hb, hsub]
  rfl

/-! ## 2. the executed coupling layer -/

section coupling
variable (e : Float → ℝ) (c : ElCfg) (mask : List ℝ) (S : Nat) (up up' : Array ℝ)
  (net : Nat → Array ℝ → Array ℝ → Array ℝ)

/-- **the executed coupling layer (no unconditional transform), ANY conditioner network**: if the element maps are invertible in the
    order inverse-then-forward for every parameter array, then for a one-row input filling the `[1, C, S]` shape the forward
    stage (conditioner re-run on the inverse output: it is given the same identity features) returns the input array exactly and
    the negated log-det. -/
theorem roundTrip_couplingStage
    (hrev : ∀ params, ElInvertibleRev (NF.realX e) c (transformIdx (NF.realX e) mask).length S params 1) :
    RoundTripEq (NF.realX e) (fun z => mask.length * S ≤ z.size) (fun s => mask.length * S ≤ s.size)
      (couplingStage (NF.realX e) c mask S false none up' net) (couplingStage (NF.realX e) c mask S true none up net) := by
  intro z ctx s l hz h
  obtain ⟨herr, rfl, rfl⟩ := ofT_eq_ok h
  have hsz : 1 * mask.length * S ≤ z.size := by simpa using hz
  obtain ⟨hout, herr', hcond, hld⟩ := coupling_forward_inverse_real e c mask 1 S z
    (net 1 (condInOf (NF.realX e) mask S true none up 1 z) ctx) up up' (hrev _) herr hsz
  obtain ⟨d, hd⟩ := list_len_one _ (coupling_ld_length (NF.realX e) c mask S true none up 1 z
    (net 1 (condInOf (NF.realX e) mask S true none up 1 z) ctx))
  refine ⟨by simpa using hz, d, hd, ?_⟩
  have hcin : condInOf (NF.realX e) mask S false none up' 1
      (couplingApply (NF.realX e) c mask 1 S z (net 1 (condInOf (NF.realX e) mask S true none up 1 z) ctx) true none up).out
      = condInOf (NF.realX e) mask S true none up 1 z := by
    rw [← condInOf_eq (NF.realX e) c mask S false none up' 1 _ (net 1 (condInOf (NF.realX e) mask S true none up 1 z) ctx),
      ← condInOf_eq (NF.realX e) c mask S true none up 1 z (net 1 (condInOf (NF.realX e) mask S true none up 1 z) ctx)]
    exact hcond
  show ofT (couplingApply (NF.realX e) c mask 1 S _ (net 1 (condInOf (NF.realX e) mask S false none up' 1 _) ctx) false none up')
    = _
  rw [hcin, ofT_of_err_none herr', hout]
  obtain ⟨d', hd'⟩ := list_len_one _ (coupling_ld_length (NF.realX e) c mask S false none up' 1
    (couplingApply (NF.realX e) c mask 1 S z (net 1 (condInOf (NF.realX e) mask S true none up 1 z) ctx) true none up).out
    (net 1 (condInOf (NF.realX e) mask S true none up 1 z) ctx))
  have h0 := hld 0 Nat.one_pos
  rw [hd, hd'] at h0
  rw [hd']
  simp only [List.getElem?_cons_zero, Option.map_some, Option.some.injEq] at h0
  rw [h0]
  rfl

/-- `AffineCouplingTransform` (RealNVP; both scale activations), any conditioner: `1e-3` read as a non-negative real -/
theorem roundTrip_couplingStage_affine (he : 0 ≤ e 1e-3) (hk : c.kind = "affine") :
    RoundTripEq (NF.realX e) (fun z => mask.length * S ≤ z.size) (fun s => mask.length * S ≤ s.size)
      (couplingStage (NF.realX e) c mask S false none up' net) (couplingStage (NF.realX e) c mask S true none up net) :=
  roundTrip_couplingStage e c mask S up up' net (fun params => NF.CouplingJacobian.elInvertibleRev_affine_real e he c hk _ S params 1)

/-- `AdditiveCouplingTransform` (NICE), any conditioner: no hypothesis -/
theorem roundTrip_couplingStage_additive (hk : c.kind = "additive") :
    RoundTripEq (NF.realX e) (fun z => mask.length * S ≤ z.size) (fun s => mask.length * S ≤ s.size)
      (couplingStage (NF.realX e) c mask S false none up' net) (couplingStage (NF.realX e) c mask S true none up net) :=
  roundTrip_couplingStage e c mask S up up' net (fun params => NF.CouplingJacobian.elInvertibleRev_additive_real e c hk _ S params 1)

/-- `PiecewiseRationalQuadraticCouplingTransform(tails='linear')`, any conditioner, any accepted configuration -/
theorem roundTrip_couplingStage_rqTails (hc : RQTailsCfgValid e c) :
    RoundTripEq (NF.realX e) (fun z => mask.length * S ≤ z.size) (fun s => mask.length * S ≤ s.size)
      (couplingStage (NF.realX e) c mask S false none up' net) (couplingStage (NF.realX e) c mask S true none up net) :=
  roundTrip_couplingStage e c mask S up up' net (fun params => elInvertibleRev_rq_tails_real e c hc _ S params 1)

end coupling

/-! ## 3. `CompositeTransform`: the inverse runs the inverses of the parts in reversed order (`Wrap.composite`, base.py:58-60) -/

section comp

theorem cascadeFrom_append_ok {T C L : Type} (A : Wrap.LD L) (fs gs : List (T → C → Except Err (T × L))) (x : T) (l : L)
    (c : C) (r : T × L) :
    Wrap.cascadeFrom A (fs ++ gs) x l c = .ok r ↔
      ∃ y l', Wrap.cascadeFrom A fs x l c = .ok (y, l') ∧ Wrap.cascadeFrom A gs y l' c = .ok r := by
  induction fs generalizing x l with
  | nil => simp [Wrap.cascadeFrom]
  | cons f fs ih =>
    rw [List.cons_append, cascadeFrom_cons_ok]
    constructor
    · rintro ⟨y, ld, h1, h2⟩
      obtain ⟨y', l', h3, h4⟩ := (ih _ _).1 h2
      exact ⟨y', l', (cascadeFrom_cons_ok ..).2 ⟨y, ld, h1, h3⟩, h4⟩
    · rintro ⟨y', l', h3, h4⟩
      obtain ⟨y, ld, h1, h2⟩ := (cascadeFrom_cons_ok ..).1 h3
      exact ⟨y, ld, h1, (ih _ _).2 ⟨y', l', h2, h4⟩⟩

/-- the two cascades of a composite, from any running log-dets -/
theorem roundTrip_comp_from (e : Float → ℝ) (P : Array ℝ → Prop) (ps : List (BStage ℝ × BStage ℝ))
    (hps : ∀ p ∈ ps, RoundTripEq (NF.realX e) P P p.1 p.2) (ctx : Array ℝ) :
    ∀ (z s : Array ℝ) (a : ℝ) (l : List ℝ), P z →
      Wrap.cascadeFrom (ldLD (NF.realX e) 1) (ps.reverse.map fun p => p.2 1) z [a] ctx = .ok (s, l) →
      P s ∧ ∃ d, l = [a + d] ∧
        ∀ a', Wrap.cascadeFrom (ldLD (NF.realX e) 1) (ps.map fun p => p.1 1) s [a'] ctx = .ok (z, [a' - d]) := by
  induction ps with
  | nil =>
    intro z s a l hz h
    simp only [List.reverse_nil, List.map_nil, Wrap.cascadeFrom, Except.ok.injEq, Prod.mk.injEq] at h
    obtain ⟨rfl, rfl⟩ := h
    exact ⟨hz, 0, by simp, fun a' => by simp [Wrap.cascadeFrom]⟩
  | cons p ps ih =>
    intro z s a l hz h
    rw [List.reverse_cons, List.map_append, cascadeFrom_append_ok] at h
    obtain ⟨s1, l1, h1, h2⟩ := h
    obtain ⟨hs1, d1, rfl, hf⟩ := ih (fun q hq => hps q (List.mem_cons_of_mem _ hq)) z s1 a l1 hz h1
    simp only [List.map_cons, List.map_nil] at h2
    rw [cascadeFrom_cons_ok] at h2
    obtain ⟨y, ld, h3, h4⟩ := h2
    simp only [Wrap.cascadeFrom, Except.ok.injEq, Prod.mk.injEq] at h4
    obtain ⟨rfl, rfl⟩ := h4
    obtain ⟨hPs, d2, rfl, hfw⟩ := hps p List.mem_cons_self s1 ctx y ld hs1 h3
    refine ⟨hPs, d1 + d2, by simp [ldLD, add_assoc], fun a' => ?_⟩
    rw [List.map_cons, cascadeFrom_cons_ok]
    refine ⟨s1, _, hfw, ?_⟩
    have hadd : (ldLD (NF.realX e) 1).add [a'] [(NF.realX e).neg d2] = [a' + -d2] := by simp [ldLD]
    rw [hadd, hf (a' + -d2)]
    congr 3
    ring

/-- **`RoundTripEq` is closed under `CompositeTransform`** (over the reals): if every part `(forward, inverse)` round trips exactly
    on inputs satisfying an invariant `P` that its inverse preserves, so does the composite, whose inverse is the cascade of the
    parts' inverses in REVERSED order; the log-det of the forward cascade on the inverse output is the negated log-det of the
    inverse cascade. -/
theorem roundTrip_compStage (e : Float → ℝ) (P : Array ℝ → Prop) (ps : List (BStage ℝ × BStage ℝ))
    (hps : ∀ p ∈ ps, RoundTripEq (NF.realX e) P P p.1 p.2) :
    RoundTripEq (NF.realX e) P P (compStage (NF.realX e) (ps.map Prod.fst)) (compStage (NF.realX e) (ps.reverse.map Prod.snd)) := by
  intro z ctx s l hz h
  have h' : Wrap.cascadeFrom (ldLD (NF.realX e) 1) (ps.reverse.map fun p => p.2 1) z [0] ctx = .ok (s, l) := by
    simpa [compStage, Wrap.cascade, ldLD, List.map_map, Function.comp_def] using h
  obtain ⟨hs, d, rfl, hf⟩ := roundTrip_comp_from e P ps hps ctx z s 0 l hz h'
  refine ⟨hs, 0 + d, rfl, ?_⟩
  show Wrap.cascadeFrom (ldLD (NF.realX e) 1) ((ps.map Prod.fst).map fun t => t 1) s (ldLD (NF.realX e) 1).zero ctx = _
  have hz0 : (ldLD (NF.realX e) 1).zero = [0] := by simp [ldLD]
  have hm : ((ps.map Prod.fst).map fun t : BStage ℝ => t 1) = ps.map fun p => p.1 1 := by
    rw [List.map_map]; rfl
  rw [hz0, hm, hf 0]
  simp

end comp

/-! ## 4. the element-wise non-linearities (`nonlinApply`: `Exp`, `Tanh`, `LeakyReLU`, `Affine`, …) as a stage -/

section nonlin
open NonlinExec DualX

/-- an element-wise non-linearity as a batch-level call (context ignored) -/
def nonlinStage (o : XOps α) (kind : String) (ds : Array Float) (ps : List α) (inverse : Bool) : BStage α :=
  fun B x _ => ofT (nonlinApply o kind ds ps B x inverse)

variable (e : Float → ℝ)

theorem sumRows_one_map (z : Array ℝ) (g : ℝ → ℝ) :
    sumRows (NF.realX e) 1 (z.map g) = [∑ k ∈ Finset.range z.size, g (z.getD k 0)] := by
  obtain ⟨d, hd⟩ := list_len_one (sumRows (NF.realX e) 1 (z.map g)) (by simp [sumRows])
  have h0 := sumRows_real e 1 (z.map g) 0 Nat.one_pos
  rw [hd] at h0
  simp only [List.getElem?_cons_zero, Option.some.injEq, Array.size_map, Nat.div_one, Nat.zero_mul, Nat.zero_add] at h0
  rw [hd, h0]
  congr 1
  apply Finset.sum_congr rfl
  intro k hk
  have hk' := Finset.mem_range.1 hk
  simp [Array.getD, hk']

theorem elRT_of_roundTrip {F G : ℝ → Except Err (ℝ × ℝ)} {y : ℝ} (h : RoundTrip G F y) :
    ∀ x l, G y = .ok (x, l) → F x = .ok (y, -l) := by
  obtain ⟨x', l', h1, h2⟩ := h
  intro x l hg
  rw [h1] at hg
  cases hg
  exact h2

/-- **an executed element-wise non-linearity, whole layer**: if, for the elements `y` satisfying `Pel`, an accepted inverse
    element call `(x, l)` is undone by the forward element call (`(y, -l)`), then on a one-row array of such elements the forward
    layer returns the input array exactly and the negated log-det (no hypothesis on the size: for one row the width is the size). -/
theorem roundTrip_nonlinStage (kind : String) (ds : Array Float) (ps : List ℝ) (Pel : ℝ → Prop)
    (hel : ∀ y, Pel y → ∀ x l, nonlinEl (NF.realX e) kind ds ps true y = .ok (x, l) →
      nonlinEl (NF.realX e) kind ds ps false x = .ok (y, -l)) (n : Nat) :
    RoundTripEq (NF.realX e) (fun z => z.size = n ∧ ∀ y ∈ z.toList, Pel y) (fun s => s.size = n)
      (nonlinStage (NF.realX e) kind ds ps false) (nonlinStage (NF.realX e) kind ds ps true) := by
  intro z ctx s l hz h
  obtain ⟨hzn, hzP⟩ := hz
  obtain ⟨herr, rfl, rfl⟩ := ofT_eq_ok h
  have hall := (nonlinApply_err_none_iff e kind ds ps 1 z true).1 herr
  -- element facts
  have hF : ∀ y ∈ z.toList, nonlinEl (NF.realX e) kind ds ps false (outY (nonlinEl (NF.realX e) kind ds ps true y))
      = .ok (y, -outL (nonlinEl (NF.realX e) kind ds ps true y)) := by
    intro y hy
    obtain ⟨⟨x, l⟩, hr⟩ := hall y hy
    rw [hr]
    exact hel y (hzP y hy) x l hr
  rw [nonlinApply_real] at herr ⊢
  simp only at herr ⊢
  refine ⟨by simpa using hzn, _, sumRows_one_map e z _, ?_⟩
  show ofT (nonlinApply (NF.realX e) kind ds ps 1 _ false) = _
  rw [nonlinApply_real]
  have hget : ∀ k, k < z.size → z.getD k 0 ∈ z.toList := by
    intro k hk
    simp only [Array.getD, hk, dif_pos]
    exact Array.getElem_mem_toList hk
  have hout : (Array.map (fun xi => outY (nonlinEl (NF.realX e) kind ds ps true xi)) z).map
      (fun xi => outY (nonlinEl (NF.realX e) kind ds ps false xi)) = z := by
    apply Array.ext'
    simp only [Array.toList_map, List.map_map]
    conv_rhs => rw [← List.map_id z.toList]
    apply List.map_congr_left
    intro y hy
    simp only [Function.comp, hF y hy, outY_ok, id]
  have hld : (Array.map (fun xi => outY (nonlinEl (NF.realX e) kind ds ps true xi)) z).map
      (fun xi => outL (nonlinEl (NF.realX e) kind ds ps false xi))
      = z.map (fun y => -outL (nonlinEl (NF.realX e) kind ds ps true y)) := by
    apply Array.ext'
    simp only [Array.toList_map, List.map_map]
    apply List.map_congr_left
    intro y hy
    simp only [Function.comp, hF y hy, outL_ok]
  have herr' : (Array.map (fun xi => outY (nonlinEl (NF.realX e) kind ds ps true xi)) z).toList.findSome?
      (fun xi => errOf (nonlinEl (NF.realX e) kind ds ps false xi)) = none := by
    rw [List.findSome?_eq_none_iff]
    intro xi hxi
    simp only [Array.toList_map, List.mem_map] at hxi
    obtain ⟨y, hy, rfl⟩ := hxi
    rw [hF y hy]
    rfl
  rw [ofT_of_err_none herr']
  simp only [hout, hld, sumRows_one_map, realX_neg, Finset.sum_neg_distrib]

/-- `Exp` (inverse `log`, accepted iff positive): no hypothesis -/
theorem roundTrip_nonlinStage_exp (ds : Array Float) (ps : List ℝ) (n : Nat) :
    RoundTripEq (NF.realX e) (fun z => z.size = n ∧ ∀ y ∈ z.toList, True) (fun s => s.size = n)
      (nonlinStage (NF.realX e) "Exp" ds ps false) (nonlinStage (NF.realX e) "Exp" ds ps true) :=
  roundTrip_nonlinStage e "Exp" ds ps (fun _ => True) (fun y _ x l h => by
    have hy : 0 < y := (expT_inv_ok_iff e y).1 ⟨_, h⟩
    exact elRT_of_roundTrip (expT_roundtrip' e hy) x l h) n

/-- `PointwiseAffineTransform` with a scalar non-zero scale -/
theorem roundTrip_nonlinStage_affine (ds : Array Float) (ps : List ℝ) (hs : ps.getD 0 0 ≠ 0) (n : Nat) :
    RoundTripEq (NF.realX e) (fun z => z.size = n ∧ ∀ y ∈ z.toList, True) (fun s => s.size = n)
      (nonlinStage (NF.realX e) "Affine" ds ps false) (nonlinStage (NF.realX e) "Affine" ds ps true) :=
  roundTrip_nonlinStage e "Affine" ds ps (fun _ => True) (fun y _ x l h => by
    simp only [nonlinEl_Affine, realX_zero] at h ⊢
    exact elRT_of_roundTrip (affineT_roundtrip' e (ps.getD 0 0) (ps.getD 1 0) y hs) x l h) n

/-- `LeakyReLU` (the slope constant and its logarithm read exactly: `LeakyConsts`) -/
theorem roundTrip_nonlinStage_leakyRelu (ds : Array Float) (ps : List ℝ)
    (hc : LeakyConsts e (ds.getD 0 0.0) (ps.getD 0 0)) (n : Nat) :
    RoundTripEq (NF.realX e) (fun z => z.size = n ∧ ∀ y ∈ z.toList, True) (fun s => s.size = n)
      (nonlinStage (NF.realX e) "LeakyReLU" ds ps false) (nonlinStage (NF.realX e) "LeakyReLU" ds ps true) :=
  roundTrip_nonlinStage e "LeakyReLU" ds ps (fun _ => True) (fun y _ x l h => by
    simp only [nonlinEl_LeakyReLU, realX_zero] at h ⊢
    exact elRT_of_roundTrip (leakyReluT_roundtrip' hc y) x l h) n

/-- `Tanh`, inside the range where the forward log-det formula is the exact one (`-10 ≤ artanh y`; below it the executed forward
    log-det is the thresholded `softplus`, `NonlinExec.tanhT_roundtrip_logdet_false_below_threshold`) -/
theorem roundTrip_nonlinStage_tanh (ds : Array Float) (ps : List ℝ) (hc : TanhConsts e) (n : Nat) :
    RoundTripEq (NF.realX e) (fun z => z.size = n ∧ ∀ y ∈ z.toList, -10 ≤ artanh y) (fun s => s.size = n)
      (nonlinStage (NF.realX e) "Tanh" ds ps false) (nonlinStage (NF.realX e) "Tanh" ds ps true) :=
  roundTrip_nonlinStage e "Tanh" ds ps (fun y => -10 ≤ artanh y) (fun y hy x l h => by
    have hne : tanhT (NF.realX e) true y ≠ .error .outsideDomain := by
      intro h'
      have : nonlinEl (NF.realX e) "Tanh" ds ps true y = tanhT (NF.realX e) true y := rfl
      rw [this, h'] at h
      cases h
    have hr := (tanhT_inv_error_iff e y).not.1 hne
    push Not at hr
    exact elRT_of_roundTrip (tanhT_roundtrip' e hc hr.1 hr.2 hy) x l h) n

/-- for these non-linearities `FlowRowsExec.RoundTripStage` itself holds (any width `w`, arrays of any size) -/
theorem roundTripStage_nonlinStage_exp (ds : Array Float) (ps : List ℝ) (w : Nat) :
    RoundTripStage (NF.realX e) w (nonlinStage (NF.realX e) "Exp" ds ps false) (nonlinStage (NF.realX e) "Exp" ds ps true) := by
  intro z ctx s d h
  obtain ⟨-, d', hd, hT⟩ := roundTrip_nonlinStage_exp e ds ps z.size z ctx s [d] ⟨rfl, fun _ _ => trivial⟩ h
  obtain rfl : d = d' := by simpa using hd
  exact ⟨z, hT, RowEq.refl _ _ _⟩

end nonlin

/-! ## 5. `RoundTripStage` needs the size of the row: an element-wise stage on a short array -/

/-- **FINDING (forced hypothesis)**: `FlowRowsExec.RoundTripStage` quantifies over one-row arrays of ANY size.  For an element-wise
    stage of width `n > 0` that accepts the empty array (missing entries are read as zero), it is FALSE: the forward output has `n`
    entries, the input none.  Hence the size-restricted forms `RoundTripEq` / `RoundTripOn` of §1. -/
theorem roundTripStage_cdf_short_false (o : XOps α) (c : ElCfg) (n : Nat) (params : Array α) (hn : 0 < n)
    (hacc : ∃ s d, cdfStage o c n true params 1 #[] #[] = .ok (s, [d])) :
    ¬ RoundTripStage o n (cdfStage o c n false params) (cdfStage o c n true params) := by
  intro h
  obtain ⟨s, d, hs⟩ := hacc
  obtain ⟨z', hz', hrow⟩ := h #[] #[] s d hs
  obtain ⟨-, rfl, -⟩ := ofT_eq_ok hz'
  have h0 := hrow 0 hn
  have hsz : 0 * n + 0 < (cdfApply o c 1 n s params false).out.size := by
    rw [cdfApply, elemwise_out_size]; omega
  rw [Array.getElem?_eq_getElem hsz] at h0
  simp at h0

/-- the premise holds for the RQ `Piecewise*CDF` with linear tails (which never raises): `RoundTripStage` is false of it -/
theorem roundTripStage_cdf_rqTails_false (e : Float → ℝ) (c : ElCfg) (hc : RQTailsCfgValid e c) (n : Nat) (params : Array ℝ)
    (hn : 0 < n) :
    ¬ RoundTripStage (NF.realX e) n (cdfStage (NF.realX e) c n false params) (cdfStage (NF.realX e) c n true params) := by
  apply roundTripStage_cdf_short_false (NF.realX e) c n params hn
  obtain ⟨d, hd⟩ := list_len_one (cdfApply (NF.realX e) c 1 n #[] params true).ld
    (by rw [cdfApply]; exact elemwise_ld_length _ 1 n _)
  refine ⟨(cdfApply (NF.realX e) c 1 n #[] params true).out, d, ?_⟩
  show ofT (cdfApply (NF.realX e) c 1 n #[] params true) = _
  rw [ofT_of_err_none (FlowWholeND.cdfApply_rq_tails_err_none e c hc 1 n #[] params true), hd]

/-! ## 5b. the `Piecewise*CDF` stage on a full row -/

section cdfrt
variable (e : Float → ℝ) (c : ElCfg) (n : Nat) (params : Array ℝ)

/-- **an executed `Piecewise*CDF`, whole layer, on a one-row array of exactly `n` entries**: if an accepted inverse element call is
    undone by the forward element call with the negated log-det, the forward layer returns the input array exactly and the
    negated row log-det. -/
theorem roundTrip_cdfStage
    (hel : ∀ (z s : Array ℝ) (i : Nat), i < n → ∀ x l al, cdfEl (NF.realX e) c n z params true 0 i = .ok (x, l, al) →
      s.getD (0 * n + i) 0 = x → ∃ al', cdfEl (NF.realX e) c n s params false 0 i = .ok (z.getD (0 * n + i) 0, -l, al')) :
    RoundTripEq (NF.realX e) (fun z => z.size = n) (fun s => s.size = n)
      (cdfStage (NF.realX e) c n false params) (cdfStage (NF.realX e) c n true params) := by
  intro z ctx s l hz h
  obtain ⟨herr, rfl, rfl⟩ := ofT_eq_ok h
  rw [cdfApply] at herr
  have hall := (elemwise_err_none (NF.realX e) 1 n _).1 herr
  have hI : ∀ i, i < n → ∃ x l al al', cdfEl (NF.realX e) c n z params true 0 i = .ok (x, l, al) ∧
      cdfEl (NF.realX e) c n (cdfApply (NF.realX e) c 1 n z params true).out params false 0 i
        = .ok (z.getD (0 * n + i) 0, -l, al') := by
    intro i hi
    obtain ⟨⟨x, l, al⟩, hx⟩ := hall 0 i Nat.one_pos hi
    have hg : (cdfApply (NF.realX e) c 1 n z params true).out.getD (0 * n + i) 0 = x := by
      rw [Array.getD_eq_getD_getElem?, cdfApply, elemwise_out_getElem? _ 1 n _ Nat.one_pos hi, hx]
      rfl
    obtain ⟨al', h'⟩ := hel z _ i hi x l al hx hg
    exact ⟨x, l, al, al', hx, h'⟩
  have herr' : (cdfApply (NF.realX e) c 1 n (cdfApply (NF.realX e) c 1 n z params true).out params false).err = none := by
    rw [cdfApply, elemwise_err_none]
    intro b i hb hi
    obtain rfl : b = 0 := by omega
    obtain ⟨_, _, _, _, _, h2⟩ := hI i hi
    exact ⟨_, h2⟩
  have hout : (cdfApply (NF.realX e) c 1 n (cdfApply (NF.realX e) c 1 n z params true).out params false).out = z := by
    apply Array.ext_getElem?
    intro j
    by_cases hj : j < n
    · have h1 := elemwise_out_getElem? (NF.realX e) 1 n
        (cdfEl (NF.realX e) c n (cdfApply (NF.realX e) c 1 n z params true).out params false) (b := 0) Nat.one_pos hj
      obtain ⟨x, l, al, al', -, h2⟩ := hI j hj
      rw [h2] at h1
      simp only [Nat.zero_mul, Nat.zero_add] at h1
      have hjz : j < z.size := by omega
      rw [cdfApply, h1]
      simp [outOf, Array.getD, hjz]
    · have h1 : ¬ j < (cdfApply (NF.realX e) c 1 n (cdfApply (NF.realX e) c 1 n z params true).out params false).out.size := by
        rw [cdfApply, elemwise_out_size]; omega
      have h2 : ¬ j < z.size := by omega
      rw [getElem?_none_of_not_lt h1, getElem?_none_of_not_lt h2]
  obtain ⟨d, hd⟩ := list_len_one (cdfApply (NF.realX e) c 1 n z params true).ld
    (by rw [cdfApply]; exact elemwise_ld_length _ 1 n _)
  obtain ⟨d', hd'⟩ := list_len_one
    (cdfApply (NF.realX e) c 1 n (cdfApply (NF.realX e) c 1 n z params true).out params false).ld
    (by rw [cdfApply]; exact elemwise_ld_length _ 1 n _)
  refine ⟨?_, d, hd, ?_⟩
  · show (cdfApply (NF.realX e) c 1 n z params true).out.size = n
    rw [cdfApply, elemwise_out_size]; omega
  show ofT (cdfApply (NF.realX e) c 1 n (cdfApply (NF.realX e) c 1 n z params true).out params false) = _
  rw [ofT_of_err_none herr', hout, hd']
  have e1 := cdf_ld_real e c 1 n z params true Nat.one_pos
  have e2 := cdf_ld_real e c 1 n (cdfApply (NF.realX e) c 1 n z params true).out params false Nat.one_pos
  rw [hd] at e1
  rw [hd'] at e2
  simp only [List.getElem?_cons_zero, Option.some.injEq] at e1 e2
  rw [e1, e2, realX_neg, ← Finset.sum_neg_distrib]
  congr 3
  apply Finset.sum_congr rfl
  intro i _
  obtain ⟨x, l, al, al', h1, h2⟩ := hI i i.2
  rw [h1, h2]
  rfl

/-- **`PiecewiseRationalQuadraticCDF(tails='linear')`**: any accepted configuration, any parameter array, any full row -/
theorem roundTrip_cdfStage_rqTails (hc : RQTailsCfgValid e c) :
    RoundTripEq (NF.realX e) (fun z => z.size = n) (fun s => s.size = n)
      (cdfStage (NF.realX e) c n false params) (cdfStage (NF.realX e) c n true params) := by
  apply roundTrip_cdfStage
  intro z s i hi x l al hx hg
  rw [FlowWholeND.cdfEl_eq e c n z params true 0 ⟨i, hi⟩] at hx
  rw [FlowWholeND.cdfEl_eq e c n s params false 0 ⟨i, hi⟩]
  have hv := rqTailsSliceValid_of_cfg hc _ (FlowWholeND.cdfSlice_length hc params i)
  have hb : FlowWholeND.batchRow s n 0 ⟨i, hi⟩ = x := hg
  rw [hb]
  exact ⟨[], rqTails_real_invertible_rev e c hc.hk hc.ht _ hv hx⟩

/-- non-vacuity: the accepted configuration `cT2`, two features, the row `[1/2, 3]` (one entry inside, one in the tail) -/
example (params : Array ℝ) :
    ∃ s d, cdfStage (NF.realX TailsWhole.eW) cT2 2 true params 1 #[1 / 2, 3] #[] = .ok (s, [d]) ∧
      cdfStage (NF.realX TailsWhole.eW) cT2 2 false params 1 s #[] = .ok (#[1 / 2, 3], [-d]) := by
  have herr := FlowWholeND.cdfApply_rq_tails_err_none TailsWhole.eW cT2 rqTailsCfgValid_example 1 2 #[1 / 2, 3] params true
  have h : cdfStage (NF.realX TailsWhole.eW) cT2 2 true params 1 #[1 / 2, 3] #[] = .ok (_, _) := ofT_of_err_none herr
  obtain ⟨-, d, hd, hT⟩ := roundTrip_cdfStage_rqTails TailsWhole.eW cT2 2 params rqTailsCfgValid_example #[1 / 2, 3] #[] _ _ rfl h
  exact ⟨_, d, by rw [h, hd], hT⟩

end cdfrt

/-! ## 6. C04 consistency over the executed coupling layer, no round-trip hypothesis left -/

section corollaries
variable (e : Float → ℝ) (c : ElCfg) (mask : List ℝ) (S : Nat) (up up' : Array ℝ)
  (net : Nat → Array ℝ → Array ℝ → Array ℝ)
  {rcw cw R n : Nat} {emb : Nat → Array ℝ → Array ℝ} {base : BaseD ℝ} {noise ctx : Array ℝ}

/-- **C04 over the executed coupling layer (generic element family).**  `sample_and_log_prob` runs the inverse coupling pass (the
    conditioner `net` being run on the identity features and the repeated context) on the merged noise; the value it returns for
    sample `[i, j]` is what the executed `log_prob` (forward coupling pass, conditioner re-run) assigns to that sample alone
    under context row `i` alone.  Hypotheses: the element maps invert in the order inverse-then-forward, the conditioner /
    embedding / base density are row-wise, `zr` is a full one-row copy of noise row `[i, j]`. -/
theorem flowSalpExec_consistent_coupling
    (hrev : ∀ params, ElInvertibleRev (NF.realX e) c (transformIdx (NF.realX e) mask).length S params 1)
    (hnet : NetRowWise ((identityIdx (NF.realX e) mask).length * S) cw
      (paramWidth c (transformIdx (NF.realX e) mask).length * S) net)
    (hbase : RowIndepBase cw base) (hemb : EmbRowWise rcw cw emb) (hsize : R * cw ≤ (emb R ctx).size)
    {s : Array ℝ} {lps : List ℝ}
    (h : flowSalpExec (NF.realX e) (mask.length * S) cw R n emb (couplingStage (NF.realX e) c mask S true none up net) base
      noise ctx = .ok (s, lps))
    {i j : Nat} (hi : i < R) (hj : j < n) (zr cr : Array ℝ) (hzr : mask.length * S ≤ zr.size)
    (hz : RowEq (mask.length * S) (i * n + j) 0 noise zr) (hc : RowEq rcw i 0 ctx cr) :
    ∃ (si : Array ℝ) (lp : ℝ), RowEq (mask.length * S) (i * n + j) 0 s si ∧ lps[i * n + j]? = some lp ∧
      flowLogProbExec (NF.realX e) (mask.length * S) emb (couplingStage (NF.realX e) c mask S false none up' net) base 1 si cr
        = .ok [lp] :=
  flowSalpExec_consistent_on (NF.realX e) (rowWise_couplingStage (NF.realX e) c mask S true none up cw net hnet) hbase hemb hsize
    ((roundTrip_couplingStage e c mask S up up' net hrev).on _) (fun a b => sub_eq_add_neg a b) h hi hj zr cr hzr hz hc

/-- **C04 over the executed `AffineCouplingTransform`**: no round-trip hypothesis left (`1e-3` read as a non-negative real) -/
theorem flowSalpExec_consistent_coupling_affine (he : 0 ≤ e 1e-3) (hk : c.kind = "affine")
    (hnet : NetRowWise ((identityIdx (NF.realX e) mask).length * S) cw
      (paramWidth c (transformIdx (NF.realX e) mask).length * S) net)
    (hbase : RowIndepBase cw base) (hemb : EmbRowWise rcw cw emb) (hsize : R * cw ≤ (emb R ctx).size)
    {s : Array ℝ} {lps : List ℝ}
    (h : flowSalpExec (NF.realX e) (mask.length * S) cw R n emb (couplingStage (NF.realX e) c mask S true none up net) base
      noise ctx = .ok (s, lps))
    {i j : Nat} (hi : i < R) (hj : j < n) (zr cr : Array ℝ) (hzr : mask.length * S ≤ zr.size)
    (hz : RowEq (mask.length * S) (i * n + j) 0 noise zr) (hc : RowEq rcw i 0 ctx cr) :
    ∃ (si : Array ℝ) (lp : ℝ), RowEq (mask.length * S) (i * n + j) 0 s si ∧ lps[i * n + j]? = some lp ∧
      flowLogProbExec (NF.realX e) (mask.length * S) emb (couplingStage (NF.realX e) c mask S false none up' net) base 1 si cr
        = .ok [lp] :=
  flowSalpExec_consistent_coupling e c mask S up up' net
    (fun params => NF.CouplingJacobian.elInvertibleRev_affine_real e he c hk _ S params 1) hnet hbase hemb hsize h hi hj zr cr
    hzr hz hc

/-- **C04 over the executed `AdditiveCouplingTransform`** -/
theorem flowSalpExec_consistent_coupling_additive (hk : c.kind = "additive")
    (hnet : NetRowWise ((identityIdx (NF.realX e) mask).length * S) cw
      (paramWidth c (transformIdx (NF.realX e) mask).length * S) net)
    (hbase : RowIndepBase cw base) (hemb : EmbRowWise rcw cw emb) (hsize : R * cw ≤ (emb R ctx).size)
    {s : Array ℝ} {lps : List ℝ}
    (h : flowSalpExec (NF.realX e) (mask.length * S) cw R n emb (couplingStage (NF.realX e) c mask S true none up net) base
      noise ctx = .ok (s, lps))
    {i j : Nat} (hi : i < R) (hj : j < n) (zr cr : Array ℝ) (hzr : mask.length * S ≤ zr.size)
    (hz : RowEq (mask.length * S) (i * n + j) 0 noise zr) (hc : RowEq rcw i 0 ctx cr) :
    ∃ (si : Array ℝ) (lp : ℝ), RowEq (mask.length * S) (i * n + j) 0 s si ∧ lps[i * n + j]? = some lp ∧
      flowLogProbExec (NF.realX e) (mask.length * S) emb (couplingStage (NF.realX e) c mask S false none up' net) base 1 si cr
        = .ok [lp] :=
  flowSalpExec_consistent_coupling e c mask S up up' net
    (fun params => NF.CouplingJacobian.elInvertibleRev_additive_real e c hk _ S params 1) hnet hbase hemb hsize h hi hj zr cr
    hzr hz hc

/-- **C04 over the executed `PiecewiseRationalQuadraticCouplingTransform(tails='linear')`** -/
theorem flowSalpExec_consistent_coupling_rqTails (hcv : RQTailsCfgValid e c)
    (hnet : NetRowWise ((identityIdx (NF.realX e) mask).length * S) cw
      (paramWidth c (transformIdx (NF.realX e) mask).length * S) net)
    (hbase : RowIndepBase cw base) (hemb : EmbRowWise rcw cw emb) (hsize : R * cw ≤ (emb R ctx).size)
    {s : Array ℝ} {lps : List ℝ}
    (h : flowSalpExec (NF.realX e) (mask.length * S) cw R n emb (couplingStage (NF.realX e) c mask S true none up net) base
      noise ctx = .ok (s, lps))
    {i j : Nat} (hi : i < R) (hj : j < n) (zr cr : Array ℝ) (hzr : mask.length * S ≤ zr.size)
    (hz : RowEq (mask.length * S) (i * n + j) 0 noise zr) (hc : RowEq rcw i 0 ctx cr) :
    ∃ (si : Array ℝ) (lp : ℝ), RowEq (mask.length * S) (i * n + j) 0 s si ∧ lps[i * n + j]? = some lp ∧
      flowLogProbExec (NF.realX e) (mask.length * S) emb (couplingStage (NF.realX e) c mask S false none up' net) base 1 si cr
        = .ok [lp] :=
  flowSalpExec_consistent_coupling e c mask S up up' net
    (fun params => elInvertibleRev_rq_tails_real e c hcv _ S params 1) hnet hbase hemb hsize h hi hj zr cr hzr hz hc

end corollaries

/-! ## 7. non-vacuity: the premises are satisfiable and the conclusions are about accepted calls -/

section examples

/-- an accepted inverse coupling call always exists when the family never raises -/
theorem couplingStage_accepted (o : XOps α) (c : ElCfg) (mask : List α) (S : Nat) (inverse : Bool) (up : Array α)
    (net : Nat → Array α → Array α → Array α) (z ctx : Array α)
    (herr : ∀ params, (couplingApply o c mask 1 S z params inverse none up).err = none) :
    ∃ s d, couplingStage o c mask S inverse none up net 1 z ctx = .ok (s, [d]) := by
  obtain ⟨d, hd⟩ := list_len_one _ (coupling_ld_length o c mask S inverse none up 1 z
    (net 1 (condInOf o mask S inverse none up 1 z) ctx))
  refine ⟨(couplingApply o c mask 1 S z (net 1 (condInOf o mask S inverse none up 1 z) ctx) inverse none up).out, d, ?_⟩
  show ofT (couplingApply o c mask 1 S z (net 1 (condInOf o mask S inverse none up 1 z) ctx) inverse none up) = _
  rw [ofT_of_err_none (herr _), hd]

/-- additive coupling, mask `[0, 1]`, ANY conditioner, the row `[1, 2]`: the inverse call is accepted and the forward call undoes it -/
example (e : Float → ℝ) (net : Nat → Array ℝ → Array ℝ → Array ℝ) (ctx : Array ℝ) :
    ∃ s d, couplingStage (NF.realX e) { kind := "additive" } [0, 1] 1 true none #[] net 1 #[1, 2] ctx = .ok (s, [d]) ∧
      couplingStage (NF.realX e) { kind := "additive" } [0, 1] 1 false none #[] net 1 s ctx = .ok (#[1, 2], [-d]) := by
  obtain ⟨s, d, h⟩ := couplingStage_accepted (NF.realX e) { kind := "additive" } [0, 1] 1 true #[] net #[1, 2] ctx
    (fun params => coupling_additive_err_none (NF.realX e) _ rfl _ 1 1 _ params _ true)
  obtain ⟨-, d', hd, hT⟩ := roundTrip_couplingStage_additive e { kind := "additive" } [0, 1] 1 #[] #[] net rfl
    #[1, 2] ctx s [d] (by simp) h
  obtain rfl : d = d' := by simpa using hd
  exact ⟨s, d, h, hT⟩

/-- affine coupling (RealNVP), `e` reading every double as `0` (so `0 ≤ e 1e-3`), ANY conditioner -/
example (net : Nat → Array ℝ → Array ℝ → Array ℝ) (ctx : Array ℝ) :
    ∃ s d, couplingStage (NF.realX fun _ => 0) { kind := "affine" } [1, 0, 1] 1 true none #[] net 1 #[1, 2, 3] ctx = .ok (s, [d]) ∧
      couplingStage (NF.realX fun _ => 0) { kind := "affine" } [1, 0, 1] 1 false none #[] net 1 s ctx = .ok (#[1, 2, 3], [-d]) := by
  obtain ⟨s, d, h⟩ := couplingStage_accepted (NF.realX fun _ => 0) { kind := "affine" } [1, 0, 1] 1 true #[] net #[1, 2, 3] ctx
    (fun params => coupling_affine_err_none (NF.realX fun _ => 0) _ rfl _ 1 1 _ params _ true)
  obtain ⟨-, d', hd, hT⟩ := roundTrip_couplingStage_affine (fun _ => 0) { kind := "affine" } [1, 0, 1] 1 #[] #[] net
    le_rfl rfl #[1, 2, 3] ctx s [d] (by simp) h
  obtain rfl : d = d' := by simpa using hd
  exact ⟨s, d, h, hT⟩

/-- RQ coupling with linear tails at the accepted configuration `cT2` of `StructureExecRQTails` -/
example (net : Nat → Array ℝ → Array ℝ → Array ℝ) (ctx : Array ℝ) :
    ∃ s d, couplingStage (NF.realX TailsWhole.eW) cT2 [1, 0] 1 true none #[] net 1 #[1, 2] ctx = .ok (s, [d]) ∧
      couplingStage (NF.realX TailsWhole.eW) cT2 [1, 0] 1 false none #[] net 1 s ctx = .ok (#[1, 2], [-d]) := by
  obtain ⟨s, d, h⟩ := couplingStage_accepted (NF.realX TailsWhole.eW) cT2 [1, 0] 1 true #[] net #[1, 2] ctx
    (fun params => coupling_rq_tails_err_none TailsWhole.eW cT2 rqTailsCfgValid_example _ 1 1 _ params _ true)
  obtain ⟨-, d', hd, hT⟩ := roundTrip_couplingStage_rqTails TailsWhole.eW cT2 [1, 0] 1 #[] #[] net rqTailsCfgValid_example
    #[1, 2] ctx s [d] (by simp) h
  obtain rfl : d = d' := by simpa using hd
  exact ⟨s, d, h, hT⟩

/-- a composite [additive coupling, affine coupling, additive coupling] with three different conditioners round trips exactly -/
example (net1 net2 net3 : Nat → Array ℝ → Array ℝ → Array ℝ) :
    RoundTripEq (NF.realX fun _ => 0) (fun z => 2 ≤ z.size) (fun z => 2 ≤ z.size)
      (compStage (NF.realX fun _ => 0)
        [couplingStage (NF.realX fun _ => 0) { kind := "additive" } [0, 1] 1 false none #[] net1,
         couplingStage (NF.realX fun _ => 0) { kind := "affine" } [1, 0] 1 false none #[] net2,
         couplingStage (NF.realX fun _ => 0) { kind := "additive" } [0, 1] 1 false none #[] net3])
      (compStage (NF.realX fun _ => 0)
        [couplingStage (NF.realX fun _ => 0) { kind := "additive" } [0, 1] 1 true none #[] net3,
         couplingStage (NF.realX fun _ => 0) { kind := "affine" } [1, 0] 1 true none #[] net2,
         couplingStage (NF.realX fun _ => 0) { kind := "additive" } [0, 1] 1 true none #[] net1]) := by
  have h := roundTrip_compStage (fun _ => 0) (fun z => 2 ≤ z.size)
    [(couplingStage (NF.realX fun _ => 0) { kind := "additive" } [0, 1] 1 false none #[] net1,
      couplingStage (NF.realX fun _ => 0) { kind := "additive" } [0, 1] 1 true none #[] net1),
     (couplingStage (NF.realX fun _ => 0) { kind := "affine" } [1, 0] 1 false none #[] net2,
      couplingStage (NF.realX fun _ => 0) { kind := "affine" } [1, 0] 1 true none #[] net2),
     (couplingStage (NF.realX fun _ => 0) { kind := "additive" } [0, 1] 1 false none #[] net3,
      couplingStage (NF.realX fun _ => 0) { kind := "additive" } [0, 1] 1 true none #[] net3)] (by
    intro p hp
    simp only [List.mem_cons, List.not_mem_nil, or_false] at hp
    rcases hp with rfl | rfl | rfl
    · exact roundTrip_couplingStage_additive _ _ [0, 1] 1 #[] #[] net1 rfl
    · exact roundTrip_couplingStage_affine _ _ [1, 0] 1 #[] #[] net2 le_rfl rfl
    · exact roundTrip_couplingStage_additive _ _ [0, 1] 1 #[] #[] net3 rfl)
  exact h

/-- `Exp` layer on the row `[1, 2]`: the inverse (`log`) is accepted, the forward undoes it with the negated log-det -/
example (e : Float → ℝ) :
    ∃ s d, nonlinStage (NF.realX e) "Exp" #[] [] true 1 #[1, 2] #[] = .ok (s, [d]) ∧
      nonlinStage (NF.realX e) "Exp" #[] [] false 1 s #[] = .ok (#[1, 2], [-d]) := by
  have herr : (nonlinApply (NF.realX e) "Exp" #[] [] 1 #[1, 2] true).err = none := by
    rw [NonlinExec.nonlinApply_err_none_iff]
    intro xi hxi
    apply (NonlinExec.expT_inv_ok_iff e xi).2
    simp only [List.mem_cons, List.not_mem_nil, or_false] at hxi
    rcases hxi with rfl | rfl <;> norm_num
  have h : nonlinStage (NF.realX e) "Exp" #[] [] true 1 #[1, 2] #[] = .ok (_, _) := ofT_of_err_none herr
  obtain ⟨-, d, hd, hT⟩ := roundTrip_nonlinStage_exp e #[] [] 2 #[1, 2] #[] _ _ ⟨rfl, fun _ _ => trivial⟩ h
  exact ⟨_, d, by rw [h, hd], hT⟩

/-- `LeakyReLU` at the witness constants of `NonlinExec` and `Tanh` at `NonlinExec.eTanh`: the hypotheses are satisfiable -/
example (n : Nat) := roundTrip_nonlinStage_leakyRelu NonlinExec.eLeaky #[0.01] [Real.log (1 / 100)]
  (by simpa using NonlinExec.leakyConsts_example) n
example (n : Nat) := roundTrip_nonlinStage_affine (fun _ => 0) #[] [2, 5] (by norm_num) n

end examples

end NF.StageMore
