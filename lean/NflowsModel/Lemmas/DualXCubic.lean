import NflowsModel.Lemmas.DualXQuad
import NflowsModel.Lemmas.CubicWhole
/-!
# Lemmas/DualXCubic — the EXECUTED piecewise-cubic (monotone Hermite) spline (forward) run on dual numbers (C16)

* `cubicSpline_unfoldG` (by `rfl`): for EVERY instance `o : XOps α` the executed forward program is a named-list normal form
  (`Wg`, `Hg`, `cumwG`, `cumhG`, `slopesG`, `msG`, `sgnG`, `derivsOfG`, `aLofG`, `bLofG`, `tailProgG`); at `NF.realX e` these are
  definitionally the lists of `Lemmas/CubicWhole.lean`;
* `hom_zipWith`, `hom_minPair`, `hom_getD`, `hom_sign`, `hom_ms2f`, `hom_W … hom_bLof`: every list stage of `cubicSpline`
  (slopes, `minPair`/`ms2f` knot derivatives, `sign`, sigmoid end derivatives, `take`/`drop`/`getD` coefficient stages)
  commutes with any `DualX.XHom`;
* `tailProg_dual_exec`, `cubicSpline_dual_exec`: with zero-tangent parameters the dual program passes the guards, selects the
  same bin as the real program (the search sees value components only), all gathers succeed, and the result is the clamp /
  rescale / `+ boxLog` post-processing of that bin's two `Expr` terms evaluated on `[x', ι lcw, ι a, ι b, ι c, ι d]`;
* `binN_isDual`, `binD_isDual`, `bin_dual`: per-bin soundness (the two terms are polynomials: smooth everywhere); the
  `clamp 0 1` is not at a tie anywhere in the open box (`nval_unit_open`, derived); the `log` argument is positive;
* `cubicSpline_dual_core` / `cubicSpline_dualRes` (no hypothesis on the reading of `boxLog`) and the headline
  `cubicSpline_dual`: for `x` strictly inside a bin the dual run returns `((val x, exp (ld x)), (ld x, l'), [])` with
  `exp (ld x)` the derivative of `CubicWhole.val` and `l'` the derivative of `CubicWhole.ld`;
* `cubicSpline_dual_all`, `cubicSpline_dual_knot`: at EVERY point of the open box, interior knots included, the dual run
  returns the real outputs and its value tangent is the true derivative `exp (ld x)` (the spline is C¹);
* `cubicSpline_dual_example`, `cubicSpline_dual_example'`, `cubicSpline_dual_knot_example`: non-vacuity at
  `CubicWhole.valid_example`.
-/
open NF DualSound DualX Filter Topology

namespace DualXCubic

/-! ### the program in a named-list normal form, generic in the scalar operations -/
section gen
variable {α : Type} (o : XOps α) (c : CCfg)

def Wg (uw : List α) : List α := flooredSoftmax o c.minW uw
def Hg (uh : List α) : List α := flooredSoftmax o c.minH uh
def cumwG (uw : List α) : List α := o.zero :: setLast (cumsumG o (Wg o c uw)) o.one
def cumhG (uh : List α) : List α := o.zero :: setLast (cumsumG o (Hg o c uh)) o.one
def slopesG (uw uh : List α) : List α := List.zipWith o.div (Hg o c uh) (Wg o c uw)
def msG (uw uh : List α) : List α :=
  List.zipWith o.minA (minPair o (fun a b => o.minA (o.abs a) (o.abs b)) (slopesG o c uw uh))
    (cubicSpline.ms2f o (Wg o c uw) (slopesG o c uw uh))
def sgnG (uw uh : List α) : List α := minPair o (fun a b => o.add (o.sign a) (o.sign b)) (slopesG o c uw uh)
def derivsOfG (uw uh : List α) (udl udr s0 sl : α) : List α :=
  o.mul (o.mul (o.sigmoid udl) (o.ofNat 3)) s0 ::
    (List.zipWith o.mul (msG o c uw uh) (sgnG o c uw uh) ++ [o.mul (o.mul (o.sigmoid udr) (o.ofNat 3)) sl])
/-- the two per-bin coefficient formulas -/
def aEl (l r s w : α) : α := o.div (o.sub (o.add l r) (o.mul o.two s)) (o.mul w w)
def bEl (l r s w : α) : α := o.div (o.sub (o.sub (o.mul (o.ofNat 3) s) (o.mul o.two l)) r) w
def aLofG (K : ℕ) (uw uh dv : List α) : List α :=
  (List.range K).map (fun k => aEl o ((dv.take K).getD k o.zero) ((dv.drop 1).getD k o.zero)
    ((slopesG o c uw uh).getD k o.zero) ((Wg o c uw).getD k o.one))
def bLofG (K : ℕ) (uw uh dv : List α) : List α :=
  (List.range K).map (fun k => bEl o ((dv.take K).getD k o.zero) ((dv.drop 1).getD k o.zero)
    ((slopesG o c uw uh).getD k o.zero) ((Wg o c uw).getD k o.one))
def xnG (x : α) : α := o.div (o.sub x (o.ofFloat c.box.left)) (o.ofFloat (c.box.right - c.box.left))

/-- everything after the knot derivatives: search, seven gathers, closed form, clamp, rescaling -/
def tailProgG (K : ℕ) (uw uh dv : List α) (t : α) : Except Err (α × α × List α) := do
  let idx := searchsortedG o c.seps (cumwG o c uw) t
  let ia ← getI (aLofG o c K uw uh dv) idx
  let ib ← getI (bLofG o c K uw uh dv) idx
  let ic ← getI (dv.take K) idx
  let id ← getI (cumhG o c uh) idx
  let lcw ← getI (cumwG o c uw) idx
  let _rcw ← getI (cumwG o c uw) (idx + 1)
  let _ih ← getI (Hg o c uh) idx
  let env := [t, lcw, ia, ib, ic, id]
  let out := o.clamp o.zero o.one (evalX o env cubicFwdE)
  let ld := o.log (evalX o env cubicDerivE)
  return (o.add (o.mul out (o.ofFloat (c.box.top - c.box.bottom))) (o.ofFloat c.box.bottom),
    o.add ld (o.ofFloat (boxLog c.box)), [])

/-- **the executed forward program IS this normal form, for every instance of the scalar operations** (definitional) -/
theorem cubicSpline_unfoldG (uw uh : List α) (udl udr x : α) :
    cubicSpline o c uw uh udl udr false x =
      (if o.lt x (o.ofFloat c.box.left) || o.lt (o.ofFloat c.box.right) x then throw .outsideDomain
       else if c.minW * uw.length.toFloat > 1.0 then throw .valueError
       else if c.minH * uw.length.toFloat > 1.0 then throw .valueError
       else do
        let s0 ← getI (slopesG o c uw uh) 0
        let sl ← getI (slopesG o c uw uh) (Int.ofNat uw.length - 1)
        tailProgG o c uw.length uw uh (derivsOfG o c uw uh udl udr s0 sl) (xnG o c x)) := rfl

end gen

/-! ### the list stages of `cubicSpline` commute with any homomorphism of `XOps` -/
section homfree
variable {α β : Type} {φ : α → β}

theorem hom_zipWith (f : α → α → α) (g : β → β → β) (hfg : ∀ a b, φ (f a b) = g (φ a) (φ b)) :
    ∀ a b : List α, (List.zipWith f a b).map φ = List.zipWith g (a.map φ) (b.map φ)
  | [], _ => by simp
  | _ :: _, [] => by simp
  | x :: a, y :: b => by
    simp only [List.zipWith_cons_cons, List.map_cons, hfg, hom_zipWith f g hfg a b]

theorem hom_minPair (o₁ : XOps α) (o₂ : XOps β) (f : α → α → α) (g : β → β → β)
    (hfg : ∀ a b, φ (f a b) = g (φ a) (φ b)) :
    ∀ l : List α, (minPair o₁ f l).map φ = minPair o₂ g (l.map φ)
  | [] => rfl
  | [_] => rfl
  | a :: b :: r => by
    have := hom_minPair o₁ o₂ f g hfg (b :: r)
    simp only [List.map_cons] at this
    simp only [minPair, List.map_cons, hfg, this]

theorem hom_getD (l : List α) (k : ℕ) (d : α) : (l.map φ).getD k (φ d) = φ (l.getD k d) := by
  simp only [List.getD_eq_getElem?_getD, List.getElem?_map]
  cases l[k]? <;> rfl

end homfree

section hom
variable {α β : Type} {o₁ : XOps α} {o₂ : XOps β} {φ : α → β} (h : XHom o₁ o₂ φ)
include h

theorem hom_ofNat (n : ℕ) : φ (o₁.ofNat n) = o₂.ofNat n := h.ofRat n 1

theorem hom_sign (x : α) : φ (o₁.sign x) = o₂.sign (φ x) := by
  simp only [XOps.sign, h.ite_lt, h.zero, h.neg, h.one]

theorem hom_ms2f (w s : List α) :
    (cubicSpline.ms2f o₁ w s).map φ = cubicSpline.ms2f o₂ (w.map φ) (s.map φ) := by
  induction w generalizing s with
  | nil => simp [cubicSpline.ms2f]
  | cons w0 wt ih =>
    cases wt with
    | nil => simp [cubicSpline.ms2f]
    | cons w1 wr =>
      match s with
      | [] => simp [cubicSpline.ms2f]
      | [_] => simp [cubicSpline.ms2f]
      | s0 :: s1 :: sr =>
        have := ih (s1 :: sr)
        simp only [List.map_cons] at this
        simp only [cubicSpline.ms2f, List.map_cons, h.div, h.mul, h.add, h.ofFloat, this]

variable (c : CCfg)

theorem hom_W (uw : List α) : (Wg o₁ c uw).map φ = Wg o₂ c (uw.map φ) := h.flooredSoftmax _ _
theorem hom_H (uh : List α) : (Hg o₁ c uh).map φ = Hg o₂ c (uh.map φ) := h.flooredSoftmax _ _

theorem hom_cumw (uw : List α) : (cumwG o₁ c uw).map φ = cumwG o₂ c (uw.map φ) := by
  unfold cumwG
  rw [List.map_cons, XHom.setLast, h.cumsumG, hom_W h, h.zero, h.one]

theorem hom_cumh (uh : List α) : (cumhG o₁ c uh).map φ = cumhG o₂ c (uh.map φ) := by
  unfold cumhG
  rw [List.map_cons, XHom.setLast, h.cumsumG, hom_H h, h.zero, h.one]

theorem hom_slopes (uw uh : List α) : (slopesG o₁ c uw uh).map φ = slopesG o₂ c (uw.map φ) (uh.map φ) := by
  unfold slopesG
  rw [hom_zipWith _ _ h.div, hom_H h, hom_W h]

theorem hom_ms (uw uh : List α) : (msG o₁ c uw uh).map φ = msG o₂ c (uw.map φ) (uh.map φ) := by
  unfold msG
  rw [hom_zipWith _ _ h.minA,
    hom_minPair o₁ o₂ (fun a b => o₁.minA (o₁.abs a) (o₁.abs b)) (fun a b => o₂.minA (o₂.abs a) (o₂.abs b))
      (fun a b => by rw [h.minA, h.abs, h.abs]),
    hom_ms2f h, hom_slopes h, hom_W h]

theorem hom_sgn (uw uh : List α) : (sgnG o₁ c uw uh).map φ = sgnG o₂ c (uw.map φ) (uh.map φ) := by
  unfold sgnG
  rw [hom_minPair o₁ o₂ (fun a b => o₁.add (o₁.sign a) (o₁.sign b)) (fun a b => o₂.add (o₂.sign a) (o₂.sign b))
      (fun a b => by rw [h.add, hom_sign h, hom_sign h]), hom_slopes h]

theorem hom_derivsOf (uw uh : List α) (udl udr s0 sl : α) :
    (derivsOfG o₁ c uw uh udl udr s0 sl).map φ
      = derivsOfG o₂ c (uw.map φ) (uh.map φ) (φ udl) (φ udr) (φ s0) (φ sl) := by
  unfold derivsOfG
  simp only [List.map_cons, List.map_append, List.map_nil, h.mul, h.sigmoid, hom_ofNat h, hom_zipWith _ _ h.mul,
    hom_ms h, hom_sgn h]

theorem hom_aEl (l r s w : α) : φ (aEl o₁ l r s w) = aEl o₂ (φ l) (φ r) (φ s) (φ w) := by
  simp only [aEl, h.div, h.sub, h.add, h.mul, DualXQuad.hom_two h]

theorem hom_bEl (l r s w : α) : φ (bEl o₁ l r s w) = bEl o₂ (φ l) (φ r) (φ s) (φ w) := by
  simp only [bEl, h.div, h.sub, h.mul, DualXQuad.hom_two h, hom_ofNat h]

theorem hom_aLof (K : ℕ) (uw uh dv : List α) :
    (aLofG o₁ c K uw uh dv).map φ = aLofG o₂ c K (uw.map φ) (uh.map φ) (dv.map φ) := by
  unfold aLofG
  rw [List.map_map, ← hom_slopes h, ← hom_W h, ← List.map_take, ← List.map_drop, ← h.zero, ← h.one]
  apply List.map_congr_left
  intro k _
  simp only [Function.comp, hom_getD, hom_aEl h]

theorem hom_bLof (K : ℕ) (uw uh dv : List α) :
    (bLofG o₁ c K uw uh dv).map φ = bLofG o₂ c K (uw.map φ) (uh.map φ) (dv.map φ) := by
  unfold bLofG
  rw [List.map_map, ← hom_slopes h, ← hom_W h, ← List.map_take, ← List.map_drop, ← h.zero, ← h.one]
  apply List.map_congr_left
  intro k _
  simp only [Function.comp, hom_getD, hom_bEl h]

end hom

noncomputable section
open CubicWhole
variable (e : Float → ℝ)

/-! ### the real program of `Lemmas/CubicWhole.lean` is the generic normal form at `NF.realX e` -/

theorem tailProg_eq_G (c : CCfg) (uw uh dv : List ℝ) (t : ℝ) :
    tailProg e c uw uh dv t = tailProgG (NF.realX e) c uw.length uw uh dv t := rfl

/-! ### the per-bin dual environment and the two outputs the dual program forms from it -/

/-- dual environment of bin `k`: the dual normalised input and the zero-tangent gathered coefficients -/
def envD (c : CCfg) (uw uh : List ℝ) (udl udr : ℝ) (k : ℕ) (x' : ℝ × ℝ) : List (ℝ × ℝ) :=
  [x', ι (cws e c uw k), ι (aK e c uw uh udl udr k), ι (bK e c uw uh udl udr k), ι (dv e c uw uh udl udr k),
    ι (chs e c uh k)]

def yD (c : CCfg) (env : List (ℝ × ℝ)) : ℝ × ℝ :=
  (dualX (NF.realX e)).add ((dualX (NF.realX e)).mul
    ((dualX (NF.realX e)).clamp (dualX (NF.realX e)).zero (dualX (NF.realX e)).one (evalX (dualX (NF.realX e)) env cubicFwdE))
    ((dualX (NF.realX e)).ofFloat (c.box.top - c.box.bottom))) ((dualX (NF.realX e)).ofFloat c.box.bottom)
def lD (c : CCfg) (env : List (ℝ × ℝ)) : ℝ × ℝ :=
  (dualX (NF.realX e)).add ((dualX (NF.realX e)).log (evalX (dualX (NF.realX e)) env cubicDerivE))
    ((dualX (NF.realX e)).ofFloat (boxLog c.box))

/-- the dual normalised input the program forms from the seeded input `(x, 1)` -/
def xnD (c : CCfg) (x : ℝ) : ℝ × ℝ := xnG (dualX (NF.realX e)) c (x, 1)

variable {e}
variable {c : CCfg} {uw uh : List ℝ} {udl udr : ℝ}

/-- **the dual tail (search, seven gathers, closed form) on zero-tangent lists and ANY dual normalised input with value
    in `[0,1]`** selects the same bin as the real program and evaluates that bin's two terms on
    `[x', ι lcw, ι a, ι b, ι c, ι d]` -/
theorem tailProg_dual_exec (hv : CubicValid e c uw uh) (x' : ℝ × ℝ) (ht0 : 0 ≤ x'.1) (ht1 : x'.1 ≤ 1) :
    tailProgG (dualX (NF.realX e)) c uw.length (uw.map ι) (uh.map ι) ((derivs e c uw uh udl udr).map ι) x'
      = .ok (yD e c (envD e c uw uh udl udr (idxN e c uw x'.1) x'),
             lD e c (envD e c uw uh udl udr (idxN e c uw x'.1) x'), []) := by
  obtain ⟨hspec, hsearch⟩ := search_spec hv
  obtain ⟨hiK, _, _⟩ := hspec x'.1 (by rw [cws_zero hv]; exact ht0) (by rw [cws_last hv]; exact ht1)
  set i := idxN e c uw x'.1 with hi
  have hL := lift_hom e
  have hcwlen := (cumw_facts hv).1
  have hchlen := (cumh_facts hv).1
  have hHlen := (H_facts hv).1
  have hdlen := derivs_length (udl := udl) (udr := udr) hv
  have haLlen : (aLof e c uw uh (derivs e c uw uh udl udr)).length = uw.length := by simp [aLof]
  have hbLlen : (bLof e c uw uh (derivs e c uw uh udl udr)).length = uw.length := by simp [bLof]
  have htklen : ((derivs e c uw uh udl udr).take uw.length).length = uw.length := by
    rw [List.length_take, hdlen]; omega
  have hi1 : ((i : Int) + 1) = ((i + 1 : ℕ) : Int) := by push_cast; rfl
  have hic : ((derivs e c uw uh udl udr).take uw.length)[i]'(by omega) = dv e c uw uh udl udr i := by
    rw [RQWhole.getElem_eq_getD, getD_take _ _ _ hiK]; rfl
  have hcw : cumwG (dualX (NF.realX e)) c (uw.map ι) = (cumw e c uw).map ι := (hom_cumw hL c uw).symm
  have hch : cumhG (dualX (NF.realX e)) c (uh.map ι) = (cumh e c uh).map ι := (hom_cumh hL c uh).symm
  have hH : Hg (dualX (NF.realX e)) c (uh.map ι) = (H e c uh).map ι := (hom_H hL c uh).symm
  have haL : aLofG (dualX (NF.realX e)) c uw.length (uw.map ι) (uh.map ι) ((derivs e c uw uh udl udr).map ι)
      = (aLof e c uw uh (derivs e c uw uh udl udr)).map ι := (hom_aLof hL c uw.length uw uh _).symm
  have hbL : bLofG (dualX (NF.realX e)) c uw.length (uw.map ι) (uh.map ι) ((derivs e c uw uh udl udr).map ι)
      = (bLof e c uw uh (derivs e c uw uh udl udr)).map ι := (hom_bLof hL c uw.length uw uh _).symm
  have hs : searchsortedG (dualX (NF.realX e)) c.seps ((cumw e c uw).map ι) x' = ((i : ℕ) : Int) := by
    rw [(fst_hom e).searchsortedG, List.map_map, fst_ι, List.map_id]
    exact hsearch x'.1 ht0 ht1
  unfold tailProgG
  simp only [hcw, hch, hH, haL, hbL, hs, ← List.map_take]
  rw [XHom.getI_ok (φ := ι) _ _ _
      (SplineTotal.getI_ok _ i (by omega : i < (aLof e c uw uh (derivs e c uw uh udl udr)).length)),
    XHom.getI_ok (φ := ι) _ _ _
      (SplineTotal.getI_ok _ i (by omega : i < (bLof e c uw uh (derivs e c uw uh udl udr)).length)),
    XHom.getI_ok (φ := ι) _ _ _
      (SplineTotal.getI_ok _ i (by omega : i < ((derivs e c uw uh udl udr).take uw.length).length)),
    XHom.getI_ok (φ := ι) _ _ _ (SplineTotal.getI_ok (cumh e c uh) i (by omega)),
    XHom.getI_ok (φ := ι) _ _ _ (SplineTotal.getI_ok (cumw e c uw) i (by omega)),
    hi1, XHom.getI_ok (φ := ι) _ _ _ (SplineTotal.getI_ok (cumw e c uw) (i+1) (by omega)),
    XHom.getI_ok (φ := ι) _ _ _ (SplineTotal.getI_ok (H e c uh) i (by omega))]
  simp only [bind_ok, aLof_get hv i hiK, bLof_get hv i hiK, hic, RQWhole.getElem_eq_getD]
  rfl

/-- the value component of the dual normalised input is the real normalised input -/
theorem xnD_fst (x : ℝ) : (xnD e c x).1 = xn e c x := rfl

theorem xnD_isDual (hv : CubicValid e c uw uh) (x : ℝ) : IsDual (xn e c) x (xnD e c x) := by
  have hD : e c.box.right - e c.box.left ≠ 0 := (sub_pos.mpr hv.hlr).ne'
  refine (IsDual.div e (IsDual.sub e (IsDual.id x) (IsDual.ofFloat e c.box.left x))
    (IsDual.ofFloat e (c.box.right - c.box.left) x) ?_).congr_fun (fun s => rfl)
  rw [d_ofFloat, hv.hdlr]; exact hD

/-- **the dual program selects the same bin and evaluates that bin's terms on dual numbers** — for every `x` in the
    domain, parameters entering with zero tangent (floored softmax, cumsum, pinned knots, slopes, `minPair`/`ms2f`
    knot derivatives, sigmoid end derivatives, per-bin coefficients, search, gathers all act on / keep zero tangents) -/
theorem cubicSpline_dual_exec (hv : CubicValid e c uw uh) (x : ℝ) (hx0 : e c.box.left ≤ x) (hx1 : x ≤ e c.box.right) :
    cubicSpline (dualX (NF.realX e)) c (uw.map ι) (uh.map ι) (ι udl) (ι udr) false (x, 1)
      = .ok (yD e c (envD e c uw uh udl udr (idxN e c uw (xn e c x)) (xnD e c x)),
             lD e c (envD e c uw uh udl udr (idxN e c uw (xn e c x)) (xnD e c x)), []) := by
  have hK := K_pos hv
  have hsl := slopes_length hv
  have hL := lift_hom e
  have hg1 : ((dualX (NF.realX e)).lt (x, 1) ((dualX (NF.realX e)).ofFloat c.box.left)
      || (dualX (NF.realX e)).lt ((dualX (NF.realX e)).ofFloat c.box.right) (x, 1)) = false := by
    simp only [d_lt, d_ofFloat, Bool.or_eq_false_iff, decide_eq_false_iff_not, not_lt]
    exact ⟨hx0, hx1⟩
  have h0 : getI (slopes e c uw uh) 0 = .ok (sv e c uw uh 0) := by
    have := SplineTotal.getI_ok (slopes e c uw uh) 0 (by omega)
    rw [RQWhole.getElem_eq_getD] at this
    exact this
  have hl : getI (slopes e c uw uh) (Int.ofNat uw.length - 1) = .ok (sv e c uw uh (uw.length - 1)) := by
    have := SplineTotal.getI_ok (slopes e c uw uh) (uw.length - 1) (by omega)
    rw [RQWhole.getElem_eq_getD] at this
    have hc : ((uw.length - 1 : ℕ) : Int) = Int.ofNat uw.length - 1 := by
      simp only [Int.ofNat_eq_natCast]; omega
    rw [hc] at this
    exact this
  have hS : slopesG (dualX (NF.realX e)) c (uw.map ι) (uh.map ι) = (slopes e c uw uh).map ι :=
    (hom_slopes hL c uw uh).symm
  have hdv : derivsOfG (dualX (NF.realX e)) c (uw.map ι) (uh.map ι) (ι udl) (ι udr) (ι (sv e c uw uh 0))
      (ι (sv e c uw uh (uw.length - 1))) = (derivs e c uw uh udl udr).map ι :=
    (hom_derivsOf hL c uw uh udl udr _ _).symm
  obtain ⟨ht0, ht1⟩ := xn_unit hv x hx0 hx1
  rw [cubicSpline_unfoldG]
  simp only [hg1, List.length_map, hv.hgW, hv.hgH, Bool.false_eq_true, if_false, hS]
  rw [XHom.getI_ok (φ := ι) _ _ _ h0, XHom.getI_ok (φ := ι) _ _ _ hl]
  simp only [bind_ok, hdv]
  exact tailProg_dual_exec hv (xnG (dualX (NF.realX e)) c (x, 1)) ht0 ht1

/-! ### per-bin soundness: both bin terms are polynomials, hence smooth everywhere -/

theorem cubicFwd_smooth (env : ℕ → ℝ) : Smooth env cubicFwdE := by
  simp only [cubicFwdE, NF.v, Expr.add_def, Expr.sub_def, Expr.mul_def, Smooth, and_self]

theorem cubicDeriv_smooth (env : ℕ → ℝ) : Smooth env cubicDerivE := by
  simp only [cubicDerivE, NF.v, Expr.add_def, Expr.sub_def, Expr.mul_def, Expr.ofNat_def, Smooth, and_self]

/-- an `Expr` term evaluated on `[x', ι a₁, …, ι a₅]`, where `x'` is the dual of any differentiable `g` at `x` -/
theorem cEnv_isDual {g : ℝ → ℝ} {x : ℝ} {x' : ℝ × ℝ} (hx : IsDual g x x') (a1 a2 a3 a4 a5 : ℝ) (E : Expr)
    (hs : Smooth (Bridge.cEnv (g x) a1 a2 a3 a4 a5) E) :
    IsDual (fun z => evalR (Bridge.cEnv (g z) a1 a2 a3 a4 a5) E) x
      (evalX (dualX (NF.realX e)) [x', ι a1, ι a2, ι a3, ι a4, ι a5] E) :=
  DualXQuad.qEnv_isDual e hx a1 a2 a3 a4 a5 E hs

/-- the dual evaluation of bin `k`'s value polynomial is its (value, derivative) pair — at EVERY point -/
theorem binN_isDual {g : ℝ → ℝ} {x : ℝ} {x' : ℝ × ℝ} (hx : IsDual g x x') (k : ℕ) :
    IsDual (fun z => binN e c uw uh udl udr k (g z)) x
      (evalX (dualX (NF.realX e)) (envD e c uw uh udl udr k x') cubicFwdE) :=
  cEnv_isDual hx _ _ _ _ _ cubicFwdE (cubicFwd_smooth _)

theorem binD_isDual {g : ℝ → ℝ} {x : ℝ} {x' : ℝ × ℝ} (hx : IsDual g x x') (k : ℕ) :
    IsDual (fun z => binD e c uw uh udl udr k (g z)) x
      (evalX (dualX (NF.realX e)) (envD e c uw uh udl udr k x') cubicDerivE) :=
  cEnv_isDual hx _ _ _ _ _ cubicDerivE (cubicDeriv_smooth _)

/-- the two outputs of the real program when bin `k` is selected (exactly the shape `exec_eq_bin` returns) -/
def Fk (e : Float → ℝ) (c : CCfg) (uw uh : List ℝ) (udl udr : ℝ) (k : ℕ) (z : ℝ) : ℝ :=
  (NF.realX e).clamp 0 1 (binN e c uw uh udl udr k (xn e c z)) * e (c.box.top - c.box.bottom) + e c.box.bottom
def Gk (e : Float → ℝ) (c : CCfg) (uw uh : List ℝ) (udl udr : ℝ) (k : ℕ) (z : ℝ) : ℝ :=
  Real.log (binD e c uw uh udl udr k (xn e c z)) + e (boxLog c.box)

theorem val_eq_Fk (hv : CubicValid e c uw uh) (x : ℝ) (hx0 : e c.box.left ≤ x) (hx1 : x ≤ e c.box.right) :
    val e c uw uh udl udr x = Fk e c uw uh udl udr (idxN e c uw (xn e c x)) x := by
  unfold val; rw [exec_eq_bin hv x hx0 hx1]; rfl

theorem ld_eq_Gk (hv : CubicValid e c uw uh) (x : ℝ) (hx0 : e c.box.left ≤ x) (hx1 : x ≤ e c.box.right) :
    ld e c uw uh udl udr x = Gk e c uw uh udl udr (idxN e c uw (xn e c x)) x := by
  unfold ld; rw [exec_eq_bin hv x hx0 hx1]; rfl

/-- per-bin soundness with the clamp / rescale / `+ boxLog` post-processing: whenever the bin value at `x` is strictly
    inside `(0,1)` (**the `clamp 0 1` is not at a tie**) and the bin derivative term is non-zero -/
theorem bin_dual (hv : CubicValid e c uw uh) (k : ℕ) (x : ℝ)
    (h0 : 0 < binN e c uw uh udl udr k (xn e c x)) (h1 : binN e c uw uh udl udr k (xn e c x) < 1)
    (hd : binD e c uw uh udl udr k (xn e c x) ≠ 0) :
    IsDual (Fk e c uw uh udl udr k) x (yD e c (envD e c uw uh udl udr k (xnD e c x))) ∧
    IsDual (Gk e c uw uh udl udr k) x (lD e c (envD e c uw uh udl udr k (xnD e c x))) := by
  have hx := xnD_isDual hv x
  have hY0 : IsDual (fun z => binN e c uw uh udl udr k (xn e c z)) x
      (evalX (dualX (NF.realX e)) (envD e c uw uh udl udr k (xnD e c x)) cubicFwdE) := binN_isDual hx k
  have hL0 : IsDual (fun z => binD e c uw uh udl udr k (xn e c z)) x
      (evalX (dualX (NF.realX e)) (envD e c uw uh udl udr k (xnD e c x)) cubicDerivE) := binD_isDual hx k
  have hval : (evalX (dualX (NF.realX e)) (envD e c uw uh udl udr k (xnD e c x)) cubicFwdE).1
      = binN e c uw uh udl udr k (xn e c x) := hY0.1
  have hcl := IsDual.clamp e (IsDual.zero e x) (IsDual.one e x) hY0
    (by rw [d_zero, hval]; exact ne_of_gt h0)
    (by rw [d_zero, d_one, hval, max_eq_left h0.le]; exact ne_of_lt h1)
  constructor
  · exact (IsDual.add e (IsDual.mul e hcl (IsDual.ofFloat e (c.box.top - c.box.bottom) x))
      (IsDual.ofFloat e c.box.bottom x)).congr_fun
      (fun s => by simp only [Fk, NF.realX_zero, NF.realX_one, NF.realX_add, NF.realX_mul, NF.realX_ofFloat])
  · exact (IsDual.add e (IsDual.log e hL0 (by rw [hL0.1]; exact hd)) (IsDual.ofFloat e (boxLog c.box) x)).congr_fun
      (fun s => by simp only [Gk, NF.realX_add, NF.realX_log, NF.realX_ofFloat])

/-- the normalised input of a point of the open box is strictly inside the unit interval -/
theorem xn_unit_open (hv : CubicValid e c uw uh) (x : ℝ) (hxL : e c.box.left < x) (hxR : x < e c.box.right) :
    0 < xn e c x ∧ xn e c x < 1 := by
  rw [xn_eq hv]
  have hD : 0 < e c.box.right - e c.box.left := sub_pos.mpr hv.hlr
  exact ⟨div_pos (by linarith) hD, by rw [div_lt_one hD]; linarith⟩

/-- strictly inside the unit interval the searched bin's value is strictly inside `(0,1)` -/
theorem nval_unit_open (hv : CubicValid e c uw uh) (t : ℝ) (ht0 : 0 < t) (ht1 : t < 1) :
    0 < binN e c uw uh udl udr (idxN e c uw t) t ∧ binN e c uw uh udl udr (idxN e c uw t) t < 1 := by
  have hm := nval_strictMonoOn (udl := udl) (udr := udr) hv
  obtain ⟨hl, hr⟩ := nval_endpoints (udl := udl) (udr := udr) hv
  have h1 := hm (a := 0) ⟨le_rfl, zero_le_one⟩ (b := t) ⟨ht0.le, ht1.le⟩ ht0
  have h2 := hm (a := t) ⟨ht0.le, ht1.le⟩ (b := 1) ⟨zero_le_one, le_rfl⟩ ht1
  rw [hl] at h1
  rw [hr] at h2
  exact ⟨h1, h2⟩

/-- **every point of the open box** (inside bins AND at interior knots): the dual run succeeds, and its two outputs are the
    (value, derivative) pairs of the two closed forms of the bin the executed search selects -/
theorem cubicSpline_dual_sel (hv : CubicValid e c uw uh) (x : ℝ) (hxL : e c.box.left < x) (hxR : x < e c.box.right) :
    ∃ dy dl : ℝ × ℝ,
      cubicSpline (dualX (NF.realX e)) c (uw.map ι) (uh.map ι) (ι udl) (ι udr) false (x, 1) = .ok (dy, dl, []) ∧
      IsDual (Fk e c uw uh udl udr (idxN e c uw (xn e c x))) x dy ∧
      IsDual (Gk e c uw uh udl udr (idxN e c uw (xn e c x))) x dl := by
  obtain ⟨ht0, ht1⟩ := xn_unit_open hv x hxL hxR
  obtain ⟨hn0, hn1⟩ := nval_unit_open (udl := udl) (udr := udr) hv _ ht0 ht1
  have hpos := ld_arg_pos (udl := udl) (udr := udr) hv x hxL.le hxR.le
  obtain ⟨hY, hLd⟩ := bin_dual hv _ x hn0 hn1 hpos.ne'
  exact ⟨_, _, cubicSpline_dual_exec hv x hxL.le hxR.le, hY, hLd⟩

/-- box coordinates ↔ normalised coordinates of the knots -/
theorem xn_bin (hv : CubicValid e c uw uh) (k : ℕ) (x : ℝ) :
    (xk e c uw k < x ↔ cws e c uw k < xn e c x) ∧ (x < xk e c uw k ↔ xn e c x < cws e c uw k) := by
  have hD : 0 < e c.box.right - e c.box.left := sub_pos.mpr hv.hlr
  rw [xn_eq hv, lt_div_iff₀ hD, div_lt_iff₀ hD]
  unfold xk
  constructor <;> constructor <;> intro h <;> linarith

/-- a point strictly inside bin `k` (box coordinates) is in the open box and the executed search selects bin `k` -/
theorem open_bin (hv : CubicValid e c uw uh) (k : ℕ) (hk : k < uw.length) (x : ℝ)
    (h0 : xk e c uw k < x) (h1 : x < xk e c uw (k+1)) :
    e c.box.left < x ∧ x < e c.box.right ∧ idxN e c uw (xn e c x) = k := by
  have h0' := (xn_bin hv k x).1.mp h0
  have h1' := (xn_bin hv (k+1) x).2.mp h1
  have hD : 0 < e c.box.right - e c.box.left := sub_pos.mpr hv.hlr
  have hmono := ExecGlue.knots_mono (cws e c uw) uw.length (cws_strict hv)
  have hck0 : 0 ≤ cws e c uw k := by rw [← cws_zero hv]; exact hmono 0 k (Nat.zero_le _) hk.le
  have hck1 : cws e c uw (k+1) ≤ 1 := by rw [← cws_last hv]; exact hmono (k+1) uw.length hk le_rfl
  refine ⟨?_, ?_, idxN_of_mem hv k hk _ h0' h1'⟩
  · unfold xk at h0; nlinarith
  · unfold xk at h1; nlinarith

/-- **hypothesis-free `IsDual` form**: for `x` strictly inside bin `k` the dual run with zero-tangent parameters and seed
    `(x, 1)` succeeds, and its two outputs are the (value, derivative) pairs of the two outputs of the REAL program
    (`CubicWhole.val`, `CubicWhole.ld`) at `x`.  No hypothesis on the reading of the `Float` constant `boxLog`. -/
theorem cubicSpline_dual_core (hv : CubicValid e c uw uh) (k : ℕ) (hk : k < uw.length) (x : ℝ)
    (h0 : xk e c uw k < x) (h1 : x < xk e c uw (k+1)) :
    ∃ dy dl : ℝ × ℝ,
      cubicSpline (dualX (NF.realX e)) c (uw.map ι) (uh.map ι) (ι udl) (ι udr) false (x, 1) = .ok (dy, dl, []) ∧
      IsDual (val e c uw uh udl udr) x dy ∧ IsDual (ld e c uw uh udl udr) x dl := by
  obtain ⟨hxL, hxR, hik⟩ := open_bin hv k hk x h0 h1
  obtain ⟨dy, dl, hr, hy, hl⟩ := cubicSpline_dual_sel (udl := udl) (udr := udr) hv x hxL hxR
  rw [hik] at hy hl
  have hnear : ∀ᶠ z in 𝓝 x, z ∈ Set.Ioo (xk e c uw k) (xk e c uw (k+1)) := Ioo_mem_nhds h0 h1
  refine ⟨dy, dl, hr, hy.congr ?_, hl.congr ?_⟩
  · filter_upwards [hnear] with z hz
    obtain ⟨hzL, hzR, hzk⟩ := open_bin hv k hk z hz.1 hz.2
    rw [val_eq_Fk hv z hzL.le hzR.le, hzk]
  · filter_upwards [hnear] with z hz
    obtain ⟨hzL, hzR, hzk⟩ := open_bin hv k hk z hz.1 hz.2
    rw [ld_eq_Gk hv z hzL.le hzR.le, hzk]

/-- **the executed piecewise-cubic spline on dual numbers** (forward): for `x` strictly inside bin `k` the dual run with
    zero-tangent parameters and seed `(x, 1)` returns `((val x, exp (ld x)), (ld x, l'), [])` — the real outputs, with
    tangents the derivatives of the real program's two outputs (`exp (ld x)` IS `d val / dx`, `l'` is `d ld / dx`).
    (`hbl`: the `Float` constant `boxLog` is read as the real logarithm — needed only to identify the value tangent with
    `exp (ld x)`; see `cubicSpline_dual_core`.) -/
theorem cubicSpline_dual (hv : CubicValid e c uw uh)
    (hbl : e (boxLog c.box) = Real.log ((e c.box.top - e c.box.bottom) / (e c.box.right - e c.box.left)))
    (k : ℕ) (hk : k < uw.length) (x : ℝ) (h0 : xk e c uw k < x) (h1 : x < xk e c uw (k+1)) :
    ∃ l' : ℝ, cubicSpline (dualX (NF.realX e)) c (uw.map ι) (uh.map ι) (ι udl) (ι udr) false (x, 1)
        = .ok ((val e c uw uh udl udr x, Real.exp (ld e c uw uh udl udr x)), (ld e c uw uh udl udr x, l'), []) ∧
      HasDerivAt (val e c uw uh udl udr) (Real.exp (ld e c uw uh udl udr x)) x ∧
      HasDerivAt (ld e c uw uh udl udr) l' x := by
  obtain ⟨dy, dl, hr, hy, hl⟩ := cubicSpline_dual_core (udl := udl) (udr := udr) hv k hk x h0 h1
  have hder := val_hasDerivAt (udl := udl) (udr := udr) hv hbl k hk x h0 h1
  refine ⟨dl.2, ?_, hder, hl.2⟩
  rw [hr]
  congr 1
  refine Prod.ext (Prod.ext hy.1 (hy.2.unique hder)) (Prod.ext (Prod.ext hl.1 rfl) rfl)

/-- the `DualRes` shape for the three-component result of `cubicSpline`: the dual run succeeds, its value components are
    what the real run returns, its tangent components are the derivatives of the real program's two outputs.  No `boxLog`
    reading hypothesis. -/
theorem cubicSpline_dualRes (hv : CubicValid e c uw uh) (k : ℕ) (hk : k < uw.length) (x : ℝ)
    (h0 : xk e c uw k < x) (h1 : x < xk e c uw (k+1)) :
    ∃ dy dl : ℝ × ℝ,
      cubicSpline (dualX (NF.realX e)) c (uw.map ι) (uh.map ι) (ι udl) (ι udr) false (x, 1) = .ok (dy, dl, []) ∧
      cubicSpline (NF.realX e) c uw uh udl udr false x = .ok (dy.1, dl.1, []) ∧
      HasDerivAt (val e c uw uh udl udr) dy.2 x ∧ HasDerivAt (ld e c uw uh udl udr) dl.2 x := by
  obtain ⟨dy, dl, hr, hy, hl⟩ := cubicSpline_dual_core (udl := udl) (udr := udr) hv k hk x h0 h1
  obtain ⟨hxL, hxR, -⟩ := open_bin hv k hk x h0 h1
  refine ⟨dy, dl, hr, ?_, hy.2, hl.2⟩
  rw [hy.1, hl.1, val_eq_Fk hv x hxL.le hxR.le, ld_eq_Gk hv x hxL.le hxR.le, exec_eq_bin hv x hxL.le hxR.le]
  rfl

/-! ### every point of the open box, interior knots included: the VALUE tangent is the true derivative -/

/-- derivative of the selected bin's value output (the clamp is locally the identity) -/
theorem Fk_hasDerivAt (hv : CubicValid e c uw uh) (k : ℕ) (hk : k < uw.length) (x : ℝ)
    (h0 : 0 < binN e c uw uh udl udr k (xn e c x)) (h1 : binN e c uw uh udl udr k (xn e c x) < 1) :
    HasDerivAt (Fk e c uw uh udl udr k)
      (binD e c uw uh udl udr k (xn e c x) * (1 / (e c.box.right - e c.box.left)) * e (c.box.top - c.box.bottom)) x := by
  have hlin : HasDerivAt (xn e c) (1 / (e c.box.right - e c.box.left)) x := by
    have : xn e c = fun y => (y - e c.box.left) / (e c.box.right - e c.box.left) := funext (xn_eq hv)
    rw [this]
    simpa using ((hasDerivAt_id x).sub_const (e c.box.left)).div_const (e c.box.right - e c.box.left)
  have hb := bin_hasDerivAt (udl := udl) (udr := udr) hv k hk (xn e c x)
  have hcomp : HasDerivAt (fun z => binN e c uw uh udl udr k (xn e c z))
      (binD e c uw uh udl udr k (xn e c x) * (1 / (e c.box.right - e c.box.left))) x := HasDerivAt.comp x hb hlin
  have hc := (hcomp.mul_const (e (c.box.top - c.box.bottom))).add_const (e c.box.bottom)
  refine hc.congr_of_eventuallyEq ?_
  have hnear : ∀ᶠ z in 𝓝 x, binN e c uw uh udl udr k (xn e c z) ∈ Set.Ioo (0:ℝ) 1 :=
    hcomp.continuousAt.eventually (Ioo_mem_nhds h0 h1)
  filter_upwards [hnear] with z hz
  unfold Fk
  rw [realX_clamp01 e _ hz.1.le hz.2.le]

/-- **at EVERY point of the open box — inside bins and at interior knots — the dual run returns the real outputs, and
    the tangent of the value IS the true derivative `exp (ld x)` of the executed value function** (the spline is C¹: at
    a knot the dual run differentiates one bin's polynomial, whose derivative there is the common knot derivative).
    No claim on the log-det tangent `l'` at knots: `ld` is in general not differentiable there. -/
theorem cubicSpline_dual_all (hv : CubicValid e c uw uh)
    (hbl : e (boxLog c.box) = Real.log ((e c.box.top - e c.box.bottom) / (e c.box.right - e c.box.left)))
    (x : ℝ) (hxL : e c.box.left < x) (hxR : x < e c.box.right) :
    ∃ l' : ℝ, cubicSpline (dualX (NF.realX e)) c (uw.map ι) (uh.map ι) (ι udl) (ι udr) false (x, 1)
        = .ok ((val e c uw uh udl udr x, Real.exp (ld e c uw uh udl udr x)), (ld e c uw uh udl udr x, l'), []) ∧
      HasDerivAt (val e c uw uh udl udr) (Real.exp (ld e c uw uh udl udr x)) x := by
  obtain ⟨dy, dl, hr, hy, hl⟩ := cubicSpline_dual_sel (udl := udl) (udr := udr) hv x hxL hxR
  obtain ⟨ht0, ht1⟩ := xn_unit_open hv x hxL hxR
  obtain ⟨hn0, hn1⟩ := nval_unit_open (udl := udl) (udr := udr) hv _ ht0 ht1
  have hpos := ld_arg_pos (udl := udl) (udr := udr) hv x hxL.le hxR.le
  have hiK : idxN e c uw (xn e c x) < uw.length :=
    ((search_spec hv).1 _ (by rw [cws_zero hv]; exact ht0.le) (by rw [cws_last hv]; exact ht1.le)).1
  have hF := Fk_hasDerivAt hv _ hiK x hn0 hn1
  have hD : 0 < e c.box.right - e c.box.left := sub_pos.mpr hv.hlr
  have hT : 0 < e c.box.top - e c.box.bottom := sub_pos.mpr hv.hbt
  have htan : dy.2 = Real.exp (ld e c uw uh udl udr x) := by
    rw [hy.2.unique hF, ld_eq_Gk hv x hxL.le hxR.le]
    unfold Gk
    rw [hbl, Real.exp_add, Real.exp_log hpos, Real.exp_log (div_pos hT hD), hv.hdbt]
    field_simp
  refine ⟨dl.2, ?_, val_hasDerivAt_all hv hbl x hxL hxR⟩
  rw [hr]
  congr 1
  refine Prod.ext (Prod.ext ?_ htan) (Prod.ext (Prod.ext ?_ rfl) rfl)
  · show dy.1 = _
    rw [hy.1, val_eq_Fk hv x hxL.le hxR.le]
  · show dl.1 = _
    rw [hl.1, ld_eq_Gk hv x hxL.le hxR.le]

/-- the special case of an interior knot `x = x_j`, `0 < j < K` -/
theorem cubicSpline_dual_knot (hv : CubicValid e c uw uh)
    (hbl : e (boxLog c.box) = Real.log ((e c.box.top - e c.box.bottom) / (e c.box.right - e c.box.left)))
    (j : ℕ) (hj0 : 0 < j) (hjK : j < uw.length) :
    ∃ l' : ℝ, cubicSpline (dualX (NF.realX e)) c (uw.map ι) (uh.map ι) (ι udl) (ι udr) false (xk e c uw j, 1)
        = .ok ((val e c uw uh udl udr (xk e c uw j), Real.exp (ld e c uw uh udl udr (xk e c uw j))),
               (ld e c uw uh udl udr (xk e c uw j), l'), []) ∧
      HasDerivAt (val e c uw uh udl udr) (Real.exp (ld e c uw uh udl udr (xk e c uw j))) (xk e c uw j) := by
  have hD : 0 < e c.box.right - e c.box.left := sub_pos.mpr hv.hlr
  have hmono := ExecGlue.knots_mono (cws e c uw) uw.length (cws_strict hv)
  have h0 : 0 < cws e c uw j := by
    have h1 := hmono 0 (j-1) (Nat.zero_le _) (by omega)
    have h2 := cws_strict hv (j-1) (by omega)
    rw [show j - 1 + 1 = j by omega] at h2
    rw [cws_zero hv] at h1
    linarith
  have h1 : cws e c uw j < 1 := by
    have h1 := hmono (j+1) uw.length (by omega) le_rfl
    have h2 := cws_strict hv j hjK
    rw [cws_last hv] at h1
    linarith
  refine cubicSpline_dual_all hv hbl (xk e c uw j) ?_ ?_
  · unfold xk; nlinarith
  · unfold xk; nlinarith

/-! ### non-vacuity on the concrete accepted configuration of `CubicWhole.valid_example` (two bins on the unit box) -/

/-- every `x` strictly inside either bin (any end-derivative parameters), and such `x` exist -/
theorem cubicSpline_dual_example (udl udr : ℝ) :
    (∀ k < 2, ∀ x : ℝ, xk eNV cNV [0, 0] k < x → x < xk eNV cNV [0, 0] (k+1) →
      ∃ dy dl : ℝ × ℝ,
        cubicSpline (dualX (NF.realX eNV)) cNV [ι 0, ι 0] [ι 0, ι 0] (ι udl) (ι udr) false (x, 1) = .ok (dy, dl, []) ∧
        cubicSpline (NF.realX eNV) cNV [0, 0] [0, 0] udl udr false x = .ok (dy.1, dl.1, []) ∧
        HasDerivAt (val eNV cNV [0, 0] [0, 0] udl udr) dy.2 x ∧ HasDerivAt (ld eNV cNV [0, 0] [0, 0] udl udr) dl.2 x) ∧
    ∀ k < 2, xk eNV cNV [0, 0] k < xk eNV cNV [0, 0] (k+1) := by
  have hv := valid_example
  refine ⟨fun k hk x h0 h1 => cubicSpline_dualRes hv k hk x h0 h1, fun k hk => ?_⟩
  have := cws_strict hv k hk
  have hD : 0 < eNV cNV.box.right - eNV cNV.box.left := sub_pos.mpr hv.hlr
  unfold xk
  nlinarith

/-- … and the headline form, given that the (kernel-opaque) `Float.log (1.0/1.0)` is `0.0` -/
theorem cubicSpline_dual_example' (hlog : (boxLog cNV.box == 0.0) = true) (udl udr : ℝ) (k : ℕ) (hk : k < 2) (x : ℝ)
    (h0 : xk eNV cNV [0, 0] k < x) (h1 : x < xk eNV cNV [0, 0] (k+1)) :
    ∃ l' : ℝ, cubicSpline (dualX (NF.realX eNV)) cNV [ι 0, ι 0] [ι 0, ι 0] (ι udl) (ι udr) false (x, 1)
        = .ok ((val eNV cNV [0, 0] [0, 0] udl udr x, Real.exp (ld eNV cNV [0, 0] [0, 0] udl udr x)),
               (ld eNV cNV [0, 0] [0, 0] udl udr x, l'), []) ∧
      HasDerivAt (val eNV cNV [0, 0] [0, 0] udl udr) (Real.exp (ld eNV cNV [0, 0] [0, 0] udl udr x)) x ∧
      HasDerivAt (ld eNV cNV [0, 0] [0, 0] udl udr) l' x :=
  cubicSpline_dual valid_example (hbl_example hlog) k hk x h0 h1

/-- … and at the interior knot `x₁` of the example -/
theorem cubicSpline_dual_knot_example (hlog : (boxLog cNV.box == 0.0) = true) (udl udr : ℝ) :
    ∃ l' : ℝ, cubicSpline (dualX (NF.realX eNV)) cNV [ι 0, ι 0] [ι 0, ι 0] (ι udl) (ι udr) false (xk eNV cNV [0, 0] 1, 1)
        = .ok ((val eNV cNV [0, 0] [0, 0] udl udr (xk eNV cNV [0, 0] 1),
                Real.exp (ld eNV cNV [0, 0] [0, 0] udl udr (xk eNV cNV [0, 0] 1))),
               (ld eNV cNV [0, 0] [0, 0] udl udr (xk eNV cNV [0, 0] 1), l'), []) ∧
      HasDerivAt (val eNV cNV [0, 0] [0, 0] udl udr)
        (Real.exp (ld eNV cNV [0, 0] [0, 0] udl udr (xk eNV cNV [0, 0] 1))) (xk eNV cNV [0, 0] 1) :=
  cubicSpline_dual_knot valid_example (hbl_example hlog) 1 (by norm_num) (by simp)

end

end DualXCubic
