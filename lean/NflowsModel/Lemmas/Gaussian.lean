import Mathlib.Probability.Distributions.Gaussian.Real
import Mathlib.MeasureTheory.Integral.Pi
import Mathlib.Tactic

namespace Gaussian


noncomputable section
open MeasureTheory ProbabilityTheory Real

/-- `StandardNormal._log_prob` (normal.py:23-33): -½ Σ xᵢ² - ½·D·log(2π) -/
def stdNormalLogp {D : ℕ} (x : Fin D → ℝ) : ℝ := -(1/2) * ∑ i, (x i)^2 - (1/2) * D * Real.log (2 * π)

/-- diagonal normal per row (normal.py:95-114): -½ Σ ((xᵢ-μᵢ) e^{-lsᵢ})² - Σ lsᵢ - ½ D log 2π -/
def diagNormalLogp {D : ℕ} (μ ls : Fin D → ℝ) (x : Fin D → ℝ) : ℝ :=
  -(1/2) * ∑ i, ((x i - μ i) * Real.exp (- ls i))^2 - ∑ i, ls i - (1/2) * D * Real.log (2 * π)

/-- variance e^{2·ls} as an `ℝ≥0` -/
def var (ls : ℝ) : NNReal := ⟨Real.exp (2*ls), (Real.exp_pos _).le⟩
@[simp] theorem var_coe (ls : ℝ) : ((var ls : NNReal) : ℝ) = Real.exp (2*ls) := rfl
theorem var_ne_zero (ls : ℝ) : var ls ≠ 0 := by
  intro h; have := congrArg NNReal.toReal h; simp at this

theorem gauss_factor (μ ls x : ℝ) :
    Real.exp (-(1/2) * ((x - μ) * Real.exp (-ls))^2 - ls - (1/2) * Real.log (2 * π))
      = gaussianPDFReal μ (var ls) x := by
  unfold gaussianPDFReal
  simp only [var_coe]
  have h2pi : (0:ℝ) < 2 * π := by positivity
  have hs : Real.sqrt (2 * π * Real.exp (2*ls)) = Real.sqrt (2*π) * Real.exp ls := by
    rw [Real.sqrt_mul h2pi.le, show (2*ls) = ls + ls by ring, Real.exp_add, Real.sqrt_mul_self (Real.exp_pos ls).le]
  rw [hs, Real.exp_sub, Real.exp_sub]
  have e1 : Real.exp ((1/2) * Real.log (2*π)) = Real.sqrt (2*π) := by
    rw [Real.sqrt_eq_rpow, Real.rpow_def_of_pos h2pi]; ring_nf
  rw [e1]
  have e2 : -(1/2) * ((x - μ) * Real.exp (-ls))^2 = -(x - μ)^2 / (2 * Real.exp (2*ls)) := by
    have h3 : Real.exp (-ls) ^ 2 = (Real.exp (2*ls))⁻¹ := by
      rw [← Real.exp_nat_mul, ← Real.exp_neg]; congr 1; push_cast; ring
    rw [mul_pow, h3]
    have : Real.exp (2*ls) ≠ 0 := (Real.exp_pos _).ne'
    field_simp
  rw [e2]
  have h1 : Real.sqrt (2*π) ≠ 0 := (Real.sqrt_pos.mpr h2pi).ne'
  have h3 : Real.exp ls ≠ 0 := (Real.exp_pos _).ne'
  field_simp

theorem diagNormal_normalised {D : ℕ} (μ ls : Fin D → ℝ) :
    ∫ x : Fin D → ℝ, Real.exp (diagNormalLogp μ ls x) = 1 := by
  have hfac : ∀ x : Fin D → ℝ, Real.exp (diagNormalLogp μ ls x)
      = ∏ i, gaussianPDFReal (μ i) (var (ls i)) (x i) := by
    intro x
    simp_rw [← gauss_factor]
    rw [← Real.exp_sum]
    congr 1
    unfold diagNormalLogp
    simp only [Finset.sum_sub_distrib, Finset.mul_sum, Finset.sum_const, Finset.card_univ, Fintype.card_fin, nsmul_eq_mul]
    ring
  simp_rw [hfac]
  rw [integral_fintype_prod_volume_eq_prod (fun i (t : ℝ) => gaussianPDFReal (μ i) (var (ls i)) t)]
  apply Finset.prod_eq_one
  intro i _
  exact integral_gaussianPDFReal_eq_one _ (var_ne_zero _)


end
end Gaussian
