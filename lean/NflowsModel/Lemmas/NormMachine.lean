import NflowsModel.Core.Norm
import NflowsModel.Core.ActNormMachine
import Mathlib.Tactic
/-!
# Lemmas/NormMachine — structural facts about the C14 machines of `Core/Norm`, for every scalar semantics `o`
-/
namespace NF.Norm
variable {α : Type}

/-- a simulation relation preserved by every step, with equal step results, gives equal traces over every history -/
theorem runM_refines {σ τ ρ ω : Type} (stepC : σ → ω → σ × ρ) (stepS : τ → ω → τ × ρ) (R : σ → τ → Prop)
    (hstep : ∀ c s op, R c s → R (stepC c op).1 (stepS s op).1 ∧ (stepC c op).2 = (stepS s op).2) :
    ∀ (hist : List ω) (c : σ) (s : τ), R c s →
      R (runM stepC c hist).1 (runM stepS s hist).1 ∧ (runM stepC c hist).2 = (runM stepS s hist).2 := by
  intro hist
  induction hist with
  | nil => intro c s h; exact ⟨h, rfl⟩
  | cons op ops ih =>
    intro c s h
    obtain ⟨h1, h2⟩ := hstep c s op h
    obtain ⟨h3, h4⟩ := ih _ _ h1
    exact ⟨h3, by simp only [runM, h2, h4]⟩

theorem runM_append {σ ρ ω : Type} (step : σ → ω → σ × ρ) (s : σ) (h1 h2 : List ω) :
    (runM step s (h1 ++ h2)).1 = (runM step (runM step s h1).1 h2).1 := by
  induction h1 generalizing s with
  | nil => rfl
  | cons op ops ih => simp only [List.cons_append, runM, ih]

/-! ### ActNorm -/

theorem actRel_step (o : XOps α) (F : Nat) (c : ActSt α) (sp : ActSpec α) (op : NOp α) (h : actRel o F c sp) :
    actRel o F (actStep o F c op).1 (actSpecStep o F sp op).1 ∧ (actStep o F c op).2 = (actSpecStep o F sp op).2 := by
  obtain ⟨h1, h2, h3, h4, h5⟩ := h
  cases op with
  | train => exact ⟨⟨rfl, h2, h3, h4, h5⟩, rfl⟩
  | eval => exact ⟨⟨rfl, h2, h3, h4, h5⟩, rfl⟩
  | saveLoadFresh => exact ⟨⟨rfl, h2, h3, h4, h5⟩, rfl⟩
  | inv b =>
    simp only [actStep, actSpecStep]
    by_cases hv : b.valid24 = true
    · simp only [hv, Bool.not_true, Bool.false_eq_true, if_false, h3, h4]
      exact ⟨⟨h1, h2, h3, h4, h5⟩, trivial⟩
    · simp only [Bool.not_eq_true] at hv
      simp only [hv, Bool.not_false, if_true]
      exact ⟨⟨h1, h2, h3, h4, h5⟩, trivial⟩
  | fwd b =>
    simp only [actStep, actSpecStep]
    by_cases hv : b.valid24 = true
    · simp only [hv, Bool.not_true, Bool.false_eq_true, if_false]
      cases hi : sp.init with
      | some b0 =>
        have hci : c.initialized = true := by simpa [hi] using h2
        simp only [hci, Bool.not_true, Bool.and_false, Bool.false_eq_true, if_false]
        simp only [hi] at h3 h4 h5 ⊢
        refine ⟨⟨h1, by simp [hi, hci], ?_, ?_, ?_⟩, ?_⟩
        · simpa [ActSpec.params, hi] using h3
        · simpa [ActSpec.params, hi] using h4
        · simpa [hi] using h5
        · simp only [ActSpec.params, hi] at h3 h4 ⊢
          rw [h3, h4]
      | none =>
        have hci : c.initialized = false := by simpa [hi] using h2
        cases ht : sp.training with
        | true =>
          have hct : c.training = true := by rw [h1, ht]
          simp only [hct, hci, Bool.not_false, Bool.and_self, if_true]
          refine ⟨⟨by simp, by simp, by simp [ActSpec.params], by simp [ActSpec.params], ?_⟩, ?_⟩
          · have : c.initCount = 0 := by simpa [hi] using h5
            simp [this]
          · simp [ActSpec.params]
        | false =>
          have hct : c.training = false := by rw [h1, ht]
          simp only [hct, Bool.false_and, Bool.false_eq_true, if_false]
          refine ⟨⟨by simp [hct, ht], by simp [hi, hci], ?_, ?_, ?_⟩, ?_⟩
          · simpa [ActSpec.params, hi] using h3
          · simpa [ActSpec.params, hi] using h4
          · simpa [hi] using h5
          · simp only [ActSpec.params, hi] at h3 h4 ⊢
            rw [h3, h4]
    · simp only [Bool.not_eq_true] at hv
      simp only [hv, Bool.not_false, if_true]
      exact ⟨⟨h1, h2, h3, h4, h5⟩, trivial⟩

/-- once `initialized` is set, no operation changes flag, parameters or the initialisation counter -/
theorem actStep_frozen (o : XOps α) (F : Nat) (s : ActSt α) (op : NOp α) (hi : s.initialized = true) :
    (actStep o F s op).1.initialized = true ∧ (actStep o F s op).1.logScale = s.logScale ∧
    (actStep o F s op).1.shift = s.shift ∧ (actStep o F s op).1.initCount = s.initCount := by
  cases op with
  | train => exact ⟨hi, rfl, rfl, rfl⟩
  | eval => exact ⟨hi, rfl, rfl, rfl⟩
  | saveLoadFresh => exact ⟨hi, rfl, rfl, rfl⟩
  | inv b => simp only [actStep]; split <;> exact ⟨hi, rfl, rfl, rfl⟩
  | fwd b =>
    simp only [actStep]
    split
    · exact ⟨hi, rfl, rfl, rfl⟩
    · simp [hi]

theorem actRun_frozen (o : XOps α) (F : Nat) (hist : List (NOp α)) (s : ActSt α) (hi : s.initialized = true) :
    (runM (actStep o F) s hist).1.initialized = true ∧ (runM (actStep o F) s hist).1.logScale = s.logScale ∧
    (runM (actStep o F) s hist).1.shift = s.shift ∧ (runM (actStep o F) s hist).1.initCount = s.initCount := by
  induction hist generalizing s with
  | nil => exact ⟨hi, rfl, rfl, rfl⟩
  | cons op ops ih =>
    obtain ⟨a, b, c, d⟩ := actStep_frozen o F s op hi
    obtain ⟨a', b', c', d'⟩ := ih _ a
    exact ⟨a', b'.trans b, c'.trans c, d'.trans d⟩

/-- the state after a history is determined by the first accepted training-mode forward batch alone -/
theorem actRun_firstTrainFwd (o : XOps α) (F : Nat) (hist : List (NOp α)) (s : ActSt α) (hi : s.initialized = false) :
    match firstTrainFwd s.training hist with
    | none => (runM (actStep o F) s hist).1.initialized = false ∧ (runM (actStep o F) s hist).1.logScale = s.logScale ∧
        (runM (actStep o F) s hist).1.shift = s.shift ∧ (runM (actStep o F) s hist).1.initCount = s.initCount
    | some b => (runM (actStep o F) s hist).1.initialized = true ∧ (runM (actStep o F) s hist).1.logScale = (actInit o F b).1 ∧
        (runM (actStep o F) s hist).1.shift = (actInit o F b).2 ∧ (runM (actStep o F) s hist).1.initCount = s.initCount + 1 := by
  induction hist generalizing s with
  | nil => exact ⟨hi, rfl, rfl, rfl⟩
  | cons op ops ih =>
    cases op with
    | train => simpa only [runM, firstTrainFwd, actStep] using ih { s with training := true } hi
    | eval => simpa only [runM, firstTrainFwd, actStep] using ih { s with training := false } hi
    | saveLoadFresh => simpa only [runM, firstTrainFwd, actStep] using ih { s with training := true } hi
    | inv b =>
      have hs : (actStep o F s (.inv b)).1 = s := by simp only [actStep]; split <;> rfl
      simp only [runM, firstTrainFwd, hs]
      exact ih s hi
    | fwd b =>
      by_cases hc : (s.training && b.valid24) = true
      · obtain ⟨ht, hv⟩ := Bool.and_eq_true_iff.mp hc
        have hs : (actStep o F s (.fwd b)).1 =
            { s with initialized := true, logScale := (actInit o F b).1, shift := (actInit o F b).2,
                     initCount := s.initCount + 1 } := by
          simp [actStep, hv, ht, hi]
        simp only [runM, firstTrainFwd, hc, if_true, hs]
        exact actRun_frozen o F ops _ rfl
      · have hs : (actStep o F s (.fwd b)).1 = s := by
          simp only [actStep]
          by_cases hv : b.valid24 = true
          · have ht : s.training = false := by
              cases h : s.training
              · rfl
              · simp [h, hv] at hc
            simp [hv, ht]
          · simp only [Bool.not_eq_true] at hv
            simp [hv]
        simp only [Bool.not_eq_true] at hc
        simp only [runM, firstTrainFwd, hc, Bool.false_eq_true, if_false, hs]
        exact ih s hi

/-! ### BatchNorm -/

theorem bnRel_step (o : XOps α) (cfg : BNCfg α) (F : Nat) (c : BNSt α) (sp : BNSpec α) (op : NOp α)
    (h : bnRel o cfg F c sp) :
    bnRel o cfg F (bnStep o cfg F c op).1 (bnSpecStep o cfg F sp op).1 ∧
    (bnStep o cfg F c op).2 = (bnSpecStep o cfg F sp op).2 := by
  obtain ⟨h1, h2, h3, h4, h5, h6⟩ := h
  cases op with
  | train => exact ⟨⟨rfl, h2, h3, h4, h5, h6⟩, rfl⟩
  | eval => exact ⟨⟨rfl, h2, h3, h4, h5, h6⟩, rfl⟩
  | saveLoadFresh => exact ⟨⟨rfl, h2, h3, h4, h5, h6⟩, rfl⟩
  | inv b =>
    simp only [bnStep, bnSpecStep, ← h1]
    cases ht : c.training with
    | true => simp only [if_true]; exact ⟨⟨h1, h2, h3, h4, h5, h6⟩, trivial⟩
    | false =>
      simp only [Bool.false_eq_true, if_false]
      cases b with
      | d2 rows => simp only [← h2, ← h3, ← h4, ← h5]; exact ⟨⟨h1, h2, h3, h4, h5, h6⟩, trivial⟩
      | d4 h w imgs => exact ⟨⟨h1, h2, h3, h4, h5, h6⟩, rfl⟩
      | bad d => exact ⟨⟨h1, h2, h3, h4, h5, h6⟩, rfl⟩
  | fwd b =>
    cases b with
    | d4 h w imgs => exact ⟨⟨h1, h2, h3, h4, h5, h6⟩, rfl⟩
    | bad d => exact ⟨⟨h1, h2, h3, h4, h5, h6⟩, rfl⟩
    | d2 rows =>
      simp only [bnStep, bnSpecStep, ← h1]
      cases ht : c.training with
      | false =>
        simp only [Bool.false_eq_true, if_false, ← h2, ← h3, ← h4, ← h5]
        exact ⟨⟨h1, h2, h3, h4, h5, h6⟩, trivial⟩
      | true =>
        simp only [if_true, ← h4, ← h5]
        refine ⟨⟨by simp, ?_, ?_, by simp, by simp, ?_⟩, trivial⟩
        · simp only [BNSpec.runMean, List.foldl_append, List.foldl_cons, List.foldl_nil]
          rw [h2]; rfl
        · simp only [BNSpec.runVar, List.foldl_append, List.foldl_cons, List.foldl_nil]
          rw [h3]; rfl
        · simp [h6]

/-- the running statistics after any history are the momentum rule folded over exactly the training-mode forward
    batches, in order -/
theorem bnRun_fold (o : XOps α) (cfg : BNCfg α) (F : Nat) (hist : List (NOp α)) (s : BNSt α) :
    (runM (bnStep o cfg F) s hist).1.runMean =
      (trainBatches s.training hist).foldl (fun r rows => emaVec o cfg.momentum F r (colMeans o F rows)) s.runMean ∧
    (runM (bnStep o cfg F) s hist).1.runVar =
      (trainBatches s.training hist).foldl (fun r rows => emaVec o cfg.momentum F r (colVars o F rows)) s.runVar ∧
    (runM (bnStep o cfg F) s hist).1.updates = s.updates + (trainBatches s.training hist).length := by
  induction hist generalizing s with
  | nil => exact ⟨rfl, rfl, rfl⟩
  | cons op ops ih =>
    cases op with
    | train => simpa only [runM, trainBatches, bnStep] using ih { s with training := true }
    | eval => simpa only [runM, trainBatches, bnStep] using ih { s with training := false }
    | saveLoadFresh => simpa only [runM, trainBatches, bnStep] using ih { s with training := true }
    | inv b =>
      have hs : (bnStep o cfg F s (.inv b)).1 = s := by
        simp only [bnStep]; split
        · rfl
        · split <;> rfl
      simp only [runM, trainBatches, hs]
      exact ih s
    | fwd b =>
      cases b with
      | d4 h w imgs => simpa only [runM, trainBatches, bnStep] using ih s
      | bad d => simpa only [runM, trainBatches, bnStep] using ih s
      | d2 rows =>
        cases ht : s.training with
        | false =>
          have hs : (bnStep o cfg F s (.fwd (.d2 rows))).1 = s := by simp [bnStep, ht]
          simp only [runM, trainBatches, hs, Bool.false_eq_true, if_false]
          simpa only [ht] using ih s
        | true =>
          have := ih (bnStep o cfg F s (.fwd (.d2 rows))).1
          simp only [bnStep, ht, if_true] at this
          simp only [runM, trainBatches, if_true, List.foldl_cons, List.length_cons, bnStep, ht]
          refine ⟨this.1, this.2.1, ?_⟩
          rw [this.2.2]; omega

/-! ### index algebra -/

theorem getD_map_range {β : Type} (g : Nat → β) (d : β) {j F : Nat} (h : j < F) :
    ((List.range F).map g).getD j d = g j := by
  simp [List.getD_eq_getElem?_getD, h]

/-- the values of feature / channel `j` of a per-feature map are the mapped values of that feature -/
theorem col_mapCh (o : XOps α) (F : Nat) (f : Nat → α → α) (b : Batch α) {j : Nat} (h : j < F) :
    (b.mapCh o F f).col o j = (b.col o j).map (f j) := by
  cases b with
  | bad d => rfl
  | d2 rows =>
    simp only [Batch.mapCh, Batch.col, List.map_map]
    apply List.map_congr_left
    intro r _
    simp only [Function.comp, getD_map_range _ _ h]
  | d4 hh w imgs =>
    simp only [Batch.mapCh, Batch.col, List.flatMap_map, List.map_flatMap]
    congr 1
    funext img
    simp only [getD_map_range _ _ h]

theorem emaVec_getD (o : XOps α) (m : α) (F : Nat) (r st : List α) {j : Nat} (h : j < F) :
    (emaVec o m F r st).getD j o.zero = ema o m (r.getD j o.zero) (st.getD j o.zero) := by
  simp only [emaVec, getD_map_range _ _ h]

theorem colMeans_getD (o : XOps α) (F : Nat) (rows : List (List α)) {j : Nat} (h : j < F) :
    (colMeans o F rows).getD j o.zero = meanL o ((Batch.d2 rows).col o j) := by
  simp only [colMeans, getD_map_range _ _ h]
theorem colVars_getD (o : XOps α) (F : Nat) (rows : List (List α)) {j : Nat} (h : j < F) :
    (colVars o F rows).getD j o.zero = varUL o ((Batch.d2 rows).col o j) := by
  simp only [colVars, getD_map_range _ _ h]

/-- component `j` of the vector fold is the scalar fold of the components -/
theorem foldl_emaVec_getD (o : XOps α) (m : α) (F : Nat) (stat : List (List α) → List α)
    (bs : List (List (List α))) (r0 : List α) {j : Nat} (h : j < F) :
    (bs.foldl (fun r rows => emaVec o m F r (stat rows)) r0).getD j o.zero =
      (bs.map (fun rows => (stat rows).getD j o.zero)).foldl (fun r s => ema o m r s) (r0.getD j o.zero) := by
  induction bs generalizing r0 with
  | nil => rfl
  | cons b bs ih => simp only [List.foldl_cons, List.map_cons, ih, emaVec_getD o m F _ _ h]

/-! ### the executable ActNorm machine is an instance of the abstract machine of `Core/ActNormMachine` -/

/-- forget outputs: flag, mode, parameters, counter -/
def absSt (s : ActSt α) : ActNormMachine.St (List α × List α) :=
  ⟨s.training, s.initialized, (s.logScale, s.shift), s.initCount⟩
/-- a `forward` that is rejected (wrong number of dimensions) acts on the state like an `inverse`: not at all -/
def absOp : NOp α → ActNormMachine.Op (Batch α)
  | .train => .train
  | .eval => .eval
  | .saveLoadFresh => .saveLoadFresh
  | .fwd b => if b.valid24 then .fwd b else .inv b
  | .inv b => .inv b

theorem actStep_abstracts (o : XOps α) (F : Nat) (s : ActSt α) (op : NOp α) :
    absSt (actStep o F s op).1 = ActNormMachine.stepCode (actInit o F) (absSt s) (absOp op) := by
  cases op with
  | train => rfl
  | eval => rfl
  | saveLoadFresh => rfl
  | inv b => simp only [actStep, absOp]; split <;> rfl
  | fwd b =>
    by_cases hv : b.valid24 = true
    · by_cases hc : (s.training && !s.initialized) = true
      · simp only [actStep, absOp, hv, Bool.not_true, Bool.false_eq_true, if_false, if_true, ActNormMachine.stepCode,
          absSt, hc]
      · simp only [actStep, absOp, hv, Bool.not_true, Bool.false_eq_true, if_false, if_true, ActNormMachine.stepCode,
          absSt, hc]
    · simp only [Bool.not_eq_true] at hv
      simp only [actStep, absOp, hv, Bool.not_false, if_true, Bool.false_eq_true, if_false, ActNormMachine.stepCode]

end NF.Norm
