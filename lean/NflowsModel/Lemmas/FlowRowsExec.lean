import NflowsModel.Core.Structure
import NflowsModel.Core.Wrappers
import NflowsModel.Core.Density
import NflowsModel.Core.FlowPairing
import NflowsModel.Lemmas.StructureExec
import NflowsModel.Lemmas.RowErr
import NflowsModel.Lemmas.RowIndependenceMore
import NflowsModel.Lemmas.FlowPairing
import Mathlib.Tactic
/-!
# Lemmas/FlowRowsExec — `Flow.log_prob` of a batch over the EXECUTED transform passes (C12), and the sampling side (C04)

`Lemmas/RowIndependenceMore.lean` §3 proves row independence of `Flow.log_prob` at a pure list level, for transforms that are
`List.zipWith` of per-row functions and never raise.  This file closes the gap to what the driver runs: the transform passes are
the `TResult`-returning, `err`-carrying `couplingApply` / `arApply` / `cdfApply` of `Core/Structure.lean` on flat `[B, w]` arrays,
composed by `Wrap.cascade` of `Core/Wrappers.lean` (`CompositeTransform._cascade`), and the base density is an `Except`-returning
`log_prob` of `Core/Density.lean`.  Everything is generic in `o : XOps α` (so it holds bit for bit for the `Float` run).

* §1 `RowEq`, `BStage`, `ofT`, `RowWiseStage` (agreement of rows of two accepted calls, acceptance iff every row alone is accepted,
  one log-det per row) and its closure under `CompositeTransform`: `rowWise_compStage`.
* §2 the executed passes satisfy it: `rowWise_cdfStage`, `rowWise_arStage`, `rowWise_couplingStage` (the conditioner network is a
  hypothesis `NetRowWise`); which error wins: `cdfStage_error_first`, `arStage_error_first`.
* §3 `flowLogProbExec` (flows/base.py:42-49 over a `BStage` and an `Except DErr` base density), `flowExec_row_independent`
  (values), `flowExec_transform_error`, `flowExec_base_error`, `flowExec_raises_iff` (errors); base densities
  `rowIndepBase_stdNormal`, `rowIndepBase_condNormal`.
* §4 sampling side (C04): `flowSalpExec` (flows/base.py:77-106 on the merged `[R·n, w]` batch), `flowSalpExec_pairing`,
  `flowSalpExec_consistent` (under the hypothesis `RoundTripStage`: forward ∘ inverse = id with negated log-det).
* §5 the statements per executed stage (`flowExec_coupling`, `flowExec_ar`, `flowExec_cdf`, `flowExec_composite`) and concrete
  instances at the toy `Int` semantics of `RowIndependenceMore` (`decide +kernel`), with the hypotheses discharged (`toy_flowRows`).

Hypotheses that are not theorems: the conditioner / autoregressive / embedding / context-encoder NETWORKS are row-wise
(`NetRowWise`, `EmbRowWise`, `EncRowWise`; the networks are not modelled at this level).  All stages of a composite have one width `w`.
Rows are compared with `getElem?` (`RowEq`), so no size hypothesis on the arrays is needed, except `R * cw ≤ (emb R ctx).size` for
`repeat_rows` in §4.  Forced: `0 < B` in `flowExec_raises_iff` (an empty batch can be rejected by the base density's shape check
while there is no row to reject).
-/
open NF NF.StructureExec NF.RowErr NF.RowIndependenceMore NF.Density

namespace NF.FlowRowsExec
variable {α : Type}

/-! ## 1. row-wise batch stages and `CompositeTransform` -/

/-- rows `b` of `x` and `b'` of `x'` (flat `[_, w]` arrays) hold the same entries (including which are out of range) -/
def RowEq (w b b' : Nat) (x x' : Array α) : Prop := ∀ k, k < w → x[b * w + k]? = x'[b' * w + k]?

theorem RowEq.refl (w b : Nat) (x : Array α) : RowEq w b b x x := fun _ _ => rfl

theorem RowEq.symm {w b b' : Nat} {x x' : Array α} (h : RowEq w b b' x x') : RowEq w b' b x' x :=
  fun k hk => (h k hk).symm

theorem RowEq.trans {w b b' b'' : Nat} {x x' x'' : Array α} (h : RowEq w b b' x x') (h' : RowEq w b' b'' x' x'') :
    RowEq w b b'' x x'' := fun k hk => (h k hk).trans (h' k hk)

/-- what a transform call returns: `(outputs, logabsdet)` (flat `[B, w]`, one log-det per row) or the exception raised -/
abbrev BRes (α : Type) := Except Err (Array α × List α)

/-- a transform pass at batch level: batch size, flat input `[B, w]`, flat (embedded) context `[B, cw]` -/
abbrev BStage (α : Type) := Nat → Array α → Array α → BRes α

/-- a `TResult` as the Python call: the exception if one was raised, the `(outputs, logabsdet)` pair otherwise -/
def ofT (r : TResult α) : BRes α :=
  match r.err with
  | some e => .error e
  | none => .ok (r.out, r.ld)

theorem ofT_ok_iff (r : TResult α) : (∃ p, ofT r = .ok p) ↔ r.err = none := by
  unfold ofT
  cases r.err <;> simp

theorem ofT_eq_ok {r : TResult α} {y : Array α} {l : List α} (h : ofT r = .ok (y, l)) :
    r.err = none ∧ y = r.out ∧ l = r.ld := by
  unfold ofT at h
  cases he : r.err with
  | some e => rw [he] at h; cases h
  | none => rw [he] at h; cases h; exact ⟨rfl, rfl, rfl⟩

theorem ofT_eq_error {r : TResult α} {e : Err} (h : ofT r = .error e) : r.err = some e := by
  unfold ofT at h
  cases he : r.err with
  | some e' => rw [he] at h; cases h; rfl
  | none => rw [he] at h; cases h

theorem ofT_of_err_none {r : TResult α} (h : r.err = none) : ofT r = .ok (r.out, r.ld) := by
  unfold ofT; rw [h]

/-- **a batch stage is row-wise**:
    * `agree`: two accepted calls (batch sizes may differ: e.g. the row evaluated alone) whose inputs and contexts agree on row
      `b` / `b'` agree on that row of the outputs and on that entry of the log-det;
    * `accept`: the batch call is accepted iff every row evaluated alone (any one-row arrays `xr b`, `cr b` holding row `b` of
      the input and of the context) is accepted;
    * `ld_len`: one log-det per row. -/
structure RowWiseStage (w cw : Nat) (T : BStage α) : Prop where
  agree : ∀ {B B' b b' : Nat} (x x' c c' y y' : Array α) (l l' : List α), b < B → b' < B' →
    RowEq w b b' x x' → RowEq cw b b' c c' → T B x c = .ok (y, l) → T B' x' c' = .ok (y', l') →
    RowEq w b b' y y' ∧ l[b]? = l'[b']?
  accept : ∀ (B : Nat) (x c : Array α) (xr cr : Nat → Array α), (∀ b, b < B → RowEq w b 0 x (xr b)) →
    (∀ b, b < B → RowEq cw b 0 c (cr b)) →
    ((∃ r, T B x c = .ok r) ↔ ∀ b, b < B → ∃ r, T 1 (xr b) (cr b) = .ok r)
  ld_len : ∀ (B : Nat) (x c y : Array α) (l : List α), T B x c = .ok (y, l) → l.length = B

/-- `total_logabsdet = inputs.new_zeros(batch_size)`, `total_logabsdet += logabsdet` (transforms/base.py:48, 51) -/
def ldLD (o : XOps α) (B : Nat) : Wrap.LD (List α) := ⟨List.replicate B o.zero, List.zipWith o.add⟩

/-- `CompositeTransform(ts).forward` on a batch: `Wrap.cascade` over the batch-level passes (the first stage that raises aborts
    the call; log-dets are added row by row onto zeros) -/
def compStage (o : XOps α) (ts : List (BStage α)) : BStage α :=
  fun B x c => Wrap.cascade (ldLD o B) (ts.map fun t => t B) x c

theorem cascadeFrom_cons_ok {T C L : Type} (A : Wrap.LD L) (f : T → C → Except Err (T × L)) (fs) (x : T) (l : L) (c : C)
    (r : T × L) :
    Wrap.cascadeFrom A (f :: fs) x l c = .ok r ↔
      ∃ y ld, f x c = .ok (y, ld) ∧ Wrap.cascadeFrom A fs y (A.add l ld) c = .ok r := by
  cases h : f x c with
  | error e => simp [Wrap.cascadeFrom, h]
  | ok p => obtain ⟨y, ld⟩ := p; simp [Wrap.cascadeFrom, h]

theorem cascadeFrom_cons_error {T C L : Type} (A : Wrap.LD L) (f : T → C → Except Err (T × L)) (fs) (x : T) (l : L) (c : C)
    (e : Err) :
    Wrap.cascadeFrom A (f :: fs) x l c = .error e ↔
      f x c = .error e ∨ ∃ y ld, f x c = .ok (y, ld) ∧ Wrap.cascadeFrom A fs y (A.add l ld) c = .error e := by
  cases h : f x c with
  | error e' => simp [Wrap.cascadeFrom, h]
  | ok p => obtain ⟨y, ld⟩ := p; simp [Wrap.cascadeFrom, h]

section comp
variable (o : XOps α) {w cw : Nat}

theorem comp_agree_from (ts : List (BStage α)) (hts : ∀ t ∈ ts, RowWiseStage w cw t) {B B' b b' : Nat}
    (hb : b < B) (hb' : b' < B') (c c' : Array α) (hc : RowEq cw b b' c c') :
    ∀ (x x' : Array α) (l0 l0' : List α) (y y' : Array α) (l l' : List α), RowEq w b b' x x' → l0[b]? = l0'[b']? →
      Wrap.cascadeFrom (ldLD o B) (ts.map fun t => t B) x l0 c = .ok (y, l) →
      Wrap.cascadeFrom (ldLD o B') (ts.map fun t => t B') x' l0' c' = .ok (y', l') →
      RowEq w b b' y y' ∧ l[b]? = l'[b']? := by
  induction ts with
  | nil =>
    intro x x' l0 l0' y y' l l' hx hl h h'
    simp only [List.map_nil, Wrap.cascadeFrom, Except.ok.injEq, Prod.mk.injEq] at h h'
    obtain ⟨rfl, rfl⟩ := h
    obtain ⟨rfl, rfl⟩ := h'
    exact ⟨hx, hl⟩
  | cons t ts ih =>
    intro x x' l0 l0' y y' l l' hx hl h h'
    rw [List.map_cons, cascadeFrom_cons_ok] at h h'
    obtain ⟨y1, ld1, h1, h2⟩ := h
    obtain ⟨y1', ld1', h1', h2'⟩ := h'
    obtain ⟨hy1, hld1⟩ := (hts t List.mem_cons_self).agree x x' c c' y1 y1' ld1 ld1' hb hb' hx hc h1 h1'
    refine ih (fun t' ht' => hts t' (List.mem_cons_of_mem _ ht')) y1 y1' _ _ y y' l l' hy1 ?_ h2 h2'
    simp only [ldLD, List.getElem?_zipWith, hl, hld1]

theorem comp_len_from (ts : List (BStage α)) (hts : ∀ t ∈ ts, RowWiseStage w cw t) (B : Nat) (c : Array α) :
    ∀ (x : Array α) (l0 : List α) (y : Array α) (l : List α), l0.length = B →
      Wrap.cascadeFrom (ldLD o B) (ts.map fun t => t B) x l0 c = .ok (y, l) → l.length = B := by
  induction ts with
  | nil =>
    intro x l0 y l hl h
    simp only [List.map_nil, Wrap.cascadeFrom, Except.ok.injEq, Prod.mk.injEq] at h
    obtain ⟨rfl, rfl⟩ := h
    exact hl
  | cons t ts ih =>
    intro x l0 y l hl h
    rw [List.map_cons, cascadeFrom_cons_ok] at h
    obtain ⟨y1, ld1, h1, h2⟩ := h
    have := (hts t List.mem_cons_self).ld_len B x c y1 ld1 h1
    exact ih (fun t' ht' => hts t' (List.mem_cons_of_mem _ ht')) y1 _ y l
      (by simp [ldLD, hl, this]) h2

/-- the output of a one-row call (any array when the call raised) -/
def outOr (r : BRes α) : Array α := match r with | .ok (y, _) => y | .error _ => #[]

theorem comp_accept_from (ts : List (BStage α)) (hts : ∀ t ∈ ts, RowWiseStage w cw t) (B : Nat) (c : Array α)
    (cr : Nat → Array α) (hc : ∀ b, b < B → RowEq cw b 0 c (cr b)) :
    ∀ (x : Array α) (xr : Nat → Array α) (l0 : List α) (l1 : Nat → List α), (∀ b, b < B → RowEq w b 0 x (xr b)) →
      ((∃ r, Wrap.cascadeFrom (ldLD o B) (ts.map fun t => t B) x l0 c = .ok r) ↔
        ∀ b, b < B → ∃ r, Wrap.cascadeFrom (ldLD o 1) (ts.map fun t => t 1) (xr b) (l1 b) (cr b) = .ok r) := by
  induction ts with
  | nil =>
    intro x xr l0 l1 hx
    simp [Wrap.cascadeFrom]
  | cons t ts ih =>
    intro x xr l0 l1 hx
    have ht := hts t List.mem_cons_self
    have hts' : ∀ t' ∈ ts, RowWiseStage w cw t' := fun t' ht' => hts t' (List.mem_cons_of_mem _ ht')
    have hacc := ht.accept B x c xr cr hx hc
    simp only [List.map_cons]
    constructor
    · rintro ⟨r, hr⟩ b hb
      rw [cascadeFrom_cons_ok] at hr
      obtain ⟨y1, ld1, h1, h2⟩ := hr
      obtain ⟨⟨yb, ldb⟩, hyb⟩ := hacc.1 ⟨_, h1⟩ b hb
      -- the rest of the cascade on the batch output vs on the outputs of the rows alone
      have hx' : ∀ b, b < B → RowEq w b 0 y1 (outOr (t 1 (xr b) (cr b))) := by
        intro b' hb'
        obtain ⟨⟨yb', ldb'⟩, hyb'⟩ := hacc.1 ⟨_, h1⟩ b' hb'
        rw [hyb']
        exact (ht.agree x (xr b') c (cr b') y1 yb' ld1 ldb' hb' Nat.one_pos (hx b' hb') (hc b' hb') h1 hyb').1
      have := (ih hts' y1 (fun b => outOr (t 1 (xr b) (cr b))) ((ldLD o B).add l0 ld1)
        (fun b => (ldLD o 1).add (l1 b) (match t 1 (xr b) (cr b) with | .ok (_, l) => l | .error _ => [])) hx').1 ⟨r, h2⟩ b hb
      obtain ⟨r', hr'⟩ := this
      refine ⟨r', ?_⟩
      rw [cascadeFrom_cons_ok]
      refine ⟨yb, ldb, hyb, ?_⟩
      rw [hyb] at hr'
      exact hr'
    · intro hall
      have hhead : ∀ b, b < B → ∃ r, t 1 (xr b) (cr b) = .ok r := by
        intro b hb
        obtain ⟨r, hr⟩ := hall b hb
        rw [cascadeFrom_cons_ok] at hr
        obtain ⟨y1, ld1, h1, -⟩ := hr
        exact ⟨_, h1⟩
      obtain ⟨⟨y1, ld1⟩, h1⟩ := hacc.2 hhead
      have hx' : ∀ b, b < B → RowEq w b 0 y1 (outOr (t 1 (xr b) (cr b))) := by
        intro b' hb'
        obtain ⟨⟨yb', ldb'⟩, hyb'⟩ := hhead b' hb'
        rw [hyb']
        exact (ht.agree x (xr b') c (cr b') y1 yb' ld1 ldb' hb' Nat.one_pos (hx b' hb') (hc b' hb') h1 hyb').1
      have := (ih hts' y1 (fun b => outOr (t 1 (xr b) (cr b))) ((ldLD o B).add l0 ld1)
        (fun b => (ldLD o 1).add (l1 b) (match t 1 (xr b) (cr b) with | .ok (_, l) => l | .error _ => [])) hx').2 (by
          intro b hb
          obtain ⟨r, hr⟩ := hall b hb
          rw [cascadeFrom_cons_ok] at hr
          obtain ⟨yb, ldb, hyb, h2⟩ := hr
          rw [hyb]
          exact ⟨r, h2⟩)
      obtain ⟨r, hr⟩ := this
      exact ⟨r, by rw [cascadeFrom_cons_ok]; exact ⟨y1, ld1, h1, hr⟩⟩

/-- **`CompositeTransform` of row-wise stages is row-wise** (induction on the list of stages; log-dets added row by row). -/
theorem rowWise_compStage (ts : List (BStage α)) (hts : ∀ t ∈ ts, RowWiseStage w cw t) :
    RowWiseStage w cw (compStage o ts) where
  agree := by
    intro B B' b b' x x' c c' y y' l l' hb hb' hx hc h h'
    exact comp_agree_from o ts hts hb hb' c c' hc x x' _ _ y y' l l' hx
      (by simp [ldLD, hb, hb']) h h'
  accept := by
    intro B x c xr cr hx hc
    exact comp_accept_from o ts hts B c cr hc x xr _ (fun _ => (ldLD o 1).zero) hx
  ld_len := by
    intro B x c y l h
    exact comp_len_from o ts hts B c x _ y l (by simp [ldLD]) h

end comp

/-! ## 2. the executed passes are row-wise stages -/

section idx

theorem idx_split (b F m i k : Nat) : (b * F + i) * m + k = b * (F * m) + (i * m + k) := by ring

theorem lt_mul_of {F m i k : Nat} (hi : i < F) (hk : k < m) : i * m + k < F * m := by
  have : (i + 1) * m ≤ F * m := Nat.mul_le_mul_right m hi
  rw [Nat.add_mul, Nat.one_mul] at this
  omega

theorem rowAgree_of_rowEq {C S b b' : Nat} {x x' : Array α} (h : RowEq (C * S) b b' x x') : RowAgree C S b b' x x' := by
  intro ch s hch hs
  simp only [flatIdx]
  rw [idx_split, idx_split]
  exact h _ (lt_mul_of hch hs)

theorem rowEq_of_rowAgree {C S b b' : Nat} {x x' : Array α} (h : RowAgree C S b b' x x') : RowEq (C * S) b b' x x' := by
  intro k hk
  have hS : 0 < S := by
    rcases Nat.eq_zero_or_pos S with h0 | h0
    · subst h0; simp at hk
    · exact h0
  have hch : k / S < C := Nat.div_lt_of_lt_mul (by rwa [Nat.mul_comm] at hk)
  have hs : k % S < S := Nat.mod_lt _ hS
  have hk' : k = (k / S) * S + k % S := by rw [Nat.mul_comm]; exact (Nat.div_add_mod k S).symm
  have := h (k / S) (k % S) hch hs
  simp only [flatIdx] at this
  rw [idx_split, idx_split, ← hk'] at this
  exact this

theorem flatMap_range_length {β : Type} (g : Nat → List β) (m B : Nat) (hlen : ∀ b, (g b).length = m) :
    ((List.range B).flatMap g).length = B * m := by
  induction B with
  | zero => simp
  | succ B ih => rw [List.range_succ, List.flatMap_append, List.length_append, ih]; simp [Nat.add_mul, hlen]

/-- entry `b * m + k` of the concatenation of `B` blocks of length `m` is entry `k` of block `b` -/
theorem flatMap_range_getElem? {β : Type} (g : Nat → List β) (m B b k : Nat) (hlen : ∀ b, (g b).length = m)
    (hb : b < B) (hk : k < m) : ((List.range B).flatMap g)[b * m + k]? = (g b)[k]? := by
  induction B with
  | zero => omega
  | succ B ih =>
    rw [List.range_succ, List.flatMap_append]
    by_cases hbB : b < B
    · have hlt : b * m + k < ((List.range B).flatMap g).length := by
        rw [flatMap_range_length g m B hlen]
        have h1 : (b + 1) * m ≤ B * m := Nat.mul_le_mul_right m hbB
        rw [Nat.add_mul, Nat.one_mul] at h1
        omega
      rw [List.getElem?_append_left hlt]
      exact ih hbB
    · have hbe : b = B := by omega
      subst hbe
      have hge : ((List.range b).flatMap g).length ≤ b * m + k := by
        rw [flatMap_range_length g m b hlen]; omega
      rw [List.getElem?_append_right hge, flatMap_range_length g m b hlen]
      simp

theorem flatMap_map_range_length {β : Type} (idx : List Nat) (S : Nat) (f : Nat → Nat → β) :
    (idx.flatMap fun c => (List.range S).map (f c)).length = idx.length * S := by
  induction idx with
  | nil => simp
  | cons a t ih => rw [List.flatMap_cons, List.length_append, ih]; simp [Nat.add_mul, Nat.add_comm]

/-- `gatherCh` row by row: if rows `b` / `b'` of two `[_, C, S]` tensors agree, so do those rows of the gathered `[_, |idx|, S]` -/
theorem gatherCh_rowEq {C S B B' b b' : Nat} {idx : List Nat} (hidx : ∀ ch ∈ idx, ch < C) (x x' : Array α) (d : α)
    (hb : b < B) (hb' : b' < B') (h : RowAgree C S b b' x x') :
    RowEq (idx.length * S) b b' (gatherCh x B C S idx d) (gatherCh x' B' C S idx d) := by
  intro k hk
  unfold gatherCh
  rw [List.getElem?_toArray, List.getElem?_toArray,
    flatMap_range_getElem? _ (idx.length * S) B b k (fun _ => flatMap_map_range_length idx S _) hb hk,
    flatMap_range_getElem? _ (idx.length * S) B' b' k (fun _ => flatMap_map_range_length idx S _) hb' hk]
  congr 1
  apply List.flatMap_congr
  intro ch hch
  apply List.map_congr_left
  intro s hs
  exact getD_congr (h ch s (hidx ch hch) (List.mem_range.1 hs)) d

end idx

/-- a conditioner / embedding network at batch level is row-wise: row `b` of its output (`[B, wout]`) depends only on row `b` of its
    two inputs (`[B, win]`, `[B, cin]`), also across batch sizes.  (The networks themselves are not modelled: this is the hypothesis
    the row-vs-batch oracle checks numerically.) -/
def NetRowWise (win cin wout : Nat) (net : Nat → Array α → Array α → Array α) : Prop :=
  ∀ {B B' b b' : Nat} (x x' c c' : Array α), b < B → b' < B' → RowEq win b b' x x' → RowEq cin b b' c c' →
    RowEq wout b b' (net B x c) (net B' x' c')

section elemwise
variable (o : XOps α)

/-- an element-wise `[B, n]` pass as a batch-level call, the elements being computed from the input and the context -/
theorem elemwise_rows_agree (n : Nat) (el el' : Nat → Nat → ElRes α) {B B' b b' : Nat} (hb : b < B) (hb' : b' < B')
    (hel : ∀ i, i < n → el b i = el' b' i) :
    RowEq n b b' (elemwiseResult o B n el).out (elemwiseResult o B' n el').out ∧
      (elemwiseResult o B n el).ld[b]? = (elemwiseResult o B' n el').ld[b']? := by
  constructor
  · intro i hi
    rw [elemwise_out_getElem? o B n _ hb hi, elemwise_out_getElem? o B' n _ hb' hi, hel i hi]
  · rw [elemwise_ld_getElem? o B n _ hb, elemwise_ld_getElem? o B' n _ hb']
    congr 1
    apply List.foldl_ext
    intro acc i hi
    rw [hel i (List.mem_range.1 hi)]

theorem elemwise_ld_length (B n : Nat) (el : Nat → Nat → ElRes α) : (elemwiseResult o B n el).ld.length = B := by
  simp [elemwiseResult, sumRows]

/-- an element-wise stage whose element `(b, i)` is `elOf B x ctx b i`, a function of row `b` of the input and of the context only,
    is row-wise -/
theorem rowWise_elemwise (n cw : Nat) (elOf : Nat → Array α → Array α → Nat → Nat → ElRes α)
    (hel : ∀ {B B' b b' : Nat} (x x' c c' : Array α), b < B → b' < B' → RowEq n b b' x x' → RowEq cw b b' c c' →
      ∀ i, i < n → elOf B x c b i = elOf B' x' c' b' i) :
    RowWiseStage n cw (fun B x c => ofT (elemwiseResult o B n (elOf B x c))) where
  agree := by
    intro B B' b b' x x' c c' y y' l l' hb hb' hx hc h h'
    obtain ⟨-, rfl, rfl⟩ := ofT_eq_ok h
    obtain ⟨-, rfl, rfl⟩ := ofT_eq_ok h'
    exact elemwise_rows_agree o n _ _ hb hb' (hel x x' c c' hb hb' hx hc)
  accept := by
    intro B x c xr cr hx hc
    simp only [ofT_ok_iff]
    rw [elemwise_err_rows, List.findSome?_eq_none_iff]
    simp only [List.mem_range]
    constructor
    · intro h b hb
      rw [← h b hb]
      exact (elemwise_err_one_congr o n _ _ (fun i hi => hel x (xr b) c (cr b) hb Nat.one_pos (hx b hb) (hc b hb) i hi)).symm
    · intro h b hb
      rw [← h b hb]
      exact elemwise_err_one_congr o n _ _ (fun i hi => hel x (xr b) c (cr b) hb Nat.one_pos (hx b hb) (hc b hb) i hi)
  ld_len := by
    intro B x c y l h
    obtain ⟨-, -, rfl⟩ := ofT_eq_ok h
    exact elemwise_ld_length o B n _

/-- which error wins in an element-wise stage: the first error, in row order, among the rows evaluated alone -/
theorem elemwise_stage_error_first (n cw : Nat) (elOf : Nat → Array α → Array α → Nat → Nat → ElRes α)
    (hel : ∀ {B B' b b' : Nat} (x x' c c' : Array α), b < B → b' < B' → RowEq n b b' x x' → RowEq cw b b' c c' →
      ∀ i, i < n → elOf B x c b i = elOf B' x' c' b' i)
    (B : Nat) (x c : Array α) (xr cr : Nat → Array α) (hx : ∀ b, b < B → RowEq n b 0 x (xr b))
    (hc : ∀ b, b < B → RowEq cw b 0 c (cr b)) :
    (elemwiseResult o B n (elOf B x c)).err
      = (List.range B).findSome? fun b => (elemwiseResult o 1 n (elOf 1 (xr b) (cr b))).err := by
  rw [elemwise_err_rows]
  apply findSome?_congr'
  intro b hb
  have hb' := List.mem_range.1 hb
  exact elemwise_err_one_congr o n _ _ (fun i hi => hel x (xr b) c (cr b) hb' Nat.one_pos (hx b hb') (hc b hb') i hi)

end elemwise

section cdf
variable (o : XOps α) (c : ElCfg) (n : Nat) (inverse : Bool) (params : Array α)

/-- **`Piecewise*CDF` as a batch-level call** (nonlinearities.py:232-467; parameters shared across the batch, context ignored) -/
def cdfStage : BStage α := fun B x _ => ofT (cdfApply o c B n x params inverse)

/-- **the executed `Piecewise*CDF` pass is a row-wise stage** (any family, direction, context width) -/
theorem rowWise_cdfStage (cw : Nat) : RowWiseStage n cw (cdfStage o c n inverse params) :=
  rowWise_elemwise o n cw (fun _ x _ => cdfEl o c n x params inverse)
    (fun x x' _ _ _ _ hx _ i hi => by
      unfold cdfEl
      rw [getD_congr (hx i hi)])

/-- the error a `Piecewise*CDF` batch call raises is the first one, in row order, among the rows run alone -/
theorem cdfStage_error_first (B : Nat) (x : Array α) (xr : Nat → Array α) (hx : ∀ b, b < B → RowEq n b 0 x (xr b)) :
    (cdfApply o c B n x params inverse).err
      = (List.range B).findSome? fun b => (cdfApply o c 1 n (xr b) params inverse).err :=
  cdf_err_rows o c n inverse x params xr (fun b hb i hi => hx b hb i hi)

end cdf

section ar
variable (o : XOps α) (c : ElCfg) (F : Nat) (inverse : Bool)

/-- conditioner outputs per feature of the autoregressive pass -/
def arMult (c : ElCfg) : Nat := if c.kind == "araffine" then 2 else c.mult

/-- **one element-wise pass of an autoregressive transform as a batch-level call** (autoregressive.py:36-41): the autoregressive
    network `net` (MADE: batch size, inputs `[B, F]`, context `[B, cw]` ↦ `[B, F * m]`) is run on the batch, then `arApply` -/
def arStage (net : Nat → Array α → Array α → Array α) : BStage α :=
  fun B x ctx => ofT (arApply o c B F x (net B x ctx) inverse)

theorem arEl_rows {B B' b b' : Nat} (net : Nat → Array α → Array α → Array α) (cw : Nat)
    (hnet : NetRowWise F cw (F * arMult c) net) (x x' ctx ctx' : Array α) (hb : b < B) (hb' : b' < B')
    (hx : RowEq F b b' x x') (hc : RowEq cw b b' ctx ctx') (i : Nat) (hi : i < F) :
    arEl o c F x (net B x ctx) inverse b i = arEl o c F x' (net B' x' ctx') inverse b' i := by
  have hp := hnet x x' ctx ctx' hb hb' hx hc
  unfold arEl
  simp only
  rw [getD_congr (hx i hi)]
  congr 1
  apply List.map_congr_left
  intro k hk
  apply getD_congr
  rw [idx_split, idx_split]
  exact hp _ (lt_mul_of hi (List.mem_range.1 hk))

/-- **the executed autoregressive pass with a row-wise network is a row-wise stage** -/
theorem rowWise_arStage (cw : Nat) (net : Nat → Array α → Array α → Array α) (hnet : NetRowWise F cw (F * arMult c) net) :
    RowWiseStage F cw (arStage o c F inverse net) :=
  rowWise_elemwise o F cw (fun B x ctx => arEl o c F x (net B x ctx) inverse)
    (fun x x' ctx ctx' hb hb' hx hc i hi => arEl_rows o c F inverse net cw hnet x x' ctx ctx' hb hb' hx hc i hi)

/-- the error an autoregressive batch call raises is the first one, in row order, among the rows run alone (each with the network
    run on that row alone) -/
theorem arStage_error_first (cw : Nat) (net : Nat → Array α → Array α → Array α) (hnet : NetRowWise F cw (F * arMult c) net)
    (B : Nat) (x ctx : Array α) (xr cr : Nat → Array α) (hx : ∀ b, b < B → RowEq F b 0 x (xr b))
    (hc : ∀ b, b < B → RowEq cw b 0 ctx (cr b)) :
    (arApply o c B F x (net B x ctx) inverse).err
      = (List.range B).findSome? fun b => (arApply o c 1 F (xr b) (net 1 (xr b) (cr b)) inverse).err :=
  elemwise_stage_error_first o F cw (fun B x ctx => arEl o c F x (net B x ctx) inverse)
    (fun x x' ctx ctx' hb hb' hx hc i hi => arEl_rows o c F inverse net cw hnet x x' ctx ctx' hb hb' hx hc i hi)
    B x ctx xr cr hx hc

end ar

section coupling
variable (o : XOps α) (c : ElCfg) (mask : List α) (S : Nat) (inverse : Bool) (uc : Option ElCfg) (uparams : Array α)

/-- what the conditioner of the coupling layer is given (coupling.py:79-80 forward: the raw identity split; coupling.py:121-127
    inverse: the identity split after the inverse unconditional transform) -/
def condInOf (B : Nat) (x : Array α) : Array α :=
  if inverse then gatherCh (couplingUncond o mask B S x inverse uc uparams) B mask.length S (identityIdx o mask) o.zero
  else gatherCh x B mask.length S (identityIdx o mask) o.zero

/-- it is the `condIn` field of the executed layer, whatever the parameters -/
theorem condInOf_eq (B : Nat) (x params : Array α) :
    (couplingApply o c mask B S x params inverse uc uparams).condIn = condInOf o mask S inverse uc uparams B x :=
  coupling_condIn_eq o c mask B S x params inverse uc uparams

/-- **the coupling layer as a batch-level call** (coupling.py:68-145): the conditioner `net` (batch size, identity split
    `[B, |id|, S]`, context `[B, cw]` ↦ `[B, paramWidth, S]`) is run on the batch, then `couplingApply` -/
def couplingStage (net : Nat → Array α → Array α → Array α) : BStage α :=
  fun B x ctx => ofT (couplingApply o c mask B S x (net B (condInOf o mask S inverse uc uparams B x) ctx) inverse uc uparams)

theorem condInOf_rowEq {B B' b b' : Nat} (x x' : Array α) (hb : b < B) (hb' : b' < B')
    (hx : RowAgree mask.length S b b' x x') :
    RowEq ((identityIdx o mask).length * S) b b' (condInOf o mask S inverse uc uparams B x)
      (condInOf o mask S inverse uc uparams B' x') := by
  unfold condInOf
  cases inverse with
  | false => exact gatherCh_rowEq (identityIdx_ok o mask).lt x x' _ hb hb' hx
  | true =>
    exact gatherCh_rowEq (identityIdx_ok o mask).lt _ _ _ hb hb'
      (couplingUncond_row_congr o mask S true uc uparams x x' hb hb' hx)

theorem couplingParams_rows {B B' b b' : Nat} (cw : Nat) (net : Nat → Array α → Array α → Array α)
    (hnet : NetRowWise ((identityIdx o mask).length * S) cw (paramWidth c (transformIdx o mask).length * S) net)
    (x x' ctx ctx' : Array α) (hb : b < B) (hb' : b' < B') (hx : RowEq (mask.length * S) b b' x x')
    (hc : RowEq cw b b' ctx ctx') :
    RowAgree (paramWidth c (transformIdx o mask).length) S b b' (net B (condInOf o mask S inverse uc uparams B x) ctx)
      (net B' (condInOf o mask S inverse uc uparams B' x') ctx') :=
  rowAgree_of_rowEq (hnet _ _ ctx ctx' hb hb'
    (condInOf_rowEq o mask S inverse uc uparams x x' hb hb' (rowAgree_of_rowEq hx)) hc)

/-- **the executed coupling layer with a row-wise conditioner is a row-wise stage** (any mask, `S`, direction, family, optional
    unconditional transform of the identity features) -/
theorem rowWise_couplingStage (cw : Nat) (net : Nat → Array α → Array α → Array α)
    (hnet : NetRowWise ((identityIdx o mask).length * S) cw (paramWidth c (transformIdx o mask).length * S) net) :
    RowWiseStage (mask.length * S) cw (couplingStage o c mask S inverse uc uparams net) where
  agree := by
    intro B B' b b' x x' ctx ctx' y y' l l' hb hb' hx hc h h'
    obtain ⟨-, rfl, rfl⟩ := ofT_eq_ok h
    obtain ⟨-, rfl, rfl⟩ := ofT_eq_ok h'
    have := coupling_row_independent o c mask S inverse uc uparams x x' _ _ hb hb' (rowAgree_of_rowEq hx)
      (couplingParams_rows o c mask S inverse uc uparams cw net hnet x x' ctx ctx' hb hb' hx hc)
    exact ⟨rowEq_of_rowAgree this.1, this.2⟩
  accept := by
    intro B x ctx xr cr hx hc
    simp only [couplingStage, ofT_ok_iff]
    exact coupling_err_none_iff_alone o c mask S inverse uc uparams x _ xr
      (fun b => net 1 (condInOf o mask S inverse uc uparams 1 (xr b)) (cr b))
      (fun b hb => rowAgree_of_rowEq (hx b hb))
      (fun b hb => couplingParams_rows o c mask S inverse uc uparams cw net hnet x (xr b) ctx (cr b) hb Nat.one_pos
        (hx b hb) (hc b hb))
  ld_len := by
    intro B x ctx y l h
    obtain ⟨-, -, rfl⟩ := ofT_eq_ok h
    exact coupling_ld_length o c mask S inverse uc uparams B x _

end coupling

/-! ## 3. `Flow.log_prob` of a batch over the executed passes (flows/base.py:42-49) -/

section flow
variable (o : XOps α)

/-- a base density at batch level: batch size, noise rows, flat embedded context `[B, cw]` ↦ one `log_prob` per row, or raises -/
abbrev BaseD (α : Type) := Nat → List (List α) → Array α → Except DErr (List α)

/-- the base density is row independent in the sense of `RowIndependenceMore.RowIndep`: the values of an accepted batch are those
    of the rows alone (row `i` with context row `i`), and a rejection of the batch is the rejection of every row alone -/
def RowIndepBase (cw : Nat) (base : BaseD α) : Prop :=
  ∀ (B : Nat) (rows : List (List α)) (e : Array α) (er : Nat → Array α), rows.length = B →
    (∀ b, b < B → RowEq cw b 0 e (er b)) →
    RowIndep (base B rows e) B (fun i => base 1 [rows.getD i []] (er i))

/-- the embedding net at batch level is row-wise (`[B, rcw]` ↦ `[B, cw]`) -/
def EmbRowWise (rcw cw : Nat) (emb : Nat → Array α → Array α) : Prop :=
  ∀ {B B' b b' : Nat} (c c' : Array α), b < B → b' < B' → RowEq rcw b b' c c' → RowEq cw b b' (emb B c) (emb B' c')

/-- **`Flow._log_prob(inputs, context)` as the code runs it on a whole batch** (flows/base.py:42-49):
    `embedded = embedding_net(context)`; `noise, logabsdet = transform(inputs, embedded)` (an exception of the transform aborts the
    call); `log_prob = distribution.log_prob(noise, embedded)` (may raise); `return log_prob + logabsdet`.
    `x : [B, w]`, `ctx : [B, rcw]` flat; the noise is handed to the base density as `B` rows of length `w`. -/
def flowLogProbExec (w : Nat) (emb : Nat → Array α → Array α) (T : BStage α) (base : BaseD α) (B : Nat)
    (x ctx : Array α) : Except DErr (List α) :=
  match T B x (emb B ctx) with
  | .error err => .error (.base err)
  | .ok (z, ld) =>
    match base B (rowsOf w B z.toList) (emb B ctx) with
    | .error err => .error err
    | .ok lp => .ok (List.zipWith o.add lp ld)

theorem rowsOf_length (d n : Nat) (flat : List α) : (rowsOf d n flat).length = n := by simp [rowsOf]

theorem rowsOf_getD (d n : Nat) (flat : List α) {i : Nat} (hi : i < n) :
    (rowsOf d n flat).getD i [] = (flat.drop (i * d)).take d := by
  simp [rowsOf, List.getD_eq_getElem?_getD, hi]

theorem row_list_eq {w b b' : Nat} {z z' : Array α} (h : RowEq w b b' z z') :
    (z.toList.drop (b * w)).take w = (z'.toList.drop (b' * w)).take w := by
  apply List.ext_getElem?
  intro k
  simp only [List.getElem?_take, List.getElem?_drop]
  split_ifs with hk
  · simpa using h k hk
  · rfl

/-- the row cut out of the batch output is the (only) row of the one-row output -/
theorem rowsOf_single {w B b : Nat} {z z' : Array α} (hb : b < B) (h : RowEq w b 0 z z') :
    rowsOf w 1 z'.toList = [(rowsOf w B z.toList).getD b []] := by
  rw [rowsOf_getD w B _ hb, row_list_eq h]
  simp [rowsOf]

theorem list_len_one {β : Type} (l : List β) (h : l.length = 1) : ∃ a, l = [a] := by
  match l, h with
  | [a], _ => exact ⟨a, rfl⟩

theorem flow_of_T_error {w : Nat} {emb : Nat → Array α → Array α} {T : BStage α} {base : BaseD α} {B : Nat}
    {x ctx : Array α} {err : Err} (h : T B x (emb B ctx) = .error err) :
    flowLogProbExec o w emb T base B x ctx = .error (.base err) := by
  simp only [flowLogProbExec, h]

theorem flow_of_base_error {w : Nat} {emb : Nat → Array α → Array α} {T : BStage α} {base : BaseD α} {B : Nat}
    {x ctx z : Array α} {ld : List α} {err : DErr} (h : T B x (emb B ctx) = .ok (z, ld))
    (h' : base B (rowsOf w B z.toList) (emb B ctx) = .error err) :
    flowLogProbExec o w emb T base B x ctx = .error err := by
  simp only [flowLogProbExec, h, h']

theorem flow_of_ok {w : Nat} {emb : Nat → Array α → Array α} {T : BStage α} {base : BaseD α} {B : Nat}
    {x ctx z : Array α} {ld lp : List α} (h : T B x (emb B ctx) = .ok (z, ld))
    (h' : base B (rowsOf w B z.toList) (emb B ctx) = .ok lp) :
    flowLogProbExec o w emb T base B x ctx = .ok (List.zipWith o.add lp ld) := by
  simp only [flowLogProbExec, h, h']

/-- the hypotheses of the flow theorems: a row-wise transform, a row independent base density, a row-wise embedding net, and
    one-row arrays `xr b`, `cr b` holding row `b` of the inputs and of the context -/
structure FlowRows (w rcw cw : Nat) (emb : Nat → Array α → Array α) (T : BStage α) (base : BaseD α) (B : Nat)
    (x ctx : Array α) (xr cr : Nat → Array α) : Prop where
  hT : RowWiseStage w cw T
  hbase : RowIndepBase cw base
  hemb : EmbRowWise rcw cw emb
  hx : ∀ b, b < B → RowEq w b 0 x (xr b)
  hctx : ∀ b, b < B → RowEq rcw b 0 ctx (cr b)

variable {w rcw cw : Nat} {emb : Nat → Array α → Array α} {T : BStage α} {base : BaseD α} {B : Nat}
  {x ctx : Array α} {xr cr : Nat → Array α}

theorem FlowRows.he (H : FlowRows w rcw cw emb T base B x ctx xr cr) :
    ∀ b, b < B → RowEq cw b 0 (emb B ctx) (emb 1 (cr b)) :=
  fun b hb => H.hemb ctx (cr b) hb Nat.one_pos (H.hctx b hb)

/-- when the batch transform is accepted, so is every row alone, with the matching output row and log-det -/
theorem FlowRows.row_of_T_ok (H : FlowRows w rcw cw emb T base B x ctx xr cr) {z : Array α} {ld : List α}
    (hT : T B x (emb B ctx) = .ok (z, ld)) {i : Nat} (hi : i < B) :
    ∃ (zi : Array α) (d : α), T 1 (xr i) (emb 1 (cr i)) = .ok (zi, [d]) ∧ ld[i]? = some d ∧
      rowsOf w 1 zi.toList = [(rowsOf w B z.toList).getD i []] := by
  obtain ⟨⟨zi, ldi⟩, hzi⟩ := (H.hT.accept B x (emb B ctx) xr (fun b => emb 1 (cr b)) H.hx H.he).1 ⟨_, hT⟩ i hi
  obtain ⟨hz, hl⟩ := H.hT.agree x (xr i) (emb B ctx) (emb 1 (cr i)) z zi ld ldi hi Nat.one_pos (H.hx i hi) (H.he i hi) hT hzi
  obtain ⟨d, rfl⟩ := list_len_one ldi (H.hT.ld_len 1 _ _ _ _ hzi)
  exact ⟨zi, d, hzi, by simpa using hl, rowsOf_single hi hz⟩

/-- **(a) `Flow.log_prob` over the executed passes: the values.**  If the batch call returns `lps`, it has one entry per row and
    entry `i` is what the call on row `i` alone (inputs row `i`, context row `i`, batch size one) returns. -/
theorem flowExec_row_independent (H : FlowRows w rcw cw emb T base B x ctx xr cr) (lps : List α)
    (h : flowLogProbExec o w emb T base B x ctx = .ok lps) :
    lps.length = B ∧ ∀ i, i < B → ∃ l, lps[i]? = some l ∧
      flowLogProbExec o w emb T base 1 (xr i) (cr i) = .ok [l] := by
  cases hT : T B x (emb B ctx) with
  | error err => rw [flow_of_T_error o hT] at h; cases h
  | ok p =>
    obtain ⟨z, ld⟩ := p
    cases hB : base B (rowsOf w B z.toList) (emb B ctx) with
    | error err => rw [flow_of_base_error o hT hB] at h; cases h
    | ok lp =>
      rw [flow_of_ok o hT hB] at h
      cases h
      have hld : ld.length = B := H.hT.ld_len B _ _ _ _ hT
      obtain ⟨hlp, hrows⟩ := (H.hbase B _ (emb B ctx) (fun b => emb 1 (cr b)) (rowsOf_length w B _) H.he).1 lp hB
      refine ⟨by simp [hlp, hld], ?_⟩
      intro i hi
      obtain ⟨l, hl, hsingle⟩ := hrows i hi
      obtain ⟨zi, d, hzi, hd, hrow⟩ := H.row_of_T_ok hT hi
      refine ⟨o.add l d, by simp [List.getElem?_zipWith, hl, hd], ?_⟩
      simp only [← hrow] at hsingle
      rw [flow_of_ok o hzi hsingle]
      rfl

/-- **(b1) the transform raises on the batch**: the call raises that error, and some row alone makes the transform raise. -/
theorem flowExec_transform_error (H : FlowRows w rcw cw emb T base B x ctx xr cr) (err : Err)
    (hT : T B x (emb B ctx) = .error err) :
    flowLogProbExec o w emb T base B x ctx = .error (.base err) ∧
      ∃ i, i < B ∧ ∃ err', T 1 (xr i) (emb 1 (cr i)) = .error err' ∧
        flowLogProbExec o w emb T base 1 (xr i) (cr i) = .error (.base err') := by
  refine ⟨flow_of_T_error o hT, ?_⟩
  by_contra hno
  have hall : ∀ b, b < B → ∃ r, T 1 (xr b) (emb 1 (cr b)) = .ok r := by
    intro b hb
    cases hr : T 1 (xr b) (emb 1 (cr b)) with
    | ok r => exact ⟨r, rfl⟩
    | error e' => exact absurd ⟨b, hb, e', hr, flow_of_T_error o hr⟩ hno
  obtain ⟨r, hr⟩ := (H.hT.accept B x (emb B ctx) xr (fun b => emb 1 (cr b)) H.hx H.he).2 hall
  rw [hT] at hr
  cases hr

/-- **(b2) the transform accepts the batch and the base density raises**: the call raises that error, and so does every row alone. -/
theorem flowExec_base_error (H : FlowRows w rcw cw emb T base B x ctx xr cr) {z : Array α} {ld : List α} (err : DErr)
    (hT : T B x (emb B ctx) = .ok (z, ld)) (hB : base B (rowsOf w B z.toList) (emb B ctx) = .error err) :
    flowLogProbExec o w emb T base B x ctx = .error err ∧
      ∀ i, i < B → flowLogProbExec o w emb T base 1 (xr i) (cr i) = .error err := by
  refine ⟨flow_of_base_error o hT hB, ?_⟩
  intro i hi
  obtain ⟨zi, d, hzi, -, hrow⟩ := H.row_of_T_ok hT hi
  have := (H.hbase B _ (emb B ctx) (fun b => emb 1 (cr b)) (rowsOf_length w B _) H.he).2 err hB i hi
  simp only [← hrow] at this
  exact flow_of_base_error o hzi this

/-- **(b) the batch call raises iff some row alone raises** (non-empty batch).  Which error: the transform's (first stage that
    raises, `flowExec_transform_error`) if it raises, else the base density's, which every row alone raises too. -/
theorem flowExec_raises_iff (H : FlowRows w rcw cw emb T base B x ctx xr cr) (hB : 0 < B) :
    (∃ err, flowLogProbExec o w emb T base B x ctx = .error err) ↔
      ∃ i, i < B ∧ ∃ err, flowLogProbExec o w emb T base 1 (xr i) (cr i) = .error err := by
  constructor
  · rintro ⟨err, h⟩
    cases hT : T B x (emb B ctx) with
    | error e =>
      obtain ⟨-, i, hi, e', -, h'⟩ := flowExec_transform_error o H e hT
      exact ⟨i, hi, _, h'⟩
    | ok p =>
      obtain ⟨z, ld⟩ := p
      cases hb : base B (rowsOf w B z.toList) (emb B ctx) with
      | error e => exact ⟨0, hB, e, (flowExec_base_error o H e hT hb).2 0 hB⟩
      | ok lp => rw [flow_of_ok o hT hb] at h; cases h
  · rintro ⟨i, hi, err, h⟩
    cases hf : flowLogProbExec o w emb T base B x ctx with
    | error e => exact ⟨e, rfl⟩
    | ok lps =>
      obtain ⟨l, -, hl⟩ := (flowExec_row_independent o H lps hf).2 i hi
      rw [hl] at h
      cases h

/-- accepted iff every row alone is accepted (non-empty batch) -/
theorem flowExec_accepted_iff (H : FlowRows w rcw cw emb T base B x ctx xr cr) (hB : 0 < B) :
    (∃ lps, flowLogProbExec o w emb T base B x ctx = .ok lps) ↔
      ∀ i, i < B → ∃ l, flowLogProbExec o w emb T base 1 (xr i) (cr i) = .ok [l] := by
  constructor
  · rintro ⟨lps, h⟩ i hi
    obtain ⟨l, -, hl⟩ := (flowExec_row_independent o H lps h).2 i hi
    exact ⟨l, hl⟩
  · intro hall
    cases hf : flowLogProbExec o w emb T base B x ctx with
    | ok lps => exact ⟨lps, rfl⟩
    | error e =>
      obtain ⟨i, hi, e', he'⟩ := (flowExec_raises_iff o H hB).1 ⟨e, hf⟩
      obtain ⟨l, hl⟩ := hall i hi
      rw [hl] at he'
      cases he'

end flow

/-! ### base densities of `Core/Density.lean` -/

section bases
variable (o : XOps α)

theorem RowIndep.congr_single {batch : Except DErr (List α)} {n : Nat} {single single' : Nat → Except DErr (List α)}
    (h : RowIndep batch n single) (hs : ∀ i, i < n → single i = single' i) : RowIndep batch n single' := by
  refine ⟨fun lps hl => ⟨(h.1 lps hl).1, fun i hi => ?_⟩, fun err he i hi => ?_⟩
  · obtain ⟨l, h1, h2⟩ := (h.1 lps hl).2 i hi
    exact ⟨l, h1, by rw [← hs i hi]; exact h2⟩
  · rw [← hs i hi]; exact h.2 err he i hi

/-- the executed `StandardNormal.log_prob` (context ignored; `c` = whether a context is passed) is a row independent base -/
theorem rowIndepBase_stdNormal (shape inShape : List Nat) (c : Bool) (cw : Nat) :
    RowIndepBase cw (fun B rows _ => stdNormalLogProb o shape inShape (ctxOf c B) rows) := by
  intro B rows e er hlen _
  subst hlen
  exact stdNormal_logProb_row_independent o shape inShape c rows

/-- the executed `DiagonalNormal.log_prob` -/
theorem rowIndepBase_diagNormal (shape inShape : List Nat) (c : Bool) (mean logStd : List α) (cw : Nat) :
    RowIndepBase cw (fun B rows _ => diagNormalLogProb o shape inShape (ctxOf c B) mean logStd rows) := by
  intro B rows e er hlen _
  subst hlen
  exact diagNormal_logProb_row_independent o shape inShape c mean logStd rows

/-- the context encoder of `ConditionalDiagonalNormal` at batch level (`[B, cw]` ↦ `B` parameter rows) is row-wise -/
structure EncRowWise (cw : Nat) (enc : Nat → Array α → List (List α)) : Prop where
  len : ∀ B e, (enc B e).length = B
  rows : ∀ {B B' b b' : Nat} (e e' : Array α), b < B → b' < B' → RowEq cw b b' e e' →
    (enc B e).getD b [] = (enc B' e').getD b' []

/-- the executed `ConditionalDiagonalNormal.log_prob`, its context encoder run on the embedded context of the batch -/
theorem rowIndepBase_condNormal (shape inShape pShape : List Nat) (hp : pShape ≠ []) (cw : Nat)
    (enc : Nat → Array α → List (List α)) (henc : EncRowWise cw enc) :
    RowIndepBase cw (fun B rows e => condNormalLogProb o shape inShape (some B) B pShape (enc B e) rows) := by
  intro B rows e er hlen he
  subst hlen
  refine RowIndep.congr_single
    (condNormal_logProb_row_independent o shape inShape pShape hp (enc rows.length e) rows (henc.len _ _)) ?_
  intro i hi
  obtain ⟨a, ha⟩ := list_len_one (enc 1 (er i)) (henc.len 1 _)
  have := henc.rows e (er i) hi Nat.one_pos (he i hi)
  rw [ha] at this
  simp only [List.getD_cons_zero] at this
  show condNormalLogProb o shape inShape (some 1) 1 pShape [(enc rows.length e).getD i []] [rows.getD i []]
    = condNormalLogProb o shape inShape (some 1) 1 pShape (enc 1 (er i)) [rows.getD i []]
  rw [ha, this]

end bases

/-! ## 4. the sampling side (C04): `Flow.sample_and_log_prob(n, context)` over an executed row-wise inverse pass -/

section salp
variable (o : XOps α)

/-- `repeat_rows(embedded_context, num_reps = n)` on a flat `[R, cw]` array (torchutils.py:45-52): flat row `i·n + j` is row `i` -/
def repeatRowsArr (cw R n : Nat) (e : Array α) : Array α :=
  ((List.range (R * n)).flatMap fun r => (List.range cw).map fun k => e.getD ((r / n) * cw + k) o.zero).toArray

theorem repeatRowsArr_rowEq (cw R n : Nat) (e : Array α) (he : R * cw ≤ e.size) {i j : Nat} (hi : i < R) (hj : j < n) :
    RowEq cw (i * n + j) i (repeatRowsArr o cw R n e) e := by
  intro k hk
  have hn : 0 < n := by omega
  have hdiv : (i * n + j) / n = i := by
    rw [Nat.add_comm, Nat.add_mul_div_right _ _ hn, Nat.div_eq_of_lt hj, Nat.zero_add]
  have hlt : i * cw + k < e.size := lt_of_lt_of_le (lt_mul_of hi hk) he
  unfold repeatRowsArr
  rw [List.getElem?_toArray, flatRange_getElem? _ (R * n) cw (i * n + j) k (lt_mul_of hi hj) hk, hdiv]
  simp [Array.getD_eq_getD_getElem?, hlt]

/-- **`Flow.sample_and_log_prob(n, context)` as the code runs it** (flows/base.py:77-106, distributions/base.py:107-122), as a
    function of the merged noise `[R·n, w]` the base distribution drew: the embedded context is `repeat_rows`-ed, the base
    `log_prob` of the merged noise under the repeated context is computed (may raise), the inverse transform runs on the merged
    batch (may raise), and `log_prob - logabsdet` is returned.  (`split_leading_dim` is a view: sample `[i, j]` is flat row `i·n + j`.) -/
def flowSalpExec (w cw R n : Nat) (emb : Nat → Array α → Array α) (Tinv : BStage α) (base : BaseD α)
    (noise ctx : Array α) : Except DErr (Array α × List α) :=
  let e' := repeatRowsArr o cw R n (emb R ctx)
  match base (R * n) (rowsOf w (R * n) noise.toList) e' with
  | .error err => .error err
  | .ok lp =>
    match Tinv (R * n) noise e' with
    | .error err => .error (.base err)
    | .ok (s, lad) => .ok (s, List.zipWith o.sub lp lad)

/-- **C04, pairing over the executed passes.**  If the call returns `(samples, lps)`: for context row `i` and draw `j`, the
    inverse pass run ALONE on noise row `[i, j]` (`zr`) under the embedded context row `i` (`emb 1 (cr i)`) is accepted, returns
    exactly sample `[i, j]` and a log-det `d`; the base density alone accepts that noise row under that context row with value `l`;
    and the returned `lps[i, j] = l - d`.  No other row of the noise or of the context enters. -/
theorem flowSalpExec_pairing {w rcw cw R n : Nat} {emb : Nat → Array α → Array α} {Tinv : BStage α} {base : BaseD α}
    {noise ctx : Array α} (hT : RowWiseStage w cw Tinv) (hbase : RowIndepBase cw base) (hemb : EmbRowWise rcw cw emb)
    (hsize : R * cw ≤ (emb R ctx).size) {s : Array α} {lps : List α}
    (h : flowSalpExec o w cw R n emb Tinv base noise ctx = .ok (s, lps))
    {i j : Nat} (hi : i < R) (hj : j < n) (zr cr : Array α) (hz : RowEq w (i * n + j) 0 noise zr)
    (hc : RowEq rcw i 0 ctx cr) :
    ∃ (si : Array α) (d l : α), Tinv 1 zr (emb 1 cr) = .ok (si, [d]) ∧ RowEq w (i * n + j) 0 s si ∧
      base 1 (rowsOf w 1 zr.toList) (emb 1 cr) = .ok [l] ∧ lps[i * n + j]? = some (o.sub l d) := by
  have hr : i * n + j < R * n := lt_mul_of hi hj
  have he : RowEq cw (i * n + j) 0 (repeatRowsArr o cw R n (emb R ctx)) (emb 1 cr) :=
    (repeatRowsArr_rowEq o cw R n _ hsize hi hj).trans (hemb ctx cr hi Nat.one_pos hc)
  unfold flowSalpExec at h
  simp only at h
  cases hB : base (R * n) (rowsOf w (R * n) noise.toList) (repeatRowsArr o cw R n (emb R ctx)) with
  | error err => rw [hB] at h; cases h
  | ok lp =>
    rw [hB] at h
    cases hTi : Tinv (R * n) noise (repeatRowsArr o cw R n (emb R ctx)) with
    | error err => rw [hTi] at h; cases h
    | ok p =>
      obtain ⟨s', lad⟩ := p
      rw [hTi] at h
      simp only [Except.ok.injEq, Prod.mk.injEq] at h
      obtain ⟨rfl, rfl⟩ := h
      -- the other rows: run them on their own slices
      let xr : Nat → Array α := fun b => if b = i * n + j then zr else rowSlice w noise b
      let er : Nat → Array α := fun b => if b = i * n + j then emb 1 cr
        else rowSlice cw (repeatRowsArr o cw R n (emb R ctx)) b
      have hslice : ∀ (w : Nat) (a : Array α) (b : Nat), RowEq w b 0 a (rowSlice w a b) := by
        intro w a b k hk
        rw [Nat.zero_mul, Nat.zero_add, rowSlice_getElem? w a b hk]
      have hxr : ∀ b, b < R * n → RowEq w b 0 noise (xr b) := by
        intro b _
        by_cases hb : b = i * n + j
        · simp only [xr, hb, if_true]; exact hz
        · simp only [xr, hb, if_false]; exact hslice w noise b
      have her : ∀ b, b < R * n → RowEq cw b 0 (repeatRowsArr o cw R n (emb R ctx)) (er b) := by
        intro b _
        by_cases hb : b = i * n + j
        · simp only [er, hb, if_true]; exact he
        · simp only [er, hb, if_false]; exact hslice cw _ b
      have hxi : xr (i * n + j) = zr := by simp [xr]
      have hei : er (i * n + j) = emb 1 cr := by simp [er]
      obtain ⟨⟨si, ldi⟩, hsi⟩ := (hT.accept (R * n) noise _ xr er hxr her).1 ⟨_, hTi⟩ (i * n + j) hr
      rw [hxi, hei] at hsi
      obtain ⟨hs, hl⟩ := hT.agree noise zr _ (emb 1 cr) s' si lad ldi hr Nat.one_pos hz he hTi hsi
      obtain ⟨d, rfl⟩ := list_len_one ldi (hT.ld_len 1 _ _ _ _ hsi)
      obtain ⟨-, hrows⟩ := (hbase (R * n) _ _ er (rowsOf_length w (R * n) _) her).1 lp hB
      obtain ⟨l, hl1, hl2⟩ := hrows (i * n + j) hr
      simp only [hei, ← rowsOf_single hr hz] at hl2
      refine ⟨si, d, l, hsi, hs, hl2, ?_⟩
      have hd : lad[i * n + j]? = some d := by simpa using hl
      simp [List.getElem?_zipWith, hl1, hd]

/-- the round-trip law of a forward / inverse pair of one-row calls (what `Properties/C02*.lean` provides at the reals for the
    executed programs): the forward pass maps the output of an accepted inverse call back to its input, with the negated log-det -/
def RoundTripStage (w : Nat) (T Tinv : BStage α) : Prop :=
  ∀ (z e s : Array α) (d : α), Tinv 1 z e = .ok (s, [d]) → ∃ z', T 1 s e = .ok (z', [o.neg d]) ∧ RowEq w 0 0 z' z

/-- **C04, consistency over the executed passes.**  Under the round-trip law (and `a - b = a + (-b)`), the value returned for sample
    `[i, j]` is exactly what the executed `Flow.log_prob` assigns to that sample alone under context row `i` alone. -/
theorem flowSalpExec_consistent {w rcw cw R n : Nat} {emb : Nat → Array α → Array α} {T Tinv : BStage α} {base : BaseD α}
    {noise ctx : Array α} (hT : RowWiseStage w cw Tinv) (hbase : RowIndepBase cw base) (hemb : EmbRowWise rcw cw emb)
    (hsize : R * cw ≤ (emb R ctx).size) (hround : RoundTripStage o w T Tinv)
    (hsub : ∀ a b : α, o.sub a b = o.add a (o.neg b)) {s : Array α} {lps : List α}
    (h : flowSalpExec o w cw R n emb Tinv base noise ctx = .ok (s, lps))
    {i j : Nat} (hi : i < R) (hj : j < n) (zr cr : Array α) (hz : RowEq w (i * n + j) 0 noise zr)
    (hc : RowEq rcw i 0 ctx cr) :
    ∃ (si : Array α) (lp : α), RowEq w (i * n + j) 0 s si ∧ lps[i * n + j]? = some lp ∧
      flowLogProbExec o w emb T base 1 si cr = .ok [lp] := by
  obtain ⟨si, d, l, hsi, hs, hb, hl⟩ := flowSalpExec_pairing o hT hbase hemb hsize h hi hj zr cr hz hc
  obtain ⟨z', hz', hzz⟩ := hround zr (emb 1 cr) si d hsi
  refine ⟨si, o.sub l d, hs, hl, ?_⟩
  have hrow : rowsOf w 1 z'.toList = rowsOf w 1 zr.toList := by
    simp only [rowsOf, List.range_one, List.map_cons, List.map_nil]
    rw [row_list_eq hzz]
  rw [← hrow] at hb
  rw [flow_of_ok o hz' hb, hsub]
  rfl

end salp

/-! ## 5. the headline statements for the executed stages, and concrete instances -/

section headlines
variable (o : XOps α) {rcw cw : Nat} {emb : Nat → Array α → Array α} {base : BaseD α} {B : Nat} {x ctx : Array α}
  {xr cr : Nat → Array α}

/-- **(c) `Flow.log_prob` with a `CompositeTransform` of row-wise stages** (in particular any list of executed coupling /
    autoregressive / CDF passes of one width): values of an accepted batch = the rows alone; raises iff some row alone raises. -/
theorem flowExec_composite {w : Nat} (ts : List (BStage α)) (hts : ∀ t ∈ ts, RowWiseStage w cw t)
    (hbase : RowIndepBase cw base) (hemb : EmbRowWise rcw cw emb) (hx : ∀ b, b < B → RowEq w b 0 x (xr b))
    (hctx : ∀ b, b < B → RowEq rcw b 0 ctx (cr b)) :
    (∀ lps, flowLogProbExec o w emb (compStage o ts) base B x ctx = .ok lps → lps.length = B ∧ ∀ i, i < B →
      ∃ l, lps[i]? = some l ∧ flowLogProbExec o w emb (compStage o ts) base 1 (xr i) (cr i) = .ok [l]) ∧
    (0 < B → ((∃ err, flowLogProbExec o w emb (compStage o ts) base B x ctx = .error err) ↔
      ∃ i, i < B ∧ ∃ err, flowLogProbExec o w emb (compStage o ts) base 1 (xr i) (cr i) = .error err)) :=
  have H : FlowRows w rcw cw emb (compStage o ts) base B x ctx xr cr := ⟨rowWise_compStage o ts hts, hbase, hemb, hx, hctx⟩
  ⟨flowExec_row_independent o H, flowExec_raises_iff o H⟩

/-- **(a)+(b) for one executed coupling layer** -/
theorem flowExec_coupling (c : ElCfg) (mask : List α) (S : Nat) (uc : Option ElCfg) (uparams : Array α)
    (net : Nat → Array α → Array α → Array α)
    (hnet : NetRowWise ((identityIdx o mask).length * S) cw (paramWidth c (transformIdx o mask).length * S) net)
    (hbase : RowIndepBase cw base) (hemb : EmbRowWise rcw cw emb)
    (hx : ∀ b, b < B → RowEq (mask.length * S) b 0 x (xr b)) (hctx : ∀ b, b < B → RowEq rcw b 0 ctx (cr b)) :
    let T := couplingStage o c mask S false uc uparams net
    (∀ lps, flowLogProbExec o (mask.length * S) emb T base B x ctx = .ok lps → lps.length = B ∧ ∀ i, i < B →
      ∃ l, lps[i]? = some l ∧ flowLogProbExec o (mask.length * S) emb T base 1 (xr i) (cr i) = .ok [l]) ∧
    (0 < B → ((∃ err, flowLogProbExec o (mask.length * S) emb T base B x ctx = .error err) ↔
      ∃ i, i < B ∧ ∃ err, flowLogProbExec o (mask.length * S) emb T base 1 (xr i) (cr i) = .error err)) :=
  have H : FlowRows (mask.length * S) rcw cw emb (couplingStage o c mask S false uc uparams net) base B x ctx xr cr :=
    ⟨rowWise_couplingStage o c mask S false uc uparams cw net hnet, hbase, hemb, hx, hctx⟩
  ⟨flowExec_row_independent o H, flowExec_raises_iff o H⟩

/-- **(a)+(b) for one executed autoregressive pass** -/
theorem flowExec_ar (c : ElCfg) (F : Nat) (net : Nat → Array α → Array α → Array α)
    (hnet : NetRowWise F cw (F * arMult c) net) (hbase : RowIndepBase cw base) (hemb : EmbRowWise rcw cw emb)
    (hx : ∀ b, b < B → RowEq F b 0 x (xr b)) (hctx : ∀ b, b < B → RowEq rcw b 0 ctx (cr b)) :
    let T := arStage o c F false net
    (∀ lps, flowLogProbExec o F emb T base B x ctx = .ok lps → lps.length = B ∧ ∀ i, i < B →
      ∃ l, lps[i]? = some l ∧ flowLogProbExec o F emb T base 1 (xr i) (cr i) = .ok [l]) ∧
    (0 < B → ((∃ err, flowLogProbExec o F emb T base B x ctx = .error err) ↔
      ∃ i, i < B ∧ ∃ err, flowLogProbExec o F emb T base 1 (xr i) (cr i) = .error err)) :=
  have H : FlowRows F rcw cw emb (arStage o c F false net) base B x ctx xr cr :=
    ⟨rowWise_arStage o c F false cw net hnet, hbase, hemb, hx, hctx⟩
  ⟨flowExec_row_independent o H, flowExec_raises_iff o H⟩

/-- **(a)+(b) for one executed `Piecewise*CDF`** -/
theorem flowExec_cdf (c : ElCfg) (n : Nat) (params : Array α) (hbase : RowIndepBase cw base) (hemb : EmbRowWise rcw cw emb)
    (hx : ∀ b, b < B → RowEq n b 0 x (xr b)) (hctx : ∀ b, b < B → RowEq rcw b 0 ctx (cr b)) :
    let T := cdfStage o c n false params
    (∀ lps, flowLogProbExec o n emb T base B x ctx = .ok lps → lps.length = B ∧ ∀ i, i < B →
      ∃ l, lps[i]? = some l ∧ flowLogProbExec o n emb T base 1 (xr i) (cr i) = .ok [l]) ∧
    (0 < B → ((∃ err, flowLogProbExec o n emb T base B x ctx = .error err) ↔
      ∃ i, i < B ∧ ∃ err, flowLogProbExec o n emb T base 1 (xr i) (cr i) = .error err)) :=
  have H : FlowRows n rcw cw emb (cdfStage o c n false params) base B x ctx xr cr :=
    ⟨rowWise_cdfStage o c n false params cw, hbase, hemb, hx, hctx⟩
  ⟨flowExec_row_independent o H, flowExec_raises_iff o H⟩

end headlines

section examples

/-- a toy conditioner (one identity feature, one context feature per row): `params[b] = cond_in[b] + context[b]` -/
def toyNet : Nat → Array Int → Array Int → Array Int :=
  fun B xin c => ((List.range B).map fun b => xin.getD b 0 + c.getD b 0).toArray
/-- a toy embedding net -/
def toyEmb : Nat → Array Int → Array Int := fun _ c => (c.toList.map (· + 100)).toArray
/-- a toy MADE: `params[b, :] = x[b, 0] + context[b] + (0, 1, 2, 3)` -/
def toyArNet : Nat → Array Int → Array Int → Array Int :=
  fun B x c => ((List.range (B * 4)).map fun t => x.getD (t / 4 * 2) 0 + c.getD (t / 4) 0 + (t % 4 : Nat)).toArray

/-- the EXECUTED additive coupling layer (mask `[0, 1]`), forward and inverse, with the toy conditioner -/
def toyT : BStage Int := couplingStage intX { kind := "additive" } [0, 1] 1 false none #[] toyNet
def toyTinv : BStage Int := couplingStage intX { kind := "additive" } [0, 1] 1 true none #[] toyNet
/-- the EXECUTED affine autoregressive pass with the toy MADE -/
def toyAr : BStage Int := arStage intX { container := "ar", kind := "araffine" } 2 false toyArNet
/-- an element-wise pass (the container of `arApply` / `cdfApply`) whose elements raise on negative inputs -/
def toyDom : BStage Int := fun B x _ => ofT (elemwiseResult intX B 2 fun b i =>
  if x.getD (b * 2 + i) 0 < 0 then .error .outsideDomain else .ok (x.getD (b * 2 + i) 0 + 1, 7, []))
/-- the EXECUTED `StandardNormal` and `ConditionalDiagonalNormal` (toy context encoder `e ↦ [e, 0, 1, 1]`) -/
def toyStd : BaseD Int := fun B rows _ => stdNormalLogProb intX [2] [2] (some B) rows
def toyEnc : Nat → Array Int → List (List Int) := fun B e => (List.range B).map fun b => [e.getD b 0, 0, 1, 1]
def toyCond : BaseD Int := fun B rows e => condNormalLogProb intX [2] [2] (some B) B [4] (toyEnc B e) rows

theorem rowEq_one {b b' : Nat} {x x' : Array Int} (h : RowEq 1 b b' x x') : x[b]? = x'[b']? := by
  have := h 0 Nat.one_pos
  simpa only [Nat.mul_one, Nat.add_zero] using this

/-- the toy networks satisfy the row-wise hypotheses, so the theorems apply to the instances below -/
theorem toyNet_rowWise : NetRowWise 1 1 1 toyNet := by
  intro B B' b b' x x' c c' hb hb' hx hc k hk
  obtain rfl : k = 0 := by omega
  simp [toyNet, hb, hb', rowEq_one hx, rowEq_one hc]

theorem toyEmb_rowWise : EmbRowWise 1 1 toyEmb := by
  intro B B' b b' c c' hb hb' hc k hk
  obtain rfl : k = 0 := by omega
  have := hc 0 Nat.one_pos
  simp only [Nat.mul_one, Nat.add_zero] at this ⊢
  simp [toyEmb, this]

theorem toyEnc_rowWise : EncRowWise 1 toyEnc where
  len := by intro B e; simp [toyEnc]
  rows := by
    intro B B' b b' e e' hb hb' he
    simp [toyEnc, List.getD_eq_getElem?_getD, hb, hb', rowEq_one he]

/-- the hypotheses of the flow theorems hold for the additive coupling layer + `ConditionalDiagonalNormal` on this batch -/
theorem toy_flowRows : FlowRows 2 1 1 toyEmb toyT toyCond 2 #[1, 2, 3, 4] #[10, 20]
    (fun b => if b = 0 then #[1, 2] else #[3, 4]) (fun b => if b = 0 then #[10] else #[20]) where
  hT := rowWise_couplingStage intX _ [0, 1] 1 false none #[] 1 toyNet (by
    have h1 : (identityIdx intX [0, 1]).length = 1 := by decide
    have h2 : paramWidth { kind := "additive" } (transformIdx intX [0, 1]).length = 1 := by decide +kernel
    rw [h1, h2]; exact @toyNet_rowWise)
  hbase := rowIndepBase_condNormal intX [2] [2] [4] (by simp) 1 toyEnc toyEnc_rowWise
  hemb := toyEmb_rowWise
  hx := by
    intro b hb k hk
    interval_cases b <;> interval_cases k <;> rfl
  hctx := by
    intro b hb k hk
    interval_cases b <;> interval_cases k <;> rfl

/-- (a) executed additive coupling + `ConditionalDiagonalNormal`: the batch of two, and its rows alone -/
example :
    flowLogProbExec intX 2 toyEmb toyT toyCond 2 #[1, 2, 3, 4] #[10, 20] = .ok [-24651, -29819] ∧
    flowLogProbExec intX 2 toyEmb toyT toyCond 1 #[1, 2] #[10] = .ok [-24651] ∧
    flowLogProbExec intX 2 toyEmb toyT toyCond 1 #[3, 4] #[20] = .ok [-29819] := by
  decide +kernel

/-- (c) a `CompositeTransform` of an executed coupling layer, an executed autoregressive pass and a raising element-wise pass -/
example :
    compStage intX [toyT, toyAr, toyDom] 2 #[1, 2, 3, 4] #[110, 120] = .ok (#[224, 12884, 494, 16002], [239, 263]) ∧
    compStage intX [toyT, toyAr, toyDom] 1 #[3, 4] #[120] = .ok (#[494, 16002], [263]) ∧
    flowLogProbExec intX 2 toyEmb (compStage intX [toyT, toyAr, toyDom]) toyCond 2 #[1, 2, 3, 4] #[10, 20]
      = .ok [-166010215, -256203619] ∧
    flowLogProbExec intX 2 toyEmb (compStage intX [toyT, toyAr, toyDom]) toyCond 1 #[3, 4] #[20] = .ok [-256203619] := by
  decide +kernel

/-- (b) errors: row 1 is outside the domain of the first stage: the batch raises that error, row 0 alone is accepted, row 1 alone
    raises; and a base-density rejection (event shape `[3]` against inputs of shape `[2]`) is raised by the batch and by every row -/
example :
    flowLogProbExec intX 2 toyEmb (compStage intX [toyDom, toyT]) toyCond 2 #[1, 2, -3, 4] #[10, 20]
      = .error (.base .outsideDomain) ∧
    flowLogProbExec intX 2 toyEmb (compStage intX [toyDom, toyT]) toyCond 1 #[1, 2] #[10] = .ok [-24876] ∧
    flowLogProbExec intX 2 toyEmb (compStage intX [toyDom, toyT]) toyCond 1 #[-3, 4] #[20] = .error (.base .outsideDomain) ∧
    flowLogProbExec intX 2 toyEmb toyT (fun B rows _ => stdNormalLogProb intX [3] [2] (some B) rows) 2 #[1, 2, 3, 4] #[10, 20]
      = .error valueErr ∧
    flowLogProbExec intX 2 toyEmb toyT (fun B rows _ => stdNormalLogProb intX [3] [2] (some B) rows) 1 #[3, 4] #[20]
      = .error valueErr := by
  decide +kernel

/-- C04: `sample_and_log_prob(2, context[2])` over the executed inverse coupling pass: sample `[1, 0]` (flat row 2) is the inverse
    pass alone on noise row 2 under embedded context row 1, and its returned value is `log_prob` of that sample under context row 1 -/
example :
    flowSalpExec intX 2 1 2 2 toyEmb toyTinv toyCond #[1, 2, 3, 4, 5, 6, 7, 8] #[10, 20]
      = .ok (#[1, -109, 3, -109, 5, -119, 7, -119], [-11886, -11466, -13262, -12834]) ∧
    toyTinv 1 #[5, 6] (toyEmb 1 #[20]) = .ok (#[5, -119], [-1]) ∧
    flowLogProbExec intX 2 toyEmb toyT toyCond 1 #[5, -119] #[20] = .ok [-13262] := by
  decide +kernel

/-- the theorem applied to the instance: entry 1 of the batch result is what row 1 alone returns -/
example : ∃ l, ([-24651, -29819] : List Int)[1]? = some l ∧
    flowLogProbExec intX 2 toyEmb toyT toyCond 1 #[3, 4] #[20] = .ok [l] :=
  (flowExec_row_independent intX toy_flowRows [-24651, -29819] (by decide +kernel)).2 1 (by decide)

/-- `RoundTripStage` is satisfiable (the identity stage at the toy semantics, where `-0 = 0`) -/
example : RoundTripStage intX 2 (fun B x _ => .ok (x, List.replicate B 0)) (fun B x _ => .ok (x, List.replicate B 0)) := by
  intro z e s d h
  simp only [List.replicate_one, Except.ok.injEq, Prod.mk.injEq, List.cons.injEq, and_true] at h
  obtain ⟨rfl, rfl⟩ := h
  exact ⟨z, rfl, RowEq.refl _ _ _⟩

/-- `0 < B` in `flowExec_raises_iff` is forced: the empty batch is rejected by the base density's shape check, with no row to blame -/
example : flowLogProbExec intX 2 toyEmb toyT (fun B rows _ => stdNormalLogProb intX [3] [2] (some B) rows) 0 #[] #[]
    = .error valueErr := by
  decide +kernel

end examples

end NF.FlowRowsExec
