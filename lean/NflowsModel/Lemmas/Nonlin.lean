import Mathlib.Analysis.SpecialFunctions.Trigonometric.DerivHyp
import Mathlib.Analysis.SpecialFunctions.Log.Deriv
import Mathlib.Analysis.SpecialFunctions.ExpDeriv
import Mathlib.Tactic

namespace Nonlin


noncomputable section
open Real

/-! Exp (nonlinearities.py:18-32) -/
theorem exp_fwd_deriv (x : ℝ) : HasDerivAt Real.exp (Real.exp x) x := Real.hasDerivAt_exp x   -- logabsdet = x
theorem exp_inv_fwd (x : ℝ) : Real.log (Real.exp x) = x := Real.log_exp x
theorem exp_fwd_inv {y : ℝ} (hy : 0 < y) : Real.exp (Real.log y) = y := Real.exp_log hy

/-! Tanh (nonlinearities.py:35-48): logabsdet = log(1 - tanh² x); inverse ½ log((1+y)/(1-y)) -/
theorem tanh_deriv (x : ℝ) : HasDerivAt Real.tanh (Real.exp (Real.log (1 - (Real.tanh x)^2))) x := by
  rw [Real.exp_log (by linarith [Real.tanh_sq_lt_one x])]
  have h := (Real.hasDerivAt_sinh x).div (Real.hasDerivAt_cosh x) (Real.cosh_pos x).ne'
  have e : (fun y => Real.sinh y / Real.cosh y) = Real.tanh := by funext y; exact (Real.tanh_eq_sinh_div_cosh y).symm
  have h' : HasDerivAt Real.tanh ((Real.cosh x * Real.cosh x - Real.sinh x * Real.sinh x) / Real.cosh x ^ 2) x := by
    rw [← e]; exact h
  refine h'.congr_deriv ?_
  have hc := (Real.cosh_pos x).ne'
  rw [Real.tanh_eq_sinh_div_cosh]
  field_simp

def artanhCode (y : ℝ) : ℝ := 0.5 * Real.log ((1 + y) / (1 - y))
theorem tanh_inv_fwd (x : ℝ) : artanhCode (Real.tanh x) = x := by
  unfold artanhCode
  have hc := Real.cosh_pos x
  have key : (1 + Real.tanh x) / (1 - Real.tanh x) = Real.exp (2 * x) := by
    rw [Real.tanh_eq_sinh_div_cosh, Real.sinh_eq, Real.cosh_eq]
    have he : Real.exp (2*x) = Real.exp x * Real.exp x := by rw [← Real.exp_add]; ring_nf
    have hp := Real.exp_pos x; have hn := Real.exp_pos (-x)
    have hinv : Real.exp (-x) = (Real.exp x)⁻¹ := Real.exp_neg x
    rw [he, hinv]
    field_simp
    ring
  rw [key, Real.log_exp]; ring

/-! Sigmoid with temperature (nonlinearities.py:139-169): logabsdet = log T - softplus(-Tx) - softplus(Tx) -/
def softplus (z : ℝ) : ℝ := Real.log (1 + Real.exp z)
def sigmoid (z : ℝ) : ℝ := 1 / (1 + Real.exp (-z))
theorem sigmoid_deriv {T : ℝ} (hT : 0 < T) (x : ℝ) :
    HasDerivAt (fun x => sigmoid (T * x)) (Real.exp (Real.log T - softplus (-(T*x)) - softplus (T*x))) x := by
  have hpos : 0 < 1 + Real.exp (-(T*x)) := by positivity
  have hpos' : 0 < 1 + Real.exp (T*x) := by positivity
  have hval : Real.exp (Real.log T - softplus (-(T*x)) - softplus (T*x))
      = T / ((1 + Real.exp (-(T*x))) * (1 + Real.exp (T*x))) := by
    unfold softplus
    rw [Real.exp_sub, Real.exp_sub, Real.exp_log hT, Real.exp_log hpos, Real.exp_log hpos']
    field_simp
  rw [hval]
  have hin : HasDerivAt (fun x : ℝ => -(T * x)) (-T) x :=
    (((hasDerivAt_id' x).const_mul T).neg).congr_deriv (by simp)
  have hden : HasDerivAt (fun x : ℝ => 1 + Real.exp (-(T*x))) (Real.exp (-(T*x)) * (-T)) x :=
    (hin.exp).const_add 1
  have h := (hasDerivAt_const x (1:ℝ)).div hden hpos.ne'
  unfold sigmoid
  refine h.congr_deriv ?_
  have he : Real.exp (T*x) = (Real.exp (-(T*x)))⁻¹ := by rw [Real.exp_neg, inv_inv]
  have hp := Real.exp_pos (-(T*x))
  rw [he]
  field_simp
  ring

/-! LeakyReLU (nonlinearities.py:116-136), away from the kink -/
def lrelu (s x : ℝ) : ℝ := if x < 0 then s * x else x
theorem lrelu_deriv_neg {s x : ℝ} (hs : 0 < s) (hx : x < 0) :
    HasDerivAt (lrelu s) (Real.exp (Real.log s * 1)) x := by
  rw [mul_one, Real.exp_log hs]
  have : HasDerivAt (fun y => s * y) s x := by simpa using (hasDerivAt_id' x).const_mul s
  refine this.congr_of_eventuallyEq ?_
  filter_upwards [Iio_mem_nhds hx] with y hy
  simp [lrelu, Set.mem_Iio.mp hy]
theorem lrelu_deriv_pos {s x : ℝ} (hx : 0 < x) : HasDerivAt (lrelu s) (Real.exp (Real.log s * 0)) x := by
  rw [mul_zero, Real.exp_zero]
  refine (hasDerivAt_id' x).congr_of_eventuallyEq ?_
  filter_upwards [Ioi_mem_nhds hx] with y hy
  simp [lrelu, not_lt.mpr (Set.mem_Ioi.mp hy).le]
theorem lrelu_inv {s : ℝ} (hs : 0 < s) (x : ℝ) : lrelu (1/s) (lrelu s x) = x := by
  unfold lrelu
  by_cases hx : x < 0
  · have : s * x < 0 := mul_neg_of_pos_of_neg hs hx
    simp [hx, this]; field_simp
  · simp [hx]


end
end Nonlin
