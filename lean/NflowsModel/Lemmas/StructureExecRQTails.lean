import NflowsModel.Lemmas.TailsWhole
import NflowsModel.Lemmas.ARWholeMadeRow
/-!
# Lemmas/StructureExecRQTails — the rational-quadratic spline WITH LINEAR TAILS inside the executed layers (C02, C17, C01)

`PiecewiseRationalQuadraticCouplingTransform(tails='linear')` and
`MaskedPiecewiseRationalQuadraticAutoregressiveTransform(tails='linear')` are the flagship layers of the library.  The
element (`rqSplineTails`, `Lemmas/TailsWhole.lean`), the executed coupling layer (`Lemmas/StructureExec.lean`) and the
executed autoregressive transform with the MADE conditioner (`Lemmas/ARWhole.lean`) each have whole-program theorems;
this file joins them: the per-element invertibility hypotheses `ElInvertible` / `ArElInvertible(Rev)` are discharged for
the RQ family with tails, over `NF.realX e`, and the layer theorems become unconditional in the network, the parameters
and the inputs (the tails accept every real).

* §1 one element: `rqSplineTails_real_invertible(_rev)`, `rqTails_el_total` (never raises, either direction),
  `rqTails_real_invertible(_rev)` (the dispatcher `elTransform` with `kind = "rq"`, `tails = true`: slicing, the
  `1/sqrt(hidden_features)` scaling of widths / heights, the padding of the `K - 1` derivatives are all inside).
* §2 `RQTailsCfgValid e c`: a hypothesis on the five constants of the configuration only; `rqTailsValid_of_lengths`,
  `rqTailsSliceValid_of_cfg`: every parameter vector of length `3K - 1` is accepted.
* §3 coupling: `elInvertible_rq_tails_real`, `coupling_rq_tails_err_none`, `coupling_rq_tails_roundtrip_real`; C01 per
  element at every real `elTransform_rq_tails_hasDerivAt`, `couplingEl_rq_tails_hasDerivAt`.
* §3b the other order for the executed coupling layer, generic (`ElInvertibleRev`, `coupling_forward_inverse`,
  `coupling_forward_inverse_ld`, `coupling_forward_inverse_real`) and for RQ tails
  (`coupling_rq_tails_roundtrip_rev_real`).
* §4 autoregressive: `arElInvertible_rq_tails_real` (both orders), `ar_rq_tails_err_none`, `ar_rq_tails_roundtrip_real`,
  `made_rq_tails_roundtrip_real`, `madeRow_rq_tails_roundtrip_real`.
* §5 C01 at EVERY real input (needs `TailsWhole.PadExact`): `elMap_rq_tails_hasDerivAt`, `ar_rq_tails_row_logdet`,
  `made_rq_tails_row_logdet`.
* §6 non-vacuity: `rq_valid_example2`, `rqTailsCfgValid_example(_ar,1)`, `aT_builds`, `coupling_rq_tails_example`,
  `made_rq_tails_example`, `pad_cfg_example`.
-/
open NF DualSound

namespace NF.StructureExec
variable {α : Type}

/-! ## 1. One element -/

/-- **one executed RQ-with-tails element over the reals inverts exactly and negates its log-det, for EVERY real input** -/
theorem rqSplineTails_real_invertible (e : Float → ℝ) (tb mW mH mD be : Float) (uw uh ud : List ℝ)
    (hv : TailsWhole.RQTailsValid e tb mW mH mD be uw uh ud) {x y l : ℝ}
    (h : rqSplineTails (NF.realX e) tb mW mH mD be uw uh ud false x = .ok (y, l)) :
    rqSplineTails (NF.realX e) tb mW mH mD be uw uh ud true y = .ok (x, -l) := by
  rw [TailsWhole.tails_total hv x] at h
  simp only [Except.ok.injEq, Prod.mk.injEq] at h
  obtain ⟨rfl, rfl⟩ := h
  rw [TailsWhole.tails_total_inv hv, TailsWhole.invT_valT hv, TailsWhole.invLdT_eq_neg_ldT hv, TailsWhole.invT_valT hv]

/-- the other order -/
theorem rqSplineTails_real_invertible_rev (e : Float → ℝ) (tb mW mH mD be : Float) (uw uh ud : List ℝ)
    (hv : TailsWhole.RQTailsValid e tb mW mH mD be uw uh ud) {x y l : ℝ}
    (h : rqSplineTails (NF.realX e) tb mW mH mD be uw uh ud true y = .ok (x, l)) :
    rqSplineTails (NF.realX e) tb mW mH mD be uw uh ud false x = .ok (y, -l) := by
  rw [TailsWhole.tails_total_inv hv y] at h
  simp only [Except.ok.injEq, Prod.mk.injEq] at h
  obtain ⟨rfl, rfl⟩ := h
  rw [TailsWhole.tails_total hv, TailsWhole.valT_invT hv, TailsWhole.ldT_eq_neg_invLdT hv, TailsWhole.valT_invT hv]

/-- the five constants `elTransform` reads for the RQ family with tails: tail bound, `min_bin_width`, `min_bin_height`,
    `min_derivative`, softplus `beta` -/
abbrev tTb (c : ElCfg) : Float := c.ds.getD 0 0.0
abbrev tMW (c : ElCfg) : Float := c.ds.getD 1 0.0
abbrev tMH (c : ElCfg) : Float := c.ds.getD 2 0.0
abbrev tMD (c : ElCfg) : Float := c.ds.getD 3 0.0
abbrev tBe (c : ElCfg) : Float := c.ds.getD 4 0.0

/-- the parameter vector `p` is sliced (and scaled by `1/sqrt(hidden_features)`) into an accepted tails configuration:
    `K` widths, `K` heights, `K - 1` interior derivatives (the program pads them to `K + 1`) -/
def RQTailsSliceValid (e : Float → ℝ) (c : ElCfg) (p : List ℝ) : Prop :=
  TailsWhole.RQTailsValid e (tTb c) (tMW c) (tMH c) (tMD c) (tBe c)
    (rqW (NF.realX e) c p) (rqH (NF.realX e) c p) (rqD c p)

/-- what the dispatcher returns for an accepted slice, either direction: it never raises -/
theorem rqTails_el_total (e : Float → ℝ) (c : ElCfg) (hk : c.kind = "rq") (ht : c.tails = true) (p : List ℝ)
    (hv : RQTailsSliceValid e c p) (x : ℝ) :
    elTransform (NF.realX e) c false p x
        = .ok (TailsWhole.valT e (tTb c) (tMW c) (tMH c) (tMD c) (tBe c) (rqW (NF.realX e) c p) (rqH (NF.realX e) c p) (rqD c p) x,
               TailsWhole.ldT e (tTb c) (tMW c) (tMH c) (tMD c) (tBe c) (rqW (NF.realX e) c p) (rqH (NF.realX e) c p) (rqD c p) x, [])
    ∧ elTransform (NF.realX e) c true p x
        = .ok (TailsWhole.invT e (tTb c) (tMW c) (tMH c) (tMD c) (tBe c) (rqW (NF.realX e) c p) (rqH (NF.realX e) c p) (rqD c p) x,
               TailsWhole.invLdT e (tTb c) (tMW c) (tMH c) (tMD c) (tBe c) (rqW (NF.realX e) c p) (rqH (NF.realX e) c p) (rqD c p) x, []) := by
  constructor
  · rw [TailsWhole.elTransform_rq_tails _ c hk ht, TailsWhole.tails_total hv x]; rfl
  · rw [TailsWhole.elTransform_rq_tails _ c hk ht, TailsWhole.tails_total_inv hv x]; rfl

/-- **one RQ element with linear tails, as the coupling / autoregressive dispatcher runs it, inverts exactly and
    negates its log-det for EVERY real input**: inside `[-B, B]` by the bounded whole-program theorems on the padded
    derivative vector, outside both passes are the identity with log-det 0 -/
theorem rqTails_real_invertible (e : Float → ℝ) (c : ElCfg) (hk : c.kind = "rq") (ht : c.tails = true) (p : List ℝ)
    (hv : RQTailsSliceValid e c p) {x y l : ℝ} {al : List ℝ}
    (h : elTransform (NF.realX e) c false p x = .ok (y, l, al)) :
    elTransform (NF.realX e) c true p y = .ok (x, -l, []) := by
  rw [TailsWhole.elTransform_rq_tails _ c hk ht] at h ⊢
  cases hr : rqSplineTails (NF.realX e) (c.ds.getD 0 0.0) (c.ds.getD 1 0.0) (c.ds.getD 2 0.0) (c.ds.getD 3 0.0)
      (c.ds.getD 4 0.0) (rqW (NF.realX e) c p) (rqH (NF.realX e) c p) (rqD c p) false x with
  | error err => rw [hr] at h; simp [Except.map] at h
  | ok v =>
    obtain ⟨y', l'⟩ := v
    rw [hr] at h
    simp only [Except.map, Except.ok.injEq, Prod.mk.injEq] at h
    obtain ⟨rfl, rfl, rfl⟩ := h
    rw [rqSplineTails_real_invertible e _ _ _ _ _ _ _ _ hv hr]
    rfl

/-- the other order: executed inverse, then executed forward -/
theorem rqTails_real_invertible_rev (e : Float → ℝ) (c : ElCfg) (hk : c.kind = "rq") (ht : c.tails = true) (p : List ℝ)
    (hv : RQTailsSliceValid e c p) {x y l : ℝ} {al : List ℝ}
    (h : elTransform (NF.realX e) c true p y = .ok (x, l, al)) :
    elTransform (NF.realX e) c false p x = .ok (y, -l, []) := by
  rw [TailsWhole.elTransform_rq_tails _ c hk ht] at h ⊢
  cases hr : rqSplineTails (NF.realX e) (c.ds.getD 0 0.0) (c.ds.getD 1 0.0) (c.ds.getD 2 0.0) (c.ds.getD 3 0.0)
      (c.ds.getD 4 0.0) (rqW (NF.realX e) c p) (rqH (NF.realX e) c p) (rqD c p) true y with
  | error err => rw [hr] at h; simp [Except.map] at h
  | ok v =>
    obtain ⟨x', l'⟩ := v
    rw [hr] at h
    simp only [Except.map, Except.ok.injEq, Prod.mk.injEq] at h
    obtain ⟨rfl, rfl, rfl⟩ := h
    rw [rqSplineTails_real_invertible_rev e _ _ _ _ _ _ _ _ hv hr]
    rfl

/-! ## 2. Validity depends on the configuration and the LENGTH of the parameter vector only -/

/-- `RQTailsValid` constrains the constants and the LENGTHS of the three parameter lists, not their values -/
theorem rqTailsValid_of_lengths {e : Float → ℝ} {tb mW mH mD be : Float} {uw uh ud uw' uh' ud' : List ℝ}
    (hv : TailsWhole.RQTailsValid e tb mW mH mD be uw uh ud) (hw : uw'.length = uw.length)
    (hh : uh'.length = uw.length) (hd : ud'.length + 1 = uw.length) :
    TailsWhole.RQTailsValid e tb mW mH mD be uw' uh' ud' where
  hK := by
    have := List.length_pos_of_ne_nil hv.hK
    exact List.ne_nil_of_length_pos (by omega)
  hlenh := by rw [hh, hw]
  hlend := by rw [hd, hw]
  hgW := by rw [hw]; exact hv.hgW
  hgH := by rw [hw]; exact hv.hgH
  hmW0 := hv.hmW0
  hcW := by rw [hw]; exact hv.hcW
  hmWK := by rw [hw]; exact hv.hmWK
  hmH0 := hv.hmH0
  hcH := by rw [hh, ← hv.hlenh]; exact hv.hcH
  hmHK := by rw [hh, ← hv.hlenh]; exact hv.hmHK
  hB := hv.hB
  hneg := hv.hneg
  hdiff := hv.hdiff
  heps := hv.heps
  hminD := hv.hminD
  hbeta := hv.hbeta

/-- **an accepted RQ-with-tails element configuration**: `K ≥ 1` bins and the constants of the spline (tail bound,
    minimal width / height / derivative, beta) are accepted for one — hence (`rqTailsValid_of_lengths`) every —
    parameter vector with `K` widths, `K` heights, `K - 1` interior derivatives.  Nothing is assumed about any
    parameter VALUE: whatever a conditioner returns is accepted. -/
structure RQTailsCfgValid (e : Float → ℝ) (c : ElCfg) : Prop where
  hk : c.kind = "rq"
  ht : c.tails = true
  hK : 0 < c.K
  hv : TailsWhole.RQTailsValid e (tTb c) (tMW c) (tMH c) (tMD c) (tBe c)
        (List.replicate c.K 0) (List.replicate c.K 0) (List.replicate (c.K - 1) 0)

theorem mult_rq_tails {c : ElCfg} (hk : c.kind = "rq") (ht : c.tails = true) : c.mult = 3 * c.K - 1 := by
  simp [ElCfg.mult, hk, ht]

/-- every parameter vector of the right length `3K - 1` is sliced into an accepted configuration -/
theorem rqTailsSliceValid_of_cfg {e : Float → ℝ} {c : ElCfg} (hc : RQTailsCfgValid e c) (p : List ℝ)
    (hlen : p.length = 3 * c.K - 1) : RQTailsSliceValid e c p := by
  have hK := hc.hK
  apply rqTailsValid_of_lengths hc.hv
  · rw [rqW, NF.ARWhole.rqScale_length, List.length_take, List.length_replicate, hlen]; omega
  · rw [rqH, NF.ARWhole.rqScale_length, List.length_take, List.length_drop, List.length_replicate, hlen]; omega
  · rw [rqD, List.length_drop, List.length_replicate, hlen]; omega

theorem condSlice_length (o : XOps α) (m Ft S : Nat) (params : Array α) (b t s : Nat) :
    (condSlice o m Ft S params b t s).length = m := by simp [condSlice]

/-! ## 3. The executed coupling layer -/

/-- the per-element hypothesis of the executed C02 theorem, discharged for the RQ coupling family with linear tails:
    EVERY parameter array, no domain condition -/
theorem elInvertible_rq_tails_real (e : Float → ℝ) (c : ElCfg) (hc : RQTailsCfgValid e c) (Ft S : Nat)
    (params : Array ℝ) (B : Nat) : ElInvertible (NF.realX e) c Ft S params B := by
  have hk1 : c.kind ≠ "affine" := by rw [hc.hk]; decide
  have hk2 : c.kind ≠ "additive" := by rw [hc.hk]; decide
  intro b t s xi y l al _ _ _ hf
  rw [couplingEl_spline (NF.realX e) c S params false hk1 hk2] at hf
  rw [couplingEl_spline (NF.realX e) c S params true hk1 hk2]
  have hv := rqTailsSliceValid_of_cfg hc (condSlice (NF.realX e) c.mult Ft S params b t s)
    (by rw [condSlice_length, mult_rq_tails hc.hk hc.ht])
  exact ⟨[], rqTails_real_invertible e c hc.hk hc.ht _ hv hf⟩

/-- the RQ coupling layer with linear tails never raises, in either direction, whatever the input and the parameters -/
theorem coupling_rq_tails_err_none (e : Float → ℝ) (c : ElCfg) (hc : RQTailsCfgValid e c) (mask : List ℝ) (B S : Nat)
    (x params uparams : Array ℝ) (inverse : Bool) :
    (couplingApply (NF.realX e) c mask B S x params inverse none uparams).err = none := by
  have hk1 : c.kind ≠ "affine" := by rw [hc.hk]; decide
  have hk2 : c.kind ≠ "additive" := by rw [hc.hk]; decide
  rw [coupling_err_none_iff, ucAll_none, List.nil_append, condAll_eq]
  intro u hu
  obtain ⟨b, t, s, _, _, _, rfl⟩ := (mem_tAll ..).1 hu
  have hv := rqTailsSliceValid_of_cfg hc
    (condSlice (NF.realX e) c.mult (transformIdx (NF.realX e) mask).length S params b t s)
    (by rw [condSlice_length, mult_rq_tails hc.hk hc.ht])
  simp only [condElF]
  rw [couplingEl_spline (NF.realX e) c S params inverse hk1 hk2]
  cases inverse
  · exact ⟨_, (rqTails_el_total e c hc.hk hc.ht _ hv _).1⟩
  · exact ⟨_, (rqTails_el_total e c hc.hk hc.ht _ hv _).2⟩

/-- **C02 (executed rational-quadratic coupling layer with linear tails over the reals), unconditional.**
    `PiecewiseRationalQuadraticCouplingTransform(tails='linear')`: any mask, `B`, `S`, ANY parameter array (whatever the
    conditioner returned) and ANY real input array filling the shape — no domain hypothesis, the tails accept every
    real: the forward pass raises nothing, the inverse pass on the forward output with the same parameters raises
    nothing, returns the input array exactly, is given the same conditioner input, and returns the negated row
    log-dets. -/
theorem coupling_rq_tails_roundtrip_real (e : Float → ℝ) (c : ElCfg) (hc : RQTailsCfgValid e c)
    (mask : List ℝ) (B S : Nat) (x params uparams uparams' : Array ℝ) (hsz : B * mask.length * S ≤ x.size) :
    let fwd := couplingApply (NF.realX e) c mask B S x params false none uparams
    let inv := couplingApply (NF.realX e) c mask B S fwd.out params true none uparams'
    fwd.err = none ∧ inv.out = x ∧ inv.err = none ∧ inv.condIn = fwd.condIn
      ∧ ∀ b, b < B → inv.ld[b]? = (fwd.ld[b]?).map (fun l => -l) :=
  ⟨coupling_rq_tails_err_none e c hc mask B S x params uparams false,
   coupling_inverse_forward_real e c mask B S x params uparams uparams'
    (elInvertible_rq_tails_real e c hc _ S params B)
    (coupling_rq_tails_err_none e c hc mask B S x params uparams false) hsz⟩


/-- **C01 for one executed RQ-with-tails element as the dispatcher runs it, at EVERY real input, both directions**: for
    any parameter vector of the right length, `s ↦ output of elTransform` is differentiable at every real `x` with
    derivative `exp` of the log-det returned at `x` (`PadExact`: padding constant read exactly, `min_derivative < 1`,
    `beta = 1`) -/
theorem elTransform_rq_tails_hasDerivAt (e : Float → ℝ) (c : ElCfg) (hc : RQTailsCfgValid e c)
    (hp : TailsWhole.PadExact e (tMD c) (tBe c)) (p : List ℝ) (hlen : p.length = 3 * c.K - 1) (inverse : Bool) (x : ℝ) :
    HasDerivAt (fun s => outOf (NF.realX e) (elTransform (NF.realX e) c inverse p s))
      (Real.exp (ldOf (NF.realX e) (elTransform (NF.realX e) c inverse p x))) x := by
  have hv := rqTailsSliceValid_of_cfg hc p hlen
  cases inverse
  · have hf : (fun s => outOf (NF.realX e) (elTransform (NF.realX e) c false p s))
        = TailsWhole.valT e (tTb c) (tMW c) (tMH c) (tMD c) (tBe c) (rqW (NF.realX e) c p) (rqH (NF.realX e) c p) (rqD c p) := by
      funext s; rw [(rqTails_el_total e c hc.hk hc.ht p hv s).1]; rfl
    rw [hf, (rqTails_el_total e c hc.hk hc.ht p hv x).1]
    exact TailsWhole.valT_hasDerivAt_all hv hp x
  · have hf : (fun s => outOf (NF.realX e) (elTransform (NF.realX e) c true p s))
        = TailsWhole.invT e (tTb c) (tMW c) (tMH c) (tMD c) (tBe c) (rqW (NF.realX e) c p) (rqH (NF.realX e) c p) (rqD c p) := by
      funext s; rw [(rqTails_el_total e c hc.hk hc.ht p hv s).2]; rfl
    rw [hf, (rqTails_el_total e c hc.hk hc.ht p hv x).2]
    exact TailsWhole.invT_hasDerivAt_all hv hp x

/-- the same for element `(b, t, s)` of the executed coupling layer, at the parameters the conditioner returned -/
theorem couplingEl_rq_tails_hasDerivAt (e : Float → ℝ) (c : ElCfg) (hc : RQTailsCfgValid e c)
    (hp : TailsWhole.PadExact e (tMD c) (tBe c)) (Ft S : Nat) (params : Array ℝ) (inverse : Bool) (b t s : Nat) (x : ℝ) :
    HasDerivAt (fun z => outOf (NF.realX e) (couplingEl (NF.realX e) c Ft S params inverse b t s z))
      (Real.exp (ldOf (NF.realX e) (couplingEl (NF.realX e) c Ft S params inverse b t s x))) x := by
  have hk1 : c.kind ≠ "affine" := by rw [hc.hk]; decide
  have hk2 : c.kind ≠ "additive" := by rw [hc.hk]; decide
  simp only [couplingEl_spline (NF.realX e) c S params inverse hk1 hk2]
  exact elTransform_rq_tails_hasDerivAt e c hc hp _ (by rw [condSlice_length, mult_rq_tails hc.hk hc.ht]) inverse x

/-! ## 3b. The other order for the executed coupling layer: forward ∘ inverse

`StructureExec` proves `inverse ∘ forward = id` for the executed `couplingApply`; the text of the two passes is the same
program run with the direction flag flipped, so the same proof with the flags exchanged gives `forward ∘ inverse = id`
from per-element invertibility in the other order (`ElInvertibleRev`, the analogue of `ARWhole.ArElInvertibleRev`). -/

/-- **per-element invertibility, the other order**: whenever the inverse element map succeeds with `(x, l)`, the forward
    element map with the SAME parameters sends `x` back with log-det `-l` -/
def ElInvertibleRev (o : XOps α) (c : ElCfg) (Ft S : Nat) (params : Array α) (B : Nat) : Prop :=
  ∀ b t s xi y l al, b < B → t < Ft → s < S →
    couplingEl o c Ft S params true b t s xi = .ok (y, l, al) →
    ∃ al', couplingEl o c Ft S params false b t s y = .ok (xi, o.neg l, al')

section c02rev
variable (o : XOps α) (c : ElCfg) (mask : List α) (B S : Nat) (x params : Array α) (uparams uparams' : Array α)

theorem inv_el_ok (herr : (couplingApply o c mask B S x params true none uparams).err = none)
    {b t s : Nat} (hb : b < B) (ht : t < (transformIdx o mask).length) (hs : s < S) :
    ∃ v, couplingEl o c (transformIdx o mask).length S params true b t s
      (x.getD (flatIdx mask.length S b ((transformIdx o mask).getD t 0) s) o.zero) = .ok v := by
  have hall := (coupling_err_none_iff o c mask B S x params true none uparams).1 herr
  exact hall (_, _) (List.mem_append_right _ (by
    rw [condAll_eq]; exact (mem_tAll ..).2 ⟨b, t, s, hb, ht, hs, rfl⟩))

/-- **C02 (executed coupling layer), the other order, outputs.**  If the INVERSE pass reported no error and the element
    maps are invertible in the other order, the forward pass applied to the inverse pass's OUTPUT with the SAME
    parameter array returns the original array exactly (every `B`, `S`, mask; arrays of any size). -/
theorem coupling_forward_inverse (hinv : ElInvertibleRev o c (transformIdx o mask).length S params B)
    (herr : (couplingApply o c mask B S x params true none uparams).err = none) :
    (couplingApply o c mask B S (couplingApply o c mask B S x params true none uparams).out params false none uparams').out
      = x := by
  apply Array.ext_getElem?
  intro j
  by_cases hpos : ∃ b t s, b < B ∧ t < (transformIdx o mask).length ∧ s < S ∧
      j = flatIdx mask.length S b ((transformIdx o mask).getD t 0) s
  · obtain ⟨b, t, s, hb, ht, hs, rfl⟩ := hpos
    obtain ⟨⟨y, l, al⟩, hy⟩ := inv_el_ok o c mask B S x params uparams herr hb ht hs
    have hfwd := coupling_out_transformed o c mask B S x params true none uparams hb ht hs
    rw [hy, couplingUncond_none] at hfwd
    rw [coupling_out_transformed o c mask B S _ params false none uparams' hb ht hs, couplingUncond_none]
    by_cases hj : flatIdx mask.length S b ((transformIdx o mask).getD t 0) s < x.size
    · have hx : x.getD (flatIdx mask.length S b ((transformIdx o mask).getD t 0) s) o.zero
          = x[flatIdx mask.length S b ((transformIdx o mask).getD t 0) s] := getD_of_lt hj _
      have hy' : (couplingApply o c mask B S x params true none uparams).out[flatIdx mask.length S b ((transformIdx o mask).getD t 0) s]?
          = some y := by rw [hfwd, Array.getElem?_eq_getElem hj]; rfl
      have hget : (couplingApply o c mask B S x params true none uparams).out.getD
          (flatIdx mask.length S b ((transformIdx o mask).getD t 0) s) o.zero = y := by
        rw [Array.getD_eq_getD_getElem?, hy']; rfl
      obtain ⟨al', h'⟩ := hinv b t s _ y l al hb ht hs hy
      rw [hget, h', hy', hx, Array.getElem?_eq_getElem hj]
      rfl
    · have h1 : x[flatIdx mask.length S b ((transformIdx o mask).getD t 0) s]? = none := getElem?_none_of_not_lt hj
      rw [h1, selOut_none] at hfwd
      rw [hfwd, selOut_none, h1]
  · have hj : ∀ b t s, b < B → t < (transformIdx o mask).length → s < S →
        j ≠ flatIdx mask.length S b ((transformIdx o mask).getD t 0) s := by
      intro b t s hb ht hs he
      exact hpos ⟨b, t, s, hb, ht, hs, he⟩
    rw [coupling_out_untouched o c mask B S _ params false none uparams' j hj, couplingUncond_none,
      coupling_out_untouched o c mask B S x params true none uparams j hj, couplingUncond_none]

/-- the forward element applied to what the inverse pass stored -/
theorem fwd_el_of_inv (hinv : ElInvertibleRev o c (transformIdx o mask).length S params B)
    (herr : (couplingApply o c mask B S x params true none uparams).err = none)
    (hsz : B * mask.length * S ≤ x.size)
    {b t s : Nat} (hb : b < B) (ht : t < (transformIdx o mask).length) (hs : s < S) :
    ∃ y l al al',
      couplingEl o c (transformIdx o mask).length S params true b t s
        (x.getD (flatIdx mask.length S b ((transformIdx o mask).getD t 0) s) o.zero) = .ok (y, l, al) ∧
      couplingEl o c (transformIdx o mask).length S params false b t s
        ((couplingApply o c mask B S x params true none uparams).out.getD
          (flatIdx mask.length S b ((transformIdx o mask).getD t 0) s) o.zero)
        = .ok (x.getD (flatIdx mask.length S b ((transformIdx o mask).getD t 0) s) o.zero, o.neg l, al') := by
  obtain ⟨⟨y, l, al⟩, hy⟩ := inv_el_ok o c mask B S x params uparams herr hb ht hs
  have hj : flatIdx mask.length S b ((transformIdx o mask).getD t 0) s < x.size :=
    lt_of_lt_of_le (flatIdx_lt hb ((transformIdx_ok o mask).getD_lt ht) hs) hsz
  have hy' := coupling_out_transformed_ok o c mask B S x params true none uparams hb ht hs hj hy
  have hget : (couplingApply o c mask B S x params true none uparams).out.getD
      (flatIdx mask.length S b ((transformIdx o mask).getD t 0) s) o.zero = y := by
    rw [Array.getD_eq_getD_getElem?, hy']; rfl
  obtain ⟨al', h'⟩ := hinv b t s _ y l al hb ht hs hy
  exact ⟨y, l, al, al', hy, by rw [hget, h']⟩

/-- **C02, the other order, log-dets.**  For an input that fills the `[B, C, S]` shape: the forward pass reports no
    error either, and its row log-det is the left fold of the NEGATED per-element log-dets of the inverse row, in the
    same order. -/
theorem coupling_forward_inverse_ld (hinv : ElInvertibleRev o c (transformIdx o mask).length S params B)
    (herr : (couplingApply o c mask B S x params true none uparams).err = none)
    (hsz : B * mask.length * S ≤ x.size) :
    (couplingApply o c mask B S (couplingApply o c mask B S x params true none uparams).out params false none uparams').err = none
    ∧ ∀ b, b < B →
      (couplingApply o c mask B S x params true none uparams).ld[b]?
        = some (((rowResults o c mask S x params true none uparams b).map (ldOf o)).foldl o.add o.zero)
      ∧ (couplingApply o c mask B S (couplingApply o c mask B S x params true none uparams).out params false none uparams').ld[b]?
        = some ((((rowResults o c mask S x params true none uparams b).map (ldOf o)).map o.neg).foldl o.add o.zero) := by
  have hrow : ∀ b, b < B →
      (∀ r ∈ rowResults o c mask S (couplingApply o c mask B S x params true none uparams).out params false none uparams' b,
        ∃ v, r = .ok v)
      ∧ (rowResults o c mask S (couplingApply o c mask B S x params true none uparams).out params false none uparams' b).map (ldOf o)
        = ((rowResults o c mask S x params true none uparams b).map (ldOf o)).map o.neg := by
    intro b hb
    rw [rowResults_none, rowResults_none]
    constructor
    · intro r hr
      obtain ⟨⟨t, s⟩, hts, rfl⟩ := List.mem_map.1 hr
      obtain ⟨ht, hs⟩ := mem_rowIter.1 hts
      obtain ⟨y, l, al, al', _, h2⟩ := fwd_el_of_inv o c mask B S x params uparams hinv herr hsz hb ht hs
      exact ⟨_, h2⟩
    · rw [List.map_map, List.map_map, List.map_map]
      apply List.map_congr_left
      rintro ⟨t, s⟩ hts
      obtain ⟨ht, hs⟩ := mem_rowIter.1 hts
      obtain ⟨y, l, al, al', h1, h2⟩ := fwd_el_of_inv o c mask B S x params uparams hinv herr hsz hb ht hs
      simp only [Function.comp, h1, h2, ldOf]
  constructor
  · rw [coupling_err_none_iff, ucAll_none, List.nil_append, condAll_eq]
    intro u hu
    obtain ⟨b, t, s, hb, ht, hs, rfl⟩ := (mem_tAll ..).1 hu
    obtain ⟨y, l, al, al', _, h2⟩ := fwd_el_of_inv o c mask B S x params uparams hinv herr hsz hb ht hs
    exact ⟨_, h2⟩
  · intro b hb
    refine ⟨coupling_ld_leftfold o c mask B S x params true none uparams hb
      (rowResults_ok_of_err_none o c mask B S x params true none uparams herr hb), ?_⟩
    rw [coupling_ld_leftfold o c mask B S _ params false none uparams' hb (hrow b hb).1, (hrow b hb).2]

/-- the conditioner input of the forward pass (run on the inverse pass's output) is the conditioner input of the
    inverse pass, so a deterministic conditioner returns the same parameter array -/
theorem coupling_condIn_roundtrip_rev (hd : MaskDisjoint o mask) :
    (couplingApply o c mask B S (couplingApply o c mask B S x params true none uparams).out params false none uparams').condIn
      = (couplingApply o c mask B S x params true none uparams).condIn := by
  rw [coupling_condIn_forward, coupling_condIn_eq_gather_out o c mask B S x params true uparams hd]

end c02rev

/-- **C02 (executed coupling layer) over the reals, the other order**: forward ∘ inverse returns the input array and the
    negated row log-dets -/
theorem coupling_forward_inverse_real (e : Float → ℝ) (c : ElCfg) (mask : List ℝ) (B S : Nat) (x params uparams uparams' : Array ℝ)
    (hinv : ElInvertibleRev (NF.realX e) c (transformIdx (NF.realX e) mask).length S params B)
    (herr : (couplingApply (NF.realX e) c mask B S x params true none uparams).err = none)
    (hsz : B * mask.length * S ≤ x.size) :
    let inv := couplingApply (NF.realX e) c mask B S x params true none uparams
    let fwd := couplingApply (NF.realX e) c mask B S inv.out params false none uparams'
    fwd.out = x ∧ fwd.err = none ∧ fwd.condIn = inv.condIn ∧ ∀ b, b < B → fwd.ld[b]? = (inv.ld[b]?).map (fun l => -l) := by
  intro inv fwd
  obtain ⟨h1, h2⟩ := coupling_forward_inverse_ld (NF.realX e) c mask B S x params uparams uparams' hinv herr hsz
  refine ⟨coupling_forward_inverse (NF.realX e) c mask B S x params uparams uparams' hinv herr, h1,
    coupling_condIn_roundtrip_rev (NF.realX e) c mask B S x params uparams uparams' (maskDisjoint_real e mask), ?_⟩
  intro b hb
  obtain ⟨h3, h4⟩ := h2 b hb
  show (couplingApply (NF.realX e) c mask B S (couplingApply (NF.realX e) c mask B S x params true none uparams).out
      params false none uparams').ld[b]? = ((couplingApply (NF.realX e) c mask B S x params true none uparams).ld[b]?).map _
  rw [h3, h4, foldl_add_real, foldl_add_real, sum_map_neg_real]
  simp

/-- the per-element hypothesis of the other order, discharged for the RQ coupling family with linear tails -/
theorem elInvertibleRev_rq_tails_real (e : Float → ℝ) (c : ElCfg) (hc : RQTailsCfgValid e c) (Ft S : Nat)
    (params : Array ℝ) (B : Nat) : ElInvertibleRev (NF.realX e) c Ft S params B := by
  have hk1 : c.kind ≠ "affine" := by rw [hc.hk]; decide
  have hk2 : c.kind ≠ "additive" := by rw [hc.hk]; decide
  intro b t s xi y l al _ _ _ hf
  rw [couplingEl_spline (NF.realX e) c S params true hk1 hk2] at hf
  rw [couplingEl_spline (NF.realX e) c S params false hk1 hk2]
  have hv := rqTailsSliceValid_of_cfg hc (condSlice (NF.realX e) c.mult Ft S params b t s)
    (by rw [condSlice_length, mult_rq_tails hc.hk hc.ht])
  exact ⟨[], rqTails_real_invertible_rev e c hc.hk hc.ht _ hv hf⟩

/-- **C02, the other order (executed RQ coupling layer with linear tails over the reals), unconditional**: the inverse
    pass raises nothing on ANY real array; the forward pass on its output with the same parameters raises nothing,
    returns the array exactly, is given the same conditioner input, and returns the negated row log-dets.  With
    `coupling_rq_tails_roundtrip_real`: for fixed parameters the layer is a bijection of `ℝ^(B·C·S)` whose inverse is
    the executed inverse pass. -/
theorem coupling_rq_tails_roundtrip_rev_real (e : Float → ℝ) (c : ElCfg) (hc : RQTailsCfgValid e c)
    (mask : List ℝ) (B S : Nat) (y params uparams uparams' : Array ℝ) (hsz : B * mask.length * S ≤ y.size) :
    let inv := couplingApply (NF.realX e) c mask B S y params true none uparams
    let fwd := couplingApply (NF.realX e) c mask B S inv.out params false none uparams'
    inv.err = none ∧ fwd.out = y ∧ fwd.err = none ∧ fwd.condIn = inv.condIn
      ∧ ∀ b, b < B → fwd.ld[b]? = (inv.ld[b]?).map (fun l => -l) :=
  ⟨coupling_rq_tails_err_none e c hc mask B S y params uparams true,
   coupling_forward_inverse_real e c mask B S y params uparams uparams'
    (elInvertibleRev_rq_tails_real e c hc _ S params B)
    (coupling_rq_tails_err_none e c hc mask B S y params uparams true) hsz⟩

end NF.StructureExec

namespace NF.ARWhole
open NF.StructureExec
variable {α : Type}

/-! ## 4. The executed autoregressive transform -/

theorem pw_rq_tails {c : ElCfg} (hk : c.kind = "rq") (ht : c.tails = true) : pw c = 3 * c.K - 1 := by
  simp [pw, ElCfg.mult, hk, ht]

/-- whatever `[B, F, 3K-1]` tensor the conditioner returns, every parameter vector is an accepted configuration -/
theorem arSliceValid_rq_tails (e : Float → ℝ) (c : ElCfg) (hc : RQTailsCfgValid e c) (F : Nat) (params : Array ℝ)
    (b i : Nat) : RQTailsSliceValid e c (arSlice (NF.realX e) c F params b i) :=
  rqTailsSliceValid_of_cfg hc _ (by rw [arSlice_length, pw_rq_tails hc.hk hc.ht])

/-- the per-element hypotheses of the executed autoregressive C02 theorems (both orders), discharged for the RQ family
    with linear tails: EVERY parameter tensor, no domain condition -/
theorem arElInvertible_rq_tails_real (e : Float → ℝ) (c : ElCfg) (hc : RQTailsCfgValid e c) (F : Nat)
    (params : Array ℝ) (B : Nat) :
    ArElInvertible (NF.realX e) c F params B ∧ ArElInvertibleRev (NF.realX e) c F params B := by
  constructor
  · intro b i xi y l al _ _ hf
    exact ⟨[], rqTails_real_invertible e c hc.hk hc.ht _ (arSliceValid_rq_tails e c hc F params b i) hf⟩
  · intro b i yi x l al _ _ hf
    exact ⟨[], rqTails_real_invertible_rev e c hc.hk hc.ht _ (arSliceValid_rq_tails e c hc F params b i) hf⟩

/-- no pass of the RQ-with-tails autoregressive transform raises: any conditioner, any real input -/
theorem ar_rq_tails_err_none (e : Float → ℝ) (c : ElCfg) (hc : RQTailsCfgValid e c) (B F : Nat)
    (net : Array ℝ → Array ℝ) (x : Array ℝ) :
    (arForward (NF.realX e) c B F net x).err = none
      ∧ (x.size = B * F → (arInverse (NF.realX e) c B F net x).err = none) := by
  constructor
  · rw [arForward, arApply, elemwise_err_none]
    intro b i _ _
    rw [arEl_eq]
    exact ⟨_, (rqTails_el_total e c hc.hk hc.ht _ (arSliceValid_rq_tails e c hc F (net x) b i) _).1⟩
  · intro hx
    exact ar_inverse_err_none _ c B F net x hx
      (fun z _ b i _ _ => ⟨_, (rqTails_el_total e c hc.hk hc.ht _ (arSliceValid_rq_tails e c hc F (net z) b i) _).2⟩)

/-- **C02 for the executed autoregressive RQ transform with linear tails over the reals**: any autoregressive
    conditioner, any `B`, `F`, ANY real input array of the right size, both orders — no element hypothesis, no domain
    hypothesis, no validity hypothesis on the conditioner's outputs. -/
theorem ar_rq_tails_roundtrip_real (e : Float → ℝ) (c : ElCfg) (hc : RQTailsCfgValid e c) (B F : Nat)
    (net : Array ℝ → Array ℝ) (hnet : AutoregNet B F (3 * c.K - 1) net) (x : Array ℝ) (hx : x.size = B * F) :
    (let fwd := arForward (NF.realX e) c B F net x
     let inv := arInverse (NF.realX e) c B F net fwd.out
     fwd.err = none ∧ inv.err = none ∧ inv.out = x
      ∧ (∀ k, AgreeBelow B F k (arIter (NF.realX e) c B F net fwd.out k).out x)
      ∧ (0 < F → ∀ b, b < B → inv.ld[b]? = (fwd.ld[b]?).map (fun l => -l)))
    ∧ (let inv := arInverse (NF.realX e) c B F net x
       let fwd := arForward (NF.realX e) c B F net inv.out
       inv.err = none ∧ fwd.err = none ∧ fwd.out = x
        ∧ (0 < F → ∀ b, b < B → fwd.ld[b]? = (inv.ld[b]?).map (fun l => -l))) := by
  have hnet' : AutoregNet B F (pw c) net := by rw [pw_rq_tails hc.hk hc.ht]; exact hnet
  constructor
  · intro fwd inv
    have h1 := (ar_rq_tails_err_none e c hc B F net x).1
    obtain ⟨h3, h4, _, h5⟩ := ar_inverse_forward_real e c B F net x hnet'
      (arElInvertible_rq_tails_real e c hc F (net x) B).1 h1 hx
    exact ⟨h1, (ar_rq_tails_err_none e c hc B F net _).2 (arApply_out_size ..), h3, h4, h5⟩
  · intro inv fwd
    have h1 := (ar_rq_tails_err_none e c hc B F net x).2 hx
    obtain ⟨h2, h3, h4⟩ := ar_forward_inverse_real e c B F net x hnet' hx h1
      (arElInvertible_rq_tails_real e c hc F _ B).2
    exact ⟨h1, h3, h2, h4⟩

section made
open NF.Made

/-- **The masked autoregressive rational-quadratic flow layer with linear tails is exactly invertible on all of `ℝ^F`,
    with negated log-dets** (`MaskedPiecewiseRationalQuadraticAutoregressiveTransform(tails='linear')`).  Every
    architecture accepted by `Made.build` with multiplier `3K - 1`, every weight / bias / context / activation /
    batch-norm / dropout assignment, every batch size `B`, EVERY real `[B, F]` input: the forward pass raises nothing;
    no pass of the `F`-pass inverse loop raises; the loop started from zeros returns the input exactly (after pass `k`
    the first `k` features are correct) and the negated row log-dets; and in the other order the forward pass undoes
    the loop on every real `[B, F]` array.  The only hypothesis is on the five constants of the configuration. -/
theorem made_rq_tails_roundtrip_real (e : Float → ℝ) (c : ElCfg) (hc : RQTailsCfgValid e c) (a : Arch) (n : Net)
    (hbuild : build a = .ok n) (hmult : a.mult = 3 * c.K - 1) (W : ℕ → ℕ → ℕ → ℝ) (bias : ℕ → ℕ → ℝ) (B : Nat)
    (ctxv : ℕ → ℕ → Fin B → ℝ) (g : ℕ → Slot → ℕ → (Fin B → ℝ) → Fin B → ℝ) :
    let net := madeNet n W bias B ctxv g
    (∀ x : Array ℝ, x.size = B * a.F →
      let fwd := arForward (NF.realX e) c B a.F net x
      let inv := arInverse (NF.realX e) c B a.F net fwd.out
      fwd.err = none ∧ inv.err = none ∧ inv.out = x
        ∧ (∀ k, AgreeBelow B a.F k (arIter (NF.realX e) c B a.F net fwd.out k).out x)
        ∧ (∀ b, b < B → inv.ld[b]? = (fwd.ld[b]?).map (fun l => -l)))
    ∧ (∀ y : Array ℝ, y.size = B * a.F →
      let inv := arInverse (NF.realX e) c B a.F net y
      let fwd := arForward (NF.realX e) c B a.F net inv.out
      inv.err = none ∧ fwd.err = none ∧ fwd.out = y
        ∧ (∀ b, b < B → fwd.ld[b]? = (inv.ld[b]?).map (fun l => -l))) := by
  obtain ⟨hv, hF, hm, hFa, hma⟩ := build_valid hbuild
  have hnet : AutoregNet B a.F (3 * c.K - 1) (madeNet n W bias B ctxv g) := by
    rw [← hmult, ← hma, ← hFa]; exact madeNet_autoreg n hv hm W bias B ctxv g
  intro net
  constructor
  · intro x hx
    obtain ⟨h1, h2, h3, h4, h5⟩ := (ar_rq_tails_roundtrip_real e c hc B a.F _ hnet x hx).1
    exact ⟨h1, h2, h3, h4, h5 (by omega)⟩
  · intro y hy
    obtain ⟨h1, h2, h3, h4⟩ := (ar_rq_tails_roundtrip_real e c hc B a.F _ hnet y hy).2
    exact ⟨h1, h2, h3, h4 (by omega)⟩

/-- the same with the MADE model run ROW BY ROW on plain reals (`ARWholeMadeRow.madeRowNet`, the program a numeric driver
    runs in evaluation mode) as the conditioner -/
theorem madeRow_rq_tails_roundtrip_real (e : Float → ℝ) (c : ElCfg) (hc : RQTailsCfgValid e c) (a : Arch) (n : Net)
    (hbuild : build a = .ok n) (hmult : a.mult = 3 * c.K - 1) (W : ℕ → ℕ → ℕ → ℝ) (bias : ℕ → ℕ → ℝ) (B : Nat)
    (ctxr : ℕ → ℕ → ℕ → ℝ) (act : ℕ → Slot → ℕ → ℝ → ℝ) :
    let net := madeRowNet n W bias B ctxr act
    (∀ x : Array ℝ, x.size = B * a.F →
      let fwd := arForward (NF.realX e) c B a.F net x
      let inv := arInverse (NF.realX e) c B a.F net fwd.out
      fwd.err = none ∧ inv.err = none ∧ inv.out = x
        ∧ (∀ k, AgreeBelow B a.F k (arIter (NF.realX e) c B a.F net fwd.out k).out x)
        ∧ (∀ b, b < B → inv.ld[b]? = (fwd.ld[b]?).map (fun l => -l)))
    ∧ (∀ y : Array ℝ, y.size = B * a.F →
      let inv := arInverse (NF.realX e) c B a.F net y
      let fwd := arForward (NF.realX e) c B a.F net inv.out
      inv.err = none ∧ fwd.err = none ∧ fwd.out = y
        ∧ (∀ b, b < B → fwd.ld[b]? = (inv.ld[b]?).map (fun l => -l))) := by
  rw [madeRowNet_eq]
  exact made_rq_tails_roundtrip_real e c hc a n hbuild hmult W bias B _ _

end made

/-! ## 5. C01: the derivative law at EVERY real input -/

theorem elMap_rq_tails (e : Float → ℝ) (c : ElCfg) (hk : c.kind = "rq") (ht : c.tails = true) (F : Nat)
    (params : Array ℝ) (b i : Nat) :
    elMap e c F params b i = TailsWhole.valT e (tTb c) (tMW c) (tMH c) (tMD c) (tBe c)
      (rqW (NF.realX e) c (arSlice (NF.realX e) c F params b i))
      (rqH (NF.realX e) c (arSlice (NF.realX e) c F params b i))
      (rqD c (arSlice (NF.realX e) c F params b i)) := by
  funext s
  unfold elMap TailsWhole.valT
  rw [TailsWhole.elTransform_rq_tails _ c hk ht]
  cases rqSplineTails (NF.realX e) (c.ds.getD 0 0.0) (c.ds.getD 1 0.0) (c.ds.getD 2 0.0) (c.ds.getD 3 0.0)
    (c.ds.getD 4 0.0) (rqW (NF.realX e) c (arSlice (NF.realX e) c F params b i))
    (rqH (NF.realX e) c (arSlice (NF.realX e) c F params b i)) (rqD c (arSlice (NF.realX e) c F params b i)) false s with
  | error err => simp [Except.map, outOf]
  | ok v => rfl

theorem ldOf_rq_tails (e : Float → ℝ) (c : ElCfg) (hk : c.kind = "rq") (ht : c.tails = true) (F : Nat)
    (x params : Array ℝ) (b i : Nat) :
    ldOf (NF.realX e) (arEl (NF.realX e) c F x params false b i)
      = TailsWhole.ldT e (tTb c) (tMW c) (tMH c) (tMD c) (tBe c)
          (rqW (NF.realX e) c (arSlice (NF.realX e) c F params b i))
          (rqH (NF.realX e) c (arSlice (NF.realX e) c F params b i))
          (rqD c (arSlice (NF.realX e) c F params b i)) (x.getD (b * F + i) 0) := by
  unfold TailsWhole.ldT
  rw [arEl_eq, TailsWhole.elTransform_rq_tails _ c hk ht, realX_zero]
  cases rqSplineTails (NF.realX e) (c.ds.getD 0 0.0) (c.ds.getD 1 0.0) (c.ds.getD 2 0.0) (c.ds.getD 3 0.0)
    (c.ds.getD 4 0.0) (rqW (NF.realX e) c (arSlice (NF.realX e) c F params b i))
    (rqH (NF.realX e) c (arSlice (NF.realX e) c F params b i)) (rqD c (arSlice (NF.realX e) c F params b i)) false
    (x.getD (b * F + i) 0) with
  | error err => simp [Except.map, ldOf]
  | ok v => rfl

/-- **C01 for one executed RQ-with-tails element at EVERY real input** (tails, junctions `±B`, interior knots, open
    bins): the scalar element map at any parameter vector the conditioner returned is differentiable with derivative
    `exp` of the log-det the program returns.  `PadExact`: the padding constant `log(exp(1 - min_derivative) - 1)` is
    read exactly, `min_derivative < 1`, and the softplus runs with `beta = 1` (`enable_identity_init = False`; with
    `0 < beta < 1` the law FAILS at `±B`, see `TailsWhole.valT_not_differentiableAt_of_beta_lt_one`). -/
theorem elMap_rq_tails_hasDerivAt (e : Float → ℝ) (c : ElCfg) (hc : RQTailsCfgValid e c)
    (hp : TailsWhole.PadExact e (tMD c) (tBe c)) (F : Nat) (x params : Array ℝ) (b i : Nat) :
    HasDerivAt (elMap e c F params b i)
      (Real.exp (ldOf (NF.realX e) (arEl (NF.realX e) c F x params false b i))) (x.getD (b * F + i) 0) := by
  rw [elMap_rq_tails e c hc.hk hc.ht, ldOf_rq_tails e c hc.hk hc.ht]
  exact TailsWhole.valT_hasDerivAt_all (arSliceValid_rq_tails e c hc F params b i) hp _

/-- **C01 for a row of the executed RQ-with-tails autoregressive transform, at EVERY real input row**: `ld[b]` returned
    by the forward pass is `log |det J_b|`, `J_b` the Jacobian of the row map — no "strictly inside a bin" restriction
    (compare `ar_rq_row_logdet`), because the executed tails program is C¹ on the whole line when the padding constant is
    exact. -/
theorem ar_rq_tails_row_logdet (e : Float → ℝ) (c : ElCfg) (hc : RQTailsCfgValid e c)
    (hp : TailsWhole.PadExact e (tMD c) (tBe c)) (B F : Nat)
    (net : Array ℝ → Array ℝ) (x : Array ℝ) (hnet : AutoregNet B F (3 * c.K - 1) net) (hx : x.size = B * F)
    {b : Nat} (hb : b < B) {L : (Fin F → ℝ) →L[ℝ] (Fin F → ℝ)}
    (hL : HasFDerivAt (rowMap e c B F net x b) L (fun i => x.getD (b * F + i.1) 0)) :
    (arForward (NF.realX e) c B F net x).ld[b]?
      = some (Real.log |LinearMap.det (L : (Fin F → ℝ) →ₗ[ℝ] (Fin F → ℝ))|) := by
  apply ar_row_logdet e c B F net x (by rw [pw_rq_tails hc.hk hc.ht]; exact hnet) hx hb hL
  intro i
  exact elMap_rq_tails_hasDerivAt e c hc hp F x (net x) b i

section madeC01
open NF.Made

/-- the same with the MADE model as conditioner: every `build`-accepted architecture, every weight, every real row -/
theorem made_rq_tails_row_logdet (e : Float → ℝ) (c : ElCfg) (hc : RQTailsCfgValid e c)
    (hp : TailsWhole.PadExact e (tMD c) (tBe c)) (a : Arch) (n : Net)
    (hbuild : build a = .ok n) (hmult : a.mult = 3 * c.K - 1) (W : ℕ → ℕ → ℕ → ℝ) (bias : ℕ → ℕ → ℝ) (B : Nat)
    (ctxv : ℕ → ℕ → Fin B → ℝ) (g : ℕ → Slot → ℕ → (Fin B → ℝ) → Fin B → ℝ)
    (x : Array ℝ) (hx : x.size = B * a.F) {b : Nat} (hb : b < B) {L : (Fin a.F → ℝ) →L[ℝ] (Fin a.F → ℝ)}
    (hL : HasFDerivAt (rowMap e c B a.F (madeNet n W bias B ctxv g) x b) L (fun i => x.getD (b * a.F + i.1) 0)) :
    (arForward (NF.realX e) c B a.F (madeNet n W bias B ctxv g) x).ld[b]?
      = some (Real.log |LinearMap.det (L : (Fin a.F → ℝ) →ₗ[ℝ] (Fin a.F → ℝ))|) := by
  obtain ⟨hv, hF, hm, hFa, hma⟩ := build_valid hbuild
  have hnet : AutoregNet B a.F (3 * c.K - 1) (madeNet n W bias B ctxv g) := by
    rw [← hmult, ← hma, ← hFa]; exact madeNet_autoreg n hv hm W bias B ctxv g
  exact ar_rq_tails_row_logdet e c hc hp B a.F _ x hnet hx hb hL

end madeC01

end NF.ARWhole

/-! ## 6. Non-vacuity: concrete accepted configurations, a concrete MADE architecture, the theorems instantiated -/

namespace NF.StructureExec
section witness
open TailsWhole

private theorem w1 : ((0.0:Float) == 0.0) = true := by decide +kernel
private theorem w5 : ((1.0:Float) == 0.0) = false := by decide +kernel
private theorem w6 : ((1.0:Float) == 0.5) = false := by decide +kernel
private theorem w7 : ((1.0:Float) == (-(1.0:Float))) = false := by decide +kernel
private theorem w8 : ((1.0:Float) == 2.0) = false := by decide +kernel
private theorem w9 : ((-(1.0:Float)) == 0.0) = false := by decide +kernel
private theorem w10 : ((-(1.0:Float)) == 0.5) = false := by decide +kernel
private theorem w11 : ((-(1.0:Float)) == (-(1.0:Float))) = true := by decide +kernel
private theorem w13 : (((1.0:Float) - (-(1.0:Float))) == 0.0) = false := by decide +kernel
private theorem w14 : (((1.0:Float) - (-(1.0:Float))) == 0.5) = false := by decide +kernel
private theorem w15 : (((1.0:Float) - (-(1.0:Float))) == (-(1.0:Float))) = false := by decide +kernel
private theorem w16 : (((1.0:Float) - (-(1.0:Float))) == 2.0) = true := by decide +kernel
private theorem w17 : ((1e-6:Float) == 0.0) = false := by decide +kernel
private theorem w18 : ((1e-6:Float) == 0.5) = false := by decide +kernel
private theorem w19 : ((1e-6:Float) == (-(1.0:Float))) = false := by decide +kernel
private theorem w20 : ((1e-6:Float) == 2.0) = false := by decide +kernel
private theorem w33 : (((1:Float) - 0.0 * (2:Nat).toFloat) == 0.0) = false := by decide +kernel
private theorem w34 : (((1:Float) - 0.0 * (2:Nat).toFloat) == 0.5) = false := by decide +kernel
private theorem w35 : (((1:Float) - 0.0 * (2:Nat).toFloat) == (-(1.0:Float))) = false := by decide +kernel
private theorem w36 : (((1:Float) - 0.0 * (2:Nat).toFloat) == 2.0) = false := by decide +kernel
attribute [local simp] w1 w5 w6 w7 w8 w9 w10 w11 w13 w14 w15 w16 w17 w18 w19 w20 w33 w34 w35 w36
private theorem wg2 : ¬ ((0.0:Float) * (2:Nat).toFloat > 1.0) := by decide +kernel

/-- RQ with linear tails: two bins, ONE interior derivative (padded to three by the program), tail bound 1 -/
theorem rq_valid_example2 : RQTailsValid eW 1.0 0.0 0.0 0.0 1.0 [0, 0] [0, 0] [0] where
  hK := by simp
  hlenh := rfl
  hlend := rfl
  hgW := wg2
  hgH := wg2
  hmW0 := by simp [eW]
  hcW := by simp [eW]
  hmWK := by simp [eW]
  hmH0 := by simp [eW]
  hcH := by simp [eW]
  hmHK := by simp [eW]
  hB := by simp [eW]
  hneg := by simp [eW]
  hdiff := by simp [eW]; norm_num
  heps := by simp [eW]
  hminD := by simp [eW]
  hbeta := by simp [eW]

/-- the layer configurations: `K = 2`, tail bound 1, `min_* = 0`, `beta = 1`; the autoregressive one with
    `hidden_features = 4` so that the `1/sqrt(hidden_features)` scaling of widths and heights is switched on -/
def cT2 : ElCfg := { container := "coupling", kind := "rq", tails := true, K := 2, ds := #[1.0, 0.0, 0.0, 0.0, 1.0] }
def cT2ar : ElCfg :=
  { container := "ar", kind := "rq", tails := true, K := 2, ds := #[1.0, 0.0, 0.0, 0.0, 1.0], hiddenFeatures := 4.0 }
/-- one bin, no interior derivative -/
def cT1 : ElCfg := { container := "ar", kind := "rq", tails := true, K := 1, ds := #[1.0, 0.0, 0.0, 0.0, 1.0] }

theorem rqTailsCfgValid_example : RQTailsCfgValid eW cT2 := ⟨rfl, rfl, by decide, rq_valid_example2⟩
theorem rqTailsCfgValid_example_ar : RQTailsCfgValid eW cT2ar := ⟨rfl, rfl, by decide, rq_valid_example2⟩
theorem rqTailsCfgValid_example1 : RQTailsCfgValid eW cT1 := ⟨rfl, rfl, by decide, rq_valid_example⟩

/-- the scaling really is on in `cT2ar` -/
theorem cT2ar_scaling : cT2ar.scaling.2.1 = true ∧ cT2ar.scaling.2.2 = true := by decide +kernel

/-- the coupling theorem at the example: every mask, shape, parameter array and real input -/
theorem coupling_rq_tails_example (mask : List ℝ) (B S : Nat) (x params : Array ℝ) (hsz : B * mask.length * S ≤ x.size) :
    (couplingApply (NF.realX eW) cT2 mask B S
      (couplingApply (NF.realX eW) cT2 mask B S x params false none #[]).out params true none #[]).out = x :=
  (coupling_rq_tails_roundtrip_real eW cT2 rqTailsCfgValid_example mask B S x params #[] #[] hsz).2.1

end witness
end NF.StructureExec

namespace NF.ARWhole
section witness
open NF.StructureExec NF.Made

/-- a concrete architecture `Made.build` accepts: 3 features, 4 hidden units, one feed-forward block, multiplier
    `3·2 − 1 = 5` -/
def aT : Arch := { F := 3, H := 4, nBlocks := 1, mult := 5, residual := false, random := false, nde := false,
                   ctx := 0, bn := false }

theorem aT_builds : ∃ n, build aT = .ok n := ⟨_, rfl⟩

/-- `made_rq_tails_roundtrip_real` instantiated: the hypotheses are jointly satisfiable -/
theorem made_rq_tails_example (n : Net) (hbuild : build aT = .ok n) (W : ℕ → ℕ → ℕ → ℝ) (bias : ℕ → ℕ → ℝ) (B : Nat)
    (ctxv : ℕ → ℕ → Fin B → ℝ) (g : ℕ → Slot → ℕ → (Fin B → ℝ) → Fin B → ℝ) (x : Array ℝ) (hx : x.size = B * 3) :
    (arInverse (NF.realX TailsWhole.eW) cT2ar B 3 (madeNet n W bias B ctxv g)
      (arForward (NF.realX TailsWhole.eW) cT2ar B 3 (madeNet n W bias B ctxv g) x).out).out = x :=
  ((made_rq_tails_roundtrip_real TailsWhole.eW cT2ar rqTailsCfgValid_example_ar aT n hbuild rfl W bias B ctxv g).1
    x hx).2.2.1

/-- the `PadExact` hypothesis of the C01 theorems jointly with `RQTailsCfgValid` (`Float.log` / `Float.exp` are opaque
    to the kernel, so — exactly as `TailsWhole.pad_example` — conditional on the seven `Float` comparisons an evaluator
    confirms) -/
theorem pad_cfg_example (hk : (TailsWhole.kP == TailsWhole.kP) = true) (h0 : ((0.0:Float) == TailsWhole.kP) = false)
    (h1 : ((1.0:Float) == TailsWhole.kP) = false) (hm1 : ((-(1.0:Float)) == TailsWhole.kP) = false)
    (h2 : (((1.0:Float) - (-(1.0:Float))) == TailsWhole.kP) = false) (h6 : ((1e-6:Float) == TailsWhole.kP) = false)
    (hc : (((1:Float) - 0.0 * (1:Nat).toFloat) == TailsWhole.kP) = false) :
    RQTailsCfgValid TailsWhole.eP cT1 ∧ TailsWhole.PadExact TailsWhole.eP (tMD cT1) (tBe cT1) :=
  ⟨⟨rfl, rfl, by decide, (TailsWhole.pad_example hk h0 h1 hm1 h2 h6 hc).1⟩,
   (TailsWhole.pad_example hk h0 h1 hm1 h2 h6 hc).2⟩

end witness
end NF.ARWhole
