import NflowsModel.Core.TorchUtils
import NflowsModel.Lemmas.Pairing
import Mathlib.Tactic
import Mathlib.LinearAlgebra.Matrix.Determinant.Basic
import Mathlib.Analysis.SpecialFunctions.Log.Basic
/-!
# Lemmas/TorchUtils — list / index algebra behind the C20 theorems about `Core/TorchUtils`
-/
namespace NF.TU
variable {α β : Type}

/-! ## products of shapes, row-major offsets -/

theorem prodL_append (a b : List Nat) : prodL (a ++ b) = prodL a * prodL b := by
  induction a with
  | nil => simp [prodL]
  | cons x t ih => simp [prodL, ih, Nat.mul_assoc]

theorem prodL_take_drop (s : List Nat) (k : Nat) : prodL (s.take k) * prodL (s.drop k) = prodL s := by
  rw [← prodL_append, List.take_append_drop]

/-- row-major offset of the multi-index `idx` in a tensor of shape `shape` (as `View.dot idx (rowMajor shape)`) -/
def flatIdx : List Nat → List Nat → Nat
  | _ :: ss, i :: is => i * prodL ss + flatIdx ss is
  | _, _ => 0

theorem flatIdx_append (s t a b : List Nat) (h : a.length = s.length) :
    flatIdx (s ++ t) (a ++ b) = flatIdx s a * prodL t + flatIdx t b := by
  induction s generalizing a with
  | nil =>
    have : a = [] := List.length_eq_zero_iff.mp (by simpa using h)
    subst this; simp [flatIdx]
  | cons x ss ih =>
    cases a with
    | nil => simp at h
    | cons i a' =>
      have h' : a'.length = ss.length := by simpa using h
      simp only [List.cons_append, flatIdx, ih a' h', prodL_append]
      ring

/-! ## replicate / chunk / transpose -/

theorem flatten_replicate_drop (n r : Nat) (d : List α) (h : r ≤ n) :
    ((List.replicate n d).flatten).drop (r * d.length) = (List.replicate (n - r) d).flatten := by
  induction r generalizing n with
  | zero => simp
  | succ r ih =>
    cases n with
    | zero => omega
    | succ m =>
      have hm : r ≤ m := by omega
      rw [List.replicate_succ, List.flatten_cons]
      have : (r + 1) * d.length = d.length + r * d.length := by ring
      rw [this, List.drop_append, List.drop_eq_nil_of_le (by omega), List.nil_append, Nat.add_sub_cancel_left]
      simpa using ih m hm

theorem chunkRows_repeatFlat (n : Nat) (d : List α) :
    chunkRows n d.length (repeatFlat n d) = List.replicate n d := by
  unfold chunkRows repeatFlat
  have hc : List.replicate n d = (List.range n).map (fun _ => d) := by simp
  refine Eq.trans ?_ hc.symm
  apply List.map_congr_left
  intro r hr
  have hr' : r < n := List.mem_range.mp hr
  rw [flatten_replicate_drop n r d hr'.le]
  obtain ⟨m, hm⟩ : ∃ m, n - r = m + 1 := ⟨n - r - 1, by omega⟩
  rw [hm, List.replicate_succ, List.flatten_cons, List.take_left']
  rfl

def optRep (n : Nat) : Option β → List β
  | some b => List.replicate n b
  | none => []

theorem filterMap_replicate (n : Nat) (a : α) (f : α → Option β) :
    (List.replicate n a).filterMap f = optRep n (f a) := by
  induction n with
  | zero => cases h : f a <;> simp [optRep]
  | succ n ih =>
    cases h : f a with
    | none => rw [h] at ih; simp [List.replicate_succ, h, optRep] at ih ⊢; try exact ih
    | some b => rw [h] at ih; simp [List.replicate_succ, h, optRep] at ih ⊢; try exact ih

theorem map_range_getElem? (d : List α) (g : Option α → β) :
    (List.range d.length).map (fun i => g d[i]?) = d.map (fun a => g (some a)) := by
  induction d with
  | nil => simp
  | cons a t ih =>
    rw [List.length_cons, List.range_succ_eq_map, List.map_cons, List.map_map]
    simp only [List.getElem?_cons_zero, List.map_cons, List.cons.injEq, true_and]
    rw [← ih]
    apply List.map_congr_left
    intro i _
    simp

/-- the reshape/repeat/transpose pipeline of `tile` is "each entry `n` times, consecutively" -/
theorem tileL_eq_repeatRows (d : List α) (n : Nat) : tileL d n = Pairing.repeatRows d n := by
  simp only [tileL, transposeRows, chunkRows_repeatFlat, filterMap_replicate]
  rw [map_range_getElem? d (optRep n)]
  simp [Pairing.repeatRows, List.flatMap_def, optRep]

/-! ## `inferSize` (reshape with at most one `-1`) -/

/-- the dimension map of a successful reshape: `-1` becomes the inferred size `q` -/
def fillDim (q : Nat) (d : Int) : Nat := if d == -1 then q else d.toNat

theorem ofNat_ne_neg1 (a : Nat) : (Int.ofNat a == -1) = false := by
  simp only [beq_eq_false_iff_ne, ne_eq, Int.ofNat_eq_natCast]; omega

theorem filter_eq_neg1_ofNat (l : List Nat) : (l.map Int.ofNat).filter (· == -1) = [] := by
  rw [List.filter_eq_nil_iff]; intro a ha
  obtain ⟨b, _, rfl⟩ := List.mem_map.mp ha
  simp [ofNat_ne_neg1]

theorem any_lt_neg1_ofNat (l : List Nat) : (l.map Int.ofNat).any (· < -1) = false := by
  rw [List.any_eq_false]; intro a ha
  obtain ⟨b, _, rfl⟩ := List.mem_map.mp ha
  simp only [Int.ofNat_eq_natCast, decide_eq_true_eq]; omega

theorem any_eq_neg1_ofNat (l : List Nat) : (l.map Int.ofNat).any (· == -1) = false := by
  rw [List.any_eq_false]; intro a ha
  obtain ⟨b, _, rfl⟩ := List.mem_map.mp ha
  simp [ofNat_ne_neg1]

theorem filter_ne_neg1_ofNat (l : List Nat) : (l.map Int.ofNat).filter (· != -1) = l.map Int.ofNat := by
  rw [List.filter_eq_self]; intro a ha
  obtain ⟨b, _, rfl⟩ := List.mem_map.mp ha
  simp [bne, ofNat_ne_neg1]

theorem map_toNat_ofNat (l : List Nat) : (l.map Int.ofNat).map Int.toNat = l := by
  rw [List.map_map]; conv_rhs => rw [← List.map_id l]
  apply List.map_congr_left; intro a _; simp

theorem map_fillDim_ofNat (q : Nat) (l : List Nat) : (l.map Int.ofNat).map (fillDim q) = l := by
  rw [List.map_map]; conv_rhs => rw [← List.map_id l]
  apply List.map_congr_left; intro a _
  simp [fillDim, ofNat_ne_neg1]

theorem map_comp_toNat_ofNat (l : List Nat) : List.map (Int.toNat ∘ Int.ofNat) l = l := by
  rw [← List.map_map]; exact map_toNat_ofNat l

theorem map_comp_fillDim_ofNat (q : Nat) (l : List Nat) : List.map (fillDim q ∘ Int.ofNat) l = l := by
  rw [← List.map_map]; exact map_fillDim_ofNat q l

theorem not_exists_lt_neg1 (l : List Nat) : ¬ ∃ x ∈ l, (x : Int) < -1 := by
  rintro ⟨x, _, hx⟩; omega

theorem inferSize_eq (numel : Nat) (sh : List Int) :
    inferSize numel sh =
      if (sh.filter (· == -1)).length > 1 then .error .runtime
      else if sh.any (· < -1) then .error .runtime
      else
        let newsize := prodL ((sh.filter (· != -1)).map Int.toNat)
        let hasInfer := sh.any (· == -1)
        if numel == newsize || (hasInfer && decide (0 < newsize) && numel % newsize == 0) then
          if hasInfer then
            if newsize == 0 then .error .runtime
            else .ok (sh.map (fillDim (numel / newsize)))
          else .ok (sh.map Int.toNat)
        else .error .runtime := rfl

/-- reshape to `[-1] ++ rest`: the inferred leading size is `numel / prod rest` -/
theorem inferSize_infer_cons (numel : Nat) (rest : List Nat) (hp : 0 < prodL rest) (hdiv : numel % prodL rest = 0) :
    inferSize numel ((-1 : Int) :: rest.map Int.ofNat) = .ok ((numel / prodL rest) :: rest) := by
  have hne : prodL rest ≠ 0 := by omega
  rw [inferSize_eq]
  simp [filter_eq_neg1_ofNat, filter_ne_neg1_ofNat, map_comp_toNat_ofNat, map_comp_fillDim_ofNat, not_exists_lt_neg1, hp, hdiv, hne]
  simp [fillDim]

/-- reshape to an explicit shape with the right number of elements -/
theorem inferSize_exact (s : List Nat) : inferSize (prodL s) (s.map Int.ofNat) = .ok s := by
  rw [inferSize_eq]
  simp [filter_eq_neg1_ofNat, any_eq_neg1_ofNat, filter_ne_neg1_ofNat, map_comp_toNat_ofNat, not_exists_lt_neg1]

theorem prodL_map_fillDim (q : Nat) (sh : List Int) :
    prodL (sh.map (fillDim q)) = q ^ (sh.filter (· == -1)).length * prodL ((sh.filter (· != -1)).map Int.toNat) := by
  induction sh with
  | nil => simp [prodL]
  | cons d t ih =>
    by_cases hd : d = -1
    · subst hd
      simp only [List.map_cons, prodL, ih, fillDim, beq_self_eq_true, if_true, List.filter_cons, bne_self_eq_false,
        Bool.false_eq_true, if_false, List.length_cons]
      ring
    · have h1 : (d == -1) = false := by simpa using hd
      have h2 : (d != -1) = true := by simp [bne, h1]
      simp only [List.map_cons, prodL, ih, fillDim, h1, Bool.false_eq_true, if_false, List.filter_cons, h2, if_true]
      ring

theorem filter_pos_of_any (sh : List Int) (h : sh.any (· == -1) = true) : 0 < (sh.filter (· == -1)).length := by
  rw [List.any_eq_true] at h
  obtain ⟨a, ha, hb⟩ := h
  exact List.length_pos_of_mem (List.mem_filter.mpr ⟨ha, hb⟩)

theorem map_toNat_eq_fillDim (q : Nat) (sh : List Int) (h : sh.any (· == -1) = false) :
    sh.map Int.toNat = sh.map (fillDim q) := by
  apply List.map_congr_left
  intro a ha
  have : (a == -1) = false := by
    rw [List.any_eq_false] at h
    simpa using h a ha
  simp [fillDim, this]

/-- soundness of a successful reshape: same rank as requested, `-1` filled in, and the element count is preserved -/
theorem inferSize_ok {numel : Nat} {sh : List Int} {s : List Nat} (h : inferSize numel sh = .ok s) :
    ∃ q, s = sh.map (fillDim q) ∧ prodL s = numel := by
  rw [inferSize_eq] at h
  by_cases c1 : (sh.filter (· == -1)).length > 1
  · simp [c1] at h
  by_cases c2 : sh.any (· < -1) = true
  · simp [c1, c2] at h
  simp only [c1, c2, if_false] at h
  by_cases c3 : sh.any (· == -1) = true
  · -- one dimension is inferred
    have hcnt : (sh.filter (· == -1)).length = 1 := by have := filter_pos_of_any sh c3; omega
    simp only [c3, Bool.true_and, if_true] at h
    by_cases c5 : prodL ((sh.filter (· != -1)).map Int.toNat) = 0
    · simp [c5] at h
    · have hpos : 0 < prodL ((sh.filter (· != -1)).map Int.toNat) := Nat.pos_of_ne_zero c5
      by_cases c4 : (numel == prodL ((sh.filter (· != -1)).map Int.toNat) ||
          (decide (0 < prodL ((sh.filter (· != -1)).map Int.toNat)) && numel % prodL ((sh.filter (· != -1)).map Int.toNat) == 0)) = true
      · simp only [c4, if_true, beq_iff_eq, c5, if_false] at h
        have hs : s = sh.map (fillDim (numel / prodL ((sh.filter (· != -1)).map Int.toNat))) := by
          injection h with h; exact h.symm
        refine ⟨_, hs, ?_⟩
        rw [hs, prodL_map_fillDim, hcnt, pow_one]
        have hdvd : prodL ((sh.filter (· != -1)).map Int.toNat) ∣ numel := by
          simp only [Bool.or_eq_true, beq_iff_eq, Bool.and_eq_true, decide_eq_true_eq] at c4
          rcases c4 with h1 | ⟨_, h2⟩
          · rw [h1]
          · exact Nat.dvd_of_mod_eq_zero h2
        exact Nat.div_mul_cancel hdvd
      · simp [c4] at h
  · -- explicit shape
    have c3' : sh.any (· == -1) = false := by
      cases hb : sh.any (· == -1) with
      | false => rfl
      | true => exact absurd hb c3
    simp only [c3', Bool.false_and, Bool.or_false, Bool.false_eq_true, if_false] at h
    by_cases c4 : (numel == prodL ((sh.filter (· != -1)).map Int.toNat)) = true
    · simp only [c4, if_true] at h
      have hs : s = sh.map Int.toNat := by injection h with h; exact h.symm
      have hfil : sh.filter (· != -1) = sh := by
        rw [List.filter_eq_self]; intro a ha
        rw [List.any_eq_false] at c3'
        have := c3' a ha
        simpa [bne] using this
      refine ⟨0, by rw [hs]; exact map_toNat_eq_fillDim 0 sh c3', ?_⟩
      rw [hs]; rw [hfil] at c4; exact (beq_iff_eq.mp c4).symm
    · simp [c4] at h

/-! ## rows of a flat tensor -/

theorem chunkRows_length (b r : Nat) (d : List α) : (chunkRows b r d).length = b := by simp [chunkRows]

theorem chunkRows_getElem? (b r : Nat) (d : List α) (i : Nat) (hi : i < b) :
    (chunkRows b r d)[i]? = some ((d.drop (i * r)).take r) := by
  simp [chunkRows, List.getElem?_map, List.getElem?_range hi]

theorem chunkRows_row_length (b r : Nat) (d : List α) (hd : d.length = b * r) :
    ∀ row ∈ chunkRows b r d, row.length = r := by
  intro row hrow
  simp only [chunkRows, List.mem_map, List.mem_range] at hrow
  obtain ⟨i, hi, rfl⟩ := hrow
  rw [List.length_take, List.length_drop, hd]
  have : (i + 1) * r ≤ b * r := Nat.mul_le_mul_right r hi
  have : (i + 1) * r = i * r + r := by ring
  omega

/-- entry `c` of row `i` is flat entry `i * r + c` -/
theorem chunkRows_entry (b r : Nat) (d : List α) (i c : Nat) (hi : i < b) (hc : c < r) :
    ((chunkRows b r d)[i]?).bind (fun row => row[c]?) = d[i * r + c]? := by
  rw [chunkRows_getElem? b r d i hi]
  simp only [Option.bind_some]
  rw [List.getElem?_take_of_lt hc, List.getElem?_drop]

/-! ## bin search on a strictly increasing list -/

/-- on a strictly increasing list the entries `≤ x` form a prefix: with `c` their number, the first `c` entries are `≤ x`
    and every later entry is `> x` -/
theorem sorted_filter_prefix [LinearOrder α] (L : List α) (h : L.Pairwise (· < ·)) (x : α) :
    (∀ i, i < (L.filter (fun t => decide (t ≤ x))).length → ∃ v, L[i]? = some v ∧ v ≤ x) ∧
    (∀ i v, (L.filter (fun t => decide (t ≤ x))).length ≤ i → L[i]? = some v → x < v) := by
  induction L with
  | nil => simp
  | cons a t ih =>
    rw [List.pairwise_cons] at h
    obtain ⟨hat, ht⟩ := h
    obtain ⟨ih1, ih2⟩ := ih ht
    by_cases hax : a ≤ x
    · have hf : (a :: t).filter (fun t => decide (t ≤ x)) = a :: t.filter (fun t => decide (t ≤ x)) := by
        simp [List.filter_cons, hax]
      rw [hf]
      constructor
      · intro i hi
        cases i with
        | zero => exact ⟨a, by simp, hax⟩
        | succ j =>
          have hj : j < (t.filter (fun t => decide (t ≤ x))).length := by simpa using hi
          simpa using ih1 j hj
      · intro i v hi hv
        cases i with
        | zero => simp at hi
        | succ j =>
          have hj : (t.filter (fun t => decide (t ≤ x))).length ≤ j := by simpa using hi
          exact ih2 j v hj (by simpa using hv)
    · have hxa : x < a := not_le.mp hax
      have hnil : t.filter (fun t => decide (t ≤ x)) = [] := by
        rw [List.filter_eq_nil_iff]; intro b hb
        have := hat b hb
        simp only [decide_eq_true_eq, not_le]; exact lt_trans hxa this
      have hf : (a :: t).filter (fun t => decide (t ≤ x)) = [] := by
        simp [List.filter_cons, hax, hnil]
      rw [hf]
      constructor
      · intro i hi; simp at hi
      · intro i v _ hv
        cases i with
        | zero => simp at hv; rw [← hv]; exact hxa
        | succ j =>
          have : v ∈ t := List.mem_of_getElem? (by simpa using hv)
          exact lt_trans hxa (hat v this)

/-- the primitive comparisons of `o` are those of a linear order (true of `realX`; of IEEE floats on non-NaN values) -/
structure OrderedX [LinearOrder α] (o : XOps α) : Prop where
  le_iff : ∀ a b, o.le a b = decide (a ≤ b)
  lt_iff : ∀ a b, o.lt a b = decide (a < b)

/-- the specification of `torchutils.logabsdet` (torchutils.py:64-68, `slogdet` trusted): `log |det M|` -/
noncomputable def logabsdetR {n : ℕ} (M : Matrix (Fin n) (Fin n) ℝ) : ℝ := Real.log |M.det|

/-! ## counting in masks -/

theorem countP_range_lt (n k : Nat) : (List.range n).countP (fun i => decide (i < k)) = min k n := by
  induction n with
  | zero => simp
  | succ n ih =>
    rw [List.range_succ, List.countP_append, ih]
    by_cases h : n < k
    · simp [h]; omega
    · simp [h]; omega

theorem countP_range_mod2 (n r : Nat) (hr : r < 2) :
    (List.range n).countP (fun i => decide (i % 2 = r)) = (n + 1 - r) / 2 := by
  induction n with
  | zero => interval_cases r <;> simp
  | succ n ih =>
    rw [List.range_succ, List.countP_append, ih]
    by_cases h : n % 2 = r
    · simp [h]; omega
    · simp [h]; omega

theorem midpoint_eq (n : Nat) : midpoint n = (n + 1) / 2 := by
  unfold midpoint; split <;> rename_i h <;> simp at h <;> omega

end NF.TU
