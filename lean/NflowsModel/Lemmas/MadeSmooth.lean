import NflowsModel.Lemmas.CouplingJacobian
import NflowsModel.Lemmas.ARWholeMadeRow
import Mathlib.Analysis.SpecialFunctions.Trigonometric.DerivHyp
import Mathlib.Analysis.SpecialFunctions.Log.Deriv
/-!
# Lemmas/MadeSmooth — the differentiability hypothesis of the conditioner-based layers DISCHARGED for real networks (C03)

Audit C03 finding 1: `FlowWholeND.ARRowHyp.hdiff` / `CouplingJacobian.CouplingRowHyp.hdiff` (differentiability of the row map
THROUGH the conditioner) were discharged only for constant / affine conditioners.  Here:

* §1 `diffDep`: "the value of a unit is a differentiable function of the input batch" is a dependence system of
  `Lemmas/MadeNet` (closed under `zero / add / smul`, constants, per-unit maps that are differentiable), so the generic
  theorem `forward_dep` about the EXECUTED `Made.forward` gives `madeReal_differentiable`: every output of the executed MADE
  of every valid net (in particular every `build`-accepted architecture), every real weight / bias / context assignment, is a
  differentiable function of the inputs whenever the per-unit maps (activation, batch norm, dropout mask) are differentiable
  maps of the unit's column — `madeNet_entry_differentiable`, `madeRowNet_entry_differentiable` (row-wise activation
  `act : ℝ → ℝ` differentiable: tanh, sigmoid, softplus, …; NOT ReLU).
* §2 `softplus_differentiableAt`: the executed `F.softplus` (identity above the threshold 20) is differentiable at every
  `u ≠ 20` — and discontinuous at `20` (`softplus_not_continuousAt_threshold`), so the hypothesis cannot be dropped.
* §3 the executed masked AFFINE autoregressive layer (`MaskedAffineAutoregressiveTransform`, MAF; `arForward` at the element
  `"araffine"`) as an n-D part: `ARAffineHyp` (autoregressive conditioner, entry-wise differentiable, unconstrained scales never
  exactly at the softplus threshold) ⇒ `arAffineRow_differentiable`, `arAffineDiffeo : DiffeoN F`; pointwise forms
  `arAffineRow_differentiableAt`, `ar_affine_row_logdet_at` (C01 with no hypothesis on the Jacobian).
  `made_arAffineHyp` / `madeRow_arAffineHyp`: the hypotheses for the executed MADE with any differentiable activation.
* §4 coupling layers: `diffNet_of_entries` (any conditioner given by entry-wise differentiable functions of the identity
  split), `mlp_differentiable` (one-hidden-layer perceptron with a differentiable activation); differentiable activations:
  `tanh_differentiable`, `sigmoid_differentiable`, `log1pexp_differentiable` (softplus without threshold), `elu_differentiable`.
* §5 `ExecLayer3` = the layers of `CouplingJacobian.ExecLayer2` + the executed MAF layer; `executed_pipeline3_normalised`.
* §6 a concrete flow: 2 features, `[MAF with a tanh MADE (one hidden layer of 2 units), permutation, affine coupling with a
  tanh perceptron, LU-linear]` over the executed `StandardNormal` — normalised, nothing assumed except `0 ≤ e 1e-3`.

What is NOT covered: the RQ-with-tails autoregressive / coupling layers with an input-dependent conditioner (`ARRowHyp` for a
non-constant MADE).  The row map is `v ↦ spline(θ(v))(v i)`; its differentiability needs the JOINT differentiability of the
executed spline in (parameters, input), which is proved only strictly inside a bin (`Lemmas/DualXRQParamCore`, `DualXSpline2`),
not at the knots (which move with the parameters), and which FAILS where an unnormalised derivative parameter crosses the
softplus threshold (the executed `softplus` jumps there, `softplus_not_continuousAt_threshold`).
-/
open MeasureTheory NF DualSound Properties.C03

namespace NF.MadeSmooth
open NF.StructureExec NF.ARWhole NF.Made FlowWholeND NF.CouplingJacobian

/-! ## 1. Every output of the executed MADE is a differentiable function of the inputs -/

section made
variable {E : Type} [NormedAddCommGroup E] [NormedSpace ℝ E]

/-- the dependence system "differentiable along every differentiable parametrisation of the input batch" (the degree plays
    no role): `f : RM (Fin B)` is the value of a unit for all rows of the batch as a function of the batch `X b j` -/
def diffDep (B : ℕ) (E : Type) [NormedAddCommGroup E] [NormedSpace ℝ E] : DepSys (NF.Made.realOps (Fin B)) where
  Dep := fun _ f => ∀ φ : E → Fin B → ℕ → ℝ, (∀ b j, Differentiable ℝ fun p => φ p b j) →
    Differentiable ℝ fun p => f (φ p)
  mono := fun _ hv => hv
  zero := by
    intro d φ _
    exact differentiable_const _
  add := by
    intro d f g hf hg φ hφ
    exact (hf φ hφ).add (hg φ hφ)
  smul := by
    intro d f s hf φ hφ
    exact (hf φ hφ).const_smul s

/-- constants are differentiable; differentiable per-unit maps preserve differentiability -/
theorem realParams_good_diff {B : ℕ} (W : ℕ → ℕ → ℕ → ℝ) (bias : ℕ → ℕ → ℝ) (ctxv : ℕ → ℕ → Fin B → ℝ)
    (g : ℕ → Slot → ℕ → (Fin B → ℝ) → Fin B → ℝ) (hg : ∀ s sl k, Differentiable ℝ (g s sl k)) :
    (realParams W bias ctxv g).Good (diffDep B E) where
  bias := by
    intro l k d φ _
    exact differentiable_const _
  ctx := by
    intro s k d φ _
    exact differentiable_const _
  um := by
    intro s sl k d v hv φ hφ
    exact (hg s sl k).comp (hv φ hφ)

theorem realInputs_ok_diff (B F : ℕ) : StOk (diffDep B E) ((inputDegrees F).zip (realInputs (Fin B) F)) := by
  intro p hp
  rw [List.mem_iff_getElem] at hp
  obtain ⟨i, hi, rfl⟩ := hp
  intro φ hφ
  simp only [List.getElem_zip, realInputs, List.getElem_map, List.getElem_range]
  rw [differentiable_pi]
  intro b
  exact hφ b i

/-- **every output of the executed MADE is differentiable in the inputs**: any valid net, any weights, biases, context
    contributions, any per-unit maps that are differentiable maps of the unit's column over the batch (a differentiable
    activation applied row by row, batch norm in evaluation mode = an affine map, dropout off = the identity), along any
    differentiable parametrisation `φ` of the input batch -/
theorem madeReal_differentiable {B : ℕ} (n : Net) (hv : n.valid = true) (W : ℕ → ℕ → ℕ → ℝ) (bias : ℕ → ℕ → ℝ)
    (ctxv : ℕ → ℕ → Fin B → ℝ) (g : ℕ → Slot → ℕ → (Fin B → ℝ) → Fin B → ℝ)
    (hg : ∀ s sl k, Differentiable ℝ (g s sl k))
    (φ : E → Fin B → ℕ → ℝ) (hφ : ∀ b j, Differentiable ℝ fun p => φ p b j) (b : Fin B) (u : ℕ) :
    Differentiable ℝ fun p => madeReal n W bias ctxv g (φ p) b u := by
  unfold madeReal
  by_cases hu : u < (outputs (NF.Made.realOps (Fin B)) (realParams W bias ctxv g) n (realInputs (Fin B) n.F)).length
  · simp only [List.getD_eq_getElem?_getD, List.getElem?_eq_getElem hu, Option.getD_some]
    have hlen : u < (forward (NF.Made.realOps (Fin B)) (realParams W bias ctxv g) n (realInputs (Fin B) n.F)).length := by
      simpa [outputs] using hu
    have h := forward_dep (D := diffDep B E) (realParams_good_diff W bias ctxv g hg) n hv _ (realInputs_ok_diff B n.F) _
      (List.getElem_mem hlen) _ (Nat.le_succ _) φ hφ
    have h2 := (differentiable_pi.1 h) b
    have hget : (outputs (NF.Made.realOps (Fin B)) (realParams W bias ctxv g) n (realInputs (Fin B) n.F))[u]
        = (forward (NF.Made.realOps (Fin B)) (realParams W bias ctxv g) n (realInputs (Fin B) n.F))[u].2 := by
      simp [outputs]
    rw [hget]
    exact h2
  · simp only [List.getD_eq_getElem?_getD, List.getElem?_eq_none (Nat.le_of_not_lt hu), Option.getD_none]
    exact differentiable_const _

/-- the one-row conditioner in closed form: the flat parameter tensor is the list of the outputs of the executed MADE -/
theorem madeNet_one (n : Net) (W : ℕ → ℕ → ℕ → ℝ) (bias : ℕ → ℕ → ℝ) (ctxv : ℕ → ℕ → Fin 1 → ℝ)
    (g : ℕ → Slot → ℕ → (Fin 1 → ℝ) → Fin 1 → ℝ) (x : Array ℝ) :
    madeNet n W bias 1 ctxv g x
      = ((List.range (n.F * n.m)).map fun u => madeReal n W bias ctxv g (batchOf 1 n.F x) ⟨0, Nat.one_pos⟩ u).toArray := by
  unfold madeNet
  simp [List.range_one]

/-- **every entry of the parameter tensor the executed MADE conditioner returns for a one-row batch is a differentiable
    function of the row** — any valid net, any weights / biases / context, any differentiable per-unit maps -/
theorem madeNet_entry_differentiable (n : Net) (hv : n.valid = true) (W : ℕ → ℕ → ℕ → ℝ) (bias : ℕ → ℕ → ℝ)
    (ctxv : ℕ → ℕ → Fin 1 → ℝ) (g : ℕ → Slot → ℕ → (Fin 1 → ℝ) → Fin 1 → ℝ)
    (hg : ∀ s sl k, Differentiable ℝ (g s sl k)) (k : ℕ) :
    Differentiable ℝ fun v : Fin n.F → ℝ => (madeNet n W bias 1 ctxv g (Array.ofFn v)).getD k 0 := by
  simp only [madeNet_one]
  exact listArray_getD_differentiable _
    (fun u v => madeReal n W bias ctxv g (batchOf 1 n.F (Array.ofFn v)) ⟨0, Nat.one_pos⟩ u)
    (fun u => madeReal_differentiable n hv W bias ctxv g hg (fun v => batchOf 1 n.F (Array.ofFn v))
      (fun b j => ofFn_getD_differentiable _) _ u) k

/-- a per-unit map that applies a differentiable `act : ℝ → ℝ` to every row of the unit's column is differentiable -/
theorem rowwise_differentiable {B : ℕ} (act : ℝ → ℝ) (hact : Differentiable ℝ act) :
    Differentiable ℝ fun (col : Fin B → ℝ) (b : Fin B) => act (col b) := by
  rw [differentiable_pi]
  intro b
  exact hact.comp (differentiable_apply b)

/-- the same for the ROW-BY-ROW scalar run of the executed MADE (`madeRowNet`, the program a numeric driver runs), per-unit
    maps `act s slot k : ℝ → ℝ` all differentiable -/
theorem madeRowNet_entry_differentiable (n : Net) (hv : n.valid = true) (W : ℕ → ℕ → ℕ → ℝ) (bias : ℕ → ℕ → ℝ)
    (ctxr : ℕ → ℕ → ℕ → ℝ) (act : ℕ → Slot → ℕ → ℝ → ℝ) (hact : ∀ s sl k, Differentiable ℝ (act s sl k)) (k : ℕ) :
    Differentiable ℝ fun v : Fin n.F → ℝ => (madeRowNet n W bias 1 ctxr act (Array.ofFn v)).getD k 0 := by
  rw [madeRowNet_eq]
  exact madeNet_entry_differentiable n hv W bias _ _ (fun s sl k => rowwise_differentiable _ (hact s sl k)) k

end made

/-! ## 2. The executed `softplus` (threshold 20) -/

/-- `log (1 + exp u)` is differentiable -/
theorem log1pexp_differentiable : Differentiable ℝ fun u : ℝ => Real.log (1 + Real.exp u) := by
  intro u
  have hne : (1 : ℝ) + Real.exp u ≠ 0 := by have := Real.exp_pos u; linarith
  have h : DifferentiableAt ℝ (fun y : ℝ => 1 + Real.exp y) u :=
    (differentiableAt_const (1 : ℝ)).add Real.differentiable_exp.differentiableAt
  exact h.log hne

/-- the executed `F.softplus` is differentiable at every point other than its threshold -/
theorem softplus_differentiableAt (e : Float → ℝ) {u : ℝ} (hu : u ≠ 20) :
    DifferentiableAt ℝ (NF.realX e).softplus u := by
  rcases lt_or_gt_of_ne hu with h | h
  · have heq : (NF.realX e).softplus =ᶠ[nhds u] fun y => Real.log (1 + Real.exp y) := by
      filter_upwards [Iio_mem_nhds h] with y hy
      rw [realX_softplus, if_neg (not_lt.2 (le_of_lt hy))]
    exact (log1pexp_differentiable u).congr_of_eventuallyEq heq
  · have heq : (NF.realX e).softplus =ᶠ[nhds u] fun y => y := by
      filter_upwards [Ioi_mem_nhds h] with y hy
      rw [realX_softplus, if_pos (Set.mem_Ioi.1 hy)]
    exact differentiableAt_id.congr_of_eventuallyEq heq

/-- … and it is NOT continuous at the threshold: the left limit is `log (1 + exp 20) > 20`, the value from the right is the
    identity.  (So a layer whose scale is `softplus(u) + eps` is not a continuous function of `u` across `u = 20`; the jump is
    `log (1 + exp (-20)) ≈ 2e-9`.) -/
theorem softplus_not_continuousAt_threshold (e : Float → ℝ) : ¬ ContinuousAt (NF.realX e).softplus 20 := by
  intro hc
  -- the value at 20 is `log (1 + exp 20)`, the values on `(20, ∞)` are the identity
  have h20 : (NF.realX e).softplus 20 = Real.log (1 + Real.exp 20) := by
    rw [realX_softplus, if_neg (lt_irrefl _)]
  have hgt : (20 : ℝ) < Real.log (1 + Real.exp 20) := by
    have : Real.log (Real.exp 20) < Real.log (1 + Real.exp 20) :=
      Real.log_lt_log (Real.exp_pos _) (by linarith)
    rwa [Real.log_exp] at this
  have hright : Filter.Tendsto (NF.realX e).softplus (nhdsWithin 20 (Set.Ioi 20)) (nhds (Real.log (1 + Real.exp 20))) := by
    rw [← h20]
    exact hc.tendsto.mono_left nhdsWithin_le_nhds
  have hid : Filter.Tendsto (NF.realX e).softplus (nhdsWithin 20 (Set.Ioi 20)) (nhds 20) := by
    have heq : (fun y : ℝ => y) =ᶠ[nhdsWithin 20 (Set.Ioi 20)] (NF.realX e).softplus := by
      filter_upwards [self_mem_nhdsWithin] with y hy
      rw [realX_softplus, if_pos (Set.mem_Ioi.1 hy)]
    exact (Filter.tendsto_id.mono_left nhdsWithin_le_nhds).congr' heq
  exact (ne_of_gt hgt) (tendsto_nhds_unique hright hid)

/-! ## 3. The executed masked AFFINE autoregressive layer (MAF) as an n-D part -/

section ar
variable (e : Float → ℝ) (c : ElCfg) (F : ℕ) (net : Array ℝ → Array ℝ)

/-- the hypotheses on the executed `MaskedAffineAutoregressiveTransform`: the affine element, `eps` read as a non-negative
    real, a strictly autoregressive conditioner (C06) whose outputs are entry-wise differentiable in the row, and no
    unconstrained scale exactly AT the threshold of the executed `softplus` (where it jumps:
    `softplus_not_continuousAt_threshold`) -/
structure ARAffineHyp : Prop where
  hk : c.kind = "araffine"
  he : 0 ≤ e (c.ds.getD 0 0.0)
  hnet : AutoregNet 1 F 2 net
  hsmooth : ∀ k, Differentiable ℝ fun v : Fin F → ℝ => (net (Array.ofFn v)).getD k 0
  hthr : ∀ (v : Fin F → ℝ) (i : Fin F), (net (Array.ofFn v)).getD (i.1 * 2) 0 ≠ 20

variable {e c F net}

/-- the row map of the executed forward pass, feature by feature: the executed element at the parameters the conditioner
    returns for THIS row (any element family) -/
theorem arRowT_eq (v : Fin F → ℝ) (i : Fin F) :
    arRowT e c F net v i = elMap e c F (net (Array.ofFn v)) 0 i (v i) := by
  unfold arRowT elMap
  have h := elemwise_out_getElem? (NF.realX e) 1 F (arEl (NF.realX e) c F (Array.ofFn v) (net (Array.ofFn v)) false)
    (b := 0) (by omega) i.2
  rw [Nat.zero_mul, Nat.zero_add] at h
  rw [Array.getD_eq_getD_getElem?, arForward, arApply, h, arEl_eq]
  simp

theorem arSlice_affine_scale (hk : c.kind = "araffine") (params : Array ℝ) (i : ℕ) :
    afScale (NF.realX e) c (arSlice (NF.realX e) c F params 0 i)
      = (NF.realX e).softplus (params.getD (i * 2) 0) + e (c.ds.getD 0 0.0) := by
  simp [afScale, arSlice, pw_araffine hk, List.range_succ]

theorem arSlice_affine_shift (hk : c.kind = "araffine") (params : Array ℝ) (i : ℕ) :
    (arSlice (NF.realX e) c F params 0 i).getD 1 0 = params.getD (i * 2 + 1) 0 := by
  simp [arSlice, pw_araffine hk, List.range_succ]

/-- **the executed MAF row map in closed form**: `y i = x i · (softplus(u i (x)) + eps) + s i (x)`, `(u i, s i)` the two
    conditioner outputs of feature `i` -/
theorem arAffineRowT_apply (hk : c.kind = "araffine") (v : Fin F → ℝ) (i : Fin F) :
    arRowT e c F net v i
      = v i * ((NF.realX e).softplus ((net (Array.ofFn v)).getD (i.1 * 2) 0) + e (c.ds.getD 0 0.0))
        + (net (Array.ofFn v)).getD (i.1 * 2 + 1) 0 := by
  rw [arRowT_eq, elMap_affine e c hk, arSlice_affine_scale hk, arSlice_affine_shift hk]

/-- the pointwise form: the executed MAF row map is differentiable AT every row `v` none of whose unconstrained scales sits
    at the softplus threshold (the conditioner entry-wise differentiable at `v`) -/
theorem arAffineRow_differentiableAt (hk : c.kind = "araffine") (v : Fin F → ℝ)
    (hsmooth : ∀ k, DifferentiableAt ℝ (fun w : Fin F → ℝ => (net (Array.ofFn w)).getD k 0) v)
    (hthr : ∀ i : Fin F, (net (Array.ofFn v)).getD (i.1 * 2) 0 ≠ 20) :
    DifferentiableAt ℝ (arRowT e c F net) v := by
  rw [differentiableAt_pi]
  intro i
  have hfun : (fun v : Fin F → ℝ => arRowT e c F net v i)
      = fun v => v i * ((NF.realX e).softplus ((net (Array.ofFn v)).getD (i.1 * 2) 0) + e (c.ds.getD 0 0.0))
        + (net (Array.ofFn v)).getD (i.1 * 2 + 1) 0 := by
    funext v
    exact arAffineRowT_apply hk v i
  rw [hfun]
  have h1 : DifferentiableAt ℝ (fun v : Fin F → ℝ => (NF.realX e).softplus ((net (Array.ofFn v)).getD (i.1 * 2) 0)) v :=
    (softplus_differentiableAt e (hthr i)).comp v (hsmooth _)
  exact (((differentiable_apply i) v).mul (h1.add_const _)).add (hsmooth _)

/-- **the differentiability hypothesis of the row map, DISCHARGED**: the executed MAF row map is differentiable everywhere -/
theorem arAffineRow_differentiable (h : ARAffineHyp e c F net) : Differentiable ℝ (arRowT e c F net) :=
  fun v => arAffineRow_differentiableAt h.hk v (fun k => h.hsmooth k v) (h.hthr v)

/-- **C01 for the executed MAF row with NO hypothesis on the Jacobian**: at every row `v` where the conditioner is entry-wise
    differentiable and no unconstrained scale sits at the softplus threshold, the log-abs-det the executed forward pass returns
    is `log |det|` of the (existing) Fréchet derivative of the executed row map -/
theorem ar_affine_row_logdet_at (hk : c.kind = "araffine") (he : 0 ≤ e (c.ds.getD 0 0.0)) (hnet : AutoregNet 1 F 2 net)
    (v : Fin F → ℝ)
    (hsmooth : ∀ k, DifferentiableAt ℝ (fun w : Fin F → ℝ => (net (Array.ofFn w)).getD k 0) v)
    (hthr : ∀ i : Fin F, (net (Array.ofFn v)).getD (i.1 * 2) 0 ≠ 20) :
    arRowLd e c F net v = Real.log |(fderiv ℝ (arRowT e c F net) v).det| := by
  have hpt : (fun i : Fin F => (Array.ofFn v).getD (0 * F + i.1) 0) = v := by
    funext i; simp
  have hL : HasFDerivAt (rowMap e c 1 F net (Array.ofFn v) 0) (fderiv ℝ (arRowT e c F net) v)
      (fun i : Fin F => (Array.ofFn v).getD (0 * F + i.1) 0) := by
    rw [rowMap_one, hpt]
    exact (arAffineRow_differentiableAt hk v hsmooth hthr).hasFDerivAt
  have h := ar_affine_row_logdet e c hk he 1 F net (Array.ofFn v) hnet (by simp) (b := 0) (by omega) hL
  rw [arRowLd, List.getD_eq_getElem?_getD, h]
  rfl

theorem arAffineRow_bijective (h : ARAffineHyp e c F net) : Function.Bijective (arRowT e c F net) := by
  have hsz : ∀ v : Fin F → ℝ, (Array.ofFn v).size = 1 * F := by intro v; simp
  constructor
  · intro v w hvw
    have h1 := (ar_affine_roundtrip_real e c h.hk h.he 1 F net h.hnet (Array.ofFn v) (hsz v)).1
    have h2 := (ar_affine_roundtrip_real e c h.hk h.he 1 F net h.hnet (Array.ofFn w) (hsz w)).1
    simp only at h1 h2
    have e1 := h1.2.2.1
    have e2 := h2.2.2.1
    rw [arForward_out_ofFn, hvw] at e1
    rw [arForward_out_ofFn] at e2
    exact ofFn_inj (e1.symm.trans e2)
  · intro y
    have h1 := (ar_affine_roundtrip_real e c h.hk h.he 1 F net h.hnet (Array.ofFn y) (hsz y)).2
    simp only at h1
    have hinv : (arInverse (NF.realX e) c 1 F net (Array.ofFn y)).out.size = F := by
      rw [arInverse_eq_iter, arIter_out_size _ c 1 F net _ (hsz y), Nat.one_mul]
    refine ⟨fun i => (arInverse (NF.realX e) c 1 F net (Array.ofFn y)).out.getD i 0, ?_⟩
    have e1 := h1.2.2.1
    rw [← ofFn_getD _ hinv, arForward_out_ofFn] at e1
    exact ofFn_inj e1

/-- the Jacobian of the executed MAF row map has `|det| = exp` of the log-abs-det the executed pass returns -/
theorem arAffineRow_abs_det (h : ARAffineHyp e c F net) (v : Fin F → ℝ) :
    |(fderiv ℝ (arRowT e c F net) v).det| = Real.exp (arRowLd e c F net v) := by
  have hpt : (fun i : Fin F => (Array.ofFn v).getD (0 * F + i.1) 0) = v := by
    funext i; simp
  have hL : HasFDerivAt (rowMap e c 1 F net (Array.ofFn v) 0) (fderiv ℝ (arRowT e c F net) v)
      (fun i : Fin F => (Array.ofFn v).getD (0 * F + i.1) 0) := by
    rw [rowMap_one, hpt]
    exact (arAffineRow_differentiable h v).hasFDerivAt
  obtain ⟨l, hl, hdet⟩ := ar_row_abs_det e c 1 F net (Array.ofFn v)
    (by rw [pw_araffine h.hk]; exact h.hnet) (by simp) (b := 0) (by omega) hL
    (by
      intro i
      rw [elMap_affine e c h.hk, ldOf_affine e c h.hk,
        Real.exp_log (afScale_pos e c h.he (arSlice (NF.realX e) c F (net (Array.ofFn v)) 0 i))]
      have hd := ((hasDerivAt_id ((Array.ofFn v).getD (0 * F + i.1) 0)).mul_const
        (afScale (NF.realX e) c (arSlice (NF.realX e) c F (net (Array.ofFn v)) 0 i))).add_const
        ((arSlice (NF.realX e) c F (net (Array.ofFn v)) 0 i).getD 1 0)
      simpa using hd)
  rw [hdet, arRowLd, List.getD_eq_getElem?_getD, hl]
  rfl

/-- **the executed masked affine autoregressive layer (MAF) as an n-D part** — no differentiability hypothesis on the row
    map is left: it follows from the entry-wise differentiability of the conditioner -/
noncomputable def arAffineDiffeo (h : ARAffineHyp e c F net) : DiffeoN F where
  T := arRowT e c F net
  T' := fun v => fderiv ℝ (arRowT e c F net) v
  ld := arRowLd e c F net
  bij := arAffineRow_bijective h
  deriv := fun v => (arAffineRow_differentiable h v).hasFDerivAt
  ld_eq := arAffineRow_abs_det h

/-- **MAF with the executed MADE conditioner**: every `build`-accepted architecture with multiplier 2, every real weight /
    bias / context assignment, every family of differentiable per-unit maps — the only thing left is that no unconstrained
    scale sits exactly at the softplus threshold -/
theorem made_arAffineHyp (hk : c.kind = "araffine") (he : 0 ≤ e (c.ds.getD 0 0.0)) (a : Arch) (n : Net)
    (hbuild : build a = .ok n) (hmult : a.mult = 2) (W : ℕ → ℕ → ℕ → ℝ) (bias : ℕ → ℕ → ℝ)
    (ctxv : ℕ → ℕ → Fin 1 → ℝ) (g : ℕ → Slot → ℕ → (Fin 1 → ℝ) → Fin 1 → ℝ)
    (hg : ∀ s sl k, Differentiable ℝ (g s sl k))
    (hthr : ∀ (v : Fin n.F → ℝ) (i : Fin n.F), (madeNet n W bias 1 ctxv g (Array.ofFn v)).getD (i.1 * 2) 0 ≠ 20) :
    ARAffineHyp e c n.F (madeNet n W bias 1 ctxv g) := by
  obtain ⟨hv, hF, hm, hFa, hma⟩ := build_valid hbuild
  refine ⟨hk, he, ?_, madeNet_entry_differentiable n hv W bias ctxv g hg, hthr⟩
  have := madeNet_autoreg n hv hm W bias 1 ctxv g
  rwa [hma, hmult] at this

/-- the same for the row-by-row scalar run `madeRowNet` with row-wise maps `act s slot k : ℝ → ℝ` (e.g. all `Real.tanh`) -/
theorem madeRow_arAffineHyp (hk : c.kind = "araffine") (he : 0 ≤ e (c.ds.getD 0 0.0)) (a : Arch) (n : Net)
    (hbuild : build a = .ok n) (hmult : a.mult = 2) (W : ℕ → ℕ → ℕ → ℝ) (bias : ℕ → ℕ → ℝ)
    (ctxr : ℕ → ℕ → ℕ → ℝ) (act : ℕ → Slot → ℕ → ℝ → ℝ) (hact : ∀ s sl k, Differentiable ℝ (act s sl k))
    (hthr : ∀ (v : Fin n.F → ℝ) (i : Fin n.F), (madeRowNet n W bias 1 ctxr act (Array.ofFn v)).getD (i.1 * 2) 0 ≠ 20) :
    ARAffineHyp e c n.F (madeRowNet n W bias 1 ctxr act) := by
  rw [madeRowNet_eq] at hthr ⊢
  exact made_arAffineHyp hk he a n hbuild hmult W bias _ _ (fun s sl k => rowwise_differentiable _ (hact s sl k)) hthr

end ar

/-! ## 4. Coupling layers: conditioners given by differentiable functions (perceptrons with a differentiable activation) -/

section coupling

/-- **any conditioner whose outputs are differentiable functions of (the first `n` entries of) its input is `DiffNet`**, for
    every mask: with `couplingRowHyp_additive_diffNet` / `couplingRowHyp_affine_diffNet` the executed additive (NICE) and
    affine (RealNVP, default scale activation `sigmoid(u + 2) + 1e-3`) coupling layers are n-D parts with NO differentiability
    hypothesis left -/
theorem diffNet_of_entries (e : Float → ℝ) (mask : List ℝ) (C m n : ℕ) (f : Fin m → (Fin n → ℝ) → ℝ)
    (hf : ∀ k, Differentiable ℝ (f k)) :
    DiffNet e mask C (fun z => Array.ofFn fun k : Fin m => f k (fun j => z.getD j 0)) := by
  intro k
  show Differentiable ℝ fun v : Fin C → ℝ =>
    (Array.ofFn fun k : Fin m => f k fun j : Fin n => (idSplit (NF.realX e) mask 1 (Array.ofFn v)).getD j 0).getD k 0
  by_cases hk : k < m
  · have h : (fun v : Fin C → ℝ =>
        (Array.ofFn fun k : Fin m => f k fun j : Fin n => (idSplit (NF.realX e) mask 1 (Array.ofFn v)).getD j 0).getD k 0)
        = fun v => f ⟨k, hk⟩ fun j : Fin n => (idSplit (NF.realX e) mask 1 (Array.ofFn v)).getD j 0 := by
      funext v; simp [Array.getD, hk]
    rw [h]
    exact (hf _).comp (differentiable_pi.2 fun j => idSplit_entry_differentiable e mask C j)
  · have h : (fun v : Fin C → ℝ =>
        (Array.ofFn fun k : Fin m => f k fun j : Fin n => (idSplit (NF.realX e) mask 1 (Array.ofFn v)).getD j 0).getD k 0)
        = fun _ => 0 := by
      funext v; simp [Array.getD, hk]
    rw [h]; exact differentiable_const _

/-- a perceptron with one hidden layer: `out k = b2 k + Σ r, A2 k r · act (b1 r + Σ j, A1 r j · z j)` -/
def mlp {n h m : ℕ} (act : ℝ → ℝ) (A1 : Fin h → Fin n → ℝ) (b1 : Fin h → ℝ) (A2 : Fin m → Fin h → ℝ) (b2 : Fin m → ℝ)
    (k : Fin m) (z : Fin n → ℝ) : ℝ :=
  b2 k + ∑ r, A2 k r * act (b1 r + ∑ j, A1 r j * z j)

theorem mlp_differentiable {n h m : ℕ} (act : ℝ → ℝ) (hact : Differentiable ℝ act) (A1 : Fin h → Fin n → ℝ)
    (b1 : Fin h → ℝ) (A2 : Fin m → Fin h → ℝ) (b2 : Fin m → ℝ) (k : Fin m) :
    Differentiable ℝ (mlp act A1 b1 A2 b2 k) := by
  unfold mlp
  have hin : ∀ r : Fin h, Differentiable ℝ fun z : Fin n → ℝ => b1 r + ∑ j, A1 r j * z j := fun r =>
    (differentiable_const _).add (Differentiable.fun_sum fun j _ => (differentiable_apply j).const_mul (A1 r j))
  exact (differentiable_const _).add (Differentiable.fun_sum fun r _ => (hact.comp (hin r)).const_mul (A2 k r))

/-- `tanh` is differentiable -/
theorem tanh_differentiable : Differentiable ℝ Real.tanh := by
  have h : Real.tanh = fun x => Real.sinh x / Real.cosh x := by
    funext x; exact Real.tanh_eq_sinh_div_cosh x
  rw [h]
  exact Real.differentiable_sinh.div Real.differentiable_cosh (fun x => (Real.cosh_pos x).ne')

/-- the logistic sigmoid is differentiable -/
theorem sigmoid_differentiable : Differentiable ℝ fun x : ℝ => 1 / (1 + Real.exp (-x)) := by
  have hne : ∀ x : ℝ, 1 + Real.exp (-x) ≠ 0 := fun x => by have := Real.exp_pos (-x); linarith
  exact (differentiable_const (1 : ℝ)).div
    ((differentiable_const (1 : ℝ)).add (Real.differentiable_exp.comp differentiable_id.neg)) hne

/-- ELU (`alpha = 1`): `x` for `x > 0`, `exp x - 1` otherwise -/
noncomputable def elu (x : ℝ) : ℝ := if 0 < x then x else Real.exp x - 1

/-- ELU is differentiable everywhere (the two branches meet at `0` with the same value and the same slope) -/
theorem elu_differentiable : Differentiable ℝ elu := by
  intro x
  rcases lt_trichotomy x 0 with h | h | h
  · have heq : elu =ᶠ[nhds x] fun y => Real.exp y - 1 := by
      filter_upwards [Iio_mem_nhds h] with y hy
      have hy' : ¬ (0 < y) := not_lt.2 (le_of_lt (Set.mem_Iio.1 hy))
      simp [elu, hy']
    exact ((Real.differentiable_exp x).sub_const 1).congr_of_eventuallyEq heq
  · subst h
    have hl : HasDerivWithinAt elu 1 (Set.Iic 0) 0 := by
      have h1 : HasDerivWithinAt (fun y => Real.exp y - 1) 1 (Set.Iic 0) 0 := by
        have h2 := (Real.hasDerivAt_exp 0).sub_const 1
        rw [Real.exp_zero] at h2
        exact h2.hasDerivWithinAt
      refine h1.congr (fun y hy => ?_) (by simp [elu])
      have hy' : ¬ (0 < y) := not_lt.2 (Set.mem_Iic.1 hy)
      simp [elu, hy']
    have hr : HasDerivWithinAt elu 1 (Set.Ici 0) 0 := by
      have h1 : HasDerivWithinAt (fun y : ℝ => y) 1 (Set.Ici 0) 0 := (hasDerivAt_id 0).hasDerivWithinAt
      refine h1.congr (fun y hy => ?_) (by simp [elu])
      rcases eq_or_lt_of_le (Set.mem_Ici.1 hy) with h0 | h0
      · rw [← h0]; simp [elu]
      · simp [elu, h0]
    have hu := hl.union hr
    rw [Set.Iic_union_Ici, hasDerivWithinAt_univ] at hu
    exact hu.differentiableAt
  · have heq : elu =ᶠ[nhds x] fun y => y := by
      filter_upwards [Ioi_mem_nhds h] with y hy
      simp [elu, Set.mem_Ioi.1 hy]
    exact differentiableAt_id.congr_of_eventuallyEq heq

end coupling

/-! ## 5. End to end: pipelines that also contain the executed MAF layer -/

section pipeline

/-- a layer on `[B, n]` inputs: one of the layers of `CouplingJacobian.ExecLayer2` (RQ-CDF with linear tails, permutation,
    LU / QR / SVD linear, masked-autoregressive RQ, coupling) or the executed masked AFFINE autoregressive layer -/
inductive ExecLayer3 (e : Float → ℝ) (n : ℕ) where
  | base (L : ExecLayer2 e n)
  /-- `MaskedAffineAutoregressiveTransform` with conditioner `net` (e.g. the executed MADE with a differentiable activation:
      `made_arAffineHyp`, `madeRow_arAffineHyp`) -/
  | maf (c : ElCfg) (net : Array ℝ → Array ℝ) (h : ARAffineHyp e c n net)

variable {e : Float → ℝ}

/-- RUN one layer on the row `v` with the executed programs: `(output row, log-abs-det)` -/
noncomputable def ExecLayer3.run {n : ℕ} : ExecLayer3 e n → (Fin n → ℝ) → (Fin n → ℝ) × ℝ
  | .base L, v => L.run v
  | .maf c net _, v =>
    let r := arForward (NF.realX e) c 1 n net (Array.ofFn v)
    (fun i => r.out.getD i 0, r.ld.getD 0 0)

/-- the n-D part a layer is -/
noncomputable def ExecLayer3.part {n : ℕ} : ExecLayer3 e n → DiffeoN n
  | .base L => L.part
  | .maf _ _ h => arAffineDiffeo h

/-- **running a layer with the executed programs = applying its part** -/
theorem ExecLayer3.run_eq {n : ℕ} (L : ExecLayer3 e n) (v : Fin n → ℝ) : L.run v = (L.part.T v, L.part.ld v) := by
  cases L with
  | base L => exact ExecLayer2.run_eq L v
  | maf c net h => rfl

/-- RUN a list of layers in the order given, accumulating the log-abs-dets (`CompositeTransform._cascade`) -/
noncomputable def runAll3 {n : ℕ} : List (ExecLayer3 e n) → (Fin n → ℝ) → (Fin n → ℝ) × ℝ
  | [], v => (v, 0)
  | L :: rest, v => ((runAll3 rest (L.run v).1).1, (L.run v).2 + (runAll3 rest (L.run v).1).2)

theorem runAll3_eq {n : ℕ} (Ls : List (ExecLayer3 e n)) (v : Fin n → ℝ) :
    runAll3 Ls v = ((progN (Ls.map ExecLayer3.part)).T v, (progN (Ls.map ExecLayer3.part)).ld v) := by
  induction Ls generalizing v with
  | nil => rfl
  | cons L rest ih =>
    simp only [runAll3, List.map_cons, ExecLayer3.run_eq L v, ih]
    rfl

/-- **End to end, WITH the executed MAF layer**: `Flow(CompositeTransform(layers), StandardNormal([n])).log_prob`, every layer
    RUN by its executed program and the base by the executed `stdNormalRow`, is a normalised probability density -/
theorem executed_pipeline3_normalised {n : ℕ} (Ls : List (ExecLayer3 e n)) :
    ∫ x : Fin n → ℝ, Real.exp (NF.Density.stdNormalRow (NF.realX e) n (List.ofFn (runAll3 Ls x).1) + (runAll3 Ls x).2) = 1 := by
  simp_rw [runAll3_eq Ls]
  exact executed_flow_normalised e _

/-- the same over the executed `DiagonalNormal` / `ConditionalDiagonalNormal` row -/
theorem executed_pipeline3_normalised_diag {n : ℕ} (means logStds : List ℝ) (hm : means.length = n)
    (hl : logStds.length = n) (Ls : List (ExecLayer3 e n)) :
    ∫ x : Fin n → ℝ, Real.exp (NF.Density.diagNormalRow (NF.realX e) n means logStds (List.ofFn (runAll3 Ls x).1)
        + (runAll3 Ls x).2) = 1 := by
  simp_rw [runAll3_eq Ls]
  exact executed_flow_normalised_cond e means logStds hm hl _

end pipeline

/-! ## 6. A concrete flow: MAF with a tanh MADE, RealNVP coupling with a tanh perceptron -/

section witness

/-- `MADE(features=2, hidden_features=2, num_blocks=0, output_multiplier=2)`: one hidden layer of two units -/
def exMaf : Arch :=
  { F := 2, H := 2, nBlocks := 0, mult := 2, residual := false, random := false, nde := false, ctx := 0, bn := false }

/-- the net the modelled constructor builds for it: both hidden units have degree 1 -/
def exNet : Net :=
  { F := 2, m := 2, d0 := [1, 1], blocks := [], residual := false, nde := false, hasCtx := false, bn := false }

theorem exMaf_builds : build exMaf = .ok exNet := by rfl

/-- the executed MADE of that architecture on a row, in closed form (any weights, biases, activation): the two parameters of
    feature 0 are constants, those of feature 1 see `x0` through the two hidden units, nothing sees `x1` -/
theorem exNet_row (W : ℕ → ℕ → ℕ → ℝ) (bias : ℕ → ℕ → ℝ) (ctxr : ℕ → ℕ → ℝ) (act : ℝ → ℝ) (x0 x1 : ℝ) :
    madeRow exNet W bias ctxr (fun _ _ _ => act) [x0, x1] =
      [bias 1 0, bias 1 1,
       bias 1 2 + (W 1 2 0 * act (bias 0 0 + W 0 0 0 * x0) + W 1 2 1 * act (bias 0 1 + W 0 1 0 * x0)),
       bias 1 3 + (W 1 3 0 * act (bias 0 0 + W 0 0 0 * x0) + W 1 3 1 * act (bias 0 1 + W 0 1 0 * x0))] := by
  simp [madeRow, outputs, forward, exNet, linear, mapUnits, blocksFwd, inputDegrees, outputDegrees, tile, maskEntry,
    msum, scalarOps, rowParams, nLinears, List.range_succ]

theorem exNet_net (W : ℕ → ℕ → ℕ → ℝ) (bias : ℕ → ℕ → ℝ) (ctxr : ℕ → ℕ → ℕ → ℝ) (act : ℝ → ℝ) (v : Fin 2 → ℝ) :
    madeRowNet exNet W bias 1 ctxr (fun _ _ _ => act) (Array.ofFn v) =
      #[bias 1 0, bias 1 1,
       bias 1 2 + (W 1 2 0 * act (bias 0 0 + W 0 0 0 * v 0) + W 1 2 1 * act (bias 0 1 + W 0 1 0 * v 0)),
       bias 1 3 + (W 1 3 0 * act (bias 0 0 + W 0 0 0 * v 0) + W 1 3 1 * act (bias 0 1 + W 0 1 0 * v 0))] := by
  have hrow : rowList exNet.F (Array.ofFn v) 0 = [v 0, v 1] := by
    simp [rowList, exNet, List.range_succ]
  simp only [madeRowNet, List.range_one, List.flatMap_cons, List.flatMap_nil, List.append_nil, hrow, exNet_row]

theorem abs_mul_tanh_le (w t : ℝ) : |w * Real.tanh t| ≤ |w| := by
  rw [abs_mul]
  have h : |Real.tanh t| ≤ 1 := abs_le.2 ⟨(Real.neg_one_lt_tanh t).le, (Real.tanh_lt_one t).le⟩
  calc |w| * |Real.tanh t| ≤ |w| * 1 := mul_le_mul_of_nonneg_left h (abs_nonneg w)
    _ = |w| := mul_one _

/-- **`ARAffineHyp` for the MAF layer with the executed tanh MADE `exNet`**, every weight and bias assignment whose
    unconstrained-scale head stays below the softplus threshold (`|b| + Σ |w| < 20` on the output unit of feature 1, `b ≠ 20`
    on that of feature 0): nothing else is assumed -/
theorem exNet_arAffineHyp {e : Float → ℝ} {c : ElCfg} (hk : c.kind = "araffine") (he : 0 ≤ e (c.ds.getD 0 0.0))
    (W : ℕ → ℕ → ℕ → ℝ) (bias : ℕ → ℕ → ℝ) (ctxr : ℕ → ℕ → ℕ → ℝ)
    (hb0 : bias 1 0 ≠ 20) (hb1 : |bias 1 2| + |W 1 2 0| + |W 1 2 1| < 20) :
    ARAffineHyp e c 2 (madeRowNet exNet W bias 1 ctxr (fun _ _ _ => Real.tanh)) := by
  have key : ∀ (v : Fin 2 → ℝ) (i : Fin 2),
      (madeRowNet exNet W bias 1 ctxr (fun _ _ _ => Real.tanh) (Array.ofFn v)).getD (i.1 * 2) 0 ≠ 20 := by
    intro v i
    rw [exNet_net]
    have hi : i.1 = 0 ∨ i.1 = 1 := by
      have := i.2
      omega
    rcases hi with hi | hi
    · rw [hi]; simpa using hb0
    · rw [hi]
      have h1 := abs_mul_tanh_le (W 1 2 0) (bias 0 0 + W 0 0 0 * v 0)
      have h2 := abs_mul_tanh_le (W 1 2 1) (bias 0 1 + W 0 1 0 * v 0)
      have h3 := le_abs_self (bias 1 2)
      have h4 := le_abs_self (W 1 2 0 * Real.tanh (bias 0 0 + W 0 0 0 * v 0))
      have h5 := le_abs_self (W 1 2 1 * Real.tanh (bias 0 1 + W 0 1 0 * v 0))
      have hlt : bias 1 2 + (W 1 2 0 * Real.tanh (bias 0 0 + W 0 0 0 * v 0)
          + W 1 2 1 * Real.tanh (bias 0 1 + W 0 1 0 * v 0)) < 20 := by linarith
      simpa using ne_of_lt hlt
  exact madeRow_arAffineHyp hk he exMaf exNet exMaf_builds rfl W bias ctxr _
    (fun _ _ _ => tanh_differentiable) key

/-- **the concrete flow**: 2 features,
    `[MaskedAffineAutoregressiveTransform with the tanh MADE exNet (all hidden and output weights 1/2, biases 0),
      permutation, AffineCouplingTransform (mask [0, 1]) whose conditioner is ANY one-hidden-layer tanh perceptron,
      LULinear]` over `StandardNormal([2])`: every layer run by its executed program — `exp(log_prob)` integrates to one.
    The only hypothesis: the constant `1e-3` of both layers is read as a non-negative real. -/
example (e : Float → ℝ) (he : 0 ≤ e 1e-3) {h : ℕ} (A1 : Fin h → Fin 1 → ℝ) (b1 : Fin h → ℝ) (A2 : Fin 2 → Fin h → ℝ)
    (b2 : Fin 2 → ℝ) :
    ∃ Ls : List (ExecLayer3 e 2), Ls.length = 4 ∧
      ∫ x : Fin 2 → ℝ, Real.exp (NF.Density.stdNormalRow (NF.realX e) 2 (List.ofFn (runAll3 Ls x).1)
        + (runAll3 Ls x).2) = 1 :=
  ⟨[.maf exAffine _ (exNet_arAffineHyp (c := exAffine) rfl he (fun _ _ _ => 1 / 2) (fun _ _ => 0) (fun _ _ _ => 0)
        (by norm_num) (by norm_num [abs_of_pos])),
    .base (.base (.perm (Equiv.swap 0 1))),
    .base (.coupling { kind := "affine" } [0, 1] _
      (couplingRowHyp_affine_diffNet he rfl (by decide) rfl
        (diffNet_of_entries e [0, 1] 2 2 1 (mlp Real.tanh A1 b1 A2 b2)
          (mlp_differentiable Real.tanh tanh_differentiable A1 b1 A2 b2)))),
    .base (.base (.lu [3] [5] [0, 1] [1, -1] (1 / 1000) rfl (by norm_num) rfl))],
   rfl, executed_pipeline3_normalised _⟩

end witness

end NF.MadeSmooth
