import NflowsModel.Lemmas.RoundCompose
import Mathlib.Algebra.Order.Round
import Mathlib.Algebra.Order.Floor.Ring
import Mathlib.Data.Int.Log
import Mathlib.Analysis.SpecialFunctions.Log.Base
import Mathlib.Tactic
/-!
# Lemmas/RoundNearest — a concrete model of the standard model: round-to-nearest(-even) to `p` significant bits (C19)

`RoundModel.Rnd u r` asks `|r x - x| ≤ u |x|` for EVERY real `x`; no bounded-exponent format satisfies it (overflow,
underflow).  This file supplies the genuine rounding that does, and proves that IEEE-754 rounding coincides with it on
the normal range, so that the trusted sentence of C19 becomes "the hardware conforms to IEEE 754 and no intermediate
result leaves the normal range" and nothing else.

* `F p`           the format: `0` and all `± m · 2^k`, `2^(p-1) ≤ m < 2^p`, `k : ℤ` (unbounded exponent).
* `expo p a`      `= ⌊log₂ a⌋ - (p-1)` (`expo_eq_floor_logb`; defined with `Int.log 2`), so `2^(p-1) ≤ a/2^e < 2^p`.
* `flW ρ p x`     `= sign x · ρ(|x| / 2^e) · 2^e`, `e = expo p |x|`, for an integer rounding `ρ : ℝ → ℤ` with
                  `IntRnd ρ` (`|ρ t - t| ≤ 1/2`, monotone).  The tie rule lives in `ρ` only and acts on the MAGNITUDE.
* `fl p`          `= flW roundEven p`: **ties to even** (`roundEven`: nearest integer, the even one at `.5`).
* `flA p`         `= flW round p`: Mathlib's `round` (`round t = ⌊t + 1/2⌋`, ties UP) on the magnitude = ties away
                  from zero.
All results are proved for every `IntRnd ρ` (`flW_*`) and restated for `fl` (`fl_*`).

Headlines: `fl_rnd : Rnd (2^-p) (fl p)` (every real, no side condition), `fl_rndIdem`, `fl_mem`, `fl_of_mem`,
`fl_idem`, `fl_mono`, `fl_neg`, `fl_one`, `fl_intCast`, `fl_int_mul_zpow`, `fl_nearest` (a nearest point of `F p`),
`fl_spec` / `fl_unique` / `fl_unique_normalised` (nearest + ties-to-even characterises `fl p`), `flW_eq_of_not_tie`
(the tie rule matters only at exact ties), `fl_normalRange` (rounding does not leave a normal range),
`ieee_rne_eq_fl(_normalised)` (on the normal range of a bounded format, any value meeting the IEEE `roundTiesToEven`
specification equals `fl p x`), `fl24_rnd`, `fl53_rnd`, `dot_fl24_fl53`, `Trusted32`, `Trusted64`.
-/

namespace RoundNearest
noncomputable section
open NF RoundModel

/-! ## integer roundings -/

/-- `ρ : ℝ → ℤ` rounds to a nearest integer (any tie rule) and is monotone -/
structure IntRnd (ρ : ℝ → ℤ) : Prop where
  err : ∀ x, |(ρ x : ℝ) - x| ≤ 1 / 2
  mono : Monotone ρ

variable {ρ : ℝ → ℤ}

theorem IntRnd.int (h : IntRnd ρ) (z : ℤ) : ρ z = z := by
  have h1 := h.err z
  have h2 : |ρ (z : ℝ) - z| < 1 := by
    have : ((|ρ (z : ℝ) - z| : ℤ) : ℝ) < 1 := by
      push_cast
      linarith
    exact_mod_cast this
  have := Int.abs_lt_one_iff.mp h2
  omega

/-- Mathlib's `round` (`round x = ⌊x + 1/2⌋`: ties go UP, towards `+∞`) -/
theorem intRnd_round : IntRnd (round : ℝ → ℤ) where
  err x := by
    rw [abs_sub_comm]
    exact abs_sub_round x
  mono x y hxy := by
    rw [round_eq, round_eq]
    exact Int.floor_mono (by linarith)

/-! ## the exponent of a positive real at precision `p` -/

/-- the exponent `e` with `2^(p-1) ≤ a / 2^e < 2^p` -/
def expo (p : ℕ) (a : ℝ) : ℤ := Int.log 2 a - ((p : ℤ) - 1)

theorem expo_eq_floor_logb (p : ℕ) {a : ℝ} (ha : 0 ≤ a) : expo p a = ⌊Real.logb 2 a⌋ - ((p : ℤ) - 1) := by
  unfold expo
  have := Real.floor_logb_natCast (b := 2) ha
  rw [← this]
  norm_num

theorem zpow_expo_le (p : ℕ) {a : ℝ} (ha : 0 < a) : (2 : ℝ) ^ (expo p a + ((p : ℤ) - 1)) ≤ a := by
  have := Int.zpow_log_le_self (b := 2) one_lt_two ha
  unfold expo
  rw [sub_add_cancel]
  exact_mod_cast this

theorem lt_zpow_expo (p : ℕ) (a : ℝ) : a < (2 : ℝ) ^ (expo p a + (p : ℤ)) := by
  have := Int.lt_zpow_succ_log_self (b := 2) one_lt_two a
  unfold expo
  have e : Int.log 2 a - ((p : ℤ) - 1) + (p : ℤ) = Int.log 2 a + 1 := by ring
  rw [e]
  exact_mod_cast this

theorem expo_le_of_lt (p : ℕ) {a : ℝ} (ha : 0 < a) {j : ℤ} (h : a < (2 : ℝ) ^ (j + (p : ℤ))) : expo p a ≤ j := by
  have h' : a < ((2 : ℕ) : ℝ) ^ (j + (p : ℤ)) := by exact_mod_cast h
  have := (Int.lt_zpow_iff_log_lt (b := 2) one_lt_two ha).mp h'
  unfold expo
  omega

theorem le_expo_of_le (p : ℕ) {a : ℝ} (ha : 0 < a) {j : ℤ} (h : (2 : ℝ) ^ (j + ((p : ℤ) - 1)) ≤ a) : j ≤ expo p a := by
  have h' : ((2 : ℕ) : ℝ) ^ (j + ((p : ℤ) - 1)) ≤ a := by exact_mod_cast h
  have := (Int.zpow_le_iff_le_log (b := 2) one_lt_two ha).mp h'
  unfold expo
  omega

/-- the scaled significand `a / 2^e` lies in `[2^(p-1), 2^p)` -/
theorem sig_ge (p : ℕ) {a : ℝ} (ha : 0 < a) : (2 : ℝ) ^ ((p : ℤ) - 1) ≤ a / 2 ^ expo p a := by
  have h := zpow_expo_le p ha
  rw [zpow_add₀ (by norm_num)] at h
  rw [le_div_iff₀ (by positivity)]
  linarith

theorem sig_lt (p : ℕ) (a : ℝ) : a / 2 ^ expo p a < (2 : ℝ) ^ (p : ℤ) := by
  have h := lt_zpow_expo p a
  rw [zpow_add₀ (by norm_num)] at h
  rw [div_lt_iff₀ (by positivity)]
  linarith

/-! ## rounding to `p` significant bits -/

/-- magnitude part: scale to `[2^(p-1), 2^p)`, round to an integer, scale back -/
def flAbs (ρ : ℝ → ℤ) (p : ℕ) (a : ℝ) : ℝ := (ρ (a / 2 ^ expo p a) : ℝ) * 2 ^ expo p a

/-- round to `p` significant bits with integer rounding `ρ` applied to the MAGNITUDE (so `flW ρ p` is odd) -/
def flW (ρ : ℝ → ℤ) (p : ℕ) (x : ℝ) : ℝ := if 0 ≤ x then flAbs ρ p x else -flAbs ρ p (-x)

theorem flAbs_zero (hρ : IntRnd ρ) (p : ℕ) : flAbs ρ p 0 = 0 := by
  have := hρ.int 0
  simp only [Int.cast_zero] at this
  simp [flAbs, this]

theorem flAbs_err (hρ : IntRnd ρ) (p : ℕ) {a : ℝ} (ha : 0 < a) :
    |flAbs ρ p a - a| ≤ (2 : ℝ) ^ (-(p : ℤ)) * a := by
  have hL := zpow_expo_le p ha
  set e := expo p a with he
  have hpos : (0 : ℝ) < 2 ^ e := by positivity
  have h1 : flAbs ρ p a - a = ((ρ (a / 2 ^ e) : ℝ) - a / 2 ^ e) * 2 ^ e := by
    unfold flAbs
    rw [← he]
    field_simp
  have h2 := hρ.err (a / 2 ^ e)
  have h3 : (2 : ℝ) ^ e = 2 * ((2 : ℝ) ^ (-(p : ℤ)) * 2 ^ (e + ((p : ℤ) - 1))) := by
    rw [← zpow_add₀ (by norm_num), ← zpow_one_add₀ (by norm_num)]
    congr 1
    ring
  rw [h1, abs_mul, abs_of_pos hpos]
  have h4 : (0 : ℝ) < 2 ^ (-(p : ℤ)) := by positivity
  calc |(ρ (a / 2 ^ e) : ℝ) - a / 2 ^ e| * 2 ^ e ≤ 1 / 2 * 2 ^ e := by gcongr
    _ = 2 ^ (-(p : ℤ)) * 2 ^ (e + ((p : ℤ) - 1)) := by rw [h3]; ring
    _ ≤ 2 ^ (-(p : ℤ)) * a := by gcongr

theorem flW_err (hρ : IntRnd ρ) (p : ℕ) (x : ℝ) : |flW ρ p x - x| ≤ (2 : ℝ) ^ (-(p : ℤ)) * |x| := by
  unfold flW
  rcases lt_trichotomy x 0 with hx | hx | hx
  · rw [if_neg (by linarith), abs_of_neg hx]
    have := flAbs_err hρ p (a := -x) (by linarith)
    rw [show -flAbs ρ p (-x) - x = -(flAbs ρ p (-x) - -x) by ring, abs_neg]
    exact this
  · subst hx
    simp [flAbs_zero hρ]
  · rw [if_pos hx.le, abs_of_pos hx]
    exact flAbs_err hρ p hx

theorem flW_rnd (hρ : IntRnd ρ) (p : ℕ) : Rnd ((2 : ℝ) ^ (-(p : ℤ))) (flW ρ p) where
  u_nonneg := by positivity
  err := flW_err hρ p

/-! ## the format: `p`-bit significands, unbounded exponent -/

/-- `0` and all `± m · 2^k`, `2^(p-1) ≤ m < 2^p`, `k : ℤ` -/
def F (p : ℕ) : Set ℝ :=
  {x | x = 0 ∨ ∃ (m : ℕ) (k : ℤ), 2 ^ (p - 1) ≤ m ∧ m < 2 ^ p ∧ |x| = (m : ℝ) * (2 : ℝ) ^ k}

theorem zero_mem_F (p : ℕ) : (0 : ℝ) ∈ F p := Or.inl rfl

theorem neg_mem_F {p : ℕ} {x : ℝ} (h : x ∈ F p) : -x ∈ F p := by
  rcases h with h | ⟨m, k, h1, h2, h3⟩
  · left; simp [h]
  · right; exact ⟨m, k, h1, h2, by rw [abs_neg]; exact h3⟩

/-- the rounded significand is an integer in `[2^(p-1), 2^p]` -/
theorem rho_sig_bounds (hρ : IntRnd ρ) (q : ℕ) {a : ℝ} (ha : 0 < a) :
    (2 : ℤ) ^ q ≤ ρ (a / 2 ^ expo (q + 1) a) ∧ ρ (a / 2 ^ expo (q + 1) a) ≤ (2 : ℤ) ^ (q + 1) := by
  have h1 := sig_ge (q + 1) ha
  have h2 := sig_lt (q + 1) a
  constructor
  · have : (((2 : ℤ) ^ q : ℤ) : ℝ) ≤ a / 2 ^ expo (q + 1) a := by
      refine le_trans (le_of_eq ?_) h1
      push_cast
      rw [add_sub_cancel_right, zpow_natCast]
    have := hρ.mono this
    rwa [hρ.int] at this
  · have : a / 2 ^ expo (q + 1) a ≤ (((2 : ℤ) ^ (q + 1) : ℤ) : ℝ) := by
      refine le_trans h2.le (le_of_eq ?_)
      rw [zpow_natCast]
      push_cast
      rfl
    have := hρ.mono this
    rwa [hρ.int] at this

theorem flAbs_nonneg (hρ : IntRnd ρ) (p : ℕ) {a : ℝ} (ha : 0 ≤ a) : 0 ≤ flAbs ρ p a := by
  unfold flAbs
  have : (0 : ℤ) ≤ ρ (a / 2 ^ expo p a) := by
    have := hρ.mono (show (((0 : ℤ) : ℝ)) ≤ a / 2 ^ expo p a by simp; positivity)
    rwa [hρ.int] at this
  have : (0 : ℝ) ≤ (ρ (a / 2 ^ expo p a) : ℝ) := by exact_mod_cast this
  positivity

theorem flAbs_mem (hρ : IntRnd ρ) {p : ℕ} (hp : 1 ≤ p) {a : ℝ} (ha : 0 < a) : flAbs ρ p a ∈ F p := by
  obtain ⟨q, rfl⟩ : ∃ q, p = q + 1 := ⟨p - 1, by omega⟩
  obtain ⟨h1, h2⟩ := rho_sig_bounds hρ q ha
  right
  rw [abs_of_nonneg (flAbs_nonneg hρ _ ha.le)]
  unfold flAbs
  set n := ρ (a / 2 ^ expo (q + 1) a) with hn
  set e := expo (q + 1) a
  simp only [Nat.add_sub_cancel]
  rcases h2.lt_or_eq with h2 | h2
  · have hn0 : 0 ≤ n := le_trans (by positivity) h1
    refine ⟨n.toNat, e, ?_, ?_, ?_⟩
    · zify; rw [Int.toNat_of_nonneg hn0]; exact h1
    · zify; rw [Int.toNat_of_nonneg hn0]; exact h2
    · congr 1
      have : ((n.toNat : ℤ) : ℝ) = (n : ℝ) := by rw [Int.toNat_of_nonneg hn0]
      exact_mod_cast this.symm
  · refine ⟨2 ^ q, e + 1, le_rfl, by have := Nat.two_pow_pos q; rw [pow_succ]; omega, ?_⟩
    rw [h2, zpow_add_one₀ (by norm_num)]
    push_cast
    ring

theorem flW_mem (hρ : IntRnd ρ) {p : ℕ} (hp : 1 ≤ p) (x : ℝ) : flW ρ p x ∈ F p := by
  unfold flW
  rcases lt_trichotomy x 0 with hx | hx | hx
  · rw [if_neg (by linarith)]
    exact neg_mem_F (flAbs_mem hρ hp (by linarith))
  · subst hx
    simp [flAbs_zero hρ, zero_mem_F]
  · rw [if_pos hx.le]
    exact flAbs_mem hρ hp hx

/-! ## exactness -/

/-- a positive `a = z · 2^j` whose exponent at precision `p` is at most `j` is a fixed point -/
theorem flAbs_exact (hρ : IntRnd ρ) (p : ℕ) {a : ℝ} (z j : ℤ) (hj : expo p a ≤ j) (h : a = (z : ℝ) * 2 ^ j) :
    flAbs ρ p a = a := by
  unfold flAbs
  set e := expo p a
  obtain ⟨n, hn⟩ : ∃ n : ℕ, j = e + n := ⟨(j - e).toNat, by omega⟩
  have h1 : a / 2 ^ e = ((z * 2 ^ n : ℤ) : ℝ) := by
    rw [h, hn, zpow_add₀ (by norm_num), zpow_natCast]
    push_cast
    field_simp
  rw [h1, hρ.int, h, hn, zpow_add₀ (by norm_num), zpow_natCast]
  push_cast
  ring

theorem flW_neg (hρ : IntRnd ρ) (p : ℕ) (x : ℝ) : flW ρ p (-x) = -flW ρ p x := by
  unfold flW
  rcases lt_trichotomy x 0 with hx | hx | hx
  · rw [if_pos (by linarith), if_neg (by linarith), neg_neg]
  · subst hx; simp [flAbs_zero hρ]
  · rw [if_neg (by linarith), if_pos hx.le, neg_neg]

theorem flW_of_nonneg (ρ : ℝ → ℤ) (p : ℕ) {x : ℝ} (hx : 0 ≤ x) : flW ρ p x = flAbs ρ p x := if_pos hx

/-- every `z · 2^j` with `|z| ≤ 2^p` is a fixed point (`p ≥ 1`) -/
theorem flW_int_mul_zpow (hρ : IntRnd ρ) {p : ℕ} (hp : 1 ≤ p) (z j : ℤ) (hz : |z| ≤ 2 ^ p) :
    flW ρ p ((z : ℝ) * 2 ^ j) = (z : ℝ) * 2 ^ j := by
  -- positive case first
  have pos : ∀ z : ℤ, 0 < z → z ≤ 2 ^ p → flW ρ p ((z : ℝ) * 2 ^ j) = (z : ℝ) * 2 ^ j := by
    intro z hz0 hz
    have hzr : (0 : ℝ) < z := by exact_mod_cast hz0
    have ha : (0 : ℝ) < (z : ℝ) * 2 ^ j := by positivity
    rw [flW_of_nonneg ρ p ha.le]
    rcases hz.lt_or_eq with hz | hz
    · refine flAbs_exact hρ p z j (expo_le_of_lt p ha ?_) rfl
      rw [add_comm, zpow_add₀ (by norm_num), zpow_natCast]
      have : (z : ℝ) < 2 ^ p := by exact_mod_cast hz
      gcongr
    · have e : (z : ℝ) * 2 ^ j = ((1 : ℤ) : ℝ) * 2 ^ (j + (p : ℤ)) := by
        rw [hz, zpow_add₀ (by norm_num), zpow_natCast]
        push_cast
        ring
      refine flAbs_exact hρ p 1 (j + p) (expo_le_of_lt p ha ?_) e
      rw [e, Int.cast_one, one_mul]
      apply zpow_lt_zpow_right₀ (by norm_num)
      have : (1 : ℤ) ≤ p := by exact_mod_cast hp
      omega
  rcases lt_trichotomy z 0 with h | h | h
  · have := pos (-z) (by omega) (by rw [abs_of_neg h] at hz; exact hz)
    rw [show ((z : ℝ)) * 2 ^ j = -(((-z : ℤ) : ℝ) * 2 ^ j) by push_cast; ring, flW_neg hρ, this]
  · subst h; simp [flW, flAbs_zero hρ]
  · exact pos z h (by rw [abs_of_pos h] at hz; exact hz)

theorem flW_of_mem (hρ : IntRnd ρ) {p : ℕ} (hp : 1 ≤ p) {x : ℝ} (hx : x ∈ F p) : flW ρ p x = x := by
  rcases hx with hx | ⟨m, k, _, h2, h3⟩
  · subst hx; simp [flW, flAbs_zero hρ]
  · have key := flW_int_mul_zpow hρ hp (m : ℤ) k (by rw [abs_of_nonneg (by positivity)]; exact_mod_cast h2.le)
    rw [Int.cast_natCast, ← h3] at key
    rcases le_total 0 x with h | h
    · rwa [abs_of_nonneg h] at key
    · rw [abs_of_nonpos h, flW_neg hρ] at key
      linarith

theorem flW_idem (hρ : IntRnd ρ) {p : ℕ} (hp : 1 ≤ p) (x : ℝ) : flW ρ p (flW ρ p x) = flW ρ p x :=
  flW_of_mem hρ hp (flW_mem hρ hp x)

theorem flW_rndIdem (hρ : IntRnd ρ) {p : ℕ} (hp : 1 ≤ p) : RndIdem ((2 : ℝ) ^ (-(p : ℤ))) (flW ρ p) :=
  { flW_rnd hρ p with idem := flW_idem hρ hp }

theorem flW_intCast (hρ : IntRnd ρ) {p : ℕ} (hp : 1 ≤ p) (n : ℤ) (hn : |n| ≤ 2 ^ p) : flW ρ p (n : ℝ) = n := by
  have := flW_int_mul_zpow hρ hp n 0 hn
  simpa using this

theorem flW_one (hρ : IntRnd ρ) {p : ℕ} (hp : 1 ≤ p) : flW ρ p 1 = 1 := by
  have := flW_intCast hρ hp 1 (by rw [abs_one]; exact one_le_pow₀ (by norm_num))
  simpa using this

theorem flW_zero (hρ : IntRnd ρ) (p : ℕ) : flW ρ p 0 = 0 := by simp [flW, flAbs_zero hρ]

theorem flW_two_zpow (hρ : IntRnd ρ) {p : ℕ} (hp : 1 ≤ p) (j : ℤ) : flW ρ p ((2 : ℝ) ^ j) = 2 ^ j := by
  have := flW_int_mul_zpow hρ hp 1 j (by rw [abs_one]; exact one_le_pow₀ (by norm_num))
  simpa using this

/-! ## monotonicity -/

/-- `2^(e+p-1) ≤ fl a ≤ 2^(e+p)`: rounding stays in the closed binade of `a` -/
theorem flAbs_bounds (hρ : IntRnd ρ) {p : ℕ} (hp : 1 ≤ p) {a : ℝ} (ha : 0 < a) :
    (2 : ℝ) ^ (expo p a + ((p : ℤ) - 1)) ≤ flAbs ρ p a ∧ flAbs ρ p a ≤ (2 : ℝ) ^ (expo p a + (p : ℤ)) := by
  obtain ⟨q, rfl⟩ : ∃ q, p = q + 1 := ⟨p - 1, by omega⟩
  obtain ⟨h1, h2⟩ := rho_sig_bounds hρ q ha
  unfold flAbs
  set n := ρ (a / 2 ^ expo (q + 1) a)
  set e := expo (q + 1) a
  have h1' : (2 : ℝ) ^ q ≤ (n : ℝ) := by exact_mod_cast h1
  have h2' : (n : ℝ) ≤ (2 : ℝ) ^ (q + 1) := by exact_mod_cast h2
  have hpos : (0 : ℝ) < 2 ^ e := by positivity
  constructor
  · rw [add_comm, zpow_add₀ (by norm_num)]
    push_cast
    rw [add_sub_cancel_right, zpow_natCast]
    gcongr
  · rw [add_comm, zpow_add₀ (by norm_num), zpow_natCast]
    gcongr

theorem expo_mono (p : ℕ) {a b : ℝ} (ha : 0 < a) (hab : a ≤ b) : expo p a ≤ expo p b := by
  have := Int.log_mono_right (b := 2) ha hab
  unfold expo
  omega

theorem flAbs_mono (hρ : IntRnd ρ) {p : ℕ} (hp : 1 ≤ p) {a b : ℝ} (ha : 0 < a) (hab : a ≤ b) :
    flAbs ρ p a ≤ flAbs ρ p b := by
  have hb : 0 < b := lt_of_lt_of_le ha hab
  rcases (expo_mono p ha hab).lt_or_eq with he | he
  · refine le_trans (flAbs_bounds hρ hp ha).2 (le_trans ?_ (flAbs_bounds hρ hp hb).1)
    exact zpow_le_zpow_right₀ (by norm_num) (by omega)
  · unfold flAbs
    rw [← he]
    have hpos : (0 : ℝ) < 2 ^ expo p a := by positivity
    have : a / 2 ^ expo p a ≤ b / 2 ^ expo p a := by gcongr
    have := hρ.mono this
    have : (ρ (a / 2 ^ expo p a) : ℝ) ≤ (ρ (b / 2 ^ expo p a) : ℝ) := by exact_mod_cast this
    gcongr

theorem flW_mono (hρ : IntRnd ρ) {p : ℕ} (hp : 1 ≤ p) : Monotone (flW ρ p) := by
  intro x y hxy
  unfold flW
  rcases lt_trichotomy x 0 with hx | hx | hx
  · rw [if_neg (by linarith)]
    have h1 := flAbs_nonneg hρ p (a := -x) (by linarith)
    by_cases hy : 0 ≤ y
    · rw [if_pos hy]
      have := flAbs_nonneg hρ p hy
      linarith
    · rw [if_neg hy]
      have := flAbs_mono hρ hp (a := -y) (b := -x) (by linarith) (by linarith)
      linarith
  · subst hx
    rw [if_pos le_rfl, if_pos hxy, flAbs_zero hρ]
    exact flAbs_nonneg hρ p hxy
  · rw [if_pos hx.le, if_pos (by linarith)]
    exact flAbs_mono hρ hp hx hxy

/-! ## round-half-to-even on the integers -/

/-- nearest integer, ties to the even one (IEEE-754 `roundTiesToEven` on a scaled significand) -/
def roundEven (x : ℝ) : ℤ :=
  if 2 * Int.fract x < 1 then ⌊x⌋
  else if 1 < 2 * Int.fract x then ⌊x⌋ + 1
  else if Even ⌊x⌋ then ⌊x⌋ else ⌊x⌋ + 1

theorem floor_le_roundEven (x : ℝ) : ⌊x⌋ ≤ roundEven x := by
  unfold roundEven
  split_ifs <;> omega

theorem roundEven_le_floor_add_one (x : ℝ) : roundEven x ≤ ⌊x⌋ + 1 := by
  unfold roundEven
  split_ifs <;> omega

theorem intRnd_roundEven : IntRnd roundEven where
  err x := by
    have h1 := Int.fract_nonneg x
    have h2 := Int.fract_lt_one x
    have h3 := Int.self_sub_floor x
    unfold roundEven
    rw [abs_le]
    split_ifs <;> push_cast <;> constructor <;> linarith
  mono x y hxy := by
    have hf := Int.floor_mono hxy
    rcases hf.lt_or_eq with hf | hf
    · have := roundEven_le_floor_add_one x
      have := floor_le_roundEven y
      omega
    · have h3 := Int.self_sub_floor x
      have h4 := Int.self_sub_floor y
      have h5 : Int.fract x ≤ Int.fract y := by
        rw [← h3, ← h4, hf]
        linarith
      unfold roundEven
      rw [← hf]
      split_ifs <;> first | omega | (exfalso; linarith)

/-- at an exact tie the result is even -/
theorem roundEven_tie {x : ℝ} (h : 2 * Int.fract x = 1) : Even (roundEven x) := by
  unfold roundEven
  rw [if_neg (by linarith), if_neg (by linarith)]
  split_ifs with he
  · exact he
  · exact Int.even_add_one.mpr he

theorem roundEven_neg (x : ℝ) : roundEven (-x) = -roundEven x := by
  by_cases hx : Int.fract x = 0
  · obtain ⟨z, rfl⟩ : ∃ z : ℤ, x = z := ⟨⌊x⌋, by have := Int.self_sub_floor x; linarith⟩
    rw [← Int.cast_neg, intRnd_roundEven.int, intRnd_roundEven.int]
  · have h1 : Int.fract (-x) = 1 - Int.fract x := Int.fract_neg hx
    have h2 : ⌊-x⌋ = -⌊x⌋ - 1 := by
      rw [Int.floor_eq_iff]
      have := Int.self_sub_floor x
      have := Int.fract_lt_one x
      have := (Int.fract_nonneg x).lt_of_ne' hx
      push_cast
      constructor <;> linarith
    unfold roundEven
    rw [h1, h2]
    have hpar : Even (-⌊x⌋ - 1) ↔ ¬ Even ⌊x⌋ := by
      rw [Int.even_sub, even_neg]
      simp
    split_ifs <;> first | omega | (exfalso; linarith) | (exfalso; tauto)

/-! ## `flW` is a nearest point of `F p` (specification-level characterisation) -/

theorem IntRnd.nearest (h : IntRnd ρ) (x : ℝ) (z : ℤ) : |(ρ x : ℝ) - x| ≤ |(z : ℝ) - x| := by
  by_cases hz : z = ρ x
  · rw [hz]
  · have h1 : (1 : ℝ) ≤ |(z : ℝ) - ρ x| := by
      have : (1 : ℤ) ≤ |z - ρ x| := Int.one_le_abs (sub_ne_zero.mpr hz)
      exact_mod_cast this
    have h2 := h.err x
    have h3 := abs_sub_le (z : ℝ) x (ρ x)
    rw [abs_sub_comm x] at h3
    linarith

/-- no point `z · 2^e` of the grid of `a`'s binade is closer to `a` than `flAbs a` -/
theorem flAbs_grid (hρ : IntRnd ρ) (p : ℕ) (a : ℝ) (z : ℤ) :
    |flAbs ρ p a - a| ≤ |(z : ℝ) * 2 ^ expo p a - a| := by
  set e := expo p a with he
  have hpos : (0 : ℝ) < 2 ^ e := by positivity
  have h1 : flAbs ρ p a - a = ((ρ (a / 2 ^ e) : ℝ) - a / 2 ^ e) * 2 ^ e := by
    unfold flAbs
    rw [← he]
    field_simp
  have h2 : (z : ℝ) * 2 ^ e - a = ((z : ℝ) - a / 2 ^ e) * 2 ^ e := by field_simp
  rw [h1, h2, abs_mul, abs_mul]
  exact mul_le_mul_of_nonneg_right (hρ.nearest _ z) (abs_nonneg _)

/-- a format point is either on the grid `ℤ · 2^e` of `a`'s binade, or strictly farther from `a` than an end point of
    the binade (which is on that grid) -/
theorem F_grid_or_far {p : ℕ} (hp : 1 ≤ p) {a : ℝ} (ha : 0 < a) {y : ℝ} (hy : y ∈ F p) :
    (∃ z : ℤ, y = (z : ℝ) * 2 ^ expo p a) ∨ (∃ z : ℤ, |(z : ℝ) * 2 ^ expo p a - a| < |y - a|) := by
  obtain ⟨q, rfl⟩ : ∃ q, p = q + 1 := ⟨p - 1, by omega⟩
  have hlo := zpow_expo_le (q + 1) ha
  have hhi := lt_zpow_expo (q + 1) a
  set e := expo (q + 1) a with he
  have elo : (2 : ℝ) ^ (e + (((q + 1 : ℕ) : ℤ) - 1)) = (((2 : ℤ) ^ q : ℤ) : ℝ) * 2 ^ e := by
    rw [add_comm, zpow_add₀ (by norm_num)]
    push_cast
    rw [add_sub_cancel_right, zpow_natCast]
  have ehi : (2 : ℝ) ^ (e + ((q + 1 : ℕ) : ℤ)) = (((2 : ℤ) ^ (q + 1) : ℤ) : ℝ) * 2 ^ e := by
    rw [add_comm, zpow_add₀ (by norm_num), zpow_natCast]
    push_cast
    rfl
  by_cases h1 : y ≤ (2 : ℝ) ^ (e + (((q + 1 : ℕ) : ℤ) - 1))
  · rcases h1.lt_or_eq with h1 | h1
    · right
      refine ⟨(2 : ℤ) ^ q, ?_⟩
      rw [← elo, abs_sub_comm _ a, abs_of_nonneg (by linarith), abs_sub_comm y a, abs_of_nonneg (by linarith)]
      linarith
    · left
      exact ⟨(2 : ℤ) ^ q, by rw [h1, elo]⟩
  by_cases h2 : (2 : ℝ) ^ (e + ((q + 1 : ℕ) : ℤ)) ≤ y
  · rcases h2.lt_or_eq with h2 | h2
    · right
      refine ⟨(2 : ℤ) ^ (q + 1), ?_⟩
      rw [← ehi, abs_of_nonneg (by linarith), abs_of_nonneg (by linarith)]
      linarith
    · left
      exact ⟨(2 : ℤ) ^ (q + 1), by rw [← h2, ehi]⟩
  have h1 := lt_of_not_ge h1
  have h2 := lt_of_not_ge h2
  have hy0 : 0 < y := lt_trans (by positivity) h1
  rcases hy with hy | ⟨m, k, _, hm, hk⟩
  · linarith
  rw [abs_of_pos hy0] at hk
  have hke : e ≤ k := by
    by_contra hc
    have hc : k + 1 ≤ e := by omega
    have hm' : (m : ℝ) < (2 : ℝ) ^ (q + 1) := by exact_mod_cast hm
    have : y < (2 : ℝ) ^ (e + (((q + 1 : ℕ) : ℤ) - 1)) := by
      calc y = (m : ℝ) * 2 ^ k := hk
        _ < (2 : ℝ) ^ (q + 1) * 2 ^ k := by gcongr
        _ = (2 : ℝ) ^ (k + 1 + (((q + 1 : ℕ) : ℤ) - 1)) := by
          rw [← zpow_natCast, ← zpow_add₀ (by norm_num)]
          congr 1
          push_cast
          ring
        _ ≤ _ := zpow_le_zpow_right₀ (by norm_num) (by omega)
    linarith
  obtain ⟨n, hn⟩ : ∃ n : ℕ, k = e + n := ⟨(k - e).toNat, by omega⟩
  left
  refine ⟨(m : ℤ) * 2 ^ n, ?_⟩
  rw [hk, hn, zpow_add₀ (by norm_num), zpow_natCast]
  push_cast
  ring

theorem flAbs_nearest (hρ : IntRnd ρ) {p : ℕ} (hp : 1 ≤ p) {a : ℝ} (ha : 0 < a) {y : ℝ} (hy : y ∈ F p) :
    |flAbs ρ p a - a| ≤ |y - a| := by
  rcases F_grid_or_far hp ha hy with ⟨z, rfl⟩ | ⟨z, hz⟩
  · exact flAbs_grid hρ p a z
  · exact le_trans (flAbs_grid hρ p a z) hz.le

/-- **`flW ρ p x` is a point of `F p` nearest to `x`** -/
theorem flW_nearest (hρ : IntRnd ρ) {p : ℕ} (hp : 1 ≤ p) (x : ℝ) {y : ℝ} (hy : y ∈ F p) :
    |flW ρ p x - x| ≤ |y - x| := by
  unfold flW
  rcases lt_trichotomy x 0 with hx | hx | hx
  · rw [if_neg (by linarith)]
    have := flAbs_nearest hρ hp (a := -x) (by linarith) (neg_mem_F hy)
    rw [show -flAbs ρ p (-x) - x = -(flAbs ρ p (-x) - -x) by ring, abs_neg]
    rwa [show -y - -x = -(y - x) by ring, abs_neg] at this
  · subst hx
    simp [flAbs_zero hρ]
  · rw [if_pos hx.le]
    exact flAbs_nearest hρ hp hx hy

/-- rounding stays between any two format points that bracket the argument -/
theorem flW_mem_Icc (hρ : IntRnd ρ) {p : ℕ} (hp : 1 ≤ p) {a b x : ℝ} (ha : a ∈ F p) (hb : b ∈ F p)
    (hx : x ∈ Set.Icc a b) : flW ρ p x ∈ Set.Icc a b := by
  have h1 := flW_mono hρ hp hx.1
  have h2 := flW_mono hρ hp hx.2
  rw [flW_of_mem hρ hp ha] at h1
  rw [flW_of_mem hρ hp hb] at h2
  exact ⟨h1, h2⟩

theorem abs_flW (hρ : IntRnd ρ) (p : ℕ) (x : ℝ) : |flW ρ p x| = flW ρ p |x| := by
  rcases le_total 0 x with h | h
  · rw [abs_of_nonneg h, flW_of_nonneg ρ p h, abs_of_nonneg (flAbs_nonneg hρ p h)]
  · have h' : 0 ≤ -x := by linarith
    rw [abs_of_nonpos h, ← abs_neg, ← flW_neg hρ, flW_of_nonneg ρ p h', abs_of_nonneg (flAbs_nonneg hρ p h')]

theorem mem_F_iff_flW_eq (hρ : IntRnd ρ) {p : ℕ} (hp : 1 ≤ p) (x : ℝ) : x ∈ F p ↔ flW ρ p x = x :=
  ⟨flW_of_mem hρ hp, fun h => h ▸ flW_mem hρ hp x⟩

theorem int_mul_zpow_mem_F {p : ℕ} (hp : 1 ≤ p) (z j : ℤ) (hz : |z| ≤ 2 ^ p) : (z : ℝ) * 2 ^ j ∈ F p :=
  (mem_F_iff_flW_eq intRnd_round hp _).mpr (flW_int_mul_zpow intRnd_round hp z j hz)

theorem two_zpow_mem_F {p : ℕ} (hp : 1 ≤ p) (j : ℤ) : (2 : ℝ) ^ j ∈ F p :=
  (mem_F_iff_flW_eq intRnd_round hp _).mpr (flW_two_zpow intRnd_round hp j)

/-! ## normal ranges of bounded-exponent formats -/

/-- the largest finite number `(2 - 2^(1-p)) · 2^emax` of a binary format with `p`-bit significands -/
def maxFinite (p : ℕ) (emax : ℤ) : ℝ := ((2 : ℝ) - 2 ^ (-((p : ℤ) - 1))) * 2 ^ emax

theorem maxFinite_eq (p : ℕ) (emax : ℤ) :
    maxFinite p emax = (((2 : ℤ) ^ p - 1 : ℤ) : ℝ) * 2 ^ (emax + -((p : ℤ) - 1)) := by
  have ht : (2 : ℝ) ^ p * 2 ^ (-((p : ℤ) - 1)) = 2 := by
    rw [← zpow_natCast, ← zpow_add₀ two_ne_zero]
    have : (p : ℤ) + -((p : ℤ) - 1) = 1 := by ring
    rw [this, zpow_one]
  unfold maxFinite
  rw [zpow_add₀ two_ne_zero]
  push_cast
  linear_combination (-(2 : ℝ) ^ emax) * ht

theorem maxFinite_mem_F {p : ℕ} (hp : 1 ≤ p) (emax : ℤ) : maxFinite p emax ∈ F p := by
  rw [maxFinite_eq]
  refine int_mul_zpow_mem_F hp _ _ ?_
  have : (1 : ℤ) ≤ 2 ^ p := one_le_pow₀ (by norm_num)
  rw [abs_of_nonneg (by omega)]
  omega

/-- magnitudes in `[2^emin, (2 - 2^(1-p)) · 2^emax]`: the normal numbers' range of a format with exponent range
    `emin .. emax` -/
def normalRange (p : ℕ) (emin emax : ℤ) : Set ℝ := {x | (2 : ℝ) ^ emin ≤ |x| ∧ |x| ≤ maxFinite p emax}

/-- **rounding does not leave the normal range** (so no overflow and no underflow is created by `flW` itself) -/
theorem flW_normalRange (hρ : IntRnd ρ) {p : ℕ} (hp : 1 ≤ p) (emin emax : ℤ) {x : ℝ}
    (hx : x ∈ normalRange p emin emax) : flW ρ p x ∈ normalRange p emin emax := by
  have := flW_mem_Icc hρ hp (two_zpow_mem_F hp emin) (maxFinite_mem_F hp emax) (x := |x|) hx
  rw [← abs_flW hρ] at this
  exact this

/-- IEEE-754 binary32: `p = 24`, `emin = -126`, `emax = 127` -/
def normalRange32 : Set ℝ := normalRange 24 (-126) 127
/-- IEEE-754 binary64: `p = 53`, `emin = -1022`, `emax = 1023` -/
def normalRange64 : Set ℝ := normalRange 53 (-1022) 1023

theorem mem_normalRange32 (x : ℝ) :
    x ∈ normalRange32 ↔ (2 : ℝ) ^ (-126 : ℤ) ≤ |x| ∧ |x| ≤ ((2 : ℝ) - 2 ^ (-23 : ℤ)) * 2 ^ (127 : ℤ) := by
  unfold normalRange32 normalRange maxFinite
  norm_num

theorem mem_normalRange64 (x : ℝ) :
    x ∈ normalRange64 ↔ (2 : ℝ) ^ (-1022 : ℤ) ≤ |x| ∧ |x| ≤ ((2 : ℝ) - 2 ^ (-52 : ℤ)) * 2 ^ (1023 : ℤ) := by
  unfold normalRange64 normalRange maxFinite
  norm_num

/-! ## the two tie rules; binary32 and binary64 -/

/-- **round to nearest, ties to even, `p`-bit significand, unbounded exponent** -/
def fl (p : ℕ) : ℝ → ℝ := flW roundEven p

/-- round to nearest, ties away from zero (Mathlib's `round`, which sends ties up, applied to the magnitude) -/
def flA (p : ℕ) : ℝ → ℝ := flW round p

theorem fl_rnd (p : ℕ) : Rnd ((2 : ℝ) ^ (-(p : ℤ))) (fl p) := flW_rnd intRnd_roundEven p
theorem fl_rndIdem {p : ℕ} (hp : 1 ≤ p) : RndIdem ((2 : ℝ) ^ (-(p : ℤ))) (fl p) := flW_rndIdem intRnd_roundEven hp
theorem fl_err (p : ℕ) (x : ℝ) : |fl p x - x| ≤ (2 : ℝ) ^ (-(p : ℤ)) * |x| := flW_err intRnd_roundEven p x
theorem fl_mem {p : ℕ} (hp : 1 ≤ p) (x : ℝ) : fl p x ∈ F p := flW_mem intRnd_roundEven hp x
theorem fl_of_mem {p : ℕ} (hp : 1 ≤ p) {x : ℝ} (hx : x ∈ F p) : fl p x = x := flW_of_mem intRnd_roundEven hp hx
theorem mem_F_iff_fl_eq {p : ℕ} (hp : 1 ≤ p) (x : ℝ) : x ∈ F p ↔ fl p x = x := mem_F_iff_flW_eq intRnd_roundEven hp x
theorem fl_idem {p : ℕ} (hp : 1 ≤ p) (x : ℝ) : fl p (fl p x) = fl p x := flW_idem intRnd_roundEven hp x
theorem fl_mono {p : ℕ} (hp : 1 ≤ p) : Monotone (fl p) := flW_mono intRnd_roundEven hp
theorem fl_neg (p : ℕ) (x : ℝ) : fl p (-x) = -fl p x := flW_neg intRnd_roundEven p x
theorem fl_zero (p : ℕ) : fl p 0 = 0 := flW_zero intRnd_roundEven p
theorem fl_one {p : ℕ} (hp : 1 ≤ p) : fl p 1 = 1 := flW_one intRnd_roundEven hp
theorem fl_intCast {p : ℕ} (hp : 1 ≤ p) (n : ℤ) (hn : |n| ≤ 2 ^ p) : fl p (n : ℝ) = n :=
  flW_intCast intRnd_roundEven hp n hn
theorem fl_int_mul_zpow {p : ℕ} (hp : 1 ≤ p) (z j : ℤ) (hz : |z| ≤ 2 ^ p) :
    fl p ((z : ℝ) * 2 ^ j) = (z : ℝ) * 2 ^ j := flW_int_mul_zpow intRnd_roundEven hp z j hz
theorem fl_two_zpow {p : ℕ} (hp : 1 ≤ p) (j : ℤ) : fl p ((2 : ℝ) ^ j) = 2 ^ j := flW_two_zpow intRnd_roundEven hp j
theorem fl_nearest {p : ℕ} (hp : 1 ≤ p) (x : ℝ) {y : ℝ} (hy : y ∈ F p) : |fl p x - x| ≤ |y - x| :=
  flW_nearest intRnd_roundEven hp x hy
theorem fl_normalRange {p : ℕ} (hp : 1 ≤ p) (emin emax : ℤ) {x : ℝ} (hx : x ∈ normalRange p emin emax) :
    fl p x ∈ normalRange p emin emax := flW_normalRange intRnd_roundEven hp emin emax hx

/-- the tie rule of `fl`: when the scaled significand of `a > 0` is exactly half-way between two integers, the chosen
    integer significand is even -/
theorem fl_tie_even (p : ℕ) {a : ℝ} (ha : 0 ≤ a) (h : 2 * Int.fract (a / 2 ^ expo p a) = 1) :
    ∃ n : ℤ, Even n ∧ fl p a = (n : ℝ) * 2 ^ expo p a :=
  ⟨roundEven (a / 2 ^ expo p a), roundEven_tie h, by rw [fl, flW_of_nonneg _ _ ha, flAbs]⟩

theorem flA_rnd (p : ℕ) : Rnd ((2 : ℝ) ^ (-(p : ℤ))) (flA p) := flW_rnd intRnd_round p
theorem flA_rndIdem {p : ℕ} (hp : 1 ≤ p) : RndIdem ((2 : ℝ) ^ (-(p : ℤ))) (flA p) := flW_rndIdem intRnd_round hp

/-- binary32 / binary64 significands -/
theorem fl24_rnd : Rnd ((2 : ℝ) ^ (-24 : ℤ)) (fl 24) := by simpa using fl_rnd 24
theorem fl53_rnd : Rnd ((2 : ℝ) ^ (-53 : ℤ)) (fl 53) := by simpa using fl_rnd 53
theorem fl24_rndIdem : RndIdem ((2 : ℝ) ^ (-24 : ℤ)) (fl 24) := by
  simpa using fl_rndIdem (p := 24) (by norm_num)
theorem fl53_rndIdem : RndIdem ((2 : ℝ) ^ (-53 : ℤ)) (fl 53) := by
  simpa using fl_rndIdem (p := 53) (by norm_num)

theorem fl24_normalRange {x : ℝ} (hx : x ∈ normalRange32) : fl 24 x ∈ normalRange32 :=
  fl_normalRange (by norm_num) _ _ hx
theorem fl53_normalRange {x : ℝ} (hx : x ∈ normalRange64) : fl 53 x ∈ normalRange64 :=
  fl_normalRange (by norm_num) _ _ hx

/-- **`f32_f64_agree_dot` at genuine round-to-nearest-even roundings** with 24- and 53-bit significands -/
theorem dot_fl24_fl53 (xs ws : List ℝ) :
    |LF.dot (rndOps (fl 24)) xs ws - LF.dot (rndOps (fl 53)) xs ws|
      ≤ (((1 + (2 : ℝ) ^ (-24 : ℤ)) ^ (min xs.length ws.length + 1) - 1)
          + ((1 + (2 : ℝ) ^ (-53 : ℤ)) ^ (min xs.length ws.length + 1) - 1)) * absDot xs ws :=
  f32_f64_agree_dot fl24_rnd fl53_rnd xs ws

/-- the same with the classical exponent `n` (uses `fl_idem`) -/
theorem dot_fl24_fl53_idem (xs ws : List ℝ) :
    |LF.dot (rndOps (fl 24)) xs ws - LF.dot (rndOps (fl 53)) xs ws|
      ≤ (((1 + (2 : ℝ) ^ (-24 : ℤ)) ^ (min xs.length ws.length) - 1)
          + ((1 + (2 : ℝ) ^ (-53 : ℤ)) ^ (min xs.length ws.length) - 1)) * absDot xs ws :=
  f32_f64_agree_dot_idem fl24_rndIdem fl53_rndIdem xs ws

/-! ## uniqueness: `fl` is THE round-to-nearest-even onto `F p` -/

/-- `x` is exactly half-way between two consecutive points of the grid of its binade -/
def IsTie (p : ℕ) (x : ℝ) : Prop := 2 * Int.fract (|x| / 2 ^ expo p |x|) = 1

theorem int_of_near (x : ℝ) (z : ℤ) (hz : |(z : ℝ) - x| ≤ 1 / 2) :
    (2 * Int.fract x < 1 → z = ⌊x⌋) ∧ (1 < 2 * Int.fract x → z = ⌊x⌋ + 1) ∧
      (2 * Int.fract x = 1 → z = ⌊x⌋ ∨ z = ⌊x⌋ + 1) := by
  have h3 := Int.self_sub_floor x
  have h4 := Int.fract_nonneg x
  have h5 := Int.fract_lt_one x
  rw [abs_le] at hz
  refine ⟨fun ht => ?_, fun ht => ?_, fun ht => ?_⟩
  · have h1 : (z : ℝ) < ((⌊x⌋ + 1 : ℤ) : ℝ) := by push_cast; linarith
    have h2 : ((⌊x⌋ - 1 : ℤ) : ℝ) < (z : ℝ) := by push_cast; linarith
    have h1 : z < ⌊x⌋ + 1 := by exact_mod_cast h1
    have h2 : ⌊x⌋ - 1 < z := by exact_mod_cast h2
    omega
  · have h1 : (z : ℝ) < ((⌊x⌋ + 2 : ℤ) : ℝ) := by push_cast; linarith
    have h2 : ((⌊x⌋ : ℤ) : ℝ) < (z : ℝ) := by linarith
    have h1 : z < ⌊x⌋ + 2 := by exact_mod_cast h1
    have h2 : ⌊x⌋ < z := by exact_mod_cast h2
    omega
  · have h1 : (z : ℝ) < ((⌊x⌋ + 2 : ℤ) : ℝ) := by push_cast; linarith
    have h2 : ((⌊x⌋ - 1 : ℤ) : ℝ) < (z : ℝ) := by push_cast; linarith
    have h1 : z < ⌊x⌋ + 2 := by exact_mod_cast h1
    have h2 : ⌊x⌋ - 1 < z := by exact_mod_cast h2
    omega

/-- off ties every integer rounding returns the unique integer within `1/2` -/
theorem IntRnd.unique (h : IntRnd ρ) {x : ℝ} (hx : 2 * Int.fract x ≠ 1) (z : ℤ) (hz : |(z : ℝ) - x| ≤ 1 / 2) :
    z = ρ x := by
  obtain ⟨a1, a2, _⟩ := int_of_near x z hz
  obtain ⟨b1, b2, _⟩ := int_of_near x (ρ x) (h.err x)
  rcases lt_or_gt_of_ne hx with hx | hx
  · rw [a1 hx, b1 hx]
  · rw [a2 hx, b2 hx]

/-- at a tie the even integer within `1/2` is `roundEven` -/
theorem roundEven_unique_tie {x : ℝ} (hx : 2 * Int.fract x = 1) (z : ℤ) (hz : |(z : ℝ) - x| ≤ 1 / 2) (he : Even z) :
    z = roundEven x := by
  obtain ⟨_, _, a3⟩ := int_of_near x z hz
  unfold roundEven
  rw [if_neg (by linarith), if_neg (by linarith)]
  rcases a3 hx with h | h
  · rw [h] at he; rw [if_pos he, h]
  · rw [h] at he
    rw [if_neg (fun h' => (Int.even_add_one.mp he) h'), h]

/-- a format point at least as near to `a > 0` as `flAbs a` is `z · 2^e` with `|z - a/2^e| ≤ 1/2` -/
theorem near_is_grid (hρ : IntRnd ρ) {p : ℕ} (hp : 1 ≤ p) {a : ℝ} (ha : 0 < a) {y : ℝ} (hy : y ∈ F p)
    (hnear : |y - a| ≤ |flAbs ρ p a - a|) :
    ∃ z : ℤ, y = (z : ℝ) * 2 ^ expo p a ∧ |(z : ℝ) - a / 2 ^ expo p a| ≤ 1 / 2 := by
  rcases F_grid_or_far hp ha hy with ⟨z, rfl⟩ | ⟨z, hz⟩
  · refine ⟨z, rfl, ?_⟩
    set e := expo p a with he
    have hpos : (0 : ℝ) < 2 ^ e := by positivity
    have h1 : flAbs ρ p a - a = ((ρ (a / 2 ^ e) : ℝ) - a / 2 ^ e) * 2 ^ e := by
      unfold flAbs
      rw [← he]
      field_simp
    have h2 : (z : ℝ) * 2 ^ e - a = ((z : ℝ) - a / 2 ^ e) * 2 ^ e := by field_simp
    rw [h1, h2, abs_mul, abs_mul, abs_of_pos hpos] at hnear
    have := le_of_mul_le_mul_right hnear hpos
    exact le_trans this (hρ.err _)
  · have := flAbs_grid hρ p a z
    linarith

/-- off ties the nearest format point is unique, so every tie rule gives the same value -/
theorem flAbs_unique (hρ : IntRnd ρ) {p : ℕ} (hp : 1 ≤ p) {a : ℝ} (ha : 0 < a)
    (hne : 2 * Int.fract (a / 2 ^ expo p a) ≠ 1) {y : ℝ} (hy : y ∈ F p) (hnear : |y - a| ≤ |flAbs ρ p a - a|) :
    y = flAbs ρ p a := by
  obtain ⟨z, rfl, hz⟩ := near_is_grid hρ hp ha hy hnear
  unfold flAbs
  rw [hρ.unique hne z hz]

theorem abs_grid_even {z n e : ℤ} (h : |(z : ℝ) * 2 ^ e| = (n : ℝ) * 2 ^ e) (hn : Even n) : Even z := by
  have hpos : (0 : ℝ) < 2 ^ e := by positivity
  rw [abs_mul, abs_of_pos hpos] at h
  have := mul_right_cancel₀ hpos.ne' h
  have : |z| = n := by exact_mod_cast this
  rw [← this] at hn
  exact even_abs.mp hn

/-- ... and at a tie the nearest format point with an even significand is `fl` -/
theorem flAbs_roundEven_unique {p : ℕ} (hp : 1 ≤ p) {a : ℝ} (ha : 0 < a) {y : ℝ} (hy : y ∈ F p)
    (hnear : |y - a| ≤ |flAbs roundEven p a - a|)
    (htie : 2 * Int.fract (a / 2 ^ expo p a) = 1 → ∃ n : ℤ, Even n ∧ |y| = (n : ℝ) * 2 ^ expo p a) :
    y = flAbs roundEven p a := by
  by_cases hne : 2 * Int.fract (a / 2 ^ expo p a) = 1
  · obtain ⟨z, rfl, hz⟩ := near_is_grid intRnd_roundEven hp ha hy hnear
    obtain ⟨n, hn, h⟩ := htie hne
    unfold flAbs
    rw [roundEven_unique_tie hne z hz (abs_grid_even h hn)]
  · exact flAbs_unique intRnd_roundEven hp ha hne hy hnear

/-- **specification of `fl`**: `fl p x` is in the format, is a nearest format point, and at a tie has an even
    integer significand (`|fl p x| = n · 2^e`, `n` even, `e` the exponent of `x`) -/
theorem fl_spec {p : ℕ} (hp : 1 ≤ p) (x : ℝ) :
    fl p x ∈ F p ∧ (∀ y ∈ F p, |fl p x - x| ≤ |y - x|) ∧
      (IsTie p x → ∃ n : ℤ, Even n ∧ |fl p x| = (n : ℝ) * 2 ^ expo p |x|) := by
  refine ⟨fl_mem hp x, fun y hy => fl_nearest hp x hy, fun h => ?_⟩
  obtain ⟨n, hn, h'⟩ := fl_tie_even p (abs_nonneg x) h
  exact ⟨n, hn, by rw [fl, abs_flW intRnd_roundEven]; exact h'⟩

/-- **the specification determines `fl`**: any `y` in the format that is nearest to `x` and, at a tie, has an even
    integer significand, equals `fl p x`.  So `fl p` is the unique round-to-nearest-even onto `F p`. -/
theorem fl_unique {p : ℕ} (hp : 1 ≤ p) (x : ℝ) {y : ℝ} (hy : y ∈ F p) (hnear : ∀ y' ∈ F p, |y - x| ≤ |y' - x|)
    (htie : IsTie p x → ∃ n : ℤ, Even n ∧ |y| = (n : ℝ) * 2 ^ expo p |x|) : y = fl p x := by
  have h0 := hnear _ (fl_mem hp x)
  unfold fl flW at h0 ⊢
  unfold IsTie at htie
  rcases lt_trichotomy x 0 with hx | hx | hx
  · rw [if_neg (by linarith)] at h0 ⊢
    rw [abs_of_neg hx] at htie
    have h1 : |-y - -x| ≤ |flAbs roundEven p (-x) - -x| := by
      rw [show -y - -x = -(y - x) by ring, abs_neg]
      rwa [show -flAbs roundEven p (-x) - x = -(flAbs roundEven p (-x) - -x) by ring, abs_neg] at h0
    have := flAbs_roundEven_unique hp (a := -x) (by linarith) (neg_mem_F hy) h1 (by rwa [abs_neg])
    linarith
  · subst hx
    rw [if_pos le_rfl, flAbs_zero intRnd_roundEven] at h0 ⊢
    simpa using h0
  · rw [if_pos hx.le] at h0 ⊢
    rw [abs_of_pos hx] at htie
    exact flAbs_roundEven_unique hp hx hy h0 htie

/-- off ties the tie rule is irrelevant: all `flW ρ p` agree -/
theorem flW_eq_of_not_tie {ρ ρ' : ℝ → ℤ} (hρ : IntRnd ρ) (hρ' : IntRnd ρ') {p : ℕ} (hp : 1 ≤ p) {x : ℝ}
    (hx : ¬ IsTie p x) : flW ρ p x = flW ρ' p x := by
  unfold IsTie at hx
  unfold flW
  rcases lt_trichotomy x 0 with h | h | h
  · rw [if_neg (by linarith), if_neg (by linarith)]
    rw [abs_of_neg h] at hx
    have h' : 0 < -x := by linarith
    rw [flAbs_unique hρ' hp h' hx (flAbs_mem hρ hp h') (flAbs_nearest hρ hp h' (flAbs_mem hρ' hp h'))]
  · subst h
    rw [if_pos le_rfl, if_pos le_rfl, flAbs_zero hρ, flAbs_zero hρ']
  · rw [if_pos h.le, if_pos h.le]
    rw [abs_of_pos h] at hx
    exact flAbs_unique hρ' hp h hx (flAbs_mem hρ hp h) (flAbs_nearest hρ hp h (flAbs_mem hρ' hp h))

theorem fl_eq_flA_of_not_tie {p : ℕ} (hp : 1 ≤ p) {x : ℝ} (hx : ¬ IsTie p x) : fl p x = flA p x :=
  flW_eq_of_not_tie intRnd_roundEven intRnd_round hp hx

/-! ## bounded-exponent formats (IEEE-754 interchange formats) on their normal range -/

/-- all finite numbers of the binary format with `p`-bit significands and exponent range `emin .. emax`:
    `± m · 2^k`, `m < 2^p`, `emin - (p-1) ≤ k ≤ emax - (p-1)` (zero, subnormal and normal numbers) -/
def finiteFormat (p : ℕ) (emin emax : ℤ) : Set ℝ :=
  {x | ∃ (m : ℕ) (k : ℤ), m < 2 ^ p ∧ emin - ((p : ℤ) - 1) ≤ k ∧ k ≤ emax - ((p : ℤ) - 1) ∧ |x| = (m : ℝ) * 2 ^ k}

theorem finiteFormat_subset_F {p : ℕ} (hp : 1 ≤ p) (emin emax : ℤ) : finiteFormat p emin emax ⊆ F p := by
  rintro x ⟨m, k, hm, _, _, hx⟩
  have h1 : ((m : ℤ) : ℝ) * 2 ^ k ∈ F p :=
    int_mul_zpow_mem_F hp m k (by rw [abs_of_nonneg (by positivity)]; exact_mod_cast hm.le)
  rw [Int.cast_natCast, ← hx] at h1
  rcases le_total 0 x with h | h
  · rwa [abs_of_nonneg h] at h1
  · rw [abs_of_nonpos h] at h1
    simpa using neg_mem_F h1

theorem maxFinite_lt (p : ℕ) (emax : ℤ) : maxFinite p emax < 2 ^ (emax + 1) := by
  unfold maxFinite
  rw [zpow_add_one₀ two_ne_zero]
  have h1 : (0 : ℝ) < 2 ^ (-((p : ℤ) - 1)) := by positivity
  have h2 : (0 : ℝ) < 2 ^ emax := by positivity
  nlinarith

/-- in the normal range the bounded format and the unbounded one have the same points -/
theorem mem_finiteFormat_of_normal {p : ℕ} (hp : 1 ≤ p) (emin emax : ℤ) {y : ℝ} (hy : y ∈ F p)
    (hr : y ∈ normalRange p emin emax) : y ∈ finiteFormat p emin emax := by
  obtain ⟨hr1, hr2⟩ := hr
  rcases hy with hy | ⟨m, k, hm1, hm2, hk⟩
  · rw [hy, abs_zero] at hr1
    have : (0 : ℝ) < 2 ^ emin := by positivity
    linarith
  refine ⟨m, k, hm2, ?_, ?_, hk⟩
  · have hm' : (m : ℝ) < (2 : ℝ) ^ p := by exact_mod_cast hm2
    have : (2 : ℝ) ^ emin < 2 ^ ((p : ℤ) + k) := by
      calc (2 : ℝ) ^ emin ≤ (m : ℝ) * 2 ^ k := by rw [← hk]; exact hr1
        _ < (2 : ℝ) ^ p * 2 ^ k := by gcongr
        _ = _ := by rw [zpow_add₀ two_ne_zero, zpow_natCast]
    have := (zpow_lt_zpow_iff_right₀ (by norm_num : (1 : ℝ) < 2)).mp this
    omega
  · have hm' : (2 : ℝ) ^ (p - 1) ≤ (m : ℝ) := by exact_mod_cast hm1
    have : (2 : ℝ) ^ (((p - 1 : ℕ) : ℤ) + k) < 2 ^ (emax + 1) := by
      calc (2 : ℝ) ^ (((p - 1 : ℕ) : ℤ) + k) = (2 : ℝ) ^ (p - 1) * 2 ^ k := by
            rw [zpow_add₀ two_ne_zero, zpow_natCast]
        _ ≤ (m : ℝ) * 2 ^ k := by gcongr
        _ ≤ maxFinite p emax := by rw [← hk]; exact hr2
        _ < _ := maxFinite_lt p emax
    have := (zpow_lt_zpow_iff_right₀ (by norm_num : (1 : ℝ) < 2)).mp this
    omega

/-- **IEEE-754 `roundTiesToEven` on the normal range is `fl`.**  Let `x` be a real whose magnitude lies in the normal
    range of the format `(p, emin, emax)`.  If `y` is a finite number of that format, no finite number of the format is
    nearer to `x`, and — should `x` be a tie — `y` has an even integer significand, then `y = fl p x`.
    These three hypotheses are the text of IEEE 754-2019 §4.3.1 (`roundTiesToEven`) for a result that does not
    overflow; nothing about the exponent range is left to trust. -/
theorem ieee_rne_eq_fl {p : ℕ} (hp : 1 ≤ p) (emin emax : ℤ) {x : ℝ} (hx : x ∈ normalRange p emin emax) {y : ℝ}
    (hy : y ∈ finiteFormat p emin emax) (hnear : ∀ y' ∈ finiteFormat p emin emax, |y - x| ≤ |y' - x|)
    (htie : IsTie p x → ∃ n : ℤ, Even n ∧ |y| = (n : ℝ) * 2 ^ expo p |x|) : y = fl p x := by
  have hfl : fl p x ∈ finiteFormat p emin emax :=
    mem_finiteFormat_of_normal hp emin emax (fl_mem hp x) (fl_normalRange hp emin emax hx)
  refine fl_unique hp x (finiteFormat_subset_F hp emin emax hy) (fun y' hy' => ?_) htie
  exact le_trans (hnear _ hfl) (fl_nearest hp x hy')

/-- `fl p x` itself meets the IEEE specification on the normal range (existence side of `ieee_rne_eq_fl`) -/
theorem fl_is_ieee_rne {p : ℕ} (hp : 1 ≤ p) (emin emax : ℤ) {x : ℝ} (hx : x ∈ normalRange p emin emax) :
    fl p x ∈ finiteFormat p emin emax ∧ (∀ y' ∈ finiteFormat p emin emax, |fl p x - x| ≤ |y' - x|) ∧
      (IsTie p x → ∃ n : ℤ, Even n ∧ |fl p x| = (n : ℝ) * 2 ^ expo p |x|) :=
  ⟨mem_finiteFormat_of_normal hp emin emax (fl_mem hp x) (fl_normalRange hp emin emax hx),
    fun _ hy' => fl_nearest hp x (finiteFormat_subset_F hp emin emax hy'), (fl_spec hp x).2.2⟩

/-- the finite binary32 / binary64 numbers -/
def binary32 : Set ℝ := finiteFormat 24 (-126) 127
def binary64 : Set ℝ := finiteFormat 53 (-1022) 1023

/-! ## what remains trusted -/

/-- `rne : ℝ → ℝ` **agrees with `fl p` on the normal range** (and at `0`).  For `rne` = "the value of the IEEE-754
    binary32 (resp. binary64) datum obtained by rounding the real `x` with `roundTiesToEven`" this is a THEOREM given
    the IEEE specification of `rne` (`ieee_rne_eq_fl`).  What stays outside Lean, because `Float`/`Float32` are
    opaque: that each primitive of the driver (`+ - * / sqrt`, conversions) returns `rne` of the exact real result
    (IEEE-754 conformance of the hardware and of Lean's runtime; for `exp log tanh …` only faithful-ish rounding with
    a few ulp holds, covered by enlarging `u`), and that no intermediate result leaves the normal range (no overflow,
    no subnormal result; exact zeros are allowed). -/
def AgreesOnNormal (p : ℕ) (emin emax : ℤ) (rne : ℝ → ℝ) : Prop :=
  ∀ x, x = 0 ∨ x ∈ normalRange p emin emax → rne x = fl p x

/-- the trusted sentence for binary32 / binary64 -/
def Trusted32 (rne32 : ℝ → ℝ) : Prop := AgreesOnNormal 24 (-126) 127 rne32
def Trusted64 (rne64 : ℝ → ℝ) : Prop := AgreesOnNormal 53 (-1022) 1023 rne64

/-- a rounding that meets the IEEE specification of `roundTiesToEven` on the normal range and is exact at `0`
    satisfies the trusted sentence -/
theorem agreesOnNormal_of_spec {p : ℕ} (hp : 1 ≤ p) (emin emax : ℤ) (rne : ℝ → ℝ) (h0 : rne 0 = 0)
    (hmem : ∀ x ∈ normalRange p emin emax, rne x ∈ finiteFormat p emin emax)
    (hnear : ∀ x ∈ normalRange p emin emax, ∀ y' ∈ finiteFormat p emin emax, |rne x - x| ≤ |y' - x|)
    (htie : ∀ x ∈ normalRange p emin emax, IsTie p x → ∃ n : ℤ, Even n ∧ |rne x| = (n : ℝ) * 2 ^ expo p |x|) :
    AgreesOnNormal p emin emax rne := by
  rintro x (rfl | hx)
  · rw [h0, fl_zero]
  · exact ieee_rne_eq_fl hp emin emax hx (hmem x hx) (hnear x hx) (htie x hx)

/-- consequence used by C19: on the normal range (and at `0`) such an `rne` has relative error at most `2^-p` -/
theorem AgreesOnNormal.err {p : ℕ} {emin emax : ℤ} {rne : ℝ → ℝ} (h : AgreesOnNormal p emin emax rne) {x : ℝ}
    (hx : x = 0 ∨ x ∈ normalRange p emin emax) : |rne x - x| ≤ (2 : ℝ) ^ (-(p : ℤ)) * |x| := by
  rw [h x hx]
  exact fl_err p x

/-! ## a tie, worked out: `1 + 2^-p` (half an ulp above `1`) -/

theorem expo_one_add (q : ℕ) : expo (q + 1) (1 + (2 : ℝ) ^ (-((q + 1 : ℕ) : ℤ))) = -(q : ℤ) := by
  have hpos : (0 : ℝ) < 2 ^ (-((q + 1 : ℕ) : ℤ)) := by positivity
  have hlt : (2 : ℝ) ^ (-((q + 1 : ℕ) : ℤ)) < 1 := zpow_lt_one_of_neg₀ (by norm_num) (by push_cast; omega)
  have ha : (0 : ℝ) < 1 + 2 ^ (-((q + 1 : ℕ) : ℤ)) := by linarith
  apply le_antisymm
  · apply expo_le_of_lt _ ha
    have : -(q : ℤ) + ((q + 1 : ℕ) : ℤ) = 1 := by push_cast; ring
    rw [this, zpow_one]
    linarith
  · apply le_expo_of_le _ ha
    have : -(q : ℤ) + (((q + 1 : ℕ) : ℤ) - 1) = 0 := by push_cast; ring
    rw [this, zpow_zero]
    linarith

theorem flAbs_one_add (ρ : ℝ → ℤ) (q : ℕ) :
    flAbs ρ (q + 1) (1 + (2 : ℝ) ^ (-((q + 1 : ℕ) : ℤ))) = (ρ ((((2 : ℤ) ^ q : ℤ) : ℝ) + 1 / 2) : ℝ) * 2 ^ (-(q : ℤ)) := by
  unfold flAbs
  rw [expo_one_add]
  have : (1 + (2 : ℝ) ^ (-((q + 1 : ℕ) : ℤ))) / 2 ^ (-(q : ℤ)) = (((2 : ℤ) ^ q : ℤ) : ℝ) + 1 / 2 := by
    have h1 : (2 : ℝ) ^ (-((q + 1 : ℕ) : ℤ)) = 2 ^ (-(q : ℤ)) * (1 / 2) := by
      push_cast
      rw [neg_add, zpow_add₀ two_ne_zero]
      norm_num
    have h2 : (2 : ℝ) ^ (-(q : ℤ)) * 2 ^ q = 1 := by
      rw [← zpow_natCast, ← zpow_add₀ two_ne_zero]
      simp
    have hpos : (0 : ℝ) < 2 ^ (-(q : ℤ)) := by positivity
    rw [h1, div_eq_iff hpos.ne']
    push_cast
    linear_combination (-1 : ℝ) * h2
  rw [this]

theorem roundEven_int_add_half (z : ℤ) : roundEven ((z : ℝ) + 1 / 2) = if Even z then z else z + 1 := by
  have hf : ⌊(z : ℝ) + 1 / 2⌋ = z := by
    rw [Int.floor_eq_iff]
    constructor <;> linarith
  have hr : Int.fract ((z : ℝ) + 1 / 2) = 1 / 2 := by
    have := Int.self_sub_floor ((z : ℝ) + 1 / 2)
    rw [hf] at this
    linarith
  unfold roundEven
  rw [hr, hf]
  norm_num

theorem round_int_add_half (z : ℤ) : round ((z : ℝ) + 1 / 2) = z + 1 := by
  rw [round_eq, Int.floor_eq_iff]
  push_cast
  constructor <;> linarith

/-- ties-to-even: `1 + 2^-p`, half-way between `1` and `1 + 2^(1-p)`, rounds DOWN to `1` (significand `2^(p-1)` even),
    so the bound of `fl_err` is attained up to the factor `1 + 2^-p`, and `fl p ≠ id` -/
theorem fl_one_add_half_ulp {p : ℕ} (hp : 2 ≤ p) : fl p (1 + (2 : ℝ) ^ (-(p : ℤ))) = 1 := by
  obtain ⟨q, rfl⟩ : ∃ q, p = q + 1 := ⟨p - 1, by omega⟩
  have hpos : (0 : ℝ) < 2 ^ (-((q + 1 : ℕ) : ℤ)) := by positivity
  rw [fl, flW_of_nonneg _ _ (by linarith), flAbs_one_add, roundEven_int_add_half]
  have : Even ((2 : ℤ) ^ q) := (Int.even_pow' (by omega)).mpr (by norm_num)
  rw [if_pos this]
  push_cast
  rw [← zpow_natCast, ← zpow_add₀ two_ne_zero]
  simp

/-- ties-away: the same argument rounds UP to `1 + 2^(1-p)` under `flA`; the two tie rules differ exactly at ties -/
theorem flA_one_add_half_ulp {p : ℕ} (hp : 1 ≤ p) :
    flA p (1 + (2 : ℝ) ^ (-(p : ℤ))) = 1 + 2 ^ (-((p : ℤ) - 1)) := by
  obtain ⟨q, rfl⟩ : ∃ q, p = q + 1 := ⟨p - 1, by omega⟩
  have hpos : (0 : ℝ) < 2 ^ (-((q + 1 : ℕ) : ℤ)) := by positivity
  rw [flA, flW_of_nonneg _ _ (by linarith), flAbs_one_add, round_int_add_half]
  push_cast
  rw [add_sub_cancel_right, add_mul, one_mul, ← zpow_natCast, ← zpow_add₀ two_ne_zero]
  simp

theorem fl_ne_id {p : ℕ} (hp : 2 ≤ p) : fl p ≠ id := by
  intro h
  have h1 := fl_one_add_half_ulp hp
  rw [h] at h1
  have hpos : (0 : ℝ) < 2 ^ (-(p : ℤ)) := by positivity
  simp only [id] at h1
  linarith

/-! ## the tie clause in IEEE's own terms: the NORMALISED significand is even -/

theorem expo_normalised {p : ℕ} (hp : 1 ≤ p) (m : ℕ) (k : ℤ) (h1 : 2 ^ (p - 1) ≤ m) (h2 : m < 2 ^ p) :
    expo p ((m : ℝ) * 2 ^ k) = k := by
  have h1' : (2 : ℝ) ^ (p - 1) ≤ (m : ℝ) := by exact_mod_cast h1
  have h2' : (m : ℝ) < (2 : ℝ) ^ p := by exact_mod_cast h2
  have hm : (0 : ℝ) < m := lt_of_lt_of_le (by positivity) h1'
  have ha : (0 : ℝ) < (m : ℝ) * 2 ^ k := by positivity
  apply le_antisymm
  · apply expo_le_of_lt p ha
    rw [add_comm, zpow_add₀ two_ne_zero, zpow_natCast]
    gcongr
  · apply le_expo_of_le p ha
    have : ((p : ℤ) - 1) = ((p - 1 : ℕ) : ℤ) := by omega
    rw [this, add_comm, zpow_add₀ two_ne_zero, zpow_natCast]
    gcongr

theorem tie_even_of_normalised {p : ℕ} (hp : 2 ≤ p) {a : ℝ} (ha : 0 < a) {y : ℝ} {z : ℤ}
    (hyz : y = (z : ℝ) * 2 ^ expo p a) (hz : |(z : ℝ) - a / 2 ^ expo p a| ≤ 1 / 2)
    (hN : ∃ (m : ℕ) (k : ℤ), 2 ^ (p - 1) ≤ m ∧ m < 2 ^ p ∧ Even m ∧ |y| = (m : ℝ) * 2 ^ k) :
    ∃ n : ℤ, Even n ∧ |y| = (n : ℝ) * 2 ^ expo p a := by
  obtain ⟨q, rfl⟩ : ∃ q, p = q + 1 := ⟨p - 1, by omega⟩
  have s1 := sig_ge (q + 1) ha
  have s2 := sig_lt (q + 1) a
  set e := expo (q + 1) a with he
  rw [abs_le] at hz
  have e1 : (2 : ℝ) ^ (((q + 1 : ℕ) : ℤ) - 1) = (((2 : ℤ) ^ q : ℤ) : ℝ) := by
    push_cast
    rw [add_sub_cancel_right, zpow_natCast]
  have e2 : (2 : ℝ) ^ ((q + 1 : ℕ) : ℤ) = (((2 : ℤ) ^ (q + 1) : ℤ) : ℝ) := by
    rw [zpow_natCast]
    push_cast
    rfl
  rw [e1] at s1
  rw [e2] at s2
  have z1 : (2 : ℤ) ^ q ≤ z := by
    have : (((2 : ℤ) ^ q - 1 : ℤ) : ℝ) < (z : ℝ) := by push_cast at s1 ⊢; linarith
    have : (2 : ℤ) ^ q - 1 < z := by exact_mod_cast this
    omega
  have z2 : z ≤ (2 : ℤ) ^ (q + 1) := by
    have : (z : ℝ) < (((2 : ℤ) ^ (q + 1) + 1 : ℤ) : ℝ) := by push_cast at s2 ⊢; linarith
    have : z < (2 : ℤ) ^ (q + 1) + 1 := by exact_mod_cast this
    omega
  have z0 : 0 < z := lt_of_lt_of_le (by positivity) z1
  have hy : |y| = (z : ℝ) * 2 ^ e := by
    have : (0 : ℝ) < z := by exact_mod_cast z0
    rw [hyz, abs_of_pos (by positivity)]
  refine ⟨z, ?_, hy⟩
  rcases z2.lt_or_eq with z2 | z2
  · obtain ⟨m, k, hm1, hm2, hme, hmk⟩ := hN
    have k1 := expo_normalised (by omega : 1 ≤ q + 1) m k hm1 hm2
    have k2 := expo_normalised (by omega : 1 ≤ q + 1) z.toNat e
      (by simp only [Nat.add_sub_cancel]; zify; rw [Int.toNat_of_nonneg z0.le]; exact z1)
      (by zify; rw [Int.toNat_of_nonneg z0.le]; exact z2)
    have hzc : ((z.toNat : ℕ) : ℝ) = (z : ℝ) := by
      have : ((z.toNat : ℤ) : ℝ) = (z : ℝ) := by rw [Int.toNat_of_nonneg z0.le]
      exact_mod_cast this
    rw [hzc, ← hy, hmk, k1] at k2
    rw [k2] at hmk
    have hpos : (0 : ℝ) < 2 ^ e := by positivity
    have : (z : ℝ) = (m : ℝ) := mul_right_cancel₀ hpos.ne' (hy.symm.trans hmk)
    have : z = (m : ℤ) := by exact_mod_cast this
    rw [this]
    exact (Int.even_coe_nat m).mpr hme
  · rw [z2]
    exact (Int.even_pow' (by omega)).mpr (by norm_num)

theorem abs_mem_F {p : ℕ} {y : ℝ} (hy : y ∈ F p) : |y| ∈ F p := by
  rcases le_total 0 y with h | h
  · rwa [abs_of_nonneg h]
  · rw [abs_of_nonpos h]; exact neg_mem_F hy

theorem abs_flW_sub (ρ : ℝ → ℤ) (p : ℕ) (x : ℝ) : |flW ρ p x - x| = abs (flAbs ρ p |x| - |x|) := by
  unfold flW
  rcases le_or_gt 0 x with h | h
  · rw [if_pos h, abs_of_nonneg h]
  · rw [if_neg (by linarith), abs_of_neg h,
      show -flAbs ρ p (-x) - x = -(flAbs ρ p (-x) - -x) by ring, abs_neg]

/-- **`fl_unique` with the tie clause as in IEEE 754 §4.3.1** (`p ≥ 2`): at a tie the candidate's normalised
    `p`-bit significand `m` (`2^(p-1) ≤ m < 2^p`, `|y| = m · 2^k`) is even -/
theorem fl_unique_normalised {p : ℕ} (hp : 2 ≤ p) (x : ℝ) {y : ℝ} (hy : y ∈ F p)
    (hnear : ∀ y' ∈ F p, |y - x| ≤ |y' - x|)
    (htie : IsTie p x → ∃ (m : ℕ) (k : ℤ), 2 ^ (p - 1) ≤ m ∧ m < 2 ^ p ∧ Even m ∧ |y| = (m : ℝ) * 2 ^ k) :
    y = fl p x := by
  have hp1 : 1 ≤ p := by omega
  refine fl_unique hp1 x hy hnear (fun ht => ?_)
  have hx : 0 < |x| := by
    rcases eq_or_ne x 0 with h | h
    · exfalso
      unfold IsTie at ht
      rw [h] at ht
      simp at ht
    · exact abs_pos.mpr h
  have h1 : abs (|y| - |x|) ≤ abs (flAbs roundEven p |x| - |x|) := by
    rw [← abs_flW_sub roundEven]
    exact le_trans (abs_abs_sub_abs_le y x) (hnear _ (flW_mem intRnd_roundEven hp1 x))
  obtain ⟨z, hz1, hz2⟩ := near_is_grid intRnd_roundEven hp1 hx (abs_mem_F hy) h1
  have := tie_even_of_normalised hp hx hz1 hz2 (by rw [abs_abs]; exact htie ht)
  rwa [abs_abs] at this

/-- `ieee_rne_eq_fl` with the tie clause in IEEE's terms -/
theorem ieee_rne_eq_fl_normalised {p : ℕ} (hp : 2 ≤ p) (emin emax : ℤ) {x : ℝ} (hx : x ∈ normalRange p emin emax)
    {y : ℝ} (hy : y ∈ finiteFormat p emin emax) (hnear : ∀ y' ∈ finiteFormat p emin emax, |y - x| ≤ |y' - x|)
    (htie : IsTie p x → ∃ (m : ℕ) (k : ℤ), 2 ^ (p - 1) ≤ m ∧ m < 2 ^ p ∧ Even m ∧ |y| = (m : ℝ) * 2 ^ k) :
    y = fl p x := by
  have hp1 : 1 ≤ p := by omega
  have hfl : fl p x ∈ finiteFormat p emin emax :=
    mem_finiteFormat_of_normal hp1 emin emax (fl_mem hp1 x) (fl_normalRange hp1 emin emax hx)
  refine fl_unique_normalised hp x (finiteFormat_subset_F hp1 emin emax hy) (fun y' hy' => ?_) htie
  exact le_trans (hnear _ hfl) (fl_nearest hp1 x hy')

end
end RoundNearest
