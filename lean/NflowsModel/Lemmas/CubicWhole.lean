import NflowsModel.Lemmas.SplineTotal
import NflowsModel.Lemmas.ExecGlue
import NflowsModel.Lemmas.RQWhole
import NflowsModel.Real.Bridge
import NflowsModel.Lemmas.Cubic
import Mathlib.Analysis.Calculus.Deriv.MeanValue
import Mathlib.Analysis.Calculus.Deriv.Comp
import Mathlib.Data.List.GetD
import Mathlib.Topology.Order.IntermediateValue
/-!
# Lemmas/CubicWhole — the EXECUTED piecewise-cubic (monotone Hermite) spline, forward, as a function on the whole box

`cubicSpline (realX e) c uw uh udl udr false` is the list program the driver runs at `Float`/`Float32`, instantiated at ℝ.
For every accepted configuration (`CubicValid`) and all unnormalised parameter vectors this file proves, about that
program itself (domain guard, size guards, normalisation of the input, floored softmax, cumsum, pinned knots, slopes,
Steffen-style knot derivatives via `minPair`/`ms2f`, sigmoid end derivatives, per-bin coefficients, search, the seven
gathers, closed form, clamp, rescaling to the box):

* `cubicSpline_unfold` (by `rfl`): the program is the named-list normal form used below;
* `exec_eq_bin` / `exec_total`: it returns a value for every `x ∈ [left, right]` (both slope gathers and all seven bin
  gathers are in range), and that value is the closed form of the searched bin;
* `dv_end_left`, `dv_end_right`, `dv_interior`, `dv_interior_range`, `dv_range`: the knot derivatives in closed form and in
  the monotone (Fritsch–Carlson) region `0 < d < 3·s` of both adjacent bins;
* `cws_succ`, `chs_succ`, `bin_endpoints`, `bin_strictMonoOn`, `binD_pos`, `binD_knots`: consecutive knots differ by the
  width/height, bin polynomials interpolate the `cumh` knots, strictly increase, and join C¹;
* `clamp_inactive`, `val_strictMonoOn`, `val_endpoints`, `val_mapsTo`, `val_continuousOn`, `val_bijOn`, `val_knot`: the clamp is
  the identity in the domain, the value function is a strictly increasing bijection `[left,right] → [bottom,top]`;
* `val_hasDerivAt_all` (and the per-bin form `val_hasDerivAt`): at every point of the open box, interior knots included,
  the derivative of the value is `exp` of the returned log-abs-det.
-/
open NF DualSound

namespace CubicWhole
noncomputable section
variable (e : Float → ℝ)

/-- an accepted configuration, with the reading `e` of the Python doubles exact on the expressions the code forms -/
structure CubicValid (c : CCfg) (uw uh : List ℝ) : Prop where
  hK : uw ≠ []
  hlenh : uh.length = uw.length
  hgW : ¬ (c.minW * uw.length.toFloat > 1.0)
  hgH : ¬ (c.minH * uw.length.toFloat > 1.0)
  hmW0 : 0 ≤ e c.minW
  hcW : e (1 - c.minW * uw.length.toFloat) = 1 - e c.minW * uw.length
  hmWK : e c.minW * uw.length ≤ 1
  hmH0 : 0 ≤ e c.minH
  hcH : e (1 - c.minH * uh.length.toFloat) = 1 - e c.minH * uh.length
  hmHK : e c.minH * uh.length ≤ 1
  hlr : e c.box.left < e c.box.right
  hdlr : e (c.box.right - c.box.left) = e c.box.right - e c.box.left
  hbt : e c.box.bottom < e c.box.top
  hdbt : e (c.box.top - c.box.bottom) = e c.box.top - e c.box.bottom
  hseps : 0 < e c.seps
  /-- the literal `0.5` of `0.5 * (w[1:]*s[:-1] + w[:-1]*s[1:]) / (w[:-1] + w[1:])`: only its sign matters -/
  hhalf : 0 < e 0.5

/-! ### the lists of the program, named (each is literally the sub-term of `cubicSpline`) -/

def W (c : CCfg) (uw : List ℝ) : List ℝ := flooredSoftmax (NF.realX e) c.minW uw
def H (c : CCfg) (uh : List ℝ) : List ℝ := flooredSoftmax (NF.realX e) c.minH uh
def cumw (c : CCfg) (uw : List ℝ) : List ℝ :=
  (NF.realX e).zero :: setLast (cumsumG (NF.realX e) (W e c uw)) (NF.realX e).one
def cumh (c : CCfg) (uh : List ℝ) : List ℝ :=
  (NF.realX e).zero :: setLast (cumsumG (NF.realX e) (H e c uh)) (NF.realX e).one
def slopes (c : CCfg) (uw uh : List ℝ) : List ℝ := List.zipWith (NF.realX e).div (H e c uh) (W e c uw)
def ms1 (c : CCfg) (uw uh : List ℝ) : List ℝ :=
  minPair (NF.realX e) (fun a b => (NF.realX e).minA ((NF.realX e).abs a) ((NF.realX e).abs b)) (slopes e c uw uh)
def ms2 (c : CCfg) (uw uh : List ℝ) : List ℝ := cubicSpline.ms2f (NF.realX e) (W e c uw) (slopes e c uw uh)
def ms (c : CCfg) (uw uh : List ℝ) : List ℝ := List.zipWith (NF.realX e).minA (ms1 e c uw uh) (ms2 e c uw uh)
def sgn (c : CCfg) (uw uh : List ℝ) : List ℝ :=
  minPair (NF.realX e) (fun a b => (NF.realX e).add ((NF.realX e).sign a) ((NF.realX e).sign b)) (slopes e c uw uh)
/-- `derivs` as a function of the two gathered end slopes -/
def derivsOf (c : CCfg) (uw uh : List ℝ) (udl udr s0 sl : ℝ) : List ℝ :=
  (NF.realX e).mul ((NF.realX e).mul ((NF.realX e).sigmoid udl) ((NF.realX e).ofNat 3)) s0 ::
    (List.zipWith (NF.realX e).mul (ms e c uw uh) (sgn e c uw uh) ++
      [(NF.realX e).mul ((NF.realX e).mul ((NF.realX e).sigmoid udr) ((NF.realX e).ofNat 3)) sl])
def aLof (c : CCfg) (uw uh : List ℝ) (dv : List ℝ) : List ℝ :=
  (List.range uw.length).map (fun k =>
    let l := (dv.take uw.length).getD k (NF.realX e).zero; let r := (dv.drop 1).getD k (NF.realX e).zero
    let s := (slopes e c uw uh).getD k (NF.realX e).zero; let w := (W e c uw).getD k (NF.realX e).one
    (NF.realX e).div ((NF.realX e).sub ((NF.realX e).add l r) ((NF.realX e).mul (NF.realX e).two s)) ((NF.realX e).mul w w))
def bLof (c : CCfg) (uw uh : List ℝ) (dv : List ℝ) : List ℝ :=
  (List.range uw.length).map (fun k =>
    let l := (dv.take uw.length).getD k (NF.realX e).zero; let r := (dv.drop 1).getD k (NF.realX e).zero
    let s := (slopes e c uw uh).getD k (NF.realX e).zero; let w := (W e c uw).getD k (NF.realX e).one
    (NF.realX e).div ((NF.realX e).sub ((NF.realX e).sub ((NF.realX e).mul ((NF.realX e).ofNat 3) s) ((NF.realX e).mul (NF.realX e).two l)) r) w)
/-- the normalised input `x' = (x - left) / (right - left)` -/
def xn (c : CCfg) (x : ℝ) : ℝ :=
  (NF.realX e).div ((NF.realX e).sub x ((NF.realX e).ofFloat c.box.left)) ((NF.realX e).ofFloat (c.box.right - c.box.left))

/-- everything after the knot derivatives: search, seven gathers, closed form, clamp, rescaling -/
def tailProg (c : CCfg) (uw uh : List ℝ) (dv : List ℝ) (t : ℝ) : Except Err (ℝ × ℝ × List ℝ) := do
  let idx := searchsortedG (NF.realX e) c.seps (cumw e c uw) t
  let ia ← getI (aLof e c uw uh dv) idx
  let ib ← getI (bLof e c uw uh dv) idx
  let ic ← getI (dv.take uw.length) idx
  let id ← getI (cumh e c uh) idx
  let lcw ← getI (cumw e c uw) idx
  let _rcw ← getI (cumw e c uw) (idx + 1)
  let _ih ← getI (H e c uh) idx
  let env := [t, lcw, ia, ib, ic, id]
  let out := (NF.realX e).clamp (NF.realX e).zero (NF.realX e).one (evalX (NF.realX e) env cubicFwdE)
  let ld := (NF.realX e).log (evalX (NF.realX e) env cubicDerivE)
  return ((NF.realX e).add ((NF.realX e).mul out ((NF.realX e).ofFloat (c.box.top - c.box.bottom))) ((NF.realX e).ofFloat c.box.bottom),
    (NF.realX e).add ld ((NF.realX e).ofFloat (boxLog c.box)), [])

/-- **the executed forward program IS this normal form** (definitional unfolding, nothing re-stated) -/
theorem cubicSpline_unfold (c : CCfg) (uw uh : List ℝ) (udl udr x : ℝ) :
    cubicSpline (NF.realX e) c uw uh udl udr false x =
      (if (NF.realX e).lt x ((NF.realX e).ofFloat c.box.left) || (NF.realX e).lt ((NF.realX e).ofFloat c.box.right) x then throw .outsideDomain
       else if c.minW * uw.length.toFloat > 1.0 then throw .valueError
       else if c.minH * uw.length.toFloat > 1.0 then throw .valueError
       else do
        let s0 ← getI (slopes e c uw uh) 0
        let sl ← getI (slopes e c uw uh) (Int.ofNat uw.length - 1)
        tailProg e c uw uh (derivsOf e c uw uh udl udr s0 sl) (xn e c x)) := rfl

/-! ### generic list facts -/

theorem getD_take (l : List ℝ) (n i : ℕ) (h : i < n) : (l.take n).getD i 0 = l.getD i 0 := by
  simp [List.getD, h]

theorem getD_drop1 (l : List ℝ) (i : ℕ) : (l.drop 1).getD i 0 = l.getD (i+1) 0 := by
  simp [List.getD]

theorem getD_default (l : List ℝ) (i : ℕ) (h : i < l.length) (a b : ℝ) : l.getD i a = l.getD i b := by
  simp [List.getD, h]

theorem getD_zipWith (f : ℝ → ℝ → ℝ) (a b : List ℝ) (i : ℕ) (ha : i < a.length) (hb : i < b.length) :
    (List.zipWith f a b).getD i 0 = f (a.getD i 0) (b.getD i 0) := by
  simp [List.getD, ha, hb]

theorem minPair_length (f : ℝ → ℝ → ℝ) (l : List ℝ) : (minPair (NF.realX e) f l).length = l.length - 1 := by
  induction l with
  | nil => simp [minPair]
  | cons a t ih =>
    cases t with
    | nil => simp [minPair]
    | cons b r => simp [minPair, ih]

theorem minPair_getD (f : ℝ → ℝ → ℝ) (l : List ℝ) (i : ℕ) (h : i + 1 < l.length) :
    (minPair (NF.realX e) f l).getD i 0 = f (l.getD i 0) (l.getD (i+1) 0) := by
  induction l generalizing i with
  | nil => simp at h
  | cons a t ih =>
    cases t with
    | nil => simp at h
    | cons b r =>
      cases i with
      | zero => simp [minPair]
      | succ j =>
        have := ih j (by simpa using h)
        simpa [minPair] using this

theorem ms2f_length (w s : List ℝ) (h : w.length = s.length) :
    (cubicSpline.ms2f (NF.realX e) w s).length = w.length - 1 := by
  induction w generalizing s with
  | nil => simp [cubicSpline.ms2f]
  | cons w0 wt ih =>
    cases wt with
    | nil => simp [cubicSpline.ms2f]
    | cons w1 wr =>
      match s, h with
      | s0 :: s1 :: sr, h =>
        have := ih (s1 :: sr) (by simpa using h)
        simp [cubicSpline.ms2f, this]

theorem ms2f_getD (w s : List ℝ) (h : w.length = s.length) (i : ℕ) (hi : i + 1 < w.length) :
    (cubicSpline.ms2f (NF.realX e) w s).getD i 0
      = e 0.5 * (w.getD (i+1) 0 * s.getD i 0 + w.getD i 0 * s.getD (i+1) 0) / (w.getD i 0 + w.getD (i+1) 0) := by
  induction w generalizing s i with
  | nil => simp at hi
  | cons w0 wt ih =>
    cases wt with
    | nil => simp at hi
    | cons w1 wr =>
      match s, h with
      | s0 :: s1 :: sr, h =>
        cases i with
        | zero => simp [cubicSpline.ms2f]
        | succ j =>
          have := ih (s1 :: sr) (by simpa using h) j (by simpa using hi)
          simpa [cubicSpline.ms2f] using this

theorem realX_minA (a b : ℝ) : (NF.realX e).minA a b = min a b := by
  simp only [XOps.minA, NF.realX_lt]
  by_cases h : b < a
  · simp [h, min_eq_right h.le]
  · simp [h, min_eq_left (not_lt.mp h)]

theorem realX_sign_pos (a : ℝ) (h : 0 < a) : (NF.realX e).sign a = 1 := by
  simp [XOps.sign, h]

theorem realX_clamp01 (v : ℝ) (h0 : 0 ≤ v) (h1 : v ≤ 1) : (NF.realX e).clamp 0 1 v = v := by
  simp only [XOps.clamp, XOps.maxA, NF.realX_lt, realX_minA]
  have : ¬ v < 0 := not_lt.mpr h0
  simp [this, h1]

theorem sigmoid_range (u : ℝ) : 0 < (NF.realX e).sigmoid u ∧ (NF.realX e).sigmoid u < 1 := by
  rw [NF.realX_sigmoid]
  have := Real.exp_pos (-u)
  constructor
  · positivity
  · rw [div_lt_one (by positivity)]; linarith

/-- pinned cumulative knots in closed form: entry `k` is the sum of the first `k` masses -/
theorem unit_getD (l : List ℝ) (hl : l ≠ []) (hsum : l.sum = 1) (k : ℕ) (hk : k ≤ l.length) :
    ((NF.realX e).zero :: setLast (cumsumG (NF.realX e) l) (NF.realX e).one).getD k 0 = (l.take k).sum := by
  have hlast := SplineExec.cumsumG_last e l hl
  rw [hsum] at hlast
  simp only [NF.realX_zero, NF.realX_one]
  rw [SplineExec.setLast_of_getLast _ _ hlast]
  cases k with
  | zero => simp
  | succ j =>
    rw [List.getD_cons_succ, SplineExec.cumsumG_eq]
    have hj : j < l.length := hk
    simp [List.getD, hj]

theorem sum_take_succ_getD (l : List ℝ) (k : ℕ) (hk : k < l.length) :
    (l.take (k+1)).sum = (l.take k).sum + l.getD k 0 := by
  rw [List.sum_take_succ l k hk, RQWhole.getElem_eq_getD l k hk]

theorem getD_pos_of_mem (l : List ℝ) (hpos : ∀ x ∈ l, 0 < x) (k : ℕ) (hk : k < l.length) : 0 < l.getD k 0 := by
  rw [← RQWhole.getElem_eq_getD l k hk]
  exact hpos _ (List.getElem_mem hk)

/-! ### the executed lists are valid -/

variable {e}
variable {c : CCfg} {uw uh : List ℝ}

/-- entries as functions of the index -/
def wv (e : Float → ℝ) (c : CCfg) (uw : List ℝ) (k : ℕ) : ℝ := (W e c uw).getD k 0
def hv (e : Float → ℝ) (c : CCfg) (uh : List ℝ) (k : ℕ) : ℝ := (H e c uh).getD k 0
def sv (e : Float → ℝ) (c : CCfg) (uw uh : List ℝ) (k : ℕ) : ℝ := (slopes e c uw uh).getD k 0
def cws (e : Float → ℝ) (c : CCfg) (uw : List ℝ) (k : ℕ) : ℝ := (cumw e c uw).getD k 0
def chs (e : Float → ℝ) (c : CCfg) (uh : List ℝ) (k : ℕ) : ℝ := (cumh e c uh).getD k 0

theorem uh_ne (hv' : CubicValid e c uw uh) : uh ≠ [] := by
  intro h; have := hv'.hlenh; rw [h] at this; exact hv'.hK (List.length_eq_zero_iff.mp this.symm)

theorem K_pos (hv' : CubicValid e c uw uh) : 0 < uw.length := List.length_pos_of_ne_nil hv'.hK

theorem W_facts (hv' : CubicValid e c uw uh) :
    (W e c uw).length = uw.length ∧ (∀ w ∈ W e c uw, 0 < w) ∧ (W e c uw).sum = 1 := by
  have h := SplineExec.flooredSoftmax_valid e c.minW uw hv'.hK hv'.hmW0 hv'.hcW hv'.hmWK
  refine ⟨?_, h.1, h.2⟩
  simp [W, SplineExec.flooredSoftmax_eq, SplineExec.softmaxG_length]

theorem H_facts (hv' : CubicValid e c uw uh) :
    (H e c uh).length = uw.length ∧ (∀ w ∈ H e c uh, 0 < w) ∧ (H e c uh).sum = 1 := by
  have h := SplineExec.flooredSoftmax_valid e c.minH uh (uh_ne hv') hv'.hmH0 hv'.hcH hv'.hmHK
  refine ⟨?_, h.1, h.2⟩
  simp [H, SplineExec.flooredSoftmax_eq, SplineExec.softmaxG_length, hv'.hlenh]

theorem W_ne (hv' : CubicValid e c uw uh) : W e c uw ≠ [] := by
  intro h; have := (W_facts hv').1; rw [h] at this; have := K_pos hv'; simp at *; omega

theorem H_ne (hv' : CubicValid e c uw uh) : H e c uh ≠ [] := by
  intro h; have := (H_facts hv').1; rw [h] at this; have := K_pos hv'; simp at *; omega

theorem wv_pos (hv' : CubicValid e c uw uh) (k : ℕ) (hk : k < uw.length) : 0 < wv e c uw k :=
  getD_pos_of_mem _ (W_facts hv').2.1 k (by rw [(W_facts hv').1]; exact hk)

theorem hv_pos (hv' : CubicValid e c uw uh) (k : ℕ) (hk : k < uw.length) : 0 < hv e c uh k :=
  getD_pos_of_mem _ (H_facts hv').2.1 k (by rw [(H_facts hv').1]; exact hk)

theorem slopes_length (hv' : CubicValid e c uw uh) : (slopes e c uw uh).length = uw.length := by
  simp [slopes, (W_facts hv').1, (H_facts hv').1]

/-- slopes are `height / width` -/
theorem sv_eq (hv' : CubicValid e c uw uh) (k : ℕ) (hk : k < uw.length) : sv e c uw uh k = hv e c uh k / wv e c uw k := by
  unfold sv slopes
  rw [getD_zipWith _ _ _ k (by rw [(H_facts hv').1]; exact hk) (by rw [(W_facts hv').1]; exact hk)]
  rfl

theorem sv_pos (hv' : CubicValid e c uw uh) (k : ℕ) (hk : k < uw.length) : 0 < sv e c uw uh k := by
  rw [sv_eq hv' k hk]; exact div_pos (hv_pos hv' k hk) (wv_pos hv' k hk)

theorem cumw_facts (hv' : CubicValid e c uw uh) :
    (cumw e c uw).length = uw.length + 1 ∧ (cumw e c uw).head? = some 0 ∧
    (cumw e c uw).getLast? = some 1 ∧ (cumw e c uw).Pairwise (· < ·) := by
  obtain ⟨hl, hp, hs⟩ := W_facts hv'
  have := SplineExec.unitKnots_valid e (W e c uw) (W_ne hv') hp hs
  rw [hl] at this
  simpa only [cumw, NF.realX_zero, NF.realX_one] using this

theorem cumh_facts (hv' : CubicValid e c uw uh) :
    (cumh e c uh).length = uw.length + 1 ∧ (cumh e c uh).head? = some 0 ∧
    (cumh e c uh).getLast? = some 1 ∧ (cumh e c uh).Pairwise (· < ·) := by
  obtain ⟨hl, hp, hs⟩ := H_facts hv'
  have := SplineExec.unitKnots_valid e (H e c uh) (H_ne hv') hp hs
  rw [hl] at this
  simpa only [cumh, NF.realX_zero, NF.realX_one] using this

theorem cws_zero (hv' : CubicValid e c uw uh) : cws e c uw 0 = 0 := RQWhole.head_getD _ _ (cumw_facts hv').2.1
theorem cws_last (hv' : CubicValid e c uw uh) : cws e c uw uw.length = 1 :=
  RQWhole.last_getD _ _ _ (cumw_facts hv').1 (cumw_facts hv').2.2.1
theorem chs_zero (hv' : CubicValid e c uw uh) : chs e c uh 0 = 0 := RQWhole.head_getD _ _ (cumh_facts hv').2.1
theorem chs_last (hv' : CubicValid e c uw uh) : chs e c uh uw.length = 1 :=
  RQWhole.last_getD _ _ _ (cumh_facts hv').1 (cumh_facts hv').2.2.1

/-- consecutive x-knots differ by the width of the bin -/
theorem cws_succ (hv' : CubicValid e c uw uh) (k : ℕ) (hk : k < uw.length) :
    cws e c uw (k+1) = cws e c uw k + wv e c uw k := by
  obtain ⟨hl, _, hs⟩ := W_facts hv'
  unfold cws cumw wv
  rw [unit_getD e _ (W_ne hv') hs (k+1) (by omega), unit_getD e _ (W_ne hv') hs k (by omega),
    sum_take_succ_getD _ k (by omega)]

/-- consecutive y-knots differ by the height of the bin -/
theorem chs_succ (hv' : CubicValid e c uw uh) (k : ℕ) (hk : k < uw.length) :
    chs e c uh (k+1) = chs e c uh k + hv e c uh k := by
  obtain ⟨hl, _, hs⟩ := H_facts hv'
  unfold chs cumh hv
  rw [unit_getD e _ (H_ne hv') hs (k+1) (by omega), unit_getD e _ (H_ne hv') hs k (by omega),
    sum_take_succ_getD _ k (by omega)]

theorem cws_strict (hv' : CubicValid e c uw uh) : ∀ k < uw.length, cws e c uw k < cws e c uw (k+1) := by
  intro k hk; rw [cws_succ hv' k hk]; linarith [wv_pos hv' k hk]

theorem chs_strict (hv' : CubicValid e c uw uh) : ∀ k < uw.length, chs e c uh k < chs e c uh (k+1) := by
  intro k hk; rw [chs_succ hv' k hk]; linarith [hv_pos hv' k hk]

/-- y-knots lie in the unit interval -/
theorem chs_unit (hv' : CubicValid e c uw uh) (k : ℕ) (hk : k ≤ uw.length) : 0 ≤ chs e c uh k ∧ chs e c uh k ≤ 1 := by
  have hm := ExecGlue.knots_mono (chs e c uh) uw.length (chs_strict hv')
  constructor
  · rw [← chs_zero hv']; exact hm 0 k (Nat.zero_le _) hk
  · rw [← chs_last hv']; exact hm k uw.length hk le_rfl

/-! ### knot derivatives -/

/-- the list of `K+1` knot derivatives the program builds (end slopes gathered at `0` and `K-1`) -/
def derivs (e : Float → ℝ) (c : CCfg) (uw uh : List ℝ) (udl udr : ℝ) : List ℝ :=
  derivsOf e c uw uh udl udr (sv e c uw uh 0) (sv e c uw uh (uw.length - 1))
def dv (e : Float → ℝ) (c : CCfg) (uw uh : List ℝ) (udl udr : ℝ) (k : ℕ) : ℝ := (derivs e c uw uh udl udr).getD k 0

variable {udl udr : ℝ}

theorem ms1_length (hv' : CubicValid e c uw uh) : (ms1 e c uw uh).length = uw.length - 1 := by
  rw [ms1, minPair_length, slopes_length hv']

theorem ms2_length (hv' : CubicValid e c uw uh) : (ms2 e c uw uh).length = uw.length - 1 := by
  rw [ms2, ms2f_length e _ _ (by rw [(W_facts hv').1, slopes_length hv']), (W_facts hv').1]

theorem ms_length (hv' : CubicValid e c uw uh) : (ms e c uw uh).length = uw.length - 1 := by
  simp [ms, ms1_length hv', ms2_length hv']

theorem sgn_length (hv' : CubicValid e c uw uh) : (sgn e c uw uh).length = uw.length - 1 := by
  rw [sgn, minPair_length, slopes_length hv']

theorem mid_length (hv' : CubicValid e c uw uh) :
    (List.zipWith (NF.realX e).mul (ms e c uw uh) (sgn e c uw uh)).length = uw.length - 1 := by
  simp [ms_length hv', sgn_length hv']

theorem derivs_length (hv' : CubicValid e c uw uh) : (derivs e c uw uh udl udr).length = uw.length + 1 := by
  have := K_pos hv'
  simp only [derivs, derivsOf, List.length_cons, List.length_append, mid_length hv', List.length_nil]
  omega

/-- **left end derivative**: `sigmoid(udl) · 3 · s₀` -/
theorem dv_end_left : dv e c uw uh udl udr 0 = (NF.realX e).sigmoid udl * 3 * sv e c uw uh 0 := by
  simp [dv, derivs, derivsOf]

/-- **right end derivative**: `sigmoid(udr) · 3 · s_{K-1}` -/
theorem dv_end_right (hv' : CubicValid e c uw uh) :
    dv e c uw uh udl udr uw.length = (NF.realX e).sigmoid udr * 3 * sv e c uw uh (uw.length - 1) := by
  have hK := K_pos hv'
  have hm := mid_length hv'
  unfold dv derivs derivsOf
  obtain ⟨n, hn⟩ : ∃ n, uw.length = n + 1 := ⟨uw.length - 1, by omega⟩
  rw [hn] at hm ⊢
  rw [List.getD_cons_succ, List.getD_append_right _ _ _ _ (by rw [hm]; omega), hm]
  simp

/-- **interior knot derivative** in closed form (slopes are positive, so `|s| = s` and `sign s = 1`) -/
theorem dv_interior (hv' : CubicValid e c uw uh) (j : ℕ) (hj : j + 1 < uw.length) :
    dv e c uw uh udl udr (j+1)
      = min (min (sv e c uw uh j) (sv e c uw uh (j+1)))
          (e 0.5 * (wv e c uw (j+1) * sv e c uw uh j + wv e c uw j * sv e c uw uh (j+1)) / (wv e c uw j + wv e c uw (j+1))) * 2 := by
  have hm := mid_length hv'
  have hsl := slopes_length hv'
  have hs0 := sv_pos hv' j (by omega)
  have hs1 := sv_pos hv' (j+1) hj
  unfold dv derivs derivsOf
  rw [List.getD_cons_succ, List.getD_append _ _ _ _ (by rw [hm]; omega),
    getD_zipWith _ _ _ j (by rw [ms_length hv']; omega) (by rw [sgn_length hv']; omega)]
  have h1 : (ms e c uw uh).getD j 0
      = min (min (sv e c uw uh j) (sv e c uw uh (j+1)))
          (e 0.5 * (wv e c uw (j+1) * sv e c uw uh j + wv e c uw j * sv e c uw uh (j+1)) / (wv e c uw j + wv e c uw (j+1))) := by
    unfold ms
    rw [getD_zipWith _ _ _ j (by rw [ms1_length hv']; omega) (by rw [ms2_length hv']; omega), realX_minA]
    congr 1
    · unfold ms1
      rw [minPair_getD e _ _ j (by rw [hsl]; exact hj), realX_minA]
      simp only [NF.realX_abs]
      change min |sv e c uw uh j| |sv e c uw uh (j+1)| = _
      rw [abs_of_pos hs0, abs_of_pos hs1]
    · unfold ms2
      rw [ms2f_getD e _ _ (by rw [(W_facts hv').1, hsl]) j (by rw [(W_facts hv').1]; exact hj)]
      rfl
  have h2 : (sgn e c uw uh).getD j 0 = 2 := by
    unfold sgn
    rw [minPair_getD e _ _ j (by rw [hsl]; exact hj)]
    simp only [NF.realX_add]
    change (NF.realX e).sign (sv e c uw uh j) + (NF.realX e).sign (sv e c uw uh (j+1)) = 2
    rw [realX_sign_pos e _ hs0, realX_sign_pos e _ hs1]; norm_num
  rw [h1, h2]; rfl

/-- interior knot derivatives lie in the monotone region of BOTH adjacent bins: `0 < d < 3·min(s_j, s_{j+1})` -/
theorem dv_interior_range (hv' : CubicValid e c uw uh) (j : ℕ) (hj : j + 1 < uw.length) :
    0 < dv e c uw uh udl udr (j+1) ∧ dv e c uw uh udl udr (j+1) < 3 * min (sv e c uw uh j) (sv e c uw uh (j+1)) := by
  rw [dv_interior hv' j hj]
  have hs0 := sv_pos hv' j (by omega)
  have hs1 := sv_pos hv' (j+1) hj
  have hw0 := wv_pos hv' j (by omega)
  have hw1 := wv_pos hv' (j+1) hj
  have hh := hv'.hhalf
  have hm : 0 < min (sv e c uw uh j) (sv e c uw uh (j+1)) := lt_min hs0 hs1
  have hq : 0 < e 0.5 * (wv e c uw (j+1) * sv e c uw uh j + wv e c uw j * sv e c uw uh (j+1)) / (wv e c uw j + wv e c uw (j+1)) := by
    positivity
  have hle := min_le_left (min (sv e c uw uh j) (sv e c uw uh (j+1)))
    (e 0.5 * (wv e c uw (j+1) * sv e c uw uh j + wv e c uw j * sv e c uw uh (j+1)) / (wv e c uw j + wv e c uw (j+1)))
  have hpos := lt_min hm hq
  constructor
  · linarith
  · linarith

/-- **every bin's two knot derivatives are in the Fritsch–Carlson region** `0 < d < 3·s` of that bin -/
theorem dv_range (hv' : CubicValid e c uw uh) (k : ℕ) (hk : k < uw.length) :
    (0 < dv e c uw uh udl udr k ∧ dv e c uw uh udl udr k < 3 * sv e c uw uh k) ∧
    (0 < dv e c uw uh udl udr (k+1) ∧ dv e c uw uh udl udr (k+1) < 3 * sv e c uw uh k) := by
  have hs := sv_pos hv' k hk
  constructor
  · cases k with
    | zero =>
      rw [dv_end_left]
      obtain ⟨h0, h1⟩ := sigmoid_range e udl
      constructor
      · positivity
      · nlinarith
    | succ j =>
      obtain ⟨h0, h1⟩ := dv_interior_range (udl := udl) (udr := udr) hv' j hk
      exact ⟨h0, lt_of_lt_of_le h1 (by linarith [min_le_right (sv e c uw uh j) (sv e c uw uh (j+1))])⟩
  · rcases Nat.lt_or_ge (k+1) uw.length with h | h
    · obtain ⟨h0, h1⟩ := dv_interior_range (udl := udl) (udr := udr) hv' k h
      exact ⟨h0, lt_of_lt_of_le h1 (by linarith [min_le_left (sv e c uw uh k) (sv e c uw uh (k+1))])⟩
    · have hkK : k + 1 = uw.length := by omega
      have hk1 : uw.length - 1 = k := by omega
      rw [hkK, dv_end_right hv', hk1]
      obtain ⟨h0, h1⟩ := sigmoid_range e udr
      constructor
      · positivity
      · nlinarith

/-! ### the search, the gathers, the closed form -/

/-- the bin index the executed search returns (on the normalised coordinate) -/
def idxN (e : Float → ℝ) (c : CCfg) (uw : List ℝ) (t : ℝ) : ℕ := (searchsortedG (NF.realX e) c.seps (cumw e c uw) t).toNat

/-- per-bin coefficients `a`, `b` in the shape of `Bridge.cubicFwdE_eq` -/
def aK (e : Float → ℝ) (c : CCfg) (uw uh : List ℝ) (udl udr : ℝ) (k : ℕ) : ℝ :=
  (dv e c uw uh udl udr k + dv e c uw uh udl udr (k+1) - 2 * sv e c uw uh k) / (wv e c uw k)^2
def bK (e : Float → ℝ) (c : CCfg) (uw uh : List ℝ) (udl udr : ℝ) (k : ℕ) : ℝ :=
  (3 * sv e c uw uh k - 2 * dv e c uw uh udl udr k - dv e c uw uh udl udr (k+1)) / wv e c uw k

/-- environment of bin `k` at normalised input `t` -/
def env (e : Float → ℝ) (c : CCfg) (uw uh : List ℝ) (udl udr : ℝ) (k : ℕ) (t : ℝ) : ℕ → ℝ :=
  Bridge.cEnv t (cws e c uw k) (aK e c uw uh udl udr k) (bK e c uw uh udl udr k) (dv e c uw uh udl udr k) (chs e c uh k)

/-- closed forms of bin `k` in normalised coordinates: value (before the clamp) and derivative -/
def binN (e : Float → ℝ) (c : CCfg) (uw uh : List ℝ) (udl udr : ℝ) (k : ℕ) (t : ℝ) : ℝ :=
  evalR (env e c uw uh udl udr k t) cubicFwdE
def binD (e : Float → ℝ) (c : CCfg) (uw uh : List ℝ) (udl udr : ℝ) (k : ℕ) (t : ℝ) : ℝ :=
  evalR (env e c uw uh udl udr k t) cubicDerivE

theorem bind_ok {β γ : Type} (a : β) (f : β → Except Err γ) : (Except.ok a >>= f) = f a := rfl

/-- the executed search meets the search specification on any strictly increasing knot list -/
theorem search_spec_list (e : Float → ℝ) (eps : Float) (heps : 0 < e eps) (kn : List ℝ) (K : ℕ) (a b : ℝ) (hK0 : 0 < K)
    (hlen : kn.length = K + 1) (hhead : kn.head? = some a) (hlast : kn.getLast? = some b) (hp : kn.Pairwise (· < ·)) :
    ExecGlue.SearchSpec (fun k => kn.getD k 0) K (fun t => (searchsortedG (NF.realX e) eps kn t).toNat) ∧
    ∀ t, a ≤ t → t ≤ b →
      searchsortedG (NF.realX e) eps kn t = (((searchsortedG (NF.realX e) eps kn t).toNat : ℕ) : Int) := by
  have h0 : kn.getD 0 0 = a := RQWhole.head_getD _ _ hhead
  have hL : kn.getD K 0 = b := RQWhole.last_getD _ _ _ hlen hlast
  obtain ⟨init, hsplit⟩ : ∃ init, kn = init ++ [b] := by
    rcases List.getLast?_eq_some_iff.mp hlast with ⟨ys, hys⟩
    exact ⟨ys, hys⟩
  have hinitlen : init.length = K := by
    have := congrArg List.length hsplit; simp [hlen] at this; omega
  have hinithead : init.head? = some a := by
    cases init with
    | nil => simp at hinitlen; omega
    | cons a' t => rw [hsplit] at hhead; simpa using hhead
  have hb : b < NF.TU.bumpedLast (NF.realX e) eps b := by
    simp only [NF.TU.bumpedLast, XOps.maxA, NF.realX_add, NF.realX_ofFloat, NF.realX_lt]
    have : (NF.realX e).nextUp b = b := rfl
    rw [this]
    have hnot : ¬ (b + e eps < b) := by linarith
    simp only [hnot, decide_false, Bool.false_eq_true, if_false]
    linarith
  have key : ∀ x, a ≤ x → x ≤ b →
      ∃ i : ℕ, searchsortedG (NF.realX e) eps kn x = (i : Int) ∧ i < K ∧
        kn.getD i 0 ≤ x ∧ (x < kn.getD (i+1) 0 ∨ (i + 1 = K ∧ x = b)) := by
    intro x hx0 hx1
    obtain ⟨i, hi, hiK, lo, hi', hlo, hhi, hle, hr⟩ :=
      Properties.C20.searchsorted_spec (NF.realX e) (SplineTotal.realX_ordered' e) eps init b x
        (by rw [← hsplit]; exact hp) hb a hinithead hx0 hx1
    rw [← hsplit] at hi hlo hhi
    rw [hinitlen] at hiK hr
    refine ⟨i, hi, hiK, ?_, ?_⟩
    · have : kn.getD i 0 = lo := by
        rw [List.getD_eq_getElem?_getD, hlo]; rfl
      rw [this]; exact hle
    · have : kn.getD (i+1) 0 = hi' := by
        rw [List.getD_eq_getElem?_getD, hhi]; rfl
      rw [this]; exact hr
  constructor
  · intro x hx0 hx1
    simp only [h0] at hx0
    simp only [hL] at hx1
    obtain ⟨i, hi, hiK, hle, hr⟩ := key x hx0 hx1
    have hidx : (searchsortedG (NF.realX e) eps kn x).toNat = i := by rw [hi]; rfl
    simp only [hidx, hL]
    exact ⟨hiK, hle, hr⟩
  · intro x hx0 hx1
    obtain ⟨i, hi, _⟩ := key x hx0 hx1
    have hidx : (searchsortedG (NF.realX e) eps kn x).toNat = i := by rw [hi]; rfl
    rw [hidx, hi]

theorem search_spec (hv' : CubicValid e c uw uh) :
    ExecGlue.SearchSpec (cws e c uw) uw.length (idxN e c uw) ∧
    ∀ t, 0 ≤ t → t ≤ 1 → searchsortedG (NF.realX e) c.seps (cumw e c uw) t = ((idxN e c uw t : ℕ) : Int) := by
  obtain ⟨hlen, hhead, hlast, hp⟩ := cumw_facts hv'
  exact search_spec_list e c.seps hv'.hseps (cumw e c uw) uw.length 0 1 (K_pos hv') hlen hhead hlast hp

theorem aLof_get (hv' : CubicValid e c uw uh) (i : ℕ) (hi : i < uw.length)
    (h : i < (aLof e c uw uh (derivs e c uw uh udl udr)).length) :
    (aLof e c uw uh (derivs e c uw uh udl udr))[i] = aK e c uw uh udl udr i := by
  simp only [aLof, List.getElem_map, List.getElem_range, NF.realX_zero, NF.realX_one, NF.realX_two, NF.realX_add,
    NF.realX_sub, NF.realX_mul, NF.realX_div]
  rw [getD_take _ _ _ hi, getD_drop1, getD_default _ i (by rw [(W_facts hv').1]; exact hi) 1 0, ← pow_two]
  rfl

theorem bLof_get (hv' : CubicValid e c uw uh) (i : ℕ) (hi : i < uw.length)
    (h : i < (bLof e c uw uh (derivs e c uw uh udl udr)).length) :
    (bLof e c uw uh (derivs e c uw uh udl udr))[i] = bK e c uw uh udl udr i := by
  simp only [bLof, List.getElem_map, List.getElem_range, NF.realX_zero, NF.realX_one, NF.realX_two,
    NF.realX_sub, NF.realX_mul, NF.realX_div, NF.realX_ofNat, Nat.cast_ofNat]
  rw [getD_take _ _ _ hi, getD_drop1, getD_default _ i (by rw [(W_facts hv').1]; exact hi) 1 0]
  rfl

/-- **everything after the knot derivatives returns the closed form of the searched bin** (all seven gathers in range) -/
theorem tailProg_eq (hv' : CubicValid e c uw uh) (t : ℝ) (ht0 : 0 ≤ t) (ht1 : t ≤ 1) :
    tailProg e c uw uh (derivs e c uw uh udl udr) t
      = .ok ((NF.realX e).clamp 0 1 (binN e c uw uh udl udr (idxN e c uw t) t) * e (c.box.top - c.box.bottom) + e c.box.bottom,
          Real.log (binD e c uw uh udl udr (idxN e c uw t) t) + e (boxLog c.box), []) := by
  obtain ⟨hspec, hsearch⟩ := search_spec hv'
  obtain ⟨hiK, _, _⟩ := hspec t (by rw [cws_zero hv']; exact ht0) (by rw [cws_last hv']; exact ht1)
  set i := idxN e c uw t with hi
  have hcwlen := (cumw_facts hv').1
  have hchlen := (cumh_facts hv').1
  have hHlen := (H_facts hv').1
  have hdlen := derivs_length (udl := udl) (udr := udr) hv'
  have haLlen : (aLof e c uw uh (derivs e c uw uh udl udr)).length = uw.length := by simp [aLof]
  have hbLlen : (bLof e c uw uh (derivs e c uw uh udl udr)).length = uw.length := by simp [bLof]
  have htklen : ((derivs e c uw uh udl udr).take uw.length).length = uw.length := by
    rw [List.length_take, hdlen]; omega
  have hi1 : ((i : Int) + 1) = ((i + 1 : ℕ) : Int) := by push_cast; rfl
  have hic : ((derivs e c uw uh udl udr).take uw.length)[i]'(by omega) = dv e c uw uh udl udr i := by
    rw [RQWhole.getElem_eq_getD, getD_take _ _ _ hiK]; rfl
  unfold tailProg
  simp only [hsearch t ht0 ht1]
  rw [SplineTotal.getI_ok _ i (by omega : i < (aLof e c uw uh (derivs e c uw uh udl udr)).length),
    SplineTotal.getI_ok _ i (by omega : i < (bLof e c uw uh (derivs e c uw uh udl udr)).length),
    SplineTotal.getI_ok _ i (by omega : i < ((derivs e c uw uh udl udr).take uw.length).length),
    SplineTotal.getI_ok (cumh e c uh) i (by omega), SplineTotal.getI_ok (cumw e c uw) i (by omega),
    hi1, SplineTotal.getI_ok (cumw e c uw) (i+1) (by omega), SplineTotal.getI_ok (H e c uh) i (by omega)]
  simp only [bind_ok, aLof_get hv' i hiK, bLof_get hv' i hiK, hic, RQWhole.getElem_eq_getD, RQWhole.evalX_eq_evalR,
    NF.realX_zero, NF.realX_one, NF.realX_add, NF.realX_mul, NF.realX_log, NF.realX_ofFloat]
  rfl

/-- the normalised input lies in the unit interval -/
theorem xn_eq (hv' : CubicValid e c uw uh) (x : ℝ) : xn e c x = (x - e c.box.left) / (e c.box.right - e c.box.left) := by
  simp [xn, hv'.hdlr]

theorem xn_unit (hv' : CubicValid e c uw uh) (x : ℝ) (hx0 : e c.box.left ≤ x) (hx1 : x ≤ e c.box.right) :
    0 ≤ xn e c x ∧ xn e c x ≤ 1 := by
  rw [xn_eq hv']
  have hD : 0 < e c.box.right - e c.box.left := sub_pos.mpr hv'.hlr
  exact ⟨div_nonneg (by linarith) hD.le, by rw [div_le_one hD]; linarith⟩

/-- **C17 — in-domain totality, with the result in closed form**: for every `x ∈ [left, right]` the executed forward
    program returns `.ok`, and what it returns is the closed form of the bin the executed search selected. -/
theorem exec_eq_bin (hv' : CubicValid e c uw uh) (x : ℝ) (hx0 : e c.box.left ≤ x) (hx1 : x ≤ e c.box.right) :
    cubicSpline (NF.realX e) c uw uh udl udr false x
      = .ok ((NF.realX e).clamp 0 1 (binN e c uw uh udl udr (idxN e c uw (xn e c x)) (xn e c x))
                * e (c.box.top - c.box.bottom) + e c.box.bottom,
             Real.log (binD e c uw uh udl udr (idxN e c uw (xn e c x)) (xn e c x)) + e (boxLog c.box), []) := by
  have hK := K_pos hv'
  have hsl := slopes_length hv'
  have hg1 : ((NF.realX e).lt x ((NF.realX e).ofFloat c.box.left) || (NF.realX e).lt ((NF.realX e).ofFloat c.box.right) x) = false := by
    simp only [NF.realX_lt, NF.realX_ofFloat, Bool.or_eq_false_iff, decide_eq_false_iff_not, not_lt]
    exact ⟨hx0, hx1⟩
  have h0 : getI (slopes e c uw uh) 0 = .ok (sv e c uw uh 0) := by
    have := SplineTotal.getI_ok (slopes e c uw uh) 0 (by omega)
    rw [RQWhole.getElem_eq_getD] at this
    exact this
  have hl : getI (slopes e c uw uh) (Int.ofNat uw.length - 1) = .ok (sv e c uw uh (uw.length - 1)) := by
    have := SplineTotal.getI_ok (slopes e c uw uh) (uw.length - 1) (by omega)
    rw [RQWhole.getElem_eq_getD] at this
    have hc : ((uw.length - 1 : ℕ) : Int) = Int.ofNat uw.length - 1 := by
      simp only [Int.ofNat_eq_natCast]; omega
    rw [hc] at this
    exact this
  obtain ⟨ht0, ht1⟩ := xn_unit hv' x hx0 hx1
  rw [cubicSpline_unfold]
  simp only [hg1, hv'.hgW, hv'.hgH, Bool.false_eq_true, if_false, h0, hl, bind_ok]
  exact tailProg_eq hv' (xn e c x) ht0 ht1

/-! ### per-bin calculus on the executed terms -/

/-- the Hermite cubic with knot derivatives in the Fritsch–Carlson region is strictly increasing on its bin -/
theorem poly_strictMonoOn {s d0 d1 w : ℝ} (hw : 0 < w) (hs : 0 < s) (h0 : 0 < d0) (h0' : d0 < 3*s)
    (h1 : 0 < d1) (h1' : d1 < 3*s) : StrictMonoOn (Cubic.poly s d0 d1 w) (Set.Icc 0 w) := by
  apply strictMonoOn_of_deriv_pos (convex_Icc 0 w)
  · exact fun u _ => (Cubic.poly_hasDerivAt hw).continuousAt.continuousWithinAt
  · intro u hu
    rw [interior_Icc] at hu
    rw [(Cubic.poly_hasDerivAt (s := s) (d0 := d0) (d1 := d1) (u := u) hw).deriv]
    exact Cubic.dpoly_pos hs h0 h0' h1 h1' (div_nonneg hu.1.le hw.le) (by rw [div_le_one hw]; exact hu.2.le)

/-- the executed bin value is the shifted Hermite polynomial of `Lemmas/Cubic` -/
theorem binN_eq (k : ℕ) (t : ℝ) :
    binN e c uw uh udl udr k t
      = Cubic.poly (sv e c uw uh k) (dv e c uw uh udl udr k) (dv e c uw uh udl udr (k+1)) (wv e c uw k) (t - cws e c uw k)
        + chs e c uh k :=
  Bridge.cubicFwdE_eq t (cws e c uw k) (sv e c uw uh k) (dv e c uw uh udl udr k) (dv e c uw uh udl udr (k+1)) (wv e c uw k)
    (chs e c uh k)

/-- the executed derivative term is the derivative polynomial of `Lemmas/Cubic` -/
theorem binD_eq (hv' : CubicValid e c uw uh) (k : ℕ) (hk : k < uw.length) (t : ℝ) :
    binD e c uw uh udl udr k t
      = Cubic.dpoly (sv e c uw uh k) (dv e c uw uh udl udr k) (dv e c uw uh udl udr (k+1)) ((t - cws e c uw k) / wv e c uw k) :=
  Bridge.cubicDerivE_eq t (cws e c uw k) (sv e c uw uh k) (dv e c uw uh udl udr k) (dv e c uw uh udl udr (k+1)) (wv e c uw k)
    (chs e c uh k) (wv_pos hv' k hk).ne'

/-- **the executed derivative term is positive on the closed bin** -/
theorem binD_pos (hv' : CubicValid e c uw uh) (k : ℕ) (hk : k < uw.length) (t : ℝ)
    (h0 : cws e c uw k ≤ t) (h1 : t ≤ cws e c uw (k+1)) : 0 < binD e c uw uh udl udr k t := by
  rw [binD_eq hv' k hk]
  obtain ⟨⟨a0, a1⟩, b0, b1⟩ := dv_range (udl := udl) (udr := udr) hv' k hk
  have hw := wv_pos hv' k hk
  rw [cws_succ hv' k hk] at h1
  exact Cubic.dpoly_pos (sv_pos hv' k hk) a0 a1 b0 b1 (div_nonneg (by linarith) hw.le)
    (by rw [div_le_one hw]; linarith)

theorem bin_strictMonoOn (hv' : CubicValid e c uw uh) (k : ℕ) (hk : k < uw.length) :
    StrictMonoOn (binN e c uw uh udl udr k) (Set.Icc (cws e c uw k) (cws e c uw (k+1))) := by
  obtain ⟨⟨a0, a1⟩, b0, b1⟩ := dv_range (udl := udl) (udr := udr) hv' k hk
  have hm := poly_strictMonoOn (wv_pos hv' k hk) (sv_pos hv' k hk) a0 a1 b0 b1
  intro a ha b hb hab
  rw [cws_succ hv' k hk] at ha hb
  simp only [binN_eq]
  have := hm (a := a - cws e c uw k) ⟨by linarith [ha.1], by linarith [ha.2]⟩
    (b := b - cws e c uw k) ⟨by linarith [hb.1], by linarith [hb.2]⟩ (by linarith)
  linarith

/-- **bin polynomials interpolate the y-knots**: left knot ↦ `cumh k`, right knot ↦ `cumh (k+1)` -/
theorem bin_endpoints (hv' : CubicValid e c uw uh) (k : ℕ) (hk : k < uw.length) :
    binN e c uw uh udl udr k (cws e c uw k) = chs e c uh k ∧
    binN e c uw uh udl udr k (cws e c uw (k+1)) = chs e c uh (k+1) := by
  have hw := wv_pos hv' k hk
  constructor
  · rw [binN_eq, sub_self, Cubic.poly_left, zero_add]
  · rw [binN_eq, cws_succ hv' k hk, add_sub_cancel_left, Cubic.poly_right hw, chs_succ hv' k hk, sv_eq hv' k hk,
      div_mul_cancel₀ _ hw.ne', add_comm]

theorem bin_join (hv' : CubicValid e c uw uh) (k : ℕ) (hk : k + 1 < uw.length) :
    binN e c uw uh udl udr k (cws e c uw (k+1)) = binN e c uw uh udl udr (k+1) (cws e c uw (k+1)) := by
  rw [(bin_endpoints hv' k (by omega)).2, (bin_endpoints hv' (k+1) hk).1]

theorem bin_hasDerivAt (hv' : CubicValid e c uw uh) (k : ℕ) (hk : k < uw.length) (t : ℝ) :
    HasDerivAt (binN e c uw uh udl udr k) (binD e c uw uh udl udr k t) t := by
  have hfun : binN e c uw uh udl udr k = fun t =>
      Cubic.poly (sv e c uw uh k) (dv e c uw uh udl udr k) (dv e c uw uh udl udr (k+1)) (wv e c uw k) (t - cws e c uw k)
        + chs e c uh k := by
    funext z; exact binN_eq k z
  rw [hfun, binD_eq hv' k hk]
  have hp := Cubic.poly_hasDerivAt (s := sv e c uw uh k) (d0 := dv e c uw uh udl udr k) (d1 := dv e c uw uh udl udr (k+1))
    (u := t - cws e c uw k) (wv_pos hv' k hk)
  have hlin : HasDerivAt (fun t : ℝ => t - cws e c uw k) 1 t := (hasDerivAt_id t).sub_const _
  have := (HasDerivAt.comp t hp hlin).add_const (chs e c uh k)
  simpa using this

/-! ### the normalised value function `[0,1] → [0,1]` -/

/-- value before the clamp, as a function of the normalised input: closed form of the searched bin -/
def nval (e : Float → ℝ) (c : CCfg) (uw uh : List ℝ) (udl udr : ℝ) (t : ℝ) : ℝ :=
  binN e c uw uh udl udr (idxN e c uw t) t

theorem hF (e : Float → ℝ) (c : CCfg) (uw uh : List ℝ) (udl udr : ℝ) :
    ∀ t, cws e c uw 0 ≤ t → t ≤ cws e c uw uw.length →
      nval e c uw uh udl udr t = binN e c uw uh udl udr (idxN e c uw t) t := fun _ _ _ => rfl

theorem nval_strictMonoOn (hv' : CubicValid e c uw uh) : StrictMonoOn (nval e c uw uh udl udr) (Set.Icc 0 1) := by
  have := ExecGlue.strictMonoOn_whole (cws e c uw) uw.length (binN e c uw uh udl udr) (nval e c uw uh udl udr) (idxN e c uw)
    (cws_strict hv') (search_spec hv').1 (hF e c uw uh udl udr) (bin_join hv') (bin_strictMonoOn hv')
  rw [cws_zero hv', cws_last hv'] at this
  exact this

theorem nval_endpoints (hv' : CubicValid e c uw uh) : nval e c uw uh udl udr 0 = 0 ∧ nval e c uw uh udl udr 1 = 1 := by
  have hK0 := K_pos hv'
  have hl := ExecGlue.left_value (cws e c uw) uw.length (binN e c uw uh udl udr) (nval e c uw uh udl udr) (idxN e c uw) hK0
    (cws_strict hv') (search_spec hv').1 (hF e c uw uh udl udr) (bin_join hv')
  have hr := ExecGlue.right_value (cws e c uw) uw.length (binN e c uw uh udl udr) (nval e c uw uh udl udr) (idxN e c uw) hK0
    (cws_strict hv') (search_spec hv').1 (hF e c uw uh udl udr) (bin_join hv')
  constructor
  · rw [(bin_endpoints hv' 0 hK0).1, chs_zero hv', cws_zero hv'] at hl
    exact hl
  · have hK1 : uw.length - 1 + 1 = uw.length := by omega
    have he := (bin_endpoints (udl := udl) (udr := udr) hv' (uw.length - 1) (by omega)).2
    rw [hK1] at he
    rw [he, chs_last hv', cws_last hv'] at hr
    exact hr

/-- the argument of the clamp lies in `[0,1]` -/
theorem nval_mapsTo (hv' : CubicValid e c uw uh) :
    Set.MapsTo (nval e c uw uh udl udr) (Set.Icc 0 1) (Set.Icc 0 1) := by
  intro t ht
  have hm := (nval_strictMonoOn (udl := udl) (udr := udr) hv').monotoneOn
  obtain ⟨hl, hr⟩ := nval_endpoints (udl := udl) (udr := udr) hv'
  constructor
  · rw [← hl]; exact hm ⟨le_rfl, zero_le_one⟩ ht ht.1
  · rw [← hr]; exact hm ht ⟨zero_le_one, le_rfl⟩ ht.2

/-- on an open bin the search returns that bin -/
theorem idxN_of_mem (hv' : CubicValid e c uw uh) (k : ℕ) (hk : k < uw.length) (t : ℝ)
    (h0 : cws e c uw k < t) (h1 : t < cws e c uw (k+1)) : idxN e c uw t = k := by
  have hmono := ExecGlue.knots_mono (cws e c uw) uw.length (cws_strict hv')
  have ht0 : cws e c uw 0 ≤ t := le_trans (hmono 0 k (Nat.zero_le _) hk.le) h0.le
  have ht1 : t ≤ cws e c uw uw.length := le_trans h1.le (hmono (k+1) uw.length hk le_rfl)
  obtain ⟨hiK, hle, hr⟩ := (search_spec hv').1 t ht0 ht1
  set i := idxN e c uw t
  by_contra hne
  rcases Nat.lt_or_gt_of_ne hne with hlt | hgt
  · rcases hr with hr | ⟨hiK', hxr⟩
    · have : cws e c uw (i+1) ≤ cws e c uw k := hmono (i+1) k hlt hk.le
      linarith
    · omega
  · have : cws e c uw (k+1) ≤ cws e c uw i := hmono (k+1) i hgt hiK.le
    linarith

theorem nval_hasDerivAt (hv' : CubicValid e c uw uh) (k : ℕ) (hk : k < uw.length) (t : ℝ)
    (h0 : cws e c uw k < t) (h1 : t < cws e c uw (k+1)) :
    HasDerivAt (nval e c uw uh udl udr) (binD e c uw uh udl udr k t) t :=
  ExecGlue.hasDerivAt_in_bin (cws e c uw) uw.length (binN e c uw uh udl udr) (nval e c uw uh udl udr) (idxN e c uw)
    (cws_strict hv') (search_spec hv').1 (hF e c uw uh udl udr) (bin_join hv') k hk t _ h0 h1 (bin_hasDerivAt hv' k hk t)

/-- the executed derivative term at the two knots of a bin is the knot derivative: the spline is C¹ -/
theorem binD_knots (hv' : CubicValid e c uw uh) (k : ℕ) (hk : k < uw.length) :
    binD e c uw uh udl udr k (cws e c uw k) = dv e c uw uh udl udr k ∧
    binD e c uw uh udl udr k (cws e c uw (k+1)) = dv e c uw uh udl udr (k+1) := by
  have hw := wv_pos hv' k hk
  constructor
  · rw [binD_eq hv' k hk, sub_self, zero_div]; simp [Cubic.dpoly]
  · rw [binD_eq hv' k hk, cws_succ hv' k hk, add_sub_cancel_left, div_self hw.ne']; unfold Cubic.dpoly; ring

/-- **at an interior knot the normalised value is differentiable, with derivative the knot derivative** -/
theorem nval_hasDerivAt_knot (hv' : CubicValid e c uw uh) (k : ℕ) (hk : k + 1 < uw.length) :
    HasDerivAt (nval e c uw uh udl udr) (dv e c uw uh udl udr (k+1)) (cws e c uw (k+1)) := by
  have hk0 : k < uw.length := by omega
  have hab := cws_strict hv' k hk0
  have hbc := cws_strict hv' (k+1) hk
  have heqL := ExecGlue.eqOn_bin (cws e c uw) uw.length (binN e c uw uh udl udr) (nval e c uw uh udl udr) (idxN e c uw)
    (cws_strict hv') (search_spec hv').1 (hF e c uw uh udl udr) (bin_join hv') k hk0
  have heqR := ExecGlue.eqOn_bin (cws e c uw) uw.length (binN e c uw uh udl udr) (nval e c uw uh udl udr) (idxN e c uw)
    (cws_strict hv') (search_spec hv').1 (hF e c uw uh udl udr) (bin_join hv') (k+1) hk
  have hdL := (bin_hasDerivAt (udl := udl) (udr := udr) hv' k hk0 (cws e c uw (k+1))).hasDerivWithinAt
    (s := Set.Icc (cws e c uw k) (cws e c uw (k+1)))
  rw [(binD_knots hv' k hk0).2] at hdL
  have hdR := (bin_hasDerivAt (udl := udl) (udr := udr) hv' (k+1) hk (cws e c uw (k+1))).hasDerivWithinAt
    (s := Set.Icc (cws e c uw (k+1)) (cws e c uw (k+1+1)))
  rw [(binD_knots hv' (k+1) hk).1] at hdR
  have hL : HasDerivWithinAt (nval e c uw uh udl udr) (dv e c uw uh udl udr (k+1)) (Set.Iic (cws e c uw (k+1))) (cws e c uw (k+1)) :=
    (hdL.congr (fun y hy => heqL hy) (heqL ⟨hab.le, le_rfl⟩)).mono_of_mem_nhdsWithin (Icc_mem_nhdsLE hab)
  have hR : HasDerivWithinAt (nval e c uw uh udl udr) (dv e c uw uh udl udr (k+1)) (Set.Ici (cws e c uw (k+1))) (cws e c uw (k+1)) :=
    (hdR.congr (fun y hy => heqR hy) (heqR ⟨le_rfl, hbc.le⟩)).mono_of_mem_nhdsWithin (Icc_mem_nhdsGE hbc)
  have := hL.union hR
  rw [Set.Iic_union_Ici, hasDerivWithinAt_univ] at this
  exact this

/-- **everywhere in the open unit interval** (inside bins AND at interior knots) the derivative of the normalised value is
    the derivative term of the bin the executed search selects, and that term is positive -/
theorem nval_hasDerivAt_all (hv' : CubicValid e c uw uh) (t : ℝ) (ht0 : 0 < t) (ht1 : t < 1) :
    HasDerivAt (nval e c uw uh udl udr) (binD e c uw uh udl udr (idxN e c uw t) t) t ∧
    0 < binD e c uw uh udl udr (idxN e c uw t) t := by
  obtain ⟨hiK, hle, hr⟩ := (search_spec hv').1 t (by rw [cws_zero hv']; exact ht0.le) (by rw [cws_last hv']; exact ht1.le)
  have hlt : t < cws e c uw (idxN e c uw t + 1) := by
    rcases hr with hr | ⟨_, hr⟩
    · exact hr
    · rw [cws_last hv'] at hr; linarith
  refine ⟨?_, binD_pos hv' _ hiK t hle hlt.le⟩
  rcases eq_or_lt_of_le hle with heq | hlt0
  · -- `t` is a knot; it is not the first one because `0 < t`
    cases hi : idxN e c uw t with
    | zero => rw [hi, cws_zero hv'] at heq; linarith
    | succ j =>
      rw [hi] at heq hiK
      rw [← heq, (binD_knots hv' (j+1) hiK).1]
      exact nval_hasDerivAt_knot hv' j hiK
  · exact nval_hasDerivAt hv' _ hiK t hlt0 hlt

/-- generic glue (same shape as `ExecGlue`): per-bin continuity lifts to the whole searched function -/
theorem continuousOn_whole (xs : ℕ → ℝ) (K : ℕ) (f : ℕ → ℝ → ℝ) (F : ℝ → ℝ) (idx : ℝ → ℕ)
    (hx : ∀ k < K, xs k < xs (k+1)) (spec : ExecGlue.SearchSpec xs K idx)
    (hF : ∀ x, xs 0 ≤ x → x ≤ xs K → F x = f (idx x) x)
    (hjoin : ∀ k, k + 1 < K → f k (xs (k+1)) = f (k+1) (xs (k+1)))
    (hcont : ∀ k < K, ContinuousOn (f k) (Set.Icc (xs k) (xs (k+1)))) :
    ContinuousOn F (Set.Icc (xs 0) (xs K)) := by
  have hmono := ExecGlue.knots_mono xs K hx
  have key : ∀ k, k ≤ K → ContinuousOn F (Set.Icc (xs 0) (xs k)) := by
    intro k
    induction k with
    | zero => intro _; rw [Set.Icc_self]; exact continuousOn_singleton _ _
    | succ n ih =>
      intro hn
      rw [← Set.Icc_union_Icc_eq_Icc (hmono 0 n (Nat.zero_le _) (by omega)) (hx n (by omega)).le]
      exact (ih (by omega)).union_of_isClosed
        ((hcont n (by omega)).congr (ExecGlue.eqOn_bin xs K f F idx hx spec hF hjoin n (by omega)))
        isClosed_Icc isClosed_Icc
  exact key K le_rfl

/-- the normalised value is continuous on the whole unit interval -/
theorem nval_continuousOn (hv' : CubicValid e c uw uh) : ContinuousOn (nval e c uw uh udl udr) (Set.Icc 0 1) := by
  have := continuousOn_whole (cws e c uw) uw.length (binN e c uw uh udl udr) (nval e c uw uh udl udr) (idxN e c uw)
    (cws_strict hv') (search_spec hv').1 (hF e c uw uh udl udr) (bin_join hv')
    (fun k hk t _ => (bin_hasDerivAt hv' k hk t).continuousAt.continuousWithinAt)
  rw [cws_zero hv', cws_last hv'] at this
  exact this

/-! ### the value and log-abs-det the program returns, on the box -/

/-- what the program returns (0 on the error branch, which `exec_eq_bin` shows is not taken in the domain) -/
def val (e : Float → ℝ) (c : CCfg) (uw uh : List ℝ) (udl udr : ℝ) (x : ℝ) : ℝ :=
  match cubicSpline (NF.realX e) c uw uh udl udr false x with
  | .ok r => r.1
  | .error _ => 0
def ld (e : Float → ℝ) (c : CCfg) (uw uh : List ℝ) (udl udr : ℝ) (x : ℝ) : ℝ :=
  match cubicSpline (NF.realX e) c uw uh udl udr false x with
  | .ok r => r.2.1
  | .error _ => 0

/-- x-knots in box coordinates -/
def xk (e : Float → ℝ) (c : CCfg) (uw : List ℝ) (k : ℕ) : ℝ := e c.box.left + (e c.box.right - e c.box.left) * cws e c uw k

/-- **the clamp is the identity in the domain**: its argument already lies in `[0,1]` -/
theorem clamp_inactive (hv' : CubicValid e c uw uh) (x : ℝ) (hx0 : e c.box.left ≤ x) (hx1 : x ≤ e c.box.right) :
    0 ≤ nval e c uw uh udl udr (xn e c x) ∧ nval e c uw uh udl udr (xn e c x) ≤ 1 ∧
    (NF.realX e).clamp 0 1 (nval e c uw uh udl udr (xn e c x)) = nval e c uw uh udl udr (xn e c x) := by
  obtain ⟨ht0, ht1⟩ := xn_unit hv' x hx0 hx1
  obtain ⟨h0, h1⟩ := nval_mapsTo (udl := udl) (udr := udr) hv' ⟨ht0, ht1⟩
  exact ⟨h0, h1, realX_clamp01 e _ h0 h1⟩

theorem val_eq (hv' : CubicValid e c uw uh) (x : ℝ) (hx0 : e c.box.left ≤ x) (hx1 : x ≤ e c.box.right) :
    val e c uw uh udl udr x = nval e c uw uh udl udr (xn e c x) * (e c.box.top - e c.box.bottom) + e c.box.bottom := by
  unfold val
  rw [exec_eq_bin hv' x hx0 hx1]
  have := (clamp_inactive (udl := udl) (udr := udr) hv' x hx0 hx1).2.2
  unfold nval at this
  simp only [this, hv'.hdbt]
  rfl

theorem ld_eq (hv' : CubicValid e c uw uh) (x : ℝ) (hx0 : e c.box.left ≤ x) (hx1 : x ≤ e c.box.right) :
    ld e c uw uh udl udr x
      = Real.log (binD e c uw uh udl udr (idxN e c uw (xn e c x)) (xn e c x)) + e (boxLog c.box) := by
  unfold ld
  rw [exec_eq_bin hv' x hx0 hx1]

/-- **C09: the executed cubic spline is strictly increasing on the whole box** -/
theorem val_strictMonoOn (hv' : CubicValid e c uw uh) :
    StrictMonoOn (val e c uw uh udl udr) (Set.Icc (e c.box.left) (e c.box.right)) := by
  intro a ha b hb hab
  rw [val_eq hv' a ha.1 ha.2, val_eq hv' b hb.1 hb.2]
  have hD : 0 < e c.box.right - e c.box.left := sub_pos.mpr hv'.hlr
  have hT : 0 < e c.box.top - e c.box.bottom := sub_pos.mpr hv'.hbt
  have hta := xn_unit hv' a ha.1 ha.2
  have htb := xn_unit hv' b hb.1 hb.2
  have hlt : xn e c a < xn e c b := by
    rw [xn_eq hv', xn_eq hv']
    exact div_lt_div_of_pos_right (by linarith) hD
  have := nval_strictMonoOn (udl := udl) (udr := udr) hv' ⟨hta.1, hta.2⟩ ⟨htb.1, htb.2⟩ hlt
  nlinarith

/-- **… and pins both corners of the box**: `left ↦ bottom`, `right ↦ top` -/
theorem val_endpoints (hv' : CubicValid e c uw uh) :
    val e c uw uh udl udr (e c.box.left) = e c.box.bottom ∧ val e c uw uh udl udr (e c.box.right) = e c.box.top := by
  have hD : 0 < e c.box.right - e c.box.left := sub_pos.mpr hv'.hlr
  obtain ⟨h0, h1⟩ := nval_endpoints (udl := udl) (udr := udr) hv'
  constructor
  · rw [val_eq hv' _ le_rfl hv'.hlr.le, xn_eq hv', sub_self, zero_div, h0]; ring
  · rw [val_eq hv' _ hv'.hlr.le le_rfl, xn_eq hv', div_self hD.ne', h1]; ring

/-- … so it maps the box into `[bottom, top]` -/
theorem val_mapsTo (hv' : CubicValid e c uw uh) :
    Set.MapsTo (val e c uw uh udl udr) (Set.Icc (e c.box.left) (e c.box.right)) (Set.Icc (e c.box.bottom) (e c.box.top)) := by
  intro x hx
  have hm := (val_strictMonoOn (udl := udl) (udr := udr) hv').monotoneOn
  obtain ⟨hl, hr⟩ := val_endpoints (udl := udl) (udr := udr) hv'
  have hlr := hv'.hlr.le
  constructor
  · rw [← hl]; exact hm ⟨le_rfl, hlr⟩ hx hx.1
  · rw [← hr]; exact hm hx ⟨hlr, le_rfl⟩ hx.2

/-- the executed value is continuous on the whole box -/
theorem val_continuousOn (hv' : CubicValid e c uw uh) :
    ContinuousOn (val e c uw uh udl udr) (Set.Icc (e c.box.left) (e c.box.right)) := by
  have hlin : ContinuousOn (fun y : ℝ => (y - e c.box.left) / (e c.box.right - e c.box.left))
      (Set.Icc (e c.box.left) (e c.box.right)) :=
    ((continuous_id.sub continuous_const).div_const _).continuousOn
  have hmaps : Set.MapsTo (fun y : ℝ => (y - e c.box.left) / (e c.box.right - e c.box.left))
      (Set.Icc (e c.box.left) (e c.box.right)) (Set.Icc 0 1) := by
    intro y hy
    have := xn_unit hv' y hy.1 hy.2
    rw [xn_eq hv'] at this
    exact ⟨this.1, this.2⟩
  have hcomp := (nval_continuousOn (udl := udl) (udr := udr) hv').comp hlin hmaps
  have hfull := (hcomp.mul continuousOn_const).add
    (continuousOn_const (c := e c.box.bottom) (s := Set.Icc (e c.box.left) (e c.box.right)))
      (f := fun y => (nval e c uw uh udl udr ∘ fun y : ℝ => (y - e c.box.left) / (e c.box.right - e c.box.left)) y
        * (e c.box.top - e c.box.bottom))
  refine hfull.congr (fun y hy => ?_)
  rw [val_eq hv' y hy.1 hy.2, xn_eq hv']
  rfl

/-- **C09: the executed cubic spline is a strictly increasing BIJECTION of `[left, right]` onto `[bottom, top]`** -/
theorem val_bijOn (hv' : CubicValid e c uw uh) :
    Set.BijOn (val e c uw uh udl udr) (Set.Icc (e c.box.left) (e c.box.right)) (Set.Icc (e c.box.bottom) (e c.box.top)) := by
  refine ⟨val_mapsTo hv', (val_strictMonoOn hv').injOn, ?_⟩
  have := intermediate_value_Icc hv'.hlr.le (val_continuousOn (udl := udl) (udr := udr) hv')
  obtain ⟨hl, hr⟩ := val_endpoints (udl := udl) (udr := udr) hv'
  rw [hl, hr] at this
  exact this

/-- **C01 on the whole open box**: at EVERY `x ∈ (left, right)` — inside bins and at interior knots — the executed value
    is differentiable and its derivative is `exp` of the executed log-abs-det; the only extra hypothesis is that the
    reading of the Python double `log((top-bottom)/(right-left))` is that real logarithm. -/
theorem val_hasDerivAt_all (hv' : CubicValid e c uw uh)
    (hbl : e (boxLog c.box) = Real.log ((e c.box.top - e c.box.bottom) / (e c.box.right - e c.box.left)))
    (x : ℝ) (hxL : e c.box.left < x) (hxR : x < e c.box.right) :
    HasDerivAt (val e c uw uh udl udr) (Real.exp (ld e c uw uh udl udr x)) x := by
  have hD : 0 < e c.box.right - e c.box.left := sub_pos.mpr hv'.hlr
  have hT : 0 < e c.box.top - e c.box.bottom := sub_pos.mpr hv'.hbt
  have ht0 : 0 < (x - e c.box.left) / (e c.box.right - e c.box.left) := div_pos (by linarith) hD
  have ht1 : (x - e c.box.left) / (e c.box.right - e c.box.left) < 1 := by rw [div_lt_one hD]; linarith
  obtain ⟨hN, hpos⟩ := nval_hasDerivAt_all (udl := udl) (udr := udr) hv' _ ht0 ht1
  rw [ld_eq hv' x hxL.le hxR.le, xn_eq hv', hbl, Real.exp_add, Real.exp_log hpos, Real.exp_log (div_pos hT hD)]
  have hlin : HasDerivAt (fun y : ℝ => (y - e c.box.left) / (e c.box.right - e c.box.left))
      (1 / (e c.box.right - e c.box.left)) x := by
    simpa using ((hasDerivAt_id x).sub_const (e c.box.left)).div_const (e c.box.right - e c.box.left)
  have hc := ((HasDerivAt.comp x hN hlin).mul_const (e c.box.top - e c.box.bottom)).add_const (e c.box.bottom)
  have hev : val e c uw uh udl udr =ᶠ[nhds x]
      fun y => (nval e c uw uh udl udr ∘ fun y : ℝ => (y - e c.box.left) / (e c.box.right - e c.box.left)) y
        * (e c.box.top - e c.box.bottom) + e c.box.bottom := by
    have hmem : Set.Ioo (e c.box.left) (e c.box.right) ∈ nhds x := Ioo_mem_nhds hxL hxR
    refine Filter.eventuallyEq_of_mem hmem (fun y hy => ?_)
    rw [val_eq hv' y hy.1.le hy.2.le, xn_eq hv']
    rfl
  refine (hc.congr_of_eventuallyEq hev).congr_deriv ?_
  field_simp

/-- the argument of the `log` in the returned log-abs-det is positive at every point of the domain -/
theorem ld_arg_pos (hv' : CubicValid e c uw uh) (x : ℝ) (hx0 : e c.box.left ≤ x) (hx1 : x ≤ e c.box.right) :
    0 < binD e c uw uh udl udr (idxN e c uw (xn e c x)) (xn e c x) := by
  obtain ⟨ht0, ht1⟩ := xn_unit hv' x hx0 hx1
  obtain ⟨hiK, hle, hr⟩ := (search_spec hv').1 (xn e c x) (by rw [cws_zero hv']; exact ht0) (by rw [cws_last hv']; exact ht1)
  refine binD_pos hv' _ hiK _ hle ?_
  rcases hr with hr | ⟨hK, hr⟩
  · exact hr.le
  · rw [hK]; exact hr.le

/-- C01 in the per-bin form of the other spline families: inside the open bin `k` (box coordinates) -/
theorem val_hasDerivAt (hv' : CubicValid e c uw uh)
    (hbl : e (boxLog c.box) = Real.log ((e c.box.top - e c.box.bottom) / (e c.box.right - e c.box.left)))
    (k : ℕ) (hk : k < uw.length) (x : ℝ) (h0 : xk e c uw k < x) (h1 : x < xk e c uw (k+1)) :
    HasDerivAt (val e c uw uh udl udr) (Real.exp (ld e c uw uh udl udr x)) x := by
  have hD : 0 < e c.box.right - e c.box.left := sub_pos.mpr hv'.hlr
  have hmono := ExecGlue.knots_mono (cws e c uw) uw.length (cws_strict hv')
  have hck0 : 0 ≤ cws e c uw k := by rw [← cws_zero hv']; exact hmono 0 k (Nat.zero_le _) hk.le
  have hck1 : cws e c uw (k+1) ≤ 1 := by rw [← cws_last hv']; exact hmono (k+1) uw.length hk le_rfl
  unfold xk at h0 h1
  exact val_hasDerivAt_all hv' hbl x (by nlinarith) (by nlinarith)

/-- the y-knots are interpolated by the whole executed function: `val (x_k) = bottom + (top - bottom) · cumh_k` -/
theorem val_knot (hv' : CubicValid e c uw uh) (k : ℕ) (hk : k ≤ uw.length) :
    val e c uw uh udl udr (xk e c uw k) = e c.box.bottom + (e c.box.top - e c.box.bottom) * chs e c uh k := by
  have hD : 0 < e c.box.right - e c.box.left := sub_pos.mpr hv'.hlr
  have hmono := ExecGlue.knots_mono (cws e c uw) uw.length (cws_strict hv')
  have hck0 : 0 ≤ cws e c uw k := by rw [← cws_zero hv']; exact hmono 0 k (Nat.zero_le _) hk
  have hck1 : cws e c uw k ≤ 1 := by rw [← cws_last hv']; exact hmono k uw.length hk le_rfl
  have hx0 : e c.box.left ≤ xk e c uw k := by unfold xk; nlinarith
  have hx1 : xk e c uw k ≤ e c.box.right := by unfold xk; nlinarith
  have hxn : xn e c (xk e c uw k) = cws e c uw k := by
    rw [xn_eq hv']; unfold xk; field_simp; ring
  have hnv : nval e c uw uh udl udr (cws e c uw k) = chs e c uh k := by
    have hK := K_pos hv'
    rcases Nat.lt_or_ge k uw.length with h | h
    · have := ExecGlue.eqOn_bin (cws e c uw) uw.length (binN e c uw uh udl udr) (nval e c uw uh udl udr) (idxN e c uw)
        (cws_strict hv') (search_spec hv').1 (hF e c uw uh udl udr) (bin_join hv') k h
        ⟨le_rfl, (cws_strict hv' k h).le⟩
      rw [this, (bin_endpoints hv' k h).1]
    · have hkK : k = uw.length := by omega
      rw [hkK, cws_last hv', chs_last hv']; exact (nval_endpoints hv').2
  rw [val_eq hv' _ hx0 hx1, hxn, hnv]; ring

/-- in-domain totality in the plain existential form -/
theorem exec_total (hv' : CubicValid e c uw uh) (x : ℝ) (hx0 : e c.box.left ≤ x) (hx1 : x ≤ e c.box.right) :
    ∃ r, cubicSpline (NF.realX e) c uw uh udl udr false x = .ok r := ⟨_, exec_eq_bin hv' x hx0 hx1⟩

/-! ### non-vacuity: a concrete accepted configuration (two bins on the unit box) with a concrete reading of the doubles -/

def eNV (f : Float) : ℝ := if f == 0.0 then 0 else 1
def cNV : CCfg := { box := ⟨0.0, 1.0, 0.0, 1.0⟩, minW := 0.0, minH := 0.0 }

private theorem b0 : ((0.0:Float) == 0.0) = true := by decide +kernel
private theorem b1 : ((1.0:Float) == 0.0) = false := by decide +kernel
private theorem b2 : ((1e-6:Float) == 0.0) = false := by decide +kernel
private theorem b3 : (((1:Float) - 0.0 * (2:Nat).toFloat) == 0.0) = false := by decide +kernel
private theorem b4 : (((1.0:Float) - 0.0) == 0.0) = false := by decide +kernel
private theorem b5 : ((0.5:Float) == 0.0) = false := by decide +kernel
private theorem g1 : ¬ ((0.0:Float) * (2:Nat).toFloat > 1.0) := by decide +kernel

theorem valid_example : CubicValid eNV cNV [0, 0] [0, 0] where
  hK := by simp
  hlenh := rfl
  hgW := g1
  hgH := g1
  hmW0 := by simp [eNV, cNV, b0]
  hcW := by simp [eNV, cNV, b0, b3]
  hmWK := by simp [eNV, cNV, b0]
  hmH0 := by simp [eNV, cNV, b0]
  hcH := by simp [eNV, cNV, b0, b3]
  hmHK := by simp [eNV, cNV, b0]
  hlr := by simp [eNV, cNV, b0, b1]
  hdlr := by simp [eNV, cNV, b0, b1, b4]
  hbt := by simp [eNV, cNV, b0, b1]
  hdbt := by simp [eNV, cNV, b0, b1, b4]
  hseps := by simp [eNV, cNV, b2]
  hhalf := by simp [eNV, b5]

/-- the extra hypothesis of `val_hasDerivAt_all` holds for the example as soon as the (kernel-opaque) `Float.log`
    evaluates `log((1-0)/(1-0))` to `0.0` -/
theorem hbl_example (h : (boxLog cNV.box == 0.0) = true) :
    eNV (boxLog cNV.box)
      = Real.log ((eNV cNV.box.top - eNV cNV.box.bottom) / (eNV cNV.box.right - eNV cNV.box.left)) := by
  have h1 : eNV (boxLog cNV.box) = 0 := by unfold eNV; rw [if_pos h]
  rw [h1]
  simp [eNV, cNV, b0, b1]

end
end CubicWhole
