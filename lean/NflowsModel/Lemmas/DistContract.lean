import NflowsModel.Core.Dist
import Mathlib.Tactic
/-!
# Lemmas/DistContract — helper lemmas for C18: torch shape primitives, the hook contract, the generic interface
-/
namespace NF.Dist

/-- every dimension positive -/
def Pos (s : Shape) : Prop := ∀ d ∈ s, 0 < d

theorem numel_pos {s : Shape} (h : Pos s) : 0 < numel s := by
  induction s with
  | nil => simp [numel]
  | cons d r ih =>
    simp only [numel]
    exact Nat.mul_pos (h d (by simp)) (ih (fun x hx => h x (by simp [hx])))

theorem Pos.tail {d : Nat} {s : Shape} (h : Pos (d :: s)) : Pos s := fun x hx => h x (by simp [hx])

/-! ### reshape -/

theorem reshapeInfer0_ok (x rest : Shape) (k : Nat) (hP : 0 < numel rest) (hx : numel x = k * numel rest) :
    reshapeInfer0 x rest = .ok (k :: rest) := by
  unfold reshapeInfer0
  have h1 : ¬ numel rest = 0 := by omega
  have h2 : ¬ (numel x % numel rest ≠ 0) := by rw [hx]; simp
  have h3 : numel x / numel rest = k := by rw [hx]; exact Nat.mul_div_cancel k hP
  simp only [h1, h2, if_false, h3]

theorem mergeLeadingDims2_ok (a b : Nat) (rest : Shape) (hP : 0 < numel rest) :
    mergeLeadingDims2 (a :: b :: rest) = .ok (a * b :: rest) := by
  unfold mergeLeadingDims2
  exact reshapeInfer0_ok _ _ _ hP (by simp [numel, Nat.mul_assoc])

theorem splitLeadingDim2_ok (a b : Nat) (rest : Shape) :
    splitLeadingDim2 (a * b :: rest) a b = .ok (a :: b :: rest) := by
  simp [splitLeadingDim2, reshapeTo, numel, Nat.mul_assoc]

theorem splitLeadingDimInfer_ok (R n : Nat) (rest : Shape) (hn : 0 < n) (hP : 0 < numel rest) :
    splitLeadingDimInfer (R * n :: rest) n = .ok (R :: n :: rest) := by
  unfold splitLeadingDimInfer
  exact reshapeInfer0_ok _ _ _ (by simp only [numel]; exact Nat.mul_pos hn hP) (by simp [numel, Nat.mul_assoc])

theorem repeatRows_ok (r : Nat) (rest : Shape) (num : PyVal) (hnum : isPositiveInt num = true) (hP : 0 < numel rest) :
    repeatRows (r :: rest) num = .ok (r * num.toNat :: rest) := by
  unfold repeatRows
  simp only [hnum, Bool.not_true, Bool.false_eq_true, if_false]
  exact mergeLeadingDims2_ok _ _ _ hP

theorem repeatRows_typeError (x : Shape) (num : PyVal) (hnum : isPositiveInt num = false) :
    repeatRows x num = .error .typeError := by
  simp [repeatRows, hnum]

theorem toNat_pos {num : PyVal} (h : isPositiveInt num = true) : 0 < num.toNat := by
  cases num with
  | int n => simp [isPositiveInt] at h; simp [PyVal.toNat]; omega
  | bool b => simp [isPositiveInt] at h; subst h; simp [PyVal.toNat]
  | float => simp [isPositiveInt] at h
  | none => simp [isPositiveInt] at h
  | str => simp [isPositiveInt] at h

/-! ### broadcasting -/

theorem broadcastRev_self (s : Shape) : broadcastRev s s = .ok s := by
  induction s with
  | nil => simp [broadcastRev]
  | cons a r ih => simp [broadcastRev, ih, Except.map]

theorem broadcast_self (s : Shape) : broadcast s s = .ok s := by
  simp [broadcast, broadcastRev_self, Except.map]

/-! ### cat -/

theorem agreeOff_dim0 (event : Shape) (a b : Nat) : agreeOff 0 (a :: event) (b :: event) = true := by
  simp only [agreeOff, List.length_cons, beq_self_eq_true, Bool.true_and, List.all_eq_true, List.mem_range]
  intro i _
  cases i with
  | zero => simp
  | succ j => simp

theorem agreeOff_dim1 (R : Nat) (event : Shape) (a b : Nat) :
    agreeOff 1 (R :: a :: event) (R :: b :: event) = true := by
  simp only [agreeOff, List.length_cons, beq_self_eq_true, Bool.true_and, List.all_eq_true, List.mem_range]
  intro i _
  match i with
  | 0 => simp
  | 1 => simp
  | j + 2 => simp

theorem cat_dim0 (event : Shape) : ∀ l : List Nat, l ≠ [] →
    catShapes 0 (l.map (fun a => a :: event)) = .ok (l.sum :: event) := by
  intro l hl
  cases l with
  | nil => exact absurd rfl hl
  | cons a t =>
    simp only [List.map_cons, catShapes]
    have hall : (t.map (fun a => a :: event)).all (agreeOff 0 (a :: event)) = true := by
      simp [List.all_eq_true, agreeOff_dim0]
    simp [hall, Function.comp_def]

theorem cat_dim1 (R : Nat) (event : Shape) : ∀ l : List Nat, l ≠ [] →
    catShapes 1 (l.map (fun a => R :: a :: event)) = .ok (R :: l.sum :: event) := by
  intro l hl
  cases l with
  | nil => exact absurd rfl hl
  | cons a t =>
    simp only [List.map_cons, catShapes]
    have hall : (t.map (fun a => R :: a :: event)).all (agreeOff 1 (R :: a :: event)) = true := by
      simp [List.all_eq_true, agreeOff_dim1]
    simp [hall, Function.comp_def]

theorem sum_replicate (q b : Nat) : (List.replicate q b).sum = q * b := by
  induction q with
  | zero => simp
  | succ k ih => simp [List.replicate_succ, ih, Nat.succ_mul, Nat.add_comm]

theorem batchSizes_sum (n b : Nat) : (batchSizes n b).sum = n := by
  unfold batchSizes
  have := Nat.div_add_mod n b
  by_cases h : n % b > 0
  · simp [h]; rw [Nat.mul_comm] at this; omega
  · simp [h]; rw [Nat.mul_comm] at this; omega

theorem batchSizes_ne_nil (n b : Nat) (hn : 0 < n) (hb : 0 < b) : batchSizes n b ≠ [] := by
  unfold batchSizes
  by_cases h : n % b > 0
  · simp [h]
  · have hz : n % b = 0 := by omega
    have hq : 0 < n / b := Nat.div_pos (Nat.le_of_dvd hn (Nat.dvd_of_mod_eq_zero hz)) hb
    simp only [h, if_false, List.append_nil, ne_eq, List.replicate_eq_nil_iff]
    omega

/-! ### the hook contract: what a subclass owes the generic interface -/

/-- `_sample` of a class with event shape `event`, for contexts whose ROW shape satisfies `okRow`
    (`none` = no context; `some rest` = a context of shape `[R] ++ rest` for any `R`).
    Without a context the count must not be a `bool` (`torch.randn(True, …)` is a TypeError). -/
structure SampleSpec (h : Hooks) (event : Shape) (okRow : Option Shape → Prop) : Prop where
  noctx : okRow none → ∀ num, isPositiveInt num = true → num.isBool = false →
    h.sampleHook num none = .ok (num.toNat :: event)
  ctx : ∀ R rest, okRow (some rest) → Pos rest → ∀ num, isPositiveInt num = true →
    h.sampleHook num (some (R :: rest)) = .ok (R :: num.toNat :: event)

/-- `_log_prob` of a class with event shape `event` -/
structure LogProbSpec (h : Hooks) (event : Shape) (okRow : Option Shape → Prop) : Prop where
  noctx : okRow none → ∀ rows, h.logProbHook (rows :: event) none = .ok [rows]
  ctx : ∀ rows rest, okRow (some rest) → Pos rest → h.logProbHook (rows :: event) (some (rows :: rest)) = .ok [rows]

/-- the full contract of a distribution object (hooks + its public `sample_and_log_prob`) -/
structure DistSpec (d : Dist) (event : Shape) (okRow : Option Shape → Prop) : Prop where
  sample : SampleSpec d.hooks event okRow
  logProb : LogProbSpec d.hooks event okRow
  salp_noctx : okRow none → ∀ num, isPositiveInt num = true → num.isBool = false →
    d.salp num none = .ok (num.toNat :: event, [num.toNat])
  salp_ctx : ∀ R rest, okRow (some rest) → Pos rest → ∀ num, isPositiveInt num = true →
    d.salp num (some (R :: rest)) = .ok (R :: num.toNat :: event, [R, num.toNat])

/-! ### the generic public interface -/

theorem sample_typeError_of_not_posInt (h : Hooks) (num : PyVal) (ctx : Option Shape) (batch : PyVal)
    (hn : isPositiveInt num = false) : h.sample num ctx batch = .error .typeError := by
  simp [Hooks.sample, hn]

theorem sample_typeError_of_bad_batch (h : Hooks) (num : PyVal) (ctx : Option Shape) (batch : PyVal)
    (hb : isPositiveInt batch = false) (hb' : batch ≠ .none) : h.sample num ctx batch = .error .typeError := by
  unfold Hooks.sample
  split
  · rfl
  · cases batch <;> simp_all

theorem sample_unbatched (h : Hooks) (num : PyVal) (ctx : Option Shape) (hn : isPositiveInt num = true) :
    h.sample num ctx .none = h.sampleHook num ctx := by
  simp [Hooks.sample, hn]

@[simp] theorem ok_bind {α β : Type} (a : α) (f : α → Except DErr β) : (Except.ok a >>= f) = f a := rfl
@[simp] theorem error_bind {α β : Type} (e : DErr) (f : α → Except DErr β) : (Except.error e >>= f) = .error e := rfl
@[simp] theorem pure_eq_ok {α : Type} (a : α) : (pure a : Except DErr α) = .ok a := rfl
@[simp] theorem map_ok {α β : Type} (a : α) (f : α → β) : Except.map f (Except.ok a : Except DErr α) = .ok (f a) := rfl
@[simp] theorem map_error {α β : Type} (e : DErr) (f : α → β) : Except.map f (Except.error e : Except DErr α) = .error e := rfl

theorem mapM_replicate_ok {α β : Type} (f : α → Except DErr β) (a : α) (b : β) (hf : f a = .ok b) (q : Nat) :
    (List.replicate q a).mapM f = .ok (List.replicate q b) := by
  induction q with
  | zero => rfl
  | succ k ih => simp [List.replicate_succ, List.mapM_cons, hf, ih]

/-- batched generation, generic form: if the hook returns `mk k` for a batch of `k` draws and `cat` of such pieces
    along `dim` adds the counts up, the result is `mk n` -/
theorem sample_batched_generic (h : Hooks) (ctx : Option Shape) (n b : Nat) (hn : 0 < n) (hb : 0 < b)
    (mk : Nat → Shape)
    (hhook : ∀ k : Nat, 0 < k → h.sampleHook (.int k) ctx = .ok (mk k))
    (hcat : ∀ l : List Nat, l ≠ [] → catShapes (catDim ctx) (l.map mk) = .ok (mk l.sum)) :
    h.sample (.int n) ctx (.int b) = .ok (mk n) := by
  have h1 : isPositiveInt (.int (n : Int)) = true := by simp [isPositiveInt, hn]
  have h2 : isPositiveInt (.int (b : Int)) = true := by simp [isPositiveInt, hb]
  unfold Hooks.sample
  simp only [h1, h2, Bool.not_true, Bool.false_eq_true, if_false, PyVal.toNat, Int.toNat_natCast]
  rw [mapM_replicate_ok (fun k => h.sampleHook k ctx) _ _ (hhook b hb)]
  simp only [ok_bind]
  have key : ∀ rest : List Shape, rest = (if n % b > 0 then [n % b] else []).map mk →
      catShapes (catDim ctx) (List.replicate (n / b) (mk b) ++ rest) = .ok (mk n) := by
    intro rest hrest
    have : List.replicate (n / b) (mk b) ++ rest = (batchSizes n b).map mk := by
      simp [batchSizes, hrest, List.map_replicate]
    rw [this, hcat _ (batchSizes_ne_nil n b hn hb), batchSizes_sum]
  by_cases hr : n % b > 0
  · have hk := hhook (n % b) hr
    simp only [hr, if_true, hk, map_ok, ok_bind]
    exact key _ (by simp [hr])
  · simp only [hr, if_false, ok_bind]
    exact key _ (by simp [hr])

theorem isPositiveInt_natCast {k : Nat} (hk : 0 < k) : isPositiveInt (.int (k : Int)) = true := by
  simp [isPositiveInt, hk]

theorem sample_batched_noctx {h : Hooks} {event : Shape} {okRow : Option Shape → Prop}
    (S : SampleSpec h event okRow) (hok : okRow none) (n b : Nat) (hn : 0 < n) (hb : 0 < b) :
    h.sample (.int n) none (.int b) = .ok (n :: event) :=
  sample_batched_generic h none n b hn hb (fun k => k :: event)
    (fun k hk => by simpa [PyVal.toNat] using S.noctx hok (.int k) (isPositiveInt_natCast hk) rfl)
    (fun l hl => by simpa [catDim] using cat_dim0 event l hl)

theorem sample_batched_ctx {h : Hooks} {event : Shape} {okRow : Option Shape → Prop}
    (S : SampleSpec h event okRow) (R : Nat) (rest : Shape) (hok : okRow (some rest)) (hrest : Pos rest)
    (n b : Nat) (hn : 0 < n) (hb : 0 < b) :
    h.sample (.int n) (some (R :: rest)) (.int b) = .ok (R :: n :: event) :=
  sample_batched_generic h (some (R :: rest)) n b hn hb (fun k => R :: k :: event)
    (fun k hk => by simpa [PyVal.toNat] using S.ctx R rest hok hrest (.int k) (isPositiveInt_natCast hk))
    (fun l hl => by simpa [catDim] using cat_dim1 R event l hl)

/-! ### log_prob -/

theorem logProb_valueError_of_rows_ne (h : Hooks) (i r : Nat) (it ct : Shape) (hne : i ≠ r) :
    h.logProb (i :: it) (some (r :: ct)) = .error .valueError := by
  simp [Hooks.logProb, hne]

theorem logProb_ctx_ok {h : Hooks} {event : Shape} {okRow : Option Shape → Prop} (L : LogProbSpec h event okRow)
    (rows : Nat) (rest : Shape) (hok : okRow (some rest)) (hrest : Pos rest) :
    h.logProb (rows :: event) (some (rows :: rest)) = .ok [rows] := by
  simp [Hooks.logProb, L.ctx rows rest hok hrest]

theorem logProb_noctx_ok {h : Hooks} {event : Shape} {okRow : Option Shape → Prop} (L : LogProbSpec h event okRow)
    (rows : Nat) (hok : okRow none) : h.logProb (rows :: event) none = .ok [rows] := by
  simp [Hooks.logProb, L.noctx hok rows]

/-! ### the default sample_and_log_prob -/

theorem salp_default_noctx {h : Hooks} {event : Shape} {okRow : Option Shape → Prop}
    (S : SampleSpec h event okRow) (L : LogProbSpec h event okRow) (hok : okRow none)
    (num : PyVal) (hnum : isPositiveInt num = true) (hb : num.isBool = false) :
    h.sampleAndLogProb num none = .ok (num.toNat :: event, [num.toNat]) := by
  unfold Hooks.sampleAndLogProb
  rw [sample_unbatched h num none hnum, S.noctx hok num hnum hb]
  simp [logProb_noctx_ok L _ hok]

theorem salp_default_ctx {h : Hooks} {event : Shape} {okRow : Option Shape → Prop}
    (S : SampleSpec h event okRow) (L : LogProbSpec h event okRow) (hev : Pos event)
    (R : Nat) (rest : Shape) (hok : okRow (some rest)) (hrest : Pos rest)
    (num : PyVal) (hnum : isPositiveInt num = true) :
    h.sampleAndLogProb num (some (R :: rest)) = .ok (R :: num.toNat :: event, [R, num.toNat]) := by
  unfold Hooks.sampleAndLogProb
  rw [sample_unbatched h num _ hnum, S.ctx R rest hok hrest num hnum]
  have hn := toNat_pos hnum
  simp only [ok_bind, mergeLeadingDims2_ok R num.toNat event (numel_pos hev),
    repeatRows_ok R rest num hnum (numel_pos hrest), List.head?_cons, ne_eq, not_true_eq_false, if_false,
    logProb_ctx_ok L (R * num.toNat) rest hok hrest,
    splitLeadingDimInfer_ok R num.toNat event hn (numel_pos hev)]
  have : splitLeadingDimInfer [R * num.toNat] num.toNat = .ok [R, num.toNat] :=
    splitLeadingDimInfer_ok R num.toNat [] hn (by simp [numel])
  simp [this]

theorem salp_default_typeError (h : Hooks) (num : PyVal) (ctx : Option Shape) (hnum : isPositiveInt num = false) :
    h.sampleAndLogProb num ctx = .error .typeError := by
  unfold Hooks.sampleAndLogProb
  rw [sample_typeError_of_not_posInt h num ctx .none hnum]
  rfl

/-- a plain `Distribution` subclass meets the full contract as soon as its two hooks do -/
theorem toDist_spec {h : Hooks} {event : Shape} {okRow : Option Shape → Prop}
    (S : SampleSpec h event okRow) (L : LogProbSpec h event okRow) (hev : Pos event) :
    DistSpec h.toDist event okRow where
  sample := S
  logProb := L
  salp_noctx := fun hok num hnum hb => salp_default_noctx S L hok num hnum hb
  salp_ctx := fun R rest hok hrest num hnum => salp_default_ctx S L hev R rest hok hrest num hnum

/-! ### the concrete classes meet the hook contract -/

theorem stdNormal_sampleSpec (event : Shape) : SampleSpec (stdNormal event) event (fun _ => True) where
  noctx := fun _ num _ hb => by simp [stdNormal, hb]
  ctx := fun R rest _ _ num _ => by simp [stdNormal, splitLeadingDim2_ok]

theorem stdNormal_logProbSpec (event : Shape) : LogProbSpec (stdNormal event) event (fun _ => True) where
  noctx := fun _ rows => by simp [stdNormal]
  ctx := fun rows rest _ _ => by simp [stdNormal]

theorem diagNormal_logProbSpec (event : Shape) : LogProbSpec (diagNormal event) event (fun _ => True) where
  noctx := fun _ rows => by simp [diagNormal]
  ctx := fun rows rest _ _ => by simp [diagNormal]

theorem cdnParams_ok (event : Shape) (R : Nat) : cdnParams event (some [R, 2 * numel event]) = .ok (R :: event) := by
  simp [cdnParams, reshapeTo, numel]

theorem condDiagNormal_sampleSpec (event : Shape) (hev : Pos event) :
    SampleSpec (condDiagNormal event) event (fun r => r = some [2 * numel event]) where
  noctx := fun h => by simp at h
  ctx := fun R rest hok _ num hnum => by
    simp only [Option.some.injEq] at hok
    subst hok
    simp [condDiagNormal, cdnParams_ok, repeatRows_ok R event num hnum (numel_pos hev), splitLeadingDim2_ok]

theorem condDiagNormal_logProbSpec (event : Shape) :
    LogProbSpec (condDiagNormal event) event (fun r => r = some [2 * numel event]) where
  noctx := fun h => by simp at h
  ctx := fun rows rest hok _ => by
    simp only [Option.some.injEq] at hok
    subst hok
    simp [condDiagNormal, cdnParams_ok]

theorem bernParams_ok (event : Shape) (R : Nat) : bernParams event (some [R, numel event]) = .ok (R :: event) := by
  simp [bernParams, reshapeTo, numel]

theorem condBernoulli_sampleSpec (event : Shape) (hev : Pos event) :
    SampleSpec (condBernoulli event) event (fun r => r = some [numel event]) where
  noctx := fun h => by simp at h
  ctx := fun R rest hok _ num hnum => by
    simp only [Option.some.injEq] at hok
    subst hok
    simp [condBernoulli, bernParams_ok, repeatRows_ok R event num hnum (numel_pos hev), splitLeadingDim2_ok]

theorem condBernoulli_logProbSpec (event : Shape) :
    LogProbSpec (condBernoulli event) event (fun r => r = some [numel event]) where
  noctx := fun h => by simp at h
  ctx := fun rows rest hok _ => by
    simp only [Option.some.injEq] at hok
    subst hok
    simp [condBernoulli, bernParams_ok]

theorem madeMoG_sampleSpec (D C : Nat) (hD : 0 < D) (hC : 0 < C) :
    SampleSpec (madeMoG D C) [D] (fun r => r = some [C]) where
  noctx := fun h => by simp at h
  ctx := fun R rest hok _ num hnum => by
    simp only [Option.some.injEq] at hok
    subst hok
    have hn := toNat_pos hnum
    have h1 : repeatRows [R, C] num = .ok [R * num.toNat, C] := repeatRows_ok R [C] num hnum (by simp [numel, hC])
    have h2 : reshapeInfer0 [R * num.toNat, D] [num.toNat, D] = .ok [R, num.toNat, D] :=
      reshapeInfer0_ok _ _ R (by simp [numel]; exact ⟨hn, hD⟩) (by simp [numel, Nat.mul_assoc])
    simp [madeMoG, h1, h2]

/-- `MADEMoG.log_prob` works with a context of the declared width and also without one -/
theorem madeMoG_logProbSpec (D C : Nat) :
    LogProbSpec (madeMoG D C) [D] (fun r => r = none ∨ r = some [C]) where
  noctx := fun _ rows => by simp [madeMoG]
  ctx := fun rows rest hok _ => by
    rcases hok with h | h
    · simp at h
    · simp only [Option.some.injEq] at h
      subst h
      simp [madeMoG, broadcast_self]

theorem LogProbSpec.mono {h : Hooks} {event : Shape} {ok ok' : Option Shape → Prop}
    (L : LogProbSpec h event ok) (himp : ∀ r, ok' r → ok r) : LogProbSpec h event ok' where
  noctx := fun hr rows => L.noctx (himp _ hr) rows
  ctx := fun rows rest hr hp => L.ctx rows rest (himp _ hr) hp

/-! ### Flow inherits the contract from its base distribution -/

/-- output width of the embedding net for a raw context row of width `w` -/
def embWidth : Emb → Nat → Option Nat
  | .identity, w => some w
  | .linear cin cout, w => if w = cin then some cout else none

/-- the raw contexts a flow accepts (by row shape), given what its base distribution accepts:
    no context needs the identity embedding; a context row of width `w` must embed to the width `w'` the
    transform was built for, and the base must accept rows of that width -/
def okFlow (tr : Tr) (emb : Emb) (okB : Option Shape → Prop) : Option Shape → Prop
  | none => emb = .identity ∧ okB none
  | some rest => ∃ w w', rest = [w] ∧ embWidth emb w = some w' ∧ 0 < w' ∧ tr = .ctxAware w' ∧ okB (some [w'])

theorem emb_apply_ok {emb : Emb} {w w' : Nat} (h : embWidth emb w = some w') (R : Nat) :
    emb.apply (some [R, w]) = .ok (some [R, w']) := by
  cases emb with
  | identity => simp [embWidth] at h; subst h; rfl
  | linear cin cout =>
    simp only [embWidth] at h
    split at h
    · rename_i hw
      simp only [Option.some.injEq] at h
      subst h hw
      simp [Emb.apply]
    · simp at h

theorem tr_apply_noctx (tr : Tr) (event : Shape) (rows : Nat) :
    tr.apply event (rows :: event) none = .ok (rows :: event, [rows]) := by
  cases tr <;> simp [Tr.apply]

theorem tr_apply_ctx (C : Nat) (event : Shape) (rows : Nat) :
    (Tr.ctxAware C).apply event (rows :: event) (some [rows, C]) = .ok (rows :: event, [rows]) := by
  simp [Tr.apply]

theorem flow_spec {tr : Tr} {event : Shape} {base : Dist} {emb : Emb} {okB : Option Shape → Prop}
    (B : DistSpec base event okB) (hev : Pos event) :
    DistSpec (flow tr event base emb) event (okFlow tr emb okB) where
  sample :=
    { noctx := fun hok num hnum hb => by
        obtain ⟨he, hB⟩ := hok
        subst he
        simp only [flow, flowHooks, Emb.apply, ok_bind, Dist.sample, sample_unbatched _ num none hnum,
          B.sample.noctx hB num hnum hb, tr_apply_noctx, pure_eq_ok]
      ctx := fun R rest hok hrest num hnum => by
        obtain ⟨w, w', hr, hw, hw'pos, htr, hB⟩ := hok
        subst hr htr
        have hp : Pos [w'] := fun d hd => by simp at hd; subst hd; exact hw'pos
        have hn := toNat_pos hnum
        simp only [flow, flowHooks, emb_apply_ok hw R, ok_bind, Dist.sample, sample_unbatched _ num _ hnum,
          B.sample.ctx R [w'] hB hp num hnum, mergeLeadingDims2_ok R num.toNat event (numel_pos hev),
          repeatRows_ok R [w'] num hnum (numel_pos hp), tr_apply_ctx,
          splitLeadingDimInfer_ok R num.toNat event hn (numel_pos hev)] }
  logProb :=
    { noctx := fun hok rows => by
        obtain ⟨he, hB⟩ := hok
        subst he
        simp only [flow, flowHooks, Emb.apply, ok_bind, tr_apply_noctx, Dist.logProb,
          logProb_noctx_ok B.logProb rows hB, broadcast_self]
      ctx := fun rows rest hok hrest => by
        obtain ⟨w, w', hr, hw, hw'pos, htr, hB⟩ := hok
        subst hr htr
        have hp : Pos [w'] := fun d hd => by simp at hd; subst hd; exact hw'pos
        simp only [flow, flowHooks, emb_apply_ok hw rows, ok_bind, tr_apply_ctx, Dist.logProb,
          logProb_ctx_ok B.logProb rows [w'] hB hp, broadcast_self] }
  salp_noctx := fun hok num hnum hb => by
    obtain ⟨he, hB⟩ := hok
    subst he
    simp only [flow, flowSalp, Emb.apply, ok_bind, B.salp_noctx hB num hnum hb, tr_apply_noctx, broadcast_self,
      pure_eq_ok]
  salp_ctx := fun R rest hok hrest num hnum => by
    obtain ⟨w, w', hr, hw, hw'pos, htr, hB⟩ := hok
    subst hr htr
    have hp : Pos [w'] := fun d hd => by simp at hd; subst hd; exact hw'pos
    have hn := toNat_pos hnum
    have hl : splitLeadingDimInfer [R * num.toNat] num.toNat = .ok [R, num.toNat] :=
      splitLeadingDimInfer_ok R num.toNat [] hn (by simp [numel])
    simp only [flow, flowSalp, emb_apply_ok hw R, ok_bind, B.salp_ctx R [w'] hB hp num hnum,
      mergeLeadingDims2_ok R num.toNat event (numel_pos hev), repeatRows_ok R [w'] num hnum (numel_pos hp),
      tr_apply_ctx, splitLeadingDimInfer_ok R num.toNat event hn (numel_pos hev), hl, broadcast_self, pure_eq_ok]

/-! ### value level of batched generation -/

theorem piecesLayout_length (p : Nat) (l : List Nat) : (piecesLayout p l).length = l.sum := by
  induction l generalizing p with
  | nil => simp [piecesLayout]
  | cons a t ih => simp [piecesLayout, ih]

theorem piecesLayout_replicate (b : Nat) (hb : 0 < b) (t : List Nat) : ∀ (m p k : Nat),
    (k < m * b → (piecesLayout p (List.replicate m b ++ t))[k]? = some (p + k / b, k % b)) ∧
    (m * b ≤ k → (piecesLayout p (List.replicate m b ++ t))[k]? = (piecesLayout (p + m) t)[k - m * b]?) := by
  intro m
  induction m with
  | zero => intro p k; simp
  | succ m ih =>
    intro p k
    have hsplit : piecesLayout p (List.replicate (m + 1) b ++ t)
        = (List.range b).map (fun q => (p, q)) ++ piecesLayout (p + 1) (List.replicate m b ++ t) := by
      simp [List.replicate_succ, piecesLayout]
    rw [hsplit]
    have hmb : (m + 1) * b = m * b + b := by ring
    by_cases hk : k < b
    · constructor
      · intro _
        rw [List.getElem?_append_left (by simpa using hk)]
        simp [hk, Nat.div_eq_of_lt hk, Nat.mod_eq_of_lt hk]
      · intro h; omega
    · have hk' : b ≤ k := by omega
      rw [List.getElem?_append_right (by simpa using hk')]
      simp only [List.length_map, List.length_range]
      obtain ⟨ih1, ih2⟩ := ih (p + 1) (k - b)
      constructor
      · intro h
        rw [ih1 (by omega)]
        have hd : k / b = (k - b) / b + 1 := by
          rw [Nat.div_eq k b]; simp [hb, hk']
        have hm : k % b = (k - b) % b := Nat.mod_eq_sub_mod hk'
        rw [hd, hm]
        congr 2; omega
      · intro h
        rw [ih2 (by omega)]
        have e1 : p + 1 + m = p + (m + 1) := by omega
        have e2 : k - b - m * b = k - (m + 1) * b := by omega
        rw [e1, e2]

/-- draw `k` of a batched `sample(n, batch_size=b)` is draw `k mod b` of batch `k div b`, and there are `n` draws -/
theorem batchLayout_spec (n b : Nat) (hb : 0 < b) :
    (batchLayout n b).length = n ∧ ∀ k, k < n → (batchLayout n b)[k]? = some (k / b, k % b) := by
  constructor
  · simp [batchLayout, piecesLayout_length, batchSizes_sum]
  · intro k hk
    unfold batchLayout batchSizes
    obtain ⟨h1, h2⟩ := piecesLayout_replicate b hb (if n % b > 0 then [n % b] else []) (n / b) 0 k
    by_cases hlt : k < n / b * b
    · simpa using h1 hlt
    · have hge : n / b * b ≤ k := by omega
      rw [h2 hge]
      have hdm := Nat.div_add_mod n b
      have hr : n % b > 0 := by
        rcases Nat.eq_zero_or_pos (n % b) with h0 | h0
        · rw [h0, Nat.mul_comm] at hdm; omega
        · exact h0
      have hmodlt := Nat.mod_lt n hb
      have hq : k / b = n / b := by
        apply Nat.div_eq_of_lt_le
        · exact hge
        · have : (n / b + 1) * b = n / b * b + b := by ring
          rw [Nat.mul_comm] at hdm; omega
      have hkm : k % b = k - n / b * b := by
        have := Nat.div_add_mod k b
        rw [hq, Nat.mul_comm] at this; omega
      simp only [hr, if_true, piecesLayout, List.append_nil, Nat.zero_add]
      rw [List.getElem?_map, List.getElem?_range (by rw [Nat.mul_comm] at hdm; omega)]
      simp [hq, hkm]

/-! ### unified statements over "no context / a context the class accepts" -/

/-- the context argument is one the class accepts: `None` if the class works unconditionally, or a tensor
    `[R] ++ rest` (any `R`) with positive row dimensions of an accepted row shape -/
def Accepts (okRow : Option Shape → Prop) : Option Shape → Prop
  | none => okRow none
  | some [] => False
  | some (_ :: rest) => okRow (some rest) ∧ Pos rest

/-- number of context rows -/
def ctxRows : Option Shape → Option Nat
  | none => none
  | some [] => none
  | some (r :: _) => some r

/-- an argument the documentation allows for `batch_size`: `None` or a positive `int` -/
def GoodBatch : PyVal → Prop
  | .none => True
  | .int b => 0 < b
  | _ => False

theorem sample_ok {h : Hooks} {event : Shape} {okRow : Option Shape → Prop} (S : SampleSpec h event okRow)
    (ctx : Option Shape) (hctx : Accepts okRow ctx) (n : Nat) (hn : 0 < n) (batch : PyVal) (hb : GoodBatch batch) :
    h.sample (.int n) ctx batch = .ok (contractSample event (ctxRows ctx) n) := by
  have hpos := isPositiveInt_natCast hn
  cases batch with
  | none =>
    rw [sample_unbatched h _ ctx hpos]
    match ctx, hctx with
    | none, hc => simpa [PyVal.toNat, contractSample, ctxRows] using S.noctx hc (.int n) hpos rfl
    | some (R :: rest), hc => simpa [PyVal.toNat, contractSample, ctxRows] using S.ctx R rest hc.1 hc.2 (.int n) hpos
  | int b =>
    have hb' : 0 < b := hb
    obtain ⟨b', rfl⟩ : ∃ b' : Nat, b = (b' : Int) := ⟨b.toNat, by omega⟩
    have hb'' : 0 < b' := by exact_mod_cast hb'
    match ctx, hctx with
    | none, hc => simpa [contractSample, ctxRows] using sample_batched_noctx S hc n b' hn hb''
    | some (R :: rest), hc =>
      simpa [contractSample, ctxRows] using sample_batched_ctx S R rest hc.1 hc.2 n b' hn hb''
  | bool _ => exact absurd hb (by simp [GoodBatch])
  | float => exact absurd hb (by simp [GoodBatch])
  | str => exact absurd hb (by simp [GoodBatch])

theorem logProb_ok {h : Hooks} {event : Shape} {okRow : Option Shape → Prop} (L : LogProbSpec h event okRow)
    (rows : Nat) (ctx : Option Shape) (hctx : Accepts okRow ctx) (hrows : ∀ r, ctxRows ctx = some r → r = rows) :
    h.logProb (rows :: event) ctx = .ok [rows] := by
  match ctx, hctx with
  | none, hc => exact logProb_noctx_ok L rows hc
  | some (R :: rest), hc =>
    have : R = rows := hrows R rfl
    subst this
    exact logProb_ctx_ok L R rest hc.1 hc.2

theorem salp_ok {d : Dist} {event : Shape} {okRow : Option Shape → Prop} (D : DistSpec d event okRow)
    (ctx : Option Shape) (hctx : Accepts okRow ctx) (n : Nat) (hn : 0 < n) :
    d.salp (.int n) ctx = .ok (contractSample event (ctxRows ctx) n, contractLogProb (ctxRows ctx) n) := by
  have hpos := isPositiveInt_natCast hn
  match ctx, hctx with
  | none, hc => simpa [PyVal.toNat, contractSample, contractLogProb, ctxRows] using D.salp_noctx hc (.int n) hpos rfl
  | some (R :: rest), hc =>
    simpa [PyVal.toNat, contractSample, contractLogProb, ctxRows] using D.salp_ctx R rest hc.1 hc.2 (.int n) hpos

end NF.Dist
