import Mathlib.Tactic
import NflowsModel.Core.Wrappers
/-!
# Lemmas/WrappersExec — helper lemmas about the EXECUTABLE composite / inverse wrappers of `Core/Wrappers.lean`
-/
namespace NF.Wrap

variable {T C L : Type}

/-- the accumulator is a monoid: what is needed to re-associate `total_logabsdet += logabsdet` -/
structure LD.Lawful (A : LD L) : Prop where
  zero_add : ∀ a, A.add A.zero a = a
  add_zero : ∀ a, A.add a A.zero = a
  add_assoc : ∀ a b c, A.add (A.add a b) c = A.add a (A.add b c)

/-- the accumulator of an additive monoid (`ℝ` in particular) -/
def LD.std (L : Type) [AddMonoid L] : LD L := ⟨0, (· + ·)⟩

theorem LD.std_lawful (L : Type) [AddMonoid L] : (LD.std L).Lawful :=
  ⟨fun a => by simp [LD.std], fun a => by simp [LD.std], fun a b c => by simp [LD.std, add_assoc]⟩

@[simp] theorem LD.std_zero (L : Type) [AddMonoid L] : (LD.std L).zero = 0 := rfl
@[simp] theorem LD.std_add (L : Type) [AddMonoid L] (a b : L) : (LD.std L).add a b = a + b := rfl

/-- a part that never raises -/
def liftPure (p : T → C → T × L) : T → C → Except Err (T × L) := fun x c => .ok (p x c)

/-- shift the log-det of a result by `l` (on the left) -/
def shiftLd (A : LD L) (l : L) : Except Err (T × L) → Except Err (T × L)
  | .error e => .error e
  | .ok r => .ok (r.1, A.add l r.2)

@[simp] theorem shiftLd_ok (A : LD L) (l : L) (r : T × L) : shiftLd A l (.ok r) = .ok (r.1, A.add l r.2) := rfl
@[simp] theorem shiftLd_error (A : LD L) (l : L) (e : Err) : shiftLd A l (.error e : Except Err (T × L)) = .error e := rfl

theorem cascadeFrom_cons (A : LD L) (f : T → C → Except Err (T × L)) (fs) (x : T) (l : L) (c : C) :
    cascadeFrom A (f :: fs) x l c =
      match f x c with
      | .error e => .error e
      | .ok (y, ld) => cascadeFrom A fs y (A.add l ld) c := by
  simp only [cascadeFrom]
  rcases f x c with e | ⟨y, ld⟩ <;> rfl

theorem cascadeFrom_append (A : LD L) (fs gs : List (T → C → Except Err (T × L))) (x : T) (l : L) (c : C) :
    cascadeFrom A (fs ++ gs) x l c =
      match cascadeFrom A fs x l c with
      | .error e => .error e
      | .ok (y, l') => cascadeFrom A gs y l' c := by
  induction fs generalizing x l with
  | nil => simp [cascadeFrom]
  | cons f fs ih =>
    simp only [List.cons_append, cascadeFrom]
    cases f x c with
    | error e => simp
    | ok r => obtain ⟨y, ld⟩ := r; simp [ih]

/-- starting the loop with a running log-det `l` = starting from zero and adding `l` in front -/
theorem cascadeFrom_acc (A : LD L) (hA : A.Lawful) (fs : List (T → C → Except Err (T × L))) (x : T) (l : L) (c : C) :
    cascadeFrom A fs x l c = shiftLd A l (cascadeFrom A fs x A.zero c) := by
  induction fs generalizing x l with
  | nil => simp [cascadeFrom, hA.add_zero]
  | cons f fs ih =>
    simp only [cascadeFrom]
    cases f x c with
    | error e => simp
    | ok r =>
      obtain ⟨y, ld⟩ := r
      simp only []
      rw [ih y (A.add l ld), ih y (A.add A.zero ld)]
      cases cascadeFrom A fs y A.zero c with
      | error e => simp
      | ok r => simp [hA.zero_add, hA.add_assoc]

theorem cascade_cons (A : LD L) (hA : A.Lawful) (f : T → C → Except Err (T × L)) (fs) (x : T) (c : C) :
    cascade A (f :: fs) x c =
      match f x c with
      | .error e => .error e
      | .ok (y, ld) => shiftLd A ld (cascade A fs y c) := by
  simp only [cascade, cascadeFrom]
  cases f x c with
  | error e => simp
  | ok r => obtain ⟨y, ld⟩ := r; simp only []; rw [hA.zero_add, cascadeFrom_acc A hA]

theorem cascade_append (A : LD L) (hA : A.Lawful) (fs gs : List (T → C → Except Err (T × L))) (x : T) (c : C) :
    cascade A (fs ++ gs) x c =
      match cascade A fs x c with
      | .error e => .error e
      | .ok (y, l) => shiftLd A l (cascade A gs y c) := by
  simp only [cascade, cascadeFrom_append]
  cases cascadeFrom A fs x A.zero c with
  | error e => simp
  | ok r => obtain ⟨y, l⟩ := r; simp only []; rw [cascadeFrom_acc A hA]

theorem cascade_singleton (A : LD L) (f : T → C → Except Err (T × L)) (x : T) (c : C) :
    cascade A [f] x c = shiftLd A A.zero (f x c) := by
  simp only [cascade, cascadeFrom]
  cases f x c with
  | error e => simp
  | ok r => obtain ⟨y, l⟩ := r; simp

/-- a part whose inverse undoes its forward and negates the log-det (wherever the forward succeeds) -/
def GoodTr {G : Type} [AddCommGroup G] (t : Tr T C G) : Prop :=
  ∀ x c y l, t.fwd x c = .ok (y, l) → t.inv y c = .ok (x, -l)


end NF.Wrap
