import NflowsModel.Lemmas.DualXCoupling
import NflowsModel.Lemmas.DualXRQInvParam
/-!
# Lemmas/DualXCouplingInv — the chain rule through the EXECUTED coupling layer on dual numbers, INVERSE direction (C16)

The mirror of `Lemmas/DualXCoupling.lean` for `inverse = true` (bounded RQ kind, `uc = none`), on top of
`DualX.rqSpline_dual_inv_param_curve` (`Lemmas/DualXRQInvParam.lean`):

* `elTransform_rq_dual_inv`: one executed element (`elTransform … true`), raw parameter row and input along ANY differentiable
  curve: the dual run returns the real outputs and the TOTAL derivatives along the curve.
* `coupling_rq_dual_out_inv` (= `coupling_rq_dual_transformed_inv` + `coupling_dual_identity_inv`), `coupling_rq_dual_ld_inv`,
  `coupling_rq_dual_err_none_inv`: the executed `couplingApply … true` on dual arrays.
* non-vacuity: `cS_interiorI`, `elTransform_rq_dual_inv_example`, `coupling_rq_dual_example_inv`.
-/
open NF DualSound Filter Topology

namespace DualXCoupling
noncomputable section
open RQWhole RQInverseWhole DualX DualXParam NF.StructureExec

variable {e : Float → ℝ}
variable {F : ℝ → List ℝ} {t : ℝ} {ds : List (ℝ × ℝ)}

variable (e)

/-- the two outputs of the REAL executed element map in the inverse direction (`0` where it raises) -/
def elYI (c : ElCfg) (p : List ℝ) (x : ℝ) : ℝ := outOf (NF.realX e) (elTransform (NF.realX e) c true p x)
def elLI (c : ElCfg) (p : List ℝ) (x : ℝ) : ℝ := ldOf (NF.realX e) (elTransform (NF.realX e) c true p x)

/-- the hypotheses on one element, inverse direction: the sliced parameters are an accepted configuration, no derivative
    parameter sits on the softplus threshold, the input lies strictly inside a y-bin -/
structure RQElInteriorI (c : ElCfg) (p : List ℝ) (y : ℝ) : Prop where
  valid : RQValid e (rqCfgOf c) (rqW (NF.realX e) c p) (rqH (NF.realX e) c p) (rqD c p)
  thr : ∀ k < (rqD c p).length, e (rqCfgOf c).beta * (rqD c p).getD k 0 ≠ 20
  bin : ∃ k, k < (rqW (NF.realX e) c p).length ∧ ys e (rqCfgOf c) (rqH (NF.realX e) c p) k < y ∧
    y < ys e (rqCfgOf c) (rqH (NF.realX e) c p) (k+1)

variable {e}

theorem elYI_rq {c : ElCfg} (hk : c.kind = "rq") (ht : c.tails = false) (p : List ℝ) (x : ℝ) :
    elYI e c p x = inv e (rqCfgOf c) (rqW (NF.realX e) c p) (rqH (NF.realX e) c p) (rqD c p) x := by
  unfold elYI inv
  rw [elTransform_rq _ c hk ht]
  cases rqSpline (NF.realX e) (rqCfgOf c) (rqW (NF.realX e) c p) (rqH (NF.realX e) c p) (rqD c p) true x <;>
    simp [outOf, Except.map]

theorem elLI_rq {c : ElCfg} (hk : c.kind = "rq") (ht : c.tails = false) (p : List ℝ) (x : ℝ) :
    elLI e c p x = invLd e (rqCfgOf c) (rqW (NF.realX e) c p) (rqH (NF.realX e) c p) (rqD c p) x := by
  unfold elLI invLd
  rw [elTransform_rq _ c hk ht]
  cases rqSpline (NF.realX e) (rqCfgOf c) (rqW (NF.realX e) c p) (rqH (NF.realX e) c p) (rqD c p) true x <;>
    simp [ldOf, Except.map]

/-- the real inverse element succeeds on the whole closed domain -/
theorem elTransform_rq_real_ok_inv {c : ElCfg} (hk : c.kind = "rq") (ht : c.tails = false) {p : List ℝ} {x : ℝ}
    (hv : RQValid e (rqCfgOf c) (rqW (NF.realX e) c p) (rqH (NF.realX e) c p) (rqD c p))
    (hx0 : e (rqCfgOf c).box.bottom ≤ x) (hx1 : x ≤ e (rqCfgOf c).box.top) :
    elTransform (NF.realX e) c true p x = .ok (elYI e c p x, elLI e c p x, []) := by
  rw [elYI_rq hk ht, elLI_rq hk ht, elTransform_rq _ c hk ht, RQInverseWhole.exec_ok hv x hx0 hx1]
  rfl

/-- **chain rule through one executed element, INVERSE direction.**  `P` is ANY curve of raw parameter rows differentiable at
    `t`, `FX` the curve of the element's input; the dual run of `elTransform … true` (bounded RQ kind) on their
    (value, derivative) pairs returns the real outputs at `t` with tangents the TOTAL derivatives of
    `s ↦ elYI (P s) (FX s)` and `s ↦ elLI (P s) (FX s)` at `t`. -/
theorem elTransform_rq_dual_inv {c : ElCfg} (hk : c.kind = "rq") (ht : c.tails = false)
    {P : ℝ → List ℝ} {FX : ℝ → ℝ} {dp : List (ℝ × ℝ)} {dx : ℝ × ℝ}
    (hP : IsDualL P t dp) (hX : IsDual FX t dx) (hin : RQElInteriorI e c (P t) (FX t)) :
    ∃ y' l' : ℝ, elTransform (dualX (NF.realX e)) c true dp dx
        = .ok ((elYI e c (P t) (FX t), y'), (elLI e c (P t) (FX t), l'), []) ∧
      HasDerivAt (fun s => elYI e c (P s) (FX s)) y' t ∧ HasDerivAt (fun s => elLI e c (P s) (FX s)) l' t := by
  obtain ⟨k, hk', h0, h1⟩ := hin.bin
  obtain ⟨y', l', hrun, hy, hl⟩ := rqSpline_dual_inv_param_curve (c := rqCfgOf c) _ _ _ FX t _ _ _ dx hin.valid
    (rqW_dualL c hP) (rqH_dualL c hP) (rqD_dualL c hP) hX hin.thr k hk' h0 h1
  refine ⟨y', l', ?_, ?_, ?_⟩
  · rw [elTransform_rq _ c hk ht, hrun, elYI_rq hk ht, elLI_rq hk ht]
    rfl
  · simpa only [elYI_rq hk ht] using hy
  · simpa only [elLI_rq hk ht] using hl

/-- the real inverse element stays successful near `t` along the curve -/
theorem elTransform_rq_real_eventually_ok_inv {c : ElCfg} (hk : c.kind = "rq") (ht : c.tails = false)
    {P : ℝ → List ℝ} {FX : ℝ → ℝ} {dp : List (ℝ × ℝ)} {dx : ℝ × ℝ}
    (hP : IsDualL P t dp) (hX : IsDual FX t dx) (hin : RQElInteriorI e c (P t) (FX t)) :
    ∀ᶠ s in 𝓝 t, elTransform (NF.realX e) c true (P s) (FX s) = .ok (elYI e c (P s) (FX s), elLI e c (P s) (FX s), []) := by
  obtain ⟨k, hk', h0, h1⟩ := hin.bin
  have hv := hin.valid
  have hmono := ExecGlue.knots_mono (ys e (rqCfgOf c) (rqH (NF.realX e) c (P t))) _ (ys_strict hv)
  have hl : e (rqCfgOf c).box.bottom < FX t := by
    rw [← ys_zero hv]; exact lt_of_le_of_lt (hmono 0 k (Nat.zero_le _) hk'.le) h0
  have hr : FX t < e (rqCfgOf c).box.top := by
    rw [← ys_last hv]; exact lt_of_lt_of_le h1 (hmono (k+1) _ hk' le_rfl)
  have hc := hX.2.continuousAt
  filter_upwards [hc.eventually (lt_mem_nhds hl), hc.eventually (gt_mem_nhds hr)] with s hs0 hs1
  have hW := rqW_dualL (e := e) c hP
  have hH := rqH_dualL (e := e) c hP
  have hD := rqD_dualL c hP
  exact elTransform_rq_real_ok_inv hk ht
    (DualX.RQValid.of_length hv (by rw [hW.1 s, hW.1 t]) (by rw [hH.1 s, hH.1 t]) (by rw [hD.1 s, hD.1 t])) hs0.le hs1.le

/-! ## the executed coupling layer on dual arrays, inverse direction -/

variable {X P : ℝ → Array ℝ} {dX dP : Array (ℝ × ℝ)}

variable (e)

/-- every transformed element of every row: accepted parameter slice, off the softplus threshold, input strictly inside a bin -/
def LayerInteriorI (c : ElCfg) (mask : List ℝ) (B S : ℕ) (x params : Array ℝ) : Prop :=
  ∀ b tp s, b < B → tp < (transformIdx (NF.realX e) mask).length → s < S →
    RQElInteriorI e c (condSlice (NF.realX e) c.mult (transformIdx (NF.realX e) mask).length S params b tp s)
      (x.getD (flatIdx mask.length S b ((transformIdx (NF.realX e) mask).getD tp 0) s) (NF.realX e).zero)

variable {e}

/-- one conditional element of the layer on duals: the parameter row is read from the dual conditioner output, the input from
    the dual input array -/
theorem couplingEl_rq_dual_inv {c : ElCfg} (hk : c.kind = "rq") (ht : c.tails = false) (hX : IsDualA X t dX) (hP : IsDualA P t dP)
    (Ft S b tp s j : ℕ)
    (hin : RQElInteriorI e c (condSlice (NF.realX e) c.mult Ft S (P t) b tp s) ((X t).getD j (NF.realX e).zero)) :
    ∃ y' l' : ℝ, couplingEl (dualX (NF.realX e)) c Ft S dP true b tp s (dX.getD j (dualX (NF.realX e)).zero)
        = .ok ((elYI e c (condSlice (NF.realX e) c.mult Ft S (P t) b tp s) ((X t).getD j (NF.realX e).zero), y'),
               (elLI e c (condSlice (NF.realX e) c.mult Ft S (P t) b tp s) ((X t).getD j (NF.realX e).zero), l'), []) ∧
      HasDerivAt (fun r => elYI e c (condSlice (NF.realX e) c.mult Ft S (P r) b tp s) ((X r).getD j (NF.realX e).zero)) y' t ∧
      HasDerivAt (fun r => elLI e c (condSlice (NF.realX e) c.mult Ft S (P r) b tp s) ((X r).getD j (NF.realX e).zero)) l' t := by
  rw [couplingEl_spline _ c S dP true (rq_ne_affine hk).1 (rq_ne_affine hk).2]
  exact elTransform_rq_dual_inv hk ht (P := fun r => condSlice (NF.realX e) c.mult Ft S (P r) b tp s)
    (FX := fun r => (X r).getD j (NF.realX e).zero) (condSlice_dualL hP c.mult Ft S b tp s) (hX.getD j) hin

/-- the log-det of the REAL conditional element is `elLI` by definition (raised ⇒ `0`) -/
theorem ldOf_couplingEl_real_inv {c : ElCfg} (hk : c.kind = "rq") (Ft S : ℕ) (params : Array ℝ) (b tp s : ℕ) (xi : ℝ) :
    ldOf (NF.realX e) (couplingEl (NF.realX e) c Ft S params true b tp s xi)
      = elLI e c (condSlice (NF.realX e) c.mult Ft S params b tp s) xi := by
  rw [couplingEl_spline _ c S params true (rq_ne_affine hk).1 (rq_ne_affine hk).2]
  rfl

section layer
variable {c : ElCfg} (hk : c.kind = "rq") (ht : c.tails = false) (dmask : List (ℝ × ℝ)) (B S : ℕ)
  (hX : IsDualA X t dX) (hP : IsDualA P t dP)
include hk ht hX hP

/-- **(c1) transformed entries.**  The entry of transformed element `(b, tp, s)` of the dual layer's output is the
    (value, derivative) pair at `t` of the same entry of the REAL executed layer along the curve `r ↦ (X r, P r)` of inputs and
    conditioner outputs: the tangent is the TOTAL derivative (through the input and through every parameter of the element). -/
theorem coupling_rq_dual_transformed_inv (hsz : B * dmask.length * S ≤ dX.size)
    (hin : LayerInteriorI e c (dmask.map Prod.fst) B S (X t) (P t))
    {b tp s : ℕ} (hb : b < B) (htp : tp < (transformIdx (NF.realX e) (dmask.map Prod.fst)).length) (hs : s < S) :
    IsDual (fun r => (couplingApply (NF.realX e) c (dmask.map Prod.fst) B S (X r) (P r) true).out.getD
          (flatIdx dmask.length S b ((transformIdx (NF.realX e) (dmask.map Prod.fst)).getD tp 0) s) 0) t
      ((couplingApply (dualX (NF.realX e)) c dmask B S dX dP true).out.getD
          (flatIdx dmask.length S b ((transformIdx (NF.realX e) (dmask.map Prod.fst)).getD tp 0) s) 0) := by
  have hT : transformIdx (dualX (NF.realX e)) dmask = transformIdx (NF.realX e) (dmask.map Prod.fst) := transformIdx_dual dmask
  have hlen : (dmask.map Prod.fst).length = dmask.length := List.length_map _
  have hin' := hin b tp s hb htp hs
  rw [hlen] at hin'
  set mask := dmask.map Prod.fst with hmask
  set j := flatIdx dmask.length S b ((transformIdx (NF.realX e) mask).getD tp 0) s with hj
  have hch : (transformIdx (NF.realX e) mask).getD tp 0 < dmask.length := by
    rw [← hlen]; exact (transformIdx_ok (NF.realX e) mask).getD_lt htp
  have hjlt : j < dX.size := lt_of_lt_of_le (flatIdx_lt hb hch hs) hsz
  obtain ⟨y', l', hel, hy, _⟩ := couplingEl_rq_dual_inv hk ht hX hP (transformIdx (NF.realX e) mask).length S b tp s j hin'
  -- the dual layer
  have hd := coupling_out_transformed_ok (dualX (NF.realX e)) c dmask B S dX dP true none #[] (b := b) (t := tp) (s := s) hb
    (by rw [hT]; exact htp) hs (by rw [hT]; exact hjlt) (by rw [hT]; exact hel)
  rw [hT] at hd
  rw [array_getD_of_getElem? hd]
  -- the real layer near `t`
  have hev := elTransform_rq_real_eventually_ok_inv hk ht
    (P := fun r => condSlice (NF.realX e) c.mult (transformIdx (NF.realX e) mask).length S (P r) b tp s)
    (FX := fun r => (X r).getD j (NF.realX e).zero)
    (condSlice_dualL hP c.mult (transformIdx (NF.realX e) mask).length S b tp s) (hX.getD j) hin'
  refine IsDual.congr (f := fun r => elYI e c (condSlice (NF.realX e) c.mult (transformIdx (NF.realX e) mask).length S (P r) b tp s)
    ((X r).getD j (NF.realX e).zero)) ⟨rfl, hy⟩ ?_
  filter_upwards [hev] with r hr
  have hr' := coupling_out_transformed_ok (NF.realX e) c mask B S (X r) (P r) true none #[] (b := b) (t := tp) (s := s) hb htp hs
    (by rw [hlen, hX.size r]; exact hjlt)
    (by rw [couplingEl_spline _ c S (P r) true (rq_ne_affine hk).1 (rq_ne_affine hk).2, hlen]; exact hr)
  rw [hlen] at hr'
  exact (array_getD_of_getElem? hr' 0).symm

omit hk ht hP in
/-- **(c2) identity features pass through with their tangents**: every entry of a channel that is not a transform channel
    is the input's dual entry (the real layer returns the input's entry), for every row, position, parameters, errors or not -/
theorem coupling_dual_identity_inv {b ch s : ℕ} (hch : ch < dmask.length) (hs : s < S)
    (hni : ch ∉ transformIdx (NF.realX e) (dmask.map Prod.fst)) :
    (couplingApply (dualX (NF.realX e)) c dmask B S dX dP true).out[flatIdx dmask.length S b ch s]?
        = dX[flatIdx dmask.length S b ch s]? ∧
    (∀ r, (couplingApply (NF.realX e) c (dmask.map Prod.fst) B S (X r) (P r) true).out[flatIdx dmask.length S b ch s]?
        = (X r)[flatIdx dmask.length S b ch s]?) ∧
    IsDual (fun r => (couplingApply (NF.realX e) c (dmask.map Prod.fst) B S (X r) (P r) true).out.getD
          (flatIdx dmask.length S b ch s) 0) t
      ((couplingApply (dualX (NF.realX e)) c dmask B S dX dP true).out.getD (flatIdx dmask.length S b ch s) 0) := by
  have hT : transformIdx (dualX (NF.realX e)) dmask = transformIdx (NF.realX e) (dmask.map Prod.fst) := transformIdx_dual dmask
  have hlen : (dmask.map Prod.fst).length = dmask.length := List.length_map _
  have h1 := coupling_identity_passthrough (dualX (NF.realX e)) c dmask B S dX dP true #[] (b := b) hch hs (by rw [hT]; exact hni)
  have h2 : ∀ r, (couplingApply (NF.realX e) c (dmask.map Prod.fst) B S (X r) (P r) true).out[flatIdx dmask.length S b ch s]?
      = (X r)[flatIdx dmask.length S b ch s]? := fun r => by
    have := coupling_identity_passthrough (NF.realX e) c (dmask.map Prod.fst) B S (X r) (P r) true #[] (b := b)
      (by rw [hlen]; exact hch) hs hni
    rwa [hlen] at this
  refine ⟨h1, h2, ?_⟩
  rw [getD_congr h1 0]
  have := hX.getD (e := e) (flatIdx dmask.length S b ch s)
  rw [d_zero] at this
  refine this.congr_fun (fun r => ?_)
  rw [realX_zero]
  exact (getD_congr (h2 r) 0).symm

/-- **(c3) the row log-dets.**  Entry `b` of the dual layer's log-det is the (value, derivative) pair at `t` of entry `b` of the
    REAL executed layer's log-det along the curve: the tangent of the (left-folded) sum is the derivative of the real sum. -/
theorem coupling_rq_dual_ld_inv (hin : LayerInteriorI e c (dmask.map Prod.fst) B S (X t) (P t)) {b : ℕ} (hb : b < B) :
    IsDual (fun r => (couplingApply (NF.realX e) c (dmask.map Prod.fst) B S (X r) (P r) true).ld.getD b 0) t
      ((couplingApply (dualX (NF.realX e)) c dmask B S dX dP true).ld.getD b 0) := by
  have hT : transformIdx (dualX (NF.realX e)) dmask = transformIdx (NF.realX e) (dmask.map Prod.fst) := transformIdx_dual dmask
  have hlen : (dmask.map Prod.fst).length = dmask.length := List.length_map _
  set mask := dmask.map Prod.fst with hmask
  -- the per-element statement, for every element of row `b`
  have hel : ∀ ts ∈ rowIter (transformIdx (NF.realX e) mask).length S,
      (∃ v, couplingEl (dualX (NF.realX e)) c (transformIdx (NF.realX e) mask).length S dP true b ts.1 ts.2
        (dX.getD (flatIdx dmask.length S b ((transformIdx (NF.realX e) mask).getD ts.1 0) ts.2) (dualX (NF.realX e)).zero) = .ok v) ∧
      IsDual (fun r => ldOf (NF.realX e) (couplingEl (NF.realX e) c (transformIdx (NF.realX e) mask).length S (P r) true b ts.1 ts.2
          ((X r).getD (flatIdx dmask.length S b ((transformIdx (NF.realX e) mask).getD ts.1 0) ts.2) (NF.realX e).zero))) t
        (ldOf (dualX (NF.realX e)) (couplingEl (dualX (NF.realX e)) c (transformIdx (NF.realX e) mask).length S dP true b ts.1 ts.2
          (dX.getD (flatIdx dmask.length S b ((transformIdx (NF.realX e) mask).getD ts.1 0) ts.2) (dualX (NF.realX e)).zero))) := by
    rintro ⟨tp, s⟩ hts
    obtain ⟨htp, hs⟩ := mem_rowIter.1 hts
    have hin' := hin b tp s hb htp hs
    rw [hlen] at hin'
    obtain ⟨y', l', hrun, _, hl⟩ := couplingEl_rq_dual_inv hk ht hX hP (transformIdx (NF.realX e) mask).length S b tp s _ hin'
    refine ⟨⟨_, hrun⟩, ?_⟩
    simp only [ldOf_couplingEl_real_inv hk]
    rw [hrun]
    exact ⟨rfl, hl⟩
  -- the dual layer
  have hdual := coupling_ld_leftfold (dualX (NF.realX e)) c dmask B S dX dP true none #[] hb (by
    rw [rowResults_none, hT]
    intro r hr
    obtain ⟨ts, hts, rfl⟩ := List.mem_map.1 hr
    exact (hel ts hts).1)
  rw [rowResults_none, hT, List.map_map] at hdual
  rw [list_getD_of_getElem? hdual]
  -- the real layer at every curve parameter
  have hreal : ∀ r, (couplingApply (NF.realX e) c mask B S (X r) (P r) true).ld.getD b 0
      = ((rowIter (transformIdx (NF.realX e) mask).length S).map (fun ts =>
          ldOf (NF.realX e) (couplingEl (NF.realX e) c (transformIdx (NF.realX e) mask).length S (P r) true b ts.1 ts.2
          ((X r).getD (flatIdx dmask.length S b ((transformIdx (NF.realX e) mask).getD ts.1 0) ts.2) (NF.realX e).zero)))).foldl
          (NF.realX e).add (NF.realX e).zero := fun r => by
    have h := coupling_ld_getElem? (NF.realX e) c mask S true none #[] (X r) (P r) hb
    rw [list_getD_of_getElem? h, ldFold_real]
    have h2 := rowResults_none (NF.realX e) c mask S (X r) (P r) #[] true b
    unfold rowResults at h2
    rw [h2, List.map_map, hlen]
    rfl
  have hL := IsDualL.mapIdx (t := t) (rowIter (transformIdx (NF.realX e) mask).length S) (fun ts hts => (hel ts hts).2)
  exact (foldl_add_dual e (IsDual.zero e t) hL).congr_fun (fun r => (hreal r).symm)

/-- **(c4) the dual layer reports no error** (every transformed element of every row succeeded on duals) -/
theorem coupling_rq_dual_err_none_inv (hin : LayerInteriorI e c (dmask.map Prod.fst) B S (X t) (P t)) :
    (couplingApply (dualX (NF.realX e)) c dmask B S dX dP true).err = none := by
  have hT : transformIdx (dualX (NF.realX e)) dmask = transformIdx (NF.realX e) (dmask.map Prod.fst) := transformIdx_dual dmask
  have hlen : (dmask.map Prod.fst).length = dmask.length := List.length_map _
  rw [coupling_err_none_iff, ucAll_none, List.nil_append, condAll_eq]
  intro u hu
  obtain ⟨b, tp, s, hb, htp, hs, rfl⟩ := (mem_tAll ..).1 hu
  rw [hT] at htp
  have hin' := hin b tp s hb htp hs
  rw [hlen] at hin'
  obtain ⟨y', l', hrun, _, _⟩ := couplingEl_rq_dual_inv hk ht hX hP
    (transformIdx (NF.realX e) (dmask.map Prod.fst)).length S b tp s _ hin'
  rw [← hT] at hrun
  exact ⟨_, hrun⟩

/-- **(c) every output entry.**  Each entry `(b, ch, s)` of the dual layer's output — identity or transformed channel — is the
    (value, derivative) pair at `t` of the same entry of the REAL executed layer along the curve `r ↦ (X r, P r)`. -/
theorem coupling_rq_dual_out_inv (hsz : B * dmask.length * S ≤ dX.size)
    (hin : LayerInteriorI e c (dmask.map Prod.fst) B S (X t) (P t))
    {b ch s : ℕ} (hb : b < B) (hch : ch < dmask.length) (hs : s < S) :
    IsDual (fun r => (couplingApply (NF.realX e) c (dmask.map Prod.fst) B S (X r) (P r) true).out.getD
          (flatIdx dmask.length S b ch s) 0) t
      ((couplingApply (dualX (NF.realX e)) c dmask B S dX dP true).out.getD (flatIdx dmask.length S b ch s) 0) := by
  by_cases hmem : ch ∈ transformIdx (NF.realX e) (dmask.map Prod.fst)
  · obtain ⟨tp, htp, rfl⟩ := exists_getD_of_mem hmem
    exact coupling_rq_dual_transformed_inv hk ht dmask B S hX hP hsz hin hb htp hs
  · exact (coupling_dual_identity_inv (c := c) dmask B S hX (dP := dP) (b := b) hch hs hmem).2.2

end layer

/-! ## non-vacuity -/

private theorem bz4 : ((0.0:Float) == 0.0) = true := by decide +kernel
private theorem bo4 : ((1.0:Float) == 0.0) = false := by decide +kernel

/-- every raw row `[w, h, 0, 0]` with the input strictly inside the unit box is an interior element of `cS`, inverse direction -/
theorem cS_interiorI (w h y : ℝ) (h0 : 0 < y) (h1 : y < 1) : RQElInteriorI eNV cS [w, h, 0, 0] y := by
  obtain ⟨hv, hthr, _⟩ := cS_interior w h (1/2) (by norm_num) (by norm_num)
  have hl : (rqW (NF.realX eNV) cS [w, h, 0, 0]).length = 1 := by rw [rqW_length]; rfl
  refine ⟨hv, hthr, 0, by rw [hl]; exact Nat.one_pos, ?_, ?_⟩
  · rw [ys_zero hv]
    have : eNV (rqCfgOf cS).box.bottom = 0 := by simp [eNV, rqCfgOf, cS, bz4]
    rw [this]; exact h0
  · have := ys_last hv
    rw [hl] at this
    rw [this]
    have : eNV (rqCfgOf cS).box.top = 1 := by simp [eNV, rqCfgOf, cS, bo4]
    rw [this]; exact h1

/-- one inverse element of `cS` (scaling on), the raw row moving along the NON-LINEAR curve `[sin s, exp s - 1, 0, 0]` -/
theorem elTransform_rq_dual_inv_example (y y' : ℝ) (h0 : 0 < y) (h1 : y < 1) :
    ∃ v' l' : ℝ, elTransform (dualX (NF.realX eNV)) cS true [(0, 1), (0, 1), (0, 0), (0, 0)] (y, y')
        = .ok ((elYI eNV cS [0, 0, 0, 0] y, v'), (elLI eNV cS [0, 0, 0, 0] y, l'), []) ∧
      HasDerivAt (fun s => elYI eNV cS [Real.sin s, Real.exp s - 1, 0, 0] (y + s * y')) v' 0 ∧
      HasDerivAt (fun s => elLI eNV cS [Real.sin s, Real.exp s - 1, 0, 0] (y + s * y')) l' 0 := by
  have dsin : IsDual Real.sin 0 (0, 1) := ⟨by simp, by simpa using Real.hasDerivAt_sin 0⟩
  have dexp : IsDual (fun s => Real.exp s - 1) 0 (0, 1) := ⟨by simp, by simpa using (Real.hasDerivAt_exp 0).sub_const 1⟩
  have hP : IsDualL (fun s => [Real.sin s, Real.exp s - 1, 0, 0]) 0 [(0, 1), (0, 1), (0, 0), (0, 0)] :=
    IsDualL.cons dsin (IsDualL.cons dexp (IsDualL.cons (IsDual.const 0 0) (IsDualL.cons (IsDual.const 0 0) (IsDualL.nil 0))))
  have hX : IsDual (fun s : ℝ => y + s * y') 0 (y, y') :=
    ⟨by simp, by simpa using ((hasDerivAt_id (0:ℝ)).mul_const y').const_add y⟩
  have := elTransform_rq_dual_inv (e := eNV) (c := cS) rfl rfl hP hX (by simpa using cS_interiorI _ _ y h0 h1)
  simpa using this

theorem coupling_rq_dual_example_inv (g1 g2 : ℝ → ℝ) (g1' g2' z z' x x' : ℝ) (hg1 : HasDerivAt g1 g1' z) (hg2 : HasDerivAt g2 g2' z)
    (h0 : 0 < x) (h1 : x < 1) :
    (couplingApply (dualX (NF.realX eNV)) cS [(0, 0), (1, 0)] 1 1 #[(z, z'), (x, x')]
        #[(g1 z, g1' * z'), (g2 z, g2' * z'), (0, 0), (0, 0)] true).out[0]? = some (z, z') ∧
    IsDual (fun r => (couplingApply (NF.realX eNV) cS [0, 1] 1 1 #[z + r * z', x + r * x']
        #[g1 (z + r * z'), g2 (z + r * z'), 0, 0] true).out.getD 1 0) 0
      ((couplingApply (dualX (NF.realX eNV)) cS [(0, 0), (1, 0)] 1 1 #[(z, z'), (x, x')]
        #[(g1 z, g1' * z'), (g2 z, g2' * z'), (0, 0), (0, 0)] true).out.getD 1 0) ∧
    IsDual (fun r => (couplingApply (NF.realX eNV) cS [0, 1] 1 1 #[z + r * z', x + r * x']
        #[g1 (z + r * z'), g2 (z + r * z'), 0, 0] true).ld.getD 0 0) 0
      ((couplingApply (dualX (NF.realX eNV)) cS [(0, 0), (1, 0)] 1 1 #[(z, z'), (x, x')]
        #[(g1 z, g1' * z'), (g2 z, g2' * z'), (0, 0), (0, 0)] true).ld.getD 0 0) := by
  have hline : ∀ a a' : ℝ, IsDual (fun r : ℝ => a + r * a') 0 (a, a') := fun a a' =>
    ⟨by simp, by simpa using ((hasDerivAt_id (0:ℝ)).mul_const a').const_add a⟩
  have hcomp : ∀ (g : ℝ → ℝ) (g' : ℝ), HasDerivAt g g' z → IsDual (fun r : ℝ => g (z + r * z')) 0 (g z, g' * z') := by
    intro g g' hg
    refine ⟨by simp, ?_⟩
    have hg0 : HasDerivAt g g' (z + 0 * z') := by simpa using hg
    exact hg0.comp (0:ℝ) (hline z z').2
  have hXA : IsDualA (fun r : ℝ => #[z + r * z', x + r * x']) 0 #[(z, z'), (x, x')] :=
    IsDualL.cons (hline z z') (IsDualL.cons (hline x x') (IsDualL.nil 0))
  have hPA : IsDualA (fun r : ℝ => #[g1 (z + r * z'), g2 (z + r * z'), 0, 0]) 0
      #[(g1 z, g1' * z'), (g2 z, g2' * z'), (0, 0), (0, 0)] :=
    IsDualL.cons (hcomp g1 g1' hg1) (IsDualL.cons (hcomp g2 g2' hg2)
      (IsDualL.cons (IsDual.const 0 0) (IsDualL.cons (IsDual.const 0 0) (IsDualL.nil 0))))
  have hmask : ([(0, 0), (1, 0)] : List (ℝ × ℝ)).map Prod.fst = [0, 1] := rfl
  have hm : cS.mult = 4 := by decide
  have hin : LayerInteriorI eNV cS (([(0, 0), (1, 0)] : List (ℝ × ℝ)).map Prod.fst) 1 1
      ((fun r : ℝ => #[z + r * z', x + r * x']) 0) ((fun r : ℝ => #[g1 (z + r * z'), g2 (z + r * z'), 0, 0]) 0) := by
    rw [hmask]
    intro b tp s hb htp hs
    rw [transformIdx_example] at htp ⊢
    obtain rfl : b = 0 := by omega
    obtain rfl : s = 0 := by omega
    obtain rfl : tp = 0 := by simpa using htp
    have hsl : condSlice (NF.realX eNV) cS.mult ([1] : List ℕ).length 1
        (#[g1 (z + 0 * z'), g2 (z + 0 * z'), 0, 0] : Array ℝ) 0 0 0 = [g1 (z + 0 * z'), g2 (z + 0 * z'), 0, 0] := by
      rw [hm]; simp [condSlice, List.range_succ]
    have hxv : (#[z + 0 * z', x + 0 * x'] : Array ℝ).getD (flatIdx ([0, 1] : List ℝ).length 1 0 (([1] : List ℕ).getD 0 0) 0)
        (NF.realX eNV).zero = x := by simp [flatIdx]
    show RQElInteriorI eNV cS (condSlice (NF.realX eNV) cS.mult ([1] : List ℕ).length 1
        (#[g1 (z + 0 * z'), g2 (z + 0 * z'), 0, 0] : Array ℝ) 0 0 0)
      ((#[z + 0 * z', x + 0 * x'] : Array ℝ).getD (flatIdx ([0, 1] : List ℝ).length 1 0 (([1] : List ℕ).getD 0 0) 0)
        (NF.realX eNV).zero)
    rw [hsl, hxv]
    exact cS_interiorI _ _ x h0 h1
  have hT := coupling_rq_dual_transformed_inv (e := eNV) (c := cS) rfl rfl [(0, 0), (1, 0)] 1 1 hXA hPA (by simp) hin
    (b := 0) (tp := 0) (s := 0) Nat.one_pos (by rw [hmask, transformIdx_example]; exact Nat.one_pos) Nat.one_pos
  have hL := coupling_rq_dual_ld_inv (e := eNV) (c := cS) rfl rfl [(0, 0), (1, 0)] 1 1 hXA hPA hin (b := 0) Nat.one_pos
  have hI := (coupling_dual_identity_inv (e := eNV) (c := cS) (X := fun r : ℝ => #[z + r * z', x + r * x'])
    (P := fun r : ℝ => #[g1 (z + r * z'), g2 (z + r * z'), 0, 0]) [(0, 0), (1, 0)] 1 1 hXA
    (dP := #[(g1 z, g1' * z'), (g2 z, g2' * z'), (0, 0), (0, 0)]) (b := 0) (ch := 0) (s := 0) (by simp) Nat.one_pos
    (by rw [hmask, transformIdx_example]; simp)).1
  rw [hmask, transformIdx_example] at hT
  rw [hmask] at hL
  exact ⟨by simpa [flatIdx] using hI, by simpa [flatIdx] using hT, hL⟩
end
end DualXCoupling
