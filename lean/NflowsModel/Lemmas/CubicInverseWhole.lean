import NflowsModel.Lemmas.CubicWhole
import NflowsModel.Lemmas.RQInverseWhole
import NflowsModel.Lemmas.StableRoot
import NflowsModel.Lemmas.CubicInverseRoots
import Mathlib.Topology.Order.IntermediateValue
import Mathlib.Analysis.SpecialFunctions.Trigonometric.Basic
import Mathlib.Analysis.SpecialFunctions.Complex.Arg
/-!
# Lemmas/CubicInverseWhole — the EXECUTED piecewise-cubic spline, INVERSE direction, as a whole program over the reals

`cubicSpline (NF.realX e) c uw uh udl udr true y` is the list program the driver runs at `Float`/`Float32`, instantiated at ℝ:
guards, `y' = (y − bottom)/(top − bottom)`, floored softmaxes, cumsums, pinned knots, slopes, Steffen-style knot
derivatives, per-bin coefficients, search over the **y-knots** `cumh`, seven gathers, Blinn's depressed-cubic quantities,
trigonometric three-root formula + closest-to-the-bin selection (ties = alternatives) / Cardano one-root formula, the
"almost quadratic bin" override `|a|·w³ < thr·h` with the stable quadratic root, clamp of the root into its bin,
`ld = −log(3a s² + 2b s + c) − boxLog`, clamp to `[0,1]` and rescaling to `[left, right]`.  The forward program is the
subject of `Lemmas/CubicWhole.lean`; everything here reuses its lists and `CubicValid`.  The real algebra of the root
formulas is in `Lemmas/CubicInverseRoots.lean`.

* `cubicSpline_unfoldI` (by `rfl`): the program is guards → two slope gathers → `tailProgI` (search, gathers) → `invCore`,
  with `invCore`/`out1`/`out0`/`pick`/`trigRoots`/`cardano`/`quadRoot`/`fallback`/`inBin`/`sc` verbatim sub-terms.
* **C17** `exec_eq_core`, `exec_total`, `inv_mem`, `invLd_arg_pos`, `inv_eq_root`, `outside_domain`: for every
  `y ∈ [bottom, top]` the program returns `.ok` (all gathers in range), its output lies in `[left, right]`, the argument
  of the logarithm of the log-abs-det is `> 0` (the bin's derivative term at a point of the closed bin, whatever root
  was selected), and the final clamp to `[0,1]` is the identity.  None of these needs the root formulas.
* **root formulas** `cbrtG_eq`, `out0_trig`, `out0_cardano`, `quadRoot_eq`, `fallback_eq`, `fallback_iff`: the executed
  terms are `CubicRoots.trig1/2/3`, the Cardano sum, `CubicRoots.qroot`; there (`CubicRoots.cardano`, `trig_roots`,
  `trig_factor`, `trig_complete`, `cardano_unique`, `qroot_exact`, `qroot_approx`) each is proved to be a root.
  `pick_spec`: the closest-to-the-bin selection returns the root in the bin, whatever the ties.
* **C02** `out1_exact`, `rootN_spec`, `nval_rootN`, `rootN_nval`, `idxN_rootN`, `val_inv`, `inv_val`, `invLd_eq_neg_ld`,
  `invAlts_eq` (per searched bin, under `ExactBin`: fallback not taken, or `a = 0`), their `_all` forms under `AllExact`;
  `invLd_eq_neg_ld_always`: the log-abs-det law holds UNCONDITIONALLY on the whole box.
  `fallback_residual`, `nval_rootN_approx`, `val_inv_approx`: on the whole box, fallback included,
  `|forward(inverse y) − y| ≤ |a|·w³·(top−bottom) < thr·h·(top−bottom)`: the cost of `quadratic_threshold`.
  `fallback_inexact`, `round_trip_counterexample`: the exactness hypothesis is forced (model over ℝ).
* **C09** `inv_strictMonoOn`, `inv_endpoints`, `inv_bijOn`, `inv_image`, `invOn` under `AllExact`.
* **C01** `inv_hasDerivAt_all` under `AllExact`: at every point of the open box the derivative of the executed inverse is
  `exp` of the returned log-abs-det.
* non-vacuity: `valid_exampleI`, `consts_example`, `allExact_example_quadratic`, `allExact_example_cubic`.
-/
open NF DualSound

namespace CubicInverseWhole
open CubicWhole

/-! ### the pieces of the inverse program, generic in the scalar type (verbatim sub-terms of `cubicSpline … true`) -/
section generic
variable {α : Type} (o : XOps α)

/-- the three candidate roots of the trigonometric branch (positions, i.e. left knot added) -/
def trigRoots (b_ dep1 dep2 disc lcw : α) : List α :=
  let theta := o.div (o.atan2 (o.sqrt disc) (o.neg dep1)) (o.ofFloat 3.0)
  let c1 := o.cos theta
  let c2 := o.sin theta
  let h3 := o.ofFloat (0.5 * Float.sqrt 3.0)
  let r1 := c1
  let r2 := o.sub (o.mul (o.ofFloat (-0.5)) c1) (o.mul h3 c2)
  let r3 := o.add (o.mul (o.ofFloat (-0.5)) c1) (o.mul h3 c2)
  let scale := o.mul o.two (o.sqrt (o.neg dep2))
  let shift := o.add (o.neg b_) lcw
  [r1, r2, r3].map (fun r => o.add (o.mul r scale) shift)

/-- the selection among the candidates: smallest distance to the bin `[lcw, rcw]`; ties are the alternatives -/
def pick (lcw rcw : α) (rs : List α) : α × List α :=
  let relu := fun (t : α) => if o.lt o.zero t then t else o.zero
  let ds := rs.map (fun r => o.add (relu (o.sub lcw r)) (relu (o.sub r rcw)))
  let dmin := ds.foldl (fun m d => if o.lt d m then d else m) (ds.getD 0 o.zero)
  let good := (rs.zip ds).filter (fun rd => !(o.lt dmin rd.2)) |>.map (·.1)
  match good with
  | [] => (rs.getD 0 o.zero, rs)
  | g :: _ => (g, good)

/-- the Cardano root of the one-real-root branch (position) -/
def cardano (b_ dep1 disc lcw : α) : α :=
  let sq := o.sqrt (o.neg disc)
  let p := cbrtG o (o.div (o.add (o.neg dep1) sq) o.two)
  let q := cbrtG o (o.div (o.sub (o.neg dep1) sq) o.two)
  o.add (o.sub (o.add p q) b_) lcw

/-- root of the cubic `ia s³ + ib s² + ic s + (id − x')` (position `s + lcw`) before the fallback, with the alternatives -/
def out0 (ia ib ic id lcw rcw x' : α) : α × List α :=
  let b_ := o.div (o.div ib ia) (o.ofFloat 3.0)
  let c_ := o.div (o.div ic ia) (o.ofFloat 3.0)
  let d_ := o.div (o.sub id x') ia
  let delta1 := o.add (o.neg (o.mul b_ b_)) c_
  let delta2 := o.add (o.neg (o.mul c_ b_)) d_
  let delta3 := o.sub (o.mul b_ d_) (o.mul c_ c_)
  let disc := o.sub (o.mul (o.mul (o.ofFloat 4.0) delta1) delta3) (o.mul delta2 delta2)
  let dep1 := o.add (o.mul (o.mul (o.ofFloat (-2.0)) b_) delta1) delta2
  let dep2 := delta1
  if o.ge disc o.zero then pick o lcw rcw (trigRoots o b_ dep1 dep2 disc lcw)
  else if o.lt disc o.zero then (cardano o b_ dep1 disc lcw, [])
  else (o.zero, [])

/-- the "almost quadratic bin" test `|a|·w³ < thr·h` -/
def fallback (c : CCfg) (ia lcw rcw ih : α) : Bool :=
  o.lt (o.mul (o.abs ia) (let bw := o.sub rcw lcw; o.mul (o.mul bw bw) bw)) (o.mul (o.ofFloat c.thr) ih)

/-- the stable quadratic root of `ib s² + ic s + (id − x')` (position) -/
def quadRoot (ib ic id lcw x' : α) : α :=
  let a := ib; let b := ic; let cc := o.sub id x'
  let rad := o.maxA (o.sub (o.mul b b) (o.mul (o.mul (o.ofFloat 4.0) a) cc)) o.zero
  let al := o.div (o.mul o.two cc) (o.sub (o.neg b) (o.sqrt rad))
  o.add al lcw

/-- root and alternatives after the fallback override, before the clamp into the bin -/
def out1 (c : CCfg) (ia ib ic id lcw rcw ih x' : α) : α × List α :=
  if fallback o c ia lcw rcw ih then (quadRoot o ib ic id lcw x', []) else out0 o ia ib ic id lcw rcw x'

def inBin (lcw rcw t : α) : α := o.minA (o.maxA t lcw) rcw
def sc (c : CCfg) (t : α) : α :=
  o.add (o.mul (o.clamp o.zero o.one t) (o.ofFloat (c.box.right - c.box.left))) (o.ofFloat c.box.left)

/-- everything after the gathers -/
def invCore (c : CCfg) (ia ib ic id lcw rcw ih x' : α) : α × α × List α :=
  let p := out1 o c ia ib ic id lcw rcw ih x'
  let r := inBin o lcw rcw p.1
  let sh := o.sub r lcw
  let ld := o.neg (o.log (o.add (o.add (o.mul (o.mul (o.ofNat 3) ia) (o.mul sh sh)) (o.mul (o.mul o.two ib) sh)) ic))
  (sc o c r, o.sub ld (o.ofFloat (boxLog c.box)), (p.2.map (inBin o lcw rcw)).map (sc o c))

end generic

noncomputable section
variable (e : Float → ℝ)

/-- the normalised input `y' = (y − bottom)/(top − bottom)` -/
def yn (c : CCfg) (y : ℝ) : ℝ :=
  (NF.realX e).div ((NF.realX e).sub y ((NF.realX e).ofFloat c.box.bottom)) ((NF.realX e).ofFloat (c.box.top - c.box.bottom))

/-- everything after the knot derivatives: search over `cumh`, seven gathers, `invCore` -/
def tailProgI (c : CCfg) (uw uh : List ℝ) (dv : List ℝ) (t : ℝ) : Except Err (ℝ × ℝ × List ℝ) := do
  let idx := searchsortedG (NF.realX e) c.seps (cumh e c uh) t
  let ia ← getI (aLof e c uw uh dv) idx
  let ib ← getI (bLof e c uw uh dv) idx
  let ic ← getI (dv.take uw.length) idx
  let id ← getI (cumh e c uh) idx
  let lcw ← getI (cumw e c uw) idx
  let rcw ← getI (cumw e c uw) (idx + 1)
  let ih ← getI (H e c uh) idx
  return invCore (NF.realX e) c ia ib ic id lcw rcw ih t

theorem cubicSpline_unfoldI (c : CCfg) (uw uh : List ℝ) (udl udr y : ℝ) :
    cubicSpline (NF.realX e) c uw uh udl udr true y =
      (if (NF.realX e).lt y ((NF.realX e).ofFloat c.box.bottom) || (NF.realX e).lt ((NF.realX e).ofFloat c.box.top) y then throw .outsideDomain
       else if c.minW * uw.length.toFloat > 1.0 then throw .valueError
       else if c.minH * uw.length.toFloat > 1.0 then throw .valueError
       else do
        let s0 ← getI (slopes e c uw uh) 0
        let sl ← getI (slopes e c uw uh) (Int.ofNat uw.length - 1)
        tailProgI e c uw uh (derivsOf e c uw uh udl udr s0 sl) (yn e c y)) := rfl


/-! ### Step 1 — totality: search over the y-knots, the seven gathers -/

variable {e}
variable {c : CCfg} {uw uh : List ℝ} {udl udr : ℝ}

/-- the bin index the executed search over the y-knots `cumh` returns on the normalised input -/
def idxH (e : Float → ℝ) (c : CCfg) (uh : List ℝ) (t : ℝ) : ℕ := (searchsortedG (NF.realX e) c.seps (cumh e c uh) t).toNat

theorem search_specH (hv' : CubicValid e c uw uh) :
    ExecGlue.SearchSpec (chs e c uh) uw.length (idxH e c uh) ∧
    ∀ t, 0 ≤ t → t ≤ 1 → searchsortedG (NF.realX e) c.seps (cumh e c uh) t = ((idxH e c uh t : ℕ) : Int) := by
  obtain ⟨hlen, hhead, hlast, hp⟩ := cumh_facts hv'
  exact search_spec_list e c.seps hv'.hseps (cumh e c uh) uw.length 0 1 (K_pos hv') hlen hhead hlast hp

/-- where the searched y-bin sits relative to `t` -/
theorem selH (hv' : CubicValid e c uw uh) (t : ℝ) (ht0 : 0 ≤ t) (ht1 : t ≤ 1) :
    idxH e c uh t < uw.length ∧ chs e c uh (idxH e c uh t) ≤ t ∧ t ≤ chs e c uh (idxH e c uh t + 1) ∧
    (t < chs e c uh (idxH e c uh t + 1) ∨ (idxH e c uh t + 1 = uw.length ∧ t = 1)) := by
  obtain ⟨hspec, _⟩ := search_specH hv'
  obtain ⟨hiK, hle, hr⟩ := hspec t (by rw [chs_zero hv']; exact ht0) (by rw [chs_last hv']; exact ht1)
  rw [chs_last hv'] at hr
  refine ⟨hiK, hle, ?_, hr⟩
  rcases hr with hr | ⟨hK, hst⟩
  · exact hr.le
  · rw [hK, chs_last hv']; exact ht1

/-- the result of the inverse program on the normalised input, in terms of the gathered values of the searched bin -/
def coreN (e : Float → ℝ) (c : CCfg) (uw uh : List ℝ) (udl udr : ℝ) (t : ℝ) : ℝ × ℝ × List ℝ :=
  let i := idxH e c uh t
  invCore (NF.realX e) c (aK e c uw uh udl udr i) (bK e c uw uh udl udr i) (dv e c uw uh udl udr i) (chs e c uh i)
    (cws e c uw i) (cws e c uw (i+1)) (CubicWhole.hv e c uh i) t

/-- **all seven gathers of the inverse program are in range** -/
theorem tailProgI_eq (hv' : CubicValid e c uw uh) (t : ℝ) (ht0 : 0 ≤ t) (ht1 : t ≤ 1) :
    tailProgI e c uw uh (derivs e c uw uh udl udr) t = .ok (coreN e c uw uh udl udr t) := by
  obtain ⟨_, hsearch⟩ := search_specH hv'
  obtain ⟨hiK, _, _, _⟩ := selH hv' t ht0 ht1
  unfold coreN
  set i := idxH e c uh t with hi
  have hcwlen := (cumw_facts hv').1
  have hchlen := (cumh_facts hv').1
  have hHlen := (H_facts hv').1
  have hdlen := derivs_length (udl := udl) (udr := udr) hv'
  have haLlen : (aLof e c uw uh (derivs e c uw uh udl udr)).length = uw.length := by simp [aLof]
  have hbLlen : (bLof e c uw uh (derivs e c uw uh udl udr)).length = uw.length := by simp [bLof]
  have htklen : ((derivs e c uw uh udl udr).take uw.length).length = uw.length := by
    rw [List.length_take, hdlen]; omega
  have hi1 : ((i : Int) + 1) = ((i + 1 : ℕ) : Int) := by push_cast; rfl
  have hic : ((derivs e c uw uh udl udr).take uw.length)[i]'(by omega) = dv e c uw uh udl udr i := by
    rw [RQWhole.getElem_eq_getD, getD_take _ _ _ hiK]; rfl
  unfold tailProgI
  simp only [hsearch t ht0 ht1]
  rw [SplineTotal.getI_ok _ i (by omega : i < (aLof e c uw uh (derivs e c uw uh udl udr)).length),
    SplineTotal.getI_ok _ i (by omega : i < (bLof e c uw uh (derivs e c uw uh udl udr)).length),
    SplineTotal.getI_ok _ i (by omega : i < ((derivs e c uw uh udl udr).take uw.length).length),
    SplineTotal.getI_ok (cumh e c uh) i (by omega), SplineTotal.getI_ok (cumw e c uw) i (by omega),
    hi1, SplineTotal.getI_ok (cumw e c uw) (i+1) (by omega), SplineTotal.getI_ok (H e c uh) i (by omega)]
  simp only [bind_ok, aLof_get hv' i hiK, bLof_get hv' i hiK, hic, RQWhole.getElem_eq_getD]
  rfl

theorem yn_eq (hv' : CubicValid e c uw uh) (y : ℝ) : yn e c y = (y - e c.box.bottom) / (e c.box.top - e c.box.bottom) := by
  simp [yn, hv'.hdbt]

theorem yn_unit (hv' : CubicValid e c uw uh) (y : ℝ) (hy0 : e c.box.bottom ≤ y) (hy1 : y ≤ e c.box.top) :
    0 ≤ yn e c y ∧ yn e c y ≤ 1 := by
  rw [yn_eq hv']
  have hD : 0 < e c.box.top - e c.box.bottom := sub_pos.mpr hv'.hbt
  exact ⟨div_nonneg (by linarith) hD.le, by rw [div_le_one hD]; linarith⟩

/-- **C17 — in-domain totality of the inverse program**: for every `y ∈ [bottom, top]` it returns `.ok`, and the value is
    `invCore` on the gathered parameters of the searched y-bin -/
theorem exec_eq_core (hv' : CubicValid e c uw uh) (y : ℝ) (hy0 : e c.box.bottom ≤ y) (hy1 : y ≤ e c.box.top) :
    cubicSpline (NF.realX e) c uw uh udl udr true y = .ok (coreN e c uw uh udl udr (yn e c y)) := by
  have hK := K_pos hv'
  have hsl := slopes_length hv'
  have hg1 : ((NF.realX e).lt y ((NF.realX e).ofFloat c.box.bottom) || (NF.realX e).lt ((NF.realX e).ofFloat c.box.top) y) = false := by
    simp only [NF.realX_lt, NF.realX_ofFloat, Bool.or_eq_false_iff, decide_eq_false_iff_not, not_lt]
    exact ⟨hy0, hy1⟩
  have h0 : getI (slopes e c uw uh) 0 = .ok (sv e c uw uh 0) := by
    have := SplineTotal.getI_ok (slopes e c uw uh) 0 (by omega)
    rw [RQWhole.getElem_eq_getD] at this
    exact this
  have hl : getI (slopes e c uw uh) (Int.ofNat uw.length - 1) = .ok (sv e c uw uh (uw.length - 1)) := by
    have := SplineTotal.getI_ok (slopes e c uw uh) (uw.length - 1) (by omega)
    rw [RQWhole.getElem_eq_getD] at this
    have hc : ((uw.length - 1 : ℕ) : Int) = Int.ofNat uw.length - 1 := by
      simp only [Int.ofNat_eq_natCast]; omega
    rw [hc] at this
    exact this
  obtain ⟨ht0, ht1⟩ := yn_unit hv' y hy0 hy1
  rw [cubicSpline_unfoldI]
  simp only [hg1, hv'.hgW, hv'.hgH, Bool.false_eq_true, if_false, h0, hl, bind_ok]
  exact tailProgI_eq hv' (yn e c y) ht0 ht1

theorem exec_total (hv' : CubicValid e c uw uh) (y : ℝ) (hy0 : e c.box.bottom ≤ y) (hy1 : y ≤ e c.box.top) :
    ∃ r, cubicSpline (NF.realX e) c uw uh udl udr true y = .ok r := ⟨_, exec_eq_core hv' y hy0 hy1⟩


/-! ### what the program returns: output, log-abs-det, alternatives -/

/-- what the inverse program returns (0 on the error branch, which `exec_eq_core` shows is not taken in the domain) -/
def inv (e : Float → ℝ) (c : CCfg) (uw uh : List ℝ) (udl udr : ℝ) (y : ℝ) : ℝ :=
  match cubicSpline (NF.realX e) c uw uh udl udr true y with
  | .ok r => r.1
  | .error _ => 0
def invLd (e : Float → ℝ) (c : CCfg) (uw uh : List ℝ) (udl udr : ℝ) (y : ℝ) : ℝ :=
  match cubicSpline (NF.realX e) c uw uh udl udr true y with
  | .ok r => r.2.1
  | .error _ => 0
def invAlts (e : Float → ℝ) (c : CCfg) (uw uh : List ℝ) (udl udr : ℝ) (y : ℝ) : List ℝ :=
  match cubicSpline (NF.realX e) c uw uh udl udr true y with
  | .ok r => r.2.2
  | .error _ => []

/-- the selected root (position in normalised coordinates) before the clamp into its bin, with the alternatives -/
def preRoot (e : Float → ℝ) (c : CCfg) (uw uh : List ℝ) (udl udr : ℝ) (t : ℝ) : ℝ × List ℝ :=
  let i := idxH e c uh t
  out1 (NF.realX e) c (aK e c uw uh udl udr i) (bK e c uw uh udl udr i) (dv e c uw uh udl udr i) (chs e c uh i)
    (cws e c uw i) (cws e c uw (i+1)) (CubicWhole.hv e c uh i) t

/-- the root after the clamp into the searched bin: the normalised inverse `[0,1] → [0,1]` -/
def rootN (e : Float → ℝ) (c : CCfg) (uw uh : List ℝ) (udl udr : ℝ) (t : ℝ) : ℝ :=
  inBin (NF.realX e) (cws e c uw (idxH e c uh t)) (cws e c uw (idxH e c uh t + 1)) (preRoot e c uw uh udl udr t).1

theorem realX_maxA (a b : ℝ) : (NF.realX e).maxA a b = max a b := by
  simp only [XOps.maxA, NF.realX_lt]
  by_cases h : a < b
  · simp [h, max_eq_right h.le]
  · simp [h, max_eq_left (not_lt.mp h)]

theorem inBin_eq (l r t : ℝ) : inBin (NF.realX e) l r t = min (max t l) r := by
  simp only [inBin, realX_maxA, realX_minA]

theorem inBin_mem (l r t : ℝ) (h : l ≤ r) : l ≤ inBin (NF.realX e) l r t ∧ inBin (NF.realX e) l r t ≤ r := by
  rw [inBin_eq]
  exact ⟨le_min (le_max_right _ _) h, min_le_right _ _⟩

theorem inBin_id (l r t : ℝ) (h0 : l ≤ t) (h1 : t ≤ r) : inBin (NF.realX e) l r t = t := by
  rw [inBin_eq, max_eq_left h0, min_eq_left h1]

theorem clamp01_eq (t : ℝ) : (NF.realX e).clamp (NF.realX e).zero (NF.realX e).one t = min (max t 0) 1 := by
  simp only [XOps.clamp, realX_maxA, realX_minA, NF.realX_zero, NF.realX_one]

theorem sc_eq (c : CCfg) (t : ℝ) :
    sc (NF.realX e) c t = min (max t 0) 1 * e (c.box.right - c.box.left) + e c.box.left := by
  simp only [sc, clamp01_eq, NF.realX_add, NF.realX_mul, NF.realX_ofFloat]

/-- the final rescaling always lands in `[left, right]` (whatever its argument: the clamp to `[0,1]` guarantees it) -/
theorem sc_mem (hv' : CubicValid e c uw uh) (t : ℝ) :
    e c.box.left ≤ sc (NF.realX e) c t ∧ sc (NF.realX e) c t ≤ e c.box.right := by
  rw [sc_eq, hv'.hdlr]
  have hD : 0 < e c.box.right - e c.box.left := sub_pos.mpr hv'.hlr
  have h0 : 0 ≤ min (max t 0) 1 := le_min (le_max_right _ _) zero_le_one
  have h1 : min (max t 0) 1 ≤ 1 := min_le_right _ _
  constructor
  · nlinarith
  · nlinarith

theorem sc_id (hv' : CubicValid e c uw uh) (t : ℝ) (h0 : 0 ≤ t) (h1 : t ≤ 1) :
    sc (NF.realX e) c t = t * (e c.box.right - e c.box.left) + e c.box.left := by
  rw [sc_eq, hv'.hdlr, max_eq_left h0, min_eq_left h1]

/-- the executed derivative term of a bin, written as the inverse program writes it -/
theorem binD_text (k : ℕ) (r : ℝ) :
    (NF.realX e).add ((NF.realX e).add ((NF.realX e).mul ((NF.realX e).mul ((NF.realX e).ofNat 3) (aK e c uw uh udl udr k))
        ((NF.realX e).mul ((NF.realX e).sub r (cws e c uw k)) ((NF.realX e).sub r (cws e c uw k))))
        ((NF.realX e).mul ((NF.realX e).mul (NF.realX e).two (bK e c uw uh udl udr k)) ((NF.realX e).sub r (cws e c uw k))))
        (dv e c uw uh udl udr k)
      = binD e c uw uh udl udr k r := by
  simp [binD, CubicWhole.env, Bridge.cEnv, cubicDerivE, envOf, NF.v]

/-- the three components of the result in closed form -/
theorem coreN_eq (t : ℝ) :
    coreN e c uw uh udl udr t
      = (sc (NF.realX e) c (rootN e c uw uh udl udr t),
         - Real.log (binD e c uw uh udl udr (idxH e c uh t) (rootN e c uw uh udl udr t)) - e (boxLog c.box),
         ((preRoot e c uw uh udl udr t).2.map
            (inBin (NF.realX e) (cws e c uw (idxH e c uh t)) (cws e c uw (idxH e c uh t + 1)))).map (sc (NF.realX e) c)) := by
  unfold coreN invCore
  simp only [binD_text]
  rfl

theorem inv_eq (hv' : CubicValid e c uw uh) (y : ℝ) (hy0 : e c.box.bottom ≤ y) (hy1 : y ≤ e c.box.top) :
    inv e c uw uh udl udr y = sc (NF.realX e) c (rootN e c uw uh udl udr (yn e c y)) := by
  unfold inv; rw [exec_eq_core hv' y hy0 hy1, coreN_eq]

theorem invLd_eq (hv' : CubicValid e c uw uh) (y : ℝ) (hy0 : e c.box.bottom ≤ y) (hy1 : y ≤ e c.box.top) :
    invLd e c uw uh udl udr y
      = - Real.log (binD e c uw uh udl udr (idxH e c uh (yn e c y)) (rootN e c uw uh udl udr (yn e c y))) - e (boxLog c.box) := by
  unfold invLd; rw [exec_eq_core hv' y hy0 hy1, coreN_eq]

/-- the clamped root lies in the closed x-bin with the index of the searched y-bin, hence in `[0,1]` -/
theorem rootN_mem (hv' : CubicValid e c uw uh) (t : ℝ) (ht0 : 0 ≤ t) (ht1 : t ≤ 1) :
    rootN e c uw uh udl udr t ∈ Set.Icc (cws e c uw (idxH e c uh t)) (cws e c uw (idxH e c uh t + 1)) ∧
    0 ≤ rootN e c uw uh udl udr t ∧ rootN e c uw uh udl udr t ≤ 1 := by
  obtain ⟨hiK, _, _, _⟩ := selH hv' t ht0 ht1
  have hmono := ExecGlue.knots_mono (cws e c uw) uw.length (cws_strict hv')
  have h := inBin_mem (e := e) _ _ (preRoot e c uw uh udl udr t).1 (cws_strict hv' _ hiK).le
  have hl0 : 0 ≤ cws e c uw (idxH e c uh t) := by rw [← cws_zero hv']; exact hmono 0 _ (Nat.zero_le _) hiK.le
  have hl1 : cws e c uw (idxH e c uh t + 1) ≤ 1 := by rw [← cws_last hv']; exact hmono _ uw.length hiK le_rfl
  exact ⟨⟨h.1, h.2⟩, le_trans hl0 h.1, le_trans h.2 hl1⟩

/-- **C17: the output of the inverse program lies in `[left, right]`** — unconditionally, by the two clamps -/
theorem inv_mem (hv' : CubicValid e c uw uh) (y : ℝ) (hy0 : e c.box.bottom ≤ y) (hy1 : y ≤ e c.box.top) :
    inv e c uw uh udl udr y ∈ Set.Icc (e c.box.left) (e c.box.right) := by
  rw [inv_eq hv' y hy0 hy1]
  exact ⟨(sc_mem hv' _).1, (sc_mem hv' _).2⟩

/-- **C17: the argument of the logarithm in the returned log-abs-det is strictly positive** for every `y ∈ [bottom, top]`
    (it is the derivative term of the searched bin at a point of that closed bin — whatever root was selected, because the
    root is clamped into its bin first): the log-abs-det is a genuine logarithm, never `log 0` or `log` of a negative. -/
theorem invLd_arg_pos (hv' : CubicValid e c uw uh) (y : ℝ) (hy0 : e c.box.bottom ≤ y) (hy1 : y ≤ e c.box.top) :
    0 < binD e c uw uh udl udr (idxH e c uh (yn e c y)) (rootN e c uw uh udl udr (yn e c y)) := by
  obtain ⟨ht0, ht1⟩ := yn_unit hv' y hy0 hy1
  obtain ⟨hiK, _, _, _⟩ := selH hv' _ ht0 ht1
  obtain ⟨⟨h0, h1⟩, _, _⟩ := rootN_mem (udl := udl) (udr := udr) hv' _ ht0 ht1
  exact binD_pos hv' _ hiK _ h0 h1

/-- the final clamp to `[0,1]` is the identity: the output is the clamped root rescaled to the box -/
theorem inv_eq_root (hv' : CubicValid e c uw uh) (y : ℝ) (hy0 : e c.box.bottom ≤ y) (hy1 : y ≤ e c.box.top) :
    inv e c uw uh udl udr y = rootN e c uw uh udl udr (yn e c y) * (e c.box.right - e c.box.left) + e c.box.left := by
  obtain ⟨ht0, ht1⟩ := yn_unit hv' y hy0 hy1
  obtain ⟨_, h0, h1⟩ := rootN_mem (udl := udl) (udr := udr) hv' _ ht0 ht1
  rw [inv_eq hv' y hy0 hy1, sc_id hv' _ h0 h1]

/-- outside `[bottom, top]` the program raises `outsideDomain` -/
theorem outside_domain (y : ℝ) (hy : y < e c.box.bottom ∨ e c.box.top < y) :
    cubicSpline (NF.realX e) c uw uh udl udr true y = .error .outsideDomain := by
  have hg1 : ((NF.realX e).lt y ((NF.realX e).ofFloat c.box.bottom) || (NF.realX e).lt ((NF.realX e).ofFloat c.box.top) y) = true := by
    simp only [NF.realX_lt, NF.realX_ofFloat, Bool.or_eq_true, decide_eq_true_eq]
    exact hy
  rw [cubicSpline_unfoldI]
  simp only [hg1, if_true]
  rfl


/-! ### Step 2 — the executed root formulas are the formulas of `Lemmas/CubicInverseRoots` -/

/-- the reading `e` of the Python doubles is exact on the literals of the root formulas, and the threshold is positive.
    NB `hs3` is an idealisation: the double `0.5 * math.sqrt(3)` is read as the real `√3/2` (it is within one ulp of it);
    it is used only by the statements about the trigonometric branch. -/
structure InvConsts (e : Float → ℝ) (c : CCfg) : Prop where
  h3 : e 3.0 = 3
  h4 : e 4.0 = 4
  hm2 : e (-2.0) = -2
  hmh : e (-0.5) = -(1/2)
  hs3 : e (0.5 * Float.sqrt 3.0) = Real.sqrt 3 / 2
  hthr : 0 < e c.thr

@[simp] theorem realX_cos (a : ℝ) : (NF.realX e).cos a = Real.cos a := rfl
@[simp] theorem realX_sin (a : ℝ) : (NF.realX e).sin a = Real.sin a := rfl
@[simp] theorem realX_atan2 (y x : ℝ) : (NF.realX e).atan2 y x = Complex.arg ⟨x, y⟩ := rfl

theorem cbrtG_eq (hc : InvConsts e c) (x : ℝ) : cbrtG (NF.realX e) x = CubicRoots.cbrt x := by
  unfold cbrtG CubicRoots.cbrt XOps.sign
  simp only [NF.realX_mul, NF.realX_exp, NF.realX_div, NF.realX_log, NF.realX_abs, NF.realX_ofFloat, hc.h3, NF.realX_lt,
    NF.realX_zero, NF.realX_one, NF.realX_neg, decide_eq_true_eq]

theorem out0_trig (hc : InvConsts e c) (ia ib ic id lcw rcw x' : ℝ)
    (h : 0 ≤ CubicRoots.disc (ib/ia/3) (ic/ia/3) ((id - x')/ia)) :
    out0 (NF.realX e) ia ib ic id lcw rcw x' = pick (NF.realX e) lcw rcw
      [CubicRoots.trig1 (CubicRoots.δ1 (ib/ia/3) (ic/ia/3)) (CubicRoots.dep1 (ib/ia/3) (ic/ia/3) ((id - x')/ia))
          (CubicRoots.disc (ib/ia/3) (ic/ia/3) ((id - x')/ia)) + (-(ib/ia/3) + lcw),
       CubicRoots.trig2 (CubicRoots.δ1 (ib/ia/3) (ic/ia/3)) (CubicRoots.dep1 (ib/ia/3) (ic/ia/3) ((id - x')/ia))
          (CubicRoots.disc (ib/ia/3) (ic/ia/3) ((id - x')/ia)) + (-(ib/ia/3) + lcw),
       CubicRoots.trig3 (CubicRoots.δ1 (ib/ia/3) (ic/ia/3)) (CubicRoots.dep1 (ib/ia/3) (ic/ia/3) ((id - x')/ia))
          (CubicRoots.disc (ib/ia/3) (ic/ia/3) ((id - x')/ia)) + (-(ib/ia/3) + lcw)] := by
  unfold CubicRoots.disc CubicRoots.dep1 CubicRoots.δ1 CubicRoots.δ2 CubicRoots.δ3 at *
  unfold out0 trigRoots CubicRoots.trig1 CubicRoots.trig2 CubicRoots.trig3
  simp only [NF.realX_mul, NF.realX_div, NF.realX_add, NF.realX_sub, NF.realX_neg, NF.realX_sqrt, NF.realX_ofFloat,
    NF.realX_zero, NF.realX_two, XOps.ge, NF.realX_le, hc.h3, hc.h4, hc.hm2, hc.hmh, hc.hs3, realX_cos, realX_sin,
    realX_atan2, h, decide_true, if_true, List.map_cons, List.map_nil]

/-! ### the selection among the three trigonometric candidates -/

theorem foldl_min_le (f : ℝ → ℝ → ℝ) (hf : ∀ m d, f m d = min m d) (l : List ℝ) (m : ℝ) :
    l.foldl f m ≤ m ∧ ∀ d ∈ l, l.foldl f m ≤ d := by
  induction l generalizing m with
  | nil => simp
  | cons a t ih =>
    rw [List.foldl_cons, hf]
    obtain ⟨h1, h2⟩ := ih (min m a)
    refine ⟨le_trans h1 (min_le_left _ _), ?_⟩
    intro d hd
    rcases List.mem_cons.mp hd with rfl | hd
    · exact le_trans h1 (min_le_right _ _)
    · exact h2 d hd

theorem foldl_min_ge (f : ℝ → ℝ → ℝ) (hf : ∀ m d, f m d = min m d) (l : List ℝ) (m lb : ℝ) (hm : lb ≤ m)
    (hl : ∀ d ∈ l, lb ≤ d) : lb ≤ l.foldl f m := by
  induction l generalizing m with
  | nil => simpa using hm
  | cons a t ih =>
    rw [List.foldl_cons, hf]
    exact ih (min m a) (le_min hm (hl a (by simp))) (fun d hd => hl d (by simp [hd]))

theorem zip_map_self (f : ℝ → ℝ) (rs : List ℝ) : rs.zip (rs.map f) = rs.map (fun r => (r, f r)) := by
  induction rs with
  | nil => rfl
  | cons a t ih => simp [ih]

/-- distance of `r` to the bin `[l, rr]` as the program writes it: `relu(l − r) + relu(r − rr)` -/
def dist (l rr r : ℝ) : ℝ := (if 0 < l - r then l - r else 0) + (if 0 < r - rr then r - rr else 0)

theorem dist_nonneg (l rr r : ℝ) : 0 ≤ dist l rr r := by
  unfold dist; split_ifs <;> linarith

theorem dist_le_zero (l rr r : ℝ) (h : dist l rr r ≤ 0) : l ≤ r ∧ r ≤ rr := by
  unfold dist at h; split_ifs at h <;> constructor <;> linarith

theorem dist_in (l rr r : ℝ) (h0 : l ≤ r) (h1 : r ≤ rr) : dist l rr r = 0 := by
  unfold dist
  rw [if_neg (by linarith), if_neg (by linarith)]; ring

/-- **the selection**: if the candidate list contains the point `x` of the bin and every candidate in the bin IS `x`,
    then the pick is `x` and so is every admissible alternative (whatever the ties) -/
theorem pick_spec (l rr x : ℝ) (hl : l ≤ x) (hr : x ≤ rr) (rs : List ℝ) (hmem : x ∈ rs)
    (huniq : ∀ r ∈ rs, l ≤ r → r ≤ rr → r = x) :
    (pick (NF.realX e) l rr rs).1 = x ∧ ∀ r ∈ (pick (NF.realX e) l rr rs).2, r = x := by
  unfold pick
  simp only [NF.realX_lt, NF.realX_zero, NF.realX_add, NF.realX_sub, decide_eq_true_eq]
  have hds : (rs.map fun r => (if 0 < l - r then l - r else 0) + (if 0 < r - rr then r - rr else 0)) = rs.map (dist l rr) := rfl
  rw [hds, zip_map_self]
  set dmin := (rs.map (dist l rr)).foldl (fun m d => if d < m then d else m) ((rs.map (dist l rr)).getD 0 0) with hdmin
  have hmin : dmin ≤ 0 := by
    have := (foldl_min_le (fun m d => if d < m then d else m)
      (fun m d => by by_cases h : d < m <;> simp [h, le_of_lt, not_lt.mp])
      (rs.map (dist l rr)) ((rs.map (dist l rr)).getD 0 0)).2 (dist l rr x) (List.mem_map.mpr ⟨x, hmem, rfl⟩)
    rw [dist_in l rr x hl hr] at this
    exact this
  set good := ((rs.map fun r => (r, dist l rr r)).filter fun rd => !decide (dmin < rd.2)).map (·.1) with hgood
  have hg : ∀ g ∈ good, g = x := by
    intro g hgm
    rw [hgood] at hgm
    simp only [List.mem_map, List.mem_filter, Bool.not_eq_true', decide_eq_false_iff_not, not_lt] at hgm
    obtain ⟨p, ⟨⟨r, hr, rfl⟩, hd⟩, rfl⟩ := hgm
    obtain ⟨h0, h1⟩ := dist_le_zero l rr r (le_trans hd hmin)
    exact huniq r hr h0 h1
  have hx : x ∈ good := by
    rw [hgood]
    simp only [List.mem_map, List.mem_filter, Bool.not_eq_true', decide_eq_false_iff_not, not_lt]
    refine ⟨(x, dist l rr x), ⟨⟨x, hmem, rfl⟩, ?_⟩, rfl⟩
    rw [dist_in l rr x hl hr]
    refine foldl_min_ge _ (fun m d => by by_cases h : d < m <;> simp [h, le_of_lt, not_lt.mp]) _ _ 0 ?_ ?_
    · cases rs with
      | nil => simp
      | cons a t => simp [dist_nonneg]
    · intro d hd
      obtain ⟨r, _, rfl⟩ := List.mem_map.mp hd
      exact dist_nonneg l rr r
  cases hgd : good with
  | nil => rw [hgd] at hx; simp at hx
  | cons g t =>
    simp only
    exact ⟨hg g (by rw [hgd]; simp), fun r hr => hg r (by rw [hgd]; exact hr)⟩

/-! ### Step 3 — the selected root is the root in the bin -/

theorem out0_cardano (hc : InvConsts e c) (ia ib ic id lcw rcw x' : ℝ)
    (h : CubicRoots.disc (ib/ia/3) (ic/ia/3) ((id - x')/ia) < 0) :
    out0 (NF.realX e) ia ib ic id lcw rcw x' =
      (CubicRoots.cbrt ((-(CubicRoots.dep1 (ib/ia/3) (ic/ia/3) ((id - x')/ia))
            + Real.sqrt (-(CubicRoots.disc (ib/ia/3) (ic/ia/3) ((id - x')/ia)))) / 2)
        + CubicRoots.cbrt ((-(CubicRoots.dep1 (ib/ia/3) (ic/ia/3) ((id - x')/ia))
            - Real.sqrt (-(CubicRoots.disc (ib/ia/3) (ic/ia/3) ((id - x')/ia)))) / 2)
        - ib/ia/3 + lcw, []) := by
  have h' : ¬ 0 ≤ CubicRoots.disc (ib/ia/3) (ic/ia/3) ((id - x')/ia) := not_le.mpr h
  unfold CubicRoots.disc CubicRoots.dep1 CubicRoots.δ1 CubicRoots.δ2 CubicRoots.δ3 at *
  unfold out0 cardano
  simp only [NF.realX_mul, NF.realX_div, NF.realX_add, NF.realX_sub, NF.realX_neg, NF.realX_sqrt, NF.realX_ofFloat,
    NF.realX_zero, NF.realX_two, XOps.ge, NF.realX_le, NF.realX_lt, hc.h3, hc.h4, hc.hm2, cbrtG_eq hc,
    h, h', decide_true, decide_false, if_true, if_false, Bool.false_eq_true]

theorem quadRoot_eq (hc : InvConsts e c) (ib ic id lcw x' : ℝ) :
    quadRoot (NF.realX e) ib ic id lcw x' = CubicRoots.qroot ib ic (id - x') + lcw := by
  unfold quadRoot CubicRoots.qroot
  simp only [NF.realX_mul, NF.realX_div, NF.realX_add, NF.realX_sub, NF.realX_neg, NF.realX_sqrt, NF.realX_ofFloat,
    NF.realX_zero, NF.realX_two, realX_maxA, hc.h4]

theorem fallback_eq (ia lcw rcw ih : ℝ) :
    fallback (NF.realX e) c ia lcw rcw ih = decide (|ia| * ((rcw - lcw) * (rcw - lcw) * (rcw - lcw)) < e c.thr * ih) := by
  simp only [fallback, NF.realX_lt, NF.realX_mul, NF.realX_abs, NF.realX_sub, NF.realX_ofFloat]

/-- the executed value term of a bin as a polynomial in the offset from the left knot -/
theorem binN_poly (k : ℕ) (x : ℝ) :
    binN e c uw uh udl udr k x
      = aK e c uw uh udl udr k * (x - cws e c uw k)^3 + bK e c uw uh udl udr k * (x - cws e c uw k)^2
        + dv e c uw uh udl udr k * (x - cws e c uw k) + chs e c uh k := by
  simp [binN, CubicWhole.env, Bridge.cEnv, cubicFwdE, envOf, NF.v]
  ring

/-- every level of the closed y-bin is attained by the bin's cubic at a point of the closed x-bin -/
theorem bin_root_exists (hv' : CubicValid e c uw uh) (k : ℕ) (hk : k < uw.length) (t : ℝ)
    (h0 : chs e c uh k ≤ t) (h1 : t ≤ chs e c uh (k+1)) :
    ∃ x ∈ Set.Icc (cws e c uw k) (cws e c uw (k+1)), binN e c uw uh udl udr k x = t := by
  have hcont : ContinuousOn (binN e c uw uh udl udr k) (Set.Icc (cws e c uw k) (cws e c uw (k+1))) :=
    fun x _ => (bin_hasDerivAt hv' k hk x).continuousAt.continuousWithinAt
  have := intermediate_value_Icc (cws_strict hv' k hk).le hcont
  rw [(bin_endpoints hv' k hk).1, (bin_endpoints hv' k hk).2] at this
  exact this ⟨h0, h1⟩

/-- **the selected root is the root in the bin** — per bin, for every level `t` of the closed y-bin `k`: if the quadratic
    fallback is not taken (or the bin is genuinely quadratic, `a = 0`), the root the program selects (before the clamps)
    IS the unique point `x` of the closed x-bin with `bin_k(x) = t`, and so is every admissible alternative -/
theorem out1_exact (hv' : CubicValid e c uw uh) (hc : InvConsts e c) (k : ℕ) (hk : k < uw.length) (t : ℝ)
    (h0 : chs e c uh k ≤ t) (h1 : t ≤ chs e c uh (k+1))
    (hcase : fallback (NF.realX e) c (aK e c uw uh udl udr k) (cws e c uw k) (cws e c uw (k+1)) (CubicWhole.hv e c uh k) = false
              ∨ aK e c uw uh udl udr k = 0)
    (x : ℝ) (hx : x ∈ Set.Icc (cws e c uw k) (cws e c uw (k+1))) (hxt : binN e c uw uh udl udr k x = t) :
    (out1 (NF.realX e) c (aK e c uw uh udl udr k) (bK e c uw uh udl udr k) (dv e c uw uh udl udr k) (chs e c uh k)
      (cws e c uw k) (cws e c uw (k+1)) (CubicWhole.hv e c uh k) t).1 = x ∧
    ∀ r ∈ (out1 (NF.realX e) c (aK e c uw uh udl udr k) (bK e c uw uh udl udr k) (dv e c uw uh udl udr k) (chs e c uh k)
      (cws e c uw k) (cws e c uw (k+1)) (CubicWhole.hv e c uh k) t).2, r = x := by
  have hinj := (bin_strictMonoOn (udl := udl) (udr := udr) hv' k hk).injOn
  have hP : ∀ r, binN e c uw uh udl udr k r = t ↔
      aK e c uw uh udl udr k * (r - cws e c uw k)^3 + bK e c uw uh udl udr k * (r - cws e c uw k)^2
        + dv e c uw uh udl udr k * (r - cws e c uw k) + (chs e c uh k - t) = 0 := by
    intro r; rw [binN_poly]; constructor <;> intro h <;> linarith
  have hw := wv_pos hv' k hk
  have hrr := cws_succ hv' k hk
  have hcpos : 0 < dv e c uw uh udl udr k := (dv_range (udl := udl) (udr := udr) hv' k hk).1.1
  have hend := (bin_endpoints (udl := udl) (udr := udr) hv' k hk).2
  rw [binN_poly, hrr, add_sub_cancel_left] at hend
  rw [hrr] at hx hcase hinj
  rw [← hend] at h1
  rw [hrr]
  clear hend hrr
  generalize aK e c uw uh udl udr k = a at *
  generalize bK e c uw uh udl udr k = b at *
  generalize dv e c uw uh udl udr k = c' at *
  generalize chs e c uh k = d at *
  generalize cws e c uw k = l at *
  generalize wv e c uw k = w at *
  unfold out1
  by_cases hfb : fallback (NF.realX e) c a l (l + w) (CubicWhole.hv e c uh k) = true
  · rw [if_pos hfb]
    have ha : a = 0 := by
      rcases hcase with h | h
      · rw [h] at hfb; exact absurd hfb (by simp)
      · exact h
    rw [quadRoot_eq hc]
    obtain ⟨_, q0, q1, hq⟩ := CubicRoots.qroot_exact (b := b) (c := c') (cc := d - t) hw hcpos (by linarith)
      (by rw [ha] at h1; linarith)
    have hb : binN e c uw uh udl udr k (CubicRoots.qroot b c' (d - t) + l) = t := by
      rw [hP, ha, add_sub_cancel_right]; linarith
    exact ⟨hinj ⟨by linarith, by linarith⟩ hx (hb.trans hxt.symm), by simp⟩
  · rw [if_neg hfb]
    have hfb' : fallback (NF.realX e) c a l (l + w) (CubicWhole.hv e c uh k) = false := by simpa using hfb
    have ha : a ≠ 0 := by
      intro ha
      have hpos := mul_pos hc.hthr (hv_pos hv' k hk)
      rw [fallback_eq, ha, abs_zero, zero_mul] at hfb'
      exact absurd hpos (of_decide_eq_false hfb')
    have hΔ := CubicRoots.disc_eq (b/a/3) (c'/a/3) ((d - t)/a)
    have hroot := (hP x).mp hxt
    rw [CubicRoots.monic a b c' (d - t) (x - l) ha] at hroot
    have hroot' := (mul_eq_zero.mp hroot).resolve_left ha
    by_cases hd : 0 ≤ CubicRoots.disc (b/a/3) (c'/a/3) ((d - t)/a)
    · rw [out0_trig hc _ _ _ _ _ _ _ hd]
      obtain ⟨r1, r2, r3⟩ := CubicRoots.trig_roots hΔ hd
      have hcomp := CubicRoots.trig_complete hΔ hd hroot'
      set m := CubicRoots.δ1 (b/a/3) (c'/a/3)
      set n := CubicRoots.dep1 (b/a/3) (c'/a/3) ((d - t)/a)
      set Δ := CubicRoots.disc (b/a/3) (c'/a/3) ((d - t)/a)
      apply pick_spec l (l + w) x hx.1 hx.2
      · rcases hcomp with h | h | h
        · have : x = CubicRoots.trig1 m n Δ + (-(b/a/3) + l) := by rw [← h]; ring
          rw [this]; simp
        · have : x = CubicRoots.trig2 m n Δ + (-(b/a/3) + l) := by rw [← h]; ring
          rw [this]; simp
        · have : x = CubicRoots.trig3 m n Δ + (-(b/a/3) + l) := by rw [← h]; ring
          rw [this]; simp
      · intro r hr hr0 hr1
        simp only [List.mem_cons, List.not_mem_nil, or_false] at hr
        apply hinj ⟨hr0, hr1⟩ hx
        rw [hxt, hP, CubicRoots.monic a b c' (d - t) (r - l) ha]
        rcases hr with rfl | rfl | rfl
        · rw [show CubicRoots.trig1 m n Δ + (-(b/a/3) + l) - l + b/a/3 = CubicRoots.trig1 m n Δ by ring, r1, mul_zero]
        · rw [show CubicRoots.trig2 m n Δ + (-(b/a/3) + l) - l + b/a/3 = CubicRoots.trig2 m n Δ by ring, r2, mul_zero]
        · rw [show CubicRoots.trig3 m n Δ + (-(b/a/3) + l) - l + b/a/3 = CubicRoots.trig3 m n Δ by ring, r3, mul_zero]
    · have hd' := not_le.mp hd
      rw [out0_cardano hc _ _ _ _ _ _ _ hd']
      have := CubicRoots.cardano_unique hΔ hd' hroot'
      exact ⟨by simp only; linarith, by simp⟩

/-- the inverse is EXACT at bin `k`: the quadratic fallback `|a|·w³ < thr·h` is not taken there, or the bin is genuinely
    quadratic (`a = 0`, where the fallback formula is exact) -/
def ExactBin (e : Float → ℝ) (c : CCfg) (uw uh : List ℝ) (udl udr : ℝ) (k : ℕ) : Prop :=
  fallback (NF.realX e) c (aK e c uw uh udl udr k) (cws e c uw k) (cws e c uw (k+1)) (CubicWhole.hv e c uh k) = false
    ∨ aK e c uw uh udl udr k = 0

/-- the fallback condition in plain terms: `|a_k| · w_k³ < thr · h_k` -/
theorem fallback_iff (hv' : CubicValid e c uw uh) (k : ℕ) (hk : k < uw.length) :
    fallback (NF.realX e) c (aK e c uw uh udl udr k) (cws e c uw k) (cws e c uw (k+1)) (CubicWhole.hv e c uh k) = true
      ↔ |aK e c uw uh udl udr k| * (wv e c uw k)^3 < e c.thr * CubicWhole.hv e c uh k := by
  rw [fallback_eq, cws_succ hv' k hk, add_sub_cancel_left, decide_eq_true_eq]
  constructor <;> intro h <;> nlinarith [h]

/-- what the clamped root is, where the inverse is exact: the point of the closed x-bin (index of the searched y-bin)
    whose bin-cubic value is `t`; every admissible alternative is that same point -/
theorem rootN_spec (hv' : CubicValid e c uw uh) (hc : InvConsts e c) (t : ℝ) (ht0 : 0 ≤ t) (ht1 : t ≤ 1)
    (hex : ExactBin e c uw uh udl udr (idxH e c uh t)) :
    binN e c uw uh udl udr (idxH e c uh t) (rootN e c uw uh udl udr t) = t ∧
    (preRoot e c uw uh udl udr t).1 = rootN e c uw uh udl udr t ∧
    ∀ r ∈ (preRoot e c uw uh udl udr t).2, r = rootN e c uw uh udl udr t := by
  obtain ⟨hiK, hle, hle1, _⟩ := selH hv' t ht0 ht1
  obtain ⟨x, hx, hxt⟩ := bin_root_exists (udl := udl) (udr := udr) hv' _ hiK t hle hle1
  obtain ⟨h1, h2⟩ := out1_exact hv' hc _ hiK t hle hle1 hex x hx hxt
  have hr : rootN e c uw uh udl udr t = x := by
    unfold rootN preRoot
    rw [h1, inBin_id _ _ _ hx.1 hx.2]
  rw [hr]
  exact ⟨hxt, h1, h2⟩

theorem nval_eqOn_bin (hv' : CubicValid e c uw uh) (k : ℕ) (hk : k < uw.length) :
    Set.EqOn (nval e c uw uh udl udr) (binN e c uw uh udl udr k) (Set.Icc (cws e c uw k) (cws e c uw (k+1))) :=
  ExecGlue.eqOn_bin (cws e c uw) uw.length (binN e c uw uh udl udr) (nval e c uw uh udl udr) (idxN e c uw)
    (cws_strict hv') (search_spec hv').1 (hF e c uw uh udl udr) (bin_join hv') k hk

/-- **forward ∘ inverse = id**, normalised coordinates, whole functions -/
theorem nval_rootN (hv' : CubicValid e c uw uh) (hc : InvConsts e c) (t : ℝ) (ht0 : 0 ≤ t) (ht1 : t ≤ 1)
    (hex : ExactBin e c uw uh udl udr (idxH e c uh t)) :
    nval e c uw uh udl udr (rootN e c uw uh udl udr t) = t := by
  obtain ⟨hiK, _, _, _⟩ := selH hv' t ht0 ht1
  rw [nval_eqOn_bin hv' _ hiK (rootN_mem hv' t ht0 ht1).1]
  exact (rootN_spec hv' hc t ht0 ht1 hex).1

/-- **inverse ∘ forward = id**, normalised coordinates, whole functions -/
theorem rootN_nval (hv' : CubicValid e c uw uh) (hc : InvConsts e c) (x : ℝ) (hx0 : 0 ≤ x) (hx1 : x ≤ 1)
    (hex : ExactBin e c uw uh udl udr (idxH e c uh (nval e c uw uh udl udr x))) :
    rootN e c uw uh udl udr (nval e c uw uh udl udr x) = x := by
  have hm := nval_mapsTo (udl := udl) (udr := udr) hv' ⟨hx0, hx1⟩
  obtain ⟨_, r0, r1⟩ := rootN_mem (udl := udl) (udr := udr) hv' _ hm.1 hm.2
  exact (nval_strictMonoOn hv').injOn ⟨r0, r1⟩ ⟨hx0, hx1⟩ (nval_rootN hv' hc _ hm.1 hm.2 hex)

/-- **the two searches agree**: the bin the forward search (over the x-knots) selects at the inverse's output is the bin
    the inverse search (over the y-knots) selected — knots and both ends included -/
theorem idxN_rootN (hv' : CubicValid e c uw uh) (hc : InvConsts e c) (t : ℝ) (ht0 : 0 ≤ t) (ht1 : t ≤ 1)
    (hex : ExactBin e c uw uh udl udr (idxH e c uh t)) :
    idxN e c uw (rootN e c uw uh udl udr t) = idxH e c uh t := by
  obtain ⟨hiK, hle, hle1, hr⟩ := selH hv' t ht0 ht1
  obtain ⟨⟨h0, h1⟩, _, _⟩ := rootN_mem (udl := udl) (udr := udr) hv' t ht0 ht1
  apply RQInverseWhole.idx_unique (cws e c uw) uw.length (idxN e c uw) (cws_strict hv') (search_spec hv').1 _ hiK _ h0
  rcases lt_or_eq_of_le h1 with hlt | heq
  · exact Or.inl hlt
  · right
    have hs : t = chs e c uh (idxH e c uh t + 1) := by
      have := (rootN_spec hv' hc t ht0 ht1 hex).1
      rw [heq, (bin_endpoints hv' _ hiK).2] at this
      exact this.symm
    rcases hr with hr | ⟨hK, _⟩
    · linarith
    · exact ⟨hK, by rw [heq, hK]⟩

/-! ### the round trips on the boxes (C02) -/

/-- the forward program's normalised input at the inverse program's output is the clamped root -/
theorem xn_inv (hv' : CubicValid e c uw uh) (y : ℝ) (hy0 : e c.box.bottom ≤ y) (hy1 : y ≤ e c.box.top) :
    xn e c (inv e c uw uh udl udr y) = rootN e c uw uh udl udr (yn e c y) := by
  have hD : 0 < e c.box.right - e c.box.left := sub_pos.mpr hv'.hlr
  rw [xn_eq hv', inv_eq_root hv' y hy0 hy1, add_sub_cancel_right]
  exact mul_div_cancel_right₀ _ hD.ne'

/-- the inverse program's normalised input at the forward program's output is the normalised forward value -/
theorem yn_val (hv' : CubicValid e c uw uh) (x : ℝ) (hx0 : e c.box.left ≤ x) (hx1 : x ≤ e c.box.right) :
    yn e c (val e c uw uh udl udr x) = nval e c uw uh udl udr (xn e c x) := by
  have hD : 0 < e c.box.top - e c.box.bottom := sub_pos.mpr hv'.hbt
  rw [yn_eq hv', val_eq hv' x hx0 hx1, add_sub_cancel_right]
  exact mul_div_cancel_right₀ _ hD.ne'

/-- **C02: forward ∘ inverse = id** at every `y ∈ [bottom, top]` whose searched bin is exact -/
theorem val_inv (hv' : CubicValid e c uw uh) (hc : InvConsts e c) (y : ℝ) (hy0 : e c.box.bottom ≤ y) (hy1 : y ≤ e c.box.top)
    (hex : ExactBin e c uw uh udl udr (idxH e c uh (yn e c y))) :
    val e c uw uh udl udr (inv e c uw uh udl udr y) = y := by
  obtain ⟨ht0, ht1⟩ := yn_unit hv' y hy0 hy1
  obtain ⟨hi0, hi1⟩ := inv_mem (udl := udl) (udr := udr) hv' y hy0 hy1
  have hD : 0 < e c.box.top - e c.box.bottom := sub_pos.mpr hv'.hbt
  rw [val_eq hv' _ hi0 hi1, xn_inv hv' y hy0 hy1, nval_rootN hv' hc _ ht0 ht1 hex, yn_eq hv']
  field_simp
  ring

/-- **C02: inverse ∘ forward = id** at every `x ∈ [left, right]` whose image lies in an exact bin -/
theorem inv_val (hv' : CubicValid e c uw uh) (hc : InvConsts e c) (x : ℝ) (hx0 : e c.box.left ≤ x) (hx1 : x ≤ e c.box.right)
    (hex : ExactBin e c uw uh udl udr (idxH e c uh (nval e c uw uh udl udr (xn e c x)))) :
    inv e c uw uh udl udr (val e c uw uh udl udr x) = x := by
  obtain ⟨ht0, ht1⟩ := xn_unit hv' x hx0 hx1
  obtain ⟨hm0, hm1⟩ := val_mapsTo (udl := udl) (udr := udr) hv' ⟨hx0, hx1⟩
  have hD : 0 < e c.box.right - e c.box.left := sub_pos.mpr hv'.hlr
  rw [inv_eq_root hv' _ hm0 hm1, yn_val hv' x hx0 hx1, rootN_nval hv' hc _ ht0 ht1 hex, xn_eq hv']
  field_simp
  ring

/-- **C02: the inverse log-abs-det is minus the forward log-abs-det at the inverse's output** (no hypothesis on `boxLog`:
    the forward adds and the inverse subtracts the same constant) -/
theorem invLd_eq_neg_ld (hv' : CubicValid e c uw uh) (hc : InvConsts e c) (y : ℝ) (hy0 : e c.box.bottom ≤ y) (hy1 : y ≤ e c.box.top)
    (hex : ExactBin e c uw uh udl udr (idxH e c uh (yn e c y))) :
    invLd e c uw uh udl udr y = - ld e c uw uh udl udr (inv e c uw uh udl udr y) := by
  obtain ⟨ht0, ht1⟩ := yn_unit hv' y hy0 hy1
  obtain ⟨hi0, hi1⟩ := inv_mem (udl := udl) (udr := udr) hv' y hy0 hy1
  rw [invLd_eq hv' y hy0 hy1, ld_eq hv' _ hi0 hi1, xn_inv hv' y hy0 hy1, idxN_rootN hv' hc _ ht0 ht1 hex]
  ring

/-- where the inverse is exact the admissible alternatives (ties of the three-root selection) all equal the output -/
theorem invAlts_eq (hv' : CubicValid e c uw uh) (hc : InvConsts e c) (y : ℝ) (hy0 : e c.box.bottom ≤ y) (hy1 : y ≤ e c.box.top)
    (hex : ExactBin e c uw uh udl udr (idxH e c uh (yn e c y))) :
    ∀ r ∈ invAlts e c uw uh udl udr y, r = inv e c uw uh udl udr y := by
  obtain ⟨ht0, ht1⟩ := yn_unit hv' y hy0 hy1
  obtain ⟨_, h1, h2⟩ := rootN_spec hv' hc _ ht0 ht1 hex
  intro r hr
  unfold invAlts at hr
  rw [exec_eq_core hv' y hy0 hy1, coreN_eq] at hr
  simp only [List.mem_map] at hr
  obtain ⟨_, ⟨a, ha, rfl⟩, rfl⟩ := hr
  obtain ⟨⟨m0, m1⟩, _, _⟩ := rootN_mem (udl := udl) (udr := udr) hv' _ ht0 ht1
  rw [inv_eq hv' y hy0 hy1, h2 a ha, inBin_id _ _ _ m0 m1]


/-! ### Step 4 — the inverse as a bijection of the boxes (C09), when no bin takes the approximate fallback -/

/-- every bin is exact: none satisfies `|a|·w³ < thr·h` with `a ≠ 0` -/
def AllExact (e : Float → ℝ) (c : CCfg) (uw uh : List ℝ) (udl udr : ℝ) : Prop :=
  ∀ k < uw.length, ExactBin e c uw uh udl udr k

theorem exact_at (hv' : CubicValid e c uw uh) (hall : AllExact e c uw uh udl udr) (t : ℝ) (ht0 : 0 ≤ t) (ht1 : t ≤ 1) :
    ExactBin e c uw uh udl udr (idxH e c uh t) := hall _ (selH hv' t ht0 ht1).1

theorem val_inv_all (hv' : CubicValid e c uw uh) (hc : InvConsts e c) (hall : AllExact e c uw uh udl udr)
    (y : ℝ) (hy0 : e c.box.bottom ≤ y) (hy1 : y ≤ e c.box.top) :
    val e c uw uh udl udr (inv e c uw uh udl udr y) = y :=
  val_inv hv' hc y hy0 hy1 (exact_at hv' hall _ (yn_unit hv' y hy0 hy1).1 (yn_unit hv' y hy0 hy1).2)

theorem inv_val_all (hv' : CubicValid e c uw uh) (hc : InvConsts e c) (hall : AllExact e c uw uh udl udr)
    (x : ℝ) (hx0 : e c.box.left ≤ x) (hx1 : x ≤ e c.box.right) :
    inv e c uw uh udl udr (val e c uw uh udl udr x) = x := by
  obtain ⟨ht0, ht1⟩ := xn_unit hv' x hx0 hx1
  have hm := nval_mapsTo (udl := udl) (udr := udr) hv' ⟨ht0, ht1⟩
  exact inv_val hv' hc x hx0 hx1 (exact_at hv' hall _ hm.1 hm.2)

theorem invLd_eq_neg_ld_all (hv' : CubicValid e c uw uh) (hc : InvConsts e c) (hall : AllExact e c uw uh udl udr)
    (y : ℝ) (hy0 : e c.box.bottom ≤ y) (hy1 : y ≤ e c.box.top) :
    invLd e c uw uh udl udr y = - ld e c uw uh udl udr (inv e c uw uh udl udr y) :=
  invLd_eq_neg_ld hv' hc y hy0 hy1 (exact_at hv' hall _ (yn_unit hv' y hy0 hy1).1 (yn_unit hv' y hy0 hy1).2)

/-- the two programs are mutually inverse on the boxes -/
theorem invOn (hv' : CubicValid e c uw uh) (hc : InvConsts e c) (hall : AllExact e c uw uh udl udr) :
    Set.InvOn (inv e c uw uh udl udr) (val e c uw uh udl udr) (Set.Icc (e c.box.left) (e c.box.right))
      (Set.Icc (e c.box.bottom) (e c.box.top)) :=
  ⟨fun x hx => inv_val_all hv' hc hall x hx.1 hx.2, fun y hy => val_inv_all hv' hc hall y hy.1 hy.2⟩

/-- **C09: the executed inverse is strictly increasing on `[bottom, top]`** -/
theorem inv_strictMonoOn (hv' : CubicValid e c uw uh) (hc : InvConsts e c) (hall : AllExact e c uw uh udl udr) :
    StrictMonoOn (inv e c uw uh udl udr) (Set.Icc (e c.box.bottom) (e c.box.top)) := by
  intro a ha b hb hab
  by_contra hle
  have hle' : inv e c uw uh udl udr b ≤ inv e c uw uh udl udr a := not_lt.mp hle
  have := (val_strictMonoOn (udl := udl) (udr := udr) hv').monotoneOn (inv_mem hv' b hb.1 hb.2) (inv_mem hv' a ha.1 ha.2) hle'
  rw [val_inv_all hv' hc hall a ha.1 ha.2, val_inv_all hv' hc hall b hb.1 hb.2] at this
  linarith

/-- … pins both corners: `bottom ↦ left`, `top ↦ right` -/
theorem inv_endpoints (hv' : CubicValid e c uw uh) (hc : InvConsts e c) (hall : AllExact e c uw uh udl udr) :
    inv e c uw uh udl udr (e c.box.bottom) = e c.box.left ∧ inv e c uw uh udl udr (e c.box.top) = e c.box.right := by
  obtain ⟨hl, hr⟩ := val_endpoints (udl := udl) (udr := udr) hv'
  constructor
  · rw [← hl]; exact inv_val_all hv' hc hall _ le_rfl hv'.hlr.le
  · rw [← hr]; exact inv_val_all hv' hc hall _ hv'.hlr.le le_rfl

/-- **C09: … and a BIJECTION of `[bottom, top]` onto `[left, right]`** -/
theorem inv_bijOn (hv' : CubicValid e c uw uh) (hc : InvConsts e c) (hall : AllExact e c uw uh udl udr) :
    Set.BijOn (inv e c uw uh udl udr) (Set.Icc (e c.box.bottom) (e c.box.top)) (Set.Icc (e c.box.left) (e c.box.right)) := by
  refine ⟨fun y hy => inv_mem hv' y hy.1 hy.2, (inv_strictMonoOn hv' hc hall).injOn, ?_⟩
  intro x hx
  exact ⟨val e c uw uh udl udr x, val_mapsTo hv' hx, inv_val_all hv' hc hall x hx.1 hx.2⟩

theorem inv_image (hv' : CubicValid e c uw uh) (hc : InvConsts e c) (hall : AllExact e c uw uh udl udr) :
    inv e c uw uh udl udr '' Set.Icc (e c.box.bottom) (e c.box.top) = Set.Icc (e c.box.left) (e c.box.right) :=
  (inv_bijOn hv' hc hall).image_eq


/-! ### the approximate fallback: what `quadratic_threshold` costs -/

/-- per bin, in the fallback branch (`|a|·w³ < thr·h`, any `a`): the clamped stable quadratic root is an approximate root
    of the bin's cubic, with residual at most the dropped cubic term `|a|·w³` -/
theorem fallback_residual (hv' : CubicValid e c uw uh) (hc : InvConsts e c) (k : ℕ) (hk : k < uw.length) (t : ℝ)
    (h0 : chs e c uh k ≤ t) (h1 : t ≤ chs e c uh (k+1))
    (hfb : fallback (NF.realX e) c (aK e c uw uh udl udr k) (cws e c uw k) (cws e c uw (k+1)) (CubicWhole.hv e c uh k) = true) :
    |binN e c uw uh udl udr k (inBin (NF.realX e) (cws e c uw k) (cws e c uw (k+1))
        (out1 (NF.realX e) c (aK e c uw uh udl udr k) (bK e c uw uh udl udr k) (dv e c uw uh udl udr k) (chs e c uh k)
          (cws e c uw k) (cws e c uw (k+1)) (CubicWhole.hv e c uh k) t).1) - t|
      ≤ |aK e c uw uh udl udr k| * (wv e c uw k)^3 := by
  have hw := wv_pos hv' k hk
  have hrr := cws_succ hv' k hk
  have hcpos : 0 < dv e c uw uh udl udr k := (dv_range (udl := udl) (udr := udr) hv' k hk).1.1
  have hend := (bin_endpoints (udl := udl) (udr := udr) hv' k hk).2
  rw [binN_poly, hrr, add_sub_cancel_left] at hend
  unfold out1
  rw [if_pos hfb, quadRoot_eq hc, inBin_eq, hrr]
  have hshift : min (max (CubicRoots.qroot (bK e c uw uh udl udr k) (dv e c uw uh udl udr k) (chs e c uh k - t) + cws e c uw k)
      (cws e c uw k)) (cws e c uw k + wv e c uw k)
      = min (max (CubicRoots.qroot (bK e c uw uh udl udr k) (dv e c uw uh udl udr k) (chs e c uh k - t)) 0) (wv e c uw k)
        + cws e c uw k := by
    have h1 : max (CubicRoots.qroot (bK e c uw uh udl udr k) (dv e c uw uh udl udr k) (chs e c uh k - t) + cws e c uw k)
        (cws e c uw k)
        = max (CubicRoots.qroot (bK e c uw uh udl udr k) (dv e c uw uh udl udr k) (chs e c uh k - t)) 0 + cws e c uw k := by
      rw [← max_add_add_right, zero_add]
    rw [h1, add_comm (cws e c uw k) (wv e c uw k), min_add_add_right]
  rw [hshift, binN_poly, add_sub_cancel_right]
  have := CubicRoots.qroot_approx (a := aK e c uw uh udl udr k) (b := bK e c uw uh udl udr k) (c := dv e c uw uh udl udr k)
    (cc := chs e c uh k - t) hw hcpos (by linarith) (by linarith)
  refine le_trans (le_of_eq ?_) this
  congr 1
  ring

/-- **the round trip `forward ∘ inverse` in normalised coordinates, on ALL of `[0,1]`, fallback included**: the error is at
    most `|a|·w³` of the searched bin (and `0` where the bin is exact) -/
theorem nval_rootN_approx (hv' : CubicValid e c uw uh) (hc : InvConsts e c) (t : ℝ) (ht0 : 0 ≤ t) (ht1 : t ≤ 1) :
    |nval e c uw uh udl udr (rootN e c uw uh udl udr t) - t|
      ≤ |aK e c uw uh udl udr (idxH e c uh t)| * (wv e c uw (idxH e c uh t))^3 ∧
    |nval e c uw uh udl udr (rootN e c uw uh udl udr t) - t| < e c.thr * CubicWhole.hv e c uh (idxH e c uh t) := by
  obtain ⟨hiK, hle, hle1, _⟩ := selH hv' t ht0 ht1
  have hpos := mul_pos hc.hthr (hv_pos hv' _ hiK)
  have hnn : 0 ≤ |aK e c uw uh udl udr (idxH e c uh t)| * (wv e c uw (idxH e c uh t))^3 :=
    mul_nonneg (abs_nonneg _) (pow_nonneg (wv_pos hv' _ hiK).le 3)
  by_cases hfb : fallback (NF.realX e) c (aK e c uw uh udl udr (idxH e c uh t)) (cws e c uw (idxH e c uh t))
      (cws e c uw (idxH e c uh t + 1)) (CubicWhole.hv e c uh (idxH e c uh t)) = true
  · have hres := fallback_residual (udl := udl) (udr := udr) hv' hc _ hiK t hle hle1 hfb
    have hlt := (fallback_iff (udl := udl) (udr := udr) hv' _ hiK).mp hfb
    rw [nval_eqOn_bin hv' _ hiK (rootN_mem hv' t ht0 ht1).1]
    exact ⟨hres, lt_of_le_of_lt hres hlt⟩
  · have hex : ExactBin e c uw uh udl udr (idxH e c uh t) := Or.inl (by simpa using hfb)
    rw [nval_rootN hv' hc t ht0 ht1 hex, sub_self, abs_zero]
    exact ⟨hnn, hpos⟩

/-- **C02 on the whole box, fallback included, with the explicit constant**: `|val (inv y) − y| < thr · (top − bottom)` for
    EVERY `y ∈ [bottom, top]` — the round trip is exact up to the declared `quadratic_threshold` (relative to the height
    of the box; more precisely relative to the height of the searched bin) -/
theorem val_inv_approx (hv' : CubicValid e c uw uh) (hc : InvConsts e c) (y : ℝ) (hy0 : e c.box.bottom ≤ y) (hy1 : y ≤ e c.box.top) :
    |val e c uw uh udl udr (inv e c uw uh udl udr y) - y|
      < e c.thr * CubicWhole.hv e c uh (idxH e c uh (yn e c y)) * (e c.box.top - e c.box.bottom) ∧
    |val e c uw uh udl udr (inv e c uw uh udl udr y) - y| < e c.thr * (e c.box.top - e c.box.bottom) := by
  obtain ⟨ht0, ht1⟩ := yn_unit hv' y hy0 hy1
  obtain ⟨hi0, hi1⟩ := inv_mem (udl := udl) (udr := udr) hv' y hy0 hy1
  obtain ⟨hiK, _, _, _⟩ := selH hv' _ ht0 ht1
  have hD : 0 < e c.box.top - e c.box.bottom := sub_pos.mpr hv'.hbt
  have happ := (nval_rootN_approx (udl := udl) (udr := udr) hv' hc _ ht0 ht1).2
  have hy : y = yn e c y * (e c.box.top - e c.box.bottom) + e c.box.bottom := by
    rw [yn_eq hv']; field_simp; ring
  have hval : val e c uw uh udl udr (inv e c uw uh udl udr y) - y
      = (nval e c uw uh udl udr (rootN e c uw uh udl udr (yn e c y)) - yn e c y) * (e c.box.top - e c.box.bottom) := by
    rw [val_eq hv' _ hi0 hi1, xn_inv hv' y hy0 hy1]
    nth_rewrite 2 [hy]
    ring
  have h1 : |val e c uw uh udl udr (inv e c uw uh udl udr y) - y|
      < e c.thr * CubicWhole.hv e c uh (idxH e c uh (yn e c y)) * (e c.box.top - e c.box.bottom) := by
    rw [hval, abs_mul, abs_of_pos hD]
    exact mul_lt_mul_of_pos_right happ hD
  refine ⟨h1, lt_of_lt_of_le h1 ?_⟩
  -- a bin height is at most 1
  have hh1 : CubicWhole.hv e c uh (idxH e c uh (yn e c y)) ≤ 1 := by
    have h0' := (chs_unit hv' (idxH e c uh (yn e c y)) hiK.le).1
    have h1' := (chs_unit hv' (idxH e c uh (yn e c y) + 1) hiK).2
    have := chs_succ hv' _ hiK
    linarith
  have := mul_le_mul_of_nonneg_left hh1 hc.hthr.le
  nlinarith

/-- at any point `r` of the closed x-bin `i` the derivative term of the bin the FORWARD search selects at `r` equals the
    derivative term of bin `i` (same bin, or — at an interior right knot — the next bin, where the spline is C¹) -/
theorem binD_idxN (hv' : CubicValid e c uw uh) (i : ℕ) (hi : i < uw.length) (r : ℝ)
    (h0 : cws e c uw i ≤ r) (h1 : r ≤ cws e c uw (i+1)) :
    binD e c uw uh udl udr (idxN e c uw r) r = binD e c uw uh udl udr i r := by
  rcases lt_or_eq_of_le h1 with hlt | heq
  · rw [RQInverseWhole.idx_unique (cws e c uw) uw.length (idxN e c uw) (cws_strict hv') (search_spec hv').1 i hi r h0 (Or.inl hlt)]
  · rcases Nat.lt_or_ge (i+1) uw.length with hlt | hge
    · have hj : idxN e c uw r = i + 1 :=
        RQInverseWhole.idx_unique (cws e c uw) uw.length (idxN e c uw) (cws_strict hv') (search_spec hv').1 (i+1) hlt r
          heq.ge (Or.inl (by rw [heq]; exact cws_strict hv' (i+1) hlt))
      rw [hj, heq, (binD_knots hv' (i+1) hlt).1, (binD_knots hv' i hi).2]
    · have hK : i + 1 = uw.length := by omega
      rw [RQInverseWhole.idx_unique (cws e c uw) uw.length (idxN e c uw) (cws_strict hv') (search_spec hv').1 i hi r h0
        (Or.inr ⟨hK, by rw [heq, hK]⟩)]

/-- **C02, log-abs-det law, UNCONDITIONALLY on the whole box** (fallback bins included, no hypothesis on the constants of
    the root formulas): the inverse program's log-abs-det is minus the forward program's log-abs-det at the inverse
    program's output.  (Both evaluate the same derivative polynomial at the same clamped point.) -/
theorem invLd_eq_neg_ld_always (hv' : CubicValid e c uw uh) (y : ℝ) (hy0 : e c.box.bottom ≤ y) (hy1 : y ≤ e c.box.top) :
    invLd e c uw uh udl udr y = - ld e c uw uh udl udr (inv e c uw uh udl udr y) := by
  obtain ⟨ht0, ht1⟩ := yn_unit hv' y hy0 hy1
  obtain ⟨hi0, hi1⟩ := inv_mem (udl := udl) (udr := udr) hv' y hy0 hy1
  obtain ⟨hiK, _, _, _⟩ := selH hv' _ ht0 ht1
  obtain ⟨⟨m0, m1⟩, _, _⟩ := rootN_mem (udl := udl) (udr := udr) hv' _ ht0 ht1
  rw [invLd_eq hv' y hy0 hy1, ld_eq hv' _ hi0 hi1, xn_inv hv' y hy0 hy1, binD_idxN hv' _ hiK _ m0 m1]
  ring

/-! ### non-vacuity: a concrete reading of the doubles and concrete parameters satisfying every hypothesis -/

def codeI (f : Float) : Nat :=
  if f == 0.0 then 0 else if f == 3.0 then 1 else if f == 4.0 then 2 else if f == -2.0 then 3 else if f == -0.5 then 4
  else if f == 0.8660254037844386 then 5 else if f == 0.5 then 6 else if f == 1e-3 then 7 else 8
def tableI : Nat → ℝ
  | 0 => 0 | 1 => 3 | 2 => 4 | 3 => -2 | 4 => -(1/2) | 5 => Real.sqrt 3 / 2 | 6 => 1/2 | 7 => 1/1000 | _ => 1
/-- a reading of the doubles that is exact on every literal the cubic inverse uses (`0.5·√3` read as `√3/2`) -/
def eI (f : Float) : ℝ := tableI (codeI f)

private theorem k0 : codeI 0.0 = 0 := by decide +kernel
private theorem k1 : codeI 1.0 = 8 := by decide +kernel
private theorem k3 : codeI 3.0 = 1 := by decide +kernel
private theorem k4 : codeI 4.0 = 2 := by decide +kernel
private theorem km2 : codeI (-2.0) = 3 := by decide +kernel
private theorem kmh : codeI (-0.5) = 4 := by decide +kernel
private theorem ks3 : codeI (0.5 * Float.sqrt 3.0) = 5 := by decide +kernel
private theorem kh : codeI 0.5 = 6 := by decide +kernel
private theorem kthr : codeI 1e-3 = 7 := by decide +kernel
private theorem kseps : codeI 1e-6 = 8 := by decide +kernel
private theorem kc : codeI ((1:Float) - 0.0 * (2:Nat).toFloat) = 8 := by decide +kernel
private theorem kd : codeI ((1.0:Float) - 0.0) = 8 := by decide +kernel
private theorem g1 : ¬ ((0.0:Float) * (2:Nat).toFloat > 1.0) := by decide +kernel

theorem valid_exampleI : CubicValid eI cNV [0, 0] [0, 0] where
  hK := by simp
  hlenh := rfl
  hgW := g1
  hgH := g1
  hmW0 := by simp [eI, cNV, k0, tableI]
  hcW := by simp [eI, cNV, k0, kc, tableI]
  hmWK := by simp [eI, cNV, k0, tableI]
  hmH0 := by simp [eI, cNV, k0, tableI]
  hcH := by simp [eI, cNV, k0, kc, tableI]
  hmHK := by simp [eI, cNV, k0, tableI]
  hlr := by simp [eI, cNV, k0, k1, tableI]
  hdlr := by simp [eI, cNV, k0, k1, kd, tableI]
  hbt := by simp [eI, cNV, k0, k1, tableI]
  hdbt := by simp [eI, cNV, k0, k1, kd, tableI]
  hseps := by simp [eI, cNV, kseps, tableI]
  hhalf := by simp [eI, kh, tableI]

theorem consts_example : InvConsts eI cNV where
  h3 := by simp [eI, k3, tableI]
  h4 := by simp [eI, k4, tableI]
  hm2 := by simp [eI, km2, tableI]
  hmh := by simp [eI, kmh, tableI]
  hs3 := by simp [eI, ks3, tableI]
  hthr := by simp [eI, cNV, kthr, tableI]

/-! the example spline: two equal bins, all slopes `1`, interior knot derivative `1`, end derivatives `3·sigmoid(ud)` -/

theorem ex_hv (k : ℕ) : CubicWhole.hv eI cNV [0, 0] k = wv eI cNV [0, 0] k := rfl

theorem ex_sv (k : ℕ) (hk : k < 2) : sv eI cNV [0, 0] [0, 0] k = 1 := by
  rw [sv_eq valid_exampleI k hk, ex_hv]
  exact div_self (wv_pos valid_exampleI k hk).ne'

theorem ex_half : eI 0.5 = 1/2 := by simp [eI, kh, tableI]
theorem ex_thr : eI cNV.thr = 1/1000 := by simp [eI, cNV, kthr, tableI]
theorem ex_bottom : eI cNV.box.bottom = 0 := by simp [eI, cNV, k0, tableI]
theorem ex_top : eI cNV.box.top = 1 := by simp [eI, cNV, k1, tableI]

theorem ex_dv0 (udl udr : ℝ) : dv eI cNV [0, 0] [0, 0] udl udr 0 = (NF.realX eI).sigmoid udl * 3 := by
  rw [dv_end_left, ex_sv 0 (by norm_num), mul_one]

theorem ex_dv1 (udl udr : ℝ) : dv eI cNV [0, 0] [0, 0] udl udr 1 = 1 := by
  have h0 := wv_pos valid_exampleI 0 (by simp)
  have h1 := wv_pos valid_exampleI 1 (by simp)
  have := dv_interior (udl := udl) (udr := udr) valid_exampleI 0 (by simp)
  rw [zero_add] at this
  rw [this, ex_sv 0 (by norm_num), ex_sv 1 (by norm_num), ex_half, mul_one, mul_one, min_self]
  have : (1/2 : ℝ) * (wv eI cNV [0, 0] 1 + wv eI cNV [0, 0] 0) / (wv eI cNV [0, 0] 0 + wv eI cNV [0, 0] 1) = 1/2 := by
    field_simp; ring
  rw [this, min_eq_right (by norm_num)]; norm_num

theorem ex_dv2 (udl udr : ℝ) : dv eI cNV [0, 0] [0, 0] udl udr 2 = (NF.realX eI).sigmoid udr * 3 := by
  have := dv_end_right (udl := udl) (udr := udr) valid_exampleI
  simp only [List.length_cons, List.length_nil] at this
  rw [this, ex_sv 1 (by norm_num), mul_one]

theorem ex_aK0 (udl udr : ℝ) :
    aK eI cNV [0, 0] [0, 0] udl udr 0 = ((NF.realX eI).sigmoid udl * 3 - 1) / (wv eI cNV [0, 0] 0)^2 := by
  unfold aK
  rw [ex_dv0, zero_add, ex_dv1, ex_sv 0 (by norm_num)]; ring

theorem ex_aK1 (udl udr : ℝ) :
    aK eI cNV [0, 0] [0, 0] udl udr 1 = ((NF.realX eI).sigmoid udr * 3 - 1) / (wv eI cNV [0, 0] 1)^2 := by
  unfold aK
  rw [ex_dv1, ex_dv2, ex_sv 1 (by norm_num)]; ring

theorem sigmoid_neg_log2 : (NF.realX eI).sigmoid (-Real.log 2) = 1/3 := by
  rw [NF.realX_sigmoid, neg_neg, Real.exp_log (by norm_num)]; norm_num

theorem sigmoid_log3 : (NF.realX eI).sigmoid (Real.log 3) = 3/4 := by
  rw [NF.realX_sigmoid, Real.exp_neg, Real.exp_log (by norm_num)]; norm_num

/-- **witness 1** (`ud = −log 2`: the spline is the identity, every bin has `a = 0`): every bin is exact, through the
    quadratic fallback, which is exact there -/
theorem allExact_example_quadratic : AllExact eI cNV [0, 0] [0, 0] (-Real.log 2) (-Real.log 2) := by
  intro k hk
  right
  have hk' : k = 0 ∨ k = 1 := by simp at hk; omega
  rcases hk' with rfl | rfl
  · rw [ex_aK0, sigmoid_neg_log2]; norm_num
  · rw [ex_aK1, sigmoid_neg_log2]; norm_num

/-- **witness 2** (`ud = log 3`, `a·w² = 5/4` in both bins): no bin takes the fallback; the root comes from the
    trigonometric / Cardano formulas -/
theorem allExact_example_cubic : AllExact eI cNV [0, 0] [0, 0] (Real.log 3) (Real.log 3) := by
  intro k hk
  left
  have hk' : k = 0 ∨ k = 1 := by simp at hk; omega
  rw [Bool.eq_false_iff]
  intro hfb
  have hlt := (fallback_iff (udl := Real.log 3) (udr := Real.log 3) valid_exampleI k hk).mp hfb
  rw [ex_thr, ex_hv] at hlt
  have hw := wv_pos valid_exampleI k hk
  have ha : aK eI cNV [0, 0] [0, 0] (Real.log 3) (Real.log 3) k = (5/4) / (wv eI cNV [0, 0] k)^2 := by
    rcases hk' with rfl | rfl
    · rw [ex_aK0, sigmoid_log3]; norm_num
    · rw [ex_aK1, sigmoid_log3]; norm_num
  rw [ha, abs_of_pos (by positivity)] at hlt
  have : (5/4 : ℝ) / (wv eI cNV [0, 0] k)^2 * (wv eI cNV [0, 0] k)^3 = 5/4 * wv eI cNV [0, 0] k := by
    field_simp
  rw [this] at hlt
  nlinarith

/-! ### the exactness hypothesis is forced: in a fallback bin with `a ≠ 0` the model's inverse is NOT the inverse of the
model's forward (over ℝ, no rounding involved) -/

/-- per bin: fallback taken, `a ≠ 0`, level strictly inside the y-bin, radicand of the quadratic non-negative ⇒ the
    clamped root the program returns is not mapped back to `t` by the bin's cubic -/
theorem fallback_inexact (hv' : CubicValid e c uw uh) (hc : InvConsts e c) (k : ℕ) (hk : k < uw.length) (t : ℝ)
    (h0 : chs e c uh k < t) (h1 : t < chs e c uh (k+1))
    (hfb : fallback (NF.realX e) c (aK e c uw uh udl udr k) (cws e c uw k) (cws e c uw (k+1)) (CubicWhole.hv e c uh k) = true)
    (ha : aK e c uw uh udl udr k ≠ 0)
    (hrad : 0 ≤ dv e c uw uh udl udr k * dv e c uw uh udl udr k - 4 * bK e c uw uh udl udr k * (chs e c uh k - t)) :
    binN e c uw uh udl udr k (inBin (NF.realX e) (cws e c uw k) (cws e c uw (k+1))
        (out1 (NF.realX e) c (aK e c uw uh udl udr k) (bK e c uw uh udl udr k) (dv e c uw uh udl udr k) (chs e c uh k)
          (cws e c uw k) (cws e c uw (k+1)) (CubicWhole.hv e c uh k) t).1) ≠ t := by
  have hrr := cws_succ hv' k hk
  have hcpos : 0 < dv e c uw uh udl udr k := (dv_range (udl := udl) (udr := udr) hv' k hk).1.1
  have hend := (bin_endpoints (udl := udl) (udr := udr) hv' k hk).2
  rw [binN_poly, hrr, add_sub_cancel_left] at hend
  unfold out1
  rw [if_pos hfb, quadRoot_eq hc, inBin_eq, hrr]
  have hshift : min (max (CubicRoots.qroot (bK e c uw uh udl udr k) (dv e c uw uh udl udr k) (chs e c uh k - t) + cws e c uw k)
      (cws e c uw k)) (cws e c uw k + wv e c uw k)
      = min (max (CubicRoots.qroot (bK e c uw uh udl udr k) (dv e c uw uh udl udr k) (chs e c uh k - t)) 0) (wv e c uw k)
        + cws e c uw k := by
    have h1 : max (CubicRoots.qroot (bK e c uw uh udl udr k) (dv e c uw uh udl udr k) (chs e c uh k - t) + cws e c uw k)
        (cws e c uw k)
        = max (CubicRoots.qroot (bK e c uw uh udl udr k) (dv e c uw uh udl udr k) (chs e c uh k - t)) 0 + cws e c uw k := by
      rw [← max_add_add_right, zero_add]
    rw [h1, add_comm (cws e c uw k) (wv e c uw k), min_add_add_right]
  rw [hshift, binN_poly, add_sub_cancel_right]
  have := CubicRoots.qroot_inexact (a := aK e c uw uh udl udr k) (b := bK e c uw uh udl udr k) (c := dv e c uw uh udl udr k)
    (cc := chs e c uh k - t) (w := wv e c uw k) hcpos (by linarith) (by linarith) ha hrad
  intro hcon
  apply this
  linarith

/-- on the open y-bin `k` the inverse search returns `k` -/
theorem idxH_of_mem (hv' : CubicValid e c uw uh) (k : ℕ) (hk : k < uw.length) (t : ℝ)
    (h0 : chs e c uh k ≤ t) (h1 : t < chs e c uh (k+1)) : idxH e c uh t = k :=
  RQInverseWhole.idx_unique (chs e c uh) uw.length (idxH e c uh) (chs_strict hv') (search_specH hv').1 k hk t h0 (Or.inl h1)

/-- the box-level round trip fails exactly when the normalised one does -/
theorem val_inv_ne (hv' : CubicValid e c uw uh) (y : ℝ) (hy0 : e c.box.bottom ≤ y) (hy1 : y ≤ e c.box.top)
    (h : nval e c uw uh udl udr (rootN e c uw uh udl udr (yn e c y)) ≠ yn e c y) :
    val e c uw uh udl udr (inv e c uw uh udl udr y) ≠ y := by
  obtain ⟨hi0, hi1⟩ := inv_mem (udl := udl) (udr := udr) hv' y hy0 hy1
  have hD : 0 < e c.box.top - e c.box.bottom := sub_pos.mpr hv'.hbt
  intro hcon
  apply h
  rw [val_eq hv' _ hi0 hi1, xn_inv hv' y hy0 hy1] at hcon
  have key : nval e c uw uh udl udr (rootN e c uw uh udl udr (yn e c y))
      = (y - e c.box.bottom) / (e c.box.top - e c.box.bottom) := by
    rw [eq_div_iff hD.ne']; linarith
  exact key.trans (yn_eq hv' y).symm

/-! concrete counterexample: the example spline with `3·sigmoid(udl) − 1 = 1/2000` (so `0 < |a|·w³ = w/2000 < thr·h = w/1000`) -/

theorem sigmoid_cex : (NF.realX eI).sigmoid (Real.log (2001/3999)) = 2001/6000 := by
  rw [NF.realX_sigmoid, Real.exp_neg, Real.exp_log (by norm_num)]; norm_num

theorem ex_bK0 (udl udr : ℝ) :
    bK eI cNV [0, 0] [0, 0] udl udr 0 = (2 - 2 * ((NF.realX eI).sigmoid udl * 3)) / wv eI cNV [0, 0] 0 := by
  unfold bK
  rw [ex_dv0, zero_add, ex_dv1, ex_sv 0 (by norm_num)]; ring

/-- **counterexample to the unconditional round trip (model, over ℝ)**: two equal bins on the unit box, `thr` read as
    `1/1000`, `udl = log(2001/3999)`; at `y = (first y-knot)/2` the fallback is taken with `a ≠ 0` and
    `forward(inverse(y)) ≠ y`.  (The error is `< thr · h` by `val_inv_approx`.) -/
theorem round_trip_counterexample :
    val eI cNV [0, 0] [0, 0] (Real.log (2001/3999)) 0 (inv eI cNV [0, 0] [0, 0] (Real.log (2001/3999)) 0 (wv eI cNV [0, 0] 0 / 2))
      ≠ wv eI cNV [0, 0] 0 / 2 := by
  have hv' := valid_exampleI
  have hw := wv_pos hv' 0 (by simp)
  have hc0 : chs eI cNV [0, 0] 0 = 0 := chs_zero hv'
  have hc1 : chs eI cNV [0, 0] 1 = wv eI cNV [0, 0] 0 := by
    have := chs_succ hv' 0 (by simp)
    rw [zero_add, hc0, zero_add, ex_hv] at this; exact this
  have hw1 : wv eI cNV [0, 0] 0 ≤ 1 := by rw [← hc1]; exact (chs_unit hv' 1 (by simp)).2
  have hb0 := ex_bottom
  have ht1 := ex_top
  have hyn : yn eI cNV (wv eI cNV [0, 0] 0 / 2) = wv eI cNV [0, 0] 0 / 2 := by
    rw [yn_eq hv', hb0, ht1]; ring
  apply val_inv_ne hv' _ (by rw [hb0]; linarith) (by rw [ht1]; linarith)
  rw [hyn]
  have hidx : idxH eI cNV [0, 0] (wv eI cNV [0, 0] 0 / 2) = 0 :=
    idxH_of_mem hv' 0 (by simp) _ (by rw [hc0]; linarith) (by rw [zero_add, hc1]; linarith)
  have ha : aK eI cNV [0, 0] [0, 0] (Real.log (2001/3999)) 0 0 = (1/2000) / (wv eI cNV [0, 0] 0)^2 := by
    rw [ex_aK0, sigmoid_cex]; norm_num
  have hb : bK eI cNV [0, 0] [0, 0] (Real.log (2001/3999)) 0 0 = (-(1/1000)) / wv eI cNV [0, 0] 0 := by
    rw [ex_bK0, sigmoid_cex]; norm_num
  have hd : dv eI cNV [0, 0] [0, 0] (Real.log (2001/3999)) 0 0 = 2001/2000 := by
    rw [ex_dv0, sigmoid_cex]; norm_num
  have hfb : fallback (NF.realX eI) cNV (aK eI cNV [0, 0] [0, 0] (Real.log (2001/3999)) 0 0) (cws eI cNV [0, 0] 0)
      (cws eI cNV [0, 0] (0+1)) (CubicWhole.hv eI cNV [0, 0] 0) = true := by
    rw [fallback_iff hv' 0 (by simp), ha, ex_thr, ex_hv, abs_of_pos (by positivity)]
    have : (1/2000 : ℝ) / (wv eI cNV [0, 0] 0)^2 * (wv eI cNV [0, 0] 0)^3 = 1/2000 * wv eI cNV [0, 0] 0 := by
      field_simp
    rw [this]; linarith
  have hmem := (rootN_mem (udl := Real.log (2001/3999)) (udr := 0) hv' (wv eI cNV [0, 0] 0 / 2) (by linarith) (by linarith)).1
  rw [hidx] at hmem
  rw [nval_eqOn_bin hv' 0 (by simp) hmem]
  unfold rootN preRoot
  rw [hidx]
  apply fallback_inexact hv' consts_example 0 (by simp) _ (by rw [hc0]; linarith) (by rw [zero_add, hc1]; linarith) hfb
  · rw [ha]; positivity
  · rw [hd, hb, hc0]
    have : (-(1/1000 : ℝ)) / wv eI cNV [0, 0] 0 * (0 - wv eI cNV [0, 0] 0 / 2) = 1/2000 := by field_simp; ring
    nlinarith

/-! ### C01 for the inverse direction (where the inverse is exact) -/

/-- strictly inside `(bottom, top)` the inverse lands strictly inside `(left, right)` -/
theorem inv_mem_open (hv' : CubicValid e c uw uh) (hc : InvConsts e c) (hall : AllExact e c uw uh udl udr)
    (y : ℝ) (hy0 : e c.box.bottom < y) (hy1 : y < e c.box.top) :
    e c.box.left < inv e c uw uh udl udr y ∧ inv e c uw uh udl udr y < e c.box.right := by
  have hsm := inv_strictMonoOn hv' hc hall
  obtain ⟨hl, hr⟩ := inv_endpoints hv' hc hall
  have hbt := hv'.hbt.le
  constructor
  · rw [← hl]; exact hsm ⟨le_rfl, hbt⟩ ⟨hy0.le, hy1.le⟩ hy0
  · rw [← hr]; exact hsm ⟨hy0.le, hy1.le⟩ ⟨hbt, le_rfl⟩ hy1

theorem inv_continuousAt (hv' : CubicValid e c uw uh) (hc : InvConsts e c) (hall : AllExact e c uw uh udl udr)
    (y : ℝ) (hy0 : e c.box.bottom < y) (hy1 : y < e c.box.top) :
    ContinuousAt (inv e c uw uh udl udr) y := by
  obtain ⟨h0, h1⟩ := inv_mem_open hv' hc hall y hy0 hy1
  apply continuousAt_of_monotoneOn_of_image_mem_nhds (inv_strictMonoOn hv' hc hall).monotoneOn (Icc_mem_nhds hy0 hy1)
  rw [inv_image hv' hc hall]
  exact Icc_mem_nhds h0 h1

/-- **C01, inverse direction, at EVERY point of the open box** (y-knots included): the executed inverse is differentiable
    and its derivative is `exp` of the log-abs-det the inverse program returns (`boxLog` read as the real logarithm) -/
theorem inv_hasDerivAt_all (hv' : CubicValid e c uw uh) (hc : InvConsts e c) (hall : AllExact e c uw uh udl udr)
    (hbl : e (boxLog c.box) = Real.log ((e c.box.top - e c.box.bottom) / (e c.box.right - e c.box.left)))
    (y : ℝ) (hy0 : e c.box.bottom < y) (hy1 : y < e c.box.top) :
    HasDerivAt (inv e c uw uh udl udr) (Real.exp (invLd e c uw uh udl udr y)) y := by
  obtain ⟨h0, h1⟩ := inv_mem_open hv' hc hall y hy0 hy1
  have hf := val_hasDerivAt_all (udl := udl) (udr := udr) hv' hbl _ h0 h1
  have hfg : ∀ᶠ z in nhds y, val e c uw uh udl udr (inv e c uw uh udl udr z) = z :=
    Filter.eventually_of_mem (Icc_mem_nhds hy0 hy1) (fun z hz => val_inv_all hv' hc hall z hz.1 hz.2)
  have := HasDerivAt.of_local_left_inverse (inv_continuousAt hv' hc hall y hy0 hy1) hf (Real.exp_pos _).ne' hfg
  rw [invLd_eq_neg_ld_always hv' y hy0.le hy1.le, Real.exp_neg]
  exact this
end
end CubicInverseWhole
