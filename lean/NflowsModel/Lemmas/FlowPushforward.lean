import NflowsModel.Core.FlowPairing
import NflowsModel.Lemmas.FlowPairing
import Mathlib.MeasureTheory.Function.JacobianOneDim
import Mathlib.MeasureTheory.Function.Jacobian
import Mathlib.MeasureTheory.Measure.WithDensity
import Mathlib.Analysis.SpecialFunctions.Arsinh
import Mathlib.Analysis.SpecialFunctions.Log.Deriv
import Mathlib.Tactic
/-!
# Lemmas/FlowPushforward — the push-forward theorems, about the flow model of `Core/FlowPairing.lean` (C04)

Answers audit findings C04-1 and C04-2.

* C04-1 (the change-of-variables theorems of `Properties/C04` quantify over free functions): every statement below
  is about a record `f : FlowFns0 ℝ ℝ ℝ` / `FlowFns ℝ ℝ C E ℝ` (and their `Fin m → ℝ` versions) of the executable model
  and its terms `flowLogProb0 f`, `flowLogProb1 f · c`, `flowSalp f ctx n N`, `flowSample f ctx n N`.
* C04-2 (a) (sign): the derivative law is `|T'(x)| = exp (ld x)`, so decreasing transforms (negative scale) are
  instances (`decreasing_affine_example`);
  (b) (bounded support): set versions `…_on`: `tfwd` is a bijection of a measurable `S` onto `V`
  (`Logit : (0,1) → ℝ` is `logit_example`; the executed bounded splines are in `Lemmas/FlowBounded.lean`);
  (c) (piecewise `C¹`): the derivative law is required only off a COUNTABLE set `K` (knots, `±B`); countable sets and
  their images are Lebesgue-null (`kink_example`).

No measurability or integrability of the base log-density is needed (both sides are Bochner integrals, the Mathlib
change-of-variables formula is unconditional).  TRUSTED as before: `torch.randn` has the base density; the law of
large numbers.
-/
open MeasureTheory NF.FlowPairing

namespace FlowPushforward

/-! ## measure-theoretic core -/

/-- two sets of reals, one inside the other, whose difference is inside a countable set carry the same restricted
    Lebesgue measure -/
theorem restrict_eq_of_diff_countable {s t K : Set ℝ} (hst : s ⊆ t) (hK : K.Countable) (h : t \ s ⊆ K) :
    (volume : Measure ℝ).restrict s = volume.restrict t := by
  apply Measure.restrict_congr_set
  rw [ae_eq_set]
  refine ⟨?_, measure_mono_null h (hK.measure_zero _)⟩
  rw [Set.sdiff_eq_empty.mpr hst]; exact measure_empty

/-- **change of variables with a countable exceptional set and `|T'| = exp ld`**: `T` injective on a measurable `S`,
    differentiable (within `S \ K`) at the points of `S \ K` with `|T'| = exp ld` there, `K` countable. -/
theorem integral_image_countable_exception (T T' ld p : ℝ → ℝ) (S K : Set ℝ) (hS : MeasurableSet S)
    (hK : K.Countable) (hinj : Set.InjOn T S)
    (hd : ∀ x ∈ S \ K, HasDerivWithinAt T (T' x) (S \ K) x) (habs : ∀ x ∈ S \ K, |T' x| = Real.exp (ld x)) :
    ∫ z in T '' S, p z = ∫ x in S, p (T x) * Real.exp (ld x) := by
  have hm : MeasurableSet (S \ K) := hS.diff hK.measurableSet
  have h := integral_image_eq_integral_abs_deriv_smul hm hd (hinj.mono Set.sdiff_subset) p
  have h1 : (volume : Measure ℝ).restrict (S \ K) = volume.restrict S :=
    restrict_eq_of_diff_countable Set.sdiff_subset hK (fun x hx => by
      by_contra hxK; exact hx.2 ⟨hx.1, hxK⟩)
  have h2 : (volume : Measure ℝ).restrict (T '' (S \ K)) = volume.restrict (T '' S) :=
    restrict_eq_of_diff_countable (Set.image_mono Set.sdiff_subset) (hK.image T) (by
      rintro _ ⟨⟨x, hxS, rfl⟩, hn⟩
      by_cases hxK : x ∈ K
      · exact ⟨x, hxK, rfl⟩
      · exact absurd ⟨x, ⟨hxS, hxK⟩, rfl⟩ hn)
  rw [← h2, h, ← h1]
  apply setIntegral_congr_fun hm
  intro x hx
  simp only [smul_eq_mul, habs x hx]; ring

/-- the event "the sample `Tinv z` lies in `A`", for noise `z` in the support `V`, is the image of `A ∩ S` -/
theorem preimage_inter_eq_image {α β : Type*} (T : α → β) (Tinv : β → α) (S : Set α) (V : Set β)
    (hTS : Set.MapsTo T S V) (hTV : Set.MapsTo Tinv V S)
    (hl : ∀ x ∈ S, Tinv (T x) = x) (hr : ∀ z ∈ V, T (Tinv z) = z) (A : Set α) :
    Tinv ⁻¹' A ∩ V = T '' (A ∩ S) := by
  ext z
  constructor
  · rintro ⟨hzA, hzV⟩; exact ⟨Tinv z, ⟨hzA, hTV hzV⟩, hr z hzV⟩
  · rintro ⟨x, ⟨hxA, hxS⟩, rfl⟩
    exact ⟨by simpa [hl x hxS] using hxA, hTS hxS⟩

/-- **1-D, set form, on supports**: noise with density `p` on `V`, sample `x = Tinv z ∈ S`; for every measurable
    event `A`:  P(sample ∈ A) = ∫_{A ∩ S} p (T x) · exp (ld x) dx. -/
theorem sample_event_probability_on (T Tinv T' ld p : ℝ → ℝ) (S V K : Set ℝ) (hS : MeasurableSet S)
    (hK : K.Countable) (hTS : Set.MapsTo T S V) (hTV : Set.MapsTo Tinv V S)
    (hl : ∀ x ∈ S, Tinv (T x) = x) (hr : ∀ z ∈ V, T (Tinv z) = z)
    (hd : ∀ x ∈ S \ K, HasDerivWithinAt T (T' x) (S \ K) x) (habs : ∀ x ∈ S \ K, |T' x| = Real.exp (ld x))
    (A : Set ℝ) (hA : MeasurableSet A) :
    ∫ z in Tinv ⁻¹' A ∩ V, p z = ∫ x in A ∩ S, p (T x) * Real.exp (ld x) := by
  rw [preimage_inter_eq_image T Tinv S V hTS hTV hl hr A]
  have hinj : Set.InjOn T (A ∩ S) := fun a ha b hb h => by rw [← hl a ha.2, ← hl b hb.2, h]
  have hsub : (A ∩ S) \ K ⊆ S \ K := fun x hx => ⟨hx.1.2, hx.2⟩
  exact integral_image_countable_exception T T' ld p (A ∩ S) K (hA.inter hS) hK hinj
    (fun x hx => (hd x (hsub hx)).mono hsub) (fun x hx => habs x (hsub hx))

/-- **n-D, set form, on supports** (no exceptional set) -/
theorem sample_event_probability_on_nd {m : ℕ} (T Tinv : (Fin m → ℝ) → (Fin m → ℝ))
    (T' : (Fin m → ℝ) → ((Fin m → ℝ) →L[ℝ] (Fin m → ℝ))) (ld p : (Fin m → ℝ) → ℝ) (S V : Set (Fin m → ℝ))
    (hS : MeasurableSet S) (hTS : Set.MapsTo T S V) (hTV : Set.MapsTo Tinv V S)
    (hl : ∀ x ∈ S, Tinv (T x) = x) (hr : ∀ z ∈ V, T (Tinv z) = z)
    (hd : ∀ x ∈ S, HasFDerivWithinAt T (T' x) S x) (habs : ∀ x ∈ S, |(T' x).det| = Real.exp (ld x))
    (A : Set (Fin m → ℝ)) (hA : MeasurableSet A) :
    ∫ z in Tinv ⁻¹' A ∩ V, p z = ∫ x in A ∩ S, p (T x) * Real.exp (ld x) := by
  rw [preimage_inter_eq_image T Tinv S V hTS hTV hl hr A]
  have hinj : Set.InjOn T (A ∩ S) := fun a ha b hb h => by rw [← hl a ha.2, ← hl b hb.2, h]
  have h := integral_image_eq_integral_abs_det_fderiv_smul (μ := volume) (hA.inter hS)
    (fun x hx => (hd x hx.2).mono Set.inter_subset_right) hinj p
  rw [h]
  apply setIntegral_congr_fun (hA.inter hS)
  intro x hx
  simp only [smul_eq_mul, habs x hx.2]; ring

/-! ## the unconditional flow `FlowFns0` -/

/-- the hypotheses on a scalar unconditional flow: `tfwd` is a bijection of the data support `S` onto the noise
    support `V` with inverse `tinv`, and off a countable set `K` it is differentiable with `|tfwd'| = exp ld`
    (C01 + C02 + C09 for the transform at hand).  `S = V = univ`, `K = ∅` is the full-support smooth case. -/
structure Flow0On (f : FlowFns0 ℝ ℝ ℝ) (S V K : Set ℝ) (T' : ℝ → ℝ) : Prop where
  hadd : ∀ a b, f.add a b = a + b
  hS : MeasurableSet S
  hK : K.Countable
  hfwd : Set.MapsTo f.tfwd S V
  hinv : Set.MapsTo f.tinv V S
  hl : ∀ x ∈ S, f.tinv (f.tfwd x) = x
  hr : ∀ z ∈ V, f.tfwd (f.tinv z) = z
  hd : ∀ x ∈ S \ K, HasDerivWithinAt f.tfwd (T' x) (S \ K) x
  habs : ∀ x ∈ S \ K, |T' x| = Real.exp (f.ld x)

/-- **samples of the model flow follow `exp (flowLogProb0)`, on supports**: noise `z` has density `exp (blp z)` on
    `V`; the sample is `f.tinv z` (what `flowSalp0` returns, `flow_sample_and_log_prob_pairing_noctx`); for every
    measurable event `A`, P(sample ∈ A) is the integral over `A ∩ S` of `exp` of what `Flow.log_prob` returns. -/
theorem flow0_samples_follow_logprob_on (f : FlowFns0 ℝ ℝ ℝ) (S V K : Set ℝ) (T' : ℝ → ℝ) (h : Flow0On f S V K T')
    (A : Set ℝ) (hA : MeasurableSet A) :
    ∫ z in f.tinv ⁻¹' A ∩ V, Real.exp (f.blp z) = ∫ x in A ∩ S, Real.exp (flowLogProb0 f x) := by
  have := sample_event_probability_on f.tfwd f.tinv T' f.ld (fun z => Real.exp (f.blp z)) S V K h.hS h.hK h.hfwd h.hinv
    h.hl h.hr h.hd h.habs A hA
  rw [this]
  simp only [flowLogProb0, h.hadd, Real.exp_add]

/-- **C04-1, the headline**: `f.tinv`, `f.tfwd` mutually inverse on ℝ, `f.tfwd` differentiable with derivative `d x`,
    `|d x| = exp (f.ld x)` (increasing OR decreasing): the law of `f.tinv noise`, noise ∼ `exp (f.blp)`, has density
    `exp (flowLogProb0 f)`. -/
theorem flow0_samples_follow_logprob (f : FlowFns0 ℝ ℝ ℝ) (hadd : ∀ a b, f.add a b = a + b)
    (hl : ∀ x, f.tinv (f.tfwd x) = x) (hr : ∀ z, f.tfwd (f.tinv z) = z) (d : ℝ → ℝ)
    (hd : ∀ x, HasDerivAt f.tfwd (d x) x) (habs : ∀ x, |d x| = Real.exp (f.ld x))
    (A : Set ℝ) (hA : MeasurableSet A) :
    ∫ z in f.tinv ⁻¹' A, Real.exp (f.blp z) = ∫ x in A, Real.exp (flowLogProb0 f x) := by
  have h : Flow0On f Set.univ Set.univ ∅ d :=
    { hadd := hadd, hS := MeasurableSet.univ, hK := Set.countable_empty, hfwd := fun _ _ => trivial,
      hinv := fun _ _ => trivial, hl := fun x _ => hl x, hr := fun z _ => hr z,
      hd := fun x _ => (hd x).hasDerivWithinAt, habs := fun x _ => habs x }
  simpa using flow0_samples_follow_logprob_on f Set.univ Set.univ ∅ d h A hA

/-- distribution-function form: `P(sample ≤ t) = ∫_{-∞}^t exp (flowLogProb0 f)` -/
theorem flow0_sample_cdf (f : FlowFns0 ℝ ℝ ℝ) (hadd : ∀ a b, f.add a b = a + b)
    (hl : ∀ x, f.tinv (f.tfwd x) = x) (hr : ∀ z, f.tfwd (f.tinv z) = z) (d : ℝ → ℝ)
    (hd : ∀ x, HasDerivAt f.tfwd (d x) x) (habs : ∀ x, |d x| = Real.exp (f.ld x)) (t : ℝ) :
    ∫ z in {z | f.tinv z ≤ t}, Real.exp (f.blp z) = ∫ x in Set.Iic t, Real.exp (flowLogProb0 f x) :=
  flow0_samples_follow_logprob f hadd hl hr d hd habs (Set.Iic t) measurableSet_Iic

/-- measure form: the law of the samples `Measure.map f.tinv (exp(blp)·dz)` IS the measure with density
    `exp (flowLogProb0 f)` -/
theorem flow0_sample_law (f : FlowFns0 ℝ ℝ ℝ) (hadd : ∀ a b, f.add a b = a + b)
    (hl : ∀ x, f.tinv (f.tfwd x) = x) (hr : ∀ z, f.tfwd (f.tinv z) = z) (d : ℝ → ℝ)
    (hd : ∀ x, HasDerivAt f.tfwd (d x) x) (habs : ∀ x, |d x| = Real.exp (f.ld x)) (hm : Measurable f.tinv) :
    Measure.map f.tinv (volume.withDensity fun z => ENNReal.ofReal (Real.exp (f.blp z)))
      = volume.withDensity fun x => ENNReal.ofReal (Real.exp (flowLogProb0 f x)) := by
  have hinj : Function.Injective f.tfwd := fun a b h => by rw [← hl a, ← hl b, h]
  ext A hA
  have himg : f.tinv ⁻¹' A = f.tfwd '' A := by
    have := preimage_inter_eq_image f.tfwd f.tinv Set.univ Set.univ (fun _ _ => trivial) (fun _ _ => trivial)
      (fun x _ => hl x) (fun z _ => hr z) A
    simpa using this
  rw [Measure.map_apply hm hA, himg]
  have hTA : MeasurableSet (f.tfwd '' A) := by rw [← himg]; exact hm hA
  rw [withDensity_apply _ hTA, withDensity_apply _ hA]
  rw [lintegral_image_eq_lintegral_abs_deriv_mul (s := A) (f := f.tfwd) (f' := d) hA
    (fun x _ => (hd x).hasDerivWithinAt) hinj.injOn]
  congr 1; ext x
  rw [habs, flowLogProb0, hadd, Real.exp_add, mul_comm (Real.exp (f.blp _)), ENNReal.ofReal_mul (Real.exp_pos _).le]

/-- n-D events (`Fin m → ℝ`), on supports -/
structure Flow0OnND {m : ℕ} (f : FlowFns0 (Fin m → ℝ) (Fin m → ℝ) ℝ) (S V : Set (Fin m → ℝ))
    (T' : (Fin m → ℝ) → ((Fin m → ℝ) →L[ℝ] (Fin m → ℝ))) : Prop where
  hadd : ∀ a b, f.add a b = a + b
  hS : MeasurableSet S
  hfwd : Set.MapsTo f.tfwd S V
  hinv : Set.MapsTo f.tinv V S
  hl : ∀ x ∈ S, f.tinv (f.tfwd x) = x
  hr : ∀ z ∈ V, f.tfwd (f.tinv z) = z
  hd : ∀ x ∈ S, HasFDerivWithinAt f.tfwd (T' x) S x
  habs : ∀ x ∈ S, |(T' x).det| = Real.exp (f.ld x)

theorem flow0_samples_follow_logprob_nd_on {m : ℕ} (f : FlowFns0 (Fin m → ℝ) (Fin m → ℝ) ℝ) (S V : Set (Fin m → ℝ))
    (T' : (Fin m → ℝ) → ((Fin m → ℝ) →L[ℝ] (Fin m → ℝ))) (h : Flow0OnND f S V T')
    (A : Set (Fin m → ℝ)) (hA : MeasurableSet A) :
    ∫ z in f.tinv ⁻¹' A ∩ V, Real.exp (f.blp z) = ∫ x in A ∩ S, Real.exp (flowLogProb0 f x) := by
  have := sample_event_probability_on_nd f.tfwd f.tinv T' f.ld (fun z => Real.exp (f.blp z)) S V h.hS h.hfwd h.hinv
    h.hl h.hr h.hd h.habs A hA
  rw [this]
  simp only [flowLogProb0, h.hadd, Real.exp_add]

/-- n-D, full support: the law of `f.tinv noise` has density `exp (flowLogProb0 f)` -/
theorem flow0_samples_follow_logprob_nd {m : ℕ} (f : FlowFns0 (Fin m → ℝ) (Fin m → ℝ) ℝ)
    (hadd : ∀ a b, f.add a b = a + b) (hl : ∀ x, f.tinv (f.tfwd x) = x) (hr : ∀ z, f.tfwd (f.tinv z) = z)
    (T' : (Fin m → ℝ) → ((Fin m → ℝ) →L[ℝ] (Fin m → ℝ))) (hd : ∀ x, HasFDerivAt f.tfwd (T' x) x)
    (habs : ∀ x, |(T' x).det| = Real.exp (f.ld x)) (A : Set (Fin m → ℝ)) (hA : MeasurableSet A) :
    ∫ z in f.tinv ⁻¹' A, Real.exp (f.blp z) = ∫ x in A, Real.exp (flowLogProb0 f x) := by
  have h : Flow0OnND f Set.univ Set.univ T' :=
    { hadd := hadd, hS := MeasurableSet.univ, hfwd := fun _ _ => trivial, hinv := fun _ _ => trivial,
      hl := fun x _ => hl x, hr := fun z _ => hr z, hd := fun x _ => (hd x).hasFDerivWithinAt,
      habs := fun x _ => habs x }
  simpa using flow0_samples_follow_logprob_nd_on f Set.univ Set.univ T' h A hA

/-! ## the conditional flow `FlowFns`: one context row -/

/-- the unconditional flow obtained by fixing the context row `c` (embedded once, as `Flow._sample` does) -/
def condFns {Z X C E V : Type} (f : FlowFns Z X C E V) (c : C) : FlowFns0 Z X V where
  tinv z := f.tinv z (f.emb c)
  ldInv z := f.ldInv z (f.emb c)
  tfwd x := f.tfwd x (f.emb c)
  ld x := f.ld x (f.emb c)
  blp z := f.blp z (f.emb c)
  add := f.add
  sub := f.sub

theorem flowLogProb1_eq {Z X C E V : Type} (f : FlowFns Z X C E V) (c : C) (x : X) :
    flowLogProb1 f x c = flowLogProb0 (condFns f c) x := rfl

/-- **conditional, one context row `c`**: the law of `tinv (noise; emb c)`, noise ∼ `exp (blp (·; emb c))`, has density
    `exp (flowLogProb1 f · c)` -/
theorem flow1_samples_follow_logprob {C E : Type} (f : FlowFns ℝ ℝ C E ℝ) (c : C) (hadd : ∀ a b, f.add a b = a + b)
    (hl : ∀ x, f.tinv (f.tfwd x (f.emb c)) (f.emb c) = x) (hr : ∀ z, f.tfwd (f.tinv z (f.emb c)) (f.emb c) = z)
    (d : ℝ → ℝ) (hd : ∀ x, HasDerivAt (fun x => f.tfwd x (f.emb c)) (d x) x)
    (habs : ∀ x, |d x| = Real.exp (f.ld x (f.emb c))) (A : Set ℝ) (hA : MeasurableSet A) :
    ∫ z in (fun z => f.tinv z (f.emb c)) ⁻¹' A, Real.exp (f.blp z (f.emb c)) = ∫ x in A, Real.exp (flowLogProb1 f x c) :=
  flow0_samples_follow_logprob (condFns f c) hadd hl hr d hd habs A hA

/-- conditional, on supports (which may depend on the context row) -/
theorem flow1_samples_follow_logprob_on {C E : Type} (f : FlowFns ℝ ℝ C E ℝ) (c : C) (S V K : Set ℝ) (T' : ℝ → ℝ)
    (h : Flow0On (condFns f c) S V K T') (A : Set ℝ) (hA : MeasurableSet A) :
    ∫ z in (fun z => f.tinv z (f.emb c)) ⁻¹' A ∩ V, Real.exp (f.blp z (f.emb c))
      = ∫ x in A ∩ S, Real.exp (flowLogProb1 f x c) :=
  flow0_samples_follow_logprob_on (condFns f c) S V K T' h A hA

/-- conditional, n-D events -/
theorem flow1_samples_follow_logprob_nd {m : ℕ} {C E : Type} (f : FlowFns (Fin m → ℝ) (Fin m → ℝ) C E ℝ) (c : C)
    (hadd : ∀ a b, f.add a b = a + b)
    (hl : ∀ x, f.tinv (f.tfwd x (f.emb c)) (f.emb c) = x) (hr : ∀ z, f.tfwd (f.tinv z (f.emb c)) (f.emb c) = z)
    (T' : (Fin m → ℝ) → ((Fin m → ℝ) →L[ℝ] (Fin m → ℝ)))
    (hd : ∀ x, HasFDerivAt (fun x => f.tfwd x (f.emb c)) (T' x) x)
    (habs : ∀ x, |(T' x).det| = Real.exp (f.ld x (f.emb c))) (A : Set (Fin m → ℝ)) (hA : MeasurableSet A) :
    ∫ z in (fun z => f.tinv z (f.emb c)) ⁻¹' A, Real.exp (f.blp z (f.emb c)) = ∫ x in A, Real.exp (flowLogProb1 f x c) :=
  flow0_samples_follow_logprob_nd (condFns f c) hadd hl hr T' hd habs A hA

/-! ## pairing + push-forward in one statement -/

/-- (the pairing theorem of `Properties/C04`, `flow_sample_and_log_prob_pairing`, proved here from the same index
    lemmas so that this file does not depend on `Properties/`) -/
theorem salp_pairing {Z X C E V : Type} (f : FlowFns Z X C E V) (ctx : List C) (R n : ℕ)
    (N : List (List Z)) (hN : Uniform N R n) (hctx : ctx.length = R) (i j : ℕ) (hi : i < R) (hj : j < n)
    (z : Z) (c : C) (hz : get2 N i j = some z) (hc : ctx[i]? = some c) :
    get2 (flowSalp f ctx n N).1 i j = some (f.tinv z (f.emb c)) ∧
    get2 (flowSalp f ctx n N).2 i j = some (f.sub (f.blp z (f.emb c)) (f.ldInv z (f.emb c))) := by
  have hn : 0 < n := by omega
  have he : (ctx.map f.emb).length = R := by simp [hctx]
  have hce : (ctx.map f.emb)[i]? = some (f.emb c) := by simp [hc]
  have hU : Uniform (splitLeading n (mergeLeading N)) R n := split_merge_uniform N R n hn hN
  have hz' : get2 (splitLeading n (mergeLeading N)) i j = some z := by rw [split_merge_get N R n i j hN hi hj, hz]
  have hlp : get2 (splitLeading n (List.zipWith f.blp (mergeLeading N) (repeatRows (ctx.map f.emb) n))) i j
      = some (f.blp z (f.emb c)) := pipeline_get f.blp N (ctx.map f.emb) R n i j hN he hi hj z (f.emb c) hz hce
  unfold flowSalp
  simp only [distSalp]
  refine ⟨pipeline_get f.tinv _ _ R n i j hU he hi hj z (f.emb c) hz' hce, ?_⟩
  exact get2_zipWith f.sub _ _ i j _ _ hlp (pipeline_get f.ldInv _ _ R n i j hU he hi hj z (f.emb c) hz' hce)

theorem sample_pairing {Z X C E V : Type} (f : FlowFns Z X C E V) (ctx : List C) (R n : ℕ) (N : List (List Z))
    (hN : Uniform N R n) (hctx : ctx.length = R) (i j : ℕ) (hi : i < R) (hj : j < n) (z : Z) (c : C)
    (hz : get2 N i j = some z) (hc : ctx[i]? = some c) :
    get2 (flowSample f ctx n N) i j = some (f.tinv z (f.emb c)) := by
  unfold flowSample
  exact pipeline_get f.tinv N (ctx.map f.emb) R n i j hN (by simp [hctx]) hi hj z (f.emb c) hz (by simp [hc])

/-- **"block `i` is drawn from the density conditioned on context row `i`", as ONE statement about `flowSalp`**
    (scalar events, supports `S → V` possibly depending on the row, countable exceptional set).
    For every number `R` of context rows, every `n`, every noise tensor `N : [R][n]`:
    1. every entry `j` of block `i` of the returned samples is `tinv (N i j; emb cᵢ)` — built from the noise drawn for
       row `i` and from context row `i` only — and the returned log-probability is `flowLogProb1` of that sample
       under `cᵢ` (given C02's `ldInv = −ld ∘ tinv` and `tfwd ∘ tinv = id` at `emb cᵢ`);
    2. the push-forward of the base density `exp (blp (·; emb cᵢ))` on `V` under `tinv (·; emb cᵢ)` has density
       `exp (flowLogProb1 f · cᵢ)` on `S`: so if the `N i j` are draws from the base density conditioned on `emb cᵢ`
       (TRUSTED: `torch.randn`), block `i` consists of draws from the density `log_prob(· | cᵢ)` reports. -/
theorem flow_block_follows_conditional_density_on {C E : Type} (f : FlowFns ℝ ℝ C E ℝ) (ctx : List C) (R n : ℕ)
    (N : List (List ℝ)) (hN : Uniform N R n) (hctx : ctx.length = R) (i : ℕ) (hi : i < R) (c : C)
    (hc : ctx[i]? = some c) (S V K : Set ℝ) (T' : ℝ → ℝ) (h : Flow0On (condFns f c) S V K T')
    (hsub : ∀ a b, f.sub a b = a - b)
    (hld : ∀ z ∈ V, f.ldInv z (f.emb c) = - f.ld (f.tinv z (f.emb c)) (f.emb c))
    (hNV : ∀ j z, get2 N i j = some z → z ∈ V) :
    (∀ j, j < n → ∃ z, get2 N i j = some z ∧
        get2 (flowSalp f ctx n N).1 i j = some (f.tinv z (f.emb c)) ∧
        get2 (flowSalp f ctx n N).2 i j = some (flowLogProb1 f (f.tinv z (f.emb c)) c)) ∧
    (∀ A : Set ℝ, MeasurableSet A →
        ∫ z in (fun z => f.tinv z (f.emb c)) ⁻¹' A ∩ V, Real.exp (f.blp z (f.emb c))
          = ∫ x in A ∩ S, Real.exp (flowLogProb1 f x c)) := by
  refine ⟨fun j hj => ?_, fun A hA => flow1_samples_follow_logprob_on f c S V K T' h A hA⟩
  obtain ⟨z, hz⟩ := get2_lt hN hi hj
  obtain ⟨h1, h2⟩ := salp_pairing f ctx R n N hN hctx i j hi hj z c hz hc
  refine ⟨z, hz, h1, ?_⟩
  have hzV := hNV j z hz
  have hround : f.tfwd (f.tinv z (f.emb c)) (f.emb c) = z := h.hr z hzV
  have hadd : ∀ a b, f.add a b = a + b := h.hadd
  rw [h2, flowLogProb1, hadd, hsub, hld z hzV, hround]
  congr 1; ring

/-- the full-support smooth case of the previous statement, hypotheses spelled out -/
theorem flow_block_follows_conditional_density {C E : Type} (f : FlowFns ℝ ℝ C E ℝ) (ctx : List C) (R n : ℕ)
    (N : List (List ℝ)) (hN : Uniform N R n) (hctx : ctx.length = R) (i : ℕ) (hi : i < R) (c : C)
    (hc : ctx[i]? = some c)
    (hadd : ∀ a b, f.add a b = a + b) (hsub : ∀ a b, f.sub a b = a - b)
    (hld : ∀ z, f.ldInv z (f.emb c) = - f.ld (f.tinv z (f.emb c)) (f.emb c))
    (hl : ∀ x, f.tinv (f.tfwd x (f.emb c)) (f.emb c) = x) (hr : ∀ z, f.tfwd (f.tinv z (f.emb c)) (f.emb c) = z)
    (d : ℝ → ℝ) (hd : ∀ x, HasDerivAt (fun x => f.tfwd x (f.emb c)) (d x) x)
    (habs : ∀ x, |d x| = Real.exp (f.ld x (f.emb c))) :
    (∀ j, j < n → ∃ z, get2 N i j = some z ∧
        get2 (flowSalp f ctx n N).1 i j = some (f.tinv z (f.emb c)) ∧
        get2 (flowSalp f ctx n N).2 i j = some (flowLogProb1 f (f.tinv z (f.emb c)) c)) ∧
    (∀ A : Set ℝ, MeasurableSet A →
        ∫ z in (fun z => f.tinv z (f.emb c)) ⁻¹' A, Real.exp (f.blp z (f.emb c))
          = ∫ x in A, Real.exp (flowLogProb1 f x c)) := by
  have h : Flow0On (condFns f c) Set.univ Set.univ ∅ d :=
    { hadd := hadd, hS := MeasurableSet.univ, hK := Set.countable_empty, hfwd := fun _ _ => trivial,
      hinv := fun _ _ => trivial, hl := fun x _ => hl x, hr := fun z _ => hr z,
      hd := fun x _ => (hd x).hasDerivWithinAt, habs := fun x _ => habs x }
  have := flow_block_follows_conditional_density_on f ctx R n N hN hctx i hi c hc Set.univ Set.univ ∅ d h hsub
    (fun z _ => hld z) (fun _ _ _ => trivial)
  simpa using this

/-- the same for `Flow.sample(n, context)` (`flowSample`): no `sub`/`ldInv` involved -/
theorem flow_sample_block_follows_conditional_density {C E : Type} (f : FlowFns ℝ ℝ C E ℝ) (ctx : List C) (R n : ℕ)
    (N : List (List ℝ)) (hN : Uniform N R n) (hctx : ctx.length = R) (i : ℕ) (hi : i < R) (c : C)
    (hc : ctx[i]? = some c) (S V K : Set ℝ) (T' : ℝ → ℝ) (h : Flow0On (condFns f c) S V K T') :
    (∀ j, j < n → ∃ z, get2 N i j = some z ∧ get2 (flowSample f ctx n N) i j = some (f.tinv z (f.emb c))) ∧
    (∀ A : Set ℝ, MeasurableSet A →
        ∫ z in (fun z => f.tinv z (f.emb c)) ⁻¹' A ∩ V, Real.exp (f.blp z (f.emb c))
          = ∫ x in A ∩ S, Real.exp (flowLogProb1 f x c)) := by
  refine ⟨fun j hj => ?_, fun A hA => flow1_samples_follow_logprob_on f c S V K T' h A hA⟩
  obtain ⟨z, hz⟩ := get2_lt hN hi hj
  exact ⟨z, hz, sample_pairing f ctx R n N hN hctx i j hi hj z c hz hc⟩

/-- n-D events: block `i` of `flowSalp` and the conditional density of context row `i` -/
theorem flow_block_follows_conditional_density_nd {m : ℕ} {C E : Type} (f : FlowFns (Fin m → ℝ) (Fin m → ℝ) C E ℝ)
    (ctx : List C) (R n : ℕ) (N : List (List (Fin m → ℝ))) (hN : Uniform N R n) (hctx : ctx.length = R) (i : ℕ)
    (hi : i < R) (c : C) (hc : ctx[i]? = some c)
    (hadd : ∀ a b, f.add a b = a + b) (hsub : ∀ a b, f.sub a b = a - b)
    (hld : ∀ z, f.ldInv z (f.emb c) = - f.ld (f.tinv z (f.emb c)) (f.emb c))
    (hl : ∀ x, f.tinv (f.tfwd x (f.emb c)) (f.emb c) = x) (hr : ∀ z, f.tfwd (f.tinv z (f.emb c)) (f.emb c) = z)
    (T' : (Fin m → ℝ) → ((Fin m → ℝ) →L[ℝ] (Fin m → ℝ)))
    (hd : ∀ x, HasFDerivAt (fun x => f.tfwd x (f.emb c)) (T' x) x)
    (habs : ∀ x, |(T' x).det| = Real.exp (f.ld x (f.emb c))) :
    (∀ j, j < n → ∃ z, get2 N i j = some z ∧
        get2 (flowSalp f ctx n N).1 i j = some (f.tinv z (f.emb c)) ∧
        get2 (flowSalp f ctx n N).2 i j = some (flowLogProb1 f (f.tinv z (f.emb c)) c)) ∧
    (∀ A : Set (Fin m → ℝ), MeasurableSet A →
        ∫ z in (fun z => f.tinv z (f.emb c)) ⁻¹' A, Real.exp (f.blp z (f.emb c))
          = ∫ x in A, Real.exp (flowLogProb1 f x c)) := by
  refine ⟨fun j hj => ?_, fun A hA => flow1_samples_follow_logprob_nd f c hadd hl hr T' hd habs A hA⟩
  obtain ⟨z, hz⟩ := get2_lt hN hi hj
  obtain ⟨h1, h2⟩ := salp_pairing f ctx R n N hN hctx i j hi hj z c hz hc
  refine ⟨z, hz, h1, ?_⟩
  rw [h2, flowLogProb1, hadd, hsub, hld z, hr z]
  congr 1; ring

/-! ## non-vacuity: concrete flows meeting the hypotheses -/

/-- a conditional affine flow with NEGATIVE scale: `z = e − 3x`, `log|det| = log 3`, standard-normal-shaped base
    centred at the embedded context, embedding `c ↦ 2c` -/
noncomputable def decAffine : FlowFns ℝ ℝ ℝ ℝ ℝ where
  emb c := 2 * c
  tinv z e := (e - z) / 3
  ldInv _ _ := - Real.log 3
  tfwd x e := e - 3 * x
  ld _ _ := Real.log 3
  blp z e := -(z - e) ^ 2 / 2
  add := (· + ·)
  sub := (· - ·)

/-- the decreasing flow satisfies every hypothesis of `flow_block_follows_conditional_density` (audit C04-2 (a): with
    `HasDerivAt T (exp (ld x)) x` it could not), hence its conclusion holds for it: all `R`, `n`, noise, rows -/
theorem decreasing_affine_example (ctx : List ℝ) (R n : ℕ) (N : List (List ℝ)) (hN : Uniform N R n)
    (hctx : ctx.length = R) (i : ℕ) (hi : i < R) (c : ℝ) (hc : ctx[i]? = some c) :
    (∀ j, j < n → ∃ z, get2 N i j = some z ∧
        get2 (flowSalp decAffine ctx n N).1 i j = some ((2 * c - z) / 3) ∧
        get2 (flowSalp decAffine ctx n N).2 i j = some (flowLogProb1 decAffine ((2 * c - z) / 3) c)) ∧
    (∀ A : Set ℝ, MeasurableSet A →
        ∫ z in (fun z => (2 * c - z) / 3) ⁻¹' A, Real.exp (-(z - 2 * c) ^ 2 / 2)
          = ∫ x in A, Real.exp (flowLogProb1 decAffine x c)) := by
  have h := flow_block_follows_conditional_density decAffine ctx R n N hN hctx i hi c hc
    (fun _ _ => rfl) (fun _ _ => rfl) (fun _ => by simp [decAffine])
    (fun x => by simp [decAffine]) (fun z => by simp [decAffine]; ring) (fun _ => -3)
    (fun x => by
      have : HasDerivAt (fun x : ℝ => 2 * c - 3 * x) (0 - 3 * 1) x :=
        (hasDerivAt_const x (2 * c)).sub ((hasDerivAt_id x).const_mul 3)
      simpa [decAffine] using this)
    (fun _ => by simp [decAffine, Real.exp_log])
  exact h

/-- a non-affine full-support flow: `tfwd = sinh`, `tinv = arsinh`, `ld = log ∘ cosh` -/
noncomputable def sinhFlow : FlowFns0 ℝ ℝ ℝ where
  tinv := Real.arsinh
  ldInv z := - Real.log (Real.cosh (Real.arsinh z))
  tfwd := Real.sinh
  ld x := Real.log (Real.cosh x)
  blp z := -z ^ 2 / 2
  add := (· + ·)
  sub := (· - ·)

theorem sinh_example (A : Set ℝ) (hA : MeasurableSet A) :
    ∫ z in Real.arsinh ⁻¹' A, Real.exp (-z ^ 2 / 2) = ∫ x in A, Real.exp (flowLogProb0 sinhFlow x) :=
  flow0_samples_follow_logprob sinhFlow (fun _ _ => rfl) Real.arsinh_sinh Real.sinh_arsinh Real.cosh
    Real.hasDerivAt_sinh
    (fun x => by
      show |Real.cosh x| = Real.exp (Real.log (Real.cosh x))
      rw [Real.exp_log (Real.cosh_pos x), abs_of_pos (Real.cosh_pos x)]) A hA

/-- bounded support (audit C04-2 (b)): nflows' `Logit` as the forward transform, data on `(0,1)`, noise on ℝ:
    `tfwd x = log x − log (1 − x)`, `tinv = sigmoid`, `ld x = −log x − log (1 − x)` -/
noncomputable def logitFlow : FlowFns0 ℝ ℝ ℝ where
  tinv z := 1 / (1 + Real.exp (-z))
  ldInv z := Real.log (1 / (1 + Real.exp (-z))) + Real.log (1 - 1 / (1 + Real.exp (-z)))
  tfwd x := Real.log x - Real.log (1 - x)
  ld x := - Real.log x - Real.log (1 - x)
  blp z := -z ^ 2 / 2
  add := (· + ·)
  sub := (· - ·)

theorem logit_flow0On : Flow0On logitFlow (Set.Ioo 0 1) Set.univ ∅ (fun x => 1 / x + 1 / (1 - x)) where
  hadd := fun _ _ => rfl
  hS := measurableSet_Ioo
  hK := Set.countable_empty
  hfwd := fun _ _ => trivial
  hinv := by
    intro z _
    have he := Real.exp_pos (-z)
    show 1 / (1 + Real.exp (-z)) ∈ Set.Ioo (0:ℝ) 1
    constructor
    · positivity
    · rw [div_lt_one (by positivity)]; linarith
  hl := by
    intro x hx
    obtain ⟨h0, h1⟩ := hx
    have h1' : 0 < 1 - x := by linarith
    show 1 / (1 + Real.exp (-(Real.log x - Real.log (1 - x)))) = x
    rw [neg_sub, Real.exp_sub, Real.exp_log h1', Real.exp_log h0]
    field_simp
    ring
  hr := by
    intro z _
    have he := Real.exp_pos (-z)
    show Real.log (1 / (1 + Real.exp (-z))) - Real.log (1 - 1 / (1 + Real.exp (-z))) = z
    have h2 : 1 - 1 / (1 + Real.exp (-z)) = Real.exp (-z) / (1 + Real.exp (-z)) := by field_simp; ring
    rw [h2, ← Real.log_div (by positivity) (by positivity)]
    have h3 : 1 / (1 + Real.exp (-z)) / (Real.exp (-z) / (1 + Real.exp (-z))) = Real.exp z := by
      rw [Real.exp_neg]; field_simp
    rw [h3, Real.log_exp]
  hd := by
    intro x hx
    obtain ⟨h0, h1⟩ := hx.1
    have h1' : (1 - x) ≠ 0 := by linarith
    have hA : HasDerivAt (fun x : ℝ => Real.log x) (1 / x) x := by simpa using Real.hasDerivAt_log h0.ne'
    have hB : HasDerivAt (fun x : ℝ => Real.log (1 - x)) ((0 - 1) / (1 - x)) x :=
      ((hasDerivAt_const x (1:ℝ)).sub (hasDerivAt_id x)).log h1'
    have := (hA.sub hB).hasDerivWithinAt (s := Set.Ioo (0:ℝ) 1 \ ∅)
    refine this.congr_deriv ?_
    field_simp
    ring
  habs := by
    intro x hx
    obtain ⟨h0, h1⟩ := hx.1
    have h1' : 0 < 1 - x := by linarith
    show |1 / x + 1 / (1 - x)| = Real.exp (- Real.log x - Real.log (1 - x))
    rw [abs_of_pos (by positivity), Real.exp_sub, Real.exp_neg, Real.exp_log h0, Real.exp_log h1']
    field_simp
    ring

/-- … hence samples `sigmoid (noise)` have the density `exp (flowLogProb0 logitFlow)` on `(0,1)` -/
theorem logit_example (A : Set ℝ) (hA : MeasurableSet A) :
    ∫ z in (fun z => 1 / (1 + Real.exp (-z))) ⁻¹' A, Real.exp (-z ^ 2 / 2)
      = ∫ x in A ∩ Set.Ioo 0 1, Real.exp (flowLogProb0 logitFlow x) := by
  have := flow0_samples_follow_logprob_on logitFlow _ _ _ _ logit_flow0On A hA
  simpa [logitFlow] using this

/-- piecewise `C¹` (audit C04-2 (c)): a piecewise-linear map with a KINK at `0` (slope 1 on the left, 2 on the right),
    not differentiable there; `ld` is the log-slope of the piece; the exceptional set is `{0}` -/
noncomputable def kinkFlow : FlowFns0 ℝ ℝ ℝ where
  tinv z := if z ≤ 0 then z else z / 2
  ldInv z := if z ≤ 0 then 0 else - Real.log 2
  tfwd x := if x ≤ 0 then x else 2 * x
  ld x := if x ≤ 0 then 0 else Real.log 2
  blp z := -z ^ 2 / 2
  add := (· + ·)
  sub := (· - ·)

theorem kink_flow0On : Flow0On kinkFlow Set.univ Set.univ {0} (fun x => if x ≤ 0 then 1 else 2) where
  hadd := fun _ _ => rfl
  hS := MeasurableSet.univ
  hK := Set.countable_singleton 0
  hfwd := fun _ _ => trivial
  hinv := fun _ _ => trivial
  hl := by
    intro x _
    show (if (if x ≤ 0 then x else 2 * x) ≤ 0 then (if x ≤ 0 then x else 2 * x)
      else (if x ≤ 0 then x else 2 * x) / 2) = x
    by_cases h : x ≤ 0
    · simp [h]
    · have h2 : ¬ (2 * x ≤ 0) := by linarith [not_le.mp h]
      simp [h, h2]
  hr := by
    intro z _
    show (if (if z ≤ 0 then z else z / 2) ≤ 0 then (if z ≤ 0 then z else z / 2)
      else 2 * (if z ≤ 0 then z else z / 2)) = z
    by_cases h : z ≤ 0
    · simp [h]
    · have h2 : ¬ (z / 2 ≤ 0) := by linarith [not_le.mp h]
      simp only [h, h2, if_false]; ring
  hd := by
    intro x hx
    have hx0 : x ≠ 0 := by simpa using hx.2
    apply HasDerivAt.hasDerivWithinAt
    show HasDerivAt (fun x : ℝ => if x ≤ 0 then x else 2 * x) (if x ≤ 0 then 1 else 2) x
    rcases lt_or_gt_of_ne hx0 with h | h
    · have hev : (fun x : ℝ => if x ≤ 0 then x else 2 * x) =ᶠ[nhds x] fun x => x := by
        filter_upwards [Iio_mem_nhds h] with y hy
        simp [le_of_lt (show y < 0 from hy)]
      rw [if_pos h.le]
      exact (hasDerivAt_id' x).congr_of_eventuallyEq hev
    · have hev : (fun x : ℝ => if x ≤ 0 then x else 2 * x) =ᶠ[nhds x] fun x => 2 * x := by
        filter_upwards [Ioi_mem_nhds h] with y hy
        simp [not_le.mpr (show 0 < y from hy)]
      rw [if_neg (not_le.mpr h)]
      have := ((hasDerivAt_id' x).const_mul 2).congr_of_eventuallyEq hev
      simpa using this
  habs := by
    intro x _
    show |if x ≤ 0 then (1:ℝ) else 2| = Real.exp (if x ≤ 0 then 0 else Real.log 2)
    by_cases h : x ≤ 0
    · simp [h]
    · simp [h, Real.exp_log]

/-- … the samples of the kinked flow follow `exp (flowLogProb0 kinkFlow)` -/
theorem kink_example (A : Set ℝ) (hA : MeasurableSet A) :
    ∫ z in (fun z : ℝ => if z ≤ 0 then z else z / 2) ⁻¹' A, Real.exp (-z ^ 2 / 2)
      = ∫ x in A, Real.exp (flowLogProb0 kinkFlow x) := by
  have := flow0_samples_follow_logprob_on kinkFlow _ _ _ _ kink_flow0On A hA
  simpa [kinkFlow] using this

/-- n-D witness: the scaling `x ↦ 2 • x` of `ℝᵐ`, `ld = m · log 2`, every `m` -/
noncomputable def scaleFlow (m : ℕ) : FlowFns0 (Fin m → ℝ) (Fin m → ℝ) ℝ where
  tinv z := (2:ℝ)⁻¹ • z
  ldInv _ := - (m * Real.log 2)
  tfwd x := (2:ℝ) • x
  ld _ := m * Real.log 2
  blp z := - (∑ i, z i ^ 2) / 2
  add := (· + ·)
  sub := (· - ·)

theorem scale_example (m : ℕ) (A : Set (Fin m → ℝ)) (hA : MeasurableSet A) :
    ∫ z in (fun z : Fin m → ℝ => (2:ℝ)⁻¹ • z) ⁻¹' A, Real.exp (- (∑ i, z i ^ 2) / 2)
      = ∫ x in A, Real.exp (flowLogProb0 (scaleFlow m) x) :=
  flow0_samples_follow_logprob_nd (scaleFlow m) (fun _ _ => rfl)
    (fun x => by simp [scaleFlow, smul_smul]) (fun z => by simp [scaleFlow, smul_smul])
    (fun _ => (2:ℝ) • ContinuousLinearMap.id ℝ (Fin m → ℝ))
    (fun x => by
      have := (hasFDerivAt_id (𝕜 := ℝ) x).const_smul (2:ℝ)
      simpa [scaleFlow] using this)
    (fun _ => by
      show |((2:ℝ) • ContinuousLinearMap.id ℝ (Fin m → ℝ)).det| = Real.exp (m * Real.log 2)
      have hdet : ((2:ℝ) • ContinuousLinearMap.id ℝ (Fin m → ℝ)).det = 2 ^ m := by
        unfold ContinuousLinearMap.det
        simp [LinearMap.det_smul]
      rw [hdet, abs_of_pos (by positivity), Real.exp_nat_mul, Real.exp_log (by norm_num)]) A hA

end FlowPushforward
