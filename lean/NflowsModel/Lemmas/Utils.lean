import Mathlib.Analysis.SpecialFunctions.Log.Basic
import Mathlib.Analysis.SpecialFunctions.Pow.Real
import Mathlib.Tactic

namespace Utils


noncomputable section
/-! C20: cbrt (torchutils.py:139-141), masks, predicates; C17: domain guards -/

/-- `sign(x) * exp(log|x| / 3)` -/
def cbrt (x : ℝ) : ℝ := SignType.sign x * Real.exp (Real.log |x| / 3)

theorem cbrt_cube (x : ℝ) : (cbrt x)^3 = x := by
  unfold cbrt
  rcases lt_trichotomy x 0 with h | h | h
  · have ha : |x| = -x := abs_of_neg h
    have : (Real.exp (Real.log |x| / 3))^3 = |x| := by
      rw [← Real.exp_nat_mul]; push_cast
      rw [show (3:ℝ) * (Real.log |x| / 3) = Real.log |x| by ring, Real.exp_log (abs_pos.mpr h.ne)]
    simp only [sign_neg h, SignType.coe_neg_one, mul_pow]
    rw [this, ha]; ring
  · subst h; simp
  · have : (Real.exp (Real.log |x| / 3))^3 = |x| := by
      rw [← Real.exp_nat_mul]; push_cast
      rw [show (3:ℝ) * (Real.log |x| / 3) = Real.log |x| by ring, Real.exp_log (abs_pos.mpr h.ne')]
    simp only [sign_pos h, SignType.coe_one, one_mul]
    rw [this, abs_of_pos h]

/-- masks (torchutils.py:89-131) as Bool lists -/
def alternatingMask (n : ℕ) (even : Bool) : List Bool := (List.range n).map (fun i => if even then i % 2 == 0 else i % 2 == 1)
def midSplitMask (n : ℕ) : List Bool := (List.range n).map (fun i => decide (i < (if n % 2 = 0 then n / 2 else n / 2 + 1)))

theorem midSplit_count (n : ℕ) : (midSplitMask n).count true = (n + 1) / 2 := by
  unfold midSplitMask
  have hm : (if n % 2 = 0 then n / 2 else n / 2 + 1) = (n + 1) / 2 := by split <;> omega
  rw [hm, List.count_eq_countP, List.countP_map]
  have : ∀ m k : ℕ, k ≤ m → ((List.range m).countP ((fun b => b == true) ∘ fun i => decide (i < k))) = k := by
    intro m
    induction m with
    | zero => intro k hk; simp at hk; subst hk; simp
    | succ m ih =>
      intro k hk
      rw [List.range_succ, List.countP_append]
      rcases Nat.lt_or_ge k (m+1) with h | h
      · rw [ih k (by omega)]; simp; omega
      · have : k = m + 1 := by omega
        subst this
        have hall : ((List.range m).countP ((fun b => b == true) ∘ fun i => decide (i < m + 1))) = m := by
          rw [List.countP_eq_length.mpr]
          · simp
          · intro a ha; simp at ha ⊢; omega
        rw [hall]; simp
  exact this n ((n+1)/2) (by omega)

/-- predicates (typechecks.py) on the Python values that can reach them -/
inductive PyVal | int (n : Int) | bool (b : Bool) | float | none | str deriving DecidableEq
def isInt : PyVal → Bool | .int _ => true | .bool _ => true | _ => false      -- isinstance(True, int) is True
def asInt : PyVal → Option Int | .int n => some n | .bool b => some (if b then 1 else 0) | _ => none
def isPositiveInt (v : PyVal) : Bool := match asInt v with | some n => decide (n > 0) | none => false
def isNonnegInt (v : PyVal) : Bool := match asInt v with | some n => decide (n ≥ 0) | none => false
/-- `not n & (n-1)` for positive ints -/
def isPowerOfTwo (v : PyVal) : Bool := match asInt v with | some n => decide (n > 0) && (n.toNat &&& (n.toNat - 1)) == 0 | none => false
example : isPositiveInt (.bool true) = true ∧ isPositiveInt .float = false ∧ isPositiveInt (.int 0) = false := by decide
example : isPowerOfTwo (.int 8) = true ∧ isPowerOfTwo (.int 6) = false ∧ isPowerOfTwo (.int 0) = false ∧ isPowerOfTwo (.int 1) = true := by decide

/-- C17: the guards as coded are exactly the domain predicates (batch-global: `torch.min` / `torch.max` over the batch) -/
def minL : List ℝ → ℝ
  | [] => 0
  | [x] => x
  | x :: y :: t => min x (minL (y :: t))

theorem minL_le_iff (c : ℝ) : ∀ xs : List ℝ, xs ≠ [] → (minL xs ≤ c ↔ ∃ x ∈ xs, x ≤ c) := by
  intro xs
  induction xs with
  | nil => intro h; exact absurd rfl h
  | cons x t ih =>
    intro _
    cases t with
    | nil => simp [minL]
    | cons y t' =>
      have := ih (by simp)
      simp only [minL, min_le_iff, this]
      constructor
      · rintro (h | ⟨z, hz, hzc⟩)
        · exact ⟨x, by simp, h⟩
        · exact ⟨z, List.mem_cons_of_mem _ hz, hzc⟩
      · rintro ⟨z, hz, hzc⟩
        rcases List.mem_cons.mp hz with rfl | hz'
        · exact Or.inl hzc
        · exact Or.inr ⟨z, hz', hzc⟩

/-- `Exp.inverse` raises InputOutsideDomain iff some element is ≤ 0 (nonlinearities.py:26-27) -/
theorem exp_inverse_rejects_iff (xs : List ℝ) (h : xs ≠ []) : (minL xs ≤ 0) ↔ ¬ (∀ x ∈ xs, 0 < x) := by
  rw [minL_le_iff 0 xs h]; push Not; rfl


end
end Utils
