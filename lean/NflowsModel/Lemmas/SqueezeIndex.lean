import NflowsModel.Core.Reshape
import Mathlib.Tactic
/-! # Lemmas/SqueezeIndex — the squeeze coordinate maps are mutually inverse for EVERY factor `f ≥ 1` -/
namespace NF

theorem unsq_sq (f c h w : Nat) (hf : 0 < f) : (let s := sqCoord f c h w; unsqCoord f s.1 s.2.1 s.2.2) = (c, h, w) := by
  simp only [sqCoord, unsqCoord]
  have ha : h % f < f := Nat.mod_lt _ hf
  have hb : w % f < f := Nat.mod_lt _ hf
  have h1 : ((c * f + h % f) * f + w % f) / (f * f) = c := by
    rw [Nat.add_mul, Nat.mul_assoc, Nat.add_assoc, Nat.mul_comm c (f * f), Nat.mul_add_div (Nat.mul_pos hf hf)]
    have : (h % f * f + w % f) / (f * f) = 0 := by
      apply Nat.div_eq_of_lt
      calc h % f * f + w % f < h % f * f + f := by omega
        _ = (h % f + 1) * f := by ring
        _ ≤ f * f := Nat.mul_le_mul_right f (by omega)
    rw [this, Nat.add_zero]
  have h2 : ((c * f + h % f) * f + w % f) / f % f = h % f := by
    rw [Nat.mul_comm (c * f + h % f) f, Nat.mul_add_div hf, Nat.div_eq_of_lt hb, Nat.add_zero,
      Nat.mul_comm c f, Nat.mul_add_mod, Nat.mod_mod]
  have h3 : ((c * f + h % f) * f + w % f) % f = w % f := by
    rw [Nat.mul_comm (c * f + h % f) f, Nat.mul_add_mod, Nat.mod_mod]
  rw [h1, h2, h3]
  refine Prod.ext rfl (Prod.ext ?_ ?_)
  · exact Nat.div_add_mod' h f
  · exact Nat.div_add_mod' w f

theorem sq_unsq (f oc i j : Nat) (hf : 0 < f) :
    (let u := unsqCoord f oc i j; sqCoord f u.1 u.2.1 u.2.2) = (oc, i, j) := by
  simp only [sqCoord, unsqCoord]
  have ha : oc / f % f < f := Nat.mod_lt _ hf
  have hb : oc % f < f := Nat.mod_lt _ hf
  have e1 : (i * f + oc / f % f) % f = oc / f % f := by
    rw [Nat.mul_comm i f, Nat.mul_add_mod, Nat.mod_mod]
  have e2 : (j * f + oc % f) % f = oc % f := by
    rw [Nat.mul_comm j f, Nat.mul_add_mod, Nat.mod_mod]
  have e3 : (i * f + oc / f % f) / f = i := by
    rw [Nat.mul_comm i f, Nat.mul_add_div hf, Nat.div_eq_of_lt ha, Nat.add_zero]
  have e4 : (j * f + oc % f) / f = j := by
    rw [Nat.mul_comm j f, Nat.mul_add_div hf, Nat.div_eq_of_lt hb, Nat.add_zero]
  rw [e1, e2, e3, e4]
  refine Prod.ext ?_ rfl
  -- (oc/(f*f) * f + oc/f % f) * f + oc % f = oc
  have k1 : oc / (f * f) = oc / f / f := by rw [Nat.div_div_eq_div_mul]
  rw [k1]
  have k2 : oc / f / f * f + oc / f % f = oc / f := Nat.div_add_mod' (oc / f) f
  rw [k2]
  exact Nat.div_add_mod' oc f

end NF
