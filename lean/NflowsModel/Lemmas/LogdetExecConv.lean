import NflowsModel.Core.LinearFamily
import NflowsModel.Real.LinearBridge
import Mathlib.Tactic
import Mathlib.LinearAlgebra.Matrix.Block
import Mathlib.LinearAlgebra.Matrix.Permutation
import Mathlib.LinearAlgebra.Matrix.ToLin
import Mathlib.Analysis.Calculus.FDeriv.Add
import Mathlib.Topology.Algebra.Module.FiniteDimension
import Mathlib.Topology.Algebra.Module.Determinant

/-!
# Lemmas/LogdetExecConv — value, Jacobian and log-det of the EXECUTED `OneByOneConvolution` (C01, the `H·W` factor; C02)

Everything is about the terms the driver runs (`NF.LF.convForward`, `NF.LF.convInverse`, `NF.LF.convLogabsdet` of
`Core/LinearFamily`), instantiated at `DualSound.realOps : Ops ℝ`.  `OneByOneConvolution` (conv.py) permutes the channels
of an NCHW tensor by a fixed permutation, applies one `LULinear` to the channel vector of every pixel and returns
`H·W · logabsdet()` per batch item.

* §1 `sum_replicate`, `convLogabsdet_entry`, `convLogabsdet_neg_entry`, `convLogabsdet_length`, `convForward_snd`,
  `convInverse_snd`: the returned log-abs-det vector has length `B`; every entry is `(H·W) · luLogabsdet` (forward) resp.
  its negative (inverse).  It depends neither on the input nor on the permutation list.
* §2 `convJac A σ ι = blockDiagonal (fun _ : ι => A * P_σ)` on the index `channel × pixel`; `abs_det_convJac`
  (`|det| = |det A| ^ card ι`; the permutation matrix has `|det| = 1`, so multiplying it on either side gives the same
  modulus), `log_abs_det_convJac`; `convItemMap` (per pixel `v ↦ A (v ∘ σ) + bias`), `convItemMap_eq` (it is
  `x ↦ convJac *ᵥ x + bias`; this FIXES the side: `A * P_σ`, with `P_σ *ᵥ v = v ∘ σ`), `convItemMap_hasFDerivAt`,
  `convJac_clm_det`; `conv_logdet_is_log_abs_det`: with the hypotheses of `Properties.C11.lu_executed` every entry of
  `(convForward …).2` is `log |det (convJac (luW p) σ (Fin H × Fin W))|`.
* §3 index arithmetic of the flat NCHW layout (`nchw_decode`, `nchw_lt`, `row_decode`, `row_lt`), reads of
  `permuteChannels` / `convRows` / `convUnrows`, `luForward_eq_map` (`LULinear.forward` acts row by row), `conv_row`
  (the row handed to `LULinear` for pixel `(b, h, w)` is the `σ`-permuted channel vector) and `convForward_entry`:
  output entry `[b, c, h, w]` is `(luW p *ᵥ (fun c' => x b (σ c') h w) + bias) c`.
* §4 C02: `invperm_getD` (the `idxOf` list is `σ⁻¹`), `conv_roundtrip_entry`, `nchw_surj`, `conv_roundtrip`
  (`(convInverse … (convForward … xs).1).1 = xs` for every `xs` of length `B·C·H·W`).
* §5 headline `conv_logdet_is_log_abs_det_fderiv`: item `b` of the executed output is `convItemMap` of item `b` of the
  input, that map has the non-singular derivative `D` at every point, and entry `b` of the returned vector is
  `log |det D|`; `conv_logdet_inverse_neg`.
* §6 a concrete instance (`n = 2`, `H = 2`, `W = 3`, the swap of the channels).
* §7 FORCED hypothesis: `p.bias.length = p.n`.  `addV` is a `zipWith`; with an empty bias every executed row is empty and
  every output entry is the default `0` (`convForward_bias_nil`), which is not the affine formula
  (`convForward_entry_needs_bias`).  (The library's constructor always allocates a bias of length `n`.)

Remark: `conv_logdet_is_log_abs_det` does not constrain `perm`: the model (as conv.py) returns the same log-dets for every
index list; they are the log-dets of the executed map only when `perm` is a permutation list (`permList σ`), which is what
`RandomPermutation` constructs.
-/

open NF.LF DualSound Matrix LinearBridge

namespace LogdetExec

/-! ## 1. the log-det vector of the executed `OneByOneConvolution` -/

theorem sum_replicate (n : ℕ) (v : ℝ) : NF.LF.sum realOps (List.replicate n v) = (n : ℝ) * v := by
  rw [LFTriSolve.sum_real, List.sum_replicate, nsmul_eq_mul]

theorem convLogabsdet_length {α : Type} (o : Ops α) (p : LUParams α) (B H W : ℕ) (sign : α → α) :
    (convLogabsdet o p B H W sign).length = B := by
  simp [convLogabsdet]

theorem convLogabsdet_entry (p : LUParams ℝ) (B H W b : ℕ) (hb : b < B) :
    (convLogabsdet realOps p B H W id)[b]? = some (((H * W : ℕ) : ℝ) * luLogabsdet realOps p) := by
  simp [convLogabsdet, hb, sum_replicate]

theorem convLogabsdet_neg_entry (p : LUParams ℝ) (B H W b : ℕ) (hb : b < B) :
    (convLogabsdet realOps p B H W realOps.neg)[b]? = some (-(((H * W : ℕ) : ℝ) * luLogabsdet realOps p)) := by
  have hneg : ∀ a : ℝ, realOps.neg a = -a := fun _ => rfl
  simp [convLogabsdet, hb, sum_replicate, hneg]

theorem convForward_snd {α : Type} (o : Ops α) (p : LUParams α) (perm : List ℕ) (B H W : ℕ) (xs : List α) :
    (convForward o p perm B H W xs).2 = convLogabsdet o p B H W id := rfl

theorem convInverse_snd {α : Type} (o : Ops α) (p : LUParams α) (perm : List ℕ) (B H W : ℕ) (xs : List α) :
    (convInverse o p perm B H W xs).2 = convLogabsdet o p B H W o.neg := rfl


/-! ## 2. `(H·W) · log |det W|` is `log |det J|` of the block Jacobian -/

section det
variable {n : ℕ}

/-- the matrix of "permute the channels by `σ` (`y c = x (σ c)`), then apply `A` to the channel vector of every pixel",
    in (channel, pixel) coordinates; `ι` is the type of pixels -/
noncomputable def convJac (A : Matrix (Fin n) (Fin n) ℝ) (σ : Equiv.Perm (Fin n)) (ι : Type) [DecidableEq ι] :
    Matrix (Fin n × ι) (Fin n × ι) ℝ :=
  Matrix.blockDiagonal (fun _ : ι => A * σ.permMatrix ℝ)

theorem abs_det_permMatrix (σ : Equiv.Perm (Fin n)) : |(σ.permMatrix ℝ).det| = 1 := by
  rw [Matrix.det_permutation]
  rcases Int.units_eq_one_or (Equiv.Perm.sign σ) with h | h <;> simp [h]

theorem abs_det_convJac (A : Matrix (Fin n) (Fin n) ℝ) (σ : Equiv.Perm (Fin n)) (ι : Type) [Fintype ι] [DecidableEq ι] :
    |(convJac A σ ι).det| = |A.det| ^ Fintype.card ι := by
  unfold convJac
  rw [Matrix.det_blockDiagonal, Finset.prod_const, Finset.card_univ, abs_pow, Matrix.det_mul, abs_mul,
    abs_det_permMatrix, mul_one]

theorem log_abs_det_convJac (A : Matrix (Fin n) (Fin n) ℝ) (σ : Equiv.Perm (Fin n)) (ι : Type) [Fintype ι] [DecidableEq ι] :
    Real.log |(convJac A σ ι).det| = (Fintype.card ι : ℝ) * Real.log |A.det| := by
  rw [abs_det_convJac, Real.log_pow]

/-- the map of one batch item in (channel, pixel) coordinates: at every pixel `q`, the channel vector `x (·, q)` is
    permuted by `σ` and sent through `v ↦ A v + bias` -/
def convItemMap (A : Matrix (Fin n) (Fin n) ℝ) (bias : Fin n → ℝ) (σ : Equiv.Perm (Fin n)) (ι : Type) :
    (Fin n × ι → ℝ) → (Fin n × ι → ℝ) :=
  fun x q => (A *ᵥ (fun c' => x (σ c', q.2)) + bias) q.1

theorem convItemMap_eq (A : Matrix (Fin n) (Fin n) ℝ) (bias : Fin n → ℝ) (σ : Equiv.Perm (Fin n)) (ι : Type)
    [Fintype ι] [DecidableEq ι] (x : Fin n × ι → ℝ) :
    convItemMap A bias σ ι x = convJac A σ ι *ᵥ x + fun q => bias q.1 := by
  funext ⟨c, q⟩
  have h1 : (convJac A σ ι *ᵥ x) (c, q) = ((A * σ.permMatrix ℝ) *ᵥ fun c' => x (c', q)) c := by
    simp only [convJac, Matrix.mulVec, dotProduct, Fintype.sum_prod_type, Matrix.blockDiagonal_apply]
    apply Finset.sum_congr rfl
    intro c' _
    simp [Finset.sum_ite_eq]
  simp only [convItemMap, Pi.add_apply, h1, ← Matrix.mulVec_mulVec, Matrix.permMatrix_mulVec]
  rfl

/-- the derivative of the item map is `convJac` at every point -/
theorem convItemMap_hasFDerivAt (A : Matrix (Fin n) (Fin n) ℝ) (bias : Fin n → ℝ) (σ : Equiv.Perm (Fin n)) (ι : Type)
    [Fintype ι] [DecidableEq ι] (x : Fin n × ι → ℝ) :
    HasFDerivAt (convItemMap A bias σ ι) (LinearMap.toContinuousLinearMap (Matrix.toLin' (convJac A σ ι))) x := by
  have h := ((LinearMap.toContinuousLinearMap (Matrix.toLin' (convJac A σ ι))).hasFDerivAt (x := x)).add_const
    (fun q : Fin n × ι => bias q.1)
  refine h.congr_of_eventuallyEq (Filter.Eventually.of_forall fun v => ?_)
  rw [convItemMap_eq]
  simp

theorem convJac_clm_det (A : Matrix (Fin n) (Fin n) ℝ) (σ : Equiv.Perm (Fin n)) (ι : Type) [Fintype ι] [DecidableEq ι] :
    (LinearMap.toContinuousLinearMap (Matrix.toLin' (convJac A σ ι))).det = (convJac A σ ι).det := by
  rw [ContinuousLinearMap.det, LinearMap.coe_toContinuousLinearMap, LinearMap.det_toLin']

end det

/-- **C01 for the executed `OneByOneConvolution`**: every entry of the returned log-abs-det vector is `log |det J|`,
    `J` the block matrix of the per-item map over the `H × W` pixels -/
theorem conv_logdet_is_log_abs_det (p : LUParams ℝ) (hlen : p.udiag.length = p.n) (heps : 0 ≤ p.eps)
    (σ : Equiv.Perm (Fin p.n)) (perm : List ℕ) (B H W : ℕ) (xs : List ℝ) (b : ℕ) (hb : b < B) :
    (convForward realOps p perm B H W xs).2[b]? = some (Real.log |(convJac (luW p) σ (Fin H × Fin W)).det|) := by
  rw [convForward_snd, convLogabsdet_entry p B H W b hb, luLogabsdet_executed p hlen heps, log_abs_det_convJac]
  simp

/-! ## 3. the executed forward map, entry by entry -/

theorem divmod_aux (a W w : ℕ) (hw : w < W) : (a * W + w) / W = a ∧ (a * W + w) % W = w := by
  have hW : 0 < W := by omega
  constructor
  · rw [Nat.add_comm, Nat.add_mul_div_right _ _ hW, Nat.div_eq_of_lt hw, Nat.zero_add]
  · rw [Nat.add_comm, Nat.add_mul_mod_self_right, Nat.mod_eq_of_lt hw]

/-- decoding the flat NCHW index -/
theorem nchw_decode (C H W b c h w : ℕ) (hc : c < C) (hh : h < H) (hw : w < W) :
    nchw C H W b c h w % W = w ∧ (nchw C H W b c h w / W) % H = h ∧
    (nchw C H W b c h w / (W * H)) % C = c ∧ nchw C H W b c h w / (W * H * C) = b := by
  unfold nchw
  obtain ⟨d1, m1⟩ := divmod_aux ((b * C + c) * H + h) W w hw
  obtain ⟨d2, m2⟩ := divmod_aux (b * C + c) H h hh
  obtain ⟨d3, m3⟩ := divmod_aux b C c hc
  refine ⟨m1, ?_, ?_, ?_⟩
  · rw [d1, m2]
  · rw [← Nat.div_div_eq_div_mul, d1, d2, m3]
  · rw [← Nat.div_div_eq_div_mul, ← Nat.div_div_eq_div_mul, d1, d2, d3]

theorem nchw_lt (B C H W b c h w : ℕ) (hb : b < B) (hc : c < C) (hh : h < H) (hw : w < W) :
    nchw C H W b c h w < B * C * H * W := by
  unfold nchw
  have h1 : b * C + c + 1 ≤ B * C := by
    have : (b + 1) * C ≤ B * C := Nat.mul_le_mul_right C hb
    rw [Nat.add_mul, Nat.one_mul] at this; omega
  have h2 : (b * C + c) * H + h + 1 ≤ B * C * H := by
    have : (b * C + c + 1) * H ≤ B * C * H := Nat.mul_le_mul_right H h1
    rw [Nat.add_mul, Nat.one_mul] at this; omega
  have h3 : ((b * C + c) * H + h + 1) * W ≤ B * C * H * W := Nat.mul_le_mul_right W h2
  rw [Nat.add_mul, Nat.one_mul] at h3; omega

theorem row_decode (H W b h w : ℕ) (hh : h < H) (hw : w < W) :
    ((b * H + h) * W + w) % W = w ∧ (((b * H + h) * W + w) / W) % H = h ∧ ((b * H + h) * W + w) / (W * H) = b := by
  obtain ⟨d1, m1⟩ := divmod_aux (b * H + h) W w hw
  obtain ⟨d2, m2⟩ := divmod_aux b H h hh
  refine ⟨m1, ?_, ?_⟩
  · rw [d1, m2]
  · rw [← Nat.div_div_eq_div_mul, d1, d2]

theorem row_lt (B H W b h w : ℕ) (hb : b < B) (hh : h < H) (hw : w < W) : (b * H + h) * W + w < B * H * W := by
  have h1 : b * H + h + 1 ≤ B * H := by
    have : (b + 1) * H ≤ B * H := Nat.mul_le_mul_right H hb
    rw [Nat.add_mul, Nat.one_mul] at this; omega
  have h3 : (b * H + h + 1) * W ≤ B * H * W := Nat.mul_le_mul_right W h1
  rw [Nat.add_mul, Nat.one_mul] at h3; omega


section lists
variable {α : Type} (o : Ops α)

theorem permuteChannels_length (B C H W : ℕ) (perm : List ℕ) (xs : List α) :
    (permuteChannels o B C H W perm xs).length = B * C * H * W := by simp [permuteChannels]

theorem convUnrows_length (B C H W : ℕ) (rows : List (List α)) :
    (convUnrows o B C H W rows).length = B * C * H * W := by simp [convUnrows]

theorem convRows_length (B C H W : ℕ) (xs : List α) : (convRows o B C H W xs).length = B * H * W := by
  simp [convRows]

theorem permuteChannels_getD (B C H W : ℕ) (perm : List ℕ) (xs : List α) (b c h w : ℕ)
    (hb : b < B) (hc : c < C) (hh : h < H) (hw : w < W) :
    (permuteChannels o B C H W perm xs).getD (nchw C H W b c h w) (zero o)
      = xs.getD (nchw C H W b (perm.getD c 0) h w) (zero o) := by
  obtain ⟨e1, e2, e3, e4⟩ := nchw_decode C H W b c h w hc hh hw
  have hlt := nchw_lt B C H W b c h w hb hc hh hw
  unfold permuteChannels
  rw [List.getD_eq_getElem?_getD, List.getElem?_map, List.getElem?_range hlt]
  simp only [Option.map_some, Option.getD_some, e1, e2, e3, e4]

theorem convUnrows_getD (B C H W : ℕ) (rows : List (List α)) (b c h w : ℕ)
    (hb : b < B) (hc : c < C) (hh : h < H) (hw : w < W) :
    (convUnrows o B C H W rows).getD (nchw C H W b c h w) (zero o)
      = (rows.getD ((b * H + h) * W + w) []).getD c (zero o) := by
  obtain ⟨e1, e2, e3, e4⟩ := nchw_decode C H W b c h w hc hh hw
  have hlt := nchw_lt B C H W b c h w hb hc hh hw
  unfold convUnrows
  rw [List.getD_eq_getElem?_getD, List.getElem?_map, List.getElem?_range hlt]
  simp only [Option.map_some, Option.getD_some, e1, e2, e3, e4]

theorem convRows_getElem? (B C H W : ℕ) (ys : List α) (b h w : ℕ) (hb : b < B) (hh : h < H) (hw : w < W) :
    (convRows o B C H W ys)[(b * H + h) * W + w]?
      = some ((List.range C).map (fun c => ys.getD (nchw C H W b c h w) (zero o))) := by
  obtain ⟨e1, e2, e3⟩ := row_decode H W b h w hh hw
  have hlt := row_lt B H W b h w hb hh hw
  unfold convRows
  rw [List.getElem?_map, List.getElem?_range hlt]
  simp only [Option.map_some, e1, e2, e3]

/-- `LULinear.forward` on one row -/
def luRow (p : LUParams α) (x : List α) : List α :=
  addV o (matVec o (luL o p) (matVec o (luU o p) x)) p.bias

/-- `LULinear.forward` acts row by row -/
theorem luForward_eq_map (p : LUParams α) (X : List (List α)) : luForward o p X = X.map (luRow o p) := by
  simp [luForward, linear, linear0, luRow, List.map_map, Function.comp_def]

end lists

theorem luRow_executed (p : LUParams ℝ) (hb : p.bias.length = p.n) (x : Fin p.n → ℝ) :
    luRow realOps p (List.ofFn x) = List.ofFn (luW p *ᵥ x + vecFn p.n p.bias) := by
  have h := luForward_executed p hb x
  rw [luForward_eq_map] at h
  simpa using h


/-- the channel-permutation list of `σ` (as `FlowWholeND.permList`) -/
def permList {n : ℕ} (σ : Equiv.Perm (Fin n)) : List ℕ := List.ofFn fun k => (σ k : ℕ)

/-- row `(b, h, w)` of the permuted input, as handed to `LULinear` -/
theorem conv_row (C : ℕ) (σ : Equiv.Perm (Fin C)) (B H W : ℕ) (x : Fin B → Fin C → Fin H → Fin W → ℝ) (xs : List ℝ)
    (hx : ∀ (b : Fin B) (c : Fin C) (h : Fin H) (w : Fin W), xs.getD (nchw C H W b c h w) 0 = x b c h w) (b : Fin B) (h : Fin H) (w : Fin W) :
    (convRows realOps B C H W (permuteChannels realOps B C H W (permList σ) xs))[((b : ℕ) * H + h) * W + w]?
      = some (List.ofFn (fun c : Fin C => x b (σ c) h w)) := by
  rw [convRows_getElem? realOps B C H W _ b h w b.2 h.2 w.2]
  congr 1
  apply List.ext_getElem
  · simp
  · intro i h1 h2
    have hi : i < C := by simpa using h1
    rw [List.getElem_map, List.getElem_range, List.getElem_ofFn,
      permuteChannels_getD realOps B C H W _ xs b i h w b.2 hi h.2 w.2, LFTriSolve.zero_real]
    have hp : (permList σ).getD i 0 = (σ ⟨i, hi⟩ : ℕ) := by
      simp [permList, List.getD_eq_getElem?_getD, hi]
    rw [hp]
    exact hx b (σ ⟨i, hi⟩) h w

/-- **the executed forward map IS, pixel by pixel, `x ↦ W (x ∘ σ) + bias` on the channel vector** -/
theorem convForward_entry (p : LUParams ℝ) (hbias : p.bias.length = p.n) (σ : Equiv.Perm (Fin p.n)) (B H W : ℕ)
    (x : Fin B → Fin p.n → Fin H → Fin W → ℝ) (xs : List ℝ)
    (hx : ∀ (b : Fin B) (c : Fin p.n) (h : Fin H) (w : Fin W), xs.getD (nchw p.n H W b c h w) 0 = x b c h w)
    (b : Fin B) (c : Fin p.n) (h : Fin H) (w : Fin W) :
    (convForward realOps p (permList σ) B H W xs).1.getD (nchw p.n H W b c h w) 0
      = (luW p *ᵥ (fun c' => x b (σ c') h w) + vecFn p.n p.bias) c := by
  have h0 := convUnrows_getD realOps B p.n H W
    (luForward realOps p (convRows realOps B p.n H W (permuteChannels realOps B p.n H W (permList σ) xs)))
    b c h w b.2 c.2 h.2 w.2
  rw [LFTriSolve.zero_real] at h0
  show (convUnrows realOps B p.n H W _).getD _ 0 = _
  rw [h0, luForward_eq_map]
  simp only [List.getD_eq_getElem?_getD]
  rw [List.getElem?_map, conv_row p.n σ B H W x xs hx b h w,
    Option.map_some, Option.getD_some, luRow_executed p hbias, List.getElem?_ofFn]
  simp


/-! ## 4. round trip (C02) -/

theorem permList_length {n : ℕ} (σ : Equiv.Perm (Fin n)) : (permList σ).length = n := by simp [permList]

theorem permList_getD {n : ℕ} (σ : Equiv.Perm (Fin n)) (c : Fin n) : (permList σ).getD c 0 = (σ c : ℕ) := by
  simp [permList, List.getD_eq_getElem?_getD]

/-- the inverse permutation that `OneByOneConvolution.inverse` builds with `idxOf` is `σ⁻¹` -/
theorem invperm_getD {n : ℕ} (σ : Equiv.Perm (Fin n)) (c : Fin n) :
    ((List.range n).map (fun c => (permList σ).idxOf c)).getD c 0 = (σ.symm c : ℕ) := by
  have hnd : (permList σ).Nodup := List.nodup_ofFn.2 (fun a b h => σ.injective (Fin.ext h))
  have hl : ((σ.symm c : Fin n) : ℕ) < (permList σ).length := by rw [permList_length]; exact (σ.symm c).2
  have hget : (permList σ)[((σ.symm c : Fin n) : ℕ)] = (c : ℕ) := by simp [permList]
  have h := hnd.idxOf_getElem _ hl
  rw [hget] at h
  simp [List.getD_eq_getElem?_getD, h]

/-- entries of the executed channel permutation -/
theorem permuteChannels_entry (C : ℕ) (τ : Fin C → Fin C) (perm : List ℕ) (hperm : ∀ c : Fin C, perm.getD c 0 = (τ c : ℕ))
    (B H W : ℕ) (x : Fin B → Fin C → Fin H → Fin W → ℝ) (xs : List ℝ)
    (hx : ∀ (b : Fin B) (c : Fin C) (h : Fin H) (w : Fin W), xs.getD (nchw C H W b c h w) 0 = x b c h w)
    (b : Fin B) (c : Fin C) (h : Fin H) (w : Fin W) :
    (permuteChannels realOps B C H W perm xs).getD (nchw C H W b c h w) 0 = x b (τ c) h w := by
  have h0 := permuteChannels_getD realOps B C H W perm xs b c h w b.2 c.2 h.2 w.2
  rw [LFTriSolve.zero_real] at h0
  rw [h0, hperm c]
  exact hx b (τ c) h w

/-- rows of the executed `permute(0, 2, 3, 1).reshape(-1, c)` -/
theorem convRows_row (C B H W : ℕ) (y : Fin B → Fin C → Fin H → Fin W → ℝ) (ys : List ℝ)
    (hy : ∀ (b : Fin B) (c : Fin C) (h : Fin H) (w : Fin W), ys.getD (nchw C H W b c h w) 0 = y b c h w)
    (b : Fin B) (h : Fin H) (w : Fin W) :
    (convRows realOps B C H W ys)[((b : ℕ) * H + h) * W + w]? = some (List.ofFn (fun c : Fin C => y b c h w)) := by
  rw [convRows_getElem? realOps B C H W _ b h w b.2 h.2 w.2]
  congr 1
  apply List.ext_getElem
  · simp
  · intro i h1 h2
    have hi : i < C := by simpa using h1
    rw [List.getElem_map, List.getElem_range, List.getElem_ofFn, LFTriSolve.zero_real]
    exact hy b ⟨i, hi⟩ h w

section lists
variable {α : Type} (o : Ops α)
/-- `LULinear.inverse` on one row -/
def luInvRow (p : LUParams α) (x : List α) : List α :=
  solveUpper o (luU o p) (solveLowerUnit o (luL o p) (subV o x p.bias))
theorem luInverse_eq_map (p : LUParams α) (X : List (List α)) : luInverse o p X = X.map (luInvRow o p) := rfl
end lists

theorem luInvRow_executed (p : LUParams ℝ) (hlen : p.udiag.length = p.n) (heps : 0 ≤ p.eps) (hb : p.bias.length = p.n)
    (x : Fin p.n → ℝ) : luInvRow realOps p (List.ofFn (luW p *ᵥ x + vecFn p.n p.bias)) = List.ofFn x := by
  have h := luInverse_executed p hlen heps hb x
  rw [luForward_executed p hb, luInverse_eq_map] at h
  simpa using h

/-- **C02 for the executed `OneByOneConvolution`**: `inverse (forward xs).1` returns the input, entry by entry -/
theorem conv_roundtrip_entry (p : LUParams ℝ) (hlen : p.udiag.length = p.n) (heps : 0 ≤ p.eps) (hbias : p.bias.length = p.n)
    (σ : Equiv.Perm (Fin p.n)) (B H W : ℕ) (x : Fin B → Fin p.n → Fin H → Fin W → ℝ) (xs : List ℝ)
    (hx : ∀ (b : Fin B) (c : Fin p.n) (h : Fin H) (w : Fin W), xs.getD (nchw p.n H W b c h w) 0 = x b c h w)
    (b : Fin B) (c : Fin p.n) (h : Fin H) (w : Fin W) :
    (convInverse realOps p (permList σ) B H W (convForward realOps p (permList σ) B H W xs).1).1.getD
      (nchw p.n H W b c h w) 0 = x b c h w := by
  set ys := (convForward realOps p (permList σ) B H W xs).1 with hys
  have hy := convForward_entry p hbias σ B H W x xs hx
  rw [← hys] at hy
  -- the rows handed to `LULinear.inverse`, and what it returns
  set out := convUnrows realOps B p.n H W (luInverse realOps p (convRows realOps B p.n H W ys)) with hout
  have hout_entry : ∀ (b : Fin B) (c : Fin p.n) (h : Fin H) (w : Fin W),
      out.getD (nchw p.n H W b c h w) 0 = x b (σ c) h w := by
    intro b c h w
    have h0 := convUnrows_getD realOps B p.n H W (luInverse realOps p (convRows realOps B p.n H W ys))
      b c h w b.2 c.2 h.2 w.2
    rw [LFTriSolve.zero_real] at h0
    rw [hout, h0, luInverse_eq_map]
    simp only [List.getD_eq_getElem?_getD]
    rw [List.getElem?_map, convRows_row p.n B H W _ ys hy b h w, Option.map_some, Option.getD_some]
    have hrow : (List.ofFn fun c : Fin p.n => (luW p *ᵥ (fun c' => x b (σ c') h w) + vecFn p.n p.bias) c)
        = List.ofFn (luW p *ᵥ (fun c' => x b (σ c') h w) + vecFn p.n p.bias) := rfl
    rw [hrow, luInvRow_executed p hlen heps hbias, List.getElem?_ofFn]
    simp
  show (permuteChannels realOps B p.n H W _ out).getD _ 0 = _
  rw [permuteChannels_entry p.n (fun c => σ.symm c) _ (invperm_getD σ) B H W (fun b c h w => x b (σ c) h w) out
    hout_entry b c h w]
  simp

/-- every flat index below `B·C·H·W` is the NCHW index of exactly one `(b, c, h, w)` -/
theorem nchw_surj (B C H W k : ℕ) (hk : k < B * C * H * W) :
    ∃ (b : Fin B) (c : Fin C) (h : Fin H) (w : Fin W), k = nchw C H W b c h w := by
  have hW : 0 < W := Nat.pos_of_ne_zero (fun h0 => by subst h0; simp at hk)
  have hH : 0 < H := Nat.pos_of_ne_zero (fun h0 => by subst h0; simp at hk)
  have hC : 0 < C := Nat.pos_of_ne_zero (fun h0 => by subst h0; simp at hk)
  have h1 : k / W < B * C * H := (Nat.div_lt_iff_lt_mul hW).2 hk
  have h2 : k / W / H < B * C := (Nat.div_lt_iff_lt_mul hH).2 h1
  have h3 : k / W / H / C < B := (Nat.div_lt_iff_lt_mul hC).2 h2
  refine ⟨⟨k / W / H / C, h3⟩, ⟨k / W / H % C, Nat.mod_lt _ hC⟩, ⟨k / W % H, Nat.mod_lt _ hH⟩, ⟨k % W, Nat.mod_lt _ hW⟩, ?_⟩
  show k = ((k / W / H / C * C + k / W / H % C) * H + k / W % H) * W + k % W
  rw [Nat.div_add_mod', Nat.div_add_mod', Nat.div_add_mod']

theorem convForward_fst_length {α : Type} (o : Ops α) (p : LUParams α) (perm : List ℕ) (B H W : ℕ) (xs : List α) :
    (convForward o p perm B H W xs).1.length = B * p.n * H * W := convUnrows_length o _ _ _ _ _

theorem convInverse_fst_length {α : Type} (o : Ops α) (p : LUParams α) (perm : List ℕ) (B H W : ℕ) (xs : List α) :
    (convInverse o p perm B H W xs).1.length = B * p.n * H * W := permuteChannels_length o _ _ _ _ _ _

/-- **C02, whole tensor**: on an input of the right size, `inverse (forward xs).1 = xs` as lists -/
theorem conv_roundtrip (p : LUParams ℝ) (hlen : p.udiag.length = p.n) (heps : 0 ≤ p.eps) (hbias : p.bias.length = p.n)
    (σ : Equiv.Perm (Fin p.n)) (B H W : ℕ) (xs : List ℝ) (hxs : xs.length = B * p.n * H * W) :
    (convInverse realOps p (permList σ) B H W (convForward realOps p (permList σ) B H W xs).1).1 = xs := by
  apply List.ext_getElem
  · rw [convInverse_fst_length, hxs]
  · intro k h1 h2
    obtain ⟨b, c, h, w, rfl⟩ := nchw_surj B p.n H W k (hxs ▸ h2)
    have h := conv_roundtrip_entry p hlen heps hbias σ B H W (fun b c h w => xs.getD (nchw p.n H W b c h w) 0) xs
      (fun _ _ _ _ => rfl) b c h w
    simp only [List.getD_eq_getElem?_getD] at h
    rw [List.getElem?_eq_getElem h1, List.getElem?_eq_getElem h2] at h
    simpa using h

/-! ## 5. headline: value, derivative and log-det of the executed layer together -/

/-- C02 for the log-dets: the entries returned by `inverse` are the negatives of those returned by `forward` -/
theorem conv_logdet_inverse_neg (p : LUParams ℝ) (perm perm' : List ℕ) (B H W : ℕ) (xs ys : List ℝ) (b : ℕ) (hb : b < B) :
    ∃ v : ℝ, (convForward realOps p perm B H W xs).2[b]? = some v ∧
      (convInverse realOps p perm' B H W ys).2[b]? = some (-v) :=
  ⟨_, by rw [convForward_snd]; exact convLogabsdet_entry p B H W b hb,
    by rw [convInverse_snd]; exact convLogabsdet_neg_entry p B H W b hb⟩

theorem luW_det_ne_zero (p : LUParams ℝ) (hlen : p.udiag.length = p.n) (heps : 0 ≤ p.eps) : (luW p).det ≠ 0 := by
  obtain ⟨Winv, _, h, _⟩ := luWeightInverse_executed p hlen heps
  exact Matrix.det_ne_zero_of_left_inverse h

theorem convJac_det_ne_zero (p : LUParams ℝ) (hlen : p.udiag.length = p.n) (heps : 0 ≤ p.eps) (σ : Equiv.Perm (Fin p.n))
    (ι : Type) [Fintype ι] [DecidableEq ι] : (convJac (luW p) σ ι).det ≠ 0 := by
  rw [← abs_pos, abs_det_convJac]
  exact pow_pos (abs_pos.2 (luW_det_ne_zero p hlen heps)) _

/-- batch item `b` of the flat NCHW list `xs`, in (channel, pixel) coordinates -/
def itemOf (C H W : ℕ) (xs : List ℝ) (b : ℕ) : Fin C × (Fin H × Fin W) → ℝ :=
  fun q => xs.getD (nchw C H W b q.1 q.2.1 q.2.2) 0

/-- **the executed forward pass on batch item `b` IS `convItemMap`** (no hypothesis on `xs`: out-of-range reads are the
    zero default of the model) -/
theorem convForward_item (p : LUParams ℝ) (hbias : p.bias.length = p.n) (σ : Equiv.Perm (Fin p.n)) (B H W : ℕ) (xs : List ℝ)
    (b : Fin B) :
    itemOf p.n H W (convForward realOps p (permList σ) B H W xs).1 b
      = convItemMap (luW p) (vecFn p.n p.bias) σ (Fin H × Fin W) (itemOf p.n H W xs b) := by
  funext ⟨c, h, w⟩
  exact convForward_entry p hbias σ B H W (fun b c h w => xs.getD (nchw p.n H W b c h w) 0) xs (fun _ _ _ _ => rfl) b c h w

/-- **C01 for the executed `OneByOneConvolution`**: the map computed on every batch item is `convItemMap`, it is
    differentiable everywhere with one and the same derivative `D` (non-singular), and every entry of the returned
    log-abs-det vector is `log |det D|` -/
theorem conv_logdet_is_log_abs_det_fderiv (p : LUParams ℝ) (hlen : p.udiag.length = p.n) (heps : 0 ≤ p.eps)
    (hbias : p.bias.length = p.n) (σ : Equiv.Perm (Fin p.n)) (B H W : ℕ) (xs : List ℝ) (b : Fin B) :
    ∃ D : (Fin p.n × (Fin H × Fin W) → ℝ) →L[ℝ] (Fin p.n × (Fin H × Fin W) → ℝ),
      itemOf p.n H W (convForward realOps p (permList σ) B H W xs).1 b
        = convItemMap (luW p) (vecFn p.n p.bias) σ (Fin H × Fin W) (itemOf p.n H W xs b) ∧
      (∀ x0, HasFDerivAt (convItemMap (luW p) (vecFn p.n p.bias) σ (Fin H × Fin W)) D x0) ∧
      D.det ≠ 0 ∧
      (convForward realOps p (permList σ) B H W xs).2[(b : ℕ)]? = some (Real.log |D.det|) ∧
      (convForward realOps p (permList σ) B H W xs).2.length = B := by
  refine ⟨_, convForward_item p hbias σ B H W xs b, convItemMap_hasFDerivAt _ _ σ _, ?_, ?_, ?_⟩
  · rw [convJac_clm_det]; exact convJac_det_ne_zero p hlen heps σ _
  · rw [convJac_clm_det]; exact conv_logdet_is_log_abs_det p hlen heps σ _ B H W xs b b.2
  · rw [convForward_snd, convLogabsdet_length]

/-! ## 6. non-vacuity -/

/-- a concrete `LULinear` (the one of `Properties/C11`), the swap of the two channels, `H = 2`, `W = 3`, batch of 2:
    all hypotheses hold, the log-det entry is `6 · logabsdet()` and the round trip returns the input -/
example : ∃ (p : LUParams ℝ) (σ : Equiv.Perm (Fin p.n)), p.n = 2 ∧ p.udiag.length = p.n ∧ 0 ≤ p.eps ∧ p.bias.length = p.n ∧
    σ ≠ 1 ∧
    (∀ xs : List ℝ, (convForward realOps p (permList σ) 2 2 3 xs).2[1]? = some (((2 * 3 : ℕ) : ℝ) * luLogabsdet realOps p)) ∧
    (∀ xs : List ℝ, (convForward realOps p (permList σ) 2 2 3 xs).2[1]?
      = some (Real.log |(convJac (luW p) σ (Fin 2 × Fin 3)).det|)) ∧
    (∀ xs : List ℝ, xs.length = 2 * p.n * 2 * 3 →
      (convInverse realOps p (permList σ) 2 2 3 (convForward realOps p (permList σ) 2 2 3 xs).1).1 = xs) := by
  let p : LUParams ℝ := { n := 2, lower := [3], upper := [5], udiag := [0, 1], bias := [1, -1], eps := 1 / 1000 }
  have heps : (0 : ℝ) ≤ p.eps := by show (0 : ℝ) ≤ 1 / 1000; norm_num
  refine ⟨p, Equiv.swap (0 : Fin 2) 1, rfl, rfl, heps, rfl, ?_, ?_, ?_, ?_⟩
  · intro h
    have := congrArg (fun e : Equiv.Perm (Fin 2) => e 0) h
    simp at this
  · intro xs; rw [convForward_snd]; exact convLogabsdet_entry p 2 2 3 1 (by norm_num)
  · intro xs; exact conv_logdet_is_log_abs_det p rfl heps _ _ 2 2 3 xs 1 (by norm_num)
  · intro xs hxs; exact conv_roundtrip p rfl heps rfl _ 2 2 3 xs hxs


/-! ## 7. the bias-length hypothesis is forced -/

/-- with an EMPTY bias list (`zipWith` stops at the shorter argument) every executed output row is empty, so every
    output entry reads the zero default: the hypothesis `p.bias.length = p.n` of `convForward_entry` cannot be dropped -/
theorem convForward_bias_nil (p : LUParams ℝ) (hb : p.bias = []) (perm : List ℕ) (B H W : ℕ) (xs : List ℝ) (k : ℕ) :
    (convForward realOps p perm B H W xs).1.getD k 0 = 0 := by
  have hrow : ∀ x, luRow realOps p x = [] := fun x => by simp [luRow, addV, hb]
  show (convUnrows realOps B p.n H W _).getD k 0 = 0
  rw [luForward_eq_map]
  unfold convUnrows
  rw [List.getD_eq_getElem?_getD, List.getElem?_map]
  cases hk : (List.range (B * p.n * H * W))[k]? with
  | none => simp
  | some j =>
    simp only [Option.map_some, Option.getD_some]
    rw [List.getD_eq_getElem?_getD (l := List.map _ _), List.getElem?_map]
    cases (convRows realOps B p.n H W (permuteChannels realOps B p.n H W perm xs))[(j / (W * H * p.n) * H + j / W % H) * W + j % W]? with
    | none => simp
    | some r => simp [hrow]

/-- a one-channel `LULinear` whose bias list is empty -/
abbrev pNoBias : LUParams ℝ := { n := 1, lower := [], upper := [], udiag := [0], bias := [], eps := 0 }

/-- **counterexample** to `convForward_entry` without `p.bias.length = p.n`: one pixel, one channel, input `1`; the
    executed output entry is the default `0`, the affine formula gives the (non-zero) weight -/
theorem convForward_entry_needs_bias :
    (convForward realOps pNoBias (permList (1 : Equiv.Perm (Fin 1))) 1 1 1 [1]).1.getD (nchw 1 1 1 0 0 0 0) 0
      ≠ (luW pNoBias *ᵥ (fun _ => (1 : ℝ)) + vecFn 1 pNoBias.bias) 0 := by
  rw [convForward_bias_nil pNoBias rfl]
  have hdet : (luW pNoBias).det ≠ 0 := luW_det_ne_zero pNoBias rfl (le_refl _)
  have h1 : (luW pNoBias).det = luW pNoBias 0 0 := Matrix.det_fin_one _
  rw [h1] at hdet
  have h2 : (luW pNoBias *ᵥ (fun _ => (1 : ℝ)) + vecFn 1 pNoBias.bias) 0 = luW pNoBias 0 0 := by
    simp [Matrix.mulVec, dotProduct, vecFn]
  rw [h2]
  exact fun h => hdet h.symm
end LogdetExec
