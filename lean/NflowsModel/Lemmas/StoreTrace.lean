import NflowsModel.Core.Store
/-!
# Lemmas/StoreTrace — helper lemmas about the storage/ownership machine (C13)
-/
namespace Thin
namespace Store

theorem run_append (σ : St) (t1 t2 : List Ev) : run σ (t1 ++ t2) = run (run σ t1) t2 := by
  simp [run, List.foldl_append]

theorem runV_append {V : Type} (σ : StV V) (t1 t2 : List (EvV V)) :
    runV σ (t1 ++ t2) = runV (runV σ t1) t2 := by
  simp [runV, List.foldl_append]

theorem traceSafe_cons (owned wl : List Nat) (e : Ev) (rest : List Ev) :
    traceSafe owned wl (e :: rest) =
      ((match e with | .write s => (!(owned.contains s) || wl.contains s) | _ => true) && traceSafe owned wl rest) := by
  cases e <;> simp [traceSafe]

theorem traceSafe_append (owned wl : List Nat) (t1 t2 : List Ev) :
    traceSafe owned wl (t1 ++ t2) = (traceSafe owned wl t1 && traceSafe owned wl t2) := by
  induction t1 with
  | nil => simp [traceSafe]
  | cons e rest ih =>
    rw [List.cons_append, traceSafe_cons, traceSafe_cons, ih, Bool.and_assoc]

theorem traceSafe_flatten (owned wl : List Nat) (calls : List (List Ev)) :
    traceSafe owned wl calls.flatten = calls.all (traceSafe owned wl) := by
  induction calls with
  | nil => simp [traceSafe]
  | cons c rest ih => simp [List.flatten_cons, traceSafe_append, ih]

/-- shrinking the owned set keeps a trace safe (the generated theorems use the largest owned set of the cases
    that share a skeleton) -/
theorem traceSafe_mono_owned (owned owned' wl : List Nat) (tr : List Ev)
    (hsub : ∀ s, owned.contains s = true → owned'.contains s = true)
    (h : traceSafe owned' wl tr = true) : traceSafe owned wl tr = true := by
  induction tr with
  | nil => rfl
  | cons e rest ih =>
    rw [traceSafe_cons] at h ⊢
    simp only [Bool.and_eq_true] at h ⊢
    refine ⟨?_, ih h.2⟩
    cases e with
    | write s =>
      have h1 := h.1
      dsimp only at h1 ⊢
      cases ho : owned.contains s with
      | false => simp
      | true =>
        rw [hsub s ho] at h1
        simpa using h1
    | alloc s => rfl
    | view s => rfl
    | read s => rfl

/-- the version machine adds exactly the number of writes -/
theorem run_eq_add_writeCount (σ : St) (tr : List Ev) (t : Nat) : run σ tr t = σ t + writeCount t tr := by
  induction tr generalizing σ with
  | nil => simp [run, writeCount]
  | cons e rest ih =>
    have h := ih (step σ e)
    simp only [run, List.foldl_cons] at h ⊢
    rw [h]
    cases e with
    | write s =>
      by_cases hts : t = s
      · subst hts; simp [step, writeCount]; omega
      · have : s ≠ t := fun e => hts e.symm
        simp [step, writeCount, hts, this]
    | alloc s => simp [step, writeCount]
    | view s => simp [step, writeCount]
    | read s => simp [step, writeCount]

theorem offending_nil_iff (owned wl : List Nat) (tr : List Ev) :
    offending owned wl tr = [] ↔ traceSafe owned wl tr = true := by
  induction tr with
  | nil => simp [offending, traceSafe]
  | cons e rest ih =>
    cases e with
    | write s =>
      simp only [offending, traceSafe]
      cases ho : owned.contains s <;> cases hw : wl.contains s <;> simp [ih]
    | alloc s => simpa [offending, traceSafe] using ih
    | view s => simpa [offending, traceSafe] using ih
    | read s => simpa [offending, traceSafe] using ih

theorem mem_offending (owned wl : List Nat) (tr : List Ev) (s : Nat) :
    s ∈ offending owned wl tr ↔ (owned.contains s = true ∧ wl.contains s = false ∧ writeCount s tr ≠ 0) := by
  induction tr with
  | nil => simp [offending, writeCount]
  | cons e rest ih =>
    cases e with
    | write t =>
      simp only [offending, writeCount]
      by_cases hts : t = s
      · subst hts
        cases ho : owned.contains t <;> cases hw : wl.contains t <;> simp_all
      · have hst : s ≠ t := fun e => hts e.symm
        cases ho : owned.contains t <;> cases hw : wl.contains t <;> simp_all
    | alloc t => simpa [offending, writeCount] using ih
    | view t => simpa [offending, writeCount] using ih
    | read t => simpa [offending, writeCount] using ih

/-- value-level soundness: with a safe skeleton, an owned non-whitelisted storage keeps its content,
    whatever the writes compute -/
theorem runV_owned_unchanged {V : Type} (owned wl : List Nat) (tr : List (EvV V))
    (h : traceSafe owned wl (skeleton tr) = true) (σ : StV V) (t : Nat)
    (ht : owned.contains t = true) (hw : wl.contains t = false) : runV σ tr t = σ t := by
  induction tr generalizing σ with
  | nil => rfl
  | cons e rest ih =>
    obtain ⟨ev, f⟩ := e
    simp only [skeleton, List.map_cons] at h
    rw [traceSafe_cons] at h
    simp only [Bool.and_eq_true] at h
    have hrest : traceSafe owned wl (skeleton rest) = true := h.2
    have hstep : stepV σ (ev, f) t = σ t := by
      cases ev with
      | write s =>
        have hne : t ≠ s := by
          intro hts; subst hts
          have h1 := h.1
          dsimp only at h1
          rw [ht, hw] at h1
          exact Bool.noConfusion h1
        simp [stepV, hne]
      | alloc s => rfl
      | view s => rfl
      | read s => rfl
    have := ih hrest (stepV σ (ev, f))
    simp only [runV, List.foldl_cons] at this ⊢
    rw [this, hstep]

end Store
end Thin
