import Mathlib.LinearAlgebra.Matrix.Block
import Mathlib.LinearAlgebra.Matrix.NonsingularInverse
import Mathlib.Analysis.SpecialFunctions.Log.Basic
import Mathlib.Tactic

namespace LU


open Matrix Finset
variable {n : ℕ}

/-- `_create_lower_upper` (lu.py:44-54): strictly-lower entries free, unit diagonal; strictly-upper free, positive diagonal -/
def mkLower (lo : Fin n → Fin n → ℝ) : Matrix (Fin n) (Fin n) ℝ :=
  fun i j => if j < i then lo i j else if i = j then 1 else 0
def mkUpper (up : Fin n → Fin n → ℝ) (d : Fin n → ℝ) : Matrix (Fin n) (Fin n) ℝ :=
  fun i j => if i < j then up i j else if i = j then d i else 0

theorem mkLower_lower (lo : Fin n → Fin n → ℝ) : (mkLower lo).IsLowerTriangular := by
  intro i j hij
  have h : i < j := hij
  simp [mkLower, not_lt.mpr h.le, h.ne]
theorem mkUpper_upper (up : Fin n → Fin n → ℝ) (d : Fin n → ℝ) : (mkUpper up d).IsUpperTriangular := by
  intro i j hij
  have h : j < i := hij
  simp [mkUpper, not_lt.mpr h.le, h.ne']

theorem lu_det (lo up : Fin n → Fin n → ℝ) (d : Fin n → ℝ) :
    (mkLower lo * mkUpper up d).det = ∏ i, d i := by
  rw [det_mul, det_of_isLowerTriangular _ (mkLower_lower lo), det_of_isUpperTriangular (mkUpper_upper up d)]
  simp [mkLower, mkUpper]

/-- `logabsdet()` = Σ log(upper_diag) is log|det W| (lu.py:123-129) -/
theorem lu_logabsdet (lo up : Fin n → Fin n → ℝ) (d : Fin n → ℝ) (hd : ∀ i, 0 < d i) :
    ∑ i, Real.log (d i) = Real.log |(mkLower lo * mkUpper up d).det| := by
  rw [lu_det, abs_of_pos (Finset.prod_pos (fun i _ => hd i)), Real.log_prod (fun i _ => (hd i).ne')]

/-- `F.linear(F.linear(x, U), L, b)` is x ↦ (L U) x + b -/
theorem lu_forward (L U : Matrix (Fin n) (Fin n) ℝ) (b x : Fin n → ℝ) :
    L.mulVec (U.mulVec x) + b = (L * U).mulVec x + b := by
  rw [Matrix.mulVec_mulVec]

/-- W is invertible, so `weight_inverse()` (two triangular solves) is the unique inverse -/
theorem lu_isUnit (lo up : Fin n → Fin n → ℝ) (d : Fin n → ℝ) (hd : ∀ i, 0 < d i) :
    IsUnit (mkLower lo * mkUpper up d).det := by
  rw [lu_det]; exact isUnit_iff_ne_zero.mpr (Finset.prod_pos (fun i _ => hd i)).ne'


end LU
