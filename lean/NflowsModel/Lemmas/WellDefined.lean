import NflowsModel.Lemmas.WellDefinedRQ
import NflowsModel.Lemmas.WellDefinedLin
import NflowsModel.Lemmas.WellDefinedQuad
import NflowsModel.Lemmas.WellDefinedCubic
import NflowsModel.Lemmas.WellDefinedNonlin
/-!
# Lemmas/WellDefined — "accepted ⇒ every partial operation is applied inside its domain" (index file)

External audit, C17 finding 2: over ℝ the conclusion `∃ r, prog = .ok r` of the in-domain totality theorems does not exclude
`log 0`, `x / 0`, `sqrt (< 0)` (Mathlib totalises them).  The companion theorems below say, for each EXECUTED program of
`Core/Spline.lean` / `Core/Nonlin.lean` at `NF.realX e`, on the closed in-domain box and under the same validity bundle as
the totality theorem: the program returns the closed forms of the bin its own search selected (`exec` field) AND every
logarithm argument it forms is `> 0`, every divisor is `≠ 0` (`> 0` or `< 0` proved), every square-root argument is `≥ 0`.
Each sub-file has a docstring table `operation (line of Core/Spline.lean) → field` for checking that the enumeration is complete;
operands are stated on the program's own sub-terms where possible (`sumG … (uw.map …)`, `evalR env <sub-Expr>` with `rfl`
"shape" lemmas showing the sub-`Expr` IS the divisor / log argument of the executed `Expr`).

| program                          | theorem (this file)                | sub-file              |
|----------------------------------|------------------------------------|-----------------------|
| `rqSpline … false`               | `rq_forward_well_defined`          | `WellDefinedRQ`       |
| `rqSpline … true`                | `rq_inverse_well_defined`          | `WellDefinedRQ`       |
| `linSpline … false / true`       | `lin_forward/inverse_well_defined` | `WellDefinedLin`      |
| `quadSpline … false / true`      | `quad_forward/inverse_well_defined` (bounded shape), `…_T` (tails shape, `K ≥ 2`) | `WellDefinedQuad` |
| `cubicSpline … false`            | `cubic_forward_well_defined`       | `WellDefinedCubic`    |
| `cubicSpline … true`             | `cubic_inverse_well_defined_partial` + FINDINGS `cubic_inverse_divides_by_zero`, `cubic_inverse_cardano_log_zero` | `WellDefinedCubic` |
| `expT/tanhT/sigmoidT/cauchyT … true` | `NF.WellDefined.Nonlin.*_inverse_well_defined` | `WellDefinedNonlin` |

**Findings** (cubic inverse, audit C17 finding 3): the full statement is FALSE for the cubic inverse.  At accepted
configurations and for EVERY in-domain input (i) the three divisions by the gathered leading coefficient `ia` are divisions by
zero when the selected bin is linear (`cubic_inverse_divides_by_zero`), (ii) the Cardano branch passes exactly `0` to
`cbrtG`, i.e. forms `log |0|` (`cubic_inverse_cardano_log_zero`).  The program still returns `.ok` with a positive log-det
argument — rescued by the quadratic fallback / `sign 0 = 0` / the clamp into the bin, not by the operations being in domain.
Hence only the `_partial` form for that program.  (CauchyCDF inverse at the accepted end points is well defined only because
the double `π̂` is below `π`: `Nonlin.cauchy_inverse_well_defined`, `Nonlin.cauchy_inverse_pole_ideal`.)
-/
open NF

namespace NF.WellDefined
variable {e : Float → ℝ}

/-- **RQ forward** (rational_quadratic.py): stage A (softmax / softplus / `log1p` divisors and log arguments), the executed
    result, the gathered width `> 0`, `θ ∈ [0,1]`, `den > 0` (divisor and log argument), `dnum > 0` (log argument) -/
theorem rq_forward_well_defined {c : RQCfg} {uw uh ud : List ℝ} (hv : RQWhole.RQValid e c uw uh ud) (x : ℝ)
    (hx0 : e c.box.left ≤ x) (hx1 : x ≤ e c.box.right) : RQ.RQFwdWellDefined e c uw uh ud x :=
  RQ.rq_forward_well_defined hv x hx0 hx1

/-- **RQ inverse**: in addition to `disc ≥ 0` (the sqrt argument): the root's divisor `-b - sqrt disc < 0`, `w > 0`, and both
    log arguments of the log-det at the root `> 0` -/
theorem rq_inverse_well_defined {c : RQCfg} {uw uh ud : List ℝ} (hv : RQWhole.RQValid e c uw uh ud) (y : ℝ)
    (hy0 : e c.box.bottom ≤ y) (hy1 : y ≤ e c.box.top) : RQ.RQInvWellDefined e c uw uh ud y :=
  RQ.rq_inverse_well_defined hv y hy0 hy1

/-- **linear spline, forward** -/
theorem lin_forward_well_defined {box : Box} {eps : Float} {up : List ℝ} (hv : LinWhole.LinValid e box eps up) (x : ℝ)
    (hx0 : e box.left ≤ x) (hx1 : x ≤ e box.right) : Lin.LinFwdWellDefined e box eps up x :=
  Lin.lin_forward_well_defined hv x hx0 hx1

/-- **linear spline, inverse** -/
theorem lin_inverse_well_defined {box : Box} {eps : Float} {up : List ℝ} (hv : LinWhole.LinValid e box eps up) (y : ℝ)
    (hy0 : e box.bottom ≤ y) (hy1 : y ≤ e box.top) : Lin.LinInvWellDefined e box eps up y :=
  Lin.lin_inverse_well_defined hv y hy0 hy1

/-- **quadratic spline, forward**, bounded parameter shape -/
theorem quad_forward_well_defined {c : QCfg} {uw uh : List ℝ} (hv : QuadWhole.QuadValid e c uw uh) (x : ℝ)
    (hx0 : e c.box.left ≤ x) (hx1 : x ≤ e c.box.right) : WellDefinedQuad.QuadFwdWellDefined e c uw uh x :=
  WellDefinedQuad.quad_forward_well_defined hv x hx0 hx1

/-- **quadratic spline, inverse**, bounded parameter shape: radicand `≥ 0`, stable-root divisor `< 0`, log argument `> 0` —
    also at flat bins (`a = 0`) and at `y' = lcdf` (`c = 0`) -/
theorem quad_inverse_well_defined {c : QCfg} {uw uh : List ℝ} (hv : QuadWhole.QuadValid e c uw uh) (y : ℝ)
    (hy0 : e c.box.bottom ≤ y) (hy1 : y ≤ e c.box.top) : WellDefinedQuad.QuadInvWellDefined e c uw uh y :=
  WellDefinedQuad.quad_inverse_well_defined hv y hy0 hy1

/-- **quadratic spline, forward, tails parameter shape** (`K ≥ 2`): plus the end-height padding divisor -/
theorem quad_forward_well_defined_T {c : QCfg} {uw uh : List ℝ} (hv : QuadWhole.QuadValidT e c uw uh) (x : ℝ)
    (hx0 : e c.box.left ≤ x) (hx1 : x ≤ e c.box.right) : WellDefinedQuad.QuadFwdWellDefinedT e c uw uh x :=
  WellDefinedQuad.quad_forward_well_defined_T hv x hx0 hx1

/-- **quadratic spline, inverse, tails parameter shape** (`K ≥ 2`) -/
theorem quad_inverse_well_defined_T {c : QCfg} {uw uh : List ℝ} (hv : QuadWhole.QuadValidT e c uw uh) (y : ℝ)
    (hy0 : e c.box.bottom ≤ y) (hy1 : y ≤ e c.box.top) : WellDefinedQuad.QuadInvWellDefinedT e c uw uh y :=
  WellDefinedQuad.quad_inverse_well_defined_T hv y hy0 hy1

/-- **cubic spline, forward**: every divisor of the (eager) coefficient lists `> 0` and the log-det argument `> 0` on the closed
    selected bin, box ends and knots included -/
theorem cubic_forward_well_defined {c : CCfg} {uw uh : List ℝ} (hv : CubicWhole.CubicValid e c uw uh) (udl udr x : ℝ)
    (hx0 : e c.box.left ≤ x) (hx1 : x ≤ e c.box.right) : Cubic.CubicFwdWellDefined e c uw uh udl udr x :=
  Cubic.cubic_forward_well_defined hv udl udr x hx0 hx1

/-- **cubic spline, inverse — PARTIAL**: the operands that ARE provably in domain (list building, normalisation, quadratic
    fallback radicand and divisor, returned log-det argument); see the two findings below for those that are not -/
theorem cubic_inverse_well_defined_partial {c : CCfg} {uw uh : List ℝ} (hv : CubicWhole.CubicValid e c uw uh) (udl udr y : ℝ)
    (hy0 : e c.box.bottom ≤ y) (hy1 : y ≤ e c.box.top) : Cubic.CubicInvWellDefinedPartial e c uw uh udl udr y :=
  Cubic.cubic_inverse_well_defined_partial hv udl udr y hy0 hy1

/-- **FINDING** (cubic inverse, Spline.lean:346-348 / cubic.py): at an accepted two-bin configuration whose spline is the
    identity, for EVERY in-domain `y` the gathered leading coefficient is `0` and `ib / ia` is a division by zero -/
theorem cubic_inverse_divides_by_zero (y : ℝ) (h0 : 0 ≤ y) (h1 : y ≤ 1) :
    CubicWhole.aK CubicInverseWhole.eI CubicWhole.cNV [0, 0] [0, 0] (-Real.log 2) (-Real.log 2)
      (CubicInverseWhole.idxH CubicInverseWhole.eI CubicWhole.cNV [0, 0]
        (CubicInverseWhole.yn CubicInverseWhole.eI CubicWhole.cNV y)) = 0 :=
  (Cubic.ia_zero_all_inputs y h0 h1).1

/-- **FINDING** (cubic inverse, Spline.lean:285, 377-378 / cubic.py `cbrt`): at an accepted one-bin configuration
    (`sigmoid udl = 1/7`, `sigmoid udr = 4/7`), for EVERY in-domain `y`: no quadratic fallback, `disc < 0` (Cardano branch
    selected) and one of the two `cbrtG` arguments is exactly `0` — the program forms `log |0|` -/
alias cubic_inverse_cardano_log_zero := Cubic.cardano_log_zero_example

end NF.WellDefined
