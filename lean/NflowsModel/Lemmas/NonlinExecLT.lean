import NflowsModel.Core.Nonlin
import NflowsModel.Real.RealX
import NflowsModel.Lemmas.Nonlin
import NflowsModel.Lemmas.DualXNonlin
import Mathlib.Analysis.SpecialFunctions.Trigonometric.ArctanDeriv
import Mathlib.Analysis.SpecialFunctions.Trigonometric.DerivHyp
import Mathlib.Analysis.SpecialFunctions.Log.Deriv
import Mathlib.Analysis.SpecialFunctions.Artanh
import Mathlib.Analysis.Complex.ExponentialBounds
import Mathlib.Analysis.Real.Pi.Bounds
import Mathlib.Analysis.Calculus.Deriv.MeanValue
import Mathlib.Analysis.Calculus.TangentCone.Real
import Mathlib.Tactic
/-!
# Lemmas/NonlinExecLT — the EXECUTED `cauchyT` and `logTanhT` of `Core/Nonlin.lean` at `NF.realX e`

For both element-wise transforms and both directions:
* A1 (C17) the exact run: which branch is taken, `.ok` closed form / `.error` characterisation;
* A2 (C01) `exp (returned log-det)` is the derivative of the returned value as a function of the input;
* A3 (C02) the executed inverse on the executed forward output returns `(x, -ld)`, and conversely.
-/
open NF DualX Filter Topology Set

namespace NonlinExec
noncomputable section

variable (e : Float → ℝ)

@[simp] theorem realX_tan (a : ℝ) : (NF.realX e).tan a = Real.tan a := rfl
@[simp] theorem realX_tanh (a : ℝ) : (NF.realX e).tanh a = Real.tanh a := rfl

/-! ## CauchyCDF -/

/-- A1 forward: total, raw closed form in terms of the readings of the four doubles the code forms -/
theorem cauchyT_fwd_run (x : ℝ) :
    cauchyT (NF.realX e) false x
      = .ok (e (1 / 3.141592653589793) * Real.arctan x + e 0.5,
             e (-(Float.log 3.141592653589793)) - Real.log (1 + x * x)) := by
  unfold cauchyT
  simp only [Bool.false_eq_true, if_false, NF.realX_add, NF.realX_mul, NF.realX_sub, NF.realX_ofFloat, NF.realX_atan,
    NF.realX_log, NF.realX_one]

/-- A1 inverse: the error branch is taken exactly outside the CLOSED interval `[0, 1]` -/
theorem cauchyT_inv_error_iff (x : ℝ) :
    cauchyT (NF.realX e) true x = .error .outsideDomain ↔ x < 0 ∨ 1 < x := by
  unfold cauchyT
  by_cases h : x < 0 ∨ 1 < x
  · simp [XOps.gt, h]
  · simp only [h, iff_false]
    simp [XOps.gt, h]

/-- A1 inverse: raw closed form on `[0, 1]` (end points included: the model, like the code, accepts them) -/
theorem cauchyT_inv_run (x : ℝ) (h0 : 0 ≤ x) (h1 : x ≤ 1) :
    cauchyT (NF.realX e) true x
      = .ok (Real.tan (e 3.141592653589793 * (x - e 0.5)),
             -(e (-(Float.log 3.141592653589793))
                - Real.log (1 + Real.tan (e 3.141592653589793 * (x - e 0.5))
                              * Real.tan (e 3.141592653589793 * (x - e 0.5))))) := by
  unfold cauchyT
  simp [XOps.gt, not_lt.mpr h0, not_lt.mpr h1]

/-- the inverse never fails with another error, and never fails inside `[0,1]` -/
theorem cauchyT_inv_total (x : ℝ) :
    (∃ p, cauchyT (NF.realX e) true x = .ok p) ∨ cauchyT (NF.realX e) true x = .error .outsideDomain := by
  by_cases h : x < 0 ∨ 1 < x
  · exact Or.inr ((cauchyT_inv_error_iff e x).2 h)
  · rw [not_or, not_lt, not_lt] at h
    exact Or.inl ⟨_, cauchyT_inv_run e x h.1 h.2⟩

/-- the readings of the four double constants of `CauchyCDF` as the ideal reals -/
structure CauchyConsts : Prop where
  hpi : e 3.141592653589793 = Real.pi
  hinv : e (1 / 3.141592653589793) = 1 / Real.pi
  hhalf : e 0.5 = 1 / 2
  hlog : e (-(Float.log 3.141592653589793)) = -Real.log Real.pi

variable {e}

/-- A1 forward, ideal constants -/
theorem cauchyT_fwd_ideal (h : CauchyConsts e) (x : ℝ) :
    cauchyT (NF.realX e) false x
      = .ok (1 / Real.pi * Real.arctan x + 1 / 2, -Real.log Real.pi - Real.log (1 + x * x)) := by
  rw [cauchyT_fwd_run, h.hinv, h.hhalf, h.hlog]

/-- A1 inverse, ideal constants, on `[0,1]`.  NOTE the end points: the returned value at `x = 0`, `x = 1` is
    `Real.tan (∓π/2)`, which is the junk value `0` in Mathlib; the Python code returns `tan (∓π̂/2) ≈ ∓1.6e16`, finite
    because the double `π̂` is below `π`.  So the ideal reading is faithful only on the open interval. -/
theorem cauchyT_inv_ideal (h : CauchyConsts e) (x : ℝ) (h0 : 0 ≤ x) (h1 : x ≤ 1) :
    cauchyT (NF.realX e) true x
      = .ok (Real.tan (Real.pi * (x - 1 / 2)),
             -(-Real.log Real.pi - Real.log (1 + Real.tan (Real.pi * (x - 1 / 2)) * Real.tan (Real.pi * (x - 1 / 2))))) := by
  rw [cauchyT_inv_run e x h0 h1, h.hpi, h.hhalf, h.hlog]

/-- the end points under the ideal reading: value `0` (Mathlib's junk `tan (±π/2)`), log-det `log π` -/
theorem cauchyT_inv_ideal_endpoints (h : CauchyConsts e) :
    cauchyT (NF.realX e) true 0 = .ok (0, -(-Real.log Real.pi - Real.log (1 + 0 * 0))) ∧
    cauchyT (NF.realX e) true 1 = .ok (0, -(-Real.log Real.pi - Real.log (1 + 0 * 0))) := by
  constructor
  · rw [cauchyT_inv_ideal h 0 le_rfl zero_le_one]
    have : Real.pi * (0 - 1 / 2) = -(Real.pi / 2) := by ring
    rw [this, Real.tan_neg, Real.tan_pi_div_two, neg_zero]
  · rw [cauchyT_inv_ideal h 1 zero_le_one le_rfl]
    have : Real.pi * (1 - 1 / 2) = Real.pi / 2 := by ring
    rw [this, Real.tan_pi_div_two]

/-! ### A2 (C01) -/

theorem exp_cauchy_ld (x : ℝ) :
    Real.exp (-Real.log Real.pi - Real.log (1 + x * x)) = 1 / Real.pi * (1 / (1 + x ^ 2)) := by
  have h1 : (0:ℝ) < 1 + x * x := by nlinarith [mul_self_nonneg x]
  rw [Real.exp_sub, Real.exp_neg, Real.exp_log Real.pi_pos, Real.exp_log h1]
  have := Real.pi_pos.ne'
  field_simp

/-- A2 forward: `exp` of the returned log-det is the derivative of the returned value, at every `x` -/
theorem cauchyT_fwd_hasDerivAt (h : CauchyConsts e) (x : ℝ) :
    HasDerivAt (fun s => outY (cauchyT (NF.realX e) false s))
      (Real.exp (outL (cauchyT (NF.realX e) false x))) x := by
  have hf : (fun s => outY (cauchyT (NF.realX e) false s)) = fun s => 1 / Real.pi * Real.arctan s + 1 / 2 := by
    funext s; rw [cauchyT_fwd_ideal h]; rfl
  rw [hf, cauchyT_fwd_ideal h, outL_ok]
  show HasDerivAt _ (Real.exp (-Real.log Real.pi - Real.log (1 + x * x))) x
  rw [exp_cauchy_ld]
  exact ((Real.hasDerivAt_arctan x).const_mul (1 / Real.pi)).add_const (1 / 2)

theorem cos_ne_zero_of_Ioo {x : ℝ} (h0 : 0 < x) (h1 : x < 1) : Real.cos (Real.pi * (x - 1 / 2)) ≠ 0 := by
  refine (Real.cos_pos_of_mem_Ioo ⟨?_, ?_⟩).ne'
  · nlinarith [Real.pi_pos]
  · nlinarith [Real.pi_pos]

/-- A2 inverse: on the open interval, `exp` of the returned log-det is the derivative of the returned value -/
theorem cauchyT_inv_hasDerivAt (h : CauchyConsts e) (x : ℝ) (h0 : 0 < x) (h1 : x < 1) :
    HasDerivAt (fun s => outY (cauchyT (NF.realX e) true s))
      (Real.exp (outL (cauchyT (NF.realX e) true x))) x := by
  have hcos := cos_ne_zero_of_Ioo h0 h1
  have hd : HasDerivAt (fun s => Real.tan (Real.pi * (s - 1 / 2)))
      (1 / Real.cos (Real.pi * (x - 1 / 2)) ^ 2 * Real.pi) x := by
    have hin : HasDerivAt (fun s : ℝ => Real.pi * (s - 1 / 2)) Real.pi x := by
      have := ((hasDerivAt_id x).sub_const (1 / 2 : ℝ)).const_mul Real.pi
      rw [mul_one] at this
      exact this
    exact (Real.hasDerivAt_tan hcos).comp x hin
  have hval : Real.exp (outL (cauchyT (NF.realX e) true x))
      = 1 / Real.cos (Real.pi * (x - 1 / 2)) ^ 2 * Real.pi := by
    rw [cauchyT_inv_ideal h x h0.le h1.le, outL_ok]
    show Real.exp (-(-Real.log Real.pi - Real.log (1 + Real.tan (Real.pi * (x - 1 / 2)) * Real.tan (Real.pi * (x - 1 / 2))))) = _
    have hp : (0:ℝ) < 1 + Real.tan (Real.pi * (x - 1 / 2)) * Real.tan (Real.pi * (x - 1 / 2)) := by
      nlinarith [mul_self_nonneg (Real.tan (Real.pi * (x - 1 / 2)))]
    rw [neg_sub, sub_neg_eq_add, Real.exp_add, Real.exp_log hp, Real.exp_log Real.pi_pos,
      ← Real.inv_one_add_tan_sq hcos]
    simp only [pow_two, one_div, inv_inv]
  rw [hval]
  refine hd.congr_of_eventuallyEq ?_
  filter_upwards [Ioo_mem_nhds h0 h1] with s hs
  rw [cauchyT_inv_ideal h s hs.1.le hs.2.le]; rfl

/-! ### A3 (C02) -/

theorem cauchy_fwd_mem (x : ℝ) : 0 < 1 / Real.pi * Real.arctan x + 1 / 2 ∧ 1 / Real.pi * Real.arctan x + 1 / 2 < 1 := by
  have hp := Real.pi_pos
  have h1 := Real.arctan_lt_pi_div_two x
  have h2 := Real.neg_pi_div_two_lt_arctan x
  constructor
  · have : -(1/2 : ℝ) < 1 / Real.pi * Real.arctan x := by
      rw [div_mul_eq_mul_div, one_mul, lt_div_iff₀ hp]; linarith
    linarith
  · have : 1 / Real.pi * Real.arctan x < 1 / 2 := by
      rw [div_mul_eq_mul_div, one_mul, div_lt_iff₀ hp]; linarith
    linarith

/-- A3: executed inverse after executed forward returns the input and the negated log-det, for every real `x` -/
theorem cauchyT_inv_fwd (h : CauchyConsts e) (x y ld : ℝ) (hf : cauchyT (NF.realX e) false x = .ok (y, ld)) :
    cauchyT (NF.realX e) true y = .ok (x, -ld) := by
  rw [cauchyT_fwd_ideal h] at hf
  injection hf with hf
  injection hf with hy hl
  subst hy hl
  obtain ⟨m0, m1⟩ := cauchy_fwd_mem x
  rw [cauchyT_inv_ideal h _ m0.le m1.le]
  have : Real.pi * (1 / Real.pi * Real.arctan x + 1 / 2 - 1 / 2) = Real.arctan x := by
    have := Real.pi_pos.ne'
    field_simp
    ring
  rw [this, Real.tan_arctan]

/-- A3: executed forward after executed inverse, on the open interval `0 < y < 1` -/
theorem cauchyT_fwd_inv (h : CauchyConsts e) (y x ld : ℝ) (h0 : 0 < y) (h1 : y < 1)
    (hi : cauchyT (NF.realX e) true y = .ok (x, ld)) :
    cauchyT (NF.realX e) false x = .ok (y, -ld) := by
  rw [cauchyT_inv_ideal h y h0.le h1.le] at hi
  injection hi with hi
  injection hi with hx hl
  subst hx hl
  rw [cauchyT_fwd_ideal h]
  have hp := Real.pi_pos
  have ha : Real.arctan (Real.tan (Real.pi * (y - 1 / 2))) = Real.pi * (y - 1 / 2) := by
    apply Real.arctan_tan <;> nlinarith
  rw [ha, neg_neg]
  congr 2
  field_simp
  ring

/-- at the end points the round trip FAILS under the ideal reading (value `0 ↦ 1/2`), which is an artefact of
    `Real.tan (π/2) = 0`; the code returns `tan (−π̂/2) ≈ −1.6e16` there and `atan` of it rounds back to `0.0` -/
theorem cauchyT_fwd_inv_endpoint (h : CauchyConsts e) :
    ∃ x ld, cauchyT (NF.realX e) true 0 = .ok (x, ld) ∧
      cauchyT (NF.realX e) false x = .ok (1 / 2, -ld) := by
  refine ⟨0, _, (cauchyT_inv_ideal_endpoints h).1, ?_⟩
  rw [cauchyT_fwd_ideal h]
  simp

/-! ### non-vacuity of `CauchyConsts`

`Float.log` is kernel-opaque, so the key `-(Float.log π̂)` cannot be compared with the three literal keys inside the logic, and
the bundle is NOT unconditionally satisfiable in the logic (were `-(Float.log π̂)` the same double as `0.5`, the bundle would
force `1/2 = -log π`).  The witness is therefore conditional on the three `Float` disequalities, which are true by evaluation:
`#eval (-(Float.log 3.141592653589793) == 3.141592653589793, -(Float.log 3.141592653589793) == 1 / 3.141592653589793,
 -(Float.log 3.141592653589793) == 0.5)` prints `(false, false, false)` (the key is `-1.1447298858494002`). -/

/-- a reading of the doubles that is ideal on the four `CauchyCDF` constants -/
def eCauchy (f : Float) : ℝ :=
  if f == 3.141592653589793 then Real.pi
  else if f == 1 / 3.141592653589793 then 1 / Real.pi
  else if f == 0.5 then 1 / 2 else -Real.log Real.pi

private theorem kc1 : ((3.141592653589793 : Float) == 3.141592653589793) = true := by decide +kernel
private theorem kc2 : ((1 / 3.141592653589793 : Float) == 3.141592653589793) = false := by decide +kernel
private theorem kc3 : ((1 / 3.141592653589793 : Float) == 1 / 3.141592653589793) = true := by decide +kernel
private theorem kc4 : ((0.5 : Float) == 3.141592653589793) = false := by decide +kernel
private theorem kc5 : ((0.5 : Float) == 1 / 3.141592653589793) = false := by decide +kernel
private theorem kc6 : ((0.5 : Float) == 0.5) = true := by decide +kernel

theorem cauchyConsts_example
    (h1 : (-(Float.log 3.141592653589793) == 3.141592653589793) = false)
    (h2 : (-(Float.log 3.141592653589793) == 1 / 3.141592653589793) = false)
    (h3 : (-(Float.log 3.141592653589793) == 0.5) = false) : CauchyConsts eCauchy where
  hpi := by simp [eCauchy, kc1]
  hinv := by simp [eCauchy, kc2, kc3]
  hhalf := by simp [eCauchy, kc4, kc5, kc6]
  hlog := by simp [eCauchy, h1, h2, h3]


/-- glue: a run that is locally `.ok (f s, l s)` with `f' = exp (l x)` satisfies the executed C01 statement -/
theorem hasDerivAt_of_run {F : ℝ → Except Err (ℝ × ℝ)} {f l : ℝ → ℝ} {x d : ℝ}
    (hF : ∀ᶠ s in 𝓝 x, F s = .ok (f s, l s)) (hd : HasDerivAt f d x) (hl : Real.exp (l x) = d) :
    HasDerivAt (fun s => outY (F s)) (Real.exp (outL (F x))) x := by
  rw [hF.self_of_nhds, outL_ok]
  show HasDerivAt _ (Real.exp (l x)) x
  rw [hl]
  refine hd.congr_of_eventuallyEq ?_
  filter_upwards [hF] with s hs
  rw [hs]; rfl

/-! ### the other honest reading: `π̂` read as a real `0 < p ≤ π` (the double is BELOW `π`)

With `p < π` the end points `0, 1` of the inverse are regular (`tan (∓p/2)` is finite, as in the code), the log-det law holds
as before, forward ∘ inverse holds on the CLOSED interval, but inverse ∘ forward is only available while
`|arctan x| ≤ p/2`: beyond, the forward output `1/p · arctan x + 1/2` leaves `[0,1]` and the inverse raises
(`cauchyT_inv_fwd_p_fails`).  (In binary64 the product `fl(1/π̂) · atan x` is at most `0.5`, so the code does not raise;
that is a rounding fact outside this real reading.) -/

structure CauchyConstsP (e : Float → ℝ) (p : ℝ) : Prop where
  p_pos : 0 < p
  p_le : p ≤ Real.pi
  hpi : e 3.141592653589793 = p
  hinv : e (1 / 3.141592653589793) = 1 / p
  hhalf : e 0.5 = 1 / 2
  hlog : e (-(Float.log 3.141592653589793)) = -Real.log p

theorem CauchyConsts.toP (h : CauchyConsts e) : CauchyConstsP e Real.pi :=
  ⟨Real.pi_pos, le_rfl, h.hpi, h.hinv, h.hhalf, h.hlog⟩

variable {p : ℝ}

theorem cauchyT_fwd_p (h : CauchyConstsP e p) (x : ℝ) :
    cauchyT (NF.realX e) false x = .ok (1 / p * Real.arctan x + 1 / 2, -Real.log p - Real.log (1 + x * x)) := by
  rw [cauchyT_fwd_run, h.hinv, h.hhalf, h.hlog]

theorem cauchyT_inv_p (h : CauchyConstsP e p) (x : ℝ) (h0 : 0 ≤ x) (h1 : x ≤ 1) :
    cauchyT (NF.realX e) true x
      = .ok (Real.tan (p * (x - 1 / 2)),
             -(-Real.log p - Real.log (1 + Real.tan (p * (x - 1 / 2)) * Real.tan (p * (x - 1 / 2))))) := by
  rw [cauchyT_inv_run e x h0 h1, h.hpi, h.hhalf, h.hlog]

theorem cauchyT_fwd_hasDerivAt_p (h : CauchyConstsP e p) (x : ℝ) :
    HasDerivAt (fun s => outY (cauchyT (NF.realX e) false s))
      (Real.exp (outL (cauchyT (NF.realX e) false x))) x := by
  have hp := h.p_pos
  refine hasDerivAt_of_run (f := fun s => 1 / p * Real.arctan s + 1 / 2)
    (l := fun s => -Real.log p - Real.log (1 + s * s)) (d := 1 / p * (1 / (1 + x ^ 2)))
    (Eventually.of_forall fun s => cauchyT_fwd_p h s)
    (((Real.hasDerivAt_arctan x).const_mul (1 / p)).add_const (1 / 2)) ?_
  have h1 : (0:ℝ) < 1 + x * x := by nlinarith [mul_self_nonneg x]
  show Real.exp (-Real.log p - Real.log (1 + x * x)) = _
  rw [Real.exp_sub, Real.exp_neg, Real.exp_log hp, Real.exp_log h1]
  field_simp

theorem cauchyT_inv_hasDerivAt_p (h : CauchyConstsP e p) (x : ℝ) (h0 : 0 < x) (h1 : x < 1) :
    HasDerivAt (fun s => outY (cauchyT (NF.realX e) true s))
      (Real.exp (outL (cauchyT (NF.realX e) true x))) x := by
  have hp := h.p_pos; have hpl := h.p_le
  have hcos : Real.cos (p * (x - 1 / 2)) ≠ 0 := by
    refine (Real.cos_pos_of_mem_Ioo ⟨?_, ?_⟩).ne' <;> nlinarith
  refine hasDerivAt_of_run (f := fun s => Real.tan (p * (s - 1 / 2)))
    (l := fun s => -(-Real.log p - Real.log (1 + Real.tan (p * (s - 1 / 2)) * Real.tan (p * (s - 1 / 2)))))
    (d := 1 / Real.cos (p * (x - 1 / 2)) ^ 2 * p) ?_ ?_ ?_
  · filter_upwards [Ioo_mem_nhds h0 h1] with s hs
    exact cauchyT_inv_p h s hs.1.le hs.2.le
  · have hin : HasDerivAt (fun s : ℝ => p * (s - 1 / 2)) p x := by
      have := ((hasDerivAt_id x).sub_const (1 / 2 : ℝ)).const_mul p
      rw [mul_one] at this
      exact this
    exact (Real.hasDerivAt_tan hcos).comp x hin
  · show Real.exp (-(-Real.log p - Real.log (1 + Real.tan (p * (x - 1 / 2)) * Real.tan (p * (x - 1 / 2))))) = _
    have hq : (0:ℝ) < 1 + Real.tan (p * (x - 1 / 2)) * Real.tan (p * (x - 1 / 2)) := by
      nlinarith [mul_self_nonneg (Real.tan (p * (x - 1 / 2)))]
    rw [neg_sub, sub_neg_eq_add, Real.exp_add, Real.exp_log hq, Real.exp_log hp, ← Real.inv_one_add_tan_sq hcos]
    simp only [pow_two, one_div, inv_inv]

/-- inverse ∘ forward while the forward output stays in `[0,1]`, i.e. `|arctan x| ≤ p/2` -/
theorem cauchyT_inv_fwd_p (h : CauchyConstsP e p) (x y ld : ℝ) (hx : |Real.arctan x| ≤ p / 2)
    (hf : cauchyT (NF.realX e) false x = .ok (y, ld)) :
    cauchyT (NF.realX e) true y = .ok (x, -ld) := by
  have hp := h.p_pos
  rw [cauchyT_fwd_p h] at hf
  injection hf with hf
  injection hf with hy hl
  subst hy hl
  obtain ⟨hx1, hx2⟩ := abs_le.mp hx
  have m0 : 0 ≤ 1 / p * Real.arctan x + 1 / 2 := by
    have : -(1 / 2 : ℝ) ≤ 1 / p * Real.arctan x := by
      rw [div_mul_eq_mul_div, one_mul, le_div_iff₀ hp]; linarith
    linarith
  have m1 : 1 / p * Real.arctan x + 1 / 2 ≤ 1 := by
    have : 1 / p * Real.arctan x ≤ 1 / 2 := by
      rw [div_mul_eq_mul_div, one_mul, div_le_iff₀ hp]; linarith
    linarith
  rw [cauchyT_inv_p h _ m0 m1]
  have : p * (1 / p * Real.arctan x + 1 / 2 - 1 / 2) = Real.arctan x := by
    field_simp
    ring
  rw [this, Real.tan_arctan]

/-- FINDING (of the reading `p < π`, not of the binary64 code): beyond `tan (p/2)` the executed inverse rejects the
    executed forward output -/
theorem cauchyT_inv_fwd_p_fails (h : CauchyConstsP e p) (hlt : p < Real.pi) :
    ∃ x : ℝ, cauchyT (NF.realX e) true (outY (cauchyT (NF.realX e) false x)) = .error .outsideDomain := by
  have hp := h.p_pos
  refine ⟨Real.tan ((p / 2 + Real.pi / 2) / 2), ?_⟩
  rw [cauchyT_fwd_p h, outY_ok, cauchyT_inv_error_iff]
  right
  show 1 < 1 / p * Real.arctan (Real.tan ((p / 2 + Real.pi / 2) / 2)) + 1 / 2
  rw [Real.arctan_tan (by linarith) (by linarith)]
  have : 1 / 2 < 1 / p * ((p / 2 + Real.pi / 2) / 2) := by
    rw [div_mul_eq_mul_div, one_mul, lt_div_iff₀ hp]; linarith
  linarith

/-- forward ∘ inverse; for `p < π` on the closed interval `[0,1]`, for `p = π` on the open one -/
theorem cauchyT_fwd_inv_p (h : CauchyConstsP e p) (y x ld : ℝ) (h0 : 0 ≤ y) (h1 : y ≤ 1)
    (hreg : p < Real.pi ∨ (0 < y ∧ y < 1))
    (hi : cauchyT (NF.realX e) true y = .ok (x, ld)) :
    cauchyT (NF.realX e) false x = .ok (y, -ld) := by
  have hp := h.p_pos; have hpl := h.p_le
  rw [cauchyT_inv_p h y h0 h1] at hi
  injection hi with hi
  injection hi with hx hl
  subst hx hl
  rw [cauchyT_fwd_p h]
  have ha : Real.arctan (Real.tan (p * (y - 1 / 2))) = p * (y - 1 / 2) := by
    rcases hreg with hlt | ⟨g0, g1⟩
    · apply Real.arctan_tan <;> nlinarith
    · apply Real.arctan_tan <;> nlinarith
  rw [ha, neg_neg]
  congr 2
  field_simp
  ring

/-- non-vacuity of the reading `p < π` (here `p = 3`), conditional on the same three evaluated `Float` disequalities -/
def eCauchy3 (f : Float) : ℝ :=
  if f == 3.141592653589793 then 3
  else if f == 1 / 3.141592653589793 then 1 / 3
  else if f == 0.5 then 1 / 2 else -Real.log 3

theorem cauchyConstsP_example
    (h1 : (-(Float.log 3.141592653589793) == 3.141592653589793) = false)
    (h2 : (-(Float.log 3.141592653589793) == 1 / 3.141592653589793) = false)
    (h3 : (-(Float.log 3.141592653589793) == 0.5) = false) : CauchyConstsP eCauchy3 3 where
  p_pos := by norm_num
  p_le := le_of_lt Real.pi_gt_three
  hpi := by simp [eCauchy3, kc1]
  hinv := by simp [eCauchy3, kc2, kc3]
  hhalf := by simp [eCauchy3, kc4, kc5, kc6]
  hlog := by simp [eCauchy3, h1, h2, h3]

/-! ## LogTanh -/

section LogTanh
variable (e : Float → ℝ) (cut invCut alpha beta : Float)

/-- A1 forward: the exact run — total (no error branch), strict tests `x > ĉ`, then `x < −ĉ`, else `tanh` -/
theorem logTanhT_fwd_run (x : ℝ) :
    logTanhT (NF.realX e) cut invCut alpha beta false x
      = .ok (if e cut < x then (e alpha * Real.log (e beta * x), Real.log (e alpha / x))
             else if x < -e cut then (e alpha * -Real.log (-e beta * x), Real.log (-e alpha / x))
             else (Real.tanh x, Real.log (1 - Real.tanh x * Real.tanh x))) := by
  unfold logTanhT
  simp only [Bool.false_eq_true, if_false, XOps.gt, NF.realX_lt, NF.realX_ofFloat, NF.realX_neg, NF.realX_mul,
    NF.realX_log, NF.realX_div, NF.realX_sub, NF.realX_one, realX_tanh, decide_eq_true_eq]
  split_ifs <;> rfl

/-- A1 inverse: the exact run — total, tests `y > inv_cut`, then `y < −inv_cut`, else `artanh` as coded -/
theorem logTanhT_inv_run (y : ℝ) :
    logTanhT (NF.realX e) cut invCut alpha beta true y
      = .ok (if e invCut < y then
               (Real.exp (y / e alpha) / e beta, e (-(Float.log (alpha * beta))) + y / e alpha)
             else if y < -e invCut then
               (-Real.exp (-y / e alpha) / e beta, e (-(Float.log (alpha * beta))) - y / e alpha)
             else (e 0.5 * Real.log ((1 + y) / (1 - y)), -Real.log (1 - y * y))) := by
  unfold logTanhT
  simp only [if_true, XOps.gt, NF.realX_lt, NF.realX_ofFloat, NF.realX_neg, NF.realX_mul, NF.realX_add,
    NF.realX_log, NF.realX_div, NF.realX_sub, NF.realX_one, NF.realX_exp, decide_eq_true_eq]
  split_ifs <;> rfl

/-- C17: `LogTanh` has no error branch in either direction -/
theorem logTanhT_total (inverse : Bool) (x : ℝ) :
    ∃ p, logTanhT (NF.realX e) cut invCut alpha beta inverse x = .ok p := by
  cases inverse
  · exact ⟨_, logTanhT_fwd_run e cut invCut alpha beta x⟩
  · exact ⟨_, logTanhT_inv_run e cut invCut alpha beta x⟩

theorem logTanhT_fwd_hi (x : ℝ) (h : e cut < x) :
    logTanhT (NF.realX e) cut invCut alpha beta false x
      = .ok (e alpha * Real.log (e beta * x), Real.log (e alpha / x)) := by
  rw [logTanhT_fwd_run, if_pos h]

theorem logTanhT_fwd_lo (x : ℝ) (h1 : x ≤ e cut) (h2 : x < -e cut) :
    logTanhT (NF.realX e) cut invCut alpha beta false x
      = .ok (e alpha * -Real.log (-e beta * x), Real.log (-e alpha / x)) := by
  rw [logTanhT_fwd_run, if_neg (not_lt.mpr h1), if_pos h2]

theorem logTanhT_fwd_mid (x : ℝ) (h1 : x ≤ e cut) (h2 : -e cut ≤ x) :
    logTanhT (NF.realX e) cut invCut alpha beta false x
      = .ok (Real.tanh x, Real.log (1 - Real.tanh x * Real.tanh x)) := by
  rw [logTanhT_fwd_run, if_neg (not_lt.mpr h1), if_neg (not_lt.mpr h2)]

theorem logTanhT_inv_hi (y : ℝ) (h : e invCut < y) :
    logTanhT (NF.realX e) cut invCut alpha beta true y
      = .ok (Real.exp (y / e alpha) / e beta, e (-(Float.log (alpha * beta))) + y / e alpha) := by
  rw [logTanhT_inv_run, if_pos h]

theorem logTanhT_inv_lo (y : ℝ) (h1 : y ≤ e invCut) (h2 : y < -e invCut) :
    logTanhT (NF.realX e) cut invCut alpha beta true y
      = .ok (-Real.exp (-y / e alpha) / e beta, e (-(Float.log (alpha * beta))) - y / e alpha) := by
  rw [logTanhT_inv_run, if_neg (not_lt.mpr h1), if_pos h2]

theorem logTanhT_inv_mid (y : ℝ) (h1 : y ≤ e invCut) (h2 : -e invCut ≤ y) :
    logTanhT (NF.realX e) cut invCut alpha beta true y
      = .ok (e 0.5 * Real.log ((1 + y) / (1 - y)), -Real.log (1 - y * y)) := by
  rw [logTanhT_inv_run, if_neg (not_lt.mpr h1), if_neg (not_lt.mpr h2)]

/-- the readings of the constants of a `LogTanh` instance: cut point `c > 0`, `inv_cut = tanh c`, positive `alpha = a`,
    `beta = b`, the double `-np.log(alpha*beta)`, and the CONTINUITY condition `a log (b c) = tanh c` at the cut (which the
    constructor's `beta` satisfies over ℝ for every `a ≠ 0`: `Properties.C03.logtanh_tail_joins`).  No C¹ condition:
    see `kink` below. -/
structure LogTanhConsts (c a b : ℝ) : Prop where
  hcut : e cut = c
  hinv : e invCut = Real.tanh c
  halpha : e alpha = a
  hbeta : e beta = b
  hlog : e (-(Float.log (alpha * beta))) = -Real.log (a * b)
  hhalf : e 0.5 = 1 / 2
  c_pos : 0 < c
  a_pos : 0 < a
  b_pos : 0 < b
  join : a * Real.log (b * c) = Real.tanh c

variable {e cut invCut alpha beta} {c a b : ℝ}

/-! ### A2 (C01), forward, strictly inside each branch -/

theorem logTanhT_fwd_hi_hasDerivAt (h : LogTanhConsts e cut invCut alpha beta c a b) (x : ℝ) (hx : c < x) :
    HasDerivAt (fun s => outY (logTanhT (NF.realX e) cut invCut alpha beta false s))
      (Real.exp (outL (logTanhT (NF.realX e) cut invCut alpha beta false x))) x := by
  have hx0 : 0 < x := h.c_pos.trans hx
  have ha := h.a_pos; have hb := h.b_pos
  refine hasDerivAt_of_run (f := fun s => a * Real.log (b * s)) (l := fun s => Real.log (a / s)) (d := a / x) ?_ ?_ ?_
  · filter_upwards [Ioi_mem_nhds hx] with s hs
    rw [logTanhT_fwd_hi e cut invCut alpha beta s (by rw [h.hcut]; exact hs), h.halpha, h.hbeta]
  · have h1 : HasDerivAt (fun s : ℝ => b * s) (b * 1) x := (hasDerivAt_id x).const_mul b
    have h2 := (h1.log (mul_pos hb hx0).ne').const_mul a
    refine h2.congr_deriv ?_
    field_simp
  · exact Real.exp_log (div_pos ha hx0)

theorem logTanhT_fwd_lo_hasDerivAt (h : LogTanhConsts e cut invCut alpha beta c a b) (x : ℝ) (hx : x < -c) :
    HasDerivAt (fun s => outY (logTanhT (NF.realX e) cut invCut alpha beta false s))
      (Real.exp (outL (logTanhT (NF.realX e) cut invCut alpha beta false x))) x := by
  have hc := h.c_pos
  have hx0 : x < 0 := by linarith
  have ha := h.a_pos; have hb := h.b_pos
  refine hasDerivAt_of_run (f := fun s => a * -Real.log (-b * s)) (l := fun s => Real.log (-a / s)) (d := -a / x) ?_ ?_ ?_
  · filter_upwards [Iio_mem_nhds hx] with s hs
    have hs' : s < -c := hs
    rw [logTanhT_fwd_lo e cut invCut alpha beta s (by rw [h.hcut]; linarith) (by rw [h.hcut]; exact hs'),
      h.halpha, h.hbeta]
  · have h1 : HasDerivAt (fun s : ℝ => -b * s) (-b * 1) x := (hasDerivAt_id x).const_mul (-b)
    have hne : -b * x ≠ 0 := (mul_pos_of_neg_of_neg (by linarith) hx0).ne'
    have h2 := ((h1.log hne).neg).const_mul a
    refine h2.congr_deriv ?_
    have := hx0.ne
    field_simp
  · exact Real.exp_log (div_pos_of_neg_of_neg (by linarith) hx0)

theorem logTanhT_fwd_mid_hasDerivAt (h : LogTanhConsts e cut invCut alpha beta c a b) (x : ℝ) (h1 : -c < x) (h2 : x < c) :
    HasDerivAt (fun s => outY (logTanhT (NF.realX e) cut invCut alpha beta false s))
      (Real.exp (outL (logTanhT (NF.realX e) cut invCut alpha beta false x))) x := by
  refine hasDerivAt_of_run (f := Real.tanh) (l := fun s => Real.log (1 - Real.tanh s * Real.tanh s))
    (d := Real.exp (Real.log (1 - Real.tanh x ^ 2))) ?_ (Nonlin.tanh_deriv x) ?_
  · filter_upwards [Ioo_mem_nhds h1 h2] with s hs
    rw [logTanhT_fwd_mid e cut invCut alpha beta s (by rw [h.hcut]; exact hs.2.le) (by rw [h.hcut]; exact hs.1.le)]
  · show Real.exp (Real.log (1 - Real.tanh x * Real.tanh x)) = _
    rw [pow_two]

theorem tanh_strictMono : StrictMono Real.tanh := by
  refine strictMono_of_deriv_pos fun x => ?_
  rw [(Nonlin.tanh_deriv x).deriv]
  exact Real.exp_pos _

theorem tanh_pos {c : ℝ} (hc : 0 < c) : 0 < Real.tanh c := by
  have := tanh_strictMono hc
  rwa [Real.tanh_zero] at this

/-! ### A2 (C01), inverse, strictly inside each branch -/

theorem logTanhT_inv_hi_hasDerivAt (h : LogTanhConsts e cut invCut alpha beta c a b) (y : ℝ) (hy : Real.tanh c < y) :
    HasDerivAt (fun s => outY (logTanhT (NF.realX e) cut invCut alpha beta true s))
      (Real.exp (outL (logTanhT (NF.realX e) cut invCut alpha beta true y))) y := by
  have ha := h.a_pos; have hb := h.b_pos
  refine hasDerivAt_of_run (f := fun s => Real.exp (s / a) / b) (l := fun s => -Real.log (a * b) + s / a)
    (d := Real.exp (y / a) * (1 / a) / b) ?_ ?_ ?_
  · filter_upwards [Ioi_mem_nhds hy] with s hs
    rw [logTanhT_inv_hi e cut invCut alpha beta s (by rw [h.hinv]; exact hs), h.halpha, h.hbeta, h.hlog]
  · have h1 : HasDerivAt (fun s : ℝ => s / a) (1 / a) y := (hasDerivAt_id y).div_const a
    exact (h1.exp).div_const b
  · show Real.exp (-Real.log (a * b) + y / a) = _
    rw [Real.exp_add, Real.exp_neg, Real.exp_log (mul_pos ha hb)]
    field_simp

theorem logTanhT_inv_lo_hasDerivAt (h : LogTanhConsts e cut invCut alpha beta c a b) (y : ℝ) (hy : y < -Real.tanh c) :
    HasDerivAt (fun s => outY (logTanhT (NF.realX e) cut invCut alpha beta true s))
      (Real.exp (outL (logTanhT (NF.realX e) cut invCut alpha beta true y))) y := by
  have ha := h.a_pos; have hb := h.b_pos
  have htc : 0 < Real.tanh c := tanh_pos h.c_pos
  refine hasDerivAt_of_run (f := fun s => -Real.exp (-s / a) / b) (l := fun s => -Real.log (a * b) - s / a)
    (d := -(Real.exp (-y / a) * (-1 / a)) / b) ?_ ?_ ?_
  · filter_upwards [Iio_mem_nhds hy] with s hs
    have hs' : s < -Real.tanh c := hs
    rw [logTanhT_inv_lo e cut invCut alpha beta s (by rw [h.hinv]; linarith) (by rw [h.hinv]; exact hs'),
      h.halpha, h.hbeta, h.hlog]
  · have h1 : HasDerivAt (fun s : ℝ => -s / a) (-1 / a) y := ((hasDerivAt_id y).neg).div_const a
    exact ((h1.exp).neg).div_const b
  · show Real.exp (-Real.log (a * b) - y / a) = _
    have hexp : Real.exp (-y / a) = (Real.exp (y / a))⁻¹ := by rw [neg_div, Real.exp_neg]
    have := (Real.exp_pos (y / a)).ne'
    rw [Real.exp_sub, Real.exp_neg, Real.exp_log (mul_pos ha hb), hexp]
    field_simp

theorem logTanhT_inv_mid_hasDerivAt (h : LogTanhConsts e cut invCut alpha beta c a b) (y : ℝ)
    (h1 : -Real.tanh c < y) (h2 : y < Real.tanh c) :
    HasDerivAt (fun s => outY (logTanhT (NF.realX e) cut invCut alpha beta true s))
      (Real.exp (outL (logTanhT (NF.realX e) cut invCut alpha beta true y))) y := by
  have hy1 : y < 1 := h2.trans (Real.tanh_lt_one c)
  have hy2 : -1 < y := by linarith [Real.tanh_lt_one c]
  have hp1 : 0 < 1 - y := by linarith
  have hp2 : 0 < 1 + y := by linarith
  refine hasDerivAt_of_run (f := fun s => 1 / 2 * Real.log ((1 + s) / (1 - s))) (l := fun s => -Real.log (1 - s * s))
    (d := 1 / (1 - y * y)) ?_ ?_ ?_
  · filter_upwards [Ioo_mem_nhds h1 h2] with s hs
    rw [logTanhT_inv_mid e cut invCut alpha beta s (by rw [h.hinv]; exact hs.2.le) (by rw [h.hinv]; exact hs.1.le),
      h.hhalf]
  · have hn : HasDerivAt (fun s : ℝ => 1 + s) 1 y := (hasDerivAt_id y).const_add 1
    have hd : HasDerivAt (fun s : ℝ => 1 - s) (-1) y := (hasDerivAt_id y).const_sub 1
    have hq := hn.div hd hp1.ne'
    have hl := (hq.log (div_pos hp2 hp1).ne').const_mul (1 / 2)
    refine hl.congr_deriv ?_
    have : (1:ℝ) - y * y = (1 - y) * (1 + y) := by ring
    rw [this]
    simp only [Pi.div_apply]
    field_simp
    ring
  · show Real.exp (-Real.log (1 - y * y)) = _
    have : (0:ℝ) < 1 - y * y := by nlinarith
    rw [Real.exp_neg, Real.exp_log this, one_div]

/-! ### A3 (C02) -/

theorem tanh_le_of_le {x y : ℝ} (h : x ≤ y) : Real.tanh x ≤ Real.tanh y := tanh_strictMono.monotone h

/-- inverse ∘ forward, upper tail -/
theorem logTanhT_inv_fwd_hi (h : LogTanhConsts e cut invCut alpha beta c a b) (x y ld : ℝ) (hx : c < x)
    (hf : logTanhT (NF.realX e) cut invCut alpha beta false x = .ok (y, ld)) :
    logTanhT (NF.realX e) cut invCut alpha beta true y = .ok (x, -ld) := by
  have ha := h.a_pos; have hb := h.b_pos; have hc := h.c_pos
  have hx0 : 0 < x := hc.trans hx
  rw [logTanhT_fwd_hi e cut invCut alpha beta x (by rw [h.hcut]; exact hx), h.halpha, h.hbeta] at hf
  injection hf with hf
  injection hf with hy hl
  subst hy hl
  have hlt : Real.tanh c < a * Real.log (b * x) := by
    rw [← h.join]
    exact mul_lt_mul_of_pos_left (Real.log_lt_log (mul_pos hb hc) (mul_lt_mul_of_pos_left hx hb)) ha
  rw [logTanhT_inv_hi e cut invCut alpha beta _ (by rw [h.hinv]; exact hlt), h.halpha, h.hbeta, h.hlog]
  have h1 : a * Real.log (b * x) / a = Real.log (b * x) := by field_simp
  rw [h1, Real.exp_log (mul_pos hb hx0), Real.log_mul ha.ne' hb.ne', Real.log_mul hb.ne' hx0.ne',
    Real.log_div ha.ne' hx0.ne']
  congr 2
  · field_simp
  · ring

/-- inverse ∘ forward, lower tail -/
theorem logTanhT_inv_fwd_lo (h : LogTanhConsts e cut invCut alpha beta c a b) (x y ld : ℝ) (hx : x < -c)
    (hf : logTanhT (NF.realX e) cut invCut alpha beta false x = .ok (y, ld)) :
    logTanhT (NF.realX e) cut invCut alpha beta true y = .ok (x, -ld) := by
  have ha := h.a_pos; have hb := h.b_pos; have hc := h.c_pos
  have hx0 : x < 0 := by linarith
  have htc : 0 < Real.tanh c := tanh_pos hc
  rw [logTanhT_fwd_lo e cut invCut alpha beta x (by rw [h.hcut]; linarith) (by rw [h.hcut]; exact hx),
    h.halpha, h.hbeta] at hf
  injection hf with hf
  injection hf with hy hl
  subst hy hl
  have hbx : 0 < -b * x := mul_pos_of_neg_of_neg (by linarith) hx0
  have hlt : a * -Real.log (-b * x) < -Real.tanh c := by
    rw [← h.join, mul_neg, neg_lt_neg_iff]
    refine mul_lt_mul_of_pos_left (Real.log_lt_log (mul_pos hb hc) ?_) ha
    nlinarith
  rw [logTanhT_inv_lo e cut invCut alpha beta _ (by rw [h.hinv]; linarith) (by rw [h.hinv]; exact hlt),
    h.halpha, h.hbeta, h.hlog]
  have h1 : -(a * -Real.log (-b * x)) / a = Real.log (-b * x) := by field_simp
  have h2 : a * -Real.log (-b * x) / a = -Real.log (-b * x) := by field_simp
  have hnx : 0 < -x := by linarith
  rw [h1, h2, Real.exp_log hbx, Real.log_mul ha.ne' hb.ne',
    show -b * x = b * -x by ring, Real.log_mul hb.ne' hnx.ne',
    show -a / x = a / -x by rw [div_neg, neg_div], Real.log_div ha.ne' hnx.ne']
  congr 2
  · field_simp
  · ring

/-- inverse ∘ forward, middle branch (cut points included: the tests are strict) -/
theorem logTanhT_inv_fwd_mid (h : LogTanhConsts e cut invCut alpha beta c a b) (x y ld : ℝ) (h1 : -c ≤ x) (h2 : x ≤ c)
    (hf : logTanhT (NF.realX e) cut invCut alpha beta false x = .ok (y, ld)) :
    logTanhT (NF.realX e) cut invCut alpha beta true y = .ok (x, -ld) := by
  rw [logTanhT_fwd_mid e cut invCut alpha beta x (by rw [h.hcut]; exact h2) (by rw [h.hcut]; exact h1)] at hf
  injection hf with hf
  injection hf with hy hl
  subst hy hl
  have hle : Real.tanh x ≤ Real.tanh c := tanh_le_of_le h2
  have hge : -Real.tanh c ≤ Real.tanh x := by
    rw [← Real.tanh_neg]; exact tanh_le_of_le h1
  rw [logTanhT_inv_mid e cut invCut alpha beta _ (by rw [h.hinv]; exact hle) (by rw [h.hinv]; exact hge), h.hhalf]
  have := Nonlin.tanh_inv_fwd x
  unfold Nonlin.artanhCode at this
  rw [show (1 / 2 : ℝ) = 0.5 by norm_num, this]

/-- **A3, inverse ∘ forward, every real input** -/
theorem logTanhT_inv_fwd (h : LogTanhConsts e cut invCut alpha beta c a b) (x y ld : ℝ)
    (hf : logTanhT (NF.realX e) cut invCut alpha beta false x = .ok (y, ld)) :
    logTanhT (NF.realX e) cut invCut alpha beta true y = .ok (x, -ld) := by
  rcases lt_or_ge c x with hx | hx
  · exact logTanhT_inv_fwd_hi h x y ld hx hf
  · rcases lt_or_ge x (-c) with hx' | hx'
    · exact logTanhT_inv_fwd_lo h x y ld hx' hf
    · exact logTanhT_inv_fwd_mid h x y ld hx' hx hf

/-! ### A3 (C02), forward ∘ inverse -/

theorem log_bc (h : LogTanhConsts e cut invCut alpha beta c a b) : Real.log (b * c) = Real.tanh c / a := by
  rw [← h.join]; have := h.a_pos.ne'; field_simp

theorem logTanhT_fwd_inv_hi (h : LogTanhConsts e cut invCut alpha beta c a b) (y x ld : ℝ) (hy : Real.tanh c < y)
    (hi : logTanhT (NF.realX e) cut invCut alpha beta true y = .ok (x, ld)) :
    logTanhT (NF.realX e) cut invCut alpha beta false x = .ok (y, -ld) := by
  have ha := h.a_pos; have hb := h.b_pos; have hc := h.c_pos
  rw [logTanhT_inv_hi e cut invCut alpha beta y (by rw [h.hinv]; exact hy), h.halpha, h.hbeta, h.hlog] at hi
  injection hi with hi
  injection hi with hx hl
  subst hx hl
  have hE := Real.exp_pos (y / a)
  have hgt : c < Real.exp (y / a) / b := by
    rw [lt_div_iff₀ hb, mul_comm, ← Real.exp_log (mul_pos hb hc), log_bc h]
    exact Real.exp_lt_exp.mpr (div_lt_div_of_pos_right hy ha)
  rw [logTanhT_fwd_hi e cut invCut alpha beta _ (by rw [h.hcut]; exact hgt), h.halpha, h.hbeta]
  have h1 : b * (Real.exp (y / a) / b) = Real.exp (y / a) := by field_simp
  have h2 : a / (Real.exp (y / a) / b) = a * b / Real.exp (y / a) := by field_simp
  rw [h1, h2, Real.log_exp, Real.log_div (mul_pos ha hb).ne' hE.ne', Real.log_exp]
  congr 2
  · field_simp
  · ring

theorem logTanhT_fwd_inv_lo (h : LogTanhConsts e cut invCut alpha beta c a b) (y x ld : ℝ) (hy : y < -Real.tanh c)
    (hi : logTanhT (NF.realX e) cut invCut alpha beta true y = .ok (x, ld)) :
    logTanhT (NF.realX e) cut invCut alpha beta false x = .ok (y, -ld) := by
  have ha := h.a_pos; have hb := h.b_pos; have hc := h.c_pos
  have htc := tanh_pos hc
  rw [logTanhT_inv_lo e cut invCut alpha beta y (by rw [h.hinv]; linarith) (by rw [h.hinv]; exact hy),
    h.halpha, h.hbeta, h.hlog] at hi
  injection hi with hi
  injection hi with hx hl
  subst hx hl
  have hE := Real.exp_pos (-y / a)
  have hgt : c < Real.exp (-y / a) / b := by
    rw [lt_div_iff₀ hb, mul_comm, ← Real.exp_log (mul_pos hb hc), log_bc h]
    exact Real.exp_lt_exp.mpr (div_lt_div_of_pos_right (by linarith) ha)
  have hlt : -Real.exp (-y / a) / b < -c := by rw [neg_div]; linarith
  rw [logTanhT_fwd_lo e cut invCut alpha beta _ (by rw [h.hcut]; linarith) (by rw [h.hcut]; exact hlt),
    h.halpha, h.hbeta]
  have h1 : -b * (-Real.exp (-y / a) / b) = Real.exp (-y / a) := by field_simp
  have h2 : -a / (-Real.exp (-y / a) / b) = a * b / Real.exp (-y / a) := by field_simp
  rw [h1, h2, Real.log_exp, Real.log_div (mul_pos ha hb).ne' hE.ne', Real.log_exp]
  congr 2
  · field_simp
  · ring

theorem tanh_half_log {y : ℝ} (h1 : -1 < y) (h2 : y < 1) :
    Real.tanh (1 / 2 * Real.log ((1 + y) / (1 - y))) = y := by
  rw [← Real.artanh_eq_half_log ⟨h1.le, h2.le⟩, Real.tanh_artanh ⟨h1, h2⟩]

theorem logTanhT_fwd_inv_mid (h : LogTanhConsts e cut invCut alpha beta c a b) (y x ld : ℝ)
    (h1 : -Real.tanh c ≤ y) (h2 : y ≤ Real.tanh c)
    (hi : logTanhT (NF.realX e) cut invCut alpha beta true y = .ok (x, ld)) :
    logTanhT (NF.realX e) cut invCut alpha beta false x = .ok (y, -ld) := by
  rw [logTanhT_inv_mid e cut invCut alpha beta y (by rw [h.hinv]; exact h2) (by rw [h.hinv]; exact h1), h.hhalf] at hi
  injection hi with hi
  injection hi with hx hl
  subst hx hl
  have hy1 : y < 1 := h2.trans_lt (Real.tanh_lt_one c)
  have hy2 : -1 < y := by linarith [Real.tanh_lt_one c]
  have ht := tanh_half_log hy2 hy1
  have hle : 1 / 2 * Real.log ((1 + y) / (1 - y)) ≤ c := by
    rw [← tanh_strictMono.le_iff_le, ht]; exact h2
  have hge : -c ≤ 1 / 2 * Real.log ((1 + y) / (1 - y)) := by
    rw [← tanh_strictMono.le_iff_le, ht, Real.tanh_neg]; exact h1
  rw [logTanhT_fwd_mid e cut invCut alpha beta _ (by rw [h.hcut]; exact hle) (by rw [h.hcut]; exact hge), ht, neg_neg]

/-- **A3, forward ∘ inverse, every real input** -/
theorem logTanhT_fwd_inv (h : LogTanhConsts e cut invCut alpha beta c a b) (y x ld : ℝ)
    (hi : logTanhT (NF.realX e) cut invCut alpha beta true y = .ok (x, ld)) :
    logTanhT (NF.realX e) cut invCut alpha beta false x = .ok (y, -ld) := by
  rcases lt_or_ge (Real.tanh c) y with hy | hy
  · exact logTanhT_fwd_inv_hi h y x ld hy hi
  · rcases lt_or_ge y (-Real.tanh c) with hy' | hy'
    · exact logTanhT_fwd_inv_lo h y x ld hy' hi
    · exact logTanhT_fwd_inv_mid h y x ld hy' hy hi

/-! ### the cut point: one-sided derivatives, and the KINK of the library's constants

At `x = ±c` the tests are strict, so the run takes the middle branch and returns the log-det `log (1 − tanh² c)`.
The executed forward value map has right derivative `a / c` and left derivative `1 − tanh² c` at `c`; it is differentiable
there iff `a = c (1 − tanh² c)`.  The constructor's `alpha = (1 − tanh (tanh c)) / c` (nonlinearities.py:69, with the doubled
`np.tanh(np.tanh(cut_point))` and a division instead of a multiplication) does NOT satisfy this: see `lib_alpha_kink_one`
(default `cut_point = 1`) and `lib_alpha_kink_small` (`0 < c ≤ 3/5`).  The docstring "alpha and beta are set to match the
value and the first derivative of tanh at cut_point" is therefore false of the library: only the value matches. -/

theorem logTanhT_fwd_at_cut (h : LogTanhConsts e cut invCut alpha beta c a b) :
    logTanhT (NF.realX e) cut invCut alpha beta false c = .ok (Real.tanh c, Real.log (1 - Real.tanh c * Real.tanh c)) :=
  logTanhT_fwd_mid e cut invCut alpha beta c (by rw [h.hcut]) (by rw [h.hcut]; linarith [h.c_pos])

/-- right derivative of the executed forward value at the cut: `a / c` -/
theorem logTanhT_fwd_right_deriv_at_cut (h : LogTanhConsts e cut invCut alpha beta c a b) :
    HasDerivWithinAt (fun s => outY (logTanhT (NF.realX e) cut invCut alpha beta false s)) (a / c) (Ici c) c := by
  have ha := h.a_pos; have hb := h.b_pos; have hc := h.c_pos
  have h1 : HasDerivAt (fun s : ℝ => b * s) (b * 1) c := (hasDerivAt_id c).const_mul b
  have h2 := (h1.log (mul_pos hb hc).ne').const_mul a
  have h3 : HasDerivAt (fun s : ℝ => a * Real.log (b * s)) (a / c) c := by
    refine h2.congr_deriv ?_
    field_simp
  refine h3.hasDerivWithinAt.congr ?_ ?_
  · intro s hs
    rcases (show c ≤ s from hs).lt_or_eq with hs | hs
    · rw [logTanhT_fwd_hi e cut invCut alpha beta s (by rw [h.hcut]; exact hs), h.halpha, h.hbeta]; rfl
    · rw [← hs, logTanhT_fwd_at_cut h, outY_ok, h.join]
  · rw [logTanhT_fwd_at_cut h, outY_ok, h.join]

/-- left derivative of the executed forward value at the cut: `1 − tanh² c` -/
theorem logTanhT_fwd_left_deriv_at_cut (h : LogTanhConsts e cut invCut alpha beta c a b) :
    HasDerivWithinAt (fun s => outY (logTanhT (NF.realX e) cut invCut alpha beta false s)) (1 - Real.tanh c ^ 2) (Iic c) c := by
  have hc := h.c_pos
  have h0 := Nonlin.tanh_deriv c
  rw [Real.exp_log (by linarith [Real.tanh_sq_lt_one c])] at h0
  have h1 : HasDerivWithinAt (fun s => outY (logTanhT (NF.realX e) cut invCut alpha beta false s)) (1 - Real.tanh c ^ 2)
      (Icc (-c) c) c := by
    refine h0.hasDerivWithinAt.congr ?_ ?_
    · intro s hs
      rw [logTanhT_fwd_mid e cut invCut alpha beta s (by rw [h.hcut]; exact hs.2) (by rw [h.hcut]; exact hs.1)]; rfl
    · rw [logTanhT_fwd_at_cut h]; rfl
  exact h1.mono_of_mem_nhdsWithin (Icc_mem_nhdsLE (by linarith))

/-- the returned log-det at the cut is the log of the LEFT derivative -/
theorem logTanhT_fwd_ld_at_cut (h : LogTanhConsts e cut invCut alpha beta c a b) :
    Real.exp (outL (logTanhT (NF.realX e) cut invCut alpha beta false c)) = 1 - Real.tanh c ^ 2 := by
  rw [logTanhT_fwd_at_cut h, outL_ok]
  show Real.exp (Real.log (1 - Real.tanh c * Real.tanh c)) = _
  rw [← pow_two, Real.exp_log (by linarith [Real.tanh_sq_lt_one c])]

/-- **at the cut the executed forward map is differentiable iff `a / c = 1 − tanh² c`** (the C¹ matching condition),
    and then `exp` of the returned log-det is its derivative -/
theorem logTanhT_fwd_differentiableAt_cut_iff (h : LogTanhConsts e cut invCut alpha beta c a b) :
    DifferentiableAt ℝ (fun s => outY (logTanhT (NF.realX e) cut invCut alpha beta false s)) c
      ↔ a / c = 1 - Real.tanh c ^ 2 := by
  constructor
  · intro hd
    have hd' := hd.hasDerivAt
    have e1 := (uniqueDiffWithinAt_Ici c).eq_deriv _ hd'.hasDerivWithinAt (logTanhT_fwd_right_deriv_at_cut h)
    have e2 := (uniqueDiffWithinAt_Iic c).eq_deriv _ hd'.hasDerivWithinAt (logTanhT_fwd_left_deriv_at_cut h)
    rw [← e1, ← e2]
  · intro hk
    have hr := logTanhT_fwd_right_deriv_at_cut h
    rw [hk] at hr
    have hu := (logTanhT_fwd_left_deriv_at_cut h).union hr
    rw [Iic_union_Ici, hasDerivWithinAt_univ] at hu
    exact hu.differentiableAt

theorem logTanhT_fwd_cut_hasDerivAt (h : LogTanhConsts e cut invCut alpha beta c a b) (hk : a / c = 1 - Real.tanh c ^ 2) :
    HasDerivAt (fun s => outY (logTanhT (NF.realX e) cut invCut alpha beta false s))
      (Real.exp (outL (logTanhT (NF.realX e) cut invCut alpha beta false c))) c := by
  rw [logTanhT_fwd_ld_at_cut h]
  have hr := logTanhT_fwd_right_deriv_at_cut h
  rw [hk] at hr
  have hu := (logTanhT_fwd_left_deriv_at_cut h).union hr
  rwa [Iic_union_Ici, hasDerivWithinAt_univ] at hu

/-- FINDING, forced-hypothesis form: when `a / c ≠ 1 − tanh² c` the forward map has a kink at the cut: it has no derivative
    there, so the returned log-det at `x = c` is the log of a one-sided derivative only -/
theorem logTanhT_fwd_kink (h : LogTanhConsts e cut invCut alpha beta c a b) (hk : a / c ≠ 1 - Real.tanh c ^ 2) :
    ¬ DifferentiableAt ℝ (fun s => outY (logTanhT (NF.realX e) cut invCut alpha beta false s)) c :=
  fun hd => hk ((logTanhT_fwd_differentiableAt_cut_iff h).1 hd)

/-! ### the library's `alpha = (1 − tanh (tanh c)) / c` over ℝ is not the C¹-matching `c (1 − tanh² c)` -/

theorem tanh_eq_exp_two (x : ℝ) : Real.tanh x = (Real.exp (2 * x) - 1) / (Real.exp (2 * x) + 1) := by
  have he : Real.exp (2 * x) = Real.exp x * Real.exp x := by rw [← Real.exp_add]; ring_nf
  have hp := Real.exp_pos x
  rw [Real.tanh_eq, he, Real.exp_neg]
  field_simp

theorem tanh_le_self {x : ℝ} (hx : 0 ≤ x) : Real.tanh x ≤ x := by
  have hd : ∀ y : ℝ, HasDerivAt (fun s => s - Real.tanh s) (1 - (1 - Real.tanh y ^ 2)) y := by
    intro y
    have h0 := Nonlin.tanh_deriv y
    rw [Real.exp_log (by linarith [Real.tanh_sq_lt_one y])] at h0
    exact (hasDerivAt_id y).sub h0
  have hm : Monotone (fun s => s - Real.tanh s) := by
    refine monotone_of_deriv_nonneg (fun y => (hd y).differentiableAt) fun y => ?_
    rw [(hd y).deriv]
    nlinarith [sq_nonneg (Real.tanh y)]
  have := hm hx
  simp only [Real.tanh_zero, sub_zero] at this
  linarith

/-- for every cut point `0 < c ≤ 3/5` the library's alpha gives a right slope `alpha / c > 1 > 1 − tanh² c` -/
theorem lib_alpha_kink_small {c : ℝ} (hc : 0 < c) (hc' : c ≤ 3 / 5) :
    (1 - Real.tanh (Real.tanh c)) / c / c ≠ 1 - Real.tanh c ^ 2 := by
  have ht := tanh_pos hc
  have h1 : Real.tanh (Real.tanh c) ≤ c := (tanh_le_self ht.le).trans (tanh_le_self hc.le)
  have h2 : 1 ≤ (1 - Real.tanh (Real.tanh c)) / c / c := by
    rw [div_div, le_div_iff₀ (mul_pos hc hc)]
    nlinarith
  have h3 : 1 - Real.tanh c ^ 2 < 1 := by nlinarith
  linarith

theorem tanh_one_bounds : 3 / 4 < Real.tanh 1 ∧ Real.tanh 1 < 77 / 100 := by
  have hE : Real.exp (2 * 1) = Real.exp 1 * Real.exp 1 := by rw [← Real.exp_add]; norm_num
  have g := Real.exp_one_gt_d9
  have l := Real.exp_one_lt_d9
  have hp : 0 < Real.exp (2 * 1) + 1 := by positivity
  rw [tanh_eq_exp_two, hE] at *
  constructor
  · rw [lt_div_iff₀ hp]; nlinarith
  · rw [div_lt_iff₀ hp]; nlinarith

/-- at the DEFAULT cut point `c = 1`: `tanh (tanh 1) > tanh² 1` (≈ 0.642 vs 0.580), so the library's
    `alpha / c = 1 − tanh (tanh 1) ≈ 0.358` is not the slope `1 − tanh² 1 ≈ 0.420` of `tanh` at the cut -/
theorem tanh_tanh_one_gt : Real.tanh 1 ^ 2 < Real.tanh (Real.tanh 1) := by
  obtain ⟨b1, b2⟩ := tanh_one_bounds
  set t := Real.tanh 1 with ht
  have hE : 4 < Real.exp (2 * t) := by
    have h32 : Real.exp (3 / 2) ≤ Real.exp (2 * t) := Real.exp_le_exp.mpr (by linarith)
    have h3 : Real.exp (3 / 2) * Real.exp (3 / 2) = Real.exp 1 * Real.exp 1 * Real.exp 1 := by
      rw [← Real.exp_add, ← Real.exp_add, ← Real.exp_add]; norm_num
    have g := Real.exp_one_gt_d9
    have hpos := Real.exp_pos (3 / 2)
    have : 16 < Real.exp (3 / 2) * Real.exp (3 / 2) := by
      rw [h3]
      have : (2.7:ℝ) < Real.exp 1 := by linarith
      have h2 : (2.7:ℝ) * 2.7 < Real.exp 1 * Real.exp 1 := by nlinarith
      nlinarith
    nlinarith
  have ht2 : t ^ 2 < 0.5929 := by nlinarith
  have hprod : 0 < (Real.exp (2 * t) - 4) * (0.5929 - t ^ 2) := mul_pos (by linarith) (by linarith)
  rw [tanh_eq_exp_two t, lt_div_iff₀ (by positivity)]
  nlinarith

theorem lib_alpha_kink_one : (1 - Real.tanh (Real.tanh 1)) / 1 / 1 ≠ 1 - Real.tanh 1 ^ 2 := by
  have := tanh_tanh_one_gt
  rw [div_one, div_one]
  linarith

/-! ### the constructor's constants over ℝ, and the kink for them -/

/-- `alpha` of `LogTanh.__init__` over ℝ, as coded -/
def aLib (c : ℝ) : ℝ := (1 - Real.tanh (Real.tanh c)) / c
/-- `beta` of `LogTanh.__init__` over ℝ, as coded -/
def bLib (c : ℝ) : ℝ := Real.exp ((Real.tanh c - aLib c * Real.log c) / aLib c)

theorem aLib_pos {c : ℝ} (hc : 0 < c) : 0 < aLib c :=
  div_pos (by linarith [Real.tanh_lt_one (Real.tanh c)]) hc

theorem bLib_pos (c : ℝ) : 0 < bLib c := Real.exp_pos _

/-- the constructor's `beta` makes the tail join `tanh` continuously at the cut (for the constructor's, and any nonzero, alpha) -/
theorem lib_join {c : ℝ} (hc : 0 < c) : aLib c * Real.log (bLib c * c) = Real.tanh c := by
  have ha := (aLib_pos hc).ne'
  unfold bLib
  rw [Real.log_mul (Real.exp_pos _).ne' hc.ne', Real.log_exp]
  field_simp
  ring

/-- for the constructor's ideal constants the bundle reduces to the six readings -/
theorem LogTanhConsts.of_lib {c : ℝ} (hc : 0 < c) (hcut : e cut = c) (hinv : e invCut = Real.tanh c)
    (halpha : e alpha = aLib c) (hbeta : e beta = bLib c)
    (hlog : e (-(Float.log (alpha * beta))) = -Real.log (aLib c * bLib c)) (hhalf : e 0.5 = 1 / 2) :
    LogTanhConsts e cut invCut alpha beta c (aLib c) (bLib c) :=
  ⟨hcut, hinv, halpha, hbeta, hlog, hhalf, hc, aLib_pos hc, bLib_pos c, lib_join hc⟩

/-- **FINDING (library, default `cut_point = 1`)**: with the constructor's constants read exactly, the executed forward
    map is NOT differentiable at the cut point: right slope `1 − tanh (tanh 1) ≈ 0.358`, left slope `1 − tanh² 1 ≈ 0.420`;
    the returned log-det at `x = 1` is the log of the left slope. -/
theorem logTanhT_lib_kink_one (h : LogTanhConsts e cut invCut alpha beta 1 (aLib 1) (bLib 1)) :
    ¬ DifferentiableAt ℝ (fun s => outY (logTanhT (NF.realX e) cut invCut alpha beta false s)) 1 :=
  logTanhT_fwd_kink h lib_alpha_kink_one

/-- … and for every cut point `0 < c ≤ 3/5` -/
theorem logTanhT_lib_kink_small {c : ℝ} (hc' : c ≤ 3 / 5) (h : LogTanhConsts e cut invCut alpha beta c (aLib c) (bLib c)) :
    ¬ DifferentiableAt ℝ (fun s => outY (logTanhT (NF.realX e) cut invCut alpha beta false s)) c :=
  logTanhT_fwd_kink h (lib_alpha_kink_small h.c_pos hc')

/-! ### non-vacuity of `LogTanhConsts`, with LITERAL doubles (those numpy computes for `cut_point = 1`) and the
constructor's ideal reals.  As for `CauchyConsts`, the key `-(Float.log (alpha * beta))` is kernel-opaque, so the witness is
conditional on its being a different double from the five literal keys; by evaluation
`#eval -(Float.log (0.35798500798800026 * 8.393411634737944))` is `-1.1001828983175326`, so all five tests are `false`. -/

/-- a reading of the doubles that is ideal on the six `LogTanh(cut_point=1)` constants -/
def eLT (f : Float) : ℝ :=
  if f == 1.0 then 1
  else if f == 0.7615941559557649 then Real.tanh 1
  else if f == 0.35798500798800026 then aLib 1
  else if f == 8.393411634737944 then bLib 1
  else if f == 0.5 then 1 / 2 else -Real.log (aLib 1 * bLib 1)

private theorem kl00 : ((1.0 : Float) == 1.0) = true := by decide +kernel
private theorem kl10 : ((0.7615941559557649 : Float) == 1.0) = false := by decide +kernel
private theorem kl11 : ((0.7615941559557649 : Float) == 0.7615941559557649) = true := by decide +kernel
private theorem kl20 : ((0.35798500798800026 : Float) == 1.0) = false := by decide +kernel
private theorem kl21 : ((0.35798500798800026 : Float) == 0.7615941559557649) = false := by decide +kernel
private theorem kl22 : ((0.35798500798800026 : Float) == 0.35798500798800026) = true := by decide +kernel
private theorem kl30 : ((8.393411634737944 : Float) == 1.0) = false := by decide +kernel
private theorem kl31 : ((8.393411634737944 : Float) == 0.7615941559557649) = false := by decide +kernel
private theorem kl32 : ((8.393411634737944 : Float) == 0.35798500798800026) = false := by decide +kernel
private theorem kl33 : ((8.393411634737944 : Float) == 8.393411634737944) = true := by decide +kernel
private theorem kl40 : ((0.5 : Float) == 1.0) = false := by decide +kernel
private theorem kl41 : ((0.5 : Float) == 0.7615941559557649) = false := by decide +kernel
private theorem kl42 : ((0.5 : Float) == 0.35798500798800026) = false := by decide +kernel
private theorem kl43 : ((0.5 : Float) == 8.393411634737944) = false := by decide +kernel
private theorem kl44 : ((0.5 : Float) == 0.5) = true := by decide +kernel

theorem logTanhConsts_example
    (h1 : (-(Float.log (0.35798500798800026 * 8.393411634737944)) == 1.0) = false)
    (h2 : (-(Float.log (0.35798500798800026 * 8.393411634737944)) == 0.7615941559557649) = false)
    (h3 : (-(Float.log (0.35798500798800026 * 8.393411634737944)) == 0.35798500798800026) = false)
    (h4 : (-(Float.log (0.35798500798800026 * 8.393411634737944)) == 8.393411634737944) = false)
    (h5 : (-(Float.log (0.35798500798800026 * 8.393411634737944)) == 0.5) = false) :
    LogTanhConsts eLT 1.0 0.7615941559557649 0.35798500798800026 8.393411634737944 1 (aLib 1) (bLib 1) := by
  refine LogTanhConsts.of_lib one_pos ?_ ?_ ?_ ?_ ?_ ?_
  · simp [eLT, kl00]
  · simp [eLT, kl10, kl11]
  · simp [eLT, kl20, kl21, kl22]
  · simp [eLT, kl30, kl31, kl32, kl33]
  · simp [eLT, h1, h2, h3, h4, h5]
  · simp [eLT, kl40, kl41, kl42, kl43, kl44]


/-! ### the dispatcher -/

theorem nonlinEl_cauchy (ds : Array Float) (ps : List ℝ) (inverse : Bool) (x : ℝ) :
    nonlinEl (NF.realX e) "CauchyCDF" ds ps inverse x = cauchyT (NF.realX e) inverse x := rfl

theorem nonlinEl_cauchyInverse (ds : Array Float) (ps : List ℝ) (inverse : Bool) (x : ℝ) :
    nonlinEl (NF.realX e) "CauchyCDFInverse" ds ps inverse x = cauchyT (NF.realX e) (!inverse) x := rfl

theorem nonlinEl_logTanh (ds : Array Float) (ps : List ℝ) (inverse : Bool) (x : ℝ) :
    nonlinEl (NF.realX e) "LogTanh" ds ps inverse x
      = logTanhT (NF.realX e) (ds.getD 0 0.0) (logTanhConsts (ds.getD 0 0.0)).1 (logTanhConsts (ds.getD 0 0.0)).2.1
          (logTanhConsts (ds.getD 0 0.0)).2.2 inverse x := rfl

end LogTanh

end
end NonlinExec
