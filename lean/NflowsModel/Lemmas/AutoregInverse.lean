import Mathlib.Tactic

namespace AutoregInverse

/-! generic autoregressive inverse (autoregressive.py:43-52): D passes are exact -/
variable {n : ℕ} {X P : Type}

/-- conditioner is strictly autoregressive: output i only looks at coordinates < i (C06) -/
def StrictAR (g : (Fin n → X) → Fin n → P) : Prop :=
  ∀ x x' i, (∀ j, j < i → x j = x' j) → g x i = g x' i

def arForward (g : (Fin n → X) → Fin n → P) (f : P → X → X) (x : Fin n → X) : Fin n → X :=
  fun i => f (g x i) (x i)

/-- one pass of the inverse loop -/
def arPass (g : (Fin n → X) → Fin n → P) (finv : P → X → X) (y : Fin n → X) (cur : Fin n → X) : Fin n → X :=
  fun i => finv (g cur i) (y i)

def arIter (g : (Fin n → X) → Fin n → P) (finv : P → X → X) (y : Fin n → X) (z0 : Fin n → X) : ℕ → (Fin n → X)
  | 0 => z0
  | k+1 => arPass g finv y (arIter g finv y z0 k)

theorem arIter_prefix (g : (Fin n → X) → Fin n → P) (f finv : P → X → X)
    (hg : StrictAR g) (hinv : ∀ p x, finv p (f p x) = x) (x z0 : Fin n → X) (k : ℕ) :
    ∀ i : Fin n, (i : ℕ) < k → arIter g finv (arForward g f x) z0 k i = x i := by
  induction k with
  | zero => intro i hi; exact absurd hi (Nat.not_lt_zero _)
  | succ k ih =>
    intro i hi
    simp only [arIter, arPass, arForward]
    have : g (arIter g finv (arForward g f x) z0 k) i = g x i := by
      apply hg
      intro j hj
      exact ih j (by have : (j : ℕ) < i := hj; omega)
    rw [this, hinv]

/-- after n passes the inverse is exact, from any starting point (the code starts from zeros) -/
theorem autoregressive_inverse_exact (g : (Fin n → X) → Fin n → P) (f finv : P → X → X)
    (hg : StrictAR g) (hinv : ∀ p x, finv p (f p x) = x) (x z0 : Fin n → X) :
    arIter g finv (arForward g f x) z0 n = x := by
  funext i; exact arIter_prefix g f finv hg hinv x z0 n i i.isLt

/-- and the parameters used by the last pass (for the log-det) are the forward parameters -/
theorem last_pass_params (g : (Fin n → X) → Fin n → P) (f finv : P → X → X)
    (hg : StrictAR g) (hinv : ∀ p x, finv p (f p x) = x) (x z0 : Fin n → X) (hn : 0 < n) :
    g (arIter g finv (arForward g f x) z0 (n-1)) = g x := by
  funext i
  apply hg
  intro j hj
  exact arIter_prefix g f finv hg hinv x z0 (n-1) j (by have : (j:ℕ) < i := hj; have := i.isLt; omega)


end AutoregInverse
