import NflowsModel.Core.Nonlin
import NflowsModel.Real.RealX
import NflowsModel.Lemmas.Nonlin
import Mathlib.Analysis.SpecialFunctions.Trigonometric.DerivHyp
import Mathlib.Analysis.SpecialFunctions.Log.Basic
import Mathlib.Tactic
/-!
# Lemmas/TanhStable — the stable form of `log (1 - tanh² x)` that `Tanh.forward` uses after the fix, and the executed
`tanhT` at the reals
-/
open NF

namespace TanhStable

theorem one_sub_tanh_sq (x : ℝ) : 1 - Real.tanh x ^ 2 = 1 / Real.cosh x ^ 2 := by
  have hc : Real.cosh x ≠ 0 := (Real.cosh_pos x).ne'
  rw [Real.tanh_eq_sinh_div_cosh]
  field_simp
  nlinarith [Real.cosh_sq x]

theorem cosh_eq_exp (x : ℝ) : Real.cosh x = Real.exp x * (1 + Real.exp (-2 * x)) / 2 := by
  rw [Real.cosh_eq]
  have : Real.exp x * Real.exp (-2 * x) = Real.exp (-x) := by
    rw [← Real.exp_add]; congr 1; ring
  rw [mul_add, mul_one, this]

/-- `2 (log 2 − x − log (1 + e^{−2x})) = log (1 − tanh² x)` for every real `x` -/
theorem stable_eq (x : ℝ) :
    2 * (Real.log 2 - x - Real.log (1 + Real.exp (-2 * x))) = Real.log (1 - Real.tanh x ^ 2) := by
  have hp : 0 < 1 + Real.exp (-2 * x) := by positivity
  rw [one_sub_tanh_sq, one_div, Real.log_inv, Real.log_pow, cosh_eq_exp,
    Real.log_div (by positivity) (by norm_num), Real.log_mul (Real.exp_pos x).ne' hp.ne', Real.log_exp]
  push_cast
  ring

variable (e : Float → ℝ)

/-- **executed `Tanh.forward` over the reals** (below the `softplus` threshold, i.e. `x ≥ −10`): the program returns
    `(tanh x, log (1 − tanh² x))`, whose `exp` is the derivative of `tanh` -/
theorem tanhT_forward (x : ℝ) (h2 : e 2.0 = 2) (hm2 : e (-2.0) = -2) (hl : e (Float.log 2.0) = Real.log 2) (hx : -10 ≤ x) :
    tanhT (NF.realX e) false x = .ok (Real.tanh x, Real.log (1 - Real.tanh x ^ 2)) ∧
    HasDerivAt Real.tanh (Real.exp (Real.log (1 - Real.tanh x ^ 2))) x := by
  constructor
  · unfold tanhT
    simp only [Bool.false_eq_true, if_false, NF.realX_mul, NF.realX_sub, NF.realX_ofFloat, h2, hm2, hl, NF.realX_softplus]
    have hnot : ¬ (20 < -2 * x) := by linarith
    rw [if_neg hnot, stable_eq]
    rfl
  · exact Nonlin.tanh_deriv x

/-- … and above the threshold (`x < −10`) `softplus` is replaced by its argument: the returned log-det is `2 (log 2 + x)`,
    within `2 e^{2x} ≤ 2 e^{−20}` of the exact value (the approximation constant `F.softplus` declares) -/
theorem tanhT_forward_threshold (x : ℝ) (h2 : e 2.0 = 2) (hm2 : e (-2.0) = -2) (hl : e (Float.log 2.0) = Real.log 2) (hx : x < -10) :
    tanhT (NF.realX e) false x = .ok (Real.tanh x, 2 * (Real.log 2 + x)) ∧
    |2 * (Real.log 2 + x) - Real.log (1 - Real.tanh x ^ 2)| ≤ 2 * Real.exp (2 * x) := by
  constructor
  · unfold tanhT
    simp only [Bool.false_eq_true, if_false, NF.realX_mul, NF.realX_sub, NF.realX_ofFloat, h2, hm2, hl, NF.realX_softplus]
    have hyes : (20 : ℝ) < -2 * x := by linarith
    rw [if_pos hyes]
    congr 2
    ring
  · rw [← stable_eq]
    have hp : 0 < Real.exp (-2 * x) := Real.exp_pos _
    have hlog : Real.log (1 + Real.exp (-2 * x)) = -2 * x + Real.log (1 + Real.exp (2 * x)) := by
      have : 1 + Real.exp (-2 * x) = Real.exp (-2 * x) * (1 + Real.exp (2 * x)) := by
        rw [mul_add, mul_one, ← Real.exp_add]; simp [add_comm]
      rw [this, Real.log_mul hp.ne' (by positivity), Real.log_exp]
    rw [hlog]
    have h0 : 0 ≤ Real.log (1 + Real.exp (2 * x)) := Real.log_nonneg (by linarith [Real.exp_pos (2 * x)])
    have h1 : Real.log (1 + Real.exp (2 * x)) ≤ Real.exp (2 * x) := by
      have := Real.log_le_sub_one_of_pos (show 0 < 1 + Real.exp (2 * x) by positivity)
      linarith
    have : 2 * (Real.log 2 + x) - 2 * (Real.log 2 - x - (-2 * x + Real.log (1 + Real.exp (2 * x))))
        = 2 * Real.log (1 + Real.exp (2 * x)) := by ring
    rw [this, abs_of_nonneg (by linarith)]
    linarith

end TanhStable
