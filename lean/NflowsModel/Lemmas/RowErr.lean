import NflowsModel.Lemmas.StructureExec
/-!
# Lemmas/RowErr — the batch-level `err` field of the executed layers, row by row (C12, C17)

`Properties/C12.lean` (`exec_coupling_row_independent`, `exec_ar_row_independent`, `exec_cdf_row_independent`) equates row `b` of
`out` / `ld` of a batch call with the same row evaluated alone, and says nothing about `TResult.err` — which is the first error
over the WHOLE batch (the real code raises for the whole call).  Audit C12 finding 3: "row `b` of the batch" is meaningful only
when the batch is accepted.  This file supplies the companion statements:

* `elemwise_err_rows`, `ar_err_rows`, `cdf_err_rows`: for the element-wise passes (`arApply`, `cdfApply`) the error of the batch
  call IS the first error, in row order, among the rows evaluated ALONE (batch size 1) — an equality in `Option Err`;
* `ar_err_none_iff_alone`, `cdf_err_none_iff_alone`, `coupling_err_none_iff_alone`: the batch is accepted (`err = none`) iff
  every row evaluated alone is accepted — any scalar type, mask, `S`, direction, family, unconditional transform;
* `rowSlice`, `rowAgree_rowSlice`, `*_err_none_iff_slices`: the same with the rows cut out of the batch arrays by
  `Array.extract` (no size hypothesis).

(For the coupling layer the ORDER in which errors are found is not row-major — `couplingApply` scans the unconditional pass of
all rows before the conditional pass of any row — so only the `= none` equivalence is stated there.)
-/
open NF

namespace NF.RowErr
open NF.StructureExec
variable {α : Type}

/-! ## 0. lists -/

theorem findSome?_flatMap' {β γ δ : Type} (l : List β) (f : β → List γ) (p : γ → Option δ) :
    (l.flatMap f).findSome? p = l.findSome? fun b => (f b).findSome? p := by
  induction l with
  | nil => rfl
  | cons a l ih =>
    rw [List.flatMap_cons, List.findSome?_append, List.findSome?_cons, ih]
    cases (f a).findSome? p <;> rfl

theorem findSome?_congr' {β δ : Type} {l : List β} {p q : β → Option δ} (h : ∀ b ∈ l, p b = q b) :
    l.findSome? p = l.findSome? q := by
  induction l with
  | nil => rfl
  | cons a l ih =>
    rw [List.findSome?_cons, List.findSome?_cons, h a List.mem_cons_self,
      ih (fun b hb => h b (List.mem_cons_of_mem _ hb))]

theorem firstErr_flatMap {β : Type} (l : List β) (f : β → List (ElRes α)) :
    firstErr (l.flatMap f) = l.findSome? fun b => firstErr (f b) :=
  findSome?_flatMap' l f _

/-! ## 1. the element-wise passes: the batch error is the first row error -/

section elemwise
variable (o : XOps α)

/-- a one-row element-wise pass reports the first error of its row -/
theorem elemwise_err_one (n : Nat) (el : Nat → Nat → ElRes α) :
    (elemwiseResult o 1 n el).err = firstErr ((List.range n).map (el 0)) := by
  simp only [elemwiseResult, List.range_one, List.flatMap_cons, List.flatMap_nil, List.append_nil, List.map_map]
  rfl

/-- **the error of a `[B, n]` element-wise pass is the first error, in row order, of its rows evaluated alone** -/
theorem elemwise_err_rows (B n : Nat) (el : Nat → Nat → ElRes α) :
    (elemwiseResult o B n el).err
      = (List.range B).findSome? fun b => (elemwiseResult o 1 n (fun _ i => el b i)).err := by
  have h1 : (elemwiseResult o B n el).err
      = firstErr ((List.range B).flatMap fun b => (List.range n).map (el b)) := by
    simp only [elemwiseResult, List.map_flatMap, List.map_map]
    rfl
  rw [h1, firstErr_flatMap]
  congr 1
  funext b
  rw [elemwise_err_one]

/-- a one-row pass depends only on the elements `(0, i)`, `i < n` -/
theorem elemwise_err_one_congr (n : Nat) (el el' : Nat → Nat → ElRes α) (h : ∀ i, i < n → el 0 i = el' 0 i) :
    (elemwiseResult o 1 n el).err = (elemwiseResult o 1 n el').err := by
  rw [elemwise_err_one, elemwise_err_one]
  congr 1
  apply List.map_congr_left
  intro i hi
  exact h i (List.mem_range.1 hi)

end elemwise

section ar
variable (o : XOps α) (c : ElCfg) (F : Nat) (inverse : Bool)

/-- element `(b, i)` of the batch = element `(0, i)` of the row evaluated alone, when the row data agree -/
theorem arEl_alone {b : Nat} (x params xr pr : Array α)
    (hx : ∀ i, i < F → x[b * F + i]? = xr[0 * F + i]?)
    (hp : ∀ i k, i < F → k < (if c.kind == "araffine" then 2 else c.mult) →
      params[(b * F + i) * (if c.kind == "araffine" then 2 else c.mult) + k]?
        = pr[(0 * F + i) * (if c.kind == "araffine" then 2 else c.mult) + k]?)
    {i : Nat} (hi : i < F) :
    arEl o c F x params inverse b i = arEl o c F xr pr inverse 0 i := by
  unfold arEl
  simp only
  rw [getD_congr (hx i hi)]
  congr 1
  apply List.map_congr_left
  intro k hk
  exact getD_congr (hp i k hi (List.mem_range.1 hk)) _

/-- **autoregressive element-wise pass: the error the batch call reports is the first error, in row order, among the rows
    evaluated alone** (`xr b`, `pr b`: any one-row arrays holding row `b` of the input and of the parameters) -/
theorem ar_err_rows {B : Nat} (x params : Array α) (xr pr : Nat → Array α)
    (hx : ∀ b, b < B → ∀ i, i < F → x[b * F + i]? = (xr b)[0 * F + i]?)
    (hp : ∀ b, b < B → ∀ i k, i < F → k < (if c.kind == "araffine" then 2 else c.mult) →
      params[(b * F + i) * (if c.kind == "araffine" then 2 else c.mult) + k]?
        = (pr b)[(0 * F + i) * (if c.kind == "araffine" then 2 else c.mult) + k]?) :
    (arApply o c B F x params inverse).err
      = (List.range B).findSome? fun b => (arApply o c 1 F (xr b) (pr b) inverse).err := by
  unfold arApply
  rw [elemwise_err_rows]
  apply findSome?_congr'
  intro b hb
  have hb' := List.mem_range.1 hb
  exact elemwise_err_one_congr o F _ _ (fun i hi => arEl_alone o c F inverse x params (xr b) (pr b) (hx b hb') (hp b hb') hi)

/-- **the batch is accepted iff every row evaluated alone is accepted** (autoregressive pass) -/
theorem ar_err_none_iff_alone {B : Nat} (x params : Array α) (xr pr : Nat → Array α)
    (hx : ∀ b, b < B → ∀ i, i < F → x[b * F + i]? = (xr b)[0 * F + i]?)
    (hp : ∀ b, b < B → ∀ i k, i < F → k < (if c.kind == "araffine" then 2 else c.mult) →
      params[(b * F + i) * (if c.kind == "araffine" then 2 else c.mult) + k]?
        = (pr b)[(0 * F + i) * (if c.kind == "araffine" then 2 else c.mult) + k]?) :
    (arApply o c B F x params inverse).err = none
      ↔ ∀ b, b < B → (arApply o c 1 F (xr b) (pr b) inverse).err = none := by
  rw [ar_err_rows o c F inverse x params xr pr hx hp, List.findSome?_eq_none_iff]
  simp only [List.mem_range]

end ar

section cdf
variable (o : XOps α) (c : ElCfg) (n : Nat) (inverse : Bool)

theorem cdfEl_alone {b : Nat} (x params xr : Array α) (hx : ∀ i, i < n → x[b * n + i]? = xr[0 * n + i]?)
    {i : Nat} (hi : i < n) :
    cdfEl o c n x params inverse b i = cdfEl o c n xr params inverse 0 i := by
  unfold cdfEl
  rw [getD_congr (hx i hi)]

/-- **`Piecewise*CDF`: the error of the batch call is the first error, in row order, among the rows evaluated alone** -/
theorem cdf_err_rows {B : Nat} (x params : Array α) (xr : Nat → Array α)
    (hx : ∀ b, b < B → ∀ i, i < n → x[b * n + i]? = (xr b)[0 * n + i]?) :
    (cdfApply o c B n x params inverse).err
      = (List.range B).findSome? fun b => (cdfApply o c 1 n (xr b) params inverse).err := by
  unfold cdfApply
  rw [elemwise_err_rows]
  apply findSome?_congr'
  intro b hb
  exact elemwise_err_one_congr o n _ _
    (fun i hi => cdfEl_alone o c n inverse x params (xr b) (hx b (List.mem_range.1 hb)) hi)

/-- **the batch is accepted iff every row evaluated alone is accepted** (`Piecewise*CDF`) -/
theorem cdf_err_none_iff_alone {B : Nat} (x params : Array α) (xr : Nat → Array α)
    (hx : ∀ b, b < B → ∀ i, i < n → x[b * n + i]? = (xr b)[0 * n + i]?) :
    (cdfApply o c B n x params inverse).err = none
      ↔ ∀ b, b < B → (cdfApply o c 1 n (xr b) params inverse).err = none := by
  rw [cdf_err_rows o c n inverse x params xr hx, List.findSome?_eq_none_iff]
  simp only [List.mem_range]

end cdf

/-! ## 2. the coupling layer -/

section coupling
variable (o : XOps α) (c : ElCfg) (mask : List α) (S : Nat) (inverse : Bool) (uc : Option ElCfg) (uparams : Array α)

/-- the outcomes of a row depend only on that row of the input and of the conditioner output -/
theorem rowResults_congr {b b' : Nat} (x x' params params' : Array α)
    (hx : RowAgree mask.length S b b' x x')
    (hp : RowAgree (paramWidth c (transformIdx o mask).length) S b b' params params') :
    rowResults o c mask S x params inverse uc uparams b = rowResults o c mask S x' params' inverse uc uparams b' := by
  have hel : ∀ t s xi, t < (transformIdx o mask).length → s < S →
      couplingEl o c (transformIdx o mask).length S params inverse b t s xi
        = couplingEl o c (transformIdx o mask).length S params' inverse b' t s xi := by
    intro t s xi ht hs
    exact couplingEl_congr o c _ S params params' inverse b b' t s xi ht hs hp
  unfold rowResults
  rw [List.map_append, List.map_append]
  congr 1
  · cases uc with
    | none => rfl
    | some ucfg =>
      simp only [ucRow]
      exact tRow_results_congr o (identityIdx_ok o mask) x x' _ _ b b' hx (fun _ _ _ _ _ => rfl)
  · exact tRow_results_congr o (transformIdx_ok o mask) x x' _ _ b b' hx hel

/-- the batch is accepted iff no element of any row raised -/
theorem coupling_err_none_iff_rows (B : Nat) (x params : Array α) :
    (couplingApply o c mask B S x params inverse uc uparams).err = none
      ↔ ∀ b, b < B → ∀ r ∈ rowResults o c mask S x params inverse uc uparams b, ∃ v, r = .ok v := by
  rw [coupling_err_none_iff]
  constructor
  · intro h b hb r hr
    simp only [rowResults, List.mem_map, List.mem_append] at hr
    obtain ⟨u, hu, rfl⟩ := hr
    apply h u
    rcases hu with hu | hu
    · exact List.mem_append_left _ (List.mem_flatMap.2 ⟨b, List.mem_range.2 hb, hu⟩)
    · exact List.mem_append_right _ (List.mem_flatMap.2 ⟨b, List.mem_range.2 hb, hu⟩)
  · intro h u hu
    rcases List.mem_append.1 hu with hu | hu
    · obtain ⟨b, hb, hub⟩ := List.mem_flatMap.1 hu
      exact h b (List.mem_range.1 hb) u.2
        (List.mem_map.2 ⟨u, List.mem_append_left _ hub, rfl⟩)
    · obtain ⟨b, hb, hub⟩ := List.mem_flatMap.1 hu
      exact h b (List.mem_range.1 hb) u.2
        (List.mem_map.2 ⟨u, List.mem_append_right _ hub, rfl⟩)

/-- **the batch is accepted iff every row evaluated alone is accepted** (coupling layer; `xr b`, `pr b`: any one-row arrays
    holding row `b` of the input and of the conditioner output) -/
theorem coupling_err_none_iff_alone {B : Nat} (x params : Array α) (xr pr : Nat → Array α)
    (hx : ∀ b, b < B → RowAgree mask.length S b 0 x (xr b))
    (hp : ∀ b, b < B → RowAgree (paramWidth c (transformIdx o mask).length) S b 0 params (pr b)) :
    (couplingApply o c mask B S x params inverse uc uparams).err = none
      ↔ ∀ b, b < B → (couplingApply o c mask 1 S (xr b) (pr b) inverse uc uparams).err = none := by
  rw [coupling_err_none_iff_rows]
  constructor
  · intro h b hb
    rw [coupling_err_none_iff_rows]
    intro b0 hb0
    have : b0 = 0 := by omega
    subst this
    rw [← rowResults_congr o c mask S inverse uc uparams x (xr b) params (pr b) (hx b hb) (hp b hb)]
    exact h b hb
  · intro h b hb
    have h1 := (coupling_err_none_iff_rows o c mask S inverse uc uparams 1 (xr b) (pr b)).1 (h b hb) 0 (by omega)
    rw [rowResults_congr o c mask S inverse uc uparams x (xr b) params (pr b) (hx b hb) (hp b hb)]
    exact h1

end coupling

/-! ## 3. the rows cut out of the batch arrays -/

/-- row `b` of a flat `[B, w]` array -/
def rowSlice (w : Nat) (x : Array α) (b : Nat) : Array α := x.extract (b * w) ((b + 1) * w)

theorem rowSlice_getElem? (w : Nat) (x : Array α) (b : Nat) {i : Nat} (hi : i < w) :
    (rowSlice w x b)[i]? = x[b * w + i]? := by
  unfold rowSlice
  rw [Array.getElem?_extract]
  have hw : (b + 1) * w = b * w + w := by rw [Nat.add_mul, Nat.one_mul]
  by_cases h : b * w + i < x.size
  · rw [if_pos (by rw [hw]; omega)]
  · rw [if_neg (by rw [hw]; omega), getElem?_none_of_not_lt h]
where
  getElem?_none_of_not_lt {x : Array α} {j : Nat} (h : ¬ j < x.size) : x[j]? = none := by
    simp [Nat.le_of_not_lt h]

theorem rowAgree_rowSlice (C S : Nat) (x : Array α) (b : Nat) : RowAgree C S b 0 x (rowSlice (C * S) x b) := by
  intro ch s hch hs
  have hlt : ch * S + s < C * S := by
    have : (ch + 1) * S ≤ C * S := Nat.mul_le_mul_right S hch
    rw [Nat.add_mul, Nat.one_mul] at this
    omega
  have h0 : flatIdx C S 0 ch s = ch * S + s := by simp [flatIdx]
  have h1 : flatIdx C S b ch s = b * (C * S) + (ch * S + s) := by
    simp only [flatIdx]
    rw [Nat.add_mul, Nat.mul_assoc, Nat.add_assoc]
  rw [h0, h1, rowSlice_getElem? (C * S) x b hlt]

section slices
variable (o : XOps α) (c : ElCfg)

/-- **coupling layer: accepted iff every row cut out of the batch is accepted when run alone** -/
theorem coupling_err_none_iff_slices (mask : List α) (S : Nat) (inverse : Bool) (uc : Option ElCfg) (uparams : Array α)
    (B : Nat) (x params : Array α) :
    (couplingApply o c mask B S x params inverse uc uparams).err = none
      ↔ ∀ b, b < B → (couplingApply o c mask 1 S (rowSlice (mask.length * S) x b)
          (rowSlice (paramWidth c (transformIdx o mask).length * S) params b) inverse uc uparams).err = none :=
  coupling_err_none_iff_alone o c mask S inverse uc uparams x params _ _
    (fun b _ => rowAgree_rowSlice _ S x b) (fun b _ => rowAgree_rowSlice _ S params b)

/-- **autoregressive pass: the batch error is the first error of the rows cut out of the batch and run alone** -/
theorem ar_err_slices (F : Nat) (inverse : Bool) (B : Nat) (x params : Array α) :
    (arApply o c B F x params inverse).err
      = (List.range B).findSome? fun b => (arApply o c 1 F (rowSlice F x b)
          (rowSlice (F * (if c.kind == "araffine" then 2 else c.mult)) params b) inverse).err := by
  apply ar_err_rows o c F inverse x params
  · intro b _ i hi
    rw [Nat.zero_mul, Nat.zero_add, rowSlice_getElem? F x b hi]
  · intro b _ i k hi hk
    have hlt : i * (if c.kind == "araffine" then 2 else c.mult) + k < F * (if c.kind == "araffine" then 2 else c.mult) := by
      have : (i + 1) * (if c.kind == "araffine" then 2 else c.mult) ≤ F * (if c.kind == "araffine" then 2 else c.mult) :=
        Nat.mul_le_mul_right _ hi
      rw [Nat.add_mul, Nat.one_mul] at this
      omega
    rw [Nat.zero_mul, Nat.zero_add, rowSlice_getElem? _ params b hlt]
    congr 1
    rw [Nat.add_mul, Nat.mul_assoc, Nat.add_assoc]

/-- **`Piecewise*CDF`: the batch error is the first error of the rows cut out of the batch and run alone** -/
theorem cdf_err_slices (n : Nat) (inverse : Bool) (B : Nat) (x params : Array α) :
    (cdfApply o c B n x params inverse).err
      = (List.range B).findSome? fun b => (cdfApply o c 1 n (rowSlice n x b) params inverse).err := by
  apply cdf_err_rows o c n inverse x params
  intro b _ i hi
  rw [Nat.zero_mul, Nat.zero_add, rowSlice_getElem? n x b hi]

end slices

/-! ## 4. Non-vacuity: the statements discriminate -/

/-- a two-row pass whose row 1 raises: the batch reports that error, row 0 alone is accepted, row 1 alone is not — so "row 0
    of the batch" equals "row 0 alone" in `out` / `ld` (C12) although the batch call as a whole raises -/
example (o : XOps α) (z : α) :
    let el : Nat → Nat → ElRes α := fun b _ => if b = 1 then .error .outsideDomain else .ok (z, z, [])
    (elemwiseResult o 2 1 el).err = some .outsideDomain
      ∧ (elemwiseResult o 1 1 (fun _ i => el 0 i)).err = none
      ∧ (elemwiseResult o 1 1 (fun _ i => el 1 i)).err = some .outsideDomain := by
  intro el
  refine ⟨?_, ?_, ?_⟩
  · rw [elemwise_err_rows]
    simp [elemwise_err_one, firstErr, List.range_succ, el]
  · simp [elemwise_err_one, firstErr, List.range_succ, el]
  · simp [elemwise_err_one, firstErr, List.range_succ, el]

end NF.RowErr
