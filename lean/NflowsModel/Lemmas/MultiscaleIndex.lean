import Mathlib.Tactic
import NflowsModel.Core.Multiscale
import NflowsModel.Lemmas.MultiscaleExec
/-!
# Lemmas/MultiscaleIndex — index-level description of the executed multiscale routing

`Lemmas/MultiscaleExec.lean` shows that the routing is a permutation; this file pins WHICH permutation.

* §A  `splitBlocks_fst_getElem?`, `splitBlocks_snd_getElem?`, `chunk2_index`: element `(o, j, i)` (outer block, index
  along the split dimension, inner position) of the input goes to the FIRST result when `j < ⌈n/2⌉` (same `(o, j, i)`)
  and to the second one otherwise (at `(o, j - ⌈n/2⌉, i)`).
* §B  `fwdStages_id`, `forward_id`: law-free (no monoid law on the log-det accumulator) description of the executed
  `MS.forward` with identity stages: the flat data is the concatenation of `routeSegs`.
* §C  1-D items: `msize`, `moff`, `stageOf`; `routeSegs_1d_getElem?`, `forward_1d`, `forward_1d_index`.
* §C' general item shape: `flatPos`, `routeSegs_flatten_index`, `forward_index`;  §C'' element-wise stages:
  `forward_pointwise_index` (law-free, index-level form of `multiscale_prefix`).
* §D  reachable states have `0 < splitDim`; error contracts restated for reachable states.
-/
namespace NF.Wrap

variable {α : Type}

/-! ## §A  which element goes where in `splitBlocks` / `chunk2` -/

/-- **orientation, first result**: in block `o`, the elements at positions `r < k` go to the first result, in order,
    block after block. -/
theorem splitBlocks_fst_getElem? (blk k : Nat) (hk : k ≤ blk) : ∀ (m : Nat) (l : List α), m * blk ≤ l.length →
    ∀ (o r : Nat), o < m → r < k → (splitBlocks blk k m l).1[o * k + r]? = l[o * blk + r]?
  | 0, _, _, _, _, ho, _ => absurd ho (Nat.not_lt_zero _)
  | m + 1, l, hl, o, r, ho, hr => by
    have hblk : blk ≤ l.length := by
      have : (m + 1) * blk = m * blk + blk := by ring
      omega
    have hlen : ((l.take blk).take k).length = k := by
      rw [List.length_take, List.length_take]; omega
    simp only [splitBlocks]
    cases o with
    | zero =>
      simp only [Nat.zero_mul, Nat.zero_add]
      rw [List.getElem?_append_left (by omega), List.getElem?_take, List.getElem?_take]
      have h1 : r < blk := by omega
      simp [hr, h1]
    | succ o =>
      have hd : m * blk ≤ (l.drop blk).length := by
        rw [List.length_drop]
        have : (m + 1) * blk = m * blk + blk := by ring
        omega
      have ih := splitBlocks_fst_getElem? blk k hk m (l.drop blk) hd o r (by omega) hr
      have e1 : (o + 1) * k + r = k + (o * k + r) := by ring
      have e2 : (o + 1) * blk + r = blk + (o * blk + r) := by ring
      rw [e1, e2, List.getElem?_append_right (by omega), hlen, Nat.add_sub_cancel_left, ih, List.getElem?_drop]

/-- **orientation, second result**: in block `o`, the elements at positions `k + r` (`r < blk - k`) go to the second
    result, in order, block after block. -/
theorem splitBlocks_snd_getElem? (blk k : Nat) (hk : k ≤ blk) : ∀ (m : Nat) (l : List α), m * blk ≤ l.length →
    ∀ (o r : Nat), o < m → r < blk - k → (splitBlocks blk k m l).2[o * (blk - k) + r]? = l[o * blk + k + r]?
  | 0, _, _, _, _, ho, _ => absurd ho (Nat.not_lt_zero _)
  | m + 1, l, hl, o, r, ho, hr => by
    have hblk : blk ≤ l.length := by
      have : (m + 1) * blk = m * blk + blk := by ring
      omega
    have hlen : ((l.take blk).drop k).length = blk - k := by
      rw [List.length_drop, List.length_take]; omega
    simp only [splitBlocks]
    cases o with
    | zero =>
      simp only [Nat.zero_mul, Nat.zero_add]
      rw [List.getElem?_append_left (by omega), List.getElem?_drop, List.getElem?_take]
      have h1 : k + r < blk := by omega
      simp [h1]
    | succ o =>
      have hd : m * blk ≤ (l.drop blk).length := by
        rw [List.length_drop]
        have : (m + 1) * blk = m * blk + blk := by ring
        omega
      have ih := splitBlocks_snd_getElem? blk k hk m (l.drop blk) hd o r (by omega) hr
      have e1 : (o + 1) * (blk - k) + r = (blk - k) + (o * (blk - k) + r) := by ring
      have e2 : (o + 1) * blk + k + r = blk + (o * blk + k + r) := by ring
      rw [e1, e2, List.getElem?_append_right (by omega), hlen, Nat.add_sub_cancel_left, ih, List.getElem?_drop]

/-- **three-index form**: block `o < P`, index `j` along the split dimension (size `n`), inner position `i < I`.
    With `c = ⌈n/2⌉`: entry `(o, j, i)` of the first result (`j < c`) is entry `(o, j, i)` of the input; entry
    `(o, j, i)` of the second result (`j < ⌊n/2⌋`) is entry `(o, c + j, i)` of the input. -/
theorem splitBlocks_index (P n I : Nat) (data : List α) (hl : P * (n * I) ≤ data.length) :
    (∀ o j i, o < P → j < (n + 1) / 2 → i < I →
      (splitBlocks (n * I) ((n + 1) / 2 * I) P data).1[(o * ((n + 1) / 2) + j) * I + i]? =
        data[(o * n + j) * I + i]?) ∧
    (∀ o j i, o < P → j < n / 2 → i < I →
      (splitBlocks (n * I) ((n + 1) / 2 * I) P data).2[(o * (n / 2) + j) * I + i]? =
        data[(o * n + (n + 1) / 2 + j) * I + i]?) := by
  have hk : (n + 1) / 2 * I ≤ n * I := Nat.mul_le_mul_right _ (by omega)
  refine ⟨?_, ?_⟩
  · intro o j i ho hj hi
    have hr : j * I + i < (n + 1) / 2 * I := by
      have : (j + 1) * I ≤ (n + 1) / 2 * I := Nat.mul_le_mul_right _ (by omega)
      have e : (j + 1) * I = j * I + I := by ring
      omega
    have h := splitBlocks_fst_getElem? (n * I) ((n + 1) / 2 * I) hk (P) data hl o
      (j * I + i) ho hr
    have e1 : (o * ((n + 1) / 2) + j) * I + i = o * ((n + 1) / 2 * I) + (j * I + i) := by ring
    have e2 : (o * n + j) * I + i = o * (n * I) + (j * I + i) := by ring
    rw [e1, e2]; exact h
  · intro o j i ho hj hi
    have hsub : n * I - (n + 1) / 2 * I = n / 2 * I := sub_half_mul n (I)
    have hr : j * I + i < n * I - (n + 1) / 2 * I := by
      rw [hsub]
      have : (j + 1) * I ≤ n / 2 * I := Nat.mul_le_mul_right _ (by omega)
      have e : (j + 1) * I = j * I + I := by ring
      omega
    have h := splitBlocks_snd_getElem? (n * I) ((n + 1) / 2 * I) hk (P) data hl o
      (j * I + i) ho hr
    rw [hsub] at h
    have e1 : (o * (n / 2) + j) * I + i = o * (n / 2 * I) + (j * I + i) := by ring
    have e2 : (o * n + (n + 1) / 2 + j) * I + i =
        o * (n * I) + (n + 1) / 2 * I + (j * I + i) := by ring
    rw [e1, e2]; exact h


/-- **`torch.chunk(·, 2, dim)` index by index** on an item of shape `pre ++ n :: suf` (row-major data): with
    `c = ⌈n/2⌉`, entry `(o, j, i)` of the first chunk (shape `pre ++ c :: suf`) is entry `(o, j, i)` of the input,
    entry `(o, j, i)` of the second chunk (shape `pre ++ ⌊n/2⌋ :: suf`) is entry `(o, c + j, i)` of the input.
    Here `o < ∏ pre` numbers the positions in the dimensions in front, `i < ∏ suf` those behind. -/
theorem chunk2_index (pre suf : List Nat) (n : Nat) (hn : n ≠ 1) (data : List α)
    (hwf : data.length = prod (pre ++ n :: suf)) :
    ∃ a b, chunk2 pre.length (⟨pre ++ n :: suf, data⟩ : Item α) = .ok (a, b) ∧
      a.shape = pre ++ ((n + 1) / 2) :: suf ∧ b.shape = pre ++ (n / 2) :: suf ∧
      (∀ o j i, o < prod pre → j < (n + 1) / 2 → i < prod suf →
        a.data[(o * ((n + 1) / 2) + j) * prod suf + i]? = data[(o * n + j) * prod suf + i]?) ∧
      (∀ o j i, o < prod pre → j < n / 2 → i < prod suf →
        b.data[(o * (n / 2) + j) * prod suf + i]? = data[(o * n + (n + 1) / 2 + j) * prod suf + i]?) := by
  have hl : prod pre * (n * prod suf) ≤ data.length := by rw [hwf, prod_mid]
  exact ⟨_, _, chunk2_mid pre suf n hn data, rfl, rfl, splitBlocks_index (prod pre) n (prod suf) data hl⟩

/-- orientation on a concrete tensor: shape `[2, 5]`, split along the last dimension: the FIRST three columns of
    every row are emitted, the last two are passed on. -/
example : (chunk2 1 (⟨[2, 5], [0, 1, 2, 3, 4, 10, 11, 12, 13, 14]⟩ : Item Nat)).toOption.map
      (fun r => (r.1.shape, r.1.data, r.2.shape, r.2.data)) =
    some ([2, 3], [0, 1, 2, 10, 11, 12], [2, 2], [3, 4, 13, 14]) := by decide

example : splitBlocks 5 3 2 [0, 1, 2, 3, 4, 10, 11, 12, 13, 14] = ([0, 1, 2, 10, 11, 12], [3, 4, 13, 14]) := by decide


variable {C L : Type}

/-! ## §B  identity stages, no law on the log-det accumulator -/

/-- the executed loop with stages that leave the data alone: whatever the accumulators hold on entry (`acc`, `l0`),
    the emitted data are appended segment by segment.  No algebraic law of `A` is used, so this also describes the
    floating-point accumulator of the driver. -/
theorem fwdStages_id (A : LD L) (pre suf : List Nat) (c : C) :
    ∀ (ts : List (Tr (Item α) C L)) (n : Nat) (data acc : List α) (l0 : L),
      (∀ t ∈ ts, IsPointwise t (fun _ => id)) → ts ≠ [] → 2 ^ (ts.length - 1) ≤ n →
      ∃ l, fwdStages A pre.length ts (outShapes pre suf ts.length n) ⟨pre ++ n :: suf, data⟩ acc l0 c =
        .ok (acc ++ (routeSegs (prod pre) (prod suf) ts.length n data).flatten, l)
  | [], _, _, _, _, _, h, _ => absurd rfl h
  | [t], n, data, acc, l0, hid, _, _ => by
    obtain ⟨l, hl⟩ := hid t (by simp) ⟨pre ++ n :: suf, data⟩ c
    have hl' : t.fwd ⟨pre ++ n :: suf, data⟩ c = .ok (⟨pre ++ n :: suf, data⟩, l) := by simpa using hl
    exact ⟨A.add l0 l, by simp [fwdStages, hl', routeSegs]⟩
  | t :: t' :: ts, n, data, acc, l0, hid, _, hn => by
    have hn2 : 2 ^ (ts.length + 1) ≤ n := by simpa using hn
    have h2 : 2 ≤ n := two_le_of_pow_le hn2
    obtain ⟨l1, hl1⟩ := hid t (by simp) ⟨pre ++ n :: suf, data⟩ c
    have hl1' : t.fwd ⟨pre ++ n :: suf, data⟩ c = .ok (⟨pre ++ n :: suf, data⟩, l1) := by simpa using hl1
    obtain ⟨l', hl'⟩ := fwdStages_id A pre suf c (t' :: ts) (n / 2)
      (splitBlocks (n * prod suf) ((n + 1) / 2 * prod suf) (prod pre) data).2
      (acc ++ (splitBlocks (n * prod suf) ((n + 1) / 2 * prod suf) (prod pre) data).1) (A.add l0 l1)
      (fun t ht => hid t (List.mem_cons_of_mem _ ht)) (by simp) (by simpa using pow_le_half hn2)
    refine ⟨l', ?_⟩
    simp only [List.length_cons] at hl'
    simp only [List.length_cons, outShapes, fwdStages, hl1']
    rw [chunk2_mid pre suf n (by omega)]
    simp only [List.head?_cons, ne_eq, not_true_eq_false, if_false, List.tail_cons]
    rw [hl']
    simp [routeSegs]

/-- **executed `forward`, identity stages, law-free**: an object built the documented way returns the flat
    concatenation of the routing segments of the input data. -/
theorem forward_id (A : LD L) (pre suf : List Nat) (n : Nat) (ts : List (Tr (Item α) C L))
    (hid : ∀ t ∈ ts, IsPointwise t (fun _ => id)) (hts : ts ≠ []) (m : MS α C L)
    (hb : MS.build (ts.length : Int) (.int ((pre.length : Int) + 1)) ts (pre ++ n :: suf) = .ok m)
    (data : List α) (c : C) :
    ∃ l, m.forward A ⟨pre ++ n :: suf, data⟩ c =
      .ok (⟨[((routeSegs (prod pre) (prod suf) ts.length n data).flatten).length],
            (routeSegs (prod pre) (prod suf) ts.length n data).flatten⟩, l) := by
  by_cases hn : 2 ^ ts.length ≤ n
  · rw [build_ok pre suf ts n hts hn] at hb
    obtain rfl := Except.ok.inj hb
    have hn' : 2 ^ (ts.length - 1) ≤ n := le_trans (Nat.pow_le_pow_right (by norm_num) (Nat.sub_le _ _)) hn
    obtain ⟨l, hl⟩ := fwdStages_id A pre suf c ts n data [] A.zero hid hts hn'
    refine ⟨l, ?_⟩
    have h1 : ¬ (pre.length + 1 ≥ pre.length + (suf.length + 1) + 1) := by omega
    simp only [MS.forward, List.length_append, List.length_cons, h1, if_false, ne_eq, not_true_eq_false,
      Nat.add_sub_cancel, hl, List.nil_append]
  · rw [build_small pre suf ts n hts hn] at hb
    cases hb

/-! ## §C  one-dimensional items: stage sizes, offsets, stage of an index -/

/-- `m_t`: size of what reaches stage `t` (`m₀ = n`, `m_{t+1} = ⌊m_t / 2⌋`) -/
def msize (n : Nat) : Nat → Nat
  | 0 => n
  | t + 1 => msize n t / 2

/-- `off_t`: number of coordinates emitted before stage `t` (`off₀ = 0`, `off_{t+1} = off_t + ⌈m_t / 2⌉`) -/
def moff (n : Nat) : Nat → Nat
  | 0 => 0
  | t + 1 => moff n t + (msize n t + 1) / 2

/-- segment emitted by stage `s` out of `k`: `⌈m_s/2⌉` entries from offset `off_s`; the last stage emits the rest -/
def segOf (k n : Nat) (data : List α) (s : Nat) : List α :=
  if s + 1 < k then (data.drop (moff n s)).take ((msize n s + 1) / 2) else data.drop (moff n s)

/-- the stage that emits index `j`: the first `s` with `j - off_s < ⌈m_s/2⌉`, or the last stage -/
def stageOf : Nat → Nat → Nat → Nat
  | 0, _, _ => 0
  | 1, _, _ => 0
  | k + 2, n, j => if j < (n + 1) / 2 then 0 else stageOf (k + 1) (n / 2) (j - (n + 1) / 2) + 1

theorem msize_succ' (n : Nat) : ∀ t, msize n (t + 1) = msize (n / 2) t
  | 0 => rfl
  | t + 1 => by rw [msize, msize_succ' n t]; rfl

theorem moff_succ' (n : Nat) : ∀ t, moff n (t + 1) = (n + 1) / 2 + moff (n / 2) t
  | 0 => by simp [moff, msize]
  | t + 1 => by rw [moff, moff_succ' n t, msize_succ' n t]; simp only [moff]; omega

/-- emitted so far + still travelling = everything -/
theorem moff_add_msize (n : Nat) : ∀ t, moff n t + msize n t = n
  | 0 => by simp [moff, msize]
  | t + 1 => by have := moff_add_msize n t; simp only [moff, msize]; omega

theorem moff_le (n t : Nat) : moff n t ≤ n := by have := moff_add_msize n t; omega

theorem moff_mono (n : Nat) : Monotone (moff n) :=
  monotone_nat_of_le_succ (fun t => by simp only [moff]; omega)

/-- `stageOf` is a stage, and `j` lies in its window `[off_s, off_{s+1})` (no upper bound for the last stage) -/
theorem stageOf_spec : ∀ (k n j : Nat), 0 < k →
    stageOf k n j < k ∧ moff n (stageOf k n j) ≤ j ∧ (stageOf k n j + 1 < k → j < moff n (stageOf k n j + 1))
  | 0, _, _, h => absurd h (Nat.lt_irrefl 0)
  | 1, _, _, _ => by simp [stageOf, moff]
  | k + 2, n, j, _ => by
    by_cases hj : j < (n + 1) / 2
    · simp [stageOf, hj, moff, msize]
    · obtain ⟨h1, h2, h3⟩ := stageOf_spec (k + 1) (n / 2) (j - (n + 1) / 2) (by omega)
      simp only [stageOf, hj, if_false]
      refine ⟨by omega, ?_, fun h => ?_⟩
      · rw [moff_succ']; omega
      · rw [moff_succ']; have := h3 (by omega); omega

/-- the window determines the stage -/
theorem stageOf_unique (k n j s : Nat) (hk : 0 < k) (hs : s < k) (h1 : moff n s ≤ j)
    (h2 : s + 1 < k → j < moff n (s + 1)) : s = stageOf k n j := by
  obtain ⟨g0, g1, g2⟩ := stageOf_spec k n j hk
  rcases Nat.lt_trichotomy s (stageOf k n j) with h | h | h
  · have := moff_mono n (show s + 1 ≤ stageOf k n j by omega)
    have := h2 (by omega)
    omega
  · exact h
  · have := moff_mono n (show stageOf k n j + 1 ≤ s by omega)
    have := g2 (by omega)
    omega

theorem splitBlocks_1d (n : Nat) (l : List α) (hl : l.length = n) :
    splitBlocks (n * 1) ((n + 1) / 2 * 1) 1 l = (l.take ((n + 1) / 2), l.drop ((n + 1) / 2)) := by
  have h : l.take n = l := List.take_of_length_le (by omega)
  simp [splitBlocks, h]

/-- **1-D segments are the consecutive windows `[off_s, off_{s+1})` of the input** -/
theorem routeSegs_1d_getElem? : ∀ (k n : Nat) (data : List α), data.length = n → ∀ s, s < k →
    (routeSegs 1 1 k n data)[s]? = some (segOf k n data s)
  | 0, _, _, _, _, hs => absurd hs (Nat.not_lt_zero _)
  | 1, n, data, _, s, hs => by
    obtain rfl : s = 0 := by omega
    simp [routeSegs, segOf, moff]
  | k + 2, n, data, hl, s, hs => by
    simp only [routeSegs]
    rw [splitBlocks_1d n data hl]
    cases s with
    | zero => simp [segOf, moff, msize]
    | succ s =>
      have hd : (data.drop ((n + 1) / 2)).length = n / 2 := by rw [List.length_drop]; omega
      have ih := routeSegs_1d_getElem? (k + 1) (n / 2) (data.drop ((n + 1) / 2)) hd s (by omega)
      rw [List.getElem?_cons_succ, ih]
      have hc : (s + 1 < k + 1) ↔ (s + 1 + 1 < k + 2) := by omega
      simp only [segOf, moff_succ' n s, msize_succ' n s, List.drop_drop, hc]

/-- the same as a list: `[data[off₀, off₁), data[off₁, off₂), …, data[off_{k-1}, n)]` -/
theorem routeSegs_1d (k n : Nat) (data : List α) (hl : data.length = n) :
    routeSegs 1 1 k n data = (List.range k).map (segOf k n data) := by
  apply List.ext_getElem?
  intro s
  by_cases hs : s < k
  · rw [routeSegs_1d_getElem? k n data hl s hs]; simp [hs]
  · have h1 : (routeSegs 1 1 k n data).length ≤ s := by rw [routeSegs_length]; omega
    have h2 : ((List.range k).map (segOf k n data)).length ≤ s := by simp; omega
    rw [List.getElem?_eq_none h1, List.getElem?_eq_none h2]

/-- in 1-D the concatenation of the segments is the input itself -/
theorem routeSegs_1d_flatten : ∀ (k n : Nat) (data : List α), data.length = n →
    (routeSegs 1 1 (k + 1) n data).flatten = data
  | 0, _, _, _ => by simp [routeSegs]
  | k + 1, n, data, hl => by
    have hd : (data.drop ((n + 1) / 2)).length = n / 2 := by rw [List.length_drop]; omega
    simp only [routeSegs]
    rw [splitBlocks_1d n data hl]
    simp only [List.flatten_cons, routeSegs_1d_flatten k (n / 2) _ hd, List.take_append_drop]

/-- index `j` sits at position `j - off_s` of the segment of its stage `s = stageOf k n j` -/
theorem segOf_index (k n : Nat) (data : List α) (hk : 0 < k) (j : Nat) :
    (segOf k n data (stageOf k n j))[j - moff n (stageOf k n j)]? = data[j]? := by
  obtain ⟨_, g1, g2⟩ := stageOf_spec k n j hk
  unfold segOf
  split
  · rename_i h
    have := g2 h
    simp only [moff] at this
    rw [List.getElem?_take, if_pos (by omega), List.getElem?_drop]
    congr 1; omega
  · rw [List.getElem?_drop]; congr 1; omega

/-- **1-D items, identity stages, executed `forward`** on an object built the documented way
    (`MultiscaleCompositeTransform(k, split_dim=1)`, `add_transform` `k` times with the returned hidden shapes):
    the flat output IS the input (`flat[j] = data[j]`), it is the concatenation of the per-stage segments, and
    segment `s` is the window `[off_s, off_{s+1})` (`[off_{k-1}, n)` for the last stage) — so index `j` is emitted
    by stage `stageOf k n j`, at position `j - off_s` of that stage's output, at flat position `j`.
    No law on the log-det accumulator is assumed. -/
theorem forward_1d (A : LD L) (n : Nat) (ts : List (Tr (Item α) C L))
    (hid : ∀ t ∈ ts, IsPointwise t (fun _ => id)) (hts : ts ≠ []) (m : MS α C L)
    (hb : MS.build (ts.length : Int) (.int 1) ts [n] = .ok m)
    (data : List α) (hwf : data.length = n) (c : C) :
    (∃ l, m.forward A ⟨[n], data⟩ c = .ok (⟨[n], data⟩, l)) ∧
    (routeSegs 1 1 ts.length n data).flatten = data ∧
    routeSegs 1 1 ts.length n data = (List.range ts.length).map (segOf ts.length n data) ∧
    ∀ j, j < n →
      stageOf ts.length n j < ts.length ∧
      moff n (stageOf ts.length n j) ≤ j ∧
      (stageOf ts.length n j + 1 < ts.length → j < moff n (stageOf ts.length n j + 1)) ∧
      (routeSegs 1 1 ts.length n data)[stageOf ts.length n j]? = some (segOf ts.length n data (stageOf ts.length n j)) ∧
      (segOf ts.length n data (stageOf ts.length n j))[j - moff n (stageOf ts.length n j)]? = data[j]? := by
  have hk : 0 < ts.length := List.length_pos_iff.mpr hts
  obtain ⟨k, hk'⟩ : ∃ k, ts.length = k + 1 := ⟨ts.length - 1, by omega⟩
  have hflat : (routeSegs 1 1 ts.length n data).flatten = data := by
    rw [hk']; exact routeSegs_1d_flatten k n data hwf
  refine ⟨?_, hflat, routeSegs_1d _ n data hwf, fun j _ => ?_⟩
  · obtain ⟨l, hl⟩ := forward_id A [] [] n ts hid hts m (by simpa using hb) data c
    refine ⟨l, ?_⟩
    have hp : prod ([] : List Nat) = 1 := rfl
    simp only [List.nil_append, hp, hflat, hwf] at hl
    exact hl
  · obtain ⟨g0, g1, g2⟩ := stageOf_spec ts.length n j hk
    exact ⟨g0, g1, g2, routeSegs_1d_getElem? _ n data hwf _ g0, segOf_index _ n data hk j⟩

/-! ## §C'  general item shape `pre ++ n :: suf`: explicit flat position -/

/-- width along the split dimension of the segment emitted by stage `s` out of `k`: `⌈m_s/2⌉`, the last one `m_s` -/
def segW (k n s : Nat) : Nat := if s + 1 < k then (msize n s + 1) / 2 else msize n s

/-- flat output position of input entry `(o, j, i)` (`o < P = ∏ pre`, `j < n`, `i < I = ∏ suf`): the segments of the
    stages before `s = stageOf k n j` hold `P · off_s · I` entries; inside segment `s` (shape `pre ++ w_s :: suf`)
    the entry sits at row-major position `(o · w_s + (j - off_s)) · I + i`. -/
def flatPos (P I k n o j i : Nat) : Nat :=
  P * moff n (stageOf k n j) * I + (o * segW k n (stageOf k n j) + (j - moff n (stageOf k n j))) * I + i

theorem segW_succ' (k n s : Nat) : segW (k + 2) n (s + 1) = segW (k + 1) (n / 2) s := by
  simp only [segW, msize_succ', Nat.add_lt_add_iff_right]

theorem idx_lt3 {P c I o j i : Nat} (ho : o < P) (hj : j < c) (hi : i < I) : (o * c + j) * I + i < P * (c * I) := by
  have h1 : (o + 1) * c ≤ P * c := Nat.mul_le_mul_right _ (by omega)
  have e1 : (o + 1) * c = o * c + c := by ring
  have h2 : (o * c + j + 1) * I ≤ (P * c) * I := Nat.mul_le_mul_right _ (by omega)
  have e2 : (o * c + j + 1) * I = (o * c + j) * I + I := by ring
  have e3 : P * c * I = P * (c * I) := by ring
  omega

/-- **routing closed form, index by index** (any outer/inner size, odd or even sizes, any number of stages) -/
theorem routeSegs_flatten_index (P I : Nat) : ∀ (k n : Nat) (data : List α), data.length = P * (n * I) → 0 < k →
    ∀ o j i, o < P → j < n → i < I →
      (routeSegs P I k n data).flatten[flatPos P I k n o j i]? = data[(o * n + j) * I + i]?
  | 0, _, _, _, hk, _, _, _, _, _, _ => absurd hk (Nat.lt_irrefl 0)
  | 1, n, data, _, _, o, j, i, _, _, _ => by
    simp [flatPos, stageOf, segW, moff, msize, routeSegs]
  | k + 2, n, data, hl, _, o, j, i, ho, hj, hi => by
    have hk : (n + 1) / 2 * I ≤ n * I := Nat.mul_le_mul_right _ (by omega)
    obtain ⟨ha, hb⟩ := splitBlocks_length (n * I) ((n + 1) / 2 * I) hk P data hl
    rw [sub_half_mul] at hb
    obtain ⟨ix1, ix2⟩ := splitBlocks_index P n I data (le_of_eq hl.symm)
    simp only [routeSegs, List.flatten_cons]
    by_cases hjc : j < (n + 1) / 2
    · have e : flatPos P I (k + 2) n o j i = (o * ((n + 1) / 2) + j) * I + i := by
        simp [flatPos, stageOf, hjc, moff, segW, msize]
      rw [e, List.getElem?_append_left (by rw [ha]; exact idx_lt3 ho hjc hi), ix1 o j i ho hjc hi]
    · have e : flatPos P I (k + 2) n o j i = P * ((n + 1) / 2 * I) + flatPos P I (k + 1) (n / 2) o (j - (n + 1) / 2) i := by
        simp only [flatPos, stageOf, hjc, if_false, moff_succ', segW_succ', Nat.sub_add_eq]
        ring
      have ih := routeSegs_flatten_index P I (k + 1) (n / 2) _ hb (by omega) o (j - (n + 1) / 2) i ho (by omega) hi
      rw [e, List.getElem?_append_right (by omega), ha, Nat.add_sub_cancel_left, ih,
        ix2 o (j - (n + 1) / 2) i ho (by omega) hi]
      have e2 : o * n + (n + 1) / 2 + (j - (n + 1) / 2) = o * n + j := by omega
      rw [e2]

/-- **general shape, identity stages, executed `forward`**: for an object built the documented way on item shape
    `pre ++ n :: suf` (`split_dim = pre.length + 1`), input entry `(o, j, i)` — row-major position
    `(o·n + j)·∏suf + i` — is found at flat output position `flatPos`: after the `∏pre · off_s · ∏suf` entries
    emitted by the stages before `s = stageOf k n j`, at row-major position `(o, j - off_s, i)` of a block of shape
    `pre ++ w_s :: suf`.  No law on the log-det accumulator is assumed. -/
theorem forward_index (A : LD L) (pre suf : List Nat) (n : Nat) (ts : List (Tr (Item α) C L))
    (hid : ∀ t ∈ ts, IsPointwise t (fun _ => id)) (hts : ts ≠ []) (m : MS α C L)
    (hb : MS.build (ts.length : Int) (.int ((pre.length : Int) + 1)) ts (pre ++ n :: suf) = .ok m)
    (data : List α) (hwf : data.length = prod (pre ++ n :: suf)) (c : C) :
    ∃ flat l, m.forward A ⟨pre ++ n :: suf, data⟩ c = .ok (⟨[prod (pre ++ n :: suf)], flat⟩, l) ∧
      flat = (routeSegs (prod pre) (prod suf) ts.length n data).flatten ∧
      ∀ o j i, o < prod pre → j < n → i < prod suf →
        flat[flatPos (prod pre) (prod suf) ts.length n o j i]? = data[(o * n + j) * prod suf + i]? := by
  have hk : 0 < ts.length := List.length_pos_iff.mpr hts
  obtain ⟨k, hk'⟩ : ∃ k, ts.length = k + 1 := ⟨ts.length - 1, by omega⟩
  have hl : data.length = prod pre * (n * prod suf) := by rw [hwf, prod_mid]
  obtain ⟨l, hf⟩ := forward_id A pre suf n ts hid hts m hb data c
  have hlen : ((routeSegs (prod pre) (prod suf) ts.length n data).flatten).length = prod (pre ++ n :: suf) := by
    rw [hk', (routeSegs_perm _ _ k n data hl).length_eq, hwf]
  refine ⟨_, l, ?_, rfl, routeSegs_flatten_index (prod pre) (prod suf) ts.length n data hl hk⟩
  rw [hf, hlen]

/-! ## §C''  element-wise stages: which stages an entry went through, index by index (law-free) -/

/-- the executed loop with element-wise stages, arbitrary entry accumulators, no law on `A` -/
theorem fwdStages_pointwise_acc (A : LD L) (pre suf : List Nat) (c : C) :
    ∀ (ts : List (Tr (Item α) C L)) (gs : List (C → α → α)) (n : Nat) (data acc : List α) (l0 : L),
      List.Forall₂ IsPointwise ts gs → ts ≠ [] → 2 ^ (ts.length - 1) ≤ n →
      ∃ l, fwdStages A pre.length ts (outShapes pre suf ts.length n) ⟨pre ++ n :: suf, data⟩ acc l0 c =
        .ok (acc ++ (List.zipWith (fun f seg => List.map f seg) (prefixMaps (gs.map (fun g => g c)))
              (routeSegs (prod pre) (prod suf) ts.length n data)).flatten, l)
  | [], _, _, _, _, _, _, h, _ => absurd rfl h
  | [t], gs, n, data, acc, l0, hpw, _, _ => by
    cases hpw with
    | cons h1 hrest =>
      cases hrest
      obtain ⟨l, hl⟩ := h1 ⟨pre ++ n :: suf, data⟩ c
      exact ⟨A.add l0 l, by simp [fwdStages, hl, routeSegs, prefixMaps]⟩
  | t :: t' :: ts, gs, n, data, acc, l0, hpw, _, hn => by
    have hn2 : 2 ^ (ts.length + 1) ≤ n := by simpa using hn
    have h2 : 2 ≤ n := two_le_of_pow_le hn2
    cases hpw with
    | @cons _ g _ gs' h1 hrest =>
      obtain ⟨l1, hl1⟩ := h1 ⟨pre ++ n :: suf, data⟩ c
      obtain ⟨l', hl'⟩ := fwdStages_pointwise_acc A pre suf c (t' :: ts) gs' (n / 2)
        ((splitBlocks (n * prod suf) ((n + 1) / 2 * prod suf) (prod pre) data).2.map (g c))
        (acc ++ (splitBlocks (n * prod suf) ((n + 1) / 2 * prod suf) (prod pre) data).1.map (g c)) (A.add l0 l1)
        hrest (by simp) (by simpa using pow_le_half hn2)
      refine ⟨l', ?_⟩
      simp only [List.length_cons] at hl'
      simp only [List.length_cons, outShapes, fwdStages, hl1]
      rw [chunk2_mid pre suf n (by omega), splitBlocks_map]
      simp only [List.head?_cons, ne_eq, not_true_eq_false, if_false, List.tail_cons]
      rw [hl']
      simp [routeSegs, prefixMaps, routeSegs_map, zipWith_prefix]

/-- **routing with stage maps, index by index**: the entry found at `flatPos` is the input entry `(o, j, i)` mapped
    through `g_{s+1} ∘ … ∘ g₁` with `s = stageOf k n j` — exactly the stages up to the one that emits it -/
theorem routeSegs_prefix_index (P I : Nat) : ∀ (gs : List (α → α)) (n : Nat) (data : List α),
    data.length = P * (n * I) → gs ≠ [] → ∀ o j i, o < P → j < n → i < I →
      (List.zipWith (fun f seg => List.map f seg) (prefixMaps gs)
          (routeSegs P I gs.length n data)).flatten[flatPos P I gs.length n o j i]? =
        (data[(o * n + j) * I + i]?).map ((gs.take (stageOf gs.length n j + 1)).foldl (fun f g => g ∘ f) id)
  | [], _, _, _, h, _, _, _, _, _, _ => absurd rfl h
  | [g], n, data, _, _, o, j, i, _, _, _ => by
    simp [flatPos, stageOf, segW, moff, msize, routeSegs, prefixMaps]
  | g :: g' :: gs, n, data, hl, _, o, j, i, ho, hj, hi => by
    have hk : (n + 1) / 2 * I ≤ n * I := Nat.mul_le_mul_right _ (by omega)
    obtain ⟨ha, hb⟩ := splitBlocks_length (n * I) ((n + 1) / 2 * I) hk P data hl
    rw [sub_half_mul] at hb
    obtain ⟨ix1, ix2⟩ := splitBlocks_index P n I data (le_of_eq hl.symm)
    have hz : (List.zipWith (fun f seg => List.map f seg) (prefixMaps (g :: g' :: gs))
          (routeSegs P I (g :: g' :: gs).length n data)).flatten =
        (splitBlocks (n * I) ((n + 1) / 2 * I) P data).1.map g ++
          (List.zipWith (fun f seg => List.map f seg) (prefixMaps (g' :: gs))
            (routeSegs P I (g' :: gs).length (n / 2)
              ((splitBlocks (n * I) ((n + 1) / 2 * I) P data).2.map g))).flatten := by
      simp only [List.length_cons, routeSegs]
      rw [show prefixMaps (g :: g' :: gs) = g :: (prefixMaps (g' :: gs)).map (fun f => f ∘ g) from rfl]
      simp only [List.zipWith_cons_cons, List.flatten_cons, zipWith_prefix, routeSegs_map]
    rw [hz]
    simp only [List.length_cons] at *
    by_cases hjc : j < (n + 1) / 2
    · have e : flatPos P I (gs.length + 1 + 1) n o j i = (o * ((n + 1) / 2) + j) * I + i := by
        simp [flatPos, stageOf, hjc, moff, segW, msize]
      rw [e, List.getElem?_append_left (by rw [List.length_map, ha]; exact idx_lt3 ho hjc hi), List.getElem?_map,
        ix1 o j i ho hjc hi]
      simp [stageOf, hjc]
    · have e : flatPos P I (gs.length + 1 + 1) n o j i =
          P * ((n + 1) / 2 * I) + flatPos P I (gs.length + 1) (n / 2) o (j - (n + 1) / 2) i := by
        simp only [flatPos, stageOf, hjc, if_false, moff_succ', segW_succ', Nat.sub_add_eq]
        ring
      have ih := routeSegs_prefix_index P I (g' :: gs) (n / 2)
        ((splitBlocks (n * I) ((n + 1) / 2 * I) P data).2.map g) (by rw [List.length_map, hb]) (by simp)
        o (j - (n + 1) / 2) i ho (by omega) hi
      simp only [List.length_cons] at ih
      rw [e, List.getElem?_append_right (by rw [List.length_map]; omega), List.length_map, ha,
        Nat.add_sub_cancel_left, ih, List.getElem?_map, ix2 o (j - (n + 1) / 2) i ho (by omega) hi]
      have e2 : o * n + (n + 1) / 2 + (j - (n + 1) / 2) = o * n + j := by omega
      rw [e2]
      simp only [stageOf, hjc, if_false, List.take_succ_cons, List.foldl_cons, Option.map_map]
      rw [foldl_comp_init _ (g' ∘ id), foldl_comp_init _ (g' ∘ g ∘ id)]
      rfl

/-- **general shape, element-wise stages, executed `forward`, law-free**: input entry `(o, j, i)` is found at flat
    position `flatPos`, mapped through the stages `1 … stageOf k n j + 1` in that order and through no later stage. -/
theorem forward_pointwise_index (A : LD L) (pre suf : List Nat) (n : Nat) (ts : List (Tr (Item α) C L))
    (gs : List (C → α → α)) (hpw : List.Forall₂ IsPointwise ts gs) (hts : ts ≠ []) (m : MS α C L)
    (hb : MS.build (ts.length : Int) (.int ((pre.length : Int) + 1)) ts (pre ++ n :: suf) = .ok m)
    (data : List α) (hwf : data.length = prod (pre ++ n :: suf)) (c : C) :
    ∃ flat l, m.forward A ⟨pre ++ n :: suf, data⟩ c = .ok (⟨[flat.length], flat⟩, l) ∧
      ∀ o j i, o < prod pre → j < n → i < prod suf →
        flat[flatPos (prod pre) (prod suf) ts.length n o j i]? =
          (data[(o * n + j) * prod suf + i]?).map
            (((gs.map (fun g => g c)).take (stageOf ts.length n j + 1)).foldl (fun f g => g ∘ f) id) := by
  have hlen : gs.length = ts.length := hpw.length_eq.symm
  have hl : data.length = prod pre * (n * prod suf) := by rw [hwf, prod_mid]
  by_cases hn : 2 ^ ts.length ≤ n
  · rw [build_ok pre suf ts n hts hn] at hb
    obtain rfl := Except.ok.inj hb
    have hn' : 2 ^ (ts.length - 1) ≤ n := le_trans (Nat.pow_le_pow_right (by norm_num) (Nat.sub_le _ _)) hn
    obtain ⟨l, hf⟩ := fwdStages_pointwise_acc A pre suf c ts gs n data [] A.zero hpw hts hn'
    refine ⟨(List.zipWith (fun f seg => List.map f seg) (prefixMaps (gs.map (fun g => g c)))
      (routeSegs (prod pre) (prod suf) ts.length n data)).flatten, l, ?_, ?_⟩
    · have h1 : ¬ (pre.length + 1 ≥ pre.length + (suf.length + 1) + 1) := by omega
      simp only [MS.forward, List.length_append, List.length_cons, h1, if_false, ne_eq, not_true_eq_false,
        Nat.add_sub_cancel, hf, List.nil_append]
    · have hne : gs.map (fun g => g c) ≠ [] := by
        intro h
        have : gs.length = 0 := by simpa using congrArg List.length h
        have := List.length_pos_iff.mpr hts
        omega
      have h := routeSegs_prefix_index (prod pre) (prod suf) (gs.map (fun g => g c)) n data hl hne
      simp only [List.length_map, hlen] at h
      exact h
  · rw [build_small pre suf ts n hts hn] at hb
    cases hb

/-! ## §D  reachable objects have a positive `split_dim` -/

/-- `__init__` only returns objects with `split_dim ≥ 1` -/
theorem new_splitDim_pos {numT : Int} {sd : PyArg} {m : MS α C L} (h : MS.new numT sd = .ok m) : 0 < m.splitDim := by
  cases sd with
  | int v =>
    simp only [MS.new] at h
    split at h
    · obtain rfl := Except.ok.inj h
      show 0 < v.toNat
      omega
    · cases h
  | other => cases h

/-- `add_transform` never changes `split_dim` (nor `num_transforms`) -/
theorem addTransform_splitDim {m m' : MS α C L} {t : Tr (Item α) C L} {shape : List Nat} {r : Option (List Nat)}
    (h : m.addTransform t shape = .ok (m', r)) : m'.splitDim = m.splitDim ∧ m'.numTransforms = m.numTransforms := by
  unfold MS.addTransform at h
  split at h; · simp at h
  split at h; · simp at h
  split at h; · simp at h
  simp only at h
  split at h; · simp at h
  split at h <;>
  · simp only [Except.ok.injEq, Prod.mk.injEq] at h
    obtain ⟨rfl, _⟩ := h
    simp

theorem addChain_splitDim : ∀ (ts : List (Tr (Item α) C L)) (m m' : MS α C L) (sh : Option (List Nat)),
    addChain m ts sh = .ok m' → m'.splitDim = m.splitDim
  | [], m, m', _, h => by
    simp only [addChain] at h
    obtain rfl := Except.ok.inj h
    rfl
  | _ :: _, _, _, none, h => by simp [addChain] at h
  | t :: ts, m, m', some shape, h => by
    simp only [addChain] at h
    split at h
    · cases h
    · rename_i m1 hid heq
      rw [addChain_splitDim ts m1 m' hid h, (addTransform_splitDim heq).1]

/-- every object produced by `MS.build` has `split_dim ≥ 1` -/
theorem build_splitDim_pos {numT : Int} {sd : PyArg} {ts : List (Tr (Item α) C L)} {shape : List Nat} {m : MS α C L}
    (h : MS.build numT sd ts shape = .ok m) : 0 < m.splitDim := by
  unfold MS.build at h
  split at h
  · cases h
  · rename_i m0 h0
    rw [addChain_splitDim ts m0 m _ h]
    exact new_splitDim_pos h0

/-- the object states reachable through the public interface: `__init__`, then any number of successful
    `add_transform` calls -/
inductive Reachable : MS α C L → Prop
  | new {numT : Int} {sd : PyArg} {m : MS α C L} : MS.new numT sd = .ok m → Reachable m
  | add {m m' : MS α C L} {t : Tr (Item α) C L} {shape : List Nat} {r : Option (List Nat)} :
      Reachable m → m.addTransform t shape = .ok (m', r) → Reachable m'

/-- **`split_dim = 0` is unreachable** -/
theorem Reachable.splitDim_pos {m : MS α C L} (h : Reachable m) : 0 < m.splitDim := by
  induction h with
  | new h0 => exact new_splitDim_pos h0
  | add _ h1 ih => rw [(addTransform_splitDim h1).1]; exact ih

/-- **`add_transform` error contract on reachable states** (`split_dim = d + 1`, so `split_dim - 1 = d` is a genuine
    non-negative Python index into the declared shape; no truncated subtraction is involved) -/
theorem addTransform_errors_pos (m : MS α C L) (d : Nat) (hd : m.splitDim = d + 1) (t : Tr (Item α) C L)
    (shape : List Nat) :
    (m.numTransforms < m.transforms.length → m.addTransform t shape = .error .assertion) ∧
    (m.numTransforms = m.transforms.length → m.addTransform t shape = .error .runtime) ∧
    ((m.transforms.length : Int) < m.numTransforms → shape.length ≤ d →
      m.addTransform t shape = .error .valueError) ∧
    ((m.transforms.length : Int) < m.numTransforms → ∀ v, shape[d]? = some v → v < 2 →
      m.addTransform t shape = .error .valueError) := by
  have hd' : m.splitDim - 1 = d := by omega
  refine ⟨fun h => ?_, fun h => ?_, fun h h' => ?_, fun h v hv h'' => ?_⟩
  · have : ¬ ((m.transforms.length : Int) ≤ m.numTransforms) := by omega
    simp [MS.addTransform, this]
  · simp [MS.addTransform, h]
  · have h1 : (m.transforms.length : Int) ≤ m.numTransforms := by omega
    have h2 : ¬ ((m.transforms.length : Int) = m.numTransforms) := by omega
    simp [MS.addTransform, h1, h2, hd', h']
  · have h1 : (m.transforms.length : Int) ≤ m.numTransforms := by omega
    have h2 : ¬ ((m.transforms.length : Int) = m.numTransforms) := by omega
    have hlt : d < shape.length := by
      by_contra hc
      rw [List.getElem?_eq_none (by omega)] at hv
      cases hv
    have h3 : ¬ (shape.length ≤ d) := by omega
    simp [MS.addTransform, h1, h2, h3, hd', hv, h'']

/-- **call-time error contract on reachable states** (`split_dim = d + 1`; `inputs.dim() = x.shape.length + 1`) -/
theorem call_errors_pos (A : LD L) (m : MS α C L) (d : Nat) (hd : m.splitDim = d + 1) (x : Item α) (c : C) :
    (x.shape.length ≤ d → m.forward A x c = .error .valueError) ∧
    (d < x.shape.length → m.numTransforms ≠ m.transforms.length → m.forward A x c = .error .runtime) ∧
    (x.shape.length + 1 ≠ 2 → m.inverse A x c = .error .valueError) ∧
    (x.shape.length + 1 = 2 → m.numTransforms ≠ m.transforms.length → m.inverse A x c = .error .runtime) := by
  refine ⟨fun h => ?_, fun h h' => ?_, fun h => ?_, fun h h' => ?_⟩
  · have : x.shape.length + 1 ≤ m.splitDim := by omega
    simp [MS.forward, this]
  · have : ¬ (x.shape.length + 1 ≤ m.splitDim) := by omega
    simp [MS.forward, this, h']
  · simp [MS.inverse, h]
  · simp [MS.inverse, h, h']

/-- on a reachable state the executed stage loop splits along item dimension `split_dim - 1 ≥ 0` -/
theorem Reachable.exists_dim {m : MS α C L} (h : Reachable m) : ∃ d, m.splitDim = d + 1 :=
  ⟨m.splitDim - 1, by have := h.splitDim_pos; omega⟩

/-! ## concrete checks (`decide`), agreeing with the executed functions -/

/-- a stage that returns its input (log-det `0`) -/
def idStage : Tr (Item Nat) Unit Nat := ⟨fun x _ => .ok (x, 0), fun x _ => .ok (x, 0)⟩

theorem idStage_pointwise : IsPointwise idStage (fun _ => id) := fun x _ => ⟨0, by simp [idStage]⟩

/-- an accumulator that satisfies NO monoid law (`zero = 7`, `add a b = 2a + b`) -/
def oddLD : LD Nat := ⟨7, fun a b => 2 * a + b⟩

/-- 1-D, `n = 5`, two stages: `[0,1,2 | 3,4]` -/
example :
    ((MS.build 2 (.int 1) [idStage, idStage] [5] >>= fun m =>
        m.forward oddLD ⟨[5], [0, 1, 2, 3, 4]⟩ ()).toOption.map (fun r => (r.1.shape, r.1.data))) =
      some ([5], [0, 1, 2, 3, 4]) ∧
    routeSegs 1 1 2 5 [0, 1, 2, 3, 4] = [[0, 1, 2], [3, 4]] ∧
    (List.range 2).map (segOf 2 5 [0, 1, 2, 3, 4]) = [[0, 1, 2], [3, 4]] ∧
    (List.range 5).map (stageOf 2 5) = [0, 0, 0, 1, 1] ∧
    (List.range 2).map (moff 5) = [0, 3] := by decide

/-- 1-D, `n = 9`, three stages: `9 → 5 | 4 → 2 | 2`: `[0,1,2,3,4 | 5,6 | 7,8]` -/
example :
    ((MS.build 3 (.int 1) [idStage, idStage, idStage] [9] >>= fun m =>
        m.forward oddLD ⟨[9], [0, 1, 2, 3, 4, 5, 6, 7, 8]⟩ ()).toOption.map (fun r => (r.1.shape, r.1.data))) =
      some ([9], [0, 1, 2, 3, 4, 5, 6, 7, 8]) ∧
    routeSegs 1 1 3 9 [0, 1, 2, 3, 4, 5, 6, 7, 8] = [[0, 1, 2, 3, 4], [5, 6], [7, 8]] ∧
    (List.range 3).map (segOf 3 9 [0, 1, 2, 3, 4, 5, 6, 7, 8]) = [[0, 1, 2, 3, 4], [5, 6], [7, 8]] ∧
    (List.range 9).map (stageOf 3 9) = [0, 0, 0, 0, 0, 1, 1, 2, 2] ∧
    (List.range 3).map (moff 9) = [0, 5, 7] ∧ (List.range 3).map (msize 9) = [9, 4, 2] := by decide

/-- the hypotheses of `forward_1d` are satisfiable: the theorem instantiated on the example above -/
example : ∃ m : MS Nat Unit Nat, MS.build 3 (.int 1) [idStage, idStage, idStage] [9] = .ok m ∧
    ∃ l, m.forward oddLD ⟨[9], [0, 1, 2, 3, 4, 5, 6, 7, 8]⟩ () = .ok (⟨[9], [0, 1, 2, 3, 4, 5, 6, 7, 8]⟩, l) := by
  have hb := build_ok (C := Unit) (L := Nat) [] [] [idStage, idStage, idStage] 9 (by simp) (by decide)
  refine ⟨_, hb, ?_⟩
  exact (forward_1d oddLD 9 [idStage, idStage, idStage]
    (fun t ht => by
      simp only [List.mem_cons, List.not_mem_nil, or_false, or_self] at ht
      rw [ht]; exact idStage_pointwise)
    (by simp) _ hb _ rfl ()).1

/-- general shape `[2, 5]`, split along the last dimension, two stages: executed output, and `flatPos` locates every
    input entry `(o, j)` in it -/
example :
    ((MS.build 2 (.int 2) [idStage, idStage] [2, 5] >>= fun m =>
        m.forward oddLD ⟨[2, 5], [0, 1, 2, 3, 4, 10, 11, 12, 13, 14]⟩ ()).toOption.map (fun r => (r.1.shape, r.1.data))) =
      some ([10], [0, 1, 2, 10, 11, 12, 3, 4, 13, 14]) ∧
    ((List.range 2).all fun o => (List.range 5).all fun j =>
      [0, 1, 2, 10, 11, 12, 3, 4, 13, 14][flatPos 2 1 2 5 o j 0]? == [0, 1, 2, 3, 4, 10, 11, 12, 13, 14][o * 5 + j]?) = true ∧
    (List.range 5).map (fun j => flatPos 2 1 2 5 1 j 0) = [3, 4, 5, 8, 9] := by decide

/-- the hypotheses of `forward_index` are satisfiable: instantiated at shape `[2, 5]`, `split_dim = 2`, two stages -/
example : ∃ (m : MS Nat Unit Nat) (flat : List Nat) (l : Nat),
    MS.build 2 (.int 2) [idStage, idStage] [2, 5] = .ok m ∧
    m.forward oddLD ⟨[2, 5], [0, 1, 2, 3, 4, 10, 11, 12, 13, 14]⟩ () = .ok (⟨[10], flat⟩, l) ∧
    ∀ o j, o < 2 → j < 5 → flat[flatPos 2 1 2 5 o j 0]? = [0, 1, 2, 3, 4, 10, 11, 12, 13, 14][(o * 5 + j) * 1 + 0]? := by
  have hb := build_ok (C := Unit) (L := Nat) [2] [] [idStage, idStage] 5 (by simp) (by decide)
  obtain ⟨flat, l, h1, _, h3⟩ := forward_index oddLD [2] [] 5 [idStage, idStage]
    (fun t ht => by
      simp only [List.mem_cons, List.not_mem_nil, or_false, or_self] at ht
      rw [ht]; exact idStage_pointwise)
    (by simp) _ hb [0, 1, 2, 3, 4, 10, 11, 12, 13, 14] (by decide) ()
  exact ⟨_, flat, l, hb, h1, fun o j ho hj => h3 o j 0 (by simpa [prod] using ho) hj (by decide)⟩

/-- shape `[4, 3]`, split along the FIRST dimension (`split_dim = 1`), two stages: rows 0,1 first, then rows 2,3 -/
example :
    ((MS.build 2 (.int 1) [idStage, idStage] [4, 3] >>= fun m =>
        m.forward oddLD ⟨[4, 3], [0, 1, 2, 10, 11, 12, 20, 21, 22, 30, 31, 32]⟩ ()).toOption.map (fun r => r.1.data)) =
      some [0, 1, 2, 10, 11, 12, 20, 21, 22, 30, 31, 32] ∧
    (List.range 4).map (fun j => flatPos 1 3 2 4 0 j 1) = [1, 4, 7, 10] := by decide

/-- element-wise stages `+1` then `*2` on `[5]`: the emitted half `[0,1,2]` saw only `+1`, the rest saw both -/
example :
    let inc : Tr (Item Nat) Unit Nat := ⟨fun x _ => .ok (⟨x.shape, x.data.map (· + 1)⟩, 0), fun x _ => .ok (x, 0)⟩
    let dbl : Tr (Item Nat) Unit Nat := ⟨fun x _ => .ok (⟨x.shape, x.data.map (· * 2)⟩, 0), fun x _ => .ok (x, 0)⟩
    ((MS.build 2 (.int 1) [inc, dbl] [5] >>= fun m =>
        m.forward oddLD ⟨[5], [0, 1, 2, 3, 4]⟩ ()).toOption.map (fun r => r.1.data)) = some [1, 2, 3, 8, 10] := by
  decide

/-- `split_dim = 0`, negative and non-`int` are rejected by `__init__` -/
example :
    ((MS.new 3 (.int 0) : Except Err (MS Nat Unit Nat)).toOption.map (·.splitDim)) = none ∧
    ((MS.new 3 (.int (-1)) : Except Err (MS Nat Unit Nat)).toOption.map (·.splitDim)) = none ∧
    ((MS.new 3 .other : Except Err (MS Nat Unit Nat)).toOption.map (·.splitDim)) = none ∧
    ((MS.new 3 (.int 1) : Except Err (MS Nat Unit Nat)).toOption.map (·.splitDim)) = some 1 := by decide

end NF.Wrap
