import NflowsModel.Lemmas.DistReal
import Mathlib.MeasureTheory.Constructions.Pi
import Mathlib.MeasureTheory.Measure.Lebesgue.Basic
import Mathlib.MeasureTheory.Integral.Pi
import Mathlib.MeasureTheory.Measure.WithDensity
import Mathlib.Analysis.SpecialFunctions.Pow.Real
/-!
# Lemmas/DensityGaps — gaps of C05 named by the external audit (findings 2, 3, 5, 8)

* §1 (finding 8) the executed `sigmoid` is `1 / (1 + e^{-l})`; the executed Bernoulli sampling map, under uniform
  noise on `[0,1)ᴰ`, produces each binary row with probability `exp` of the EXECUTED `log_prob` of that row.
* §2 (finding 3) the KDE bandwidth `N ** (-1/(D+4))` for `N ≥ 1`; the `N = 0` artefact of the model.
* §3 (finding 2) `MG1Uniform`: the executed `log_prob` integrates to one and the sampling map has that law.
* §4 (finding 5) the law of `μ + σ ⊙ ε`, `ε` standard normal on `ℝᴰ`, has density `exp(diagNormalRow …)`.
-/
open MeasureTheory ProbabilityTheory DualSound NF NF.Density DistReal

namespace DensityGaps
noncomputable section
variable (e : Float → ℝ)

/-! ## §1 Bernoulli: executed sigmoid, executed sampling map, executed density -/

/-- **the executed `torch.sigmoid`** -/
theorem sigmoid_exec (l : ℝ) : (NF.realX e).sigmoid l = 1 / (1 + Real.exp (-l)) := realX_sigmoid e l

theorem sigmoid_exec_mem (l : ℝ) : 0 < (NF.realX e).sigmoid l ∧ (NF.realX e).sigmoid l < 1 := by
  rw [sigmoid_exec]
  refine ⟨by positivity, ?_⟩
  rw [div_lt_one (by positivity)]; linarith [Real.exp_pos (-l)]

/-- the executed sigmoid is `exp` of the executed one-feature `log_prob` at `x = 1`, and its complement at `x = 0`
    (below the softplus threshold) -/
theorem sigmoid_exec_eq_density (l : ℝ) (h : |l| ≤ 20) :
    (NF.realX e).sigmoid l = Real.exp (bernRow (NF.realX e) [l] [1]) ∧
    1 - (NF.realX e).sigmoid l = Real.exp (bernRow (NF.realX e) [l] [0]) := by
  have h1 := abs_le.mp h
  have hs1 : (NF.realX e).softplus (-l) = Bernoulli.softplus (-l) := softplus_small e _ (by linarith)
  have hs2 : (NF.realX e).softplus l = Bernoulli.softplus l := softplus_small e _ (by linarith)
  have r1 : bernRow (NF.realX e) [l] [1] = -Bernoulli.softplus (-l) := by
    simp [bernRow, sumG, hs1, hs2]
  have r0 : bernRow (NF.realX e) [l] [0] = -Bernoulli.softplus l := by
    simp [bernRow, sumG, hs1, hs2]
  rw [r1, r0, Bernoulli.exp_neg_softplus, Bernoulli.exp_neg_softplus, sigmoid_exec]
  refine ⟨rfl, ?_⟩
  have : Real.exp (-l) = (Real.exp l)⁻¹ := Real.exp_neg l
  have hp := Real.exp_pos l
  rw [this]; field_simp; ring

/-- the executed sampling map on one context row / one draw (discrete.py:58-68) -/
theorem bernSampleMap_exec {D : ℕ} (l u : Fin D → ℝ) :
    bernSampleMap (NF.realX e) [List.ofFn l] 1 [List.ofFn u]
      = [List.ofFn fun i => if u i < (NF.realX e).sigmoid (l i) then (1 : ℝ) else 0] := by
  simp [bernSampleMap, zipWith_ofFn]

/-- one coordinate: the noise values in `[0,1)` for which the executed indicator equals `ind x` form an interval of
    length `exp(executed log_prob of x)` -/
theorem bern_coord_set (l : ℝ) (h : |l| ≤ 20) (x : Bool) :
    volume {t : ℝ | (0 ≤ t ∧ t < 1) ∧ (if t < (NF.realX e).sigmoid l then (1 : ℝ) else 0) = Bernoulli.ind x}
      = ENNReal.ofReal (Real.exp (bernRow (NF.realX e) [l] [Bernoulli.ind x])) := by
  obtain ⟨hp0, hp1⟩ := sigmoid_exec_mem e l
  obtain ⟨e1, e0⟩ := sigmoid_exec_eq_density e l h
  cases x
  · have : {t : ℝ | (0 ≤ t ∧ t < 1) ∧ (if t < (NF.realX e).sigmoid l then (1 : ℝ) else 0) = Bernoulli.ind false}
        = Set.Ico ((NF.realX e).sigmoid l) 1 := by
      ext t
      simp only [Set.mem_ofPred_eq, Set.mem_Ico, Bernoulli.ind, Bool.false_eq_true, if_false]
      constructor
      · rintro ⟨⟨_, h1⟩, h2⟩
        refine ⟨?_, h1⟩
        by_contra hc
        rw [if_pos (not_le.mp hc)] at h2; norm_num at h2
      · rintro ⟨h1, h2⟩
        exact ⟨⟨by linarith, h2⟩, by rw [if_neg (not_lt.mpr h1)]⟩
    rw [this, Real.volume_Ico]
    simp only [Bernoulli.ind, Bool.false_eq_true, if_false]
    rw [← e0]
  · have : {t : ℝ | (0 ≤ t ∧ t < 1) ∧ (if t < (NF.realX e).sigmoid l then (1 : ℝ) else 0) = Bernoulli.ind true}
        = Set.Ico 0 ((NF.realX e).sigmoid l) := by
      ext t
      simp only [Set.mem_ofPred_eq, Set.mem_Ico, Bernoulli.ind, if_true]
      constructor
      · rintro ⟨⟨h0, _⟩, h2⟩
        refine ⟨h0, ?_⟩
        by_contra hc
        rw [if_neg hc] at h2; norm_num at h2
      · rintro ⟨h0, h1⟩
        exact ⟨⟨h0, by linarith⟩, by rw [if_pos h1]⟩
    rw [this, Real.volume_Ico, sub_zero]
    simp only [Bernoulli.ind, if_true]
    rw [← e1]

/-- the executed row `log_prob` is the sum of the executed one-feature `log_prob`s -/
theorem bernRow_sum {D : ℕ} (l x : Fin D → ℝ) :
    bernRow (NF.realX e) (List.ofFn l) (List.ofFn x) = ∑ i, bernRow (NF.realX e) [l i] [x i] := by
  unfold bernRow
  rw [zipWith_ofFn, sumG_ofFn]
  apply Finset.sum_congr rfl
  intro i _
  simp [sumG]

/-- **samples follow the EXECUTED density, every event size `D`**: with noise `u` uniform on `[0,1)ᴰ` (`torch.rand`,
    trusted), the executed sampling map `[u < sigmoid(logits)]` returns the binary row `x` with probability
    `exp(bernRow …)` — `exp` of the executed `log_prob` of that row (logits below the softplus threshold, which
    `bernoulli_threshold_counterexample` shows to be necessary for the density to be a density at all) -/
theorem bernoulli_sample_law_exec {D : ℕ} (l : Fin D → ℝ) (h : ∀ i, |l i| ≤ 20) (x : Fin D → Bool) :
    volume {u : Fin D → ℝ | (∀ i, 0 ≤ u i ∧ u i < 1) ∧
        bernSampleMap (NF.realX e) [List.ofFn l] 1 [List.ofFn u] = [List.ofFn fun i => Bernoulli.ind (x i)]}
      = ENNReal.ofReal (Real.exp (bernRow (NF.realX e) (List.ofFn l) (List.ofFn fun i => Bernoulli.ind (x i)))) := by
  have hset : {u : Fin D → ℝ | (∀ i, 0 ≤ u i ∧ u i < 1) ∧
        bernSampleMap (NF.realX e) [List.ofFn l] 1 [List.ofFn u] = [List.ofFn fun i => Bernoulli.ind (x i)]}
      = Set.pi Set.univ (fun i => {t : ℝ | (0 ≤ t ∧ t < 1) ∧
          (if t < (NF.realX e).sigmoid (l i) then (1 : ℝ) else 0) = Bernoulli.ind (x i)}) := by
    ext u
    simp only [Set.mem_ofPred_eq, bernSampleMap_exec, Set.mem_pi, Set.mem_univ, true_implies, List.cons.injEq, and_true]
    rw [List.ofFn_inj]
    constructor
    · rintro ⟨h1, h2⟩ i
      exact ⟨h1 i, congrFun h2 i⟩
    · intro h1
      exact ⟨fun i => (h1 i).1, funext fun i => (h1 i).2⟩
  rw [hset, volume_pi_pi, bernRow_sum, Real.exp_sum, ENNReal.ofReal_prod_of_nonneg (fun i _ => (Real.exp_pos _).le)]
  apply Finset.prod_congr rfl
  intro i _
  exact bern_coord_set e (l i) (h i) (x i)

/-- the probabilities of all `2ᴰ` outcomes add up to the volume of the noise cube, one -/
theorem bernoulli_sample_law_total {D : ℕ} (l : Fin D → ℝ) (h : ∀ i, |l i| ≤ 20) :
    ∑ x : Fin D → Bool, Real.exp (bernRow (NF.realX e) (List.ofFn l) (List.ofFn fun i => Bernoulli.ind (x i))) = 1 := by
  simp_rw [bernRow_real e l _ h]
  exact Bernoulli.bernoulli_sum_one l

/-! ## §2 the KDE bandwidth -/

/-- **the bandwidth the code uses, `std = N ** (-1/(D+4))`, for a non-empty sample set**: the executed value is that
    real power, it is positive and at most one -/
theorem kdeStd_exec_pos (N D : ℕ) (hN : 0 < N) :
    kdeStd (NF.realX e) N D = (N : ℝ) ^ (-(1 / ((D + 4 : ℕ) : ℝ))) ∧ 0 < kdeStd (NF.realX e) N D ∧
    kdeStd (NF.realX e) N D ≤ 1 := by
  have hNr : (0 : ℝ) < N := by exact_mod_cast hN
  have h1 : kdeStd (NF.realX e) N D = (N : ℝ) ^ (-(1 / ((D + 4 : ℕ) : ℝ))) := by
    rw [kdeStd_real, Real.rpow_def_of_pos hNr, mul_comm]
  refine ⟨h1, kdeStd_pos e N D, ?_⟩
  rw [h1]
  apply Real.rpow_le_one_of_one_le_of_nonpos
  · exact_mod_cast hN
  · have : (0 : ℝ) < ((D + 4 : ℕ) : ℝ) := by positivity
    have : 0 < 1 / ((D + 4 : ℕ) : ℝ) := by positivity
    linarith

/-- **artefact of the model at `N = 0`**: the executed formula `exp(-(1/(D+4)) · log N)` returns `1` for an empty
    sample set (`Real.log 0 = 0`), where Python's `0 ** (-1/(D+4))` raises `ZeroDivisionError`; it is NOT the real
    power `0 ^ (-1/(D+4)) = 0` of Mathlib's totalisation either.  So `0 < N` is a necessary hypothesis of
    `kdeStd_exec_pos`, and positivity of `kdeStd` at `N = 0` says nothing about the code. -/
theorem kdeStd_zero_counterexample (D : ℕ) :
    kdeStd (NF.realX e) 0 D = 1 ∧ kdeStd (NF.realX e) 0 D ≠ ((0 : ℕ) : ℝ) ^ (-(1 / ((D + 4 : ℕ) : ℝ))) := by
  have h1 : kdeStd (NF.realX e) 0 D = 1 := by rw [kdeStd_real]; simp
  refine ⟨h1, ?_⟩
  rw [h1, Nat.cast_zero, Real.zero_rpow]
  · exact one_ne_zero
  · have : (0 : ℝ) < ((D + 4 : ℕ) : ℝ) := by positivity
    have : 0 < 1 / ((D + 4 : ℕ) : ℝ) := by positivity
    linarith

/-! ## §3 MG1Uniform: normalisation and sampling law -/

/-- right multiplication by a matrix of determinant one preserves Lebesgue measure -/
theorem vecMul_measurePreserving {ι : Type} [Fintype ι] [DecidableEq ι] (M : Matrix ι ι ℝ) (hM : M.det = 1) :
    MeasurePreserving (fun p : ι → ℝ => Matrix.vecMul p M) volume volume := by
  have hfun : (fun p : ι → ℝ => Matrix.vecMul p M) = Matrix.toLin' M.transpose := by
    funext p; rw [Matrix.toLin'_apply, Matrix.mulVec_transpose]
  rw [hfun]
  refine ⟨(LinearMap.continuous_on_pi _).measurable, ?_⟩
  rw [Real.map_matrix_volume_pi_eq_smul_volume_pi (by rw [Matrix.det_transpose, hM]; exact one_ne_zero),
    Matrix.det_transpose, hM]
  simp

/-- the density of the noise: uniform on the closed box (torch's `Uniform` validates `low ≤ v ≤ high`) -/
def boxDens (low high : Fin 3 → ℝ) : (Fin 3 → ℝ) → ℝ :=
  (Set.Icc low high).indicator (fun _ => ∏ i, (high i - low i)⁻¹)

/-- **the density of the executed MG1 prior row**: `exp` of the sum of the per-coordinate values `mg1LogProb`
    returns, and `0` where it raises `ValueError` (noise outside the closed box) -/
def mg1Density (low high p : Fin 3 → ℝ) : ℝ :=
  match mg1LogProb (NF.realX e) (List.ofFn low) (List.ofFn high) (List.ofFn p) with
  | .ok v => Real.exp v.sum
  | .error _ => 0

theorem ofFn3 {α : Type} (p : Fin 3 → α) : List.ofFn p = [p 0, p 1, p 2] := by
  simp [List.ofFn_succ]

theorem mg1ToNoise_real (p : Fin 3 → ℝ) :
    mg1ToNoise (NF.realX e) (List.ofFn p) = List.ofFn (Matrix.vecMul p mg1A) := by
  rw [ofFn3 p, ofFn3 (Matrix.vecMul p mg1A)]
  simp [mg1ToNoise, mg1A, Matrix.vecMul, dotProduct, Fin.sum_univ_three]
  ring

theorem mg1ToParams_real (v : Fin 3 → ℝ) :
    mg1ToParams (NF.realX e) (List.ofFn v) = List.ofFn (Matrix.vecMul v mg1Ainv) := by
  rw [ofFn3 v, ofFn3 (Matrix.vecMul v mg1Ainv)]
  simp [mg1ToParams, mg1Ainv, Matrix.vecMul, dotProduct, Fin.sum_univ_three]

/-- at the reals one coordinate of torch's `Uniform.log_prob` is `-log(high - low)` for EVERY `x` (outside `[low, high)`
    the code's `log 0 = -inf` is `Real.log 0 = 0`): the support of `mg1Density` comes from the executed `ValueError`
    check, which is why the density below is defined through it -/
theorem uniformCoord_total (l h x : ℝ) : uniformCoord (NF.realX e) l h x = -Real.log (h - l) := by
  by_cases hin : l ≤ x ∧ x < h
  · exact uniformCoord_inside e l h x hin
  · simp [uniformCoord, hin]

/-- the executed density is the box density of the noise `p @ A` -/
theorem mg1Density_eq (low high p : Fin 3 → ℝ) (hlh : ∀ i, low i < high i) :
    mg1Density e low high p = boxDens low high (Matrix.vecMul p mg1A) := by
  unfold mg1Density mg1LogProb boxDens
  simp only [mg1ToNoise_real, zipWith3_ofFn]
  by_cases hin : Matrix.vecMul p mg1A ∈ Set.Icc low high
  · have hok : ((List.ofFn fun i => if ((NF.realX e).le (low i) (Matrix.vecMul p mg1A i) &&
          (NF.realX e).le (Matrix.vecMul p mg1A i) (high i)) = true then (NF.realX e).one else (NF.realX e).zero).all
          fun b => (NF.realX e).lt (NF.realX e).zero b) = true := by
      rw [all_ofFn]
      intro i
      have h1 := hin.1 i
      have h2 := hin.2 i
      simp [h1, h2]
    rw [Set.indicator_of_mem hin]
    simp only [hok, Bool.not_true, Bool.false_eq_true, if_false, List.sum_ofFn]
    rw [Real.exp_sum]
    apply Finset.prod_congr rfl
    intro i _
    rw [uniformCoord_total e, Real.exp_neg, Real.exp_log (by linarith [hlh i])]
  · have hok : ((List.ofFn fun i => if ((NF.realX e).le (low i) (Matrix.vecMul p mg1A i) &&
          (NF.realX e).le (Matrix.vecMul p mg1A i) (high i)) = true then (NF.realX e).one else (NF.realX e).zero).all
          fun b => (NF.realX e).lt (NF.realX e).zero b) = false := by
      rw [Bool.eq_false_iff]
      intro hc
      rw [all_ofFn] at hc
      apply hin
      constructor <;> intro i <;> have := hc i <;> by_cases h1 : low i ≤ Matrix.vecMul p mg1A i <;>
        by_cases h2 : Matrix.vecMul p mg1A i ≤ high i <;> simp_all
    rw [Set.indicator_of_notMem hin]
    simp only [hok, Bool.not_false, ↓reduceIte]

theorem boxDens_measurable (low high : Fin 3 → ℝ) : Measurable (boxDens low high) :=
  measurable_const.indicator measurableSet_Icc

theorem boxDens_integral (low high : Fin 3 → ℝ) (hlh : ∀ i, low i < high i) : ∫ v, boxDens low high v = 1 := by
  unfold boxDens
  rw [integral_indicator_const _ measurableSet_Icc, Measure.real, Real.volume_Icc_pi_toReal (fun i => (hlh i).le),
    smul_eq_mul, ← Finset.prod_mul_distrib]
  apply Finset.prod_eq_one
  intro i _
  exact mul_inv_cancel₀ (by linarith [hlh i])

/-- **MG1Uniform is normalised**: `∫ exp(log_prob) = 1` for the executed prior row, every non-degenerate box
    (the push-forward of the box uniform by the linear map `A⁻¹` with `|det| = 1`) -/
theorem mg1_normalised (low high : Fin 3 → ℝ) (hlh : ∀ i, low i < high i) :
    ∫ p : Fin 3 → ℝ, mg1Density e low high p = 1 := by
  simp_rw [mg1Density_eq e low high _ hlh]
  have hmp := vecMul_measurePreserving mg1A (by simp [mg1A, Matrix.det_fin_three])
  have := integral_map (μ := volume) hmp.measurable.aemeasurable
    (f := boxDens low high) (boxDens_measurable low high).aestronglyMeasurable
  rw [hmp.map_eq] at this
  rw [← this]
  exact boxDens_integral low high hlh

/-- **MG1Uniform sampling has that law**: `sample()` draws noise uniformly on the box (torch's `Uniform.sample`,
    trusted; the closed and the half-open box differ by a null set) and returns the executed `_to_parameters(noise)`;
    the law of the result has density `exp(log_prob)` — the executed `mg1Density` — w.r.t. Lebesgue measure -/
theorem mg1_sample_law (low high : Fin 3 → ℝ) (hlh : ∀ i, low i < high i) :
    (volume.withDensity (fun v => ENNReal.ofReal (boxDens low high v))).map (fun v => Matrix.vecMul v mg1Ainv)
      = volume.withDensity (fun p => ENNReal.ofReal (mg1Density e low high p)) := by
  have hmp := vecMul_measurePreserving mg1Ainv (by simp [mg1Ainv, Matrix.det_fin_three])
  have hinv : ∀ v : Fin 3 → ℝ, Matrix.vecMul (Matrix.vecMul v mg1Ainv) mg1A = v := by
    intro v
    have h : mg1Ainv * mg1A = 1 := by
      ext i j
      fin_cases i <;> fin_cases j <;> simp [mg1A, mg1Ainv, Matrix.mul_apply, Fin.sum_univ_three]
    rw [Matrix.vecMul_vecMul, h, Matrix.vecMul_one]
  have hmeasA : Measurable (fun p : Fin 3 → ℝ => Matrix.vecMul p mg1A) :=
    (vecMul_measurePreserving mg1A (by simp [mg1A, Matrix.det_fin_three])).measurable
  ext s hs
  rw [Measure.map_apply hmp.measurable hs, withDensity_apply _ (hmp.measurable hs), withDensity_apply _ hs]
  simp_rw [mg1Density_eq e low high _ hlh]
  have := hmp.setLIntegral_comp_preimage hs
    (f := fun p => ENNReal.ofReal (boxDens low high (Matrix.vecMul p mg1A)))
    (ENNReal.measurable_ofReal.comp ((boxDens_measurable low high).comp hmeasA))
  simp only [hinv] at this
  exact this

/-- the executed `_to_parameters` is the map of `mg1_sample_law` -/
theorem mg1_sample_exec (v : Fin 3 → ℝ) :
    mg1ToParams (NF.realX e) (List.ofFn v) = List.ofFn (Matrix.vecMul v mg1Ainv) := mg1ToParams_real e v

/-! ## §4 DiagonalNormal / ConditionalDiagonalNormal: the `D`-dimensional sampling law -/

/-- a product of non-degenerate Gaussians on `ℝᴰ` has the product of the 1-D densities as its Lebesgue density -/
theorem pi_gaussian_eq_withDensity {D : ℕ} (m : Fin D → ℝ) (v : Fin D → NNReal) (hv : ∀ i, v i ≠ 0) :
    Measure.pi (fun i => gaussianReal (m i) (v i))
      = (volume : Measure (Fin D → ℝ)).withDensity
          (fun x => ENNReal.ofReal (∏ i, gaussianPDFReal (m i) (v i) (x i))) := by
  apply Measure.pi_eq
  intro s hs
  have hms : MeasurableSet (Set.pi Set.univ s) := MeasurableSet.univ_pi hs
  rw [withDensity_apply _ hms, ← lintegral_indicator hms]
  have hpt : ∀ x : Fin D → ℝ,
      (Set.pi Set.univ s).indicator (fun x => ENNReal.ofReal (∏ i, gaussianPDFReal (m i) (v i) (x i))) x
        = ENNReal.ofReal (∏ i, (s i).indicator (gaussianPDFReal (m i) (v i)) (x i)) := by
    intro x
    by_cases hx : x ∈ Set.pi Set.univ s
    · rw [Set.indicator_of_mem hx]
      congr 1
      apply Finset.prod_congr rfl
      intro i _
      rw [Set.indicator_of_mem (hx i (Set.mem_univ i))]
    · rw [Set.indicator_of_notMem hx]
      simp only [Set.mem_pi, Set.mem_univ, true_implies, not_forall] at hx
      obtain ⟨i, hi⟩ := hx
      rw [Finset.prod_eq_zero (Finset.mem_univ i) (Set.indicator_of_notMem hi _)]
      simp
  simp_rw [hpt]
  have hnn : ∀ i t, 0 ≤ (s i).indicator (gaussianPDFReal (m i) (v i)) t :=
    fun i t => Set.indicator_nonneg (fun _ _ => gaussianPDFReal_nonneg _ _ _) t
  have hint : ∀ i, Integrable ((s i).indicator (gaussianPDFReal (m i) (v i))) volume :=
    fun i => (integrable_gaussianPDFReal _ _).indicator (hs i)
  rw [← ofReal_integral_eq_lintegral_ofReal]
  · rw [integral_fintype_prod_volume_eq_prod (fun i t => (s i).indicator (gaussianPDFReal (m i) (v i)) t),
      ENNReal.ofReal_prod_of_nonneg (fun i _ => integral_nonneg (hnn i))]
    apply Finset.prod_congr rfl
    intro i _
    rw [gaussianReal_apply_eq_integral _ (hv i), integral_indicator (hs i)]
  · rw [volume_pi]; exact Integrable.fintype_prod hint
  · exact Filter.Eventually.of_forall (fun x => Finset.prod_nonneg (fun i _ => hnn i (x i)))

/-- the 1-D sampling map `μ + exp(log σ)·ε` (normal.py:119-127) -/
theorem normal_map_one (μ ls : ℝ) :
    (gaussianReal 0 1).map (fun ε => μ + Real.exp ls * ε) = gaussianReal μ (Gaussian.var ls) := by
  have h : (fun ε => μ + Real.exp ls * ε) = (fun y => y + μ) ∘ (fun ε => Real.exp ls * ε) := by
    funext ε; simp [add_comm]
  rw [h, ← Measure.map_map (measurable_add_const μ) (measurable_const_mul (Real.exp ls)),
    gaussianReal_map_const_mul, gaussianReal_map_add_const]
  congr 1
  · simp
  · apply NNReal.coe_injective
    simp only [mul_one, NNReal.coe_mk, Gaussian.var_coe]
    rw [← Real.exp_nat_mul]; norm_num

/-- **samples follow the EXECUTED density on `ℝᴰ`, every event size**: the law of `μ + σ ⊙ ε` with `ε` standard normal
    on `ℝᴰ` (`torch.randn`, trusted) has density `exp(diagNormalRow …)` — `exp` of the executed row `log_prob` of
    `DiagonalNormal` / `ConditionalDiagonalNormal` — with respect to Lebesgue measure on `Fin D → ℝ` -/
theorem normal_sample_law_pi {D : ℕ} (μ ls : Fin D → ℝ) :
    (Measure.pi fun _ : Fin D => gaussianReal 0 1).map (fun ε i => μ i + Real.exp (ls i) * ε i)
      = (volume : Measure (Fin D → ℝ)).withDensity (fun x => ENNReal.ofReal
          (Real.exp (diagNormalRow (NF.realX e) D (List.ofFn μ) (List.ofFn ls) (List.ofFn x)))) := by
  have : ∀ i, SigmaFinite ((gaussianReal 0 1).map (fun ε => μ i + Real.exp (ls i) * ε)) := by
    intro i; rw [normal_map_one]; infer_instance
  rw [Measure.pi_map_pi (μ := fun _ : Fin D => gaussianReal 0 1) (f := fun i ε => μ i + Real.exp (ls i) * ε)
    (fun i => (Measurable.aemeasurable (by fun_prop)))]
  simp_rw [normal_map_one, diagNormalRow_real, diagNormal_factor]
  exact pi_gaussian_eq_withDensity μ (fun i => Gaussian.var (ls i)) (fun i => Gaussian.var_ne_zero _)

/-- the executed sampling map on one context row / one draw is the coordinate-wise map of `normal_sample_law_pi` -/
theorem normalSampleMap_exec {D : ℕ} (μ ls ε : Fin D → ℝ) :
    normalSampleMap (NF.realX e) [List.ofFn μ] [List.ofFn ls] 1 [List.ofFn ε]
      = [List.ofFn fun i => μ i + Real.exp (ls i) * ε i] := by
  simp [normalSampleMap, List.map_ofFn, zipWith3_ofFn, Function.comp]

/-- consequently the executed density is a probability density (total mass one, as a measure statement) -/
theorem normal_density_mass {D : ℕ} (μ ls : Fin D → ℝ) :
    ((volume : Measure (Fin D → ℝ)).withDensity (fun x => ENNReal.ofReal
      (Real.exp (diagNormalRow (NF.realX e) D (List.ofFn μ) (List.ofFn ls) (List.ofFn x))))) Set.univ = 1 := by
  rw [← normal_sample_law_pi e μ ls, Measure.map_apply (by fun_prop) MeasurableSet.univ]
  simp

/-! ## non-vacuity: concrete instances -/

/-- the Bernoulli law at concrete logits (within the threshold, not all equal), outcome `(1, 0)` -/
example : volume {u : Fin 2 → ℝ | (∀ i, 0 ≤ u i ∧ u i < 1) ∧
      bernSampleMap (NF.realX e) [List.ofFn ![3, -7]] 1 [List.ofFn u] = [List.ofFn fun i => Bernoulli.ind (![true, false] i)]}
    = ENNReal.ofReal (Real.exp (bernRow (NF.realX e) (List.ofFn ![3, -7]) (List.ofFn fun i => Bernoulli.ind (![true, false] i)))) :=
  bernoulli_sample_law_exec e ![3, -7] (by intro i; fin_cases i <;> norm_num) _
/-- the KDE bandwidth for 100 samples in 4 dimensions -/
example : kdeStd (NF.realX e) 100 4 = (100 : ℝ) ^ (-(1 / ((4 + 4 : ℕ) : ℝ))) := by
  have := (kdeStd_exec_pos e 100 4 (by norm_num)).1
  simpa using this
/-- the M/G/1 prior box of the experiments, `[0,10] × [0,10] × [0,1/3]` -/
example : ∫ p : Fin 3 → ℝ, mg1Density e ![0, 0, 0] ![10, 10, 1/3] p = 1 :=
  mg1_normalised e _ _ (by intro i; fin_cases i <;> norm_num)
/-- a point where the executed MG1 density is positive and one where the code raises (density 0) -/
example : mg1Density e ![0, 0, 0] ![10, 10, 1/3] ![1, 2, 1/4] = (10 : ℝ)⁻¹ * (10 : ℝ)⁻¹ * (1/3 : ℝ)⁻¹ ∧
    mg1Density e ![0, 0, 0] ![10, 10, 1/3] ![2, 1, 1/4] = 0 := by
  constructor
  · rw [mg1Density_eq e _ _ _ (by intro i; fin_cases i <;> norm_num), boxDens, Set.indicator_of_mem]
    · simp [Fin.prod_univ_three]; ring
    · constructor <;> intro i <;> fin_cases i <;> simp [mg1A, Matrix.vecMul, dotProduct, Fin.sum_univ_three] <;> norm_num
  · rw [mg1Density_eq e _ _ _ (by intro i; fin_cases i <;> norm_num), boxDens, Set.indicator_of_notMem]
    intro h
    have := h.1 1
    simp [mg1A, Matrix.vecMul, dotProduct, Fin.sum_univ_three] at this
/-- the `D`-dimensional normal law at concrete parameters -/
example : (Measure.pi fun _ : Fin 2 => gaussianReal 0 1).map (fun ε i => ![1, -2] i + Real.exp (![0, 1/2] i) * ε i)
    = (volume : Measure (Fin 2 → ℝ)).withDensity (fun x => ENNReal.ofReal
        (Real.exp (diagNormalRow (NF.realX e) 2 (List.ofFn ![1, -2]) (List.ofFn ![0, 1/2]) (List.ofFn x)))) :=
  normal_sample_law_pi e _ _

end
end DensityGaps
