import NflowsModel.Core.LinearFamily
import NflowsModel.Real.LinearBridge
import NflowsModel.Lemmas.LinearFresh
import NflowsModel.Lemmas.LogdetExecConv
import Mathlib.Tactic
import Mathlib.LinearAlgebra.Matrix.ToLin
import Mathlib.LinearAlgebra.Matrix.NonsingularInverse
import Mathlib.Analysis.Calculus.FDeriv.Add
import Mathlib.Topology.Algebra.Module.FiniteDimension
import Mathlib.Topology.Algebra.Module.Determinant

/-!
# Lemmas/LinearJacobian — the EXECUTED linear family: batch rows are independent (C12), and the returned log-abs-det is
# `log |det D|` of the derivative `D` of the row map actually computed (C01)

Everything is about the list programs the driver runs (`NF.LF.luForward`, `luInverse`, `qrForward`, `qrInverse`,
`svdForward`, `svdInverse`, `hhForward`, `hhInverse`, `naiveForward`, `naiveInverse` of `Core/LinearFamily`) and the
pairs `(outputs, logabsdet)` built from them in `Lemmas/LinearFresh` (`luForwardLd` …, the objects of
`Properties.C11.*_passes_return_logabsdet`).

* §1 (C12, for EVERY `Ops α`, hence for the `Float` / `Float32` run as well as for the reals): every pass is `List.map` of
  a row function (`luForward_rowwise` … `naiveInverse_rowwise`), and so are both components of the `…Ld` pairs
  (`luForwardLd_rowwise` …, bundled as `luForwardLd_pair` … `hhInverseLd_pair : PairRowWise F g c`: the log-det
  component is `X.map (fun _ => c)`, the same `c` for every row and every batch).  Generic consequences for any
  `RowWise f g` (`f X = X.map g`): `RowWise.getElem?`, `.getD`, `.singleton`, `.row_alone`, `.append`, `.take`, `.drop`,
  `.perm`, `.reverse`, `.sublist`; for `PairRowWise`: `.row_alone`, `.append`, `.perm`, `.sublist`.
* §2 the affine map `affine W b = fun x => W *ᵥ x + b` on `Fin n → ℝ`: `affine_hasFDerivAt` (derivative
  `jac W = toContinuousLinearMap (toLin' W)` at every point), `jac_det` (`(jac W).det = W.det`), `invAffine`
  (`y ↦ W⁻¹ *ᵥ (y - b)`, `invAffine_hasFDerivAt`, `affine_invAffine`, `invAffine_affine`), the statement bundle
  `PassIs n F g φ M` and the generic `pass_core`.
* §3 the executed row functions at the reals ARE these affine maps (`luRow_affine`, `luInvRow_affine`, `qrRow_affine`,
  `qrInvRow_affine`, `svdRow_affine`, `svdInvRow_affine`, `hhRow_affine`, `hhInvRow_affine`, `naiveRow_affine`,
  `naiveInvRow_affine_of_spec`), with `W` the matrices `luW`, `qrW`, `svdW`, `LinearFamily.Q` that the theorems
  `Properties.C11.{lu,qr,svd}_executed`, `hh_passes_executed` name.
* §4 headlines `lu_logdet_is_log_abs_det_fderiv`, `qr_…`, `svd_…`, `hh_…` and their `_inverse` forms, plus
  `naive_forward_is_affine_fderiv` (value and derivative only); readers `PassIs.rowwise`, `.hasFDerivAt`, `.fderiv_eq`,
  `.det_ne_zero`, `.entry` (entry `i` of the returned log-dets is `log |det (fderiv ℝ φ x)|` at row `i`), `.row_alone`.
* §5 concrete instances (`n = 2`, non-trivial parameters, a batch of two rows).
* §6 the FORCED hypothesis on the row length (`svd_row_length_forced`, `hh_row_length_forced`).  The other forced
  hypothesis, `bias.length = n`, is shown forced in `Lemmas/LogdetExecConv` §7.
-/

open NF.LF DualSound Matrix LinearBridge LinearFresh

namespace LinearJacobian

/-! ## 1. batch rows are independent: every pass is `List.map` of a row function (any `Ops α`) -/

/-- `f` acts row by row through `g` -/
def RowWise {Row Out : Type} (f : List Row → List Out) (g : Row → Out) : Prop := ∀ X, f X = X.map g

namespace RowWise
variable {Row Out : Type} {f : List Row → List Out} {g : Row → Out}

theorem length (h : RowWise f g) (X : List Row) : (f X).length = X.length := by rw [h X, List.length_map]

/-- row `i` of the result is the row function of row `i` of the batch -/
theorem getElem? (h : RowWise f g) (X : List Row) (i : ℕ) : (f X)[i]? = X[i]?.map g := by rw [h X, List.getElem?_map]

theorem getD (h : RowWise f g) (X : List Row) (i : ℕ) (hi : i < X.length) (d : Row) (d' : Out) :
    (f X).getD i d' = g (X.getD i d) := by
  simp [h X, List.getD_eq_getElem?_getD, hi]

/-- running a row alone gives the same row -/
theorem singleton (h : RowWise f g) (x : Row) : f [x] = [g x] := h [x]

/-- row `i` of the batch run = the run of row `i` alone -/
theorem row_alone (h : RowWise f g) (X : List Row) (i : ℕ) (hi : i < X.length) : f [X[i]] = [(f X)[i]'(by rw [h.length]; exact hi)] := by
  simp [h X, h [X[i]]]

theorem append (h : RowWise f g) (X Y : List Row) : f (X ++ Y) = f X ++ f Y := by rw [h, h, h, List.map_append]

theorem take (h : RowWise f g) (X : List Row) (k : ℕ) : f (X.take k) = (f X).take k := by rw [h, h, List.map_take]

theorem drop (h : RowWise f g) (X : List Row) (k : ℕ) : f (X.drop k) = (f X).drop k := by rw [h, h, List.map_drop]

/-- a permuted batch gives the correspondingly permuted rows -/
theorem perm (h : RowWise f g) {X Y : List Row} (hp : X.Perm Y) : (f X).Perm (f Y) := by rw [h, h]; exact hp.map g

theorem reverse (h : RowWise f g) (X : List Row) : f X.reverse = (f X).reverse := by rw [h, h, List.map_reverse]

/-- a sub-batch gives the corresponding sub-list of rows -/
theorem sublist (h : RowWise f g) {X Y : List Row} (hs : X.Sublist Y) : (f X).Sublist (f Y) := by rw [h, h]; exact hs.map g

end RowWise

section rows
variable {α : Type} (o : Ops α)

/-- `QRLinear.forward_no_cache` on one row -/
def qrRow (p : QRParams α) (x : List α) : List α := addV o (hhSeq o p.qs (matVec o (qrR o p) x)) p.bias
/-- `QRLinear.inverse_no_cache` on one row -/
def qrInvRow (p : QRParams α) (x : List α) : List α := solveUpper o (qrR o p) (hhSeq o p.qs.reverse (subV o x p.bias))
/-- `SVDLinear.forward_no_cache` on one row -/
def svdRow (p : SVDParams α) (x : List α) : List α :=
  addV o (hhSeq o p.qs1 (List.zipWith o.mul (hhSeq o p.qs2 x) (svdDiag o p))) p.bias
/-- `SVDLinear.inverse_no_cache` on one row -/
def svdInvRow (p : SVDParams α) (x : List α) : List α :=
  hhSeq o p.qs2.reverse (List.zipWith o.div (hhSeq o p.qs1.reverse (subV o x p.bias)) (svdDiag o p))
/-- `NaiveLinear.forward_no_cache` on one row -/
def naiveRow (W : List (List α)) (b : List α) (x : List α) : List α := addV o (matVec o W x) b
/-- the inverse matrix `NaiveLinear.inverse_no_cache` builds (it does not depend on the batch) -/
def naiveWinv (n : ℕ) (W : List (List α)) : List (List α) :=
  let aug := (W.zip (eye o n)).map (fun p => p.1 ++ p.2)
  ((List.range n).foldl (fun st c => gaussStep o c st) ([], aug, [])).1.map (fun r => r.drop n)
/-- `NaiveLinear.inverse_no_cache` on one row -/
def naiveInvRow (n : ℕ) (W : List (List α)) (b : List α) (x : List α) : List α := matVec o (naiveWinv o n W) (subV o x b)

theorem luForward_rowwise (p : LUParams α) : RowWise (luForward o p) (LogdetExec.luRow o p) :=
  LogdetExec.luForward_eq_map o p
theorem luInverse_rowwise (p : LUParams α) : RowWise (luInverse o p) (LogdetExec.luInvRow o p) :=
  LogdetExec.luInverse_eq_map o p
theorem qrForward_rowwise (p : QRParams α) : RowWise (qrForward o p) (qrRow o p) := fun X => by
  simp [qrForward, hhForward, linear0, qrRow, List.map_map, Function.comp_def]
theorem qrInverse_rowwise (p : QRParams α) : RowWise (qrInverse o p) (qrInvRow o p) := fun X => by
  simp [qrInverse, hhInverse, qrInvRow, List.map_map, Function.comp_def]
theorem svdForward_rowwise (p : SVDParams α) : RowWise (svdForward o p) (svdRow o p) := fun X => by
  simp [svdForward, hhForward, svdRow, List.map_map, Function.comp_def]
theorem svdInverse_rowwise (p : SVDParams α) : RowWise (svdInverse o p) (svdInvRow o p) := fun X => by
  simp [svdInverse, hhInverse, svdInvRow, List.map_map, Function.comp_def]
theorem hhForward_rowwise (qs : List (List α)) : RowWise (hhForward o qs) (hhSeq o qs) := fun _ => rfl
theorem hhInverse_rowwise (qs : List (List α)) : RowWise (hhInverse o qs) (hhSeq o qs.reverse) := fun _ => rfl
theorem naiveForward_rowwise (W : List (List α)) (b : List α) : RowWise (naiveForward o W b) (naiveRow o W b) := fun _ => rfl
theorem naiveInverse_rowwise (n : ℕ) (W : List (List α)) (b : List α) :
    RowWise (naiveInverse o n W b) (naiveInvRow o n W b) := fun X => by
  simp [naiveInverse, naiveWinv, naiveInvRow, linear0, List.map_map, Function.comp_def]

/-- `c * ones(B)` is the constant row map `_ ↦ c * 1` over any batch of `B` rows -/
theorem timesOnes_eq_map {Row : Type} (c : α) (X : List Row) :
    timesOnes o c X.length = X.map (fun _ => o.mul c (one o)) := by
  simp [timesOnes, List.map_replicate, List.map_const']

/-- **C12 for the pairs the passes return**: outputs and log-abs-dets are both `List.map` of a row function -/
theorem luForwardLd_rowwise (p : LUParams α) (X : List (List α)) :
    luForwardLd o p X = (X.map (LogdetExec.luRow o p), X.map (fun _ => o.mul (luLogabsdet o p) (one o))) := by
  rw [luForwardLd, timesOnes_eq_map, luForward_rowwise]
theorem luInverseLd_rowwise (p : LUParams α) (X : List (List α)) :
    luInverseLd o p X = (X.map (LogdetExec.luInvRow o p), X.map (fun _ => o.mul (o.neg (luLogabsdet o p)) (one o))) := by
  rw [luInverseLd, timesOnes_eq_map, luInverse_rowwise]
theorem qrForwardLd_rowwise (p : QRParams α) (X : List (List α)) :
    qrForwardLd o p X = (X.map (qrRow o p), X.map (fun _ => o.mul (qrLogabsdet o p) (one o))) := by
  rw [qrForwardLd, timesOnes_eq_map, qrForward_rowwise]
theorem qrInverseLd_rowwise (p : QRParams α) (X : List (List α)) :
    qrInverseLd o p X = (X.map (qrInvRow o p), X.map (fun _ => o.mul (o.neg (qrLogabsdet o p)) (one o))) := by
  rw [qrInverseLd, timesOnes_eq_map, qrInverse_rowwise]
theorem svdForwardLd_rowwise (p : SVDParams α) (X : List (List α)) :
    svdForwardLd o p X = (X.map (svdRow o p), X.map (fun _ => o.mul (svdLogabsdet o p) (one o))) := by
  rw [svdForwardLd, timesOnes_eq_map, svdForward_rowwise]
theorem svdInverseLd_rowwise (p : SVDParams α) (X : List (List α)) :
    svdInverseLd o p X = (X.map (svdInvRow o p), X.map (fun _ => o.mul (o.neg (svdLogabsdet o p)) (one o))) := by
  rw [svdInverseLd, timesOnes_eq_map, svdInverse_rowwise]
theorem hhForwardLd_rowwise (qs : List (List α)) (X : List (List α)) :
    hhForwardLd o qs X = (X.map (hhSeq o qs), X.map (fun _ => zero o)) := by
  simp [hhForwardLd, hhForward, List.map_const']
theorem hhInverseLd_rowwise (qs : List (List α)) (X : List (List α)) :
    hhInverseLd o qs X = (X.map (hhSeq o qs.reverse), X.map (fun _ => zero o)) := by
  simp [hhInverseLd, hhInverse, List.map_const']

end rows

/-- a pass returning `(outputs, logabsdets)` acts row by row on both components: row function `g`, per-row log-det `c`
    (the same for every row: it does not depend on the batch) -/
def PairRowWise {Row Out A : Type} (F : List Row → List Out × List A) (g : Row → Out) (c : A) : Prop :=
  ∀ X, F X = (X.map g, X.map (fun _ => c))

namespace PairRowWise
variable {Row Out A : Type} {F : List Row → List Out × List A} {g : Row → Out} {c : A}

theorem fst (h : PairRowWise F g c) : RowWise (fun X => (F X).1) g := fun X => by
  show (F X).1 = _; rw [h X]
theorem snd (h : PairRowWise F g c) : RowWise (fun X => (F X).2) (fun _ => c) := fun X => by
  show (F X).2 = _; rw [h X]

/-- the batch run read at row `i` = the run of row `i` alone, outputs and log-det -/
theorem row_alone (h : PairRowWise F g c) (X : List Row) (i : ℕ) (hi : i < X.length) :
    (F X).1[i]? = some (g X[i]) ∧ (F X).2[i]? = some c ∧ F [X[i]] = ([g X[i]], [c]) := by
  rw [h X, h [X[i]]]
  simp [hi]

theorem append (h : PairRowWise F g c) (X Y : List Row) : F (X ++ Y) = ((F X).1 ++ (F Y).1, (F X).2 ++ (F Y).2) := by
  rw [h, h, h]; simp

/-- a permuted batch gives the correspondingly permuted rows (outputs zipped with their log-dets) -/
theorem perm (h : PairRowWise F g c) {X Y : List Row} (hp : X.Perm Y) :
    ((F X).1.zip (F X).2).Perm ((F Y).1.zip (F Y).2) := by
  rw [h, h]
  simp only [List.zip_map']
  exact hp.map _

theorem sublist (h : PairRowWise F g c) {X Y : List Row} (hs : X.Sublist Y) :
    ((F X).1.zip (F X).2).Sublist ((F Y).1.zip (F Y).2) := by
  rw [h, h]
  simp only [List.zip_map']
  exact hs.map _

end PairRowWise

section pairs
variable {α : Type} (o : Ops α)

/-- **C12 for all eight executed passes of the linear family, for every `Ops α`** (the `Float` and `Float32` runs included) -/
theorem luForwardLd_pair (p : LUParams α) :
    PairRowWise (luForwardLd o p) (LogdetExec.luRow o p) (o.mul (luLogabsdet o p) (one o)) := luForwardLd_rowwise o p
theorem luInverseLd_pair (p : LUParams α) :
    PairRowWise (luInverseLd o p) (LogdetExec.luInvRow o p) (o.mul (o.neg (luLogabsdet o p)) (one o)) := luInverseLd_rowwise o p
theorem qrForwardLd_pair (p : QRParams α) :
    PairRowWise (qrForwardLd o p) (qrRow o p) (o.mul (qrLogabsdet o p) (one o)) := qrForwardLd_rowwise o p
theorem qrInverseLd_pair (p : QRParams α) :
    PairRowWise (qrInverseLd o p) (qrInvRow o p) (o.mul (o.neg (qrLogabsdet o p)) (one o)) := qrInverseLd_rowwise o p
theorem svdForwardLd_pair (p : SVDParams α) :
    PairRowWise (svdForwardLd o p) (svdRow o p) (o.mul (svdLogabsdet o p) (one o)) := svdForwardLd_rowwise o p
theorem svdInverseLd_pair (p : SVDParams α) :
    PairRowWise (svdInverseLd o p) (svdInvRow o p) (o.mul (o.neg (svdLogabsdet o p)) (one o)) := svdInverseLd_rowwise o p
theorem hhForwardLd_pair (qs : List (List α)) : PairRowWise (hhForwardLd o qs) (hhSeq o qs) (zero o) := hhForwardLd_rowwise o qs
theorem hhInverseLd_pair (qs : List (List α)) : PairRowWise (hhInverseLd o qs) (hhSeq o qs.reverse) (zero o) :=
  hhInverseLd_rowwise o qs

end pairs

/-! ## 2. the affine map, its derivative, the determinant of the derivative -/

section affine
variable {n : ℕ}

/-- `x ↦ W x + b` -/
def affine (W : Matrix (Fin n) (Fin n) ℝ) (b : Fin n → ℝ) : (Fin n → ℝ) → (Fin n → ℝ) := fun x => W *ᵥ x + b

/-- `y ↦ W⁻¹ (y - b)` -/
noncomputable def invAffine (W : Matrix (Fin n) (Fin n) ℝ) (b : Fin n → ℝ) : (Fin n → ℝ) → (Fin n → ℝ) :=
  fun y => W⁻¹ *ᵥ (y - b)

/-- the continuous linear map of the matrix `W` -/
noncomputable def jac (W : Matrix (Fin n) (Fin n) ℝ) : (Fin n → ℝ) →L[ℝ] (Fin n → ℝ) :=
  LinearMap.toContinuousLinearMap (Matrix.toLin' W)

theorem jac_apply (W : Matrix (Fin n) (Fin n) ℝ) (x : Fin n → ℝ) : jac W x = W *ᵥ x := by simp [jac]

theorem jac_det (W : Matrix (Fin n) (Fin n) ℝ) : (jac W).det = W.det := by
  rw [jac, ContinuousLinearMap.det, LinearMap.coe_toContinuousLinearMap, LinearMap.det_toLin']

theorem affine_hasFDerivAt (W : Matrix (Fin n) (Fin n) ℝ) (b x : Fin n → ℝ) : HasFDerivAt (affine W b) (jac W) x := by
  have h := ((jac W).hasFDerivAt (x := x)).add_const b
  refine h.congr_of_eventuallyEq (Filter.Eventually.of_forall fun v => ?_)
  simp [affine, jac_apply]

theorem invAffine_eq (W : Matrix (Fin n) (Fin n) ℝ) (b : Fin n → ℝ) : invAffine W b = affine W⁻¹ (-(W⁻¹ *ᵥ b)) := by
  funext y
  simp only [invAffine, affine, Matrix.mulVec_sub]
  rw [sub_eq_add_neg]

theorem invAffine_hasFDerivAt (W : Matrix (Fin n) (Fin n) ℝ) (b y : Fin n → ℝ) : HasFDerivAt (invAffine W b) (jac W⁻¹) y := by
  rw [invAffine_eq]; exact affine_hasFDerivAt _ _ _

theorem affine_invAffine (W : Matrix (Fin n) (Fin n) ℝ) (hW : W.det ≠ 0) (b y : Fin n → ℝ) : affine W b (invAffine W b y) = y := by
  simp only [affine, invAffine, Matrix.mulVec_mulVec, Matrix.mul_nonsing_inv _ (isUnit_iff_ne_zero.2 hW), Matrix.one_mulVec,
    sub_add_cancel]

theorem invAffine_affine (W : Matrix (Fin n) (Fin n) ℝ) (hW : W.det ≠ 0) (b x : Fin n → ℝ) : invAffine W b (affine W b x) = x := by
  simp only [affine, invAffine, add_sub_cancel_right, Matrix.mulVec_mulVec, Matrix.nonsing_inv_mul _ (isUnit_iff_ne_zero.2 hW),
    Matrix.one_mulVec]

theorem log_abs_det_inv (W : Matrix (Fin n) (Fin n) ℝ) : Real.log |(W⁻¹).det| = -Real.log |W.det| := by
  rw [Matrix.det_nonsing_inv, Ring.inverse_eq_inv', abs_inv, Real.log_inv]

theorem det_inv_ne_zero (W : Matrix (Fin n) (Fin n) ℝ) (hW : W.det ≠ 0) : (W⁻¹).det ≠ 0 := by
  rw [Matrix.det_nonsing_inv, Ring.inverse_eq_inv']; exact inv_ne_zero hW

/-- what the headlines say about one executed pass `F` (a batch function returning `(outputs, logabsdets)`), a map
    `φ` on `Fin n → ℝ` and a matrix `M`: the row function `g` IS `φ` on every row of length `n`, `φ` has the derivative
    `D = jac M` at every point, `D` is non-singular, and on every batch `X`, every row `i` of length `n`:
    output row `i` is `φ` of input row `i` (no other row enters), and log-det entry `i` is `log |det D|`. -/
def PassIs (n : ℕ) (F : List (List ℝ) → List (List ℝ) × List ℝ) (g : List ℝ → List ℝ) (φ : (Fin n → ℝ) → (Fin n → ℝ))
    (M : Matrix (Fin n) (Fin n) ℝ) : Prop :=
  ∃ D : (Fin n → ℝ) →L[ℝ] (Fin n → ℝ),
    D = jac M ∧
    (∀ X, (F X).1 = X.map g) ∧
    (∀ v : Fin n → ℝ, g (List.ofFn v) = List.ofFn (φ v)) ∧
    (∀ x0, HasFDerivAt φ D x0) ∧
    D.det ≠ 0 ∧
    (∀ X, (F X).2.length = X.length) ∧
    ∀ (X : List (List ℝ)) (i : ℕ) (hi : i < X.length), (X[i]).length = n →
      (F X).1[i]? = some (List.ofFn (φ (vecFn n X[i]))) ∧ (F X).2[i]? = some (Real.log |D.det|)

theorem pass_core (F : List (List ℝ) → List (List ℝ) × List ℝ) (g : List ℝ → List ℝ) (φ : (Fin n → ℝ) → (Fin n → ℝ))
    (M : Matrix (Fin n) (Fin n) ℝ) (ld : ℝ)
    (hF : ∀ X, F X = (X.map g, List.replicate X.length ld))
    (hg : ∀ v : Fin n → ℝ, g (List.ofFn v) = List.ofFn (φ v))
    (hφ : ∀ x0, HasFDerivAt φ (jac M) x0) (hM : M.det ≠ 0) (hld : ld = Real.log |M.det|) :
    PassIs n F g φ M := by
  refine ⟨jac M, rfl, fun X => by rw [hF], hg, hφ, by rw [jac_det]; exact hM, fun X => by rw [hF]; simp, ?_⟩
  intro X i hi hlen
  rw [hF, jac_det, ← hld]
  refine ⟨?_, by simp [hi]⟩
  have hx : X[i] = List.ofFn (vecFn n X[i]) := list_eq_ofFn _ hlen
  simp only [List.getElem?_map, List.getElem?_eq_getElem hi, Option.map_some]
  rw [← hg, ← hx]

end affine

/-! ## 3. the executed row functions at the reals are the affine maps of the C11 matrices -/

theorem singleton_inj {β : Type} {a b : β} (h : [a] = [b]) : a = b := by simpa using h

/-! ### LU -/

theorem luRow_affine (p : LUParams ℝ) (hb : p.bias.length = p.n) (v : Fin p.n → ℝ) :
    LogdetExec.luRow realOps p (List.ofFn v) = List.ofFn (affine (luW p) (vecFn p.n p.bias) v) :=
  LogdetExec.luRow_executed p hb v

theorem luInvRow_affine (p : LUParams ℝ) (hlen : p.udiag.length = p.n) (heps : 0 ≤ p.eps) (hb : p.bias.length = p.n)
    (y : Fin p.n → ℝ) :
    LogdetExec.luInvRow realOps p (List.ofFn y) = List.ofFn (invAffine (luW p) (vecFn p.n p.bias) y) := by
  have h := LogdetExec.luInvRow_executed p hlen heps hb (invAffine (luW p) (vecFn p.n p.bias) y)
  have h2 := affine_invAffine (luW p) (LogdetExec.luW_det_ne_zero p hlen heps) (vecFn p.n p.bias) y
  unfold affine at h2
  rwa [h2] at h

/-- from "the inverse row function undoes `x ↦ W x + b`" to its closed form `y ↦ W⁻¹ (y - b)` -/
theorem invRow_of_roundtrip {n : ℕ} (ginv : List ℝ → List ℝ) (W : Matrix (Fin n) (Fin n) ℝ) (b : Fin n → ℝ) (hW : W.det ≠ 0)
    (h : ∀ x : Fin n → ℝ, ginv (List.ofFn (W *ᵥ x + b)) = List.ofFn x) (y : Fin n → ℝ) :
    ginv (List.ofFn y) = List.ofFn (invAffine W b y) := by
  have h1 := h (invAffine W b y)
  have h2 := affine_invAffine W hW b y
  unfold affine at h2
  rwa [h2] at h1

theorem det_ne_zero_of_inv {n : ℕ} {W : Matrix (Fin n) (Fin n) ℝ}
    (h : ∃ Winv : Matrix (Fin n) (Fin n) ℝ, Winv * W = 1) : W.det ≠ 0 := by
  obtain ⟨Winv, h⟩ := h
  exact Matrix.det_ne_zero_of_left_inverse h

/-! ### QR -/

theorem qrW_det_ne_zero (p : QRParams ℝ) (vs : List (Fin p.n → ℝ)) (hq : p.qs = vs.map List.ofFn)
    (hv : ∀ v ∈ vs, v ⬝ᵥ v ≠ 0) (hl : p.logDiag.length = p.n) : (qrW p vs).det ≠ 0 := by
  obtain ⟨Winv, _, h, _⟩ := qrWeightInverse_executed p vs hq hv hl
  exact det_ne_zero_of_inv ⟨Winv, h⟩

theorem qrRow_affine (p : QRParams ℝ) (vs : List (Fin p.n → ℝ)) (hq : p.qs = vs.map List.ofFn)
    (hl : p.logDiag.length = p.n) (hb : p.bias.length = p.n) (v : Fin p.n → ℝ) :
    qrRow realOps p (List.ofFn v) = List.ofFn (affine (qrW p vs) (vecFn p.n p.bias) v) := by
  have h := qrForward_executed p vs hq hl hb v
  rw [qrForward_rowwise realOps p] at h
  exact singleton_inj h

theorem qrInvRow_affine (p : QRParams ℝ) (vs : List (Fin p.n → ℝ)) (hq : p.qs = vs.map List.ofFn)
    (hv : ∀ v ∈ vs, v ⬝ᵥ v ≠ 0) (hl : p.logDiag.length = p.n) (hb : p.bias.length = p.n) (y : Fin p.n → ℝ) :
    qrInvRow realOps p (List.ofFn y) = List.ofFn (invAffine (qrW p vs) (vecFn p.n p.bias) y) := by
  refine invRow_of_roundtrip _ _ _ (qrW_det_ne_zero p vs hq hv hl) (fun x => ?_) y
  have h := qrInverse_executed p vs hq hv hl hb x
  rw [qrForward_executed p vs hq hl hb, qrInverse_rowwise realOps p] at h
  exact singleton_inj h

/-! ### SVD -/

theorem svdW_det_ne_zero (p : SVDParams ℝ) (vs1 vs2 : List (Fin p.n → ℝ)) (h1 : p.qs1 = vs1.map List.ofFn)
    (h2 : p.qs2 = vs2.map List.ofFn) (hv1 : ∀ v ∈ vs1, v ⬝ᵥ v ≠ 0) (hv2 : ∀ v ∈ vs2, v ⬝ᵥ v ≠ 0)
    (hl : p.udiag.length = p.n) (heps : 0 ≤ p.eps) : (svdW p vs1 vs2).det ≠ 0 := by
  obtain ⟨Winv, _, h, _⟩ := svdWeightInverse_executed p vs1 vs2 h1 h2 hv1 hv2 hl heps
  exact det_ne_zero_of_inv ⟨Winv, h⟩

theorem svdRow_affine (p : SVDParams ℝ) (vs1 vs2 : List (Fin p.n → ℝ)) (h1 : p.qs1 = vs1.map List.ofFn)
    (h2 : p.qs2 = vs2.map List.ofFn) (hl : p.udiag.length = p.n) (hb : p.bias.length = p.n) (v : Fin p.n → ℝ) :
    svdRow realOps p (List.ofFn v) = List.ofFn (affine (svdW p vs1 vs2) (vecFn p.n p.bias) v) := by
  have h := svdForward_executed p vs1 vs2 h1 h2 hl hb v
  rw [svdForward_rowwise realOps p] at h
  exact singleton_inj h

theorem svdInvRow_affine (p : SVDParams ℝ) (vs1 vs2 : List (Fin p.n → ℝ)) (h1 : p.qs1 = vs1.map List.ofFn)
    (h2 : p.qs2 = vs2.map List.ofFn) (hv1 : ∀ v ∈ vs1, v ⬝ᵥ v ≠ 0) (hv2 : ∀ v ∈ vs2, v ⬝ᵥ v ≠ 0)
    (hl : p.udiag.length = p.n) (heps : 0 ≤ p.eps) (hb : p.bias.length = p.n) (y : Fin p.n → ℝ) :
    svdInvRow realOps p (List.ofFn y) = List.ofFn (invAffine (svdW p vs1 vs2) (vecFn p.n p.bias) y) := by
  refine invRow_of_roundtrip _ _ _ (svdW_det_ne_zero p vs1 vs2 h1 h2 hv1 hv2 hl heps) (fun x => ?_) y
  have h := svdInverse_executed p vs1 vs2 h1 h2 hv1 hv2 hl heps hb x
  rw [svdForward_executed p vs1 vs2 h1 h2 hl hb, svdInverse_rowwise realOps p] at h
  exact singleton_inj h

/-! ### Householder sequence -/

theorem Q_det_ne_zero {n : ℕ} (vs : List (Fin n → ℝ)) (hv : ∀ v ∈ vs, v ⬝ᵥ v ≠ 0) : (LinearFamily.Q vs).det ≠ 0 := by
  intro h0
  have := LinearFamily.Q_det_abs vs hv
  rw [h0, abs_zero] at this
  exact zero_ne_one this

theorem Q_inv {n : ℕ} (vs : List (Fin n → ℝ)) (hv : ∀ v ∈ vs, v ⬝ᵥ v ≠ 0) : (LinearFamily.Q vs)⁻¹ = (LinearFamily.Q vs)ᵀ :=
  Matrix.inv_eq_left_inv (LinearFamily.Q_orthogonal vs hv).1

theorem hhRow_affine {n : ℕ} (vs : List (Fin n → ℝ)) (v : Fin n → ℝ) :
    hhSeq realOps (vs.map List.ofFn) (List.ofFn v) = List.ofFn (affine (LinearFamily.Q vs) 0 v) := by
  rw [hhSeq_executed, LinearFamily.forward_eq_mulVec]; simp [affine]

theorem hhInvRow_affine {n : ℕ} (vs : List (Fin n → ℝ)) (v : Fin n → ℝ) :
    hhSeq realOps (vs.map List.ofFn).reverse (List.ofFn v) = List.ofFn (affine (LinearFamily.Q vs)ᵀ 0 v) := by
  rw [← List.map_reverse, hhSeq_executed, LinearFamily.inverse_eq_mulVec]; simp [affine]

/-! ### NaiveLinear (forward) -/

theorem naiveRow_affine {n : ℕ} (W : Matrix (Fin n) (Fin n) ℝ) (b : List ℝ) (hb : b.length = n) (v : Fin n → ℝ) :
    naiveRow realOps (ofMat W) b (List.ofFn v) = List.ofFn (affine W (vecFn n b) v) := by
  unfold naiveRow
  rw [matVec_ofMat, addV_list _ _ hb]
  rfl

/-- `NaiveLinear.inverse` on one row, BY SPECIFICATION of the elimination: if the executable Gauss–Jordan pass returns a left
    inverse `Winv` of `W` (hypothesis `hspec`; the elimination itself is not verified), the row map is `y ↦ W⁻¹ (y - b)` -/
theorem naiveInvRow_affine_of_spec {n : ℕ} (W Winv : Matrix (Fin n) (Fin n) ℝ) (b : List ℝ) (hb : b.length = n)
    (hspec : naiveWinv realOps n (ofMat W) = ofMat Winv) (hinv : Winv * W = 1) (y : Fin n → ℝ) :
    naiveInvRow realOps n (ofMat W) b (List.ofFn y) = List.ofFn (invAffine W (vecFn n b) y) := by
  unfold naiveInvRow
  rw [hspec, subV_list _ _ hb, matVec_ofMat]
  unfold invAffine
  rw [Matrix.inv_eq_left_inv hinv]
  rfl

/-! ## 4. headlines -/

theorem neg_real (a : ℝ) : realOps.neg a = -a := rfl

/-- **C01 + C12 for the executed `LULinear.forward`** (`luForwardLd` = `(forward_no_cache outputs, logabsdet() * ones(B))`):
    output row `i` is `x ↦ W x + b` of input row `i` alone (`W = luW p`, the matrix of `Properties.C11.lu_executed`), that map
    has the non-singular derivative `D = jac W` at every point and entry `i` of the returned log-abs-dets is `log |det D|` -/
theorem lu_logdet_is_log_abs_det_fderiv (p : LUParams ℝ) (hlen : p.udiag.length = p.n) (heps : 0 ≤ p.eps)
    (hb : p.bias.length = p.n) :
    PassIs p.n (luForwardLd realOps p) (LogdetExec.luRow realOps p) (affine (luW p) (vecFn p.n p.bias)) (luW p) :=
  pass_core _ _ _ _ (luLogabsdet realOps p)
    (fun X => by rw [luForwardLd, timesOnes_real, luForward_rowwise realOps p])
    (luRow_affine p hb) (affine_hasFDerivAt _ _) (LogdetExec.luW_det_ne_zero p hlen heps) (luLogabsdet_executed p hlen heps)

/-- **the executed `LULinear.inverse`**: row map `y ↦ W⁻¹ (y - b)`, derivative `jac W⁻¹`, returned entries
    `log |det (jac W⁻¹)| = -log |det (jac W)|` -/
theorem lu_logdet_is_log_abs_det_fderiv_inverse (p : LUParams ℝ) (hlen : p.udiag.length = p.n) (heps : 0 ≤ p.eps)
    (hb : p.bias.length = p.n) :
    PassIs p.n (luInverseLd realOps p) (LogdetExec.luInvRow realOps p) (invAffine (luW p) (vecFn p.n p.bias)) (luW p)⁻¹ ∧
    Real.log |(jac (luW p)⁻¹).det| = -Real.log |(jac (luW p)).det| :=
  ⟨pass_core _ _ _ _ (realOps.neg (luLogabsdet realOps p))
    (fun X => by rw [luInverseLd, timesOnes_real, luInverse_rowwise realOps p])
    (luInvRow_affine p hlen heps hb) (invAffine_hasFDerivAt _ _) (det_inv_ne_zero _ (LogdetExec.luW_det_ne_zero p hlen heps))
    (by rw [neg_real, luLogabsdet_executed p hlen heps, log_abs_det_inv]),
   by rw [jac_det, jac_det, log_abs_det_inv]⟩

/-- **C01 + C12 for the executed `QRLinear.forward`** (`W = qrW p vs = Q R`) -/
theorem qr_logdet_is_log_abs_det_fderiv (p : QRParams ℝ) (vs : List (Fin p.n → ℝ)) (hq : p.qs = vs.map List.ofFn)
    (hv : ∀ v ∈ vs, v ⬝ᵥ v ≠ 0) (hl : p.logDiag.length = p.n) (hb : p.bias.length = p.n) :
    PassIs p.n (qrForwardLd realOps p) (qrRow realOps p) (affine (qrW p vs) (vecFn p.n p.bias)) (qrW p vs) :=
  pass_core _ _ _ _ (qrLogabsdet realOps p)
    (fun X => by rw [qrForwardLd, timesOnes_real, qrForward_rowwise realOps p])
    (qrRow_affine p vs hq hl hb) (affine_hasFDerivAt _ _) (qrW_det_ne_zero p vs hq hv hl) (qrLogabsdet_executed p vs hv hl)

theorem qr_logdet_is_log_abs_det_fderiv_inverse (p : QRParams ℝ) (vs : List (Fin p.n → ℝ)) (hq : p.qs = vs.map List.ofFn)
    (hv : ∀ v ∈ vs, v ⬝ᵥ v ≠ 0) (hl : p.logDiag.length = p.n) (hb : p.bias.length = p.n) :
    PassIs p.n (qrInverseLd realOps p) (qrInvRow realOps p) (invAffine (qrW p vs) (vecFn p.n p.bias)) (qrW p vs)⁻¹ ∧
    Real.log |(jac (qrW p vs)⁻¹).det| = -Real.log |(jac (qrW p vs)).det| :=
  ⟨pass_core _ _ _ _ (realOps.neg (qrLogabsdet realOps p))
    (fun X => by rw [qrInverseLd, timesOnes_real, qrInverse_rowwise realOps p])
    (qrInvRow_affine p vs hq hv hl hb) (invAffine_hasFDerivAt _ _) (det_inv_ne_zero _ (qrW_det_ne_zero p vs hq hv hl))
    (by rw [neg_real, qrLogabsdet_executed p vs hv hl, log_abs_det_inv]),
   by rw [jac_det, jac_det, log_abs_det_inv]⟩

/-- **C01 + C12 for the executed `SVDLinear.forward`** (`W = svdW p vs1 vs2 = Q₁ D Q₂`) -/
theorem svd_logdet_is_log_abs_det_fderiv (p : SVDParams ℝ) (vs1 vs2 : List (Fin p.n → ℝ)) (h1 : p.qs1 = vs1.map List.ofFn)
    (h2 : p.qs2 = vs2.map List.ofFn) (hv1 : ∀ v ∈ vs1, v ⬝ᵥ v ≠ 0) (hv2 : ∀ v ∈ vs2, v ⬝ᵥ v ≠ 0)
    (hl : p.udiag.length = p.n) (heps : 0 ≤ p.eps) (hb : p.bias.length = p.n) :
    PassIs p.n (svdForwardLd realOps p) (svdRow realOps p) (affine (svdW p vs1 vs2) (vecFn p.n p.bias)) (svdW p vs1 vs2) :=
  pass_core _ _ _ _ (svdLogabsdet realOps p)
    (fun X => by rw [svdForwardLd, timesOnes_real, svdForward_rowwise realOps p])
    (svdRow_affine p vs1 vs2 h1 h2 hl hb) (affine_hasFDerivAt _ _) (svdW_det_ne_zero p vs1 vs2 h1 h2 hv1 hv2 hl heps)
    (svdLogabsdet_executed p vs1 vs2 hv1 hv2 hl heps)

theorem svd_logdet_is_log_abs_det_fderiv_inverse (p : SVDParams ℝ) (vs1 vs2 : List (Fin p.n → ℝ))
    (h1 : p.qs1 = vs1.map List.ofFn) (h2 : p.qs2 = vs2.map List.ofFn) (hv1 : ∀ v ∈ vs1, v ⬝ᵥ v ≠ 0)
    (hv2 : ∀ v ∈ vs2, v ⬝ᵥ v ≠ 0) (hl : p.udiag.length = p.n) (heps : 0 ≤ p.eps) (hb : p.bias.length = p.n) :
    PassIs p.n (svdInverseLd realOps p) (svdInvRow realOps p) (invAffine (svdW p vs1 vs2) (vecFn p.n p.bias))
      (svdW p vs1 vs2)⁻¹ ∧
    Real.log |(jac (svdW p vs1 vs2)⁻¹).det| = -Real.log |(jac (svdW p vs1 vs2)).det| :=
  ⟨pass_core _ _ _ _ (realOps.neg (svdLogabsdet realOps p))
    (fun X => by rw [svdInverseLd, timesOnes_real, svdInverse_rowwise realOps p])
    (svdInvRow_affine p vs1 vs2 h1 h2 hv1 hv2 hl heps hb) (invAffine_hasFDerivAt _ _)
    (det_inv_ne_zero _ (svdW_det_ne_zero p vs1 vs2 h1 h2 hv1 hv2 hl heps))
    (by rw [neg_real, svdLogabsdet_executed p vs1 vs2 hv1 hv2 hl heps, log_abs_det_inv]),
   by rw [jac_det, jac_det, log_abs_det_inv]⟩

/-- **C01 + C12 for the executed `HouseholderSequence.forward`**: row map `x ↦ Q x`, the returned zeros are `log |det Q|` -/
theorem hh_logdet_is_log_abs_det_fderiv {n : ℕ} (vs : List (Fin n → ℝ)) (hv : ∀ v ∈ vs, v ⬝ᵥ v ≠ 0) :
    PassIs n (hhForwardLd realOps (vs.map List.ofFn)) (hhSeq realOps (vs.map List.ofFn)) (affine (LinearFamily.Q vs) 0)
      (LinearFamily.Q vs) :=
  pass_core _ _ _ _ 0
    (fun X => by rw [hhForwardLd, LFIndex.zero_real]; rfl)
    (hhRow_affine vs) (affine_hasFDerivAt _ _) (Q_det_ne_zero vs hv)
    (by rw [LinearFamily.Q_det_abs vs hv, Real.log_one])

/-- **the executed `HouseholderSequence.inverse`**: row map `y ↦ Qᵀ y`, `Qᵀ = Q⁻¹`, zeros `= log |det Qᵀ|` -/
theorem hh_logdet_is_log_abs_det_fderiv_inverse {n : ℕ} (vs : List (Fin n → ℝ)) (hv : ∀ v ∈ vs, v ⬝ᵥ v ≠ 0) :
    PassIs n (hhInverseLd realOps (vs.map List.ofFn)) (hhSeq realOps (vs.map List.ofFn).reverse)
      (affine (LinearFamily.Q vs)ᵀ 0) (LinearFamily.Q vs)ᵀ ∧
    (LinearFamily.Q vs)ᵀ = (LinearFamily.Q vs)⁻¹ ∧
    affine (LinearFamily.Q vs)ᵀ 0 = invAffine (LinearFamily.Q vs) 0 :=
  ⟨pass_core _ _ _ _ 0
    (fun X => by rw [hhInverseLd, LFIndex.zero_real]; rfl)
    (hhInvRow_affine vs) (affine_hasFDerivAt _ _) (by rw [Matrix.det_transpose]; exact Q_det_ne_zero vs hv)
    (by rw [Matrix.det_transpose, LinearFamily.Q_det_abs vs hv, Real.log_one]),
   (Q_inv vs hv).symm,
   by funext y; simp [affine, invAffine, Q_inv vs hv]⟩

/-- **the executed `NaiveLinear.forward`** on a well-shaped weight `ofMat W` (any `W`, singular or not): row-wise, the
    row map is `x ↦ W x + b` with derivative `jac W`, `det (jac W) = det W`.  (The log-abs-det `naiveLogabsdet` is computed by
    an executable Gauss–Jordan elimination that is not verified: no statement about it.) -/
theorem naive_forward_is_affine_fderiv {n : ℕ} (W : Matrix (Fin n) (Fin n) ℝ) (b : List ℝ) (hb : b.length = n) :
    (∀ X, naiveForward realOps (ofMat W) b X = X.map (naiveRow realOps (ofMat W) b)) ∧
    (∀ v : Fin n → ℝ, naiveRow realOps (ofMat W) b (List.ofFn v) = List.ofFn (affine W (vecFn n b) v)) ∧
    (∀ x0, HasFDerivAt (affine W (vecFn n b)) (jac W) x0) ∧ (jac W).det = W.det ∧
    ∀ (X : List (List ℝ)) (i : ℕ) (hi : i < X.length), (X[i]).length = n →
      (naiveForward realOps (ofMat W) b X)[i]? = some (List.ofFn (affine W (vecFn n b) (vecFn n X[i]))) := by
  refine ⟨naiveForward_rowwise realOps _ b, naiveRow_affine W b hb, affine_hasFDerivAt _ _, jac_det W, ?_⟩
  intro X i hi hlen
  have hx : X[i] = List.ofFn (vecFn n X[i]) := list_eq_ofFn _ hlen
  rw [naiveForward_rowwise realOps _ b, List.getElem?_map, List.getElem?_eq_getElem hi, Option.map_some,
    ← naiveRow_affine W b hb, ← hx]

/-! ### reading a `PassIs` -/

section read
variable {n : ℕ} {F : List (List ℝ) → List (List ℝ) × List ℝ} {g : List ℝ → List ℝ} {φ : (Fin n → ℝ) → (Fin n → ℝ)}
  {M : Matrix (Fin n) (Fin n) ℝ}

theorem PassIs.rowwise (h : PassIs n F g φ M) : RowWise (fun X => (F X).1) g := by
  obtain ⟨D, _, h1, _⟩ := h; exact h1

theorem PassIs.hasFDerivAt (h : PassIs n F g φ M) (x0 : Fin n → ℝ) : HasFDerivAt φ (jac M) x0 := by
  obtain ⟨D, rfl, _, _, h3, _⟩ := h; exact h3 x0

theorem PassIs.fderiv_eq (h : PassIs n F g φ M) (x0 : Fin n → ℝ) : fderiv ℝ φ x0 = jac M := (h.hasFDerivAt x0).fderiv

theorem PassIs.det_ne_zero (h : PassIs n F g φ M) : M.det ≠ 0 := by
  obtain ⟨D, rfl, _, _, _, h4, _⟩ := h; rwa [jac_det] at h4

/-- entry `i` of the returned log-abs-dets is `log |det (fderiv φ x)|` at the point `x` = row `i` of the batch (and at any
    other point), output row `i` is `φ x` -/
theorem PassIs.entry (h : PassIs n F g φ M) (X : List (List ℝ)) (i : ℕ) (hi : i < X.length) (hlen : (X[i]).length = n) :
    (F X).1[i]? = some (List.ofFn (φ (vecFn n X[i]))) ∧
    (F X).2[i]? = some (Real.log |(fderiv ℝ φ (vecFn n X[i])).det|) ∧
    (F X).2[i]? = some (Real.log |M.det|) := by
  have hf := h.fderiv_eq (vecFn n X[i])
  obtain ⟨D, rfl, _, _, _, _, _, h6⟩ := h
  obtain ⟨h7, h8⟩ := h6 X i hi hlen
  refine ⟨h7, by rw [hf]; exact h8, by rw [h8, jac_det]⟩

/-- C12 from a `PassIs`: the batch run restricted to row `i` is the run of row `i` alone, outputs and log-det -/
theorem PassIs.row_alone (h : PassIs n F g φ M) (X : List (List ℝ)) (i : ℕ) (hi : i < X.length) (hlen : (X[i]).length = n) :
    (F [X[i]]).1[0]? = (F X).1[i]? ∧ (F [X[i]]).2[0]? = (F X).2[i]? := by
  obtain ⟨h1, _, h3⟩ := h.entry X i hi hlen
  obtain ⟨k1, _, k3⟩ := h.entry [X[i]] 0 (by simp) (by simpa using hlen)
  simp only [List.getElem_cons_zero] at k1
  exact ⟨by rw [h1, k1], by rw [h3, k3]⟩

end read

/-! ## 5. concrete instances: the hypotheses of every headline are satisfiable -/

theorem vs_ex_ne : ∀ v ∈ ([![1, 2], ![0, 3]] : List (Fin 2 → ℝ)), v ⬝ᵥ v ≠ 0 := by
  intro v hv
  simp only [List.mem_cons, List.not_mem_nil, or_false] at hv
  rcases hv with rfl | rfl <;> (simp [dotProduct, Fin.sum_univ_two]; try norm_num)

theorem v12_ne : ∀ v ∈ ([![1, 2]] : List (Fin 2 → ℝ)), v ⬝ᵥ v ≠ 0 := fun v hv =>
  vs_ex_ne v (by simp only [List.mem_cons, List.not_mem_nil, or_false] at hv ⊢; exact Or.inl hv)

theorem v03_ne : ∀ v ∈ ([![0, 3]] : List (Fin 2 → ℝ)), v ⬝ᵥ v ≠ 0 := fun v hv =>
  vs_ex_ne v (by simp only [List.mem_cons, List.not_mem_nil, or_false] at hv ⊢; exact Or.inr hv)

/-- the `LULinear` of `Properties/C11` (`n = 2`, lower `[3]`, upper `[5]`), batch `[[1, 2], [3, 4]]` -/
noncomputable abbrev pLU : LUParams ℝ := { n := 2, lower := [3], upper := [5], udiag := [0, 1], bias := [1, -1], eps := 1 / 1000 }

theorem pLU_eps : (0 : ℝ) ≤ pLU.eps := by show (0 : ℝ) ≤ 1 / 1000; norm_num

example : PassIs 2 (luForwardLd realOps pLU) (LogdetExec.luRow realOps pLU) (affine (luW pLU) (vecFn 2 pLU.bias)) (luW pLU) ∧
    PassIs 2 (luInverseLd realOps pLU) (LogdetExec.luInvRow realOps pLU) (invAffine (luW pLU) (vecFn 2 pLU.bias)) (luW pLU)⁻¹ ∧
    (luForwardLd realOps pLU [[1, 2], [3, 4]]).2[1]? = some (Real.log |(fderiv ℝ (affine (luW pLU) (vecFn 2 pLU.bias)) ![3, 4]).det|) ∧
    (luForwardLd realOps pLU [[1, 2], [3, 4]]).1[1]? = (luForwardLd realOps pLU [[3, 4]]).1[0]? := by
  have hf := lu_logdet_is_log_abs_det_fderiv pLU rfl pLU_eps rfl
  refine ⟨hf, (lu_logdet_is_log_abs_det_fderiv_inverse pLU rfl pLU_eps rfl).1, ?_, ?_⟩
  · have h := (hf.entry [[1, 2], [3, 4]] 1 (by simp) rfl).2.1
    rw [h, hf.fderiv_eq, hf.fderiv_eq]
  · exact ((hf.row_alone [[1, 2], [3, 4]] 1 (by simp) rfl).1).symm

/-- a `QRLinear` with two non-trivial reflections -/
noncomputable abbrev pQR : QRParams ℝ :=
  { n := 2, upper := [5], logDiag := [0, 1], qs := [List.ofFn (![1, 2] : Fin 2 → ℝ), List.ofFn (![0, 3] : Fin 2 → ℝ)],
    bias := [1, -1] }

example : PassIs 2 (qrForwardLd realOps pQR) (qrRow realOps pQR) (affine (qrW pQR [![1, 2], ![0, 3]]) (vecFn 2 pQR.bias))
      (qrW pQR [![1, 2], ![0, 3]]) ∧
    PassIs 2 (qrInverseLd realOps pQR) (qrInvRow realOps pQR) (invAffine (qrW pQR [![1, 2], ![0, 3]]) (vecFn 2 pQR.bias))
      (qrW pQR [![1, 2], ![0, 3]])⁻¹ ∧
    (qrForwardLd realOps pQR [[1, 2], [3, 4]]).2[1]? = some (Real.log |(qrW pQR [![1, 2], ![0, 3]]).det|) :=
  ⟨qr_logdet_is_log_abs_det_fderiv pQR _ rfl vs_ex_ne rfl rfl,
   (qr_logdet_is_log_abs_det_fderiv_inverse pQR _ rfl vs_ex_ne rfl rfl).1,
   ((qr_logdet_is_log_abs_det_fderiv pQR _ rfl vs_ex_ne rfl rfl).entry [[1, 2], [3, 4]] 1 (by simp) rfl).2.2⟩

/-- an `SVDLinear` with one reflection on each side -/
noncomputable abbrev pSVD : SVDParams ℝ :=
  { n := 2, udiag := [0, 1], qs1 := [List.ofFn (![1, 2] : Fin 2 → ℝ)], qs2 := [List.ofFn (![0, 3] : Fin 2 → ℝ)],
    bias := [1, -1], eps := 1 / 1000 }

theorem pSVD_eps : (0 : ℝ) ≤ pSVD.eps := by show (0 : ℝ) ≤ 1 / 1000; norm_num

example : PassIs 2 (svdForwardLd realOps pSVD) (svdRow realOps pSVD) (affine (svdW pSVD [![1, 2]] [![0, 3]]) (vecFn 2 pSVD.bias))
      (svdW pSVD [![1, 2]] [![0, 3]]) ∧
    PassIs 2 (svdInverseLd realOps pSVD) (svdInvRow realOps pSVD) (invAffine (svdW pSVD [![1, 2]] [![0, 3]]) (vecFn 2 pSVD.bias))
      (svdW pSVD [![1, 2]] [![0, 3]])⁻¹ ∧
    (svdInverseLd realOps pSVD [[1, 2], [3, 4]]).2[0]? = some (Real.log |((svdW pSVD [![1, 2]] [![0, 3]])⁻¹).det|) :=
  ⟨svd_logdet_is_log_abs_det_fderiv pSVD _ _ rfl rfl v12_ne v03_ne rfl pSVD_eps rfl,
   (svd_logdet_is_log_abs_det_fderiv_inverse pSVD _ _ rfl rfl v12_ne v03_ne rfl pSVD_eps rfl).1,
   ((svd_logdet_is_log_abs_det_fderiv_inverse pSVD _ _ rfl rfl v12_ne v03_ne rfl pSVD_eps rfl).1.entry
      [[1, 2], [3, 4]] 0 (by simp) rfl).2.2⟩

/-- a Householder sequence of two reflections -/
example : PassIs 2 (hhForwardLd realOps ([![1, 2], ![0, 3]].map List.ofFn)) (hhSeq realOps ([![1, 2], ![0, 3]].map List.ofFn))
      (affine (LinearFamily.Q [![1, 2], ![0, 3]]) 0) (LinearFamily.Q [![1, 2], ![0, 3]]) ∧
    PassIs 2 (hhInverseLd realOps ([![1, 2], ![0, 3]].map List.ofFn)) (hhSeq realOps ([![1, 2], ![0, 3]].map List.ofFn).reverse)
      (affine (LinearFamily.Q [![1, 2], ![0, 3]])ᵀ 0) (LinearFamily.Q [![1, 2], ![0, 3]])ᵀ ∧
    (hhForwardLd realOps ([![1, 2], ![0, 3]].map List.ofFn) [[1, 2], [3, 4]]).2[1]? = some 0 := by
  have hf := hh_logdet_is_log_abs_det_fderiv _ vs_ex_ne
  refine ⟨hf, (hh_logdet_is_log_abs_det_fderiv_inverse _ vs_ex_ne).1, ?_⟩
  have h := (hf.entry [[1, 2], [3, 4]] 1 (by simp) rfl).2.2
  rw [h, LinearFamily.Q_det_abs _ vs_ex_ne, Real.log_one]

/-- a singular `NaiveLinear` weight is allowed in `naive_forward_is_affine_fderiv` -/
example : (∀ x0, HasFDerivAt (affine (!![1, 2; 2, 4] : Matrix (Fin 2) (Fin 2) ℝ) (vecFn 2 [1, -1])) (jac !![1, 2; 2, 4]) x0) ∧
    (naiveForward realOps (ofMat !![1, 2; 2, 4]) [1, -1] [[1, 2], [3, 4]])[1]?
      = some (List.ofFn (affine (!![1, 2; 2, 4] : Matrix (Fin 2) (Fin 2) ℝ) (vecFn 2 [1, -1]) (vecFn 2 [3, 4]))) :=
  ⟨(naive_forward_is_affine_fderiv (n := 2) !![1, 2; 2, 4] [1, -1] rfl).2.2.1,
   (naive_forward_is_affine_fderiv (n := 2) !![1, 2; 2, 4] [1, -1] rfl).2.2.2.2 [[1, 2], [3, 4]] 1 (by simp) rfl⟩

/-! ## 6. the row-length hypothesis of `PassIs` is forced

The passes whose first step on a row is a `zipWith` against the row itself (`subV`, `hhApply`) return a row no longer than
their input: on an EMPTY row they return the empty row, whatever `n` is, whereas the affine formula gives a row of length
`n`.  (The library rejects such an input by a shape check / a broadcasting error; rows of a tensor all have one length.) -/

section forced
variable {α : Type} (o : Ops α)

theorem hhApply_nil (q : List α) : hhApply o q [] = [] := by simp [hhApply]

theorem hhSeq_nil (qs : List (List α)) : hhSeq o qs [] = [] := by
  induction qs with
  | nil => rfl
  | cons q qs ih =>
    simp only [hhSeq, List.foldl_cons] at ih ⊢
    rw [hhApply_nil]; exact ih

theorem svdRow_nil (p : SVDParams α) : svdRow o p [] = [] := by simp [svdRow, hhSeq_nil, addV]
theorem svdInvRow_nil (p : SVDParams α) : svdInvRow o p [] = [] := by simp [svdInvRow, hhSeq_nil, subV]
theorem qrInvRow_nil (p : QRParams α) : qrInvRow o p [] = [] := by
  simp only [qrInvRow, subV, List.zipWith_nil_left, hhSeq_nil, solveUpper]
  cases qrR o p <;> rfl

end forced

/-- **counterexample** to the last clause of `PassIs` without `(X[i]).length = n`: the executed `SVDLinear.forward` of the
    instance above sends the empty row to the empty row, not to a row of length 2 -/
theorem svd_row_length_forced :
    (svdForwardLd realOps pSVD [[]]).1[0]?
      ≠ some (List.ofFn (affine (svdW pSVD [![1, 2]] [![0, 3]]) (vecFn 2 pSVD.bias) (vecFn 2 []))) := by
  rw [svdForwardLd, svdForward_rowwise realOps pSVD]
  simp only [List.map_cons, List.map_nil, svdRow_nil, List.getElem?_cons_zero]
  intro h
  have := congrArg (Option.map List.length) h
  simp at this

theorem hh_row_length_forced :
    (hhForwardLd realOps ([![1, 2], ![0, 3]].map List.ofFn) [[]]).1[0]?
      ≠ some (List.ofFn (affine (LinearFamily.Q [![1, 2], ![0, 3]]) 0 (vecFn 2 []))) := by
  rw [hhForwardLd, hhForward_rowwise realOps]
  simp only [List.map_cons, List.map_nil, hhSeq_nil, List.getElem?_cons_zero]
  intro h
  have := congrArg (Option.map List.length) h
  simp at this

end LinearJacobian
