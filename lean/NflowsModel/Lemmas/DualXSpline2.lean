import NflowsModel.Lemmas.DualXRQInv
import NflowsModel.Lemmas.DualXRQParamCore
import NflowsModel.Lemmas.DualXParam
import NflowsModel.Lemmas.DualXQuad
import NflowsModel.Lemmas.DualXLin
/-!
# Lemmas/DualXSpline2 — dual-number (forward-mode AD) soundness of EXECUTED whole spline programs (C16), round 2

This file collects (by import) and completes:

* `Lemmas/DualXRQInv.lean` — `DualX.rqSpline_dual_inv`: the executed RQ INVERSE program on `(y, 1)`;
* `Lemmas/DualXQuad.lean` — `DualXQuad.quadSpline_dual`, `quadSpline_dual_T`: the executed quadratic forward program (both shapes);
* `Lemmas/DualXLin.lean` — `DualXLin.linSpline_dual`: the executed linear forward program;
* `Lemmas/DualXParam.lean` — `DualXParam.knots_dualL`, `softmaxG_dualL`, `derivs_dualL`: the knot pipeline on dual lists is sound
  along any curve of parameters (ties of the softmax max-shift included);
* `Lemmas/DualXRQParamCore.lean` — `DualX.rqSpline_dual_param_core`: the dual RQ forward run in an arbitrary joint direction,
  given soundness of the dual knot pipeline;
* here: `DualX.rqSpline_dual_param` — the two combined: the executed RQ forward program with the input AND the unnormalised
  widths / heights / derivatives carrying an ARBITRARY tangent direction returns the directional derivative of the real
  program's two outputs (`HasDerivAt` along the line `s ↦ (params + s·dir, x + s·x')` at `s = 0`).
-/
open NF DualSound Filter Topology

namespace DualX
noncomputable section
open RQWhole

variable {e : Float → ℝ} {c : RQCfg} {uw uh ud : List ℝ}

/-- the list-level duality of `Lemmas/DualXParam.lean` is the one used by `rqSpline_dual_param_core` -/
theorem CurveL.of_isDualL {F : ℝ → List ℝ} {t : ℝ} {ds : List (ℝ × ℝ)} (h : DualXParam.IsDualL F t ds) : CurveL F t ds := h

/-- **PARAMETER (and input) direction, executed RQ forward program**: run on the dual input `(x, x')` with the unnormalised
    widths / heights / derivatives carrying the tangent lists `uw' uh' ud'` (any direction), for `x` strictly inside bin `k`
    the dual program returns `((val x, v'), (ld x, l'))` where `v'`, `l'` are the derivatives at `s = 0` of the REAL executed
    program's two outputs along the line `s ↦ (uw + s·uw', uh + s·uh', ud + s·ud', x + s·x')`.
    Side condition: no derivative parameter sits on the softplus threshold `β·u = 20` (a jump of the executed softplus). -/
theorem rqSpline_dual_param (hv : RQValid e c uw uh ud) (uw' uh' ud' : List ℝ)
    (hlw : uw.length = uw'.length) (hlh : uh.length = uh'.length) (hld : ud.length = ud'.length)
    (hthr : ∀ k < ud.length, e c.beta * ud.getD k 0 ≠ 20)
    (k : ℕ) (hk : k < uw.length) (x x' : ℝ) (h0 : xs e c uw k < x) (h1 : x < xs e c uw (k+1)) :
    ∃ v' l' : ℝ, rqSpline (dualX (NF.realX e)) c (List.zip uw uw') (List.zip uh uh') (List.zip ud ud') false (x, x')
        = .ok ((val e c uw uh ud x, v'), (ld e c uw uh ud x, l')) ∧
      HasDerivAt (fun s => val e c (DualXParam.lineL uw uw' s) (DualXParam.lineL uh uh' s) (DualXParam.lineL ud ud' s)
        (x + s * x')) v' 0 ∧
      HasDerivAt (fun s => ld e c (DualXParam.lineL uw uw' s) (DualXParam.lineL uh uh' s) (DualXParam.lineL ud ud' s)
        (x + s * x')) l' 0 := by
  have hW := DualXParam.IsDualL.line uw uw' hlw
  have hH := DualXParam.IsDualL.line uh uh' hlh
  have hD := DualXParam.IsDualL.line ud ud' hld
  have zW : DualXParam.lineL uw uw' 0 = uw := DualXParam.lineL_zero uw uw' hlw.le
  have zH : DualXParam.lineL uh uh' 0 = uh := DualXParam.lineL_zero uh uh' hlh.le
  have zD : DualXParam.lineL ud ud' 0 = ud := DualXParam.lineL_zero ud ud' hld.le
  have hX : IsDual (fun s : ℝ => x + s * x') 0 (x, x') := by
    refine ⟨by simp, ?_⟩
    simpa using ((hasDerivAt_id (0:ℝ)).mul_const x').const_add x
  have hKW := DualXParam.knots_dualL e c.minW c.box.left c.box.right hW (by
    intro hn
    have := congrArg List.length hn
    simp only [List.length_zip, List.length_nil, ← hlw, min_self] at this
    exact hv.hK (List.length_eq_zero_iff.mp this))
  have hKH := DualXParam.knots_dualL e c.minH c.box.bottom c.box.top hH (by
    intro hn
    have := congrArg List.length hn
    simp only [List.length_zip, List.length_nil, ← hlh, min_self] at this
    rw [hv.hlenh] at this
    exact hv.hK (List.length_eq_zero_iff.mp this))
  have hDV := DualXParam.derivs_dualL e c.minD c.beta hD hv.hbeta (by
    intro j hj
    have hval : ((List.zip ud ud').getD j 0).1 = ud.getD j 0 := by
      have := (hD.getD j hj).1
      rw [this]
      show (DualXParam.lineL ud ud' 0).getD j 0 = _
      rw [zD]
    rw [hval]
    exact hthr j (by simpa [List.length_zip, ← hld] using hj))
  have hx0 : x + 0 * x' = x := by ring
  have := rqSpline_dual_param_core (e := e) (c := c) (DualXParam.lineL uw uw') (DualXParam.lineL uh uh')
    (DualXParam.lineL ud ud') (fun s => x + s * x') 0 (List.zip uw uw') (List.zip uh uh') (List.zip ud ud') (x, x')
    (by rw [zW, zH, zD]; exact hv) (CurveL.of_isDualL hW) (CurveL.of_isDualL hH) (CurveL.of_isDualL hD) hX
    (CurveL.of_isDualL hKW.1) (CurveL.of_isDualL hKW.2) (CurveL.of_isDualL hKH.1) (CurveL.of_isDualL hKH.2)
    (CurveL.of_isDualL hDV) k (by rw [zW]; exact hk) (by rw [zW, hx0]; exact h0) (by rw [zW, hx0]; exact h1)
  rw [zW, zH, zD, hx0] at this
  exact this

/-- the pure parameter direction (`x' = 0`): the gradient of the two outputs w.r.t. the unnormalised parameters at fixed `x` -/
theorem rqSpline_dual_param_fixed_x (hv : RQValid e c uw uh ud) (uw' uh' ud' : List ℝ)
    (hlw : uw.length = uw'.length) (hlh : uh.length = uh'.length) (hld : ud.length = ud'.length)
    (hthr : ∀ k < ud.length, e c.beta * ud.getD k 0 ≠ 20)
    (k : ℕ) (hk : k < uw.length) (x : ℝ) (h0 : xs e c uw k < x) (h1 : x < xs e c uw (k+1)) :
    ∃ v' l' : ℝ, rqSpline (dualX (NF.realX e)) c (List.zip uw uw') (List.zip uh uh') (List.zip ud ud') false (x, 0)
        = .ok ((val e c uw uh ud x, v'), (ld e c uw uh ud x, l')) ∧
      HasDerivAt (fun s => val e c (DualXParam.lineL uw uw' s) (DualXParam.lineL uh uh' s) (DualXParam.lineL ud ud' s) x) v' 0 ∧
      HasDerivAt (fun s => ld e c (DualXParam.lineL uw uw' s) (DualXParam.lineL uh uh' s) (DualXParam.lineL ud ud' s) x) l' 0 := by
  obtain ⟨v', l', h, hv', hl'⟩ := rqSpline_dual_param hv uw' uh' ud' hlw hlh hld hthr k hk x 0 h0 h1
  refine ⟨v', l', h, ?_, ?_⟩
  · simpa using hv'
  · simpa using hl'

private theorem bz2 : ((0.0:Float) == 0.0) = true := by decide +kernel
private theorem bo2 : ((1.0:Float) == 0.0) = false := by decide +kernel

/-- non-vacuity on the concrete accepted configuration of `RQWhole.valid_example` (one bin on the unit box), EVERY direction
    `([a], [b], [p, q], x')`; the derivative parameters `[0, 0]` are equal — the tie case of the softmax max-shift is the
    widths/heights `[0]` (one logit) and is exercised with several equal logits in `DualXParam.softmax_tie_example` -/
theorem rqSpline_dual_param_example (a b p q x x' : ℝ) (h0 : 0 < x) (h1 : x < 1) :
    ∃ v' l' : ℝ, rqSpline (dualX (NF.realX eNV)) cNV [(0, a)] [(0, b)] [(0, p), (0, q)] false (x, x')
        = .ok ((val eNV cNV [0] [0] [0, 0] x, v'), (ld eNV cNV [0] [0] [0, 0] x, l')) ∧
      HasDerivAt (fun s => val eNV cNV [0 + s * a] [0 + s * b] [0 + s * p, 0 + s * q] (x + s * x')) v' 0 ∧
      HasDerivAt (fun s => ld eNV cNV [0 + s * a] [0 + s * b] [0 + s * p, 0 + s * q] (x + s * x')) l' 0 := by
  have hv := valid_example
  have hx0 : xs eNV cNV [0] 0 = 0 := by
    rw [xs_zero hv]; simp [eNV, cNV, bz2]
  have hx1 : xs eNV cNV [0] (0+1) = 1 := by
    have := xs_last hv
    simp only [List.length_singleton] at this
    rw [this]; simp [eNV, cNV, bo2]
  have hthr : ∀ k < ([0, 0] : List ℝ).length, eNV cNV.beta * ([0, 0] : List ℝ).getD k 0 ≠ 20 := by
    intro k hk
    have : ([0, 0] : List ℝ).getD k 0 = 0 := by
      rcases k with _|_|k
      · rfl
      · rfl
      · simp at hk
    rw [this]; norm_num
  exact rqSpline_dual_param hv [a] [b] [p, q] rfl rfl rfl hthr 0 (by simp) x x' (by rw [hx0]; exact h0) (by rw [hx1]; exact h1)

end
end DualX
