import Mathlib.Analysis.SpecialFunctions.Log.Basic
import Mathlib.Algebra.BigOperators.Field
import Mathlib.Algebra.Order.BigOperators.Ring.Finset
import Mathlib.Tactic

namespace Knots


noncomputable section
open Finset

/-! from unnormalised parameters to knots (rational_quadratic.py:91-98 / cubic.py:99-104 / quadratic.py:83-84) -/
variable {K : ℕ}

def softmax (u : Fin K → ℝ) (k : Fin K) : ℝ := Real.exp (u k) / ∑ j, Real.exp (u j)

theorem softmax_pos (u : Fin K → ℝ) (k : Fin K) : 0 < softmax u k := by
  unfold softmax
  apply div_pos (Real.exp_pos _)
  exact Finset.sum_pos (fun j _ => Real.exp_pos _) ⟨k, Finset.mem_univ k⟩

theorem softmax_sum (u : Fin K → ℝ) (hK : 0 < K) : ∑ k, softmax u k = 1 := by
  unfold softmax
  rw [← Finset.sum_div]
  apply div_self
  have : 0 < ∑ j : Fin K, Real.exp (u j) := Finset.sum_pos (fun j _ => Real.exp_pos _) ⟨⟨0, hK⟩, Finset.mem_univ _⟩
  exact this.ne'

/-- `widths = min_w + (1 - min_w·K)·softmax(u)` -/
def widths (m : ℝ) (u : Fin K → ℝ) (k : Fin K) : ℝ := m + (1 - m * K) * softmax u k

theorem widths_pos {m : ℝ} (u : Fin K → ℝ) (hm0 : 0 ≤ m) (hmK : m * K ≤ 1) (k : Fin K) : 0 < widths m u k := by
  unfold widths
  have hs := softmax_pos u k
  have hK : (0:ℝ) < K := by
    have : 0 < K := Nat.lt_of_le_of_lt (Nat.zero_le _) k.isLt
    exact_mod_cast this
  rcases eq_or_lt_of_le hmK with h | h
  · -- m·K = 1 ⇒ widths = m > 0
    have : 0 < m := by
      by_contra hc
      have : m = 0 := le_antisymm (not_lt.mp hc) hm0
      rw [this] at h; simp at h
    rw [h]; simp; exact this
  · have : 0 < (1 - m * K) * softmax u k := mul_pos (by linarith) hs
    linarith

theorem widths_sum {m : ℝ} (u : Fin K → ℝ) (hK : 0 < K) : ∑ k, widths m u k = 1 := by
  unfold widths
  rw [Finset.sum_add_distrib, ← Finset.mul_sum, softmax_sum u hK]
  simp; ring

/-- cumulative knots scaled into [left, right]: x_k = left + (right-left)·Σ_{j<k} w_j -/
def knot (left right : ℝ) (w : Fin K → ℝ) (k : ℕ) : ℝ := left + (right - left) * ∑ j : Fin K, if (j : ℕ) < k then w j else 0

theorem knot_zero (left right : ℝ) (w : Fin K → ℝ) : knot left right w 0 = left := by simp [knot]
theorem knot_last (left right : ℝ) (w : Fin K → ℝ) (hsum : ∑ k, w k = 1) : knot left right w K = right := by
  unfold knot
  have : (∑ j : Fin K, if (j : ℕ) < K then w j else 0) = ∑ j, w j := Finset.sum_congr rfl (fun j _ => by simp [j.isLt])
  rw [this, hsum]; ring
theorem knot_succ (left right : ℝ) (w : Fin K → ℝ) (k : ℕ) (hk : k < K) :
    knot left right w (k+1) = knot left right w k + (right - left) * w ⟨k, hk⟩ := by
  unfold knot
  have : (∑ j : Fin K, if (j : ℕ) < k + 1 then w j else 0) = (∑ j : Fin K, if (j : ℕ) < k then w j else 0) + w ⟨k, hk⟩ := by
    have hsplit : ∀ j : Fin K, (if (j : ℕ) < k + 1 then w j else 0) = (if (j : ℕ) < k then w j else 0) + (if j = ⟨k, hk⟩ then w j else 0) := by
      intro j
      by_cases h1 : (j : ℕ) < k
      · have : j ≠ ⟨k, hk⟩ := by intro e; rw [e] at h1; simp at h1
        simp [h1, Nat.lt_succ_of_lt h1, this]
      · by_cases h2 : (j : ℕ) = k
        · have : j = ⟨k, hk⟩ := Fin.ext h2
          simp [h2, this]
        · have : ¬ (j : ℕ) < k + 1 := by omega
          have hne : j ≠ ⟨k, hk⟩ := by intro e; apply h2; rw [e]
          simp [h1, this, hne]
    simp_rw [hsplit]
    rw [Finset.sum_add_distrib]
    simp
  rw [this]; ring
theorem knot_strict (left right : ℝ) (w : Fin K → ℝ) (hlr : left < right) (hw : ∀ k, 0 < w k) (k : ℕ) (hk : k < K) :
    knot left right w k < knot left right w (k+1) := by
  rw [knot_succ left right w k hk]
  have := mul_pos (sub_pos.mpr hlr) (hw ⟨k, hk⟩)
  linarith


end
end Knots
