import NflowsModel.Properties.C03
import NflowsModel.Properties.C11
import NflowsModel.Lemmas.StructureExecRQTails
import NflowsModel.Core.Reshape
import Mathlib.Analysis.Calculus.FDeriv.Prod
import Mathlib.Analysis.Calculus.FDeriv.Add
import Mathlib.LinearAlgebra.Matrix.Permutation
import Mathlib.LinearAlgebra.Matrix.ToLin
import Mathlib.LinearAlgebra.Matrix.NonsingularInverse
import Mathlib.Topology.Algebra.Module.FiniteDimension
/-!
# Lemmas/FlowWholeND — the n-dimensional flow density theorem (C03) instantiated with EXECUTED layers

`Properties/C03.lean` proves: a program `progN parts` of n-D parts (`DiffeoN n`: bijection of `Fin n → ℝ`, Fréchet
derivative whose `|det|` is `exp` of the returned log-abs-det) over a normalised base is a normalised density.  This file
inhabits `DiffeoN n` with what the driver runs, for the layers WITHOUT a neural conditioner (no differentiability
hypothesis), and — under an explicit differentiability hypothesis — the masked autoregressive RQ layer.

* §1 `piDiffeo`: the product of 1-D parts (`Diffeo1`) is an n-D part (`diagCLM_det`: determinant of a diagonal map).
* §2 `affineDiffeo` (`x ↦ W x + b`, `det W ≠ 0`, `ld = log |det W|`), `permDiffeo` (`x ↦ x ∘ σ`, `ld = 0`).
* §3 `flow_logprob_normalised_progN`: the `exp (logp (T x) + ld x)` form of `flow_normalised_progN`.
* §4 the executed `PiecewiseRationalQuadraticCDF(tails='linear')`: `rqCdfDiffeo`, `cdfApply_rq_tails_row` (row `b` of
  `cdfApply … false` IS the product part; `ld[b]` is its `ld`), `cdfApply_rq_tails_roundtrip_row` (C02),
  `cdfApply_rq_tails_err_none` (C17).
* §5 the executed linear family: `luDiffeo`, `qrDiffeo`, `svdDiffeo` with `…_executed` (`luForward`, `luLogabsdet`, … ARE
  the part), and the executed `Permutation`: `permuteDim_2d`, `permuteDim_row`.
* §6 headline over the executed bases: `executed_flow_normalised` (StandardNormal), `…_diag`, `…_cond`.
* §7 `arRowDiffeo`: the executed `arForward` (RQ, linear tails, any autoregressive conditioner, e.g. MADE:
  `made_arRowHyp`) under `ARRowHyp` (explicit `Differentiable` hypothesis; satisfiable: `arRowHyp_const_net`);
  `ar_row_abs_det` (the Jacobian has `|det| = exp ld`, in particular `≠ 0`).
* §8 `ExecLayer`, `ExecLayer.run` (each layer RUN by its executed program), `runAll`, `executed_pipeline_normalised`,
  `executed_pipeline_normalised_diag`: end to end.
* §9 non-vacuity.
-/
open MeasureTheory NF DualSound Properties.C03

namespace FlowWholeND

/-! ## 1. The element-wise layer: a product of 1-D parts is an n-D part -/

/-- the diagonal continuous linear map with diagonal `c` -/
noncomputable def diagCLM {n : ℕ} (c : Fin n → ℝ) : (Fin n → ℝ) →L[ℝ] (Fin n → ℝ) :=
  ContinuousLinearMap.pi fun i => c i • ContinuousLinearMap.proj i

theorem diagCLM_apply {n : ℕ} (c : Fin n → ℝ) (v : Fin n → ℝ) (i : Fin n) : diagCLM c v i = c i * v i := by
  simp [diagCLM]

/-- the determinant of a diagonal map is the product of the diagonal -/
theorem diagCLM_det {n : ℕ} (c : Fin n → ℝ) : (diagCLM c).det = ∏ i, c i := by
  have h : ((diagCLM c : (Fin n → ℝ) →L[ℝ] (Fin n → ℝ)) : (Fin n → ℝ) →ₗ[ℝ] (Fin n → ℝ))
      = Matrix.toLin' (Matrix.diagonal c) := by
    apply LinearMap.ext
    intro v
    funext i
    simp [diagCLM_apply, Matrix.mulVec_diagonal]
  rw [ContinuousLinearMap.det, h, LinearMap.det_toLin', Matrix.det_diagonal]


/-- **Element-wise layer**: the product map `x ↦ fun i => (d i).f (x i)` of 1-D parts with
    `ld x = ∑ i, (d i).ld (x i)` (`sum_except_batch` of the per-element log-dets) is an n-D part -/
noncomputable def piDiffeo {n : ℕ} (d : Fin n → Diffeo1) : DiffeoN n where
  T := fun x i => (d i).f (x i)
  T' := fun x => diagCLM fun i => Real.exp ((d i).ld (x i))
  ld := fun x => ∑ i, (d i).ld (x i)
  bij := by
    constructor
    · intro x y h
      funext i
      exact (d i).bij.1 (congrFun h i)
    · intro y
      choose g hg using fun i => (d i).bij.2 (y i)
      exact ⟨g, funext hg⟩
  deriv := by
    intro x
    unfold diagCLM
    rw [hasFDerivAt_pi]
    intro i
    have h1 : HasFDerivAt (fun v : Fin n → ℝ => v i) (ContinuousLinearMap.proj (R := ℝ) (φ := fun _ : Fin n => ℝ) i) x :=
      hasFDerivAt_apply i x
    exact ((d i).deriv (x i)).comp_hasFDerivAt x h1
  ld_eq := by
    intro x
    rw [diagCLM_det, Real.exp_sum, abs_of_pos (Finset.prod_pos fun i _ => Real.exp_pos _)]

@[simp] theorem piDiffeo_T {n : ℕ} (d : Fin n → Diffeo1) (x : Fin n → ℝ) (i : Fin n) :
    (piDiffeo d).T x i = (d i).f (x i) := rfl
@[simp] theorem piDiffeo_ld {n : ℕ} (d : Fin n → Diffeo1) (x : Fin n → ℝ) :
    (piDiffeo d).ld x = ∑ i, (d i).ld (x i) := rfl


/-! ## 2. Affine layers (the linear family, permutations) -/

/-- the continuous linear map `x ↦ W x` -/
noncomputable def matCLM {n : ℕ} (W : Matrix (Fin n) (Fin n) ℝ) : (Fin n → ℝ) →L[ℝ] (Fin n → ℝ) :=
  LinearMap.toContinuousLinearMap (Matrix.toLin' W)

theorem matCLM_apply {n : ℕ} (W : Matrix (Fin n) (Fin n) ℝ) (v : Fin n → ℝ) : matCLM W v = W.mulVec v := by
  simp [matCLM]

theorem matCLM_det {n : ℕ} (W : Matrix (Fin n) (Fin n) ℝ) : (matCLM W).det = W.det := by
  rw [ContinuousLinearMap.det, matCLM, LinearMap.coe_toContinuousLinearMap, LinearMap.det_toLin']

theorem affine_bijective {n : ℕ} (W : Matrix (Fin n) (Fin n) ℝ) (b : Fin n → ℝ) (hW : W.det ≠ 0) :
    Function.Bijective fun x : Fin n → ℝ => W.mulVec x + b := by
  have hu : IsUnit W.det := isUnit_iff_ne_zero.2 hW
  rw [Function.bijective_iff_has_inverse]
  refine ⟨fun y => W⁻¹.mulVec (y - b), ?_, ?_⟩
  · intro x
    simp [Matrix.mulVec_mulVec, Matrix.nonsing_inv_mul W hu]
  · intro y
    simp [Matrix.mulVec_mulVec, Matrix.mul_nonsing_inv W hu]

/-- **Affine layer** `x ↦ W x + b` with invertible `W`: an n-D part with constant `ld = log |det W|` -/
noncomputable def affineDiffeo {n : ℕ} (W : Matrix (Fin n) (Fin n) ℝ) (b : Fin n → ℝ) (hW : W.det ≠ 0) : DiffeoN n where
  T := fun x => W.mulVec x + b
  T' := fun _ => matCLM W
  ld := fun _ => Real.log |W.det|
  bij := affine_bijective W b hW
  deriv := by
    intro x
    have h := ((matCLM W).hasFDerivAt (x := x)).add_const b
    refine h.congr_of_eventuallyEq (Filter.Eventually.of_forall fun v => ?_)
    simp [matCLM_apply]
  ld_eq := by
    intro x
    rw [matCLM_det, Real.exp_log (abs_pos.2 hW)]

@[simp] theorem affineDiffeo_T {n : ℕ} (W : Matrix (Fin n) (Fin n) ℝ) (b : Fin n → ℝ) (hW : W.det ≠ 0) (x : Fin n → ℝ) :
    (affineDiffeo W b hW).T x = W.mulVec x + b := rfl
@[simp] theorem affineDiffeo_ld {n : ℕ} (W : Matrix (Fin n) (Fin n) ℝ) (b : Fin n → ℝ) (hW : W.det ≠ 0) (x : Fin n → ℝ) :
    (affineDiffeo W b hW).ld x = Real.log |W.det| := rfl

/-- **Permutation of the coordinates** (`Permutation`, `ReversePermutation`, `RandomPermutation` on a `[B, n]` input):
    `x ↦ x ∘ σ` is an n-D part with `ld = 0` (`|det| = |sign σ| = 1`) -/
noncomputable def permDiffeo {n : ℕ} (σ : Equiv.Perm (Fin n)) : DiffeoN n where
  T := fun x k => x (σ k)
  T' := fun _ => matCLM (σ.permMatrix ℝ)
  ld := fun _ => 0
  bij := by
    rw [Function.bijective_iff_has_inverse]
    refine ⟨fun y k => y (σ.symm k), ?_, ?_⟩
    · intro x; funext k; simp
    · intro y; funext k; simp
  deriv := by
    intro x
    have h := (matCLM (σ.permMatrix ℝ)).hasFDerivAt (x := x)
    refine h.congr_of_eventuallyEq (Filter.Eventually.of_forall fun v => ?_)
    rw [matCLM_apply, Matrix.permMatrix_mulVec]
    rfl
  ld_eq := by
    intro x
    rw [matCLM_det, Matrix.det_permutation, Real.exp_zero]
    rcases Int.units_eq_one_or (Equiv.Perm.sign σ) with h | h <;> simp [h]

@[simp] theorem permDiffeo_T {n : ℕ} (σ : Equiv.Perm (Fin n)) (x : Fin n → ℝ) (k : Fin n) :
    (permDiffeo σ).T x k = x (σ k) := rfl
@[simp] theorem permDiffeo_ld {n : ℕ} (σ : Equiv.Perm (Fin n)) (x : Fin n → ℝ) : (permDiffeo σ).ld x = 0 := rfl

/-! ## 3. Headline: every program of such parts over a normalised base is a normalised density -/

/-- `flow_normalised_progN` in the form the code computes: `exp (base_logp (T x) + ld x)` -/
theorem flow_logprob_normalised_progN {n : ℕ} (parts : List (DiffeoN n)) (logp : (Fin n → ℝ) → ℝ)
    (hp : ∫ z, Real.exp (logp z) = 1) :
    ∫ x, Real.exp (logp ((progN parts).T x) + (progN parts).ld x) = 1 := by
  simp_rw [Real.exp_add]
  exact flow_normalised_progN parts (fun z => Real.exp (logp z)) hp


/-! ## 4. The EXECUTED `PiecewiseRationalQuadraticCDF(tails='linear')` is such an element-wise part -/

section cdf
open NF.StructureExec

/-- row `b` of a flat `[B, n]` array -/
def batchRow (x : Array ℝ) (n b : ℕ) : Fin n → ℝ := fun i => x.getD (b * n + i) 0

/-- the parameter vector `params[i, :]` that `cdfEl` hands to the dispatcher -/
def cdfSlice (c : ElCfg) (params : Array ℝ) (i : ℕ) : List ℝ :=
  (List.range c.mult).map (fun k => params.getD (i * c.mult + k) 0)

theorem cdfSlice_length {e : Float → ℝ} {c : ElCfg} (hc : RQTailsCfgValid e c) (params : Array ℝ) (i : ℕ) :
    (cdfSlice c params i).length = 3 * c.K - 1 := by
  simp [cdfSlice, mult_rq_tails hc.hk hc.ht]

theorem cdfEl_eq (e : Float → ℝ) (c : ElCfg) (n : ℕ) (x params : Array ℝ) (inverse : Bool) (b : ℕ) (i : Fin n) :
    cdfEl (NF.realX e) c n x params inverse b i
      = elTransform (NF.realX e) c inverse (cdfSlice c params i) (batchRow x n b i) := by
  simp [cdfEl, cdfSlice, batchRow]

variable (e : Float → ℝ) (c : ElCfg) (hc : RQTailsCfgValid e c) (hp : TailsWhole.PadExact e (tMD c) (tBe c))

/-- feature `i` of the executed RQ-CDF layer with linear tails, as a 1-D part: the executed element
    (`Properties.C03.rqTailsDiffeo`) at the `i`-th parameter slice -/
noncomputable def rqCdfEl (params : Array ℝ) (i : ℕ) : Diffeo1 :=
  rqTailsDiffeo e (tTb c) (tMW c) (tMH c) (tMD c) (tBe c)
    (rqW (NF.realX e) c (cdfSlice c params i)) (rqH (NF.realX e) c (cdfSlice c params i)) (rqD c (cdfSlice c params i))
    (rqTailsSliceValid_of_cfg hc _ (cdfSlice_length hc params i)) hp

/-- the executed RQ-CDF layer with linear tails on `[B, n]` inputs, as an n-D part: ANY parameter array -/
noncomputable def rqCdfDiffeo (n : ℕ) (params : Array ℝ) : DiffeoN n :=
  piDiffeo fun i : Fin n => rqCdfEl e c hc hp params i

theorem rqCdfDiffeo_T (n : ℕ) (params : Array ℝ) (v : Fin n → ℝ) (i : Fin n) :
    (rqCdfDiffeo e c hc hp n params).T v i = (rqCdfEl e c hc hp params i).f (v i) := rfl

theorem rqCdfDiffeo_ld (n : ℕ) (params : Array ℝ) (v : Fin n → ℝ) :
    (rqCdfDiffeo e c hc hp n params).ld v = ∑ i : Fin n, (rqCdfEl e c hc hp params i).ld (v i) := rfl

/-- **row `b` of the executed `cdfApply` (forward) IS the product-map part**: the outputs of row `b` are
    `(rqCdfDiffeo …).T` of row `b` of the input, entry `b` of the returned log-abs-det is its `ld`, and nothing raises —
    every `B`, `n`, number of bins, parameter array and real input array -/
theorem cdfApply_rq_tails_row (B n : ℕ) (x params : Array ℝ) {b : ℕ} (hb : b < B) :
    (∀ i : Fin n, (cdfApply (NF.realX e) c B n x params false).out[b * n + i]?
        = some ((rqCdfDiffeo e c hc hp n params).T (batchRow x n b) i))
    ∧ (cdfApply (NF.realX e) c B n x params false).ld[b]? = some ((rqCdfDiffeo e c hc hp n params).ld (batchRow x n b)) := by
  have hel : ∀ i : Fin n, cdfEl (NF.realX e) c n x params false b i
      = .ok ((rqCdfEl e c hc hp params i).f (batchRow x n b i), (rqCdfEl e c hc hp params i).ld (batchRow x n b i), []) := by
    intro i
    rw [cdfEl_eq]
    exact (rqTails_el_total e c hc.hk hc.ht _ (rqTailsSliceValid_of_cfg hc _ (cdfSlice_length hc params i)) _).1
  constructor
  · intro i
    rw [cdfApply, elemwise_out_getElem? _ B n _ hb i.2, hel i]
    rfl
  · rw [cdf_ld_real e c B n x params false hb]
    congr 1
    apply Finset.sum_congr rfl
    intro i _
    rw [hel i]
    rfl

/-- **C02 for the executed RQ-CDF layer with linear tails**: the executed inverse pass on the forward output returns row
    `b` of the input exactly and the negated log-abs-det — every `B`, `n`, parameter array, real input -/
theorem cdfApply_rq_tails_roundtrip_row (B n : ℕ) (x params : Array ℝ) {b : ℕ} (hb : b < B) :
    (∀ i : Fin n, (cdfApply (NF.realX e) c B n (cdfApply (NF.realX e) c B n x params false).out params true).out[b * n + i]?
        = some (batchRow x n b i))
    ∧ (cdfApply (NF.realX e) c B n (cdfApply (NF.realX e) c B n x params false).out params true).ld[b]?
        = some (-(rqCdfDiffeo e c hc hp n params).ld (batchRow x n b)) := by
  have hv := fun i : Fin n => rqTailsSliceValid_of_cfg hc _ (cdfSlice_length hc params i)
  have hf : ∀ i : Fin n, elTransform (NF.realX e) c false (cdfSlice c params i) (batchRow x n b i)
      = .ok ((rqCdfEl e c hc hp params i).f (batchRow x n b i), (rqCdfEl e c hc hp params i).ld (batchRow x n b i), []) :=
    fun i => (rqTails_el_total e c hc.hk hc.ht _ (hv i) _).1
  have hrow : ∀ i : Fin n, batchRow (cdfApply (NF.realX e) c B n x params false).out n b i
      = (rqCdfEl e c hc hp params i).f (batchRow x n b i) := by
    intro i
    have := (cdfApply_rq_tails_row e c hc hp B n x params hb).1 i
    show (cdfApply (NF.realX e) c B n x params false).out.getD (b * n + i) 0 = _
    rw [Array.getD_eq_getD_getElem?, this]
    rfl
  have hel : ∀ i : Fin n, cdfEl (NF.realX e) c n (cdfApply (NF.realX e) c B n x params false).out params true b i
      = .ok (batchRow x n b i, -(rqCdfEl e c hc hp params i).ld (batchRow x n b i), []) := by
    intro i
    rw [cdfEl_eq, hrow i]
    exact rqTails_real_invertible e c hc.hk hc.ht _ (hv i) (hf i)
  constructor
  · intro i
    have h := elemwise_out_getElem? (NF.realX e) B n
      (cdfEl (NF.realX e) c n (cdfApply (NF.realX e) c B n x params false).out params true) hb i.2
    rw [hel i] at h
    exact h
  · rw [cdf_ld_real e c B n _ params true hb]
    congr 1
    rw [rqCdfDiffeo_ld, ← Finset.sum_neg_distrib]
    apply Finset.sum_congr rfl
    intro i _
    rw [hel i]
    rfl

include hc in
/-- the executed RQ-CDF layer with linear tails never raises -/
theorem cdfApply_rq_tails_err_none (B n : ℕ) (x params : Array ℝ) (inverse : Bool) :
    (cdfApply (NF.realX e) c B n x params inverse).err = none := by
  rw [cdfApply, elemwise_err_none]
  intro b i _ hi
  rw [cdfEl_eq e c n x params inverse b ⟨i, hi⟩]
  have h := rqTails_el_total e c hc.hk hc.ht _ (rqTailsSliceValid_of_cfg hc _ (cdfSlice_length hc params i))
    (batchRow x n b ⟨i, hi⟩)
  cases inverse
  · exact ⟨_, h.1⟩
  · exact ⟨_, h.2⟩

end cdf


/-! ## 5. The EXECUTED linear family (`LULinear`, `QRLinear`, `SVDLinear`) and `Permutation` are affine parts -/

section linear
open NF.LF LinearBridge Matrix

theorem det_ne_zero_of_left_inverse {n : ℕ} {W Winv : Matrix (Fin n) (Fin n) ℝ} (h : Winv * W = 1) : W.det ≠ 0 := by
  intro h0
  have := congrArg Matrix.det h
  rw [Matrix.det_mul, h0, mul_zero, Matrix.det_one] at this
  exact zero_ne_one this

theorem luW_det_ne_zero (p : LUParams ℝ) (hlen : p.udiag.length = p.n) (heps : 0 ≤ p.eps) : (luW p).det ≠ 0 := by
  obtain ⟨Winv, _, h, _⟩ := luWeightInverse_executed p hlen heps
  exact det_ne_zero_of_left_inverse h

/-- `LULinear` (lu.py) with the parameters `p` (unconstrained diagonal of length `n`, `eps ≥ 0`) as an n-D part:
    `x ↦ (L U) x + b`, `ld = log |det (L U)|` -/
noncomputable def luDiffeo (p : LUParams ℝ) (hlen : p.udiag.length = p.n) (heps : 0 ≤ p.eps) : DiffeoN p.n :=
  affineDiffeo (luW p) (vecFn p.n p.bias) (luW_det_ne_zero p hlen heps)

/-- **the executed `LULinear.forward` on a row and the executed `logabsdet()` ARE that part** -/
theorem luDiffeo_executed (p : LUParams ℝ) (hlen : p.udiag.length = p.n) (heps : 0 ≤ p.eps) (hb : p.bias.length = p.n)
    (x : Fin p.n → ℝ) :
    luForward realOps p [List.ofFn x] = [List.ofFn ((luDiffeo p hlen heps).T x)]
      ∧ luLogabsdet realOps p = (luDiffeo p hlen heps).ld x :=
  ⟨luForward_executed p hb x, luLogabsdet_executed p hlen heps⟩

/-- … and `logabsdet()` is the sum of the logs of the (positive) diagonal of `U`, as lu.py:123-131 computes it -/
theorem luDiffeo_ld_sum (p : LUParams ℝ) (hlen : p.udiag.length = p.n) (heps : 0 ≤ p.eps) (x : Fin p.n → ℝ) :
    (luDiffeo p hlen heps).ld x = sumLog realOps (posDiag realOps p.eps p.udiag) :=
  (luLogabsdet_executed p hlen heps).symm

theorem qrW_det_ne_zero (p : QRParams ℝ) (vs : List (Fin p.n → ℝ)) (hq : p.qs = vs.map List.ofFn)
    (hv : ∀ v ∈ vs, v ⬝ᵥ v ≠ 0) (hl : p.logDiag.length = p.n) : (qrW p vs).det ≠ 0 := by
  obtain ⟨Winv, _, h, _⟩ := qrWeightInverse_executed p vs hq hv hl
  exact det_ne_zero_of_left_inverse h

/-- `QRLinear` (qr.py) as an n-D part -/
noncomputable def qrDiffeo (p : QRParams ℝ) (vs : List (Fin p.n → ℝ)) (hq : p.qs = vs.map List.ofFn)
    (hv : ∀ v ∈ vs, v ⬝ᵥ v ≠ 0) (hl : p.logDiag.length = p.n) : DiffeoN p.n :=
  affineDiffeo (qrW p vs) (vecFn p.n p.bias) (qrW_det_ne_zero p vs hq hv hl)

theorem qrDiffeo_executed (p : QRParams ℝ) (vs : List (Fin p.n → ℝ)) (hq : p.qs = vs.map List.ofFn)
    (hv : ∀ v ∈ vs, v ⬝ᵥ v ≠ 0) (hl : p.logDiag.length = p.n) (hb : p.bias.length = p.n) (x : Fin p.n → ℝ) :
    qrForward realOps p [List.ofFn x] = [List.ofFn ((qrDiffeo p vs hq hv hl).T x)]
      ∧ qrLogabsdet realOps p = (qrDiffeo p vs hq hv hl).ld x :=
  ⟨qrForward_executed p vs hq hl hb x, qrLogabsdet_executed p vs hv hl⟩

theorem svdW_det_ne_zero (p : SVDParams ℝ) (vs1 vs2 : List (Fin p.n → ℝ)) (h1 : p.qs1 = vs1.map List.ofFn)
    (h2 : p.qs2 = vs2.map List.ofFn) (hv1 : ∀ v ∈ vs1, v ⬝ᵥ v ≠ 0) (hv2 : ∀ v ∈ vs2, v ⬝ᵥ v ≠ 0)
    (hl : p.udiag.length = p.n) (heps : 0 ≤ p.eps) : (svdW p vs1 vs2).det ≠ 0 := by
  obtain ⟨Winv, _, h, _⟩ := svdWeightInverse_executed p vs1 vs2 h1 h2 hv1 hv2 hl heps
  exact det_ne_zero_of_left_inverse h

/-- `SVDLinear` (svd.py) as an n-D part -/
noncomputable def svdDiffeo (p : SVDParams ℝ) (vs1 vs2 : List (Fin p.n → ℝ)) (h1 : p.qs1 = vs1.map List.ofFn)
    (h2 : p.qs2 = vs2.map List.ofFn) (hv1 : ∀ v ∈ vs1, v ⬝ᵥ v ≠ 0) (hv2 : ∀ v ∈ vs2, v ⬝ᵥ v ≠ 0)
    (hl : p.udiag.length = p.n) (heps : 0 ≤ p.eps) : DiffeoN p.n :=
  affineDiffeo (svdW p vs1 vs2) (vecFn p.n p.bias) (svdW_det_ne_zero p vs1 vs2 h1 h2 hv1 hv2 hl heps)

theorem svdDiffeo_executed (p : SVDParams ℝ) (vs1 vs2 : List (Fin p.n → ℝ)) (h1 : p.qs1 = vs1.map List.ofFn)
    (h2 : p.qs2 = vs2.map List.ofFn) (hv1 : ∀ v ∈ vs1, v ⬝ᵥ v ≠ 0) (hv2 : ∀ v ∈ vs2, v ⬝ᵥ v ≠ 0)
    (hl : p.udiag.length = p.n) (heps : 0 ≤ p.eps) (hb : p.bias.length = p.n) (x : Fin p.n → ℝ) :
    svdForward realOps p [List.ofFn x] = [List.ofFn ((svdDiffeo p vs1 vs2 h1 h2 hv1 hv2 hl heps).T x)]
      ∧ svdLogabsdet realOps p = (svdDiffeo p vs1 vs2 h1 h2 hv1 hv2 hl heps).ld x :=
  ⟨svdForward_executed p vs1 vs2 h1 h2 hl hb x, svdLogabsdet_executed p vs1 vs2 hv1 hv2 hl heps⟩

end linear

/-- the index list of a permutation of `Fin n`, as `Permutation.__init__` receives it -/
def permList {n : ℕ} (σ : Equiv.Perm (Fin n)) : List ℕ := List.ofFn fun k => (σ k : ℕ)

/-- what the executed `Permutation(perm, dim=1)` computes on a `[B, n]` input -/
theorem permuteDim_2d (B n : ℕ) (perm : List ℕ) (hperm : perm.length = n) (x : Array ℝ) :
    NF.permuteDim [B, n] 1 perm x 0
      = .ok ((List.range (B * n)).map (fun o => x.getD ((o / n) * n + perm.getD (o % n) 0) 0)).toArray := by
  unfold NF.permuteDim
  simp [hperm, Nat.mod_one]

/-- **the executed `Permutation(perm, dim=1)` on a `[B, n]` input IS `permDiffeo`**: it does not raise, and row `b` of
    the output is `(permDiffeo σ).T` of row `b` of the input (the returned log-abs-det is the constant zero,
    permutations.py:37-39) -/
theorem permuteDim_row {n : ℕ} (σ : Equiv.Perm (Fin n)) (B : ℕ) (x : Array ℝ) :
    ∃ y, NF.permuteDim [B, n] 1 (permList σ) x 0 = .ok y ∧ y.size = B * n ∧
      ∀ b, b < B → ∀ k : Fin n, y[b * n + k]? = some ((permDiffeo σ).T (batchRow x n b) k) := by
  refine ⟨_, permuteDim_2d B n (permList σ) (by simp [permList]) x, by simp, ?_⟩
  intro b hb k
  have hn : 0 < n := k.pos
  have hlt : b * n + k < B * n := by
    have : (b + 1) * n ≤ B * n := Nat.mul_le_mul_right n hb
    rw [Nat.add_mul, Nat.one_mul] at this
    have := k.2
    omega
  have hdiv : (b * n + k) / n = b := by
    rw [Nat.mul_comm, Nat.mul_add_div hn, Nat.div_eq_of_lt k.2, Nat.add_zero]
  have hmod : (b * n + k) % n = k := by
    rw [Nat.mul_comm, Nat.mul_add_mod, Nat.mod_eq_of_lt k.2]
  simp [hlt, hdiv, hmod, permList, batchRow]


/-! ## 6. Headline over the EXECUTED bases -/

/-- **`Flow(CompositeTransform(parts), StandardNormal([D])).log_prob` is a normalised density**, for every list of
    n-D parts (any depth, any order — `luDiffeo`, `qrDiffeo`, `svdDiffeo`, `rqCdfDiffeo`, `permDiffeo`, …), every dimension
    `D`: the base is the EXECUTED `stdNormalRow` program, assembled as flows/base.py:42-49 does -/
theorem executed_flow_normalised (e : Float → ℝ) {D : ℕ} (parts : List (DiffeoN D)) :
    ∫ x : Fin D → ℝ, Real.exp (NF.Density.stdNormalRow (NF.realX e) D (List.ofFn ((progN parts).T x))
        + (progN parts).ld x) = 1 :=
  flow_logprob_normalised_progN parts (fun z => NF.Density.stdNormalRow (NF.realX e) D (List.ofFn z))
    (Properties.C05.stdNormal_normalised e D)

/-- the same over the executed `DiagonalNormal` base, any mean and log-std -/
theorem executed_flow_normalised_diag (e : Float → ℝ) {D : ℕ} (μ ls : Fin D → ℝ) (parts : List (DiffeoN D)) :
    ∫ x : Fin D → ℝ, Real.exp (NF.Density.diagNormalRow (NF.realX e) D (List.ofFn μ) (List.ofFn ls)
        (List.ofFn ((progN parts).T x)) + (progN parts).ld x) = 1 :=
  flow_logprob_normalised_progN parts
    (fun z => NF.Density.diagNormalRow (NF.realX e) D (List.ofFn μ) (List.ofFn ls) (List.ofFn z))
    (Properties.C05.diagNormal_normalised e μ ls)

/-- the same over the executed `ConditionalDiagonalNormal` base, per context row: whatever `(means, log_stds)` of the
    event size the context encoder produced -/
theorem executed_flow_normalised_cond (e : Float → ℝ) {D : ℕ} (means logStds : List ℝ) (hm : means.length = D)
    (hl : logStds.length = D) (parts : List (DiffeoN D)) :
    ∫ x : Fin D → ℝ, Real.exp (NF.Density.diagNormalRow (NF.realX e) D means logStds
        (List.ofFn ((progN parts).T x)) + (progN parts).ld x) = 1 :=
  flow_logprob_normalised_progN parts
    (fun z => NF.Density.diagNormalRow (NF.realX e) D means logStds (List.ofFn z))
    (Properties.C05.condNormal_row_normalised e means logStds hm hl)

/-- the example of the task: `[LU-linear, RQ-CDF with tails, permutation, RQ-CDF with tails]` over `StandardNormal` -/
example (e : Float → ℝ) (c : ElCfg) (hc : NF.StructureExec.RQTailsCfgValid e c)
    (hp : TailsWhole.PadExact e (NF.StructureExec.tMD c) (NF.StructureExec.tBe c))
    (p : NF.LF.LUParams ℝ) (hlen : p.udiag.length = p.n) (heps : 0 ≤ p.eps)
    (params params' : Array ℝ) (σ : Equiv.Perm (Fin p.n)) :
    let parts := [luDiffeo p hlen heps, rqCdfDiffeo e c hc hp p.n params, permDiffeo σ, rqCdfDiffeo e c hc hp p.n params']
    ∫ x : Fin p.n → ℝ, Real.exp (NF.Density.stdNormalRow (NF.realX e) p.n (List.ofFn ((progN parts).T x))
        + (progN parts).ld x) = 1 :=
  executed_flow_normalised e _


/-! ## 7. The executed masked-autoregressive RQ layer with linear tails, UNDER the explicit hypothesis that its row map
is differentiable (the conditioner is a neural network: ReLU kinks are where the hypothesis can fail, DESIGN §8.4) -/

section ar
open NF.ARWhole NF.StructureExec

/-- the determinant form of `ARWhole.ar_row_logdet` (same proof): the Jacobian of the row map has
    `|det| = exp (ld[b])` — in particular it is non-zero -/
theorem ar_row_abs_det (e : Float → ℝ) (c : ElCfg) (B F : Nat) (net : Array ℝ → Array ℝ) (x : Array ℝ)
    (hnet : AutoregNet B F (pw c) net) (hx : x.size = B * F) {b : Nat} (hb : b < B)
    {L : (Fin F → ℝ) →L[ℝ] (Fin F → ℝ)}
    (hL : HasFDerivAt (rowMap e c B F net x b) L (fun i => x.getD (b * F + i.1) 0))
    (hdiag : ∀ i : Fin F, HasDerivAt (elMap e c F (net x) b i)
      (Real.exp (ldOf (NF.realX e) (arEl (NF.realX e) c F x (net x) false b i))) (x.getD (b * F + i.1) 0)) :
    ∃ l, (arForward (NF.realX e) c B F net x).ld[b]? = some l ∧ |L.det| = Real.exp l := by
  set v0 : Fin F → ℝ := fun i => x.getD (b * F + i.1) 0 with hv0
  have hline : ∀ (i j : Fin F) (t : ℝ), ¬ (j < i) → ∀ j' : Fin F, j' < i →
      (v0 + t • (Pi.single j (1 : ℝ) : Fin F → ℝ)) j' = x.getD (b * F + j'.1) 0 := by
    intro i j t hji j' hj'
    have hne : j' ≠ j := fun h => hji (h ▸ hj')
    simp [hne, hv0]
  have hdet := RankedDet.det_of_ranked_dependency hL (fun i => i.1)
    (fun i => Real.exp (ldOf (NF.realX e) (arEl (NF.realX e) c F x (net x) false b i)))
    (by
      intro i j hji hr t
      have hr' : ¬ (j < i) := fun h => hr h
      rw [rowMap_eq e c B F net x hnet hx hb _ i (hline i j t hr'),
        rowMap_eq e c B F net x hnet hx hb v0 i (fun j' _ => rfl)]
      have hne : i ≠ j := fun h => hji h.symm
      simp [hne])
    (by
      intro i
      have hfun : (fun t : ℝ => rowMap e c B F net x b (v0 + t • Pi.single i 1) i)
          = fun t : ℝ => elMap e c F (net x) b i (v0 i + t) := by
        funext t
        rw [rowMap_eq e c B F net x hnet hx hb _ i (hline i i t (lt_irrefl i))]
        simp
      rw [hfun]
      have h := hdiag i
      have h0 : x.getD (b * F + i.1) 0 = v0 i + 0 := by simp [hv0]
      rw [h0] at h
      exact h.comp_const_add (v0 i) 0)
  refine ⟨_, ar_forward_ld_real e c B F net x hb, ?_⟩
  rw [ContinuousLinearMap.det, hdet, ← Real.exp_sum, abs_of_pos (Real.exp_pos _)]

theorem ofFn_getD {F : ℕ} (a : Array ℝ) (h : a.size = F) : Array.ofFn (fun i : Fin F => a.getD i 0) = a := by
  apply Array.ext
  · simp [h]
  · intro i h1 h2
    simp [Array.getD_eq_getD_getElem?, Array.getElem?_eq_getElem h2]

theorem ofFn_inj {F : ℕ} {v w : Fin F → ℝ} (h : Array.ofFn v = Array.ofFn w) : v = w := by
  funext i
  have := congrArg (fun a : Array ℝ => a.getD i 0) h
  simpa using this

theorem setRow_one (F : ℕ) (x : Array ℝ) (w : Fin F → ℝ) : setRow 1 F x 0 w = Array.ofFn w := by
  apply Array.ext
  · simp [setRow]
  · intro i h1 h2
    have hi : i < F := by simpa using h2
    simp [setRow, Nat.mod_eq_of_lt hi, hi]

variable (e : Float → ℝ) (c : ElCfg) (F : ℕ) (net : Array ℝ → Array ℝ)

/-- the row map of the EXECUTED forward pass (`arForward`: the conditioner `net` is run on the input, the element-wise
    transformer on every feature) on a one-row batch -/
noncomputable def arRowT (v : Fin F → ℝ) : Fin F → ℝ :=
  fun i => (arForward (NF.realX e) c 1 F net (Array.ofFn v)).out.getD i 0

/-- the log-abs-det the executed forward pass returns for that row -/
noncomputable def arRowLd (v : Fin F → ℝ) : ℝ := (arForward (NF.realX e) c 1 F net (Array.ofFn v)).ld.getD 0 0

theorem rowMap_one (x : Array ℝ) : rowMap e c 1 F net x 0 = arRowT e c F net := by
  funext w i
  simp [rowMap, arRowT, setRow_one]

theorem arForward_out_ofFn (v : Fin F → ℝ) :
    (arForward (NF.realX e) c 1 F net (Array.ofFn v)).out = Array.ofFn (arRowT e c F net v) := by
  unfold arRowT
  rw [ofFn_getD]
  rw [arForward, arApply_out_size, Nat.one_mul]

/-- the hypotheses: an accepted configuration, the padding constant read exactly, a strictly autoregressive conditioner
    (C06; `madeNet` of every `build`-accepted architecture is one), and — explicitly — differentiability of the row map -/
structure ARRowHyp : Prop where
  hc : RQTailsCfgValid e c
  hp : TailsWhole.PadExact e (tMD c) (tBe c)
  hnet : AutoregNet 1 F (3 * c.K - 1) net
  hdiff : Differentiable ℝ (arRowT e c F net)

variable {e c F net}

theorem arRow_bijective (h : ARRowHyp e c F net) : Function.Bijective (arRowT e c F net) := by
  have hsz : ∀ v : Fin F → ℝ, (Array.ofFn v).size = 1 * F := by intro v; simp
  constructor
  · intro v w hvw
    have h1 := (ar_rq_tails_roundtrip_real e c h.hc 1 F net h.hnet (Array.ofFn v) (hsz v)).1
    have h2 := (ar_rq_tails_roundtrip_real e c h.hc 1 F net h.hnet (Array.ofFn w) (hsz w)).1
    simp only at h1 h2
    have e1 := h1.2.2.1
    have e2 := h2.2.2.1
    rw [arForward_out_ofFn, hvw] at e1
    rw [arForward_out_ofFn] at e2
    exact ofFn_inj (e1.symm.trans e2)
  · intro y
    have h1 := (ar_rq_tails_roundtrip_real e c h.hc 1 F net h.hnet (Array.ofFn y) (hsz y)).2
    simp only at h1
    have hinv : (arInverse (NF.realX e) c 1 F net (Array.ofFn y)).out.size = F := by
      rw [arInverse_eq_iter, arIter_out_size _ c 1 F net _ (hsz y), Nat.one_mul]
    refine ⟨fun i => (arInverse (NF.realX e) c 1 F net (Array.ofFn y)).out.getD i 0, ?_⟩
    have e1 := h1.2.2.1
    rw [← ofFn_getD _ hinv, arForward_out_ofFn] at e1
    exact ofFn_inj e1

theorem arRow_abs_det (h : ARRowHyp e c F net) (v : Fin F → ℝ) :
    |(fderiv ℝ (arRowT e c F net) v).det| = Real.exp (arRowLd e c F net v) := by
  have hpt : (fun i : Fin F => (Array.ofFn v).getD (0 * F + i.1) 0) = v := by
    funext i; simp
  have hL : HasFDerivAt (rowMap e c 1 F net (Array.ofFn v) 0) (fderiv ℝ (arRowT e c F net) v)
      (fun i : Fin F => (Array.ofFn v).getD (0 * F + i.1) 0) := by
    rw [rowMap_one, hpt]
    exact (h.hdiff v).hasFDerivAt
  obtain ⟨l, hl, hdet⟩ := ar_row_abs_det e c 1 F net (Array.ofFn v)
    (by rw [pw_rq_tails h.hc.hk h.hc.ht]; exact h.hnet) (by simp) (b := 0) (by omega) hL
    (fun i => elMap_rq_tails_hasDerivAt e c h.hc h.hp F (Array.ofFn v) (net (Array.ofFn v)) 0 i)
  rw [hdet, arRowLd, List.getD_eq_getElem?_getD, hl]
  rfl

/-- **the executed masked-autoregressive RQ layer with linear tails as an n-D part**, under `ARRowHyp` -/
noncomputable def arRowDiffeo (h : ARRowHyp e c F net) : DiffeoN F where
  T := arRowT e c F net
  T' := fun v => fderiv ℝ (arRowT e c F net) v
  ld := arRowLd e c F net
  bij := arRow_bijective h
  deriv := fun v => (h.hdiff v).hasFDerivAt
  ld_eq := arRow_abs_det h

/-- the row map in closed form when the conditioner ignores its input (constant parameter tensor): feature `i` is the
    executed element at the `i`-th slice, applied to `v i` -/
theorem arRowT_const (params : Array ℝ) (v : Fin F → ℝ) (i : Fin F) :
    arRowT e c F (fun _ => params) v i = elMap e c F params 0 i (v i) := by
  unfold arRowT elMap
  have h := elemwise_out_getElem? (NF.realX e) 1 F (arEl (NF.realX e) c F (Array.ofFn v) params false) (b := 0)
    (by omega) i.2
  rw [Nat.zero_mul, Nat.zero_add] at h
  rw [Array.getD_eq_getD_getElem?, arForward, arApply, h, arEl_eq]
  simp

/-- **`ARRowHyp` is satisfiable**: for a conditioner that ignores its input (any constant parameter tensor — e.g. a MADE
    whose weights are zero, biases arbitrary) the row map is differentiable, so the hypothesis holds whenever the
    configuration is accepted -/
theorem arRowHyp_const_net (hc : RQTailsCfgValid e c) (hp : TailsWhole.PadExact e (tMD c) (tBe c)) (params : Array ℝ) :
    ARRowHyp e c F (fun _ => params) := by
  refine ⟨hc, hp, fun _ _ _ _ _ _ _ _ _ _ _ => rfl, ?_⟩
  rw [differentiable_pi]
  intro i
  have hfun : (fun v : Fin F → ℝ => arRowT e c F (fun _ => params) v i)
      = (elMap e c F params 0 i) ∘ (fun v : Fin F → ℝ => v i) := by
    funext v; exact arRowT_const params v i
  rw [hfun]
  have h1 : Differentiable ℝ (elMap e c F params 0 i) := by
    intro s
    rw [elMap_rq_tails e c hc.hk hc.ht]
    exact (TailsWhole.valT_hasDerivAt_all (arSliceValid_rq_tails e c hc F params 0 i) hp s).differentiableAt
  exact h1.comp (differentiable_apply i)

section made
open NF.Made

/-- `MaskedPiecewiseRationalQuadraticAutoregressiveTransform(tails='linear')` with the MADE conditioner of any
    `build`-accepted architecture: `ARRowHyp` reduces to the configuration and differentiability of the row map -/
theorem made_arRowHyp (hc : RQTailsCfgValid e c) (hp : TailsWhole.PadExact e (tMD c) (tBe c)) (a : Arch) (n : Net)
    (hbuild : build a = .ok n) (hmult : a.mult = 3 * c.K - 1) (W : ℕ → ℕ → ℕ → ℝ) (bias : ℕ → ℕ → ℝ)
    (ctxv : ℕ → ℕ → Fin 1 → ℝ) (g : ℕ → Slot → ℕ → (Fin 1 → ℝ) → Fin 1 → ℝ)
    (hdiff : Differentiable ℝ (arRowT e c a.F (madeNet n W bias 1 ctxv g))) :
    ARRowHyp e c a.F (madeNet n W bias 1 ctxv g) := by
  obtain ⟨hv, hF, hm, hFa, hma⟩ := build_valid hbuild
  refine ⟨hc, hp, ?_, hdiff⟩
  rw [← hmult, ← hma, ← hFa]
  exact madeNet_autoreg n hv hm W bias 1 ctxv g

end made
end ar

/-! ## 8. End to end: a pipeline of EXECUTED layers followed by the EXECUTED base

Every layer below is RUN by the program the driver runs (`cdfApply`, `permuteDim`, `luForward` / `luLogabsdet`,
`qrForward` / `qrLogabsdet`, `svdForward` / `svdLogabsdet`, `arForward`), on a one-row batch (other rows: C12,
`cdf_row_independent`, `ar_row_independent`); the log-abs-dets are accumulated as `_cascade` does and the executed
`StandardNormal` / `DiagonalNormal` row is added, as `Flow._log_prob` does.  Each layer carries its own configuration
and parameters. -/

section pipeline
open NF.StructureExec NF.LF LinearBridge NF.ARWhole

/-- a layer on `[B, n]` inputs -/
inductive ExecLayer (e : Float → ℝ) (n : ℕ) where
  /-- `PiecewiseRationalQuadraticCDF(shape=[n], tails='linear')`, unnormalised parameters `params : [n, 3K-1]` -/
  | cdf (c : ElCfg) (hc : RQTailsCfgValid e c) (hp : TailsWhole.PadExact e (tMD c) (tBe c)) (params : Array ℝ)
  /-- `Permutation(perm, dim=1)` (`ReversePermutation`, `RandomPermutation`) -/
  | perm (σ : Equiv.Perm (Fin n))
  /-- `LULinear(n)` -/
  | lu (lower upper udiag bias : List ℝ) (eps : ℝ) (hlen : udiag.length = n) (heps : 0 ≤ eps) (hb : bias.length = n)
  /-- `QRLinear(n, num_householder)`, no q-vector zero -/
  | qr (upper logDiag bias : List ℝ) (vs : List (Fin n → ℝ)) (hv : ∀ v ∈ vs, v ⬝ᵥ v ≠ 0) (hl : logDiag.length = n)
      (hb : bias.length = n)
  /-- `SVDLinear(n, num_householder)`, no q-vector zero -/
  | svd (udiag bias : List ℝ) (eps : ℝ) (vs1 vs2 : List (Fin n → ℝ)) (hv1 : ∀ v ∈ vs1, v ⬝ᵥ v ≠ 0)
      (hv2 : ∀ v ∈ vs2, v ⬝ᵥ v ≠ 0) (hl : udiag.length = n) (heps : 0 ≤ eps) (hb : bias.length = n)
  /-- `MaskedPiecewiseRationalQuadraticAutoregressiveTransform(tails='linear')` with conditioner `net`, under the
      explicit differentiability hypothesis inside `ARRowHyp` -/
  | ar (c : ElCfg) (net : Array ℝ → Array ℝ) (h : ARRowHyp e c n net)

theorem batchRow_ofFn {n : ℕ} (v : Fin n → ℝ) : batchRow (Array.ofFn v) n 0 = v := by
  funext i
  simp [batchRow]

variable {e : Float → ℝ}

/-- RUN one layer on the row `v` with the executed programs: `(output row, log-abs-det)` -/
noncomputable def ExecLayer.run {n : ℕ} : ExecLayer e n → (Fin n → ℝ) → (Fin n → ℝ) × ℝ
  | .cdf c _ _ params, v =>
    let r := cdfApply (NF.realX e) c 1 n (Array.ofFn v) params false
    (fun i => r.out.getD i 0, r.ld.getD 0 0)
  | .perm σ, v =>
    match NF.permuteDim [1, n] 1 (permList σ) (Array.ofFn v) 0 with
    | .ok y => (fun i => y.getD i 0, 0)
    | .error _ => (v, 0)
  | .lu lower upper udiag bias eps _ _ _, v =>
    let p : LUParams ℝ := { n := n, lower := lower, upper := upper, udiag := udiag, bias := bias, eps := eps }
    (fun i => ((luForward realOps p [List.ofFn v]).headD []).getD i 0, luLogabsdet realOps p)
  | .qr upper logDiag bias vs _ _ _, v =>
    let p : QRParams ℝ := { n := n, upper := upper, logDiag := logDiag, qs := vs.map List.ofFn, bias := bias }
    (fun i => ((qrForward realOps p [List.ofFn v]).headD []).getD i 0, qrLogabsdet realOps p)
  | .svd udiag bias eps vs1 vs2 _ _ _ _ _, v =>
    let p : SVDParams ℝ :=
      { n := n, udiag := udiag, qs1 := vs1.map List.ofFn, qs2 := vs2.map List.ofFn, bias := bias, eps := eps }
    (fun i => ((svdForward realOps p [List.ofFn v]).headD []).getD i 0, svdLogabsdet realOps p)
  | .ar c net _, v =>
    let r := arForward (NF.realX e) c 1 n net (Array.ofFn v)
    (fun i => r.out.getD i 0, r.ld.getD 0 0)

/-- the n-D part a layer is -/
noncomputable def ExecLayer.part {n : ℕ} : ExecLayer e n → DiffeoN n
  | .cdf c hc hp params => rqCdfDiffeo e c hc hp n params
  | .perm σ => permDiffeo σ
  | .lu lower upper udiag bias eps hlen heps _ =>
    luDiffeo { n := n, lower := lower, upper := upper, udiag := udiag, bias := bias, eps := eps } hlen heps
  | .qr upper logDiag bias vs hv hl _ =>
    qrDiffeo { n := n, upper := upper, logDiag := logDiag, qs := vs.map List.ofFn, bias := bias } vs rfl hv hl
  | .svd udiag bias eps vs1 vs2 hv1 hv2 hl heps _ =>
    svdDiffeo { n := n, udiag := udiag, qs1 := vs1.map List.ofFn, qs2 := vs2.map List.ofFn, bias := bias, eps := eps }
      vs1 vs2 rfl rfl hv1 hv2 hl heps
  | .ar _ _ h => arRowDiffeo h

/-- **running a layer with the executed programs = applying its part** -/
theorem ExecLayer.run_eq {n : ℕ} (L : ExecLayer e n) (v : Fin n → ℝ) : L.run v = (L.part.T v, L.part.ld v) := by
  cases L with
  | cdf c hc hp params =>
    obtain ⟨h1, h2⟩ := cdfApply_rq_tails_row e c hc hp 1 n (Array.ofFn v) params (b := 0) (by omega)
    rw [batchRow_ofFn] at h1 h2
    simp only [ExecLayer.run, ExecLayer.part]
    congr 1
    · funext i
      have := h1 i
      rw [Nat.zero_mul, Nat.zero_add] at this
      rw [Array.getD_eq_getD_getElem?, this]; rfl
    · rw [List.getD_eq_getElem?_getD, h2]; rfl
  | perm σ =>
    obtain ⟨y, hy, _, h1⟩ := permuteDim_row σ 1 (Array.ofFn v)
    simp only [ExecLayer.run, ExecLayer.part, hy]
    congr 1
    funext i
    have := h1 0 (by omega) i
    rw [Nat.zero_mul, Nat.zero_add, batchRow_ofFn] at this
    rw [Array.getD_eq_getD_getElem?, this]; rfl
  | lu lower upper udiag bias eps hlen heps hb =>
    obtain ⟨h1, h2⟩ := luDiffeo_executed
      { n := n, lower := lower, upper := upper, udiag := udiag, bias := bias, eps := eps } hlen heps hb v
    simp only [ExecLayer.run, ExecLayer.part]
    rw [h1, ← h2]
    congr 1
    funext i
    simp
  | qr upper logDiag bias vs hv hl hb =>
    obtain ⟨h1, h2⟩ := qrDiffeo_executed
      { n := n, upper := upper, logDiag := logDiag, qs := vs.map List.ofFn, bias := bias } vs rfl hv hl hb v
    simp only [ExecLayer.run, ExecLayer.part]
    rw [h1, ← h2]
    congr 1
    funext i
    simp
  | svd udiag bias eps vs1 vs2 hv1 hv2 hl heps hb =>
    obtain ⟨h1, h2⟩ := svdDiffeo_executed
      { n := n, udiag := udiag, qs1 := vs1.map List.ofFn, qs2 := vs2.map List.ofFn, bias := bias, eps := eps }
      vs1 vs2 rfl rfl hv1 hv2 hl heps hb v
    simp only [ExecLayer.run, ExecLayer.part]
    rw [h1, ← h2]
    congr 1
    funext i
    simp
  | ar c net h => rfl

/-- RUN a list of layers in the order given, accumulating the log-abs-dets (`CompositeTransform._cascade`) -/
noncomputable def runAll {n : ℕ} : List (ExecLayer e n) → (Fin n → ℝ) → (Fin n → ℝ) × ℝ
  | [], v => (v, 0)
  | L :: rest, v => ((runAll rest (L.run v).1).1, (L.run v).2 + (runAll rest (L.run v).1).2)

theorem runAll_eq {n : ℕ} (Ls : List (ExecLayer e n)) (v : Fin n → ℝ) :
    runAll Ls v = ((progN (Ls.map ExecLayer.part)).T v, (progN (Ls.map ExecLayer.part)).ld v) := by
  induction Ls generalizing v with
  | nil => rfl
  | cons L rest ih =>
    simp only [runAll, List.map_cons, ExecLayer.run_eq L v, ih]
    rfl

/-- **End to end, n dimensions**: `Flow(CompositeTransform(layers), StandardNormal([n])).log_prob`, every layer RUN by its
    executed program and the base by the executed `stdNormalRow`, is a normalised probability density — for every list
    of RQ-CDF (linear tails) / permutation / LU / QR / SVD-linear layers (and masked-autoregressive RQ layers whose row
    map is differentiable), any depth, any `n`, any parameters. -/
theorem executed_pipeline_normalised {n : ℕ} (Ls : List (ExecLayer e n)) :
    ∫ x : Fin n → ℝ, Real.exp (NF.Density.stdNormalRow (NF.realX e) n (List.ofFn (runAll Ls x).1) + (runAll Ls x).2) = 1 := by
  simp_rw [runAll_eq Ls]
  exact executed_flow_normalised e _

/-- the same over the executed `DiagonalNormal` / `ConditionalDiagonalNormal` row (any means and log-stds of length `n`) -/
theorem executed_pipeline_normalised_diag {n : ℕ} (means logStds : List ℝ) (hm : means.length = n)
    (hl : logStds.length = n) (Ls : List (ExecLayer e n)) :
    ∫ x : Fin n → ℝ, Real.exp (NF.Density.diagNormalRow (NF.realX e) n means logStds (List.ofFn (runAll Ls x).1)
        + (runAll Ls x).2) = 1 := by
  simp_rw [runAll_eq Ls]
  exact executed_flow_normalised_cond e means logStds hm hl _

end pipeline

/-! ## 9. Non-vacuity -/

section witness
open NF.StructureExec

/-- the product of two different affine 1-D parts -/
example : ∃ d : Fin 2 → Diffeo1, (piDiffeo d).T ![1, 1] = ![3, 1] ∧ (piDiffeo d).ld ![1, 1] = Real.log 2 := by
  have hd : ∃ a : Diffeo1, a.f = (fun x => 2 * x + 1) ∧ a.ld = fun _ => Real.log 2 := by
    refine ⟨{ f := fun x => 2 * x + 1, ld := fun _ => Real.log 2, bij := ?_, deriv := ?_ }, rfl, rfl⟩
    · constructor
      · intro a b h; simpa using h
      · intro y; exact ⟨(y - 1) / 2, by ring⟩
    · intro x
      rw [Real.exp_log (by norm_num)]
      simpa using ((hasDerivAt_id x).const_mul (2:ℝ)).add_const (1:ℝ)
  obtain ⟨a, ha, hl⟩ := hd
  refine ⟨![a, Diffeo1.id], ?_, ?_⟩
  · funext i
    fin_cases i
    · simp [ha]; norm_num
    · simp [Diffeo1.id]
  · simp [Fin.sum_univ_two, hl, Diffeo1.id]

/-- an affine part with a non-trivial matrix -/
example : ∃ d : DiffeoN 2, d.T ![1, 1] = ![4, 1] ∧ d.ld ![1, 1] = Real.log 2 := by
  have hW : (!![2, 1; 0, 1] : Matrix (Fin 2) (Fin 2) ℝ).det ≠ 0 := by simp [Matrix.det_fin_two]
  refine ⟨affineDiffeo !![2, 1; 0, 1] ![1, 0] hW, ?_, ?_⟩
  · funext i
    fin_cases i
    · simp; norm_num
    · simp
  · simp [Matrix.det_fin_two]

/-- a pipeline without spline layers: any interpretation `e` of the constants -/
example (e : Float → ℝ) :
    ∫ x : Fin 2 → ℝ, Real.exp (NF.Density.stdNormalRow (NF.realX e) 2 (List.ofFn
        (runAll (e := e) [.lu [3] [5] [0, 1] [1, -1] (1 / 1000) rfl (by norm_num) rfl, .perm (Equiv.swap 0 1)] x).1)
      + (runAll (e := e) [.lu [3] [5] [0, 1] [1, -1] (1 / 1000) rfl (by norm_num) rfl, .perm (Equiv.swap 0 1)] x).2) = 1 :=
  executed_pipeline_normalised _

/-- `[LU-linear, RQ-CDF with tails, permutation, RQ-CDF with tails]` at the concrete configuration `cT1` (one bin, tail
    bound 1) and the interpretation `TailsWhole.eP`: the hypotheses `RQTailsCfgValid`, `PadExact` are jointly satisfiable
    (`Float.log` / `Float.exp` are opaque to the kernel, so — exactly as `NF.ARWhole.pad_cfg_example` — conditional on the
    seven `Float` comparisons an evaluator confirms) -/
example (hk : (TailsWhole.kP == TailsWhole.kP) = true) (h0 : ((0.0:Float) == TailsWhole.kP) = false)
    (h1 : ((1.0:Float) == TailsWhole.kP) = false) (hm1 : ((-(1.0:Float)) == TailsWhole.kP) = false)
    (h2 : (((1.0:Float) - (-(1.0:Float))) == TailsWhole.kP) = false) (h6 : ((1e-6:Float) == TailsWhole.kP) = false)
    (hcc : (((1:Float) - 0.0 * (1:Nat).toFloat) == TailsWhole.kP) = false) (params params' : Array ℝ) :
    ∃ Ls : List (ExecLayer TailsWhole.eP 2), Ls.length = 4 ∧
      ∫ x : Fin 2 → ℝ, Real.exp (NF.Density.stdNormalRow (NF.realX TailsWhole.eP) 2 (List.ofFn (runAll Ls x).1)
        + (runAll Ls x).2) = 1 := by
  obtain ⟨hc, hp⟩ := NF.ARWhole.pad_cfg_example hk h0 h1 hm1 h2 h6 hcc
  exact ⟨[.lu [3] [5] [0, 1] [1, -1] (1 / 1000) rfl (by norm_num) rfl, .cdf cT1 hc hp params,
    .perm (Equiv.swap 0 1), .cdf cT1 hc hp params'], rfl, executed_pipeline_normalised _⟩

end witness

end FlowWholeND
