import NflowsModel.Lemmas.LogdetExecConv
import NflowsModel.Lemmas.LogdetExecNorm
import NflowsModel.Lemmas.LogdetExecPerm
/-!
# Lemmas/LogdetExec — log-abs-det of whole EXECUTED layers whose Jacobian determinant carries a size factor (C01, C02, C17)

Umbrella of three files, all in namespace `LogdetExec`, all about the list programs the driver runs
(`Core/LinearFamily.lean`, `Core/Norm.lean`, `Core/Reshape.lean`) evaluated over ℝ:

* `Lemmas/LogdetExecConv.lean` — `OneByOneConvolution`: every batch entry of the log-det returned by `convForward` is
  `H·W·luLogabsdet` (`convLogabsdet_entry`), the executed map on a batch item IS the per-pixel map `v ↦ W (v ∘ σ) + b`
  (`convForward_item`), whose Fréchet derivative is the block-diagonal `convJac` with
  `log |det| = H·W·log |det W|` = the returned entry (`conv_logdet_is_log_abs_det_fderiv`); round trip
  `conv_roundtrip`, `conv_logdet_inverse_neg`.
* `Lemmas/LogdetExecNorm.lean` — `ActNorm` on 2-D and 4-D inputs (`actLogdet_d2`, `actLogdet_d4`: `Σ log_scale` resp.
  `H·W·Σ log_scale`; `actnorm_d2_logdet_is_log_abs_det`, `actnorm_d4_logdet_is_log_abs_det`: it is `log |det J|` of the
  executed diagonal map; `actUnapply_actApply`, `actStep_fwd_inv`), `BatchNorm` in evaluation mode
  (`batchnorm_logdet_is_log_abs_det(_of_eps)`, `bnDenormalise_bnNormalise`, `bnStep_eval_fwd_inv`).
* `Lemmas/LogdetExecPerm.lean` — `Permutation` along any dimension of any shape and `SqueezeTransform`: each batch item of
  the executed output is a coordinate permutation of the same item of the input (`permuteDim_item_is_reindex_general`,
  `squeezeFwd_item_is_reindex_dvd`, `squeezeInv_item_is_reindex`), hence `|det J| = 1 = exp 0` (`ItemReindex.logdet`);
  error characterisations (`permuteDim_error_iff`, `squeezeFwd_error_iff`, `squeezeInv_error_iff`), executed round trips
  (`permuteDim_roundtrip`, `squeeze_roundtrip`), and what the model accepts although it is not a bijection
  (`permuteDim_accepts_non_permutation`, `non_permutation_det_zero`).
-/
