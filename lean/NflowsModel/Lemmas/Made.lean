import Mathlib.Algebra.BigOperators.Group.Finset.Basic
import Mathlib.Data.Real.Basic
import Mathlib.Tactic

namespace Made


open Finset

/-- hidden vector as a function of the (whole) input `x`; unit `k` "responds" only to inputs of degree ≤ degs k.
    Input feature `j` has degree `j+1` (made.py:12-14). -/
def Resp (F : ℕ) (degs : ℕ → ℕ) (h : (ℕ → ℝ) → ℕ → ℝ) : Prop :=
  ∀ k x x', (∀ j < F, j + 1 ≤ degs k → x j = x' j) → h x k = h x' k

/-- masked linear layer, mask rule `≥` (hidden layers) -/
noncomputable def maskedLinear (nin : ℕ) (W : ℕ → ℕ → ℝ) (b : ℕ → ℝ) (dIn dOut : ℕ → ℕ)
    (h : (ℕ → ℝ) → ℕ → ℝ) : (ℕ → ℝ) → ℕ → ℝ :=
  fun x k => b k + ∑ j ∈ range nin, W k j * (if dOut k ≥ dIn j then 1 else 0) * h x j

/-- masked linear layer, mask rule `>` (output layer) -/
noncomputable def maskedLinearOut (nin : ℕ) (W : ℕ → ℕ → ℝ) (b : ℕ → ℝ) (dIn dOut : ℕ → ℕ)
    (h : (ℕ → ℝ) → ℕ → ℝ) : (ℕ → ℝ) → ℕ → ℝ :=
  fun x k => b k + ∑ j ∈ range nin, W k j * (if dOut k > dIn j then 1 else 0) * h x j

theorem resp_input (F : ℕ) : Resp F (fun j => j + 1) (fun x j => if j < F then x j else 0) := by
  intro k x x' hag
  by_cases hk : k < F
  · simp only [hk, if_true]; exact hag k hk le_rfl
  · simp [hk]

theorem maskedLinear_resp {F nin : ℕ} {W b dIn dOut h} (hh : Resp F dIn h) :
    Resp F dOut (maskedLinear nin W b dIn dOut h) := by
  intro k x x' hag
  unfold maskedLinear
  congr 1
  apply Finset.sum_congr rfl
  intro j _
  by_cases hm : dOut k ≥ dIn j
  · have : h x j = h x' j := hh j x x' (fun i hi hle => hag i hi (le_trans hle hm))
    rw [this]
  · simp [hm]

theorem elementwise_resp {F : ℕ} {degs h} (act : ℕ → ℝ → ℝ) (hh : Resp F degs h) :
    Resp F degs (fun x k => act k (h x k)) := by
  intro k x x' hag; simp only; rw [hh k x x' hag]

theorem add_const_resp {F : ℕ} {degs h} (c : ℕ → ℝ) (hh : Resp F degs h) :
    Resp F degs (fun x k => h x k + c k) := by
  intro k x x' hag; simp only; rw [hh k x x' hag]

theorem resp_mono {F : ℕ} {d d' h} (hle : ∀ k, d k ≤ d' k) (hh : Resp F d h) : Resp F d' h := by
  intro k x x' hag; exact hh k x x' (fun j hj hd => hag j hj (le_trans hd (hle k)))

/-- residual connection needs non-decreasing degrees (the RuntimeError check, made.py:172-176) -/
theorem residual_resp {F : ℕ} {dIn dOut h g} (hle : ∀ k, dIn k ≤ dOut k)
    (hh : Resp F dIn h) (hg : Resp F dOut g) : Resp F dOut (fun x k => h x k + g x k) := by
  intro k x x' hag; simp only
  rw [resp_mono hle hh k x x' hag, hg k x x' hag]

/-- output layer: unit k is determined by inputs of degree < dOut k -/
theorem maskedLinearOut_strict {F nin : ℕ} {W b dIn dOut h} (hh : Resp F dIn h) :
    ∀ k x x', (∀ j < F, j + 1 < dOut k → x j = x' j) →
      maskedLinearOut nin W b dIn dOut h x k = maskedLinearOut nin W b dIn dOut h x' k := by
  intro k x x' hag
  unfold maskedLinearOut
  congr 1
  apply Finset.sum_congr rfl
  intro j _
  by_cases hm : dOut k > dIn j
  · have : h x j = h x' j := hh j x x' (fun i hi hle => hag i hi (lt_of_le_of_lt hle hm))
    rw [this]
  · simp [hm]

/-- feature-major, multiplier-minor output degrees: `tile [1..F] m` -/
def outDeg (m : ℕ) (k : ℕ) : ℕ := k / m + 1

/-- the autoregressive property for the output block of feature `i` -/
theorem made_output_autoregressive {F nin m : ℕ} (hm : 0 < m) {W b dIn h} (hh : Resp F dIn h)
    (i r : ℕ) (hr : r < m) (x x' : ℕ → ℝ) (hag : ∀ j < i, x j = x' j) :
    maskedLinearOut nin W b dIn (outDeg m) h x (i * m + r)
      = maskedLinearOut nin W b dIn (outDeg m) h x' (i * m + r) := by
  apply maskedLinearOut_strict hh
  intro j _ hlt
  apply hag
  have : (i * m + r) / m = i := by
    rw [Nat.mul_comm, Nat.mul_add_div hm, Nat.div_eq_of_lt hr, Nat.add_zero]
  unfold outDeg at hlt; omega


end Made
