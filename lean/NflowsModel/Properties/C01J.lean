import NflowsModel.Properties.C01
import NflowsModel.Lemmas.CouplingJacobian
/-!
# C01, continued — the EXECUTED coupling layer: returned log-abs-det = log |det Jacobian| of the executed row map

(`Lemmas/CouplingJacobian.lean` builds on `Properties/C03.lean`, so these re-statements live in a second file of the namespace;
`Audit/C01.lean` imports both.)
-/
open NF NF.StructureExec

namespace Properties.C01

/-- **executed coupling layer with its conditioner in the loop** (`CouplingJacobian.couplingRun`: the conditioner — an ARBITRARY
    function — is run on the identity split exactly as coupling.py does; any numeric mask, any batch size, both passes): if the
    executed row map has Fréchet derivative `L` at the row (a hypothesis, the conditioner being arbitrary) and every transformed
    element obeys its derivative law, then the returned `ld[b]` satisfies `|det L| = exp ld[b]`.  The triangular structure —
    identity outputs are identity inputs, transformed output `i` depends on input `i` and the identity inputs only — is PROVED of
    the executed program, and `det_of_ranked_dependency` applied with rank "identity first". -/
theorem exec_coupling_row_abs_det (e : Float → ℝ) (c : ElCfg) (mask : List ℝ) (B : Nat) (net : Array ℝ → Array ℝ)
    (inverse : Bool) (x : Array ℝ) (hx : x.size = B * mask.length) {b : Nat} (hb : b < B)
    {L : (Fin mask.length → ℝ) →L[ℝ] (Fin mask.length → ℝ)}
    (hL : HasFDerivAt (CouplingJacobian.couplingRowMap e c mask B net inverse x b) L (rowOf (NF.realX e) mask.length b x))
    (hdiag : ∀ i, isT (NF.realX e) mask i = true →
      HasDerivAt (CouplingJacobian.couplingElMap e c mask (net (CouplingJacobian.idSplit (NF.realX e) mask B x)) inverse b i)
        (Real.exp (CouplingJacobian.couplingElLd e c mask (net (CouplingJacobian.idSplit (NF.realX e) mask B x)) inverse b i
          (rowOf (NF.realX e) mask.length b x i)))
        (rowOf (NF.realX e) mask.length b x i)) :
    ∃ l, (CouplingJacobian.couplingRun (NF.realX e) c mask B net inverse x).ld[b]? = some l ∧ |L.det| = Real.exp l :=
  CouplingJacobian.coupling_row_abs_det e c mask B net inverse x hx hb hL hdiag

/-- the channel-sum form of the executed coupling log-det needs NO "no element raised" hypothesis over the reals -/
theorem exec_coupling_ld_is_channel_sum' (e : Float → ℝ) (c : ElCfg) (mask : List ℝ) (B : Nat) (x params uparams : Array ℝ)
    (inverse : Bool) {b : Nat} (hb : b < B) :
    (couplingApply (NF.realX e) c mask B 1 x params inverse none uparams).ld[b]?
      = some (∑ i : Fin mask.length,
          if isT (NF.realX e) mask i then
            ldOf (NF.realX e) (chanEl (NF.realX e) c mask params b i inverse (rowOf (NF.realX e) mask.length b x i))
          else 0) :=
  CouplingJacobian.coupling_ld_channels e c mask B x params uparams inverse hb

end Properties.C01
