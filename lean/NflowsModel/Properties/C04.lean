import NflowsModel.Core.FlowPairing
import NflowsModel.Lemmas.Pairing
import NflowsModel.Lemmas.FlowPairing
import NflowsModel.Lemmas.ChangeOfVar
import NflowsModel.Lemmas.Pushforward
/-!
# C04 — samples and densities of a flow agree, row by row

Statements are about the executable value-level model `Core/FlowPairing.lean` (what the driver runs on tagged data,
op `c04_pair`): `Flow._sample`, `Flow.sample_and_log_prob`, `Distribution.sample_and_log_prob` as functions of the
noise tensor, for every number `R` of context rows, every `n > 0`, arbitrary row-wise transform / log-density /
embedding functions.  `get2 x i j` is entry `j` of block `i` of an `[R][n]` nested list; `Uniform x R n` says `x`
has `R` blocks of length `n`.

What is proved and what is not:
* row-by-row agreement (first sentence of the property): proved, all `R`, `n` (`flow_sample_and_log_prob_pairing`,
  `flow_sample_and_log_prob_consistent`, `..._noctx`), given C02's `ldInv = -ld ∘ inv` and `T ∘ T⁻¹ = id` as hypotheses;
* "block `i` is drawn from the density conditioned on context row `i`": proved as the pairing of noise block `i` with
  (embedded) context row `i` (`flow_sample_pairing`) + the push-forward theorems below;
* "samples follow exp(log_prob)": proved for differentiable bijections in 1-D (set form, distribution-function form,
  and `Measure.map` form) and n-D (set form): `sample_event_probability_*`, `sample_cdf_1d`, `pushforward_density_1d`.
  TRUSTED, not proved: `torch.randn` draws from the base density; the law of large numbers linking the empirical
  distribution function to these probabilities; differentiability of neural conditioners (a hypothesis).
-/
open NF.FlowPairing

namespace Properties.C04

/-! ## index algebra of the helpers (torchutils.py:27-52) -/

/-- `repeat_rows`: flat row `i·n + j` is row `i` -/
theorem repeat_rows_get {α : Type} (x : List α) (n i j : ℕ) (hi : i < x.length) (hj : j < n) :
    (repeatRows x n)[i * n + j]? = x[i]? :=
  NF.FlowPairing.repeatRows_get x n i j hi hj

/-- `merge_leading_dims(·, 2)`: flat row `i·n + j` is draw `j` of block `i` -/
theorem merge_leading_get {α : Type} (x : List (List α)) (R n i j : ℕ) (hx : Uniform x R n) (hi : i < R) (hj : j < n) :
    (mergeLeading x)[i * n + j]? = get2 x i j :=
  NF.FlowPairing.mergeLeading_get x R n i j hx hi hj

/-- `split_leading_dim(·, [-1, n])`: draw `j` of block `i` is flat row `i·n + j` -/
theorem split_leading_get {α : Type} (n : ℕ) (l : List α) (i j : ℕ) (hi : i < l.length / n) (hj : j < n) :
    get2 (splitLeading n l) i j = l[i * n + j]? :=
  NF.FlowPairing.splitLeading_get n l i j hi hj

/-- **pairing** (design-time form, `Lemmas/Pairing`): after merge + repeat_rows, flat position `i·n + j` holds
    `(noise[i][j], context[i])` — a tile (`x.repeat(n, 1)`) instead of a row repetition would put context row
    `(i·n + j) mod R` there -/
theorem pairing {α β : Type} (noise : List (List α)) (ctx : List β) (n i j : ℕ)
    (hlen : ∀ b ∈ noise, b.length = n) (hR : noise.length = ctx.length) (hi : i < ctx.length) (hj : j < n) :
    (Pairing.mergeLeading noise)[i * n + j]? = (noise[i]?).bind (fun b => b[j]?) ∧
    (Pairing.repeatRows ctx n)[i * n + j]? = ctx[i]? :=
  Pairing.pairing noise ctx n i j hlen hR hi hj

/-- the executable helpers are the ones the design-time lemmas were proved about -/
theorem helpers_agree {α : Type} (x : List α) (xs : List (List α)) (n : ℕ) :
    repeatRows x n = Pairing.repeatRows x n ∧ mergeLeading xs = Pairing.mergeLeading xs ∧
    splitLeading n x = Pairing.splitLeading n x := ⟨rfl, rfl, rfl⟩

/-! ## the flow, with a context -/

/-- `Flow.sample(n, context)`: sample `j` of block `i` is `T⁻¹(noise[i][j]; emb(context[i]))` -/
theorem flow_sample_pairing {Z X C E V : Type} (f : FlowFns Z X C E V) (ctx : List C) (R n : ℕ) (N : List (List Z))
    (hN : Uniform N R n) (hctx : ctx.length = R) (i j : ℕ) (hi : i < R) (hj : j < n) (z : Z) (c : C)
    (hz : get2 N i j = some z) (hc : ctx[i]? = some c) :
    get2 (flowSample f ctx n N) i j = some (f.tinv z (f.emb c)) := by
  unfold flowSample
  exact pipeline_get f.tinv N (ctx.map f.emb) R n i j hN (by simp [hctx]) hi hj z (f.emb c) hz (by simp [hc])

/-- the default `Distribution.sample_and_log_prob(n, context)`: the samples come back as they were drawn and
    `log_prob[i][j] = lp(samples[i][j]; context[i])` -/
theorem dist_sample_and_log_prob_pairing {Z E V : Type} (lp : Z → E → V) (e : List E) (R n : ℕ) (S : List (List Z))
    (hS : Uniform S R n) (he : e.length = R) (i j : ℕ) (hi : i < R) (hj : j < n) (z : Z) (c : E)
    (hz : get2 S i j = some z) (hc : e[i]? = some c) :
    get2 (distSalp lp e n S).1 i j = some z ∧ get2 (distSalp lp e n S).2 i j = some (lp z c) := by
  unfold distSalp
  exact ⟨by rw [split_merge_get S R n i j hS hi hj, hz], pipeline_get lp S e R n i j hS he hi hj z c hz hc⟩

/-- **`Flow.sample_and_log_prob(n, context)`**, every `R`, every `n`:
    `samples[i][j] = T⁻¹(N i j; emb cᵢ)` and
    `logp[i][j] = base.logp(N i j; emb cᵢ) − ldInv(N i j; emb cᵢ)` -/
theorem flow_sample_and_log_prob_pairing {Z X C E V : Type} (f : FlowFns Z X C E V) (ctx : List C) (R n : ℕ)
    (N : List (List Z)) (hN : Uniform N R n) (hctx : ctx.length = R) (i j : ℕ) (hi : i < R) (hj : j < n)
    (z : Z) (c : C) (hz : get2 N i j = some z) (hc : ctx[i]? = some c) :
    get2 (flowSalp f ctx n N).1 i j = some (f.tinv z (f.emb c)) ∧
    get2 (flowSalp f ctx n N).2 i j = some (f.sub (f.blp z (f.emb c)) (f.ldInv z (f.emb c))) := by
  have hn : 0 < n := by omega
  have he : (ctx.map f.emb).length = R := by simp [hctx]
  have hce : (ctx.map f.emb)[i]? = some (f.emb c) := by simp [hc]
  -- what the base distribution hands back
  have hU : Uniform (splitLeading n (mergeLeading N)) R n := split_merge_uniform N R n hn hN
  have hz' : get2 (splitLeading n (mergeLeading N)) i j = some z := by rw [split_merge_get N R n i j hN hi hj, hz]
  have hlp := (dist_sample_and_log_prob_pairing f.blp (ctx.map f.emb) R n N hN he i j hi hj z (f.emb c) hz hce).2
  unfold flowSalp
  simp only [distSalp] at hlp ⊢
  refine ⟨pipeline_get f.tinv _ _ R n i j hU he hi hj z (f.emb c) hz' hce, ?_⟩
  exact get2_zipWith f.sub _ _ i j _ _ hlp (pipeline_get f.ldInv _ _ R n i j hU he hi hj z (f.emb c) hz' hce)

/-- **row-by-row agreement**: if the inverse's log-abs-det is minus the forward's at the image (C02) and the forward
    undoes the inverse (C02), the value returned for sample `(i, j)` is exactly what `log_prob` assigns to that
    sample under context row `i` -/
theorem flow_sample_and_log_prob_consistent {Z X C E : Type} (f : FlowFns Z X C E ℝ) (ctx : List C) (R n : ℕ)
    (N : List (List Z)) (hN : Uniform N R n) (hctx : ctx.length = R) (i j : ℕ) (hi : i < R) (hj : j < n) (c : C)
    (hc : ctx[i]? = some c)
    (hadd : ∀ a b, f.add a b = a + b) (hsub : ∀ a b, f.sub a b = a - b)
    (hld : ∀ z e, f.ldInv z e = - f.ld (f.tinv z e) e) (hround : ∀ z e, f.tfwd (f.tinv z e) e = z) :
    ∃ x, get2 (flowSalp f ctx n N).1 i j = some x ∧ get2 (flowSalp f ctx n N).2 i j = some (flowLogProb1 f x c) := by
  obtain ⟨z, hz⟩ := get2_lt hN hi hj
  obtain ⟨h1, h2⟩ := flow_sample_and_log_prob_pairing f ctx R n N hN hctx i j hi hj z c hz hc
  refine ⟨_, h1, ?_⟩
  rw [h2, flowLogProb1, hadd, hsub, hld, hround]
  congr 1; ring

/-- the two sentences of the property together for `sample`: block `i` of `Flow.sample(n, context)` consists of
    `T⁻¹(·; emb cᵢ)` applied to the `n` noise rows drawn for context row `i` and to nothing else -/
theorem flow_sample_block {Z X C E V : Type} (f : FlowFns Z X C E V) (ctx : List C) (R n : ℕ) (N : List (List Z))
    (hN : Uniform N R n) (hctx : ctx.length = R) (i : ℕ) (hi : i < R) (c : C) (hc : ctx[i]? = some c) :
    ∀ j, j < n → ∃ z, get2 N i j = some z ∧ get2 (flowSample f ctx n N) i j = some (f.tinv z (f.emb c)) := by
  intro j hj
  obtain ⟨z, hz⟩ := get2_lt hN hi hj
  exact ⟨z, hz, flow_sample_pairing f ctx R n N hN hctx i j hi hj z c hz hc⟩

/-! ## the flow, without a context -/

theorem flow_sample_and_log_prob_pairing_noctx {Z X V : Type} (f : FlowFns0 Z X V) (N : List Z) (j : ℕ) (z : Z)
    (hz : N[j]? = some z) :
    (flowSalp0 f N).1[j]? = some (f.tinv z) ∧ (flowSalp0 f N).2[j]? = some (f.sub (f.blp z) (f.ldInv z)) := by
  simp [flowSalp0, distSalp0, hz]

theorem flow_sample_and_log_prob_consistent_noctx {Z X : Type} (f : FlowFns0 Z X ℝ) (N : List Z) (j : ℕ) (z : Z)
    (hz : N[j]? = some z) (hadd : ∀ a b, f.add a b = a + b) (hsub : ∀ a b, f.sub a b = a - b)
    (hld : ∀ z, f.ldInv z = - f.ld (f.tinv z)) (hround : ∀ z, f.tfwd (f.tinv z) = z) :
    (flowSalp0 f N).1[j]? = some (f.tinv z) ∧ (flowSalp0 f N).2[j]? = some (flowLogProb0 f (f.tinv z)) := by
  obtain ⟨h1, h2⟩ := flow_sample_and_log_prob_pairing_noctx f N j z hz
  refine ⟨h1, ?_⟩
  rw [h2, flowLogProb0, hadd, hsub, hld, hround]
  congr 1; ring

/-! ## the tagged instance the driver executes (op `c04_pair`) -/

theorem baseLayout_uniform (R n : ℕ) (hn : 0 < n) : Uniform (baseLayout n (List.range (R * n))) R n :=
  splitLeading_uniform n _ R hn (by simp)

theorem baseLayout_get (R n i j : ℕ) (hi : i < R) (hj : j < n) :
    get2 (baseLayout n (List.range (R * n))) i j = some (i * n + j) := by
  have hn : 0 < n := by omega
  unfold baseLayout
  rw [splitLeading_get n _ i j (by simp [Nat.mul_div_cancel R hn, hi]) hj]
  have : i * n + j < R * n := by
    have : (i + 1) * n ≤ R * n := Nat.mul_le_mul_right n hi
    have h2 : (i + 1) * n = i * n + n := by ring
    omega
  simp [this]

/-- what the driver answers for `(R, n, shift)`: sample `(i, j)` was computed from flat draw `i·n + j` and context
    row `i` (embedded: `i + shift`), and so were both terms of its log-probability -/
theorem tagged_pairing (shift R n i j : ℕ) (hi : i < R) (hj : j < n) :
    get2 (taggedSalp shift R n).1 i j = some (i * n + j, i + shift) ∧
    get2 (taggedSalp shift R n).2 i j = some [i * n + j, i + shift, i * n + j, i + shift] := by
  have hn : 0 < n := by omega
  have h := flow_sample_and_log_prob_pairing (tagFns shift) (List.range R) R n (baseLayout n (List.range (R * n)))
    (baseLayout_uniform R n hn) (by simp) i j hi hj (i * n + j) i (baseLayout_get R n i j hi hj) (by simp [hi])
  simpa [taggedSalp, tagFns] using h

/-! ## samples follow exp(log_prob) -/

/-- (restated from `Lemmas/ChangeOfVar`) the density `Flow.log_prob` reports is normalised, 1-D -/
theorem flow_logprob_normalised_1d (f ld logp : ℝ → ℝ)
    (hbij : Function.Bijective f) (hd : ∀ x, HasDerivAt f (Real.exp (ld x)) x)
    (hp : ∫ z, Real.exp (logp z) = 1) :
    ∫ x, Real.exp (logp (f x) + ld x) = 1 :=
  ChangeOfVar.flow_logprob_normalised_1d f ld logp hbij hd hp

/-- (restated) n-D -/
theorem flow_normalised_nd {n : ℕ} (T : (Fin n → ℝ) → (Fin n → ℝ))
    (T' : (Fin n → ℝ) → ((Fin n → ℝ) →L[ℝ] (Fin n → ℝ))) (ld : (Fin n → ℝ) → ℝ) (p : (Fin n → ℝ) → ℝ)
    (hbij : Function.Bijective T) (hd : ∀ x, HasFDerivAt T (T' x) x)
    (hld : ∀ x, |(T' x).det| = Real.exp (ld x)) (hp : ∫ z, p z = 1) :
    ∫ x, p (T x) * Real.exp (ld x) = 1 :=
  ChangeOfVar.flow_normalised_nd T T' ld p hbij hd hld hp

/-- 1-D: for every measurable event `A`, P(sample ∈ A) = ∫_A exp(log_prob) -/
theorem sample_event_probability_1d (T Tinv ld logp : ℝ → ℝ)
    (hl : ∀ x, Tinv (T x) = x) (hr : ∀ z, T (Tinv z) = z)
    (hd : ∀ x, HasDerivAt T (Real.exp (ld x)) x) (A : Set ℝ) (hA : MeasurableSet A) :
    ∫ z in Tinv ⁻¹' A, Real.exp (logp z) = ∫ x in A, Real.exp (logp (T x) + ld x) :=
  Pushforward.sample_event_probability_logprob_1d T Tinv ld logp hl hr hd A hA

/-- 1-D: the distribution function of the samples is the integral of `exp(log_prob)` — what the empirical
    distribution function converges to (law of large numbers: trusted) -/
theorem sample_cdf_1d (T Tinv ld logp : ℝ → ℝ)
    (hl : ∀ x, Tinv (T x) = x) (hr : ∀ z, T (Tinv z) = z)
    (hd : ∀ x, HasDerivAt T (Real.exp (ld x)) x) (t : ℝ) :
    ∫ z in {z | Tinv z ≤ t}, Real.exp (logp z) = ∫ x in Set.Iic t, Real.exp (logp (T x) + ld x) :=
  Pushforward.sample_cdf_1d T Tinv ld logp hl hr hd t

/-- n-D, set form -/
theorem sample_event_probability_nd {n : ℕ} (T Tinv : (Fin n → ℝ) → (Fin n → ℝ))
    (T' : (Fin n → ℝ) → ((Fin n → ℝ) →L[ℝ] (Fin n → ℝ))) (ld p : (Fin n → ℝ) → ℝ)
    (hl : ∀ x, Tinv (T x) = x) (hr : ∀ z, T (Tinv z) = z)
    (hd : ∀ x, HasFDerivAt T (T' x) x) (hld : ∀ x, |(T' x).det| = Real.exp (ld x))
    (A : Set (Fin n → ℝ)) (hA : MeasurableSet A) :
    ∫ z in Tinv ⁻¹' A, p z = ∫ x in A, p (T x) * Real.exp (ld x) :=
  Pushforward.sample_event_probability_nd T Tinv T' ld p hl hr hd hld A hA

/-- 1-D, measure form: the law of `T⁻¹ z`, `z ~ p`, is the measure with density `p (T x) · exp (ld x)` -/
theorem pushforward_density_1d (T Tinv ld : ℝ → ℝ) (p : ℝ → ENNReal)
    (hl : ∀ x, Tinv (T x) = x) (hr : ∀ z, T (Tinv z) = z)
    (hd : ∀ x, HasDerivAt T (Real.exp (ld x)) x) (hTinv : Measurable Tinv) :
    MeasureTheory.Measure.map Tinv (MeasureTheory.volume.withDensity p)
      = MeasureTheory.volume.withDensity (fun x => ENNReal.ofReal (Real.exp (ld x)) * p (T x)) :=
  Pushforward.pushforward_density_1d T Tinv ld p hl hr hd hTinv

/-! ## non-vacuity -/

/-- a conditional affine flow `x = z·exp(-s c) - t c … ` satisfies the C02 hypotheses of the consistency theorem -/
example : ∃ f : FlowFns ℝ ℝ ℝ ℝ ℝ,
    (∀ a b, f.add a b = a + b) ∧ (∀ a b, f.sub a b = a - b) ∧
    (∀ z e, f.ldInv z e = - f.ld (f.tinv z e) e) ∧ (∀ z e, f.tfwd (f.tinv z e) e = z) ∧
    f.tinv 1 0 ≠ f.tinv 1 1 :=
  ⟨{ emb := fun c => 2 * c, tinv := fun z e => z - e, ldInv := fun _ e => -e, tfwd := fun x e => x + e,
     ld := fun _ e => e, blp := fun z e => -(z - e) ^ 2, add := (· + ·), sub := (· - ·) },
   fun _ _ => rfl, fun _ _ => rfl, fun _ _ => rfl, fun z e => by simp, by norm_num⟩

example : Uniform [[1, 2, 3], [4, 5, 6]] 2 3 := ⟨rfl, by simp⟩
example : (taggedSalp 100 2 3).1 = [[(0, 100), (1, 100), (2, 100)], [(3, 101), (4, 101), (5, 101)]] := by decide
/-- the identity `x ↦ x` (ld = 0) meets the hypotheses of the push-forward theorems -/
example : ∀ x : ℝ, HasDerivAt (fun x : ℝ => x) (Real.exp ((fun _ => (0:ℝ)) x)) x := by
  intro x; simpa using hasDerivAt_id' x

end Properties.C04
