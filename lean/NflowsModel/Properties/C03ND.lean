import NflowsModel.Properties.C03
import NflowsModel.Lemmas.FlowWholeND
import NflowsModel.Lemmas.CouplingJacobian
import NflowsModel.Lemmas.MadeSmooth
/-!
# C03, continued — the n-dimensional `DiffeoN` parts are inhabited by EXECUTED programs

(`Lemmas/FlowWholeND.lean` builds on the definitions of `Properties/C03.lean`, so these re-statements live in a second file of
the same namespace; `Audit/C03.lean` imports both.)
-/
open MeasureTheory

namespace Properties.C03

/-- **executed `Piecewise RationalQuadratic CDF` layer with linear tails** (`cdfApply`, parameters shared across the batch): row `b`
    of its output is the product map `FlowWholeND.rqCdfDiffeo` — a `DiffeoN` — applied to row `b` of the input, and `ld[b]` is that
    part's log-abs-det; any parameter array, any batch size, any dimension -/
theorem executed_rq_cdf_layer_is_diffeo (e : Float → ℝ) (c : NF.ElCfg) (hc : NF.StructureExec.RQTailsCfgValid e c)
    (hp : TailsWhole.PadExact e (NF.StructureExec.tMD c) (NF.StructureExec.tBe c)) (B n : ℕ) (x params : Array ℝ) {b : ℕ} (hb : b < B) :
    (∀ i : Fin n, (NF.cdfApply (NF.realX e) c B n x params false).out[b * n + i]?
        = some ((FlowWholeND.rqCdfDiffeo e c hc hp n params).T (FlowWholeND.batchRow x n b) i))
    ∧ (NF.cdfApply (NF.realX e) c B n x params false).ld[b]?
        = some ((FlowWholeND.rqCdfDiffeo e c hc hp n params).ld (FlowWholeND.batchRow x n b)) :=
  FlowWholeND.cdfApply_rq_tails_row e c hc hp B n x params hb

/-- **End to end, n dimensions, any depth**: a pipeline of EXECUTED conditioner-free layers — RQ-CDF with linear tails, coordinate
    permutations, LU / QR / SVD linear layers (and a masked autoregressive RQ-tails layer under an explicit differentiability
    hypothesis on its row map), each with its own parameters, in any order and number — run by `ExecLayer.run` on the actual
    executed programs and accumulated as `CompositeTransform._cascade` does, followed by the executed `StandardNormal` row:
    `exp(log_prob)` integrates to one. -/
theorem executed_pipeline_is_normalised (e : Float → ℝ) {n : ℕ} (Ls : List (FlowWholeND.ExecLayer e n)) :
    ∫ x : Fin n → ℝ, Real.exp (NF.Density.stdNormalRow (NF.realX e) n (List.ofFn (FlowWholeND.runAll Ls x).1)
        + (FlowWholeND.runAll Ls x).2) = 1 :=
  FlowWholeND.executed_pipeline_normalised Ls

/-- the same over the executed `DiagonalNormal` / `ConditionalDiagonalNormal` row, any means and log-stds -/
theorem executed_pipeline_is_normalised_diag (e : Float → ℝ) {n : ℕ} (means logStds : List ℝ) (hm : means.length = n)
    (hl : logStds.length = n) (Ls : List (FlowWholeND.ExecLayer e n)) :
    ∫ x : Fin n → ℝ, Real.exp (NF.Density.diagNormalRow (NF.realX e) n means logStds (List.ofFn (FlowWholeND.runAll Ls x).1)
        + (FlowWholeND.runAll Ls x).2) = 1 :=
  FlowWholeND.executed_pipeline_normalised_diag means logStds hm hl Ls

/-- every list of `DiffeoN` parts over the executed standard-normal base (the `exp(logp + ld)` form the code computes) -/
theorem executed_flow_is_normalised (e : Float → ℝ) {D : ℕ} (parts : List (DiffeoN D)) :
    ∫ x : Fin D → ℝ, Real.exp (NF.Density.stdNormalRow (NF.realX e) D (List.ofFn ((progN parts).T x)) + (progN parts).ld x) = 1 :=
  FlowWholeND.executed_flow_normalised e parts

/-- **pipelines that also contain executed COUPLING layers** (RQ with linear tails, additive or affine elements; any mask; the
    conditioner an arbitrary function, under the explicit hypothesis `CouplingRowHyp` that the executed row map is differentiable
    — discharged for constant and, for the additive / affine families, for affine conditioners): together with RQ-CDF, permutation,
    LU/QR/SVD and autoregressive layers, over the executed standard-normal row, `exp(log_prob)` integrates to one. -/
theorem executed_pipeline_with_coupling_is_normalised (e : Float → ℝ) {n : ℕ} (Ls : List (NF.CouplingJacobian.ExecLayer2 e n)) :
    ∫ x : Fin n → ℝ, Real.exp (NF.Density.stdNormalRow (NF.realX e) n (List.ofFn (NF.CouplingJacobian.runAll2 Ls x).1)
        + (NF.CouplingJacobian.runAll2 Ls x).2) = 1 :=
  NF.CouplingJacobian.executed_pipeline2_normalised Ls

/-! ## real (non-constant) neural conditioners (`Lemmas/MadeSmooth.lean`; answer to the external audit)

The differentiability of the row map through the conditioner is no longer only a hypothesis: every output of the executed MADE
forward is a differentiable function of the input row for every architecture `Made.build` accepts, every weight and every
differentiable per-unit map (tanh, sigmoid, ELU, thresholdless softplus) — and with it the executed masked AFFINE autoregressive
layer (`MaskedAffineAutoregressiveTransform` with a smooth-activation MADE) is a diffeomorphism of ℝ^F whose returned log-det is
`log|det|` of its Fréchet derivative, WITHOUT any Jacobian hypothesis; the one side condition is forced: no unconstrained scale
sits exactly on the softplus threshold 20, where the executed softplus is discontinuous.  Coupling layers: additive / affine with
any one-hidden-layer smooth perceptron.  NOT covered: ReLU (the library default, where the hypothesis is false), the RQ-with-tails
autoregressive / coupling layers with a non-constant conditioner (joint differentiability in parameters and input is proved
strictly inside bins only), `ResidualNet` (not modelled). -/

/-- every output of the executed MADE is differentiable in whatever the input row depends on differentiably -/
theorem made_forward_differentiable {E : Type} [NormedAddCommGroup E] [NormedSpace ℝ E] {B : ℕ} (n : NF.Made.Net)
    (hv : n.valid = true) (W : ℕ → ℕ → ℕ → ℝ) (bias : ℕ → ℕ → ℝ) (ctxv : ℕ → ℕ → Fin B → ℝ)
    (g : ℕ → NF.Made.Slot → ℕ → (Fin B → ℝ) → Fin B → ℝ) (hg : ∀ s sl k, Differentiable ℝ (g s sl k))
    (φ : E → Fin B → ℕ → ℝ) (hφ : ∀ b j, Differentiable ℝ fun p => φ p b j) (b : Fin B) (u : ℕ) :
    Differentiable ℝ fun p => NF.Made.madeReal n W bias ctxv g (φ p) b u :=
  NF.MadeSmooth.madeReal_differentiable n hv W bias ctxv g hg φ hφ b u

/-- the forced side condition: the executed softplus (threshold 20) is discontinuous at its threshold -/
theorem softplus_threshold_discontinuity (e : Float → ℝ) : ¬ ContinuousAt (NF.realX e).softplus 20 :=
  NF.MadeSmooth.softplus_not_continuousAt_threshold e

/-- the executed masked affine autoregressive layer with a MADE conditioner and differentiable unit maps: the row map is
    differentiable (formerly the hypothesis `hdiff`) -/
theorem maf_layer_differentiable {e : Float → ℝ} {c : NF.ElCfg} (hk : c.kind = "araffine") (he : 0 ≤ e (c.ds.getD 0 0.0))
    (a : NF.Made.Arch) (n : NF.Made.Net) (hb : NF.Made.build a = .ok n) (hm : a.mult = 2)
    (W : ℕ → ℕ → ℕ → ℝ) (bias : ℕ → ℕ → ℝ) (ctxv : ℕ → ℕ → Fin 1 → ℝ)
    (g : ℕ → NF.Made.Slot → ℕ → (Fin 1 → ℝ) → Fin 1 → ℝ) (hg : ∀ s sl k, Differentiable ℝ (g s sl k))
    (hthr : ∀ (v : Fin n.F → ℝ) (i : Fin n.F), (NF.ARWhole.madeNet n W bias 1 ctxv g (Array.ofFn v)).getD (↑i * 2) 0 ≠ 20) :
    Differentiable ℝ (FlowWholeND.arRowT e c n.F (NF.ARWhole.madeNet n W bias 1 ctxv g)) :=
  NF.MadeSmooth.arAffineRow_differentiable (NF.MadeSmooth.made_arAffineHyp hk he a n hb hm W bias ctxv g hg hthr)

/-- pipelines of executed layers that may contain such MAF layers (besides everything `ExecLayer2` offers), over the executed
    standard-normal row: `exp(log_prob)` integrates to one -/
theorem executed_pipeline_with_maf_is_normalised {e : Float → ℝ} {n : ℕ} (Ls : List (NF.MadeSmooth.ExecLayer3 e n)) :
    ∫ x : Fin n → ℝ, Real.exp (NF.Density.stdNormalRow (NF.realX e) n (List.ofFn (NF.MadeSmooth.runAll3 Ls x).1)
        + (NF.MadeSmooth.runAll3 Ls x).2) = 1 :=
  NF.MadeSmooth.executed_pipeline3_normalised Ls

end Properties.C03
