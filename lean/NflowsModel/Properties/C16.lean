import NflowsModel.Real.Bridge
import NflowsModel.Lemmas.DualSound
/-!
# C16 — log_prob and transforms are differentiable with correct gradients  (PARTIAL)

What is proved: forward-mode AD over the expression language (`dualOps`, the semantics the driver runs as
`dualX floatX` for the comparison with `torch.autograd`) is SOUND — the tangent component is the derivative of the
real semantics along the seeded direction — wherever the term is `Smooth` (no division by zero, no `log`/`sqrt` at
zero, no comparison at equality: "away from the finitely many kinks"); and the executed RQ forward term is
`Smooth` in the interior of its bin for every parameter value, so its value is differentiable in the input AND in
every parameter (width, height, knot derivatives), with the derivative the dual evaluation returns.
What is trusted: PyTorch autograd for compositions of built-in ops (chain rule through conditioners, sums over
features) and the dual rules of the primitives outside `Expr` (tanh, atan, …).
-/
open DualSound NF

namespace Properties.C16

/-- **Soundness of dual-number evaluation** (structural induction over `Expr`) -/
theorem evalDual_sound (env dir : Nat → ℝ) (e : Expr) (hs : Smooth env e) :
    (evalD (fun i => (env i, dir i)) e).1 = evalR env e ∧
    HasDerivAt (fun t => evalR (line env dir t) e) (evalD (fun i => (env i, dir i)) e).2 0 :=
  DualSound.evalDual_sound env dir e hs

/-- **Interior smoothness of the executed RQ forward term**: bin width `w ≠ 0` and a non-vanishing denominator
    (true on the whole bin for positive height and knot derivatives, `RQ.den_pos`) make the term `Smooth`. -/
theorem rq_interior_smooth {x xk w yk h d0 d1 : ℝ} (hw : 0 < w) (hh : 0 < h) (h0 : 0 < d0) (h1 : 0 < d1)
    (hx0 : xk ≤ x) (hx1 : x ≤ xk + w) :
    Smooth (Bridge.rqEnv x xk w yk h d0 d1) rqFwdE := by
  have hs : 0 < h / w := div_pos hh hw
  have ht0 : 0 ≤ (x - xk) / w := div_nonneg (by linarith) hw.le
  have ht1 : (x - xk) / w ≤ 1 := by rw [div_le_one hw]; linarith
  have hden := (RQ.den_pos hs h0 h1 ht0 ht1).ne'
  simp only [rqFwdE, NF.v, Expr.add_def, Expr.sub_def, Expr.mul_def, Expr.div_def, Expr.ofNat_def, Smooth, evalR_div,
    evalR_var, evalR_add, evalR_sub, evalR_mul, evalR_lit, Bridge.rqEnv0, Bridge.rqEnv1, Bridge.rqEnv2, Bridge.rqEnv3,
    Bridge.rqEnv4, Bridge.rqEnv5, Bridge.rqEnv6, true_and, and_true]
  have hden' : h / w + (d0 + d1 - 2 * (h / w)) * ((x - xk) / w * (1 - (x - xk) / w)) ≠ 0 := by
    simpa [RQ.den] using hden
  simp only [ne_eq, hw.ne', not_false_eq_true, and_self, true_and, and_true]
  norm_num
  exact hden'

/-- **The derivative the dual evaluation returns for the executed RQ term is its true derivative**, in the input
    and in every parameter simultaneously (direction `dir` over the 7 variables x, xk, w, yk, h, d0, d1). -/
theorem rq_executed_derivative_is_dual {x xk w yk h d0 d1 : ℝ} (dir : Nat → ℝ) (hw : 0 < w) (hh : 0 < h) (h0 : 0 < d0) (h1 : 0 < d1)
    (hx0 : xk ≤ x) (hx1 : x ≤ xk + w) :
    HasDerivAt (fun t => evalR (line (Bridge.rqEnv x xk w yk h d0 d1) dir t) rqFwdE)
      (evalD (fun i => (Bridge.rqEnv x xk w yk h d0 d1 i, dir i)) rqFwdE).2 0 :=
  (evalDual_sound _ dir rqFwdE (rq_interior_smooth hw hh h0 h1 hx0 hx1)).2

/-- value component of the dual evaluation is the ordinary evaluation (so outputs are unchanged by taking gradients) -/
theorem dual_value_eq (env dir : Nat → ℝ) (e : Expr) (hs : Smooth env e) :
    (evalD (fun i => (env i, dir i)) e).1 = evalR env e := (evalDual_sound env dir e hs).1

example : Smooth (Bridge.rqEnv 0.3 0 1 0 1 1 1) rqFwdE :=
  rq_interior_smooth (by norm_num) (by norm_num) (by norm_num) (by norm_num) (by norm_num) (by norm_num)

end Properties.C16
