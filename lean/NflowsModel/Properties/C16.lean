import NflowsModel.Real.Bridge
import NflowsModel.Lemmas.DualSound
import NflowsModel.Lemmas.DualX
import NflowsModel.Lemmas.DualXNonlin
import NflowsModel.Lemmas.DualXSpline
/-!
# C16 — log_prob and transforms are differentiable with correct gradients  (PARTIAL)

What is proved: forward-mode AD over the expression language (`dualOps`, the semantics the driver runs as
`dualX floatX` for the comparison with `torch.autograd`) is SOUND — the tangent component is the derivative of the
real semantics along the seeded direction — wherever the term is `Smooth` (no division by zero, no `log`/`sqrt` at
zero, no comparison at equality: "away from the finitely many kinks"); and the executed RQ forward term is
`Smooth` in the interior of its bin for every parameter value, so its value is differentiable in the input AND in
every parameter (width, height, knot derivatives), with the derivative the dual evaluation returns.
Since the `DualX*` lemma files: the tangent rules of ALL primitives of `XOps` (tanh, atan, tan, cos, sin, atan2, abs, floor,
log1p, softplus with its threshold, sigmoid, min/max/clamp, sign) are sound at the reals away from their stated kinks; every
element-wise transformer of `Core/Nonlin.lean`, run on dual numbers, returns its value paired with the true derivative — in the
input and in its own parameters; and the whole executed rational-quadratic PROGRAM (softmax, cumsum, search, gather included)
run on the dual input `(x, 1)` returns `(value, exp(log-det))`.
What is trusted: PyTorch autograd for compositions of built-in ops (chain rule through conditioners, sums over features).

**Not covered by any theorem** (external audit; carried by the autograd-vs-dual-number correspondence and the finite-difference
oracle): the cubic inverse (`Properties/C16M.lean` proves the dual run WRONG in a parameter direction on a witness), NaiveLinear and normalisation layers in training mode (LU, BatchNorm in evaluation mode, ActNorm: `Properties/C16L.lean`; QR, SVD, Householder, 1×1 convolution: `Properties/C16O.lean`), whole flows other than cascades of the linear / normalisation stages over a normal base (`Properties/C16F.lean`) / `log_prob`, "every trainable parameter receives a
gradient", finiteness of gradients, second backward.  Coupling layers: bounded RQ elements only (`Properties/C16D.lean`).
-/
open DualSound NF

namespace Properties.C16

/-- **Soundness of dual-number evaluation** (structural induction over `Expr`) -/
theorem evalDual_sound (env dir : Nat → ℝ) (e : Expr) (hs : Smooth env e) :
    (evalD (fun i => (env i, dir i)) e).1 = evalR env e ∧
    HasDerivAt (fun t => evalR (line env dir t) e) (evalD (fun i => (env i, dir i)) e).2 0 :=
  DualSound.evalDual_sound env dir e hs

/-- **Interior smoothness of the executed RQ forward term**: bin width `w ≠ 0` and a non-vanishing denominator
    (true on the whole bin for positive height and knot derivatives, `RQ.den_pos`) make the term `Smooth`. -/
theorem rq_interior_smooth {x xk w yk h d0 d1 : ℝ} (hw : 0 < w) (hh : 0 < h) (h0 : 0 < d0) (h1 : 0 < d1)
    (hx0 : xk ≤ x) (hx1 : x ≤ xk + w) :
    Smooth (Bridge.rqEnv x xk w yk h d0 d1) rqFwdE := by
  have hs : 0 < h / w := div_pos hh hw
  have ht0 : 0 ≤ (x - xk) / w := div_nonneg (by linarith) hw.le
  have ht1 : (x - xk) / w ≤ 1 := by rw [div_le_one hw]; linarith
  have hden := (RQ.den_pos hs h0 h1 ht0 ht1).ne'
  simp only [rqFwdE, NF.v, Expr.add_def, Expr.sub_def, Expr.mul_def, Expr.div_def, Expr.ofNat_def, Smooth, evalR_div,
    evalR_var, evalR_add, evalR_sub, evalR_mul, evalR_lit, Bridge.rqEnv0, Bridge.rqEnv1, Bridge.rqEnv2, Bridge.rqEnv3,
    Bridge.rqEnv4, Bridge.rqEnv5, Bridge.rqEnv6, true_and, and_true]
  have hden' : h / w + (d0 + d1 - 2 * (h / w)) * ((x - xk) / w * (1 - (x - xk) / w)) ≠ 0 := by
    simpa [RQ.den] using hden
  simp only [ne_eq, hw.ne', not_false_eq_true, and_self, true_and, and_true]
  norm_num
  exact hden'

/-- **The derivative the dual evaluation returns for the executed RQ term is its true derivative**, in the input
    and in every parameter simultaneously (direction `dir` over the 7 variables x, xk, w, yk, h, d0, d1). -/
theorem rq_executed_derivative_is_dual {x xk w yk h d0 d1 : ℝ} (dir : Nat → ℝ) (hw : 0 < w) (hh : 0 < h) (h0 : 0 < d0) (h1 : 0 < d1)
    (hx0 : xk ≤ x) (hx1 : x ≤ xk + w) :
    HasDerivAt (fun t => evalR (line (Bridge.rqEnv x xk w yk h d0 d1) dir t) rqFwdE)
      (evalD (fun i => (Bridge.rqEnv x xk w yk h d0 d1 i, dir i)) rqFwdE).2 0 :=
  (evalDual_sound _ dir rqFwdE (rq_interior_smooth hw hh h0 h1 hx0 hx1)).2

/-- value component of the dual evaluation is the ordinary evaluation (so outputs are unchanged by taking gradients) -/
theorem dual_value_eq (env dir : Nat → ℝ) (e : Expr) (hs : Smooth env e) :
    (evalD (fun i => (env i, dir i)) e).1 = evalR env e := (evalDual_sound env dir e hs).1

/-! ## beyond `Expr`: all primitives, the element-wise transformers, the whole RQ program -/

/-- `IsDual f t d`: the dual number `d` is (value of `f` at `t`, derivative of `f` at `t`).  Every primitive of the dual-number
    semantics the driver runs maps `IsDual` inputs to an `IsDual` output of the composed real function — here the ones outside
    the expression language (no side condition for `tanh`, `atan`, `sin`, `cos`; the stated ones for the rest). -/
theorem dual_primitives_sound (e : Float → ℝ) {f : ℝ → ℝ} {t : ℝ} {a : ℝ × ℝ} (h : DualX.IsDual f t a) :
    DualX.IsDual (fun s => (NF.realX e).tanh (f s)) t ((NF.dualX (NF.realX e)).tanh a) ∧
    DualX.IsDual (fun s => (NF.realX e).atan (f s)) t ((NF.dualX (NF.realX e)).atan a) ∧
    DualX.IsDual (fun s => (NF.realX e).sin (f s)) t ((NF.dualX (NF.realX e)).sin a) ∧
    DualX.IsDual (fun s => (NF.realX e).cos (f s)) t ((NF.dualX (NF.realX e)).cos a) ∧
    DualX.IsDual (fun s => (NF.realX e).sigmoid (f s)) t ((NF.dualX (NF.realX e)).sigmoid a) ∧
    (Real.cos a.1 ≠ 0 → DualX.IsDual (fun s => (NF.realX e).tan (f s)) t ((NF.dualX (NF.realX e)).tan a)) ∧
    (a.1 ≠ 0 → DualX.IsDual (fun s => (NF.realX e).abs (f s)) t ((NF.dualX (NF.realX e)).abs a)) ∧
    (a.1 ≠ 20 → DualX.IsDual (fun s => (NF.realX e).softplus (f s)) t ((NF.dualX (NF.realX e)).softplus a)) :=
  ⟨h.tanh e, h.atan e, h.sin e, h.cos e, h.sigmoid e, fun hc => h.tan e hc, fun h0 => h.abs e h0, fun h20 => h.softplus e h20⟩

/-- **`Tanh.forward` on dual numbers** (the stable log-det formula): at every `x ≠ −10` (the softplus threshold) the dual run on
    `(x, 1)` returns `((y, y'), (l, l'))` where `(y, l)` is the real run and `y'`, `l'` are the derivatives of the real program's
    two outputs — so the model's gradient of value AND log-det is the true one. -/
theorem tanh_forward_dual (e : Float → ℝ) (x : ℝ) (hm2 : e (-2.0) = -2) (hthr : x ≠ -10) :
    DualX.DualRes (fun s => tanhT (NF.realX e) false s) x (tanhT (NF.dualX (NF.realX e)) false (x, 1)) :=
  DualX.tanhT_fwd_dx e x hm2 hthr

/-- `Sigmoid.forward`: input direction and temperature direction (a learnt temperature receives its true gradient) -/
theorem sigmoid_forward_dual (e : Float → ℝ) (T : ℝ) (eps : Float) (x : ℝ) (hT : T ≠ 0) (hthr1 : T * x ≠ 20) (hthr2 : T * x ≠ -20) :
    DualX.DualRes (fun s => sigmoidT (NF.realX e) T eps false s) x (sigmoidT (NF.dualX (NF.realX e)) (T, 0) eps false (x, 1)) ∧
    DualX.DualRes (fun s => sigmoidT (NF.realX e) s eps false x) T (sigmoidT (NF.dualX (NF.realX e)) (T, 1) eps false (x, 0)) :=
  ⟨DualX.sigmoidT_fwd_dx e T eps x hT hthr1 hthr2, DualX.sigmoidT_fwd_dT e T eps x hT hthr1 hthr2⟩

/-- affine element: input, scale and shift directions, both passes -/
theorem affine_dual (e : Float → ℝ) (scale shift x : ℝ) (h0 : scale ≠ 0) :
    DualX.DualRes (fun s => affineT (NF.realX e) scale shift false s) x (affineT (NF.dualX (NF.realX e)) (scale, 0) (shift, 0) false (x, 1)) ∧
    DualX.DualRes (fun s => affineT (NF.realX e) s shift false x) scale (affineT (NF.dualX (NF.realX e)) (scale, 1) (shift, 0) false (x, 0)) ∧
    DualX.DualRes (fun s => affineT (NF.realX e) scale s false x) shift (affineT (NF.dualX (NF.realX e)) (scale, 0) (shift, 1) false (x, 0)) ∧
    DualX.DualRes (fun s => affineT (NF.realX e) scale shift true s) x (affineT (NF.dualX (NF.realX e)) (scale, 0) (shift, 0) true (x, 1)) :=
  ⟨DualX.affineT_fwd_dx e scale shift x h0, DualX.affineT_fwd_dscale e scale shift x h0, DualX.affineT_fwd_dshift e scale shift x h0,
   DualX.affineT_inv_dx e scale shift x h0⟩

/-- `LeakyReLU` away from its kink `x = 0`, `Exp`, `CauchyCDF` -/
theorem leakyRelu_exp_cauchy_dual (e : Float → ℝ) (slope : Float) (ls x : ℝ) (h0 : x ≠ 0) :
    DualX.DualRes (fun s => leakyReluT (NF.realX e) slope ls false s) x (leakyReluT (NF.dualX (NF.realX e)) slope (ls, 0) false (x, 1)) ∧
    DualX.DualRes (fun s => expT (NF.realX e) false s) x (expT (NF.dualX (NF.realX e)) false (x, 1)) ∧
    DualX.DualRes (fun s => cauchyT (NF.realX e) false s) x (cauchyT (NF.dualX (NF.realX e)) false (x, 1)) :=
  ⟨DualX.leakyReluT_fwd_dx e slope ls x h0, DualX.expT_fwd_dx e x, DualX.cauchyT_fwd_dx e x⟩

/-- **the value components of ANY dual run of an element-wise transformer are the real run** (kinks and error branches
    included): taking gradients never changes outputs -/
theorem nonlin_dual_value (e : Float → ℝ) (kind : String) (dsF : Array Float) (ps : List (ℝ × ℝ)) (inv : Bool) (dx : ℝ × ℝ) :
    DualX.XHom.mapRes Prod.fst (nonlinEl (NF.dualX (NF.realX e)) kind dsF ps inv dx)
      = nonlinEl (NF.realX e) kind dsF (ps.map Prod.fst) inv dx.1 :=
  DualX.nonlinEl_value e kind dsF ps inv dx

/-- **the whole executed rational-quadratic program on dual numbers**: for `x` strictly inside a bin, `rqSpline` run at
    `dualX (realX e)` on `(x, 1)` with zero-tangent parameters returns `((val x, exp (ld x)), (ld x, l'))` — the search and the
    gathers select the same bin as the real run, the tangent of the value is `exp` of the returned log-det (C01 and C16 meet),
    and the tangent of the log-det is its true derivative. -/
theorem rq_program_dual (e : Float → ℝ) (c : RQCfg) (uw uh ud : List ℝ) (hv : RQWhole.RQValid e c uw uh ud)
    (k : ℕ) (hk : k < uw.length) (x : ℝ) (h0 : RQWhole.xs e c uw k < x) (h1 : x < RQWhole.xs e c uw (k+1)) :
    ∃ l' : ℝ, rqSpline (NF.dualX (NF.realX e)) c (uw.map DualX.ι) (uh.map DualX.ι) (ud.map DualX.ι) false (x, 1)
        = .ok ((RQWhole.val e c uw uh ud x, Real.exp (RQWhole.ld e c uw uh ud x)), (RQWhole.ld e c uw uh ud x, l')) ∧
      HasDerivAt (RQWhole.val e c uw uh ud) (Real.exp (RQWhole.ld e c uw uh ud x)) x ∧ HasDerivAt (RQWhole.ld e c uw uh ud) l' x :=
  DualX.rqSpline_dual hv k hk x h0 h1

example : Smooth (Bridge.rqEnv 0.3 0 1 0 1 1 1) rqFwdE :=
  rq_interior_smooth (by norm_num) (by norm_num) (by norm_num) (by norm_num) (by norm_num) (by norm_num)

end Properties.C16
