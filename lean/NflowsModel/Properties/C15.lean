import NflowsModel.Core.Inventory
import NflowsModel.Lemmas.InventoryReload
import NflowsModel.Generated.C15
/-!
# C15 — saving and reloading a model reproduces the same function   (partial: see DESIGN §8 item 3)

THESE ARE THIN THEOREMS ABOUT A SMALL MODEL.  A module is a list of *entries* (everything the walker finds in the
module tree: parameters, persistent / non-persistent buffers, plain tensor / ndarray / number attributes, aliases
of persisted tensors), each with a flag "equal across instances built from the same constructor arguments under
different seeds" (`ctorDetermined`) and, in `reloadSafeU`, a flag "function-determining" (`used`).  The module's
function is an arbitrary `eval` of the entry values.  `load_state_dict` into a fresh instance is `afterLoad`:
persisted entries take the saved value, all others keep what the constructor of the receiving instance made.

The theorems say: if every function-determining entry is persisted, or an alias of a persisted one, or
constructor-determined, then the reloaded instance evaluates exactly like the saved one — for every `eval`,
every value type, every pair of instances built from the same constructor arguments and every history of value
updates of persisted entries before saving; and the check is exact (a rejected inventory has a concrete pair of
instances that differ after reloading).

The premise `reloadSafeU inv used = true` is NOT proved here for "the code": it is established per run, by
`decide`, for the inventories the translator extracts from the running implementation
(`NflowsModel/Generated/C15.lean`, theorems `Properties.C15.inv_<k>_reloadSafe`, regenerated before every build
by `harness/props/c15.py`); `afterLoad` is executed by the driver (`Core/Ops/C15.lean`) against the real
`load_state_dict`, entry by entry.  A class/configuration not in the registry is not covered.
-/
open Thin Thin.Inventory

namespace Properties.C15

/-- **Reload soundness** (all entries function-determining): if every entry is persisted or
    constructor-determined, loading the saved values into a fresh instance reproduces the saved values.
    `hctor` (two instances built from the same constructor arguments agree on constructor-determined entries) is asked
    ONLY for the entries that do not travel in the state dict: a persisted entry flagged constructor-determined (BatchNorm
    weights, running statistics, feature-index buffers …) may have been trained away from its constructor value before
    saving — it is overwritten by the load, so the theorem applies after every training history. -/
theorem reload_sound {V : Type} (inv : List Entry) (saved fresh : List V)
    (hlen1 : saved.length = inv.length) (hlen2 : fresh.length = inv.length)
    (hsafe : reloadSafe inv = true)
    (hctor : ∀ i (h1 : i < inv.length), persisted inv[i] = false → (inv[i]).ctorDetermined = true →
      saved[i]'(hlen1 ▸ h1) = fresh[i]'(hlen2 ▸ h1)) :
    afterLoad inv saved fresh = saved :=
  Inventory.reload_sound_np inv saved fresh hlen1 hlen2 hsafe hctor

/-- **What `load_state_dict` does, entry by entry** (this is what the driver is compared on). -/
theorem afterLoad_entry {V : Type} (inv : List Entry) (saved fresh : List V) (i : Nat) (e : Entry) (s f : V)
    (he : inv[i]? = some e) (hs : saved[i]? = some s) (hf : fresh[i]? = some f) :
    (afterLoad inv saved fresh)[i]? = some (if persisted e then s else f) :=
  Inventory.afterLoad_getElem? inv saved fresh i e s f he hs hf

/-- **Same function after reload.**  `eval` is the module's function (forward, inverse and log_prob together, on
    all inputs: `R` is arbitrary) and reads only the entries flagged `used`.  If the inventory passes the check,
    the reloaded instance evaluates exactly like the saved one.
    `hctor` is asked only for the entries that are NOT persisted and that the function reads (the only ones the proof
    needs): the saved instance may have any training history on its persisted entries, constructor-determined or not, and
    on entries the function does not read. -/
theorem reload_same_function {V R : Type} (inv : List Entry) (used : List Bool) (eval : List V → R)
    (hdep : ∀ v w : List V, v.length = w.length → (∀ i, used.getD i true = true → v[i]? = w[i]?) → eval v = eval w)
    (saved fresh : List V) (hl1 : saved.length = inv.length) (hl2 : fresh.length = inv.length)
    (hsafe : reloadSafeU inv used = true)
    -- two instances built from the same constructor arguments agree on the constructor-determined entries that do not
    -- travel in the state dict (and that the function reads)
    (hctor : ∀ (i : Nat) (e : Entry), inv[i]? = some e → persisted e = false → used.getD i true = true →
      e.ctorDetermined = true → saved[i]? = fresh[i]?) :
    eval (afterLoad inv saved fresh) = eval saved := by
  apply hdep
  · rw [afterLoad_length inv saved fresh hl1 hl2, hl1]
  · intro i hu
    by_cases hi : i < inv.length
    · have hs : saved[i]? = some (saved[i]'(hl1 ▸ hi)) := List.getElem?_eq_getElem _
      have hf : fresh[i]? = some (fresh[i]'(hl2 ▸ hi)) := List.getElem?_eq_getElem _
      have he : inv[i]? = some inv[i] := List.getElem?_eq_getElem _
      rw [afterLoad_getElem? inv saved fresh i _ _ _ he hs hf]
      by_cases hp : persisted inv[i] = true
      · simp [hp]
      · rcases reloadSafeU_spec inv used hsafe i _ he hu with h | h
        · exact absurd h hp
        · have := hctor i _ he (by simpa using hp) hu h
          simp only [hp, Bool.false_eq_true, if_false]
          rw [← hf]; exact this.symm
    · have h1 : (afterLoad inv saved fresh).length ≤ i := by
        rw [afterLoad_length inv saved fresh hl1 hl2]; omega
      have h2 : saved.length ≤ i := by omega
      rw [List.getElem?_eq_none h1, List.getElem?_eq_none h2]

/-- **Every history before saving.**  Start from an instance `built`; apply any finite history `h` of value updates
    (training steps, data-dependent initialisation, running-statistics updates, …) that touches only persisted
    entries (or entries the function does not read); save; load into a `fresh` instance built from the same
    constructor arguments (possibly under another seed).  The reloaded instance evaluates like the saved one.
    Now a corollary of `reload_same_function` (whose `hctor` no longer constrains persisted entries): the history leaves the
    non-persisted entries the function reads where the constructor put them. -/
theorem reload_after_history {V R : Type} (inv : List Entry) (used : List Bool) (eval : List V → R)
    (hdep : ∀ v w : List V, v.length = w.length → (∀ i, used.getD i true = true → v[i]? = w[i]?) → eval v = eval w)
    (built fresh : List V) (h : List (Nat × V))
    (hl1 : built.length = inv.length) (hl2 : fresh.length = inv.length)
    (hsafe : reloadSafeU inv used = true)
    (hctor : ∀ (i : Nat) (e : Entry), inv[i]? = some e → persisted e = false → used.getD i true = true →
      e.ctorDetermined = true → built[i]? = fresh[i]?)
    (hhist : ∀ p ∈ h, ∀ e : Entry, inv[p.1]? = some e → persisted e = true ∨ used.getD p.1 true = false) :
    eval (afterLoad inv (applyHist built h) fresh) = eval (applyHist built h) := by
  apply reload_same_function inv used eval hdep (applyHist built h) fresh (by rw [applyHist_length, hl1]) hl2 hsafe
  intro i e he hp hu hc
  -- a used, non-persisted entry is not touched by the history
  have hunt : ∀ p ∈ h, p.1 ≠ i := by
    intro p hpm hpi
    rcases hhist p hpm e (by rw [hpi]; exact he) with h1 | h1
    · rw [hp] at h1; exact Bool.noConfusion h1
    · rw [hpi, hu] at h1; exact Bool.noConfusion h1
  rw [applyHist_getElem?_untouched built h i hunt]
  exact hctor i e he hp hu hc

/-- with every entry counted as function-determining the two checkers coincide -/
theorem reloadSafeU_all_used (inv : List Entry) : reloadSafeU inv [] = reloadSafe inv :=
  Inventory.reloadSafeU_nil_used inv

/-- **The check is exact**: a rejected inventory has two instances (here with Boolean entry values) that agree on
    every constructor-determined entry and still differ, after reloading, on a function-determining entry — e.g. a
    random permutation kept as a plain attribute, or an initialisation flag in a non-persistent buffer. -/
theorem reloadSafeU_exact (inv : List Entry) (used : List Bool) (h : reloadSafeU inv used = false) :
    ∃ (saved fresh : List Bool) (i : Nat), saved.length = inv.length ∧ fresh.length = inv.length ∧
      (∀ (j : Nat) (e : Entry), inv[j]? = some e → e.ctorDetermined = true → saved[j]? = fresh[j]?) ∧
      used.getD i true = true ∧ (afterLoad inv saved fresh)[i]? ≠ saved[i]? := by
  obtain ⟨i, e, he, hu, hp, hc⟩ := reloadSafeU_false inv used h
  have hi : i < inv.length := by
    rcases Nat.lt_or_ge i inv.length with h' | h'
    · exact h'
    · rw [List.getElem?_eq_none h'] at he; cases he
  refine ⟨List.replicate inv.length false, setAt (List.replicate inv.length false) i true, i,
    by simp, by rw [setAt_length]; simp, ?_, hu, ?_⟩
  · intro j e' he' hc'
    have hji : i ≠ j := by
      intro hij; subst hij
      rw [he] at he'; cases he'
      rw [hc] at hc'; exact Bool.noConfusion hc'
    rw [setAt_getElem?_ne _ i j true hji]
  · have hs : (List.replicate inv.length false)[i]? = some false := by simp [hi]
    have hf : (setAt (List.replicate inv.length false) i true)[i]? = some true :=
      setAt_getElem?_eq _ i true (by simpa using hi)
    rw [afterLoad_getElem? inv _ _ i e false true he hs hf, hs]
    simp [hp]

/-- the wire format decodes to the entries it encodes (sanity of the driver's decoder) -/
theorem decode_example :
    decodeInv [0, 0, 1, 0, 2, 1, 3, 1, 4, 0] =
      [⟨.param, false⟩, ⟨.bufPersistent, false⟩, ⟨.bufNonPersistent, true⟩, ⟨.plain, true⟩, ⟨.aliasOfPersisted, false⟩] := by
  decide

/-! ### non-vacuity: the hypotheses are satisfiable by, and the check discriminates on, non-trivial data -/

/-- `RandomPermutation` as coded (permutations.py:19-20): `_permutation` is a persistent buffer (seed-dependent),
    `_dim` a plain constructor-determined number → accepted -/
example : reloadSafeU [⟨.bufPersistent, false⟩, ⟨.plain, true⟩] [true, true] = true := by decide

/-- the same class with the permutation kept as a plain attribute → rejected -/
example : reloadSafeU [⟨.plain, false⟩, ⟨.plain, true⟩] [true, true] = false := by decide

/-- `StandardNormal._log_z` (normal.py:18-21): non-persistent but constructor-determined → accepted;
    an `initialized` flag in a non-persistent buffer would not be -/
example : reloadSafeU [⟨.bufNonPersistent, true⟩] [true] = true ∧ reloadSafeU [⟨.bufNonPersistent, false⟩] [true] = false := by
  decide

/-- a seed-dependent plain attribute that the function does not read is tolerated -/
example : reloadSafeU [⟨.plain, false⟩, ⟨.param, false⟩] [false, true] = true := by decide

/-- `afterLoad` on concrete values: the persisted entry takes the saved value, the plain one keeps the fresh value -/
example : afterLoad [⟨.bufPersistent, false⟩, ⟨.plain, true⟩] [10, 7] [20, 7] = [10, 7] := by decide

/-- a history that updates the persisted entry (index 0) twice, then save and reload -/
example : afterLoad [⟨.bufPersistent, false⟩, ⟨.plain, true⟩] (applyHist [10, 7] [(0, 11), (0, 12)]) [20, 7] = [12, 7] := by
  decide

/-- **applicability after a training step of a persisted constructor-initialised parameter** (audit C15 finding 1): entry 0
    is a parameter flagged constructor-determined (e.g. a BatchNorm weight, initialised to the same value under every
    seed), trained from `1` to `5` before saving; entry 1 a plain constructor-determined attribute.  The saved and the
    fresh instance DIFFER on the constructor-determined entry 0, and the theorems apply: `load_state_dict` reproduces the
    saved values and the saved function, for every `eval`. -/
example : afterLoad [⟨.param, true⟩, ⟨.plain, true⟩] [5, 7] [1, 7] = ([5, 7] : List Nat) :=
  reload_sound [⟨.param, true⟩, ⟨.plain, true⟩] [5, 7] [1, 7] rfl rfl (by decide) (by
    intro i h1 hp hc
    match i, h1 with
    | 0, _ => simp [persisted] at hp
    | 1, _ => rfl)

example {R : Type} (eval : List Nat → R) :
    eval (afterLoad [⟨.param, true⟩, ⟨.plain, true⟩] [5, 7] [1, 7]) = eval [5, 7] :=
  reload_same_function [⟨.param, true⟩, ⟨.plain, true⟩] [] eval
    (fun v w hl h => by
      have : v = w := List.ext_getElem? fun i => h i (by simp)
      rw [this])
    [5, 7] [1, 7] rfl rfl (by decide) (by
    intro i e he hp _ _
    match i with
    | 0 =>
      simp only [List.getElem?_cons_zero, Option.some.injEq] at he
      subst he
      exact absurd hp (by decide)
    | 1 => rfl
    | (k + 2) => simp at he)

/-- the same through the history form: the instance is built with the constructor value `1`, a training step moves the
    persisted entry 0 to `5`, then save and reload into a fresh instance -/
example {R : Type} (eval : List Nat → R) :
    eval (afterLoad [⟨.param, true⟩, ⟨.plain, true⟩] (applyHist [1, 7] [(0, 5)]) [1, 7]) = eval (applyHist [1, 7] [(0, 5)]) :=
  reload_after_history [⟨.param, true⟩, ⟨.plain, true⟩] [] eval
    (fun v w hl h => by
      have : v = w := List.ext_getElem? fun i => h i (by simp)
      rw [this])
    [1, 7] [1, 7] [(0, 5)] rfl rfl (by decide) (fun _ _ _ _ _ _ => rfl) (by
    intro p hp e he
    simp only [List.mem_singleton] at hp
    subst hp
    simp only [List.getElem?_cons_zero, Option.some.injEq] at he
    subst he
    exact Or.inl (by decide))

end Properties.C15
