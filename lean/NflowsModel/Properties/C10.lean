import NflowsModel.Core.Cache
import NflowsModel.Lemmas.Cache
/-!
# C10 — weight caching in linear transforms is transparent over every history

Property theorems only; all of them are about `Cache.step` / `Cache.trace` (`Core/Cache.lean`), the very functions the
driver executes in lock-step against `LULinear`, `QRLinear`, `SVDLinear`, `OneByOneConvolution` (`Kind.generic`) and
`NaiveLinear` (`Kind.naive`).  Histories are arbitrary finite lists over
`{train, eval, useCache b, useCacheBad, fwd, inv, update, load, cast d, fwdBwd}`; no length bound.

The reference `Cache.refStep` is "recompute from the current parameters without the cache": its state is only the
parameters (version, dtype); `fwd`/`inv`/`fwdBwd` answer `ok ver dt ver dt`.

Status of the three historical defects (finding F11):
* F11a stale outputs after `load_state_dict`, F11b dtype error after `.double()`: REPAIRED in `/repo`; the machine's
  `load` and `cast` invalidate (linear.py:93-101) and NO hypothesis about them is left in the theorem below.  The
  pre-repair machine with its two `decide` counterexamples is kept in `Lemmas/CacheHistorical.lean`.
* F11c repeated back-propagation through the cached tensors: NOT repaired (known finding).  The full-strength statement

    theorem cache_transparent (k : Kind) (tr uc : Bool) (v : Nat) (d : DT) (hist : List Op)
        (hU : updatesOnlyInTraining tr hist = true) :
        run (step k) { training := tr, usingCache := uc, ver := v, dt := d } hist = run refStep ⟨v, d⟩ hist

  is FALSE of the code (`second_backward_counterexample`); `cache_transparent_partial` carries the forced hypothesis
  `noRepeatedBackward` and `noRepeatedBackward_tight` shows the hypothesis excludes exactly the failing histories.

`updatesOnlyInTraining` is not a defect hypothesis: it is the property's own alphabet ("parameter update in training
mode").  `update_in_eval_counterexample` shows it cannot be dropped (an in-place optimiser step in evaluation mode with
a filled cache leaves the cache stale — the code has no way to notice it).
-/
open Cache

namespace Properties.C10

/-- **Transparency over all histories (partial: F11c).**  For both class kinds, from any fresh transform (any initial
    training / using_cache flags, parameter version and dtype; cache empty), over every history in which parameter
    updates happen in training mode and no cached backward is repeated between two invalidations, every step returns
    exactly what recomputation from the current parameters returns: same outputs, same log-abs-dets, same dtypes, no
    error. -/
theorem cache_transparent_partial (k : Kind) (tr uc : Bool) (v : Nat) (d : DT) (hist : List Op)
    (hU : updatesOnlyInTraining tr hist = true)
    (hB : noRepeatedBackward tr uc false hist = true) :
    run (step k) { training := tr, usingCache := uc, ver := v, dt := d } hist = run refStep ⟨v, d⟩ hist :=
  run_eq_ref k hist _ false (inv_init tr uc v d false) hU hB

/-- The same from ANY state satisfying the inductive invariant (training ⇒ cache empty; every filled slot computed
    from the current version and dtype; no freed graph in the cache), i.e. mid-history. -/
theorem cache_transparent_partial_from (k : Kind) (s : St) (hist : List Op) (h : CInv false s)
    (hU : updatesOnlyInTraining s.training hist = true)
    (hB : noRepeatedBackward s.training s.usingCache false hist = true) :
    run (step k) s hist = run refStep s.params hist :=
  run_eq_ref k hist s false h hU hB

/-- **The inductive step** behind the theorem: one op preserves the invariant, answers like the reference and moves the
    parameters like the reference. -/
theorem invariant_step (k : Kind) (s : St) (o : Op) (used : Bool) (h : CInv used s)
    (hU : o = .update → s.training = true)
    (hB : o = .fwdBwd → cachedMode s = true → used = false) :
    (step k s o).2 = (refStep s.params o).2 ∧ (step k s o).1.params = (refStep s.params o).1 ∧
      CInv (nextUsed s used o) (step k s o).1 :=
  step_ok k s o used h hU hB

/-- **F11c, minimal failing history** (both kinds): in evaluation mode with the cache on, the second forward+backward
    raises although the uncached transform supports it. -/
theorem second_backward_counterexample :
    run (step .generic) {} [.eval, .useCache true, .fwdBwd, .fwdBwd] ≠ run refStep ⟨0, .f32⟩ [.eval, .useCache true, .fwdBwd, .fwdBwd]
    ∧ run (step .naive) {} [.eval, .useCache true, .fwdBwd, .fwdBwd] ≠ run refStep ⟨0, .f32⟩ [.eval, .useCache true, .fwdBwd, .fwdBwd]
    ∧ run (step .generic) {} [.eval, .useCache true, .fwdBwd, .fwdBwd] = [.none, .none, .ok 0 .f32 0 .f32, .errBackward] := by
  decide

/-- the hypothesis `noRepeatedBackward` is exactly right: (updates in training only) it holds of a history iff the
    machine never answers `errBackward` on it -/
theorem noRepeatedBackward_tight (k : Kind) (tr uc : Bool) (v : Nat) (d : DT) (hist : List Op)
    (hU : updatesOnlyInTraining tr hist = true) :
    noRepeatedBackward tr uc false hist = true ↔
      Out.errBackward ∉ run (step k) { training := tr, usingCache := uc, ver := v, dt := d } hist := by
  constructor
  · intro hB
    rw [run_eq_ref k hist _ false (inv_init tr uc v d false) hU hB]
    exact ref_never_errBackward _ _
  · intro hne
    cases hB : noRepeatedBackward tr uc false hist with
    | true => rfl
    | false =>
      exact absurd (errBackward_of_repeated k hist _ false (inv_init tr uc v d false) (fun h => by cases h) hU hB) hne

/-- `updatesOnlyInTraining` (the property's alphabet) cannot be dropped: an in-place update in evaluation mode with a
    filled cache gives stale outputs and log-abs-dets (`generic`), resp. a stale log-abs-det and a stale inverse while
    the aliased weight follows the update (`naive`).  Not a defect of the code: outside the property's alphabet. -/
theorem update_in_eval_counterexample :
    run (step .generic) {} [.eval, .useCache true, .fwd, .update, .fwd] = [.none, .none, .ok 0 .f32 0 .f32, .none, .ok 0 .f32 0 .f32]
    ∧ run (step .naive) {} [.eval, .useCache true, .fwd, .update, .fwd] = [.none, .none, .ok 0 .f32 0 .f32, .none, .ok 1 .f32 0 .f32]
    ∧ run (step .naive) {} [.eval, .useCache true, .inv, .update, .inv] = [.none, .none, .ok 0 .f32 0 .f32, .none, .ok 0 .f32 0 .f32]
    ∧ run refStep ⟨0, .f32⟩ [.eval, .useCache true, .fwd, .update, .fwd] = [.none, .none, .ok 0 .f32 0 .f32, .none, .ok 1 .f32 1 .f32] := by
  decide

/-- **F11a / F11b repaired**: the two histories on which the pre-repair code failed
    (`CacheHistorical.stale_after_load`, `CacheHistorical.dtype_after_cast`) are now answered like the reference. -/
theorem load_cast_repaired (k : Kind) :
    run (step k) {} [.eval, .useCache true, .fwd, .load, .fwd] = run refStep ⟨0, .f32⟩ [.eval, .useCache true, .fwd, .load, .fwd]
    ∧ run (step k) {} [.eval, .useCache true, .fwd, .cast .f64, .fwd] = run refStep ⟨0, .f32⟩ [.eval, .useCache true, .fwd, .cast .f64, .fwd]
    ∧ run (step k) {} [.eval, .useCache true, .inv, .cast .f64, .inv, .cast .f32, .inv]
        = run refStep ⟨0, .f32⟩ [.eval, .useCache true, .inv, .cast .f64, .inv, .cast .f32, .inv] := by
  cases k <;> decide

/-- **Over EVERY history, no hypothesis**: whenever the transform is in training mode its cache is empty (`train()`
    invalidates, nothing refills while training) — the white-box half of the lock-step correspondence. -/
theorem training_cache_empty (k : Kind) (tr uc : Bool) (v : Nat) (d : DT) (hist : List Op) :
    ∀ x ∈ trace k { training := tr, usingCache := uc, ver := v, dt := d } hist,
      x.1.training = true → x.1.cW = none ∧ x.1.cInv = none ∧ x.1.cLd = none :=
  trainEmpty_trace k hist _ (fun _ => ⟨rfl, rfl, rfl⟩)

/-- **Over every history, no hypothesis**: with the cache flag off or in training mode, `forward`, `inverse` and
    forward+backward ARE the uncached calls and leave the state alone (`use_cache(False)` never reads the cache). -/
theorem cache_off_is_uncached (k : Kind) (s : St) (o : Op) (h : s.training = true ∨ s.usingCache = false)
    (ho : o = .fwd ∨ o = .inv ∨ o = .fwdBwd) :
    step k s o = (s, .ok s.ver s.dt s.ver s.dt) :=
  uncached_when_off k s o (by rcases h with h | h <;> simp [cachedMode, h]) ho

/-- `train()` empties the cache and `eval()` does not refill it (linear.py:87-91). -/
theorem train_invalidates_eval_keeps (k : Kind) (s : St) :
    (step k s .train).1.cW = none ∧ (step k s .train).1.cInv = none ∧ (step k s .train).1.cLd = none ∧
    (step k s .eval).1.cW = s.cW ∧ (step k s .eval).1.cInv = s.cInv ∧ (step k s .eval).1.cLd = s.cLd :=
  ⟨rfl, rfl, rfl, rfl, rfl, rfl⟩

/-- the driver's per-step trace carries exactly the observables of `run (step k)` -/
theorem trace_outputs (k : Kind) (hist : List Op) (s : St) :
    (trace k s hist).map Prod.snd = run (step k) s hist :=
  Cache.trace_outputs k hist s

/-- Non-vacuity: a history that uses every op, fills all three slots, changes the parameters three ways, runs two
    cached backwards (separated by an invalidation) and satisfies both hypotheses; and the theorem's conclusion on
    it is not the trivial "all none". -/
def demo : List Op :=
  [.fwdBwd, .update, .eval, .useCache true, .fwd, .inv, .fwdBwd, .fwd, .load, .fwdBwd, .inv, .cast .f64, .inv, .fwd,
   .useCache false, .fwdBwd, .fwdBwd, .useCacheBad, .useCache true, .train, .update, .fwd, .eval, .fwdBwd, .cast .f32, .inv]

example : updatesOnlyInTraining true demo = true ∧ noRepeatedBackward true false false demo = true := by decide

example : run (step .generic) {} demo = run refStep ⟨0, .f32⟩ demo ∧
    (run (step .generic) {} demo).getLast? = some (.ok 3 .f32 3 .f32) ∧
    ((trace .generic {} demo)[7]?).map (fun x => (x.1.cW.isSome, x.1.cInv.isSome, x.1.cLd.isSome)) = some (true, true, true) := by
  decide

end Properties.C10
