import NflowsModel.Lemmas.Coupling
import NflowsModel.Lemmas.Multiscale
import NflowsModel.Lemmas.WrappersExec
import NflowsModel.Lemmas.MultiscaleExec
import NflowsModel.Core.Ops.C08
/-!
# C08 — composite, inverse and multiscale wrappers are exact function composition

Property theorems only (helper lemmas live in `Lemmas/WrappersExec.lean`, `Lemmas/MultiscaleExec.lean`).
Unless marked "restated", every theorem is about the EXECUTABLE definitions of `Core/Wrappers.lean` and
`Core/Multiscale.lean` — the ones the line-protocol driver runs against `nflows/transforms/base.py` — at an
arbitrary tensor type / element type / context type, for arbitrary parts (which may raise), any number of parts or
stages, any rank, any split dimension, odd and even sizes.

Shapes are written `pre ++ n :: suf` with `split_dim = pre.length + 1`: `pre` are the item dimensions in front of the
split dimension (any number, any sizes), `n` its size, `suf` the dimensions behind it.
-/
open NF NF.Wrap

namespace Properties.C08

variable {T C L : Type}

/-! ## CompositeTransform (base.py:32-60) -/

/-- **`_cascade` is a left fold**: with parts that do not raise, the outputs are the parts applied left to right and
    the log-det is `((0 + ld₁) + ld₂) + …` evaluated at the intermediate points — literally, no algebraic law of
    `+` is used (so this also describes the floating-point sum). -/
theorem cascade_eq_foldl (A : LD L) (ps : List (T → C → T × L)) (x : T) (c : C) :
    cascade A (ps.map liftPure) x c =
      .ok (ps.foldl (fun acc p => ((p acc.1 c).1, A.add acc.2 (p acc.1 c).2)) (x, A.zero)) := by
  unfold cascade
  generalize A.zero = l
  induction ps generalizing x l with
  | nil => rfl
  | cons p ps ih => simp only [List.map_cons, cascadeFrom, liftPure, List.foldl_cons]; exact ih _ _

/-- a composite of no parts is the identity with log-det zero -/
theorem composite_forward_nil (A : LD L) (x : T) (c : C) :
    (composite A ([] : List (Tr T C L))).fwd x c = .ok (x, A.zero) ∧
    (composite A ([] : List (Tr T C L))).inv x c = .ok (x, A.zero) := ⟨rfl, rfl⟩

/-- **forward = the parts in the order given, log-dets summed**: the first part runs first, on its output runs
    the composite of the remaining parts; an exception of any part is the composite's exception. -/
theorem composite_forward_cons (A : LD L) (hA : A.Lawful) (t : Tr T C L) (ts : List (Tr T C L)) (x : T) (c : C) :
    (composite A (t :: ts)).fwd x c =
      match t.fwd x c with
      | .error e => .error e
      | .ok (y, ld) =>
        match (composite A ts).fwd y c with
        | .error e => .error e
        | .ok (z, ld') => .ok (z, A.add ld ld') := by
  simp only [composite, List.map_cons]
  rw [cascade_cons A hA]
  rcases t.fwd x c with e | ⟨y, ld⟩
  · rfl
  · simp only []
    generalize cascade A (List.map _ ts) y c = r
    rcases r with e | ⟨z, ld'⟩ <;> rfl

/-- **inverse = the parts' inverses in REVERSED order**: the composite of the remaining parts is undone first, the
    first part's inverse runs last (the parts need not commute). -/
theorem composite_inverse_cons (A : LD L) (hA : A.Lawful) (t : Tr T C L) (ts : List (Tr T C L)) (z : T) (c : C) :
    (composite A (t :: ts)).inv z c =
      match (composite A ts).inv z c with
      | .error e => .error e
      | .ok (y, ld) =>
        match t.inv y c with
        | .error e => .error e
        | .ok (x, ld') => .ok (x, A.add ld ld') := by
  simp only [composite, List.reverse_cons, List.map_append, List.map_cons, List.map_nil]
  rw [cascade_append A hA]
  simp only [cascade_singleton]
  generalize cascade A (List.map _ ts.reverse) z c = r
  rcases r with e | ⟨y, ld⟩
  · rfl
  · simp only []
    rcases t.inv y c with e | ⟨x, ld'⟩
    · rfl
    · simp [hA.zero_add]

/-- composing two lists of parts = composing the two composites -/
theorem composite_forward_append (A : LD L) (hA : A.Lawful) (ts us : List (Tr T C L)) (x : T) (c : C) :
    (composite A (ts ++ us)).fwd x c =
      match (composite A ts).fwd x c with
      | .error e => .error e
      | .ok (y, ld) =>
        match (composite A us).fwd y c with
        | .error e => .error e
        | .ok (z, ld') => .ok (z, A.add ld ld') := by
  simp only [composite, List.map_append]
  rw [cascade_append A hA]
  generalize cascade A (List.map _ ts) x c = r
  rcases r with e | ⟨y, ld⟩
  · rfl
  · simp only []
    generalize cascade A (List.map _ us) y c = r'
    rcases r' with e | ⟨z, ld'⟩ <;> rfl

/-! ## InverseTransform (base.py:215-231) -/

/-- wrapping swaps the two directions exactly -/
theorem inverseTransform_forward (t : Tr T C L) : (inverseTr t).fwd = t.inv := rfl
theorem inverseTransform_inverse (t : Tr T C L) : (inverseTr t).inv = t.fwd := rfl
theorem inverseTransform_involutive (t : Tr T C L) : inverseTr (inverseTr t) = t := rfl

/-- the inverse of a composite is the composite of the inverted parts in reversed order -/
theorem inverseTransform_composite (A : LD L) (ts : List (Tr T C L)) :
    inverseTr (composite A ts) = composite A (ts.reverse.map inverseTr) := by
  simp only [inverseTr, composite, List.map_map, List.map_reverse, List.reverse_reverse, Tr.mk.injEq]
  constructor <;> congr 1

/-- **round trip**: if every part is undone by its own inverse, the composite's inverse (reversed order, as
    coded) undoes the composite and returns minus the summed log-det. -/
theorem composite_round_trip {G : Type} [AddCommGroup G] (ts : List (Tr T C G)) (h : ∀ t ∈ ts, GoodTr t) :
    GoodTr (composite (LD.std G) ts) := by
  induction ts with
  | nil =>
    intro x c y l hf
    have : (x, (0 : G)) = (y, l) := by simpa [composite, cascade, cascadeFrom] using hf
    obtain ⟨rfl, rfl⟩ := Prod.mk.inj this
    simp [composite, cascade, cascadeFrom]
  | cons t ts ih =>
    intro x c z l hf
    rw [composite_forward_cons _ (LD.std_lawful G)] at hf
    rw [composite_inverse_cons _ (LD.std_lawful G)]
    rcases h1 : t.fwd x c with e | ⟨y, l1⟩
    · simp [h1] at hf
    · simp only [h1] at hf
      rcases h2 : (composite (LD.std G) ts).fwd y c with e | ⟨z', l2⟩
      · simp [h2] at hf
      · simp only [h2, Except.ok.injEq, Prod.mk.injEq, LD.std_add] at hf
        obtain ⟨rfl, rfl⟩ := hf
        rw [ih (fun s hs => h s (List.mem_cons_of_mem _ hs)) y c z' l2 h2]
        simp only []
        rw [h t List.mem_cons_self x c y l1 h1]
        simp [add_comm]

/-- the order of the parts matters: scale-then-shift differs from shift-then-scale (so a model that forgot the
    reversal in `inverse`, or ran the parts in another order, is distinguishable) -/
theorem composite_order_matters :
    let scale : Tr Int Unit Int := ⟨fun x _ => .ok (2 * x, 1), fun x _ => .ok (x / 2, -1)⟩
    let shift : Tr Int Unit Int := ⟨fun x _ => .ok (x + 1, 0), fun x _ => .ok (x - 1, 0)⟩
    (composite (LD.std Int) [scale, shift]).fwd 1 () = .ok (3, 1) ∧
    (composite (LD.std Int) [shift, scale]).fwd 1 () = .ok (4, 1) ∧
    (composite (LD.std Int) [scale, shift]).inv 3 () = .ok (1, -1) := by
  decide

/-! ## MultiscaleCompositeTransform: construction (base.py:75-137) -/
variable {α : Type}

/-- `__init__`: `TypeError` unless `split_dim` is a positive `int`; nothing else is checked -/
theorem new_contract (numT : Int) :
    (∀ v : Int, 0 < v → (MS.new numT (.int v) : Except Err (MS α C L)) = .ok ⟨numT, v.toNat, [], []⟩) ∧
    (∀ v : Int, v ≤ 0 → (MS.new numT (.int v) : Except Err (MS α C L)) = .error .typeError) ∧
    (MS.new numT .other : Except Err (MS α C L)) = .error .typeError := by
  refine ⟨fun v hv => by simp [MS.new, hv], fun v hv => ?_, rfl⟩
  have : ¬ v > 0 := by omega
  simp [MS.new, this]

/-- `add_transform`, the error contract in the order the code checks it:
    more transforms present than announced → `AssertionError`; already complete → `RuntimeError`;
    declared shape has no `split_dim` → `ValueError`; size along `split_dim` below 2 → `ValueError`. -/
theorem addTransform_errors (m : MS α C L) (t : Tr (Item α) C L) (shape : List Nat) :
    (m.numTransforms < m.transforms.length → m.addTransform t shape = .error .assertion) ∧
    (m.numTransforms = m.transforms.length → m.addTransform t shape = .error .runtime) ∧
    ((m.transforms.length : Int) < m.numTransforms → shape.length ≤ m.splitDim - 1 →
      m.addTransform t shape = .error .valueError) ∧
    ((m.transforms.length : Int) < m.numTransforms → m.splitDim - 1 < shape.length →
      shape.getD (m.splitDim - 1) 0 < 2 → m.addTransform t shape = .error .valueError) := by
  refine ⟨fun h => ?_, fun h => ?_, fun h h' => ?_, fun h h' h'' => ?_⟩
  · have : ¬ ((m.transforms.length : Int) ≤ m.numTransforms) := by omega
    simp [MS.addTransform, this]
  · simp [MS.addTransform, h]
  · have h1 : (m.transforms.length : Int) ≤ m.numTransforms := by omega
    have h2 : ¬ ((m.transforms.length : Int) = m.numTransforms) := by omega
    simp [MS.addTransform, h1, h2, h']
  · have h1 : (m.transforms.length : Int) ≤ m.numTransforms := by omega
    have h2 : ¬ ((m.transforms.length : Int) = m.numTransforms) := by omega
    have h3 : ¬ (shape.length ≤ m.splitDim - 1) := by omega
    simp only [List.getD_eq_getElem?_getD] at h''
    simp [MS.addTransform, h1, h2, h3]
    intro h5
    omega

/-- **`add_transform` shape bookkeeping**: on a declared shape `pre ++ n :: suf` with `split_dim = pre.length + 1`
    and `n ≥ 2` the transform is appended; unless it is the last one the recorded output shape has `⌈n/2⌉ = (n+1)/2`
    and the returned hidden shape `⌊n/2⌋ = n/2` along the split dimension (all other dimensions unchanged, odd and
    even `n`, any rank); for the last one the whole shape is recorded and `None` is returned. -/
theorem addTransform_shapes (m : MS α C L) (t : Tr (Item α) C L) (pre suf : List Nat) (n : Nat)
    (hsd : m.splitDim = pre.length + 1) (hn : 2 ≤ n) (hroom : (m.transforms.length : Int) < m.numTransforms) :
    m.addTransform t (pre ++ n :: suf) =
      if (m.transforms.length : Int) + 1 ≠ m.numTransforms then
        .ok ({ m with transforms := m.transforms ++ [t],
                      outputShapes := m.outputShapes ++ [pre ++ ((n + 1) / 2) :: suf] },
             some (pre ++ (n / 2) :: suf))
      else
        .ok ({ m with transforms := m.transforms ++ [t], outputShapes := m.outputShapes ++ [pre ++ n :: suf] }, none) := by
  have h1 : (m.transforms.length : Int) ≤ m.numTransforms := by omega
  have h2 : ¬ ((m.transforms.length : Int) = m.numTransforms) := by omega
  have h3 : ¬ (pre.length ≥ pre.length + (suf.length + 1)) := by omega
  have h4 : ¬ n < 2 := by omega
  simp [MS.addTransform, h1, h2, h3, h4, hsd]

/-- transforms and recorded shapes grow together -/
theorem addTransform_invariant (m m' : MS α C L) (t : Tr (Item α) C L) (shape : List Nat) (r : Option (List Nat))
    (h : m.addTransform t shape = .ok (m', r)) (hinv : m.transforms.length = m.outputShapes.length) :
    m'.transforms.length = m'.outputShapes.length ∧ m'.transforms = m.transforms ++ [t] ∧
      m'.splitDim = m.splitDim ∧ m'.numTransforms = m.numTransforms := by
  unfold MS.addTransform at h
  split at h; · simp at h
  split at h; · simp at h
  split at h; · simp at h
  simp only at h
  split at h; · simp at h
  split at h <;>
  · simp only [Except.ok.injEq, Prod.mk.injEq] at h
    obtain ⟨rfl, _⟩ := h
    simp [hinv]

/-- **which configurations are accepted**: building the documented way (`k ≥ 1` stages, every declared shape being
    the hidden shape returned by the previous call) succeeds exactly when the split dimension can be halved `k - 1`
    times and still has size at least 2, i.e. `2^k ≤ n`; otherwise `ValueError`. -/
theorem build_accepts_iff (pre suf : List Nat) (ts : List (Tr (Item α) C L)) (n : Nat) (hts : ts ≠ []) :
    (2 ^ ts.length ≤ n →
      MS.build (ts.length : Int) (.int ((pre.length : Int) + 1)) ts (pre ++ n :: suf) =
        .ok ⟨ts.length, pre.length + 1, ts, outShapes pre suf ts.length n⟩) ∧
    (¬ 2 ^ ts.length ≤ n →
      MS.build (ts.length : Int) (.int ((pre.length : Int) + 1)) ts (pre ++ n :: suf) = .error .valueError) :=
  ⟨build_ok pre suf ts n hts, build_small pre suf ts n hts⟩

/-- **`sizes_sum`**: for every accepted configuration (any rank, any split dimension, any size, any number of
    stages) the recorded output shapes account for every coordinate exactly: `Σₖ ∏ outShapeₖ = ∏ inShape`.  This is
    what makes the slicing of the flat tensor in `inverse` (base.py:188-194) exhaustive and non-overlapping. -/
theorem sizes_sum (pre suf : List Nat) (ts : List (Tr (Item α) C L)) (n : Nat) (hts : ts ≠ []) (m : MS α C L)
    (hb : MS.build (ts.length : Int) (.int ((pre.length : Int) + 1)) ts (pre ++ n :: suf) = .ok m) :
    (m.outputShapes.map prod).sum = prod (pre ++ n :: suf) ∧ m.outputShapes.length = ts.length := by
  by_cases hn : 2 ^ ts.length ≤ n
  · rw [build_ok pre suf ts n hts hn] at hb
    obtain rfl := Except.ok.inj hb
    obtain ⟨k, hk⟩ : ∃ k, ts.length = k + 1 := ⟨ts.length - 1, by have := List.length_pos_iff.mpr hts; omega⟩
    simp only [hk]
    exact ⟨sizes_sum_aux pre suf k n, outShapes_length pre suf (k + 1) n⟩
  · rw [build_small pre suf ts n hts hn] at hb
    cases hb

/-! ## MultiscaleCompositeTransform: forward and inverse (base.py:139-212) -/

/-- call-time error contract of `forward` and `inverse` -/
theorem call_errors (A : LD L) (m : MS α C L) (x : Item α) (c : C) :
    (x.shape.length + 1 ≤ m.splitDim → m.forward A x c = .error .valueError) ∧
    (m.splitDim < x.shape.length + 1 → m.numTransforms ≠ m.transforms.length → m.forward A x c = .error .runtime) ∧
    (x.shape.length + 1 ≠ 2 → m.inverse A x c = .error .valueError) ∧
    (x.shape.length + 1 = 2 → m.numTransforms ≠ m.transforms.length → m.inverse A x c = .error .runtime) := by
  refine ⟨fun h => ?_, fun h h' => ?_, fun h => ?_, fun h h' => ?_⟩
  · simp [MS.forward, h]
  · have : ¬ (x.shape.length + 1 ≤ m.splitDim) := by omega
    simp [MS.forward, this, h']
  · simp [MS.inverse, h]
  · simp [MS.inverse, h, h']

/-- **forward, unrolled** (`multiscale_forward_eq`): the loop with its accumulators computes
    `flatten(chunk₀(T₁ x)) ++ (the remaining stages on chunk₁(T₁ x))`, the last stage emitting its whole output;
    log-dets are summed; the first exception (of a stage, of the tuple unpacking, of the shape assertion) is the
    result.  Hence the coordinates emitted after stage `k` went through `T₁ … Tₖ` and no other stage. -/
theorem multiscale_forward_eq (A : LD L) (hA : A.Lawful) (d : Nat) (t : Tr (Item α) C L) (ts : List (Tr (Item α) C L))
    (sh : List Nat) (shs : List (List Nat)) (h : Item α) (c : C) :
    fwdStages A d (t :: ts) (sh :: shs) h [] A.zero c =
      match t.fwd h c with
      | .error e => .error e
      | .ok (y, ld) =>
        match ts with
        | [] => .ok (y.data, ld)
        | t' :: ts' =>
          match chunk2 d y with
          | .error e => .error e
          | .ok (o, h') =>
            if sh ≠ o.shape then .error .assertion
            else
              match fwdStages A d (t' :: ts') shs h' [] A.zero c with
              | .error e => .error e
              | .ok (rest, ld') => .ok (o.data ++ rest, A.add ld ld') := by
  cases ts with
  | nil =>
    rw [fwdStages_single A hA]
    rcases t.fwd h c with e | ⟨y, ld⟩ <;> rfl
  | cons t' ts' =>
    rw [fwdStages_cons A hA]
    rcases t.fwd h c with e | ⟨y, ld⟩
    · rfl
    · simp only []
      rcases chunk2 d y with e | ⟨o, h'⟩
      · rfl
      · simp only []
        split
        · rfl
        · rcases fwdStages A d (t' :: ts') shs h' [] A.zero c with e | ⟨rest, ld'⟩ <;> rfl

/-- `chunk` and `cat` along any dimension are mutually inverse on well-formed items (odd and even sizes), and a
    chunk is a rearrangement of the data -/
theorem chunk_cat_laws (pre suf : List Nat) (n : Nat) (hn : n ≠ 1) (data : List α)
    (hwf : data.length = prod (pre ++ n :: suf)) :
    ∃ o h, chunk2 pre.length ⟨pre ++ n :: suf, data⟩ = .ok (o, h) ∧
      o.shape = pre ++ ((n + 1) / 2) :: suf ∧ h.shape = pre ++ (n / 2) :: suf ∧ WF o ∧ WF h ∧
      cat2 pre.length o h = .ok ⟨pre ++ n :: suf, data⟩ ∧ (o.data ++ h.data).Perm data := by
  refine ⟨_, _, chunk2_mid pre suf n hn data, rfl, rfl, (chunk2_wf pre suf n data hwf).1, (chunk2_wf pre suf n data hwf).2,
    cat2_chunk2 pre suf n data hwf, splitBlocks_perm _ _ _ _ (by rw [hwf, prod_mid])⟩

/-- **prefix of stages** (`multiscale_prefix`): when stage `k` acts element-wise with `gₖ`, an accepted
    configuration maps the input to: the routing segments of the INPUT data (`routeSegs`, which does not depend on
    the stages), segment `k` mapped through `gₖ ∘ … ∘ g₁` — so a coordinate emitted after stage `k` went through
    exactly the stages `1 … k`, in that order, and through no later stage. -/
theorem multiscale_prefix (A : LD L) (hA : A.Lawful) (pre suf : List Nat) (n : Nat) (ts : List (Tr (Item α) C L))
    (gs : List (C → α → α)) (hpw : List.Forall₂ IsPointwise ts gs) (hts : ts ≠ []) (m : MS α C L)
    (hb : MS.build (ts.length : Int) (.int ((pre.length : Int) + 1)) ts (pre ++ n :: suf) = .ok m)
    (data : List α) (c : C) :
    ∃ l, m.forward A ⟨pre ++ n :: suf, data⟩ c =
      .ok (⟨[((List.zipWith (fun f seg => List.map f seg) (prefixMaps (gs.map (fun g => g c)))
              (routeSegs (prod pre) (prod suf) ts.length n data)).flatten).length],
            (List.zipWith (fun f seg => List.map f seg) (prefixMaps (gs.map (fun g => g c)))
              (routeSegs (prod pre) (prod suf) ts.length n data)).flatten⟩, l) := by
  by_cases hn : 2 ^ ts.length ≤ n
  · rw [build_ok pre suf ts n hts hn] at hb
    obtain rfl := Except.ok.inj hb
    have hn' : 2 ^ (ts.length - 1) ≤ n := le_trans (Nat.pow_le_pow_right (by norm_num) (Nat.sub_le _ _)) hn
    obtain ⟨l, hl⟩ := fwdStages_pointwise A hA pre suf c ts gs n data hpw hts hn'
    refine ⟨l, ?_⟩
    have h1 : ¬ (pre.length + 1 ≥ pre.length + (suf.length + 1) + 1) := by omega
    simp only [MS.forward, List.length_append, List.length_cons, h1, if_false, ne_eq, not_true_eq_false,
      Nat.add_sub_cancel, hl]
  · rw [build_small pre suf ts n hts hn] at hb
    cases hb

/-- entry `k` of `prefixMaps` is the composition `g_{k+1} ∘ … ∘ g₁` (first stage applied first) -/
theorem prefixMaps_spec (gs : List (α → α)) (k : Nat) (hk : k < gs.length) :
    (prefixMaps gs)[k]? = some ((gs.take (k + 1)).foldl (fun f g => g ∘ f) id) :=
  prefixMaps_getElem? gs k hk

/-- **routing is a bijection of coordinates** (`multiscale_routing_bijective`): with stages that leave the data
    alone, every accepted configuration — any rank, any split dimension, odd or even size, any number of stages —
    returns a flat item whose data is a PERMUTATION of the input data: every input coordinate reaches exactly one
    output position (with distinct tags: no tag is lost, none is duplicated). -/
theorem multiscale_routing_bijective (A : LD L) (hA : A.Lawful) (pre suf : List Nat) (n : Nat)
    (ts : List (Tr (Item α) C L)) (hid : ∀ t ∈ ts, IsPointwise t (fun _ => id)) (hts : ts ≠ []) (m : MS α C L)
    (hb : MS.build (ts.length : Int) (.int ((pre.length : Int) + 1)) ts (pre ++ n :: suf) = .ok m)
    (data : List α) (hwf : data.length = prod (pre ++ n :: suf)) (c : C) :
    ∃ flat l, m.forward A ⟨pre ++ n :: suf, data⟩ c = .ok (⟨[prod (pre ++ n :: suf)], flat⟩, l) ∧
      flat = (routeSegs (prod pre) (prod suf) ts.length n data).flatten ∧
      flat.Perm data ∧ (data.Nodup → flat.Nodup) ∧ ∀ a, a ∈ flat ↔ a ∈ data := by
  have hpw := forall2_of_forall IsPointwise (fun _ => (fun _ => id : C → α → α)) ts hid
  obtain ⟨l, hl⟩ := multiscale_prefix A hA pre suf n ts _ hpw hts m hb data c
  obtain ⟨k, hk⟩ : ∃ k, ts.length = k + 1 := ⟨ts.length - 1, by have := List.length_pos_iff.mpr hts; omega⟩
  have hz : List.zipWith (fun f seg => List.map f seg)
      (prefixMaps ((ts.map (fun _ => (fun _ => id : C → α → α))).map (fun g => g c)))
      (routeSegs (prod pre) (prod suf) ts.length n data) = routeSegs (prod pre) (prod suf) ts.length n data := by
    apply zipWith_all_id
    · apply prefixMaps_all_id
      intro g hg
      simp only [List.map_map, List.mem_map] at hg
      obtain ⟨_, _, rfl⟩ := hg
      rfl
    · rw [prefixMaps_length, routeSegs_length]; simp
  rw [hz] at hl
  have hperm : (routeSegs (prod pre) (prod suf) ts.length n data).flatten.Perm data := by
    rw [hk]; exact routeSegs_perm _ _ k n data (by rw [hwf, prod_mid])
  refine ⟨_, l, ?_, rfl, hperm, fun hnd => hperm.nodup_iff.mpr hnd, fun a => hperm.mem_iff⟩
  rw [hl, hperm.length_eq, hwf]

/-- **inverse undoes forward** (`multiscale_inv_fwd`): in every accepted configuration whose stages keep the shape
    of what reaches them and are undone by their own inverses (with negated log-det), `forward` succeeds on every
    well-formed input of the declared shape and returns a flat item of `∏ shape` coordinates; `inverse` maps it back
    to the input exactly and returns minus the log-det — also when further columns are appended (they are ignored by
    the slicing). -/
theorem multiscale_inv_fwd {G : Type} [AddCommGroup G] (pre suf : List Nat) (n : Nat) (ts : List (Tr (Item α) C G))
    (hts : ts ≠ []) (hok : StagesOK pre suf ts n) (m : MS α C G)
    (hb : MS.build (ts.length : Int) (.int ((pre.length : Int) + 1)) ts (pre ++ n :: suf) = .ok m)
    (x : Item α) (hx : x.shape = pre ++ n :: suf) (hwf : WF x) (c : C) :
    ∃ flat l, m.forward (LD.std G) x c = .ok (⟨[prod (pre ++ n :: suf)], flat⟩, l) ∧
      flat.length = prod (pre ++ n :: suf) ∧
      ∀ extra, m.inverse (LD.std G) ⟨[prod (pre ++ n :: suf) + extra.length], flat ++ extra⟩ c = .ok (x, -l) := by
  by_cases hn : 2 ^ ts.length ≤ n
  · rw [build_ok pre suf ts n hts hn] at hb
    obtain rfl := Except.ok.inj hb
    have hn' : 2 ^ (ts.length - 1) ≤ n := le_trans (Nat.pow_le_pow_right (by norm_num) (Nat.sub_le _ _)) hn
    obtain ⟨flat, l, hf, hlen, hinv⟩ := fwd_then_inv pre suf c ts n x hts hok hn' hx hwf
    refine ⟨flat, l, ?_, hlen, fun extra => ?_⟩
    · have h1 : ¬ (pre.length + 1 ≥ pre.length + (suf.length + 1) + 1) := by omega
      simp only [MS.forward, hx, List.length_append, List.length_cons, h1, if_false, ne_eq, not_true_eq_false,
        Nat.add_sub_cancel, hf, hlen]
    · obtain ⟨slices, hsp, hiv⟩ := hinv extra
      simp only [MS.inverse, List.length_cons, List.length_nil, ne_eq, not_true_eq_false, if_false,
        Nat.add_sub_cancel, hsp, hiv, zero_add]
  · rw [build_small pre suf ts n hts hn] at hb
    cases hb

/-- **forward undoes inverse** (`multiscale_fwd_inv`): under the mirrored hypothesis on the stages (their forward
    undoes their inverse), `inverse` succeeds on every flat item with `∏ shape` coordinates, returns a well-formed
    item of the declared shape, and `forward` maps that back to the flat item exactly, with minus the log-det. -/
theorem multiscale_fwd_inv {G : Type} [AddCommGroup G] (pre suf : List Nat) (n : Nat) (ts : List (Tr (Item α) C G))
    (hts : ts ≠ []) (hok : StagesOK pre suf (ts.map inverseTr) n) (m : MS α C G)
    (hb : MS.build (ts.length : Int) (.int ((pre.length : Int) + 1)) ts (pre ++ n :: suf) = .ok m)
    (flat : List α) (hlen : flat.length = prod (pre ++ n :: suf)) (c : C) :
    ∃ x l, m.inverse (LD.std G) ⟨[prod (pre ++ n :: suf)], flat⟩ c = .ok (x, l) ∧ x.shape = pre ++ n :: suf ∧ WF x ∧
      m.forward (LD.std G) x c = .ok (⟨[prod (pre ++ n :: suf)], flat⟩, -l) := by
  by_cases hn : 2 ^ ts.length ≤ n
  · rw [build_ok pre suf ts n hts hn] at hb
    obtain rfl := Except.ok.inj hb
    have hn' : 2 ^ (ts.length - 1) ≤ n := le_trans (Nat.pow_le_pow_right (by norm_num) (Nat.sub_le _ _)) hn
    obtain ⟨slices, x, l, hsp, hiv, hs, hw, hf⟩ := inv_then_fwd pre suf c ts n flat hts hok hn' hlen
    refine ⟨x, l, ?_, hs, hw, ?_⟩
    · simp only [MS.inverse, List.length_cons, List.length_nil, ne_eq, not_true_eq_false, if_false,
        Nat.add_sub_cancel, hsp, hiv, zero_add]
    · have h1 : ¬ (pre.length + 1 ≥ pre.length + (suf.length + 1) + 1) := by omega
      simp only [MS.forward, hs, List.length_append, List.length_cons, h1, if_false, ne_eq, not_true_eq_false,
        Nat.add_sub_cancel, hf, hlen]
  · rw [build_small pre suf ts n hts hn] at hb
    cases hb

/-! ## the driver evaluates a transmitted nesting with exactly these combinators -/

/-- the tree evaluator of the line-protocol driver (`Core/Ops/C08.lean`) maps a `comp` node to `composite`, an `inv`
    node to `inverseTr` and an `ms` node to `MS.new` + the `add_transform` calls + `MS.tr` — the definitions all
    theorems above are about (instantiated at `Item Float`, `Float` log-dets accumulated with `+` from `0.0`). -/
theorem driver_uses_combinators (cs : List C08.Node) (c : C08.Node) (n : Int) (sd : PyArg) (shapes : List (List Nat)) :
    C08.build (.comp cs) = (match C08.buildList cs with
      | .error e => .error e
      | .ok ts => .ok (composite C08.fA ts)) ∧
    C08.build (.inv c) = (match C08.build c with
      | .error e => .error e
      | .ok t => .ok (inverseTr t)) ∧
    C08.build (.ms n sd cs shapes) = (match C08.buildList cs with
      | .error e => .error e
      | .ok ts =>
        match (MS.new n sd : Except Err (MS Float Float Float)) with
        | .error e => .error e
        | .ok m =>
          match C08.addAll m ts shapes [] with
          | .error e => .error e
          | .ok (m', _) => .ok (m'.tr C08.fA)) := by
  refine ⟨?_, ?_, ?_⟩
  · rw [C08.build]; cases C08.buildList cs <;> rfl
  · rw [C08.build]; cases C08.build c <;> rfl
  · rw [C08.build]
    rcases C08.buildList cs with e | ts
    · rfl
    · simp only []
      rcases (MS.new n sd : Except Err (MS Float Float Float)) with e | m
      · rfl
      · simp only []
        rcases C08.addAll m ts shapes [] with e | ⟨m', r⟩ <;> rfl

/-! ## restated from the earlier lemma modules (abstract tensor type, real log-dets) -/

/-- restated: `_cascade` over `ℝ` log-dets unrolls by one part -/
theorem real_cascade_cons {α C : Type} (f : α → C → α × ℝ) (fs) (x : α) (c : C) :
    Coupling.Wrappers.cascade (f :: fs) x c =
      ((Coupling.Wrappers.cascade fs (f x c).1 c).1, (f x c).2 + (Coupling.Wrappers.cascade fs (f x c).1 c).2) :=
  Coupling.Wrappers.cascade_cons f fs x c

/-- restated: composite of good parts is good (reversed-order inverse, summed log-dets), total parts over `ℝ` -/
theorem real_composite_good {α C : Type} (ts : List (Coupling.Wrappers.Tr α C))
    (h : ∀ t ∈ ts, Coupling.Wrappers.Good t) : Coupling.Wrappers.Good (Coupling.Wrappers.composite ts) :=
  Coupling.Wrappers.composite_good ts h

/-- restated: multiscale round trip for ANY tensor type with lawful chunk / cat / flatten / view -/
theorem generic_multiscale_inv_fwd {T α Sh : Type} (O : Multiscale.TensorOps T α Sh) (fs finvs : List (T → T))
    (hinv : List.Forall₂ (fun f finv => ∀ t, finv (f t) = t) fs finvs) (hne : fs ≠ []) (x : T) :
    Multiscale.msInverse O finvs (Multiscale.msShapes O fs x) (Multiscale.msForward O fs x) = some x :=
  Multiscale.multiscale_inv_fwd O fs finvs hinv hne x

/-! ## non-vacuity: the hypotheses are satisfiable by non-trivial data, and the model computes -/

example : StageOK negStage [2, 3] := by
  intro x c hx hw
  refine ⟨⟨x.shape, x.data.map (fun v => -v)⟩, 1, rfl, hx, by simpa [WF] using hw, ?_⟩
  cases x; simp [negStage]

example : StagesOK [2] [] [negStage, negStage] 5 := by
  refine ⟨?_, ?_, trivial⟩ <;>
  · intro x c hx hw
    refine ⟨⟨x.shape, x.data.map (fun v => -v)⟩, 1, rfl, hx, by simpa [WF] using hw, ?_⟩
    cases x; simp [negStage]

/-- rank-3 tensor `[B, 2, 5]`, `split_dim = 2` (odd size 5), two stages, each negating every entry.
    Entries `[1..5 | 6..10]`: the first chunk (columns 0-2 of every row) went through stage 1 only, the rest
    (columns 3-4) through both. -/
example :
    ((MS.build 2 (.int 2) [negStage, negStage] [2, 5] >>= fun m =>
        m.forward (LD.std Int) ⟨[2, 5], [1, 2, 3, 4, 5, 6, 7, 8, 9, 10]⟩ ()).toOption.map
      (fun r => (r.1.shape, r.1.data, r.2))) = some ([10], [-1, -2, -3, -6, -7, -8, 4, 5, 9, 10], 2) := by decide

example :
    ((MS.build 2 (.int 2) [negStage, negStage] [2, 5] >>= fun m =>
        m.inverse (LD.std Int) ⟨[10], [-1, -2, -3, -6, -7, -8, 4, 5, 9, 10]⟩ ()).toOption.map
      (fun r => (r.1.shape, r.1.data, r.2))) = some ([2, 5], [1, 2, 3, 4, 5, 6, 7, 8, 9, 10], -2) := by decide

/-- a size-3 dimension cannot carry two splits: the second `add_transform` is refused -/
example : (MS.build 2 (.int 1) [negStage, negStage] [3] : Except Err (MS Int Unit Int)) = .error .valueError := rfl

end Properties.C08
