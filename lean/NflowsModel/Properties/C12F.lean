import NflowsModel.Properties.C12
import NflowsModel.Lemmas.FlowRowsExec
/-!
# C12 (continued) — `Flow.log_prob` over the EXECUTED passes is row independent, errors included

`Lemmas/FlowRowsExec.lean` wires `Properties/C12R.lean`'s list-level flow statement to what is executed: the `TResult`-returning
`couplingApply` / `arApply` / `cdfApply` (any mask, direction, family) are `RowWiseStage`s — rows of two accepted calls that agree on
a row agree on its output and log-det, and a batch is accepted iff every row alone is —, the notion is closed under
`CompositeTransform` (`Wrap.cascade`, induction on the stage list), and `flowLogProbExec` (flows/base.py:42-49: embed, transform,
`Except`-returning base density) returns on row `i` alone exactly `[lps[i]]`; it raises iff some row alone raises (`0 < B` forced),
transform errors before base errors, first failing row first within an AR / CDF stage.  Networks (conditioner, MADE, embedding, context
encoder) are row-wise by hypothesis `NetRowWise`, compared numerically by the correspondence.
-/
set_option linter.all false
namespace Properties.C12

theorem rowWise_cdfStage :
    ∀ {α : Type} (o : XOps α) (c : NF.ElCfg) (n : ℕ) (inverse : Bool) (params : Array α)
      (cw : ℕ), NF.FlowRowsExec.RowWiseStage n cw (NF.FlowRowsExec.cdfStage o c n inverse params) :=
  @NF.FlowRowsExec.rowWise_cdfStage

theorem rowWise_arStage :
    ∀ {α : Type} (o : XOps α) (c : NF.ElCfg) (F : ℕ) (inverse : Bool) (cw : ℕ)
      (net : ℕ → Array α → Array α → Array α),
      NF.FlowRowsExec.NetRowWise F cw (F * NF.FlowRowsExec.arMult c) net →
        NF.FlowRowsExec.RowWiseStage F cw (NF.FlowRowsExec.arStage o c F inverse net) :=
  @NF.FlowRowsExec.rowWise_arStage

theorem rowWise_couplingStage :
    ∀ {α : Type} (o : XOps α) (c : NF.ElCfg) (mask : List α) (S : ℕ)
      (inverse : Bool) (uc : Option NF.ElCfg) (uparams : Array α) (cw : ℕ) (net : ℕ → Array α → Array α → Array α),
      NF.FlowRowsExec.NetRowWise ((NF.identityIdx o mask).length * S) cw
          (NF.StructureExec.paramWidth c (NF.transformIdx o mask).length * S) net →
        NF.FlowRowsExec.RowWiseStage (mask.length * S) cw (NF.FlowRowsExec.couplingStage o c mask S inverse uc uparams net) :=
  @NF.FlowRowsExec.rowWise_couplingStage

theorem rowWise_compStage :
    ∀ {α : Type} (o : XOps α) {w cw : ℕ} (ts : List (NF.FlowRowsExec.BStage α)),
      (∀ t ∈ ts, NF.FlowRowsExec.RowWiseStage w cw t) → NF.FlowRowsExec.RowWiseStage w cw (NF.FlowRowsExec.compStage o ts) :=
  @NF.FlowRowsExec.rowWise_compStage

theorem cdfStage_error_first :
    ∀ {α : Type} (o : XOps α) (c : NF.ElCfg) (n : ℕ) (inverse : Bool)
      (params : Array α) (B : ℕ) (x : Array α) (xr : ℕ → Array α),
      (∀ b < B, NF.FlowRowsExec.RowEq n b 0 x (xr b)) →
        (NF.cdfApply o c B n x params inverse).err =
          List.findSome? (fun (b : ℕ) => (NF.cdfApply o c 1 n (xr b) params inverse).err) (List.range B) :=
  @NF.FlowRowsExec.cdfStage_error_first

theorem arStage_error_first :
    ∀ {α : Type} (o : XOps α) (c : NF.ElCfg) (F : ℕ) (inverse : Bool) (cw : ℕ)
      (net : ℕ → Array α → Array α → Array α),
      NF.FlowRowsExec.NetRowWise F cw (F * NF.FlowRowsExec.arMult c) net →
        ∀ (B : ℕ) (x ctx : Array α) (xr cr : ℕ → Array α),
          (∀ b < B, NF.FlowRowsExec.RowEq F b 0 x (xr b)) →
            (∀ b < B, NF.FlowRowsExec.RowEq cw b 0 ctx (cr b)) →
              (NF.arApply o c B F x (net B x ctx) inverse).err =
                List.findSome? (fun (b : ℕ) => (NF.arApply o c 1 F (xr b) (net 1 (xr b) (cr b)) inverse).err) (List.range B) :=
  @NF.FlowRowsExec.arStage_error_first

theorem flowExec_row_independent :
    ∀ {α : Type} (o : XOps α) {w rcw cw : ℕ} {emb : ℕ → Array α → Array α}
      {T : NF.FlowRowsExec.BStage α} {base : NF.FlowRowsExec.BaseD α} {B : ℕ} {x ctx : Array α} {xr cr : ℕ → Array α},
      NF.FlowRowsExec.FlowRows w rcw cw emb T base B x ctx xr cr →
        ∀ (lps : List α),
          NF.FlowRowsExec.flowLogProbExec o w emb T base B x ctx = Except.ok lps →
            lps.length = B ∧
              ∀ i < B,
                ∃ (l : α),
                  lps[i]? = Option.some l ∧ NF.FlowRowsExec.flowLogProbExec o w emb T base 1 (xr i) (cr i) = Except.ok [l] :=
  @NF.FlowRowsExec.flowExec_row_independent

theorem flowExec_transform_error :
    ∀ {α : Type} (o : XOps α) {w rcw cw : ℕ} {emb : ℕ → Array α → Array α}
      {T : NF.FlowRowsExec.BStage α} {base : NF.FlowRowsExec.BaseD α} {B : ℕ} {x ctx : Array α} {xr cr : ℕ → Array α},
      NF.FlowRowsExec.FlowRows w rcw cw emb T base B x ctx xr cr →
        ∀ (err : Err),
          T B x (emb B ctx) = Except.error err →
            NF.FlowRowsExec.flowLogProbExec o w emb T base B x ctx = Except.error (NF.Density.DErr.base err) ∧
              ∃ i < B,
                ∃ (err' : Err),
                  T 1 (xr i) (emb 1 (cr i)) = Except.error err' ∧
                    NF.FlowRowsExec.flowLogProbExec o w emb T base 1 (xr i) (cr i) =
                      Except.error (NF.Density.DErr.base err') :=
  @NF.FlowRowsExec.flowExec_transform_error

theorem flowExec_base_error :
    ∀ {α : Type} (o : XOps α) {w rcw cw : ℕ} {emb : ℕ → Array α → Array α}
      {T : NF.FlowRowsExec.BStage α} {base : NF.FlowRowsExec.BaseD α} {B : ℕ} {x ctx : Array α} {xr cr : ℕ → Array α},
      NF.FlowRowsExec.FlowRows w rcw cw emb T base B x ctx xr cr →
        ∀ {z : Array α} {ld : List α} (err : NF.Density.DErr),
          T B x (emb B ctx) = Except.ok (z, ld) →
            base B (NF.Density.rowsOf w B z.toList) (emb B ctx) = Except.error err →
              NF.FlowRowsExec.flowLogProbExec o w emb T base B x ctx = Except.error err ∧
                ∀ i < B, NF.FlowRowsExec.flowLogProbExec o w emb T base 1 (xr i) (cr i) = Except.error err :=
  @NF.FlowRowsExec.flowExec_base_error

theorem flowExec_raises_iff :
    ∀ {α : Type} (o : XOps α) {w rcw cw : ℕ} {emb : ℕ → Array α → Array α}
      {T : NF.FlowRowsExec.BStage α} {base : NF.FlowRowsExec.BaseD α} {B : ℕ} {x ctx : Array α} {xr cr : ℕ → Array α},
      NF.FlowRowsExec.FlowRows w rcw cw emb T base B x ctx xr cr →
        0 < B →
          ((∃ (err : NF.Density.DErr), NF.FlowRowsExec.flowLogProbExec o w emb T base B x ctx = Except.error err) ↔
            ∃ i < B,
              ∃ (err : NF.Density.DErr), NF.FlowRowsExec.flowLogProbExec o w emb T base 1 (xr i) (cr i) = Except.error err) :=
  @NF.FlowRowsExec.flowExec_raises_iff

theorem flowExec_accepted_iff :
    ∀ {α : Type} (o : XOps α) {w rcw cw : ℕ} {emb : ℕ → Array α → Array α}
      {T : NF.FlowRowsExec.BStage α} {base : NF.FlowRowsExec.BaseD α} {B : ℕ} {x ctx : Array α} {xr cr : ℕ → Array α},
      NF.FlowRowsExec.FlowRows w rcw cw emb T base B x ctx xr cr →
        0 < B →
          ((∃ (lps : List α), NF.FlowRowsExec.flowLogProbExec o w emb T base B x ctx = Except.ok lps) ↔
            ∀ i < B, ∃ (l : α), NF.FlowRowsExec.flowLogProbExec o w emb T base 1 (xr i) (cr i) = Except.ok [l]) :=
  @NF.FlowRowsExec.flowExec_accepted_iff

theorem flowExec_composite :
    ∀ {α : Type} (o : XOps α) {rcw cw : ℕ} {emb : ℕ → Array α → Array α}
      {base : NF.FlowRowsExec.BaseD α} {B : ℕ} {x ctx : Array α} {xr cr : ℕ → Array α} {w : ℕ}
      (ts : List (NF.FlowRowsExec.BStage α)),
      (∀ t ∈ ts, NF.FlowRowsExec.RowWiseStage w cw t) →
        NF.FlowRowsExec.RowIndepBase cw base →
          NF.FlowRowsExec.EmbRowWise rcw cw emb →
            (∀ b < B, NF.FlowRowsExec.RowEq w b 0 x (xr b)) →
              (∀ b < B, NF.FlowRowsExec.RowEq rcw b 0 ctx (cr b)) →
                (∀ (lps : List α),
                    NF.FlowRowsExec.flowLogProbExec o w emb (NF.FlowRowsExec.compStage o ts) base B x ctx = Except.ok lps →
                      lps.length = B ∧
                        ∀ i < B,
                          ∃ (l : α),
                            lps[i]? = Option.some l ∧
                              NF.FlowRowsExec.flowLogProbExec o w emb (NF.FlowRowsExec.compStage o ts) base 1 (xr i)
                                  (cr i) =
                                Except.ok [l]) ∧
                  (0 < B →
                    ((∃ (err : NF.Density.DErr),
                        NF.FlowRowsExec.flowLogProbExec o w emb (NF.FlowRowsExec.compStage o ts) base B x ctx =
                          Except.error err) ↔
                      ∃ i < B,
                        ∃ (err : NF.Density.DErr),
                          NF.FlowRowsExec.flowLogProbExec o w emb (NF.FlowRowsExec.compStage o ts) base 1 (xr i) (cr i) =
                            Except.error err)) :=
  @NF.FlowRowsExec.flowExec_composite

theorem flowExec_coupling :
    ∀ {α : Type} (o : XOps α) {rcw cw : ℕ} {emb : ℕ → Array α → Array α}
      {base : NF.FlowRowsExec.BaseD α} {B : ℕ} {x ctx : Array α} {xr cr : ℕ → Array α} (c : NF.ElCfg) (mask : List α)
      (S : ℕ) (uc : Option NF.ElCfg) (uparams : Array α) (net : ℕ → Array α → Array α → Array α),
      NF.FlowRowsExec.NetRowWise ((NF.identityIdx o mask).length * S) cw
          (NF.StructureExec.paramWidth c (NF.transformIdx o mask).length * S) net →
        NF.FlowRowsExec.RowIndepBase cw base →
          NF.FlowRowsExec.EmbRowWise rcw cw emb →
            (∀ b < B, NF.FlowRowsExec.RowEq (mask.length * S) b 0 x (xr b)) →
              (∀ b < B, NF.FlowRowsExec.RowEq rcw b 0 ctx (cr b)) →
                have T := NF.FlowRowsExec.couplingStage o c mask S Bool.false uc uparams net;
                (∀ (lps : List α),
                    NF.FlowRowsExec.flowLogProbExec o (mask.length * S) emb T base B x ctx = Except.ok lps →
                      lps.length = B ∧
                        ∀ i < B,
                          ∃ (l : α),
                            lps[i]? = Option.some l ∧
                              NF.FlowRowsExec.flowLogProbExec o (mask.length * S) emb T base 1 (xr i) (cr i) =
                                Except.ok [l]) ∧
                  (0 < B →
                    ((∃ (err : NF.Density.DErr),
                        NF.FlowRowsExec.flowLogProbExec o (mask.length * S) emb T base B x ctx = Except.error err) ↔
                      ∃ i < B,
                        ∃ (err : NF.Density.DErr),
                          NF.FlowRowsExec.flowLogProbExec o (mask.length * S) emb T base 1 (xr i) (cr i) =
                            Except.error err)) :=
  @NF.FlowRowsExec.flowExec_coupling

theorem flowExec_ar :
    ∀ {α : Type} (o : XOps α) {rcw cw : ℕ} {emb : ℕ → Array α → Array α}
      {base : NF.FlowRowsExec.BaseD α} {B : ℕ} {x ctx : Array α} {xr cr : ℕ → Array α} (c : NF.ElCfg) (F : ℕ)
      (net : ℕ → Array α → Array α → Array α),
      NF.FlowRowsExec.NetRowWise F cw (F * NF.FlowRowsExec.arMult c) net →
        NF.FlowRowsExec.RowIndepBase cw base →
          NF.FlowRowsExec.EmbRowWise rcw cw emb →
            (∀ b < B, NF.FlowRowsExec.RowEq F b 0 x (xr b)) →
              (∀ b < B, NF.FlowRowsExec.RowEq rcw b 0 ctx (cr b)) →
                have T := NF.FlowRowsExec.arStage o c F Bool.false net;
                (∀ (lps : List α),
                    NF.FlowRowsExec.flowLogProbExec o F emb T base B x ctx = Except.ok lps →
                      lps.length = B ∧
                        ∀ i < B,
                          ∃ (l : α),
                            lps[i]? = Option.some l ∧
                              NF.FlowRowsExec.flowLogProbExec o F emb T base 1 (xr i) (cr i) = Except.ok [l]) ∧
                  (0 < B →
                    ((∃ (err : NF.Density.DErr),
                        NF.FlowRowsExec.flowLogProbExec o F emb T base B x ctx = Except.error err) ↔
                      ∃ i < B,
                        ∃ (err : NF.Density.DErr),
                          NF.FlowRowsExec.flowLogProbExec o F emb T base 1 (xr i) (cr i) = Except.error err)) :=
  @NF.FlowRowsExec.flowExec_ar

theorem flowExec_cdf :
    ∀ {α : Type} (o : XOps α) {rcw cw : ℕ} {emb : ℕ → Array α → Array α}
      {base : NF.FlowRowsExec.BaseD α} {B : ℕ} {x ctx : Array α} {xr cr : ℕ → Array α} (c : NF.ElCfg) (n : ℕ)
      (params : Array α),
      NF.FlowRowsExec.RowIndepBase cw base →
        NF.FlowRowsExec.EmbRowWise rcw cw emb →
          (∀ b < B, NF.FlowRowsExec.RowEq n b 0 x (xr b)) →
            (∀ b < B, NF.FlowRowsExec.RowEq rcw b 0 ctx (cr b)) →
              have T := NF.FlowRowsExec.cdfStage o c n Bool.false params;
              (∀ (lps : List α),
                  NF.FlowRowsExec.flowLogProbExec o n emb T base B x ctx = Except.ok lps →
                    lps.length = B ∧
                      ∀ i < B,
                        ∃ (l : α),
                          lps[i]? = Option.some l ∧
                            NF.FlowRowsExec.flowLogProbExec o n emb T base 1 (xr i) (cr i) = Except.ok [l]) ∧
                (0 < B →
                  ((∃ (err : NF.Density.DErr), NF.FlowRowsExec.flowLogProbExec o n emb T base B x ctx = Except.error err) ↔
                    ∃ i < B,
                      ∃ (err : NF.Density.DErr),
                        NF.FlowRowsExec.flowLogProbExec o n emb T base 1 (xr i) (cr i) = Except.error err)) :=
  @NF.FlowRowsExec.flowExec_cdf

theorem rowIndepBase_stdNormal :
    ∀ {α : Type} (o : XOps α) (shape inShape : List ℕ) (c : Bool) (cw : ℕ),
      NF.FlowRowsExec.RowIndepBase cw fun (B : ℕ) (rows : List (List α)) (x : Array α) =>
        NF.Density.stdNormalLogProb o shape inShape (NF.RowIndependenceMore.ctxOf c B) rows :=
  @NF.FlowRowsExec.rowIndepBase_stdNormal

theorem rowIndepBase_diagNormal :
    ∀ {α : Type} (o : XOps α) (shape inShape : List ℕ) (c : Bool)
      (mean logStd : List α) (cw : ℕ),
      NF.FlowRowsExec.RowIndepBase cw fun (B : ℕ) (rows : List (List α)) (x : Array α) =>
        NF.Density.diagNormalLogProb o shape inShape (NF.RowIndependenceMore.ctxOf c B) mean logStd rows :=
  @NF.FlowRowsExec.rowIndepBase_diagNormal

theorem rowIndepBase_condNormal :
    ∀ {α : Type} (o : XOps α) (shape inShape pShape : List ℕ),
      pShape ≠ [] →
        ∀ (cw : ℕ) (enc : ℕ → Array α → List (List α)),
          NF.FlowRowsExec.EncRowWise cw enc →
            NF.FlowRowsExec.RowIndepBase cw fun (B : ℕ) (rows : List (List α)) (e : Array α) =>
              NF.Density.condNormalLogProb o shape inShape (Option.some B) B pShape (enc B e) rows :=
  @NF.FlowRowsExec.rowIndepBase_condNormal

end Properties.C12
