import NflowsModel.Core.MaskedScatter
import NflowsModel.Core.Structure
import NflowsModel.Lemmas.ViewLayout
import Mathlib.Tactic
import NflowsModel.Lemmas.StructureExec
/-!
# C12 — batch items are evaluated independently in evaluation mode

The scalar/structural model evaluates rows independently by construction; the content of the property is in the
places where the CODE is not written row by row.  Each such place is modelled as the code does it and proved equal
to a row-wise map.  A row-wise map is then equivariant under batch permutations and insensitive to the other rows.

**Limits** (external audit): theorems here cover the boolean-mask gather / scatter, the image parameter layout and the executed
coupling / autoregressive / CDF passes.  Distributions and flows (`log_prob` of a batch vs rows), the linear family, the 1×1 convolution and
the normalisation layers in evaluation mode are in `Properties/C12R.lean`; `Flow.log_prob` over the executed passes, errors included, in `Properties/C12F.lean`.  Not covered by a theorem (correspondence and
row-vs-batch oracle only): conditioner networks themselves (their row-wise behaviour is the hypothesis `hp`, compared numerically).  Row independence of the executed
passes is stated for the `out` / `ld` arrays; a batch in which ONE row is out of domain is rejected as a whole by the code
(`err`), and `Properties/C12E.lean` relates the two: the batch run has `err = none` iff every row run alone has.  `rowwise_*` are facts about `List.map`.
-/
open NF

namespace Properties.C12

/-- **Boolean-mask gather/scatter = row-wise routing** (the tail routing of all four `unconstrained_*_spline`s, of
    `LogTanh`, and the one-root or three-root routing of the cubic inverse): `out := zeros; out[¬m] := id(x[¬m]);
    out[m] := f(x[m], P[m])` equals `map (fun (x,p) => if m then f x p else id x)` for every batch length. -/
theorem masked_scatter_gather {α β γ : Type} (f : α → β → γ) (id' : α → γ) (zero : γ) (m : List Bool) (xs : List α) (ps : List β)
    (h1 : m.length = xs.length) (h2 : xs.length = ps.length) :
    MaskedScatter.asCoded f id' zero m xs ps = MaskedScatter.rowwise f id' m xs ps :=
  MaskedScatter.masked_scatter_gather f id' zero m xs ps h1 h2

/-- a row-wise map gives row `i` of the result from row `i` of the batch alone -/
theorem rowwise_row {Row Out : Type} (f : Row → Out) (batch : List Row) (i : Nat) (hi : i < batch.length) :
    (batch.map f)[i]'(by simpa using hi) = f batch[i] := by
  simp

/-- evaluating a batch equals evaluating its rows one at a time (batch size one included) -/
theorem rowwise_singletons {Row Out : Type} (f : Row → Out) (batch : List Row) :
    batch.map f = (batch.map (fun r => [r].map f)).flatten := by
  induction batch with
  | nil => rfl
  | cons r rs ih => simp [ih]

/-- a row-wise map is equivariant under every permutation of the batch -/
theorem rowwise_perm_equivariant {Row Out : Type} (f : Row → Out) (b1 b2 : List Row) (h : b1.Perm b2) :
    (b1.map f).Perm (b2.map f) := h.map f

/-- and unaffected by which other rows are present: a sub-batch gives the corresponding sub-list of results -/
theorem rowwise_sublist {Row Out : Type} (f : Row → Out) (b1 b2 : List Row) (h : b1.Sublist b2) :
    (b1.map f).Sublist (b2.map f) := h.map f

/-- `sum_except_batch` of a `[B, n]` tensor: row `b` of the result only reads row `b` (executable model) -/
theorem sumRows_length {α : Type} (o : XOps α) (B : Nat) (xs : Array α) : (sumRows o B xs).length = B := by
  simp [sumRows]

/-- image parameter layout: the parameters of pixel `(b, c, i, j)` come from batch item `b` only -/
theorem img_param_layout {α : Type} [Inhabited α] (P : Array α) (B C M H W b c i j k : Nat) :
    (((View.ofArray P [B, C*M, H, W]).reshape [B, C, M, H, W]).permute [0,1,3,4,2]).get [b,c,i,j,k]
      = (View.ofArray P [B, C*M, H, W]).get [b, c*M + k, i, j] :=
  View.param_layout_img P B C M H W b c i j k

/-! non-vacuity -/
example : MaskedScatter.asCoded (fun (x : Nat) (p : Nat) => x + p) (fun x => x) 0 [true, false, true] [1, 2, 3] [10, 20, 30] = [11, 2, 33] := by
  decide

/-! ## the EXECUTED layers: row `b` of the result depends only on row `b` of the inputs and of the parameters -/

/-- **coupling layer, executed**: if two calls (batch sizes may differ — e.g. the row evaluated alone) agree on row `b`/`b'`
    of `x` and of the conditioner output, they agree on that row of `out` and on that entry of `ld` (equalities in `α`:
    bit-for-bit at `Float`; elements that raise are allowed) -/
theorem exec_coupling_row_independent {α : Type} (o : XOps α) (c : ElCfg) (mask : List α) (S : Nat) (inverse : Bool)
    (uc : Option ElCfg) (uparams : Array α) {B B' b b' : Nat} (x x' params params' : Array α) (hb : b < B) (hb' : b' < B')
    (hx : NF.StructureExec.RowAgree mask.length S b b' x x')
    (hp : NF.StructureExec.RowAgree (NF.StructureExec.paramWidth c (transformIdx o mask).length) S b b' params params') :
    NF.StructureExec.RowAgree mask.length S b b' (couplingApply o c mask B S x params inverse uc uparams).out
        (couplingApply o c mask B' S x' params' inverse uc uparams).out
      ∧ (couplingApply o c mask B S x params inverse uc uparams).ld[b]?
          = (couplingApply o c mask B' S x' params' inverse uc uparams).ld[b']? :=
  NF.StructureExec.coupling_row_independent o c mask S inverse uc uparams x x' params params' hb hb' hx hp

/-- **autoregressive element-wise pass, executed** -/
theorem exec_ar_row_independent {α : Type} (o : XOps α) (c : ElCfg) (F : Nat) (inverse : Bool) {B B' b b' : Nat}
    (x x' params params' : Array α) (hb : b < B) (hb' : b' < B')
    (hx : ∀ i, i < F → x[b * F + i]? = x'[b' * F + i]?)
    (hp : ∀ i k, i < F → params[(b * F + i) * (if c.kind == "araffine" then 2 else c.mult) + k]?
                        = params'[(b' * F + i) * (if c.kind == "araffine" then 2 else c.mult) + k]?) :
    (∀ i, i < F → (arApply o c B F x params inverse).out[b * F + i]? = (arApply o c B' F x' params' inverse).out[b' * F + i]?)
      ∧ (arApply o c B F x params inverse).ld[b]? = (arApply o c B' F x' params' inverse).ld[b']? :=
  NF.StructureExec.ar_row_independent o c F inverse x x' params params' hb hb' hx hp

/-- **`Piecewise*CDF`, executed** (parameters shared across the batch) -/
theorem exec_cdf_row_independent {α : Type} (o : XOps α) (c : ElCfg) (n : Nat) (inverse : Bool) {B B' b b' : Nat}
    (x x' params : Array α) (hb : b < B) (hb' : b' < B')
    (hx : ∀ i, i < n → x[b * n + i]? = x'[b' * n + i]?) :
    (∀ i, i < n → (cdfApply o c B n x params inverse).out[b * n + i]? = (cdfApply o c B' n x' params inverse).out[b' * n + i]?)
      ∧ (cdfApply o c B n x params inverse).ld[b]? = (cdfApply o c B' n x' params inverse).ld[b']? :=
  NF.StructureExec.cdf_row_independent o c n inverse x x' params hb hb' hx

end Properties.C12
