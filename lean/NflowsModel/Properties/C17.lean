import NflowsModel.Core.Structure
import NflowsModel.Lemmas.Glue
import NflowsModel.Lemmas.Utils
import NflowsModel.Lemmas.SplineTotal
import NflowsModel.Lemmas.RQWhole
import NflowsModel.Lemmas.RQInverseWhole
import Mathlib.Tactic
import NflowsModel.Lemmas.CubicWhole
import NflowsModel.Lemmas.QuadWhole
import NflowsModel.Lemmas.TailsWhole
import NflowsModel.Lemmas.QuadInverseWhole
import NflowsModel.Lemmas.StructureExecRQTails
import NflowsModel.Lemmas.CubicInverseWhole
import NflowsModel.Lemmas.LinWhole
/-!
# C17 — out-of-domain inputs are rejected, in-domain inputs never fail

Theorems about the EXECUTABLE model, for any scalar semantics `o : XOps α` (so they hold for the `Float`,
`Float32` and real instances alike): a transform rejects an element exactly when the comparison the code makes
says it is outside; and over the reals the bin index of an accepted input is always in range.  The half of the
property that is about rounding (`right + eps == right` in float32) is carried by executing the model in the same
precision against the code (DESIGN §8).

**Limits** (external audit): the `*_rejects_iff` theorems restate the comparison the model makes (their content is that the
model makes the code's comparison, which the correspondence checks on boundary atoms ±1 ulp); "never fail" is `.ok` over ℝ,
where `log 0` / `x/0` are totalised — the whole-program theorems that exclude them (`…_in_domain_total`: all gathers in range,
logarithm arguments positive, discriminant ≥ 0) are the ones that carry the claim; statements here are per element; `Properties/C17E.lean` has the exact domains of the executed elements and the
layer-level statement (a whole element-wise layer reports an error iff some element does), `Properties/C12E.lean` the batch-level one.
-/
open NF

namespace Properties.C17

variable {α : Type}

/-- `Exp.inverse` rejects exactly the non-positive elements -/
theorem exp_inverse_rejects_iff (o : XOps α) (x : α) :
    expT o true x = .error .outsideDomain ↔ o.le x o.zero = true := by
  unfold expT; by_cases h : o.le x o.zero = true <;> simp [h]

/-- `Exp.forward` accepts everything -/
theorem exp_forward_total (o : XOps α) (x : α) : ∃ r, expT o false x = .ok r := ⟨_, rfl⟩

/-- `Tanh.inverse` rejects exactly `x ≤ -1 ∨ x ≥ 1` -/
theorem tanh_inverse_rejects_iff (o : XOps α) (x : α) :
    tanhT o true x = .error .outsideDomain ↔ (o.le x (o.neg o.one) || o.ge x o.one) = true := by
  unfold tanhT; by_cases h : (o.le x (o.neg o.one) || o.ge x o.one) = true <;> simp [h]

/-- `Sigmoid.inverse` (= `Logit.forward`) rejects exactly `x < 0 ∨ x > 1` -/
theorem sigmoid_inverse_rejects_iff (o : XOps α) (T : α) (eps : Float) (x : α) :
    sigmoidT o T eps true x = .error .outsideDomain ↔ (o.lt x o.zero || o.gt x o.one) = true := by
  unfold sigmoidT; by_cases h : (o.lt x o.zero || o.gt x o.one) = true <;> simp [h]

/-- `CauchyCDF.inverse` rejects exactly `x < 0 ∨ x > 1` -/
theorem cauchy_inverse_rejects_iff (o : XOps α) (x : α) :
    cauchyT o true x = .error .outsideDomain ↔ (o.lt x o.zero || o.gt x o.one) = true := by
  unfold cauchyT; by_cases h : (o.lt x o.zero || o.gt x o.one) = true <;> simp [h]

/-- bounded splines: an input outside the interval of the requested direction is rejected with the domain error
    (forward: `[left, right]`; inverse: `[bottom, top]` — after the repair) -/
theorem rq_rejects_outside (o : XOps α) (c : RQCfg) (uw uh ud : List α) (inverse : Bool) (x : α)
    (h : (o.lt x (o.ofFloat (if inverse then c.box.bottom else c.box.left)) ||
          o.lt (o.ofFloat (if inverse then c.box.top else c.box.right)) x) = true) :
    rqSpline o c uw uh ud inverse x = .error .outsideDomain := by
  unfold rqSpline
  simp only [h]
  rfl

theorem quad_rejects_outside (o : XOps α) (c : QCfg) (uw uh : List α) (inverse : Bool) (x : α)
    (h : (o.lt x (o.ofFloat (if inverse then c.box.bottom else c.box.left)) ||
          o.lt (o.ofFloat (if inverse then c.box.top else c.box.right)) x) = true) :
    quadSpline o c uw uh inverse x = .error .outsideDomain := by
  unfold quadSpline
  simp only [h]
  rfl

theorem lin_rejects_outside (o : XOps α) (box : Box) (eps : Float) (up : List α) (inverse : Bool) (x : α)
    (h : (o.lt x (o.ofFloat (if inverse then box.bottom else box.left)) ||
          o.lt (o.ofFloat (if inverse then box.top else box.right)) x) = true) :
    linSpline o box eps up inverse x = .error .outsideDomain := by
  unfold linSpline
  simp only [h]
  rfl

theorem cubic_rejects_outside (o : XOps α) (c : CCfg) (uw uh : List α) (udl udr : α) (inverse : Bool) (x : α)
    (h : (o.lt x (o.ofFloat (if inverse then c.box.bottom else c.box.left)) ||
          o.lt (o.ofFloat (if inverse then c.box.top else c.box.right)) x) = true) :
    cubicSpline o c uw uh udl udr inverse x = .error .outsideDomain := by
  unfold cubicSpline
  simp only [h]
  rfl

/-- unconstrained splines accept every input outside the tail bound and return it unchanged -/
theorem tails_accept_outside (o : XOps α) (B : Float) (x : α) (inner : Box → Except Err (α × α))
    (hout : (o.ge x (o.neg (o.ofFloat B)) && o.le x (o.ofFloat B)) = false) :
    tailsWrap o B x inner = .ok (x, o.zero) := by
  simp [tailsWrap, hout]

/-- **In-domain totality of the bin search (reals)**: for strictly increasing knots and any `eps > 0`, every
    `x ∈ [x₀, x_K]` gets an index `< K`, so every gather of per-bin parameters (`K` entries; `K+1` for `idx+1`) is in
    range — for any tail bound / box magnitude. -/
theorem in_domain_index_in_range (xs : ℕ → ℝ) (K : ℕ) (eps x : ℝ) (hK : 0 < K) (heps : 0 < eps)
    (hx : ∀ k < K, xs k < xs (k+1)) (hlo : xs 0 ≤ x) (hhi : x ≤ xs K) :
    Glue.binIdx xs K eps x < K ∧ Glue.binIdx xs K eps x + 1 < K + 1 := by
  have := (Glue.binSearch_spec xs K eps x hK heps hx hlo hhi).1
  exact ⟨this, by omega⟩

/-- the batch-global guard `min(inputs) <= 0` of `Exp.inverse` rejects a batch iff some element is non-positive -/
theorem exp_batch_guard (xs : List ℝ) (h : xs ≠ []) : (Utils.minL xs ≤ 0) ↔ ¬ (∀ x ∈ xs, 0 < x) :=
  Utils.exp_inverse_rejects_iff xs h

/-- **in-domain inputs never fail, on the executed rational-quadratic spline (forward), over the reals**: for every bin count
    `K ≥ 1`, every unnormalised parameter vectors of the right lengths, every box `left < right`, `bottom < top`, every
    `eps > 0` and every `x ∈ [left, right]`, the EXECUTED `rqSpline` returns a value — the domain guard passes, the bin index
    the executed `searchsortedG` returns is `< K`, and all six gathers succeed.  The two size guards are `Float` comparisons
    of the configuration (taken as passed: that is what an accepted configuration is); `e` is the reading of the Python
    doubles as reals, assumed exact on the four expressions the code forms from them. -/
theorem rq_forward_in_domain_total (e : Float → ℝ) (c : RQCfg) (uw uh ud : List ℝ) (x : ℝ)
    (hK : uw ≠ []) (hlenh : uh.length = uw.length) (hlend : ud.length = uw.length + 1)
    (hgW : ¬ (c.minW * uw.length.toFloat > 1.0)) (hgH : ¬ (c.minH * uw.length.toFloat > 1.0))
    (hmW0 : 0 ≤ e c.minW) (hcW : e (1 - c.minW * uw.length.toFloat) = 1 - e c.minW * uw.length) (hmWK : e c.minW * uw.length ≤ 1)
    (hmH0 : 0 ≤ e c.minH) (hcH : e (1 - c.minH * uh.length.toFloat) = 1 - e c.minH * uh.length) (hmHK : e c.minH * uh.length ≤ 1)
    (hlr : e c.box.left < e c.box.right) (hdlr : e (c.box.right - c.box.left) = e c.box.right - e c.box.left)
    (hbt : e c.box.bottom < e c.box.top) (hdbt : e (c.box.top - c.box.bottom) = e c.box.top - e c.box.bottom)
    (heps : 0 < e c.eps) (hx0 : e c.box.left ≤ x) (hx1 : x ≤ e c.box.right) :
    ∃ r, rqSpline (NF.realX e) c uw uh ud false x = .ok r :=
  SplineTotal.rq_forward_total e c uw uh ud x hK hlenh hlend hgW hgH hmW0 hcW hmWK hmH0 hcH hmHK hlr hdlr hbt hdbt heps hx0 hx1

/-- the same, with the value: the program returns exactly the closed forms of the bin its search selected -/
theorem rq_forward_returns_bin (e : Float → ℝ) (c : RQCfg) (uw uh ud : List ℝ) (hv : RQWhole.RQValid e c uw uh ud)
    (x : ℝ) (hx0 : e c.box.left ≤ x) (hx1 : x ≤ e c.box.right) :
    rqSpline (NF.realX e) c uw uh ud false x
      = .ok (RQWhole.binVal e c uw uh ud (RQWhole.idx e c uw x) x, RQWhole.binLd e c uw uh ud (RQWhole.idx e c uw x) x) ∧
    RQWhole.idx e c uw x < uw.length :=
  ⟨RQWhole.exec_eq_bin hv x hx0 hx1,
   ((RQWhole.search_spec hv).1 x (by rw [RQWhole.xs_zero hv]; exact hx0) (by rw [RQWhole.xs_last hv]; exact hx1)).1⟩

/-! non-vacuity: concrete accepted / rejected inputs in binary64 -/
example : expT floatX true (0.0 : Float) = .error .outsideDomain := by decide +kernel
example : ∃ r, sigmoidT floatX (1.0 : Float) 1e-6 true (1.0 : Float) = .ok r := ⟨_, rfl⟩

/-- **in-domain inputs never fail, RQ inverse**: for every `y ∈ [bottom, top]` the executed inverse program returns a
    value; in particular its `discriminant >= 0` assertion (rational_quadratic.py) never fires over the reals. -/
theorem rq_inverse_in_domain_total (e : Float → ℝ) (c : RQCfg) (uw uh ud : List ℝ) (hv : RQWhole.RQValid e c uw uh ud)
    (y : ℝ) (hy0 : e c.box.bottom ≤ y) (hy1 : y ≤ e c.box.top) :
    (∃ r, rqSpline (NF.realX e) c uw uh ud true y = .ok r) ∧
    0 ≤ RQInverseWhole.binDisc e c uw uh ud (RQInverseWhole.idxI e c uh y) y :=
  ⟨⟨_, RQInverseWhole.exec_ok hv y hy0 hy1⟩, RQInverseWhole.disc_nonneg hv y hy0 hy1⟩

/-- **in-domain inputs never fail, cubic forward**: both slope gathers and all seven bin gathers are in range -/
theorem cubic_forward_in_domain_total (e : Float → ℝ) (c : CCfg) (uw uh : List ℝ) (udl udr : ℝ)
    (hv : CubicWhole.CubicValid e c uw uh) (x : ℝ) (hx0 : e c.box.left ≤ x) (hx1 : x ≤ e c.box.right) :
    ∃ r, cubicSpline (NF.realX e) c uw uh udl udr false x = .ok r :=
  CubicWhole.exec_total hv x hx0 hx1

/-- **in-domain inputs never fail, quadratic forward**, bounded shape and tails shape with `K ≥ 2` -/
theorem quad_forward_in_domain_total (e : Float → ℝ) (c : QCfg) (uw uh : List ℝ)
    (hv : QuadWhole.QuadValid e c uw uh ∨ QuadWhole.QuadValidT e c uw uh) (x : ℝ) (hx0 : e c.box.left ≤ x) (hx1 : x ≤ e c.box.right) :
    ∃ r, quadSpline (NF.realX e) c uw uh false x = .ok r := by
  rcases hv with hv | hv
  · exact QuadWhole.total hv x hx0 hx1
  · exact ⟨_, QuadWhole.exec_eq_bin_T hv x hx0 hx1⟩

/-- **the full-strength statement is FALSE for the quadratic spline with linear tails and ONE bin** (known finding F27):
    with `K = 1` there are no interior heights, the program indexes the empty list and fails with an index error on EVERY
    in-domain input — in the model, and in the code (`PiecewiseQuadraticCDF(shape, num_bins=1, tails='linear')` constructs,
    every call raises `IndexError`).  Hence `K ≥ 2` in the tails half of `quad_forward_in_domain_total`. -/
theorem quad_tails_one_bin_counterexample (e : Float → ℝ) (c : QCfg) (w x : ℝ) (hx0 : e c.box.left ≤ x) (hx1 : x ≤ e c.box.right)
    (hgW : ¬ (c.minW * ([w] : List ℝ).length.toFloat > 1.0)) (hgH : ¬ (c.minH * ([w] : List ℝ).length.toFloat > 1.0)) :
    quadSpline (NF.realX e) c [w] [] false x = .error .indexError :=
  QuadWhole.tails_one_bin_error w x hx0 hx1 hgW hgH

/-- **RQ with linear tails accepts every real input**, both directions -/
theorem rq_tails_total (e : Float → ℝ) (tb minW minH minD beta : Float) (uw uh ud : List ℝ)
    (hv : TailsWhole.RQTailsValid e tb minW minH minD beta uw uh ud) (x : ℝ) :
    (∃ r, rqSplineTails (NF.realX e) tb minW minH minD beta uw uh ud false x = .ok r) ∧
    (∃ r, rqSplineTails (NF.realX e) tb minW minH minD beta uw uh ud true x = .ok r) :=
  ⟨⟨_, TailsWhole.tails_total hv x⟩, ⟨_, TailsWhole.tails_total_inv hv x⟩⟩

/-- **quadratic inverse: in-domain inputs never fail** (the stable root is well defined also at flat bins), and outside the
    domain the program raises the domain error -/
theorem quad_inverse_in_domain_total (e : Float → ℝ) (c : QCfg) (uw uh : List ℝ)
    (hv : QuadWhole.QuadValid e c uw uh ∨ QuadWhole.QuadValidT e c uw uh) (y : ℝ) (hy0 : e c.box.bottom ≤ y) (hy1 : y ≤ e c.box.top) :
    ∃ r, quadSpline (NF.realX e) c uw uh true y = .ok r := by
  rcases hv with hv | hv
  · exact ⟨_, QuadInverseWhole.exec_ok hv y hy0 hy1⟩
  · exact ⟨_, QuadInverseWhole.exec_ok_T hv y hy0 hy1⟩

/-- **an executed RQ coupling layer with linear tails never raises**, in either direction, for any input and any conditioner
    output (the layer the library's neural-spline flows are made of) -/
theorem rq_tails_coupling_never_raises (e : Float → ℝ) (c : ElCfg) (hc : NF.StructureExec.RQTailsCfgValid e c) (mask : List ℝ)
    (B S : Nat) (x params uparams : Array ℝ) (inverse : Bool) :
    (couplingApply (NF.realX e) c mask B S x params inverse none uparams).err = none :=
  NF.StructureExec.coupling_rq_tails_err_none e c hc mask B S x params uparams inverse

/-- **cubic inverse: in-domain inputs never fail**, the output lies in `[left, right]` and the argument of the returned
    logarithm is positive — whatever root the selection picked (the root is clamped into its bin first) -/
theorem cubic_inverse_in_domain_total (e : Float → ℝ) (c : CCfg) (uw uh : List ℝ) (udl udr : ℝ)
    (hv : CubicWhole.CubicValid e c uw uh) (y : ℝ) (hy0 : e c.box.bottom ≤ y) (hy1 : y ≤ e c.box.top) :
    (∃ r, cubicSpline (NF.realX e) c uw uh udl udr true y = .ok r) ∧
    CubicInverseWhole.inv e c uw uh udl udr y ∈ Set.Icc (e c.box.left) (e c.box.right) ∧
    0 < CubicWhole.binD e c uw uh udl udr (CubicInverseWhole.idxH e c uh (CubicInverseWhole.yn e c y))
          (CubicInverseWhole.rootN e c uw uh udl udr (CubicInverseWhole.yn e c y)) :=
  ⟨CubicInverseWhole.exec_total hv y hy0 hy1, CubicInverseWhole.inv_mem hv y hy0 hy1, CubicInverseWhole.invLd_arg_pos hv y hy0 hy1⟩

/-- **linear spline: in-domain inputs never fail**, both directions, for every non-empty parameter vector -/
theorem linear_in_domain_total (e : Float → ℝ) (box : Box) (eps : Float) (up : List ℝ) (hv : LinWhole.LinValid e box eps up) :
    (∀ x, e box.left ≤ x → x ≤ e box.right → ∃ r, linSpline (NF.realX e) box eps up false x = .ok r) ∧
    (∀ y, e box.bottom ≤ y → y ≤ e box.top → ∃ r, linSpline (NF.realX e) box eps up true y = .ok r) :=
  ⟨fun x h0 h1 => ⟨_, LinWhole.exec_ok hv x h0 h1⟩, fun y h0 h1 => ⟨_, LinWhole.inv_exec_ok hv y h0 h1⟩⟩

end Properties.C17
