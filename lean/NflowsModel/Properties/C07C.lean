import NflowsModel.Properties.C07
import NflowsModel.Lemmas.CouplingConsequences
/-!
# C07 (continued) — the consequences named in the property text, about the EXECUTED `couplingApply`

`Lemmas/CouplingConsequences.lean`.  The `Properties/C07.lean` header left "monotone in each transformed feature, triangular Jacobian"
to C09 / C01 and needed `MaskDisjoint` for the bit-for-bit pass-through.  Now, for every `XOps α` (so bit for bit at `Float`), every
batch size, `S`, family, direction and optional unconditional transform, for ANY conditioner and with NO hypothesis on the mask: two
inputs that agree on the identity channels give the same conditioner input, the same parameter array and the same element functions
(`exec_coupling_param_dependence`), and overwriting any OTHER transformed entry leaves an output entry unchanged
(`exec_coupling_no_cross_dependence`); identity channels pass through under the one hypothesis `o.gt mask[ch] 0 = false`, which cannot
be dropped (`passthrough_needs_not_gt`: an `XOps` where `≤` and `>` overlap).  At the reals: each transformed feature is a strictly
increasing function of its own input with the identity channels fixed (additive, affine, RQ bounded / tails, linear; both directions;
additive and affine for images too), and the Fréchet derivative of the executed row map has identity rows `δ_ij`, zero between distinct
transformed channels, diagonal `exp(ld_i) > 0`, determinant `∏ exp(ld_i) = exp(ld[b]) > 0` — triangular up to the mask's permutation,
invertible, a local diffeomorphism (under strict differentiability).
-/
set_option linter.all false
namespace Properties.C07

theorem exec_coupling_param_dependence :
    ∀ {α : Type} (o : XOps α) (c : NF.ElCfg) (mask : List α)
      (S : ℕ) (inverse : Bool) (uc : Option NF.ElCfg) (uparams : Array α) (net : Array α → Array α → Array α) {B : ℕ}
      {x x' : Array α} (ctx : Array α),
      NF.CouplingConsequences.IdAgree o mask S B x x' →
        (NF.CouplingConsequences.layer o c mask S inverse uc uparams net B x ctx).condIn =
            (NF.CouplingConsequences.layer o c mask S inverse uc uparams net B x' ctx).condIn ∧
          NF.CouplingConsequences.paramsOf o mask S inverse uc uparams net B x ctx =
              NF.CouplingConsequences.paramsOf o mask S inverse uc uparams net B x' ctx ∧
            (∀ (b t s : ℕ),
                NF.condSlice o c.mult (NF.transformIdx o mask).length S
                    (NF.CouplingConsequences.paramsOf o mask S inverse uc uparams net B x ctx) b t s =
                  NF.condSlice o c.mult (NF.transformIdx o mask).length S
                    (NF.CouplingConsequences.paramsOf o mask S inverse uc uparams net B x' ctx) b t s) ∧
              ∀ (b t s : ℕ) (xi : α),
                NF.couplingEl o c (NF.transformIdx o mask).length S
                    (NF.CouplingConsequences.paramsOf o mask S inverse uc uparams net B x ctx) inverse b t s xi =
                  NF.couplingEl o c (NF.transformIdx o mask).length S
                    (NF.CouplingConsequences.paramsOf o mask S inverse uc uparams net B x' ctx) inverse b t s xi :=
  @NF.CouplingConsequences.exec_coupling_param_dependence

theorem exec_coupling_param_dependence_row :
    ∀ {α : Type} (o : XOps α) (c : NF.ElCfg) (mask : List α)
      (S : ℕ) (inverse : Bool) (uc : Option NF.ElCfg) (uparams : Array α) (cw : ℕ) (net : ℕ → Array α → Array α → Array α),
      NF.FlowRowsExec.NetRowWise ((NF.identityIdx o mask).length * S) cw
          (NF.StructureExec.paramWidth c (NF.transformIdx o mask).length * S) net →
        ∀ {B B' b b' : ℕ} (x x' ctx ctx' : Array α),
          b < B →
            b' < B' →
              (∀ (ch s : ℕ),
                  ch ∈ NF.identityIdx o mask →
                    s < S → x[NF.flatIdx mask.length S b ch s]? = x'[NF.flatIdx mask.length S b' ch s]?) →
                NF.FlowRowsExec.RowEq cw b b' ctx ctx' →
                  NF.StructureExec.RowAgree (NF.StructureExec.paramWidth c (NF.transformIdx o mask).length) S b b'
                      (net B (NF.FlowRowsExec.condInOf o mask S inverse uc uparams B x) ctx)
                      (net B' (NF.FlowRowsExec.condInOf o mask S inverse uc uparams B' x') ctx') ∧
                    ∀ (t s : ℕ) (xi : α),
                      t < (NF.transformIdx o mask).length →
                        s < S →
                          NF.couplingEl o c (NF.transformIdx o mask).length S
                              (net B (NF.FlowRowsExec.condInOf o mask S inverse uc uparams B x) ctx) inverse b t s xi =
                            NF.couplingEl o c (NF.transformIdx o mask).length S
                              (net B' (NF.FlowRowsExec.condInOf o mask S inverse uc uparams B' x') ctx') inverse b' t s xi :=
  @NF.CouplingConsequences.exec_coupling_param_dependence_row

theorem exec_coupling_no_cross_dependence :
    ∀ {α : Type} (o : XOps α) (c : NF.ElCfg) (mask : List α)
      (S : ℕ) (inverse : Bool) (uc : Option NF.ElCfg) (uparams : Array α) (net : Array α → Array α → Array α) {B b t s : ℕ},
      b < B →
        t < (NF.transformIdx o mask).length →
          s < S →
            ∀ {x x' : Array α} (ctx : Array α),
              NF.CouplingConsequences.IdAgree o mask S B x x' →
                x[NF.flatIdx mask.length S b ((NF.transformIdx o mask).getD t 0) s]? =
                    x'[NF.flatIdx mask.length S b ((NF.transformIdx o mask).getD t 0) s]? →
                  (NF.CouplingConsequences.layer o c mask S inverse uc uparams net B x
                          ctx).out[NF.flatIdx mask.length S b ((NF.transformIdx o mask).getD t 0) s]? =
                    (NF.CouplingConsequences.layer o c mask S inverse uc uparams net B x'
                          ctx).out[NF.flatIdx mask.length S b ((NF.transformIdx o mask).getD t 0) s]? :=
  @NF.CouplingConsequences.exec_coupling_no_cross_dependence

theorem exec_coupling_no_cross_dependence_set :
    ∀ {α : Type} (o : XOps α) (c : NF.ElCfg)
      (mask : List α) (S : ℕ) (inverse : Bool) (uc : Option NF.ElCfg) (uparams : Array α)
      (net : Array α → Array α → Array α) {B b t s b₂ ch₂ s₂ : ℕ},
      b < B →
        t < (NF.transformIdx o mask).length →
          s < S →
            ∀ (x ctx : Array α) (v : α),
              ch₂ < mask.length →
                s₂ < S →
                  ch₂ ∉ NF.identityIdx o mask →
                    ¬(b₂ = b ∧ ch₂ = (NF.transformIdx o mask).getD t 0 ∧ s₂ = s) →
                      (NF.CouplingConsequences.layer o c mask S inverse uc uparams net B
                              (x.setIfInBounds (NF.flatIdx mask.length S b₂ ch₂ s₂) v)
                              ctx).out[NF.flatIdx mask.length S b ((NF.transformIdx o mask).getD t 0) s]? =
                        (NF.CouplingConsequences.layer o c mask S inverse uc uparams net B x
                              ctx).out[NF.flatIdx mask.length S b ((NF.transformIdx o mask).getD t 0) s]? :=
  @NF.CouplingConsequences.exec_coupling_no_cross_dependence_set

theorem exec_coupling_feature_monotone :
    ∀ (e : Float → ℝ) (c : NF.ElCfg) (mask : List ℝ) (B : ℕ)
      (net : Array ℝ → Array ℝ) (inverse : Bool) (x : Array ℝ),
      x.size = B * mask.length →
        ∀ {b : ℕ},
          b < B →
            ∀ (v : Fin mask.length → ℝ),
              (∀ (k : Fin mask.length),
                  NF.StructureExec.isT (NF.realX e) mask k = Bool.false →
                    v k = NF.StructureExec.rowOf (NF.realX e) mask.length b x k) →
                ∀ (i : Fin mask.length),
                  NF.StructureExec.isT (NF.realX e) mask i = Bool.true →
                    ∀ (D : Set ℝ),
                      StrictMonoOn
                          (NF.CouplingJacobian.couplingElMap e c mask
                            (net (NF.CouplingJacobian.idSplit (NF.realX e) mask B x)) inverse b i)
                          D →
                        StrictMonoOn
                          (fun (t : ℝ) =>
                            NF.CouplingJacobian.couplingRowMap e c mask B net inverse x b (Function.update v i t) i)
                          D :=
  @NF.CouplingConsequences.exec_coupling_feature_monotone

theorem exec_coupling_feature_monotone_additive :
    ∀ (e : Float → ℝ) (c : NF.ElCfg) (mask : List ℝ)
      (B : ℕ) (net : Array ℝ → Array ℝ) (inverse : Bool),
      c.kind = "additive" →
        ∀ (x : Array ℝ),
          x.size = B * mask.length →
            ∀ {b : ℕ},
              b < B →
                ∀ (v : Fin mask.length → ℝ),
                  (∀ (k : Fin mask.length),
                      NF.StructureExec.isT (NF.realX e) mask k = Bool.false →
                        v k = NF.StructureExec.rowOf (NF.realX e) mask.length b x k) →
                    ∀ (i : Fin mask.length),
                      NF.StructureExec.isT (NF.realX e) mask i = Bool.true →
                        StrictMono fun (t : ℝ) =>
                          NF.CouplingJacobian.couplingRowMap e c mask B net inverse x b (Function.update v i t) i :=
  @NF.CouplingConsequences.exec_coupling_feature_monotone_additive

theorem exec_coupling_feature_monotone_affine :
    ∀ (e : Float → ℝ) (c : NF.ElCfg) (mask : List ℝ) (B : ℕ)
      (net : Array ℝ → Array ℝ) (inverse : Bool),
      0 ≤ e 1e-3 →
        c.kind = "affine" →
          ∀ (x : Array ℝ),
            x.size = B * mask.length →
              ∀ {b : ℕ},
                b < B →
                  ∀ (v : Fin mask.length → ℝ),
                    (∀ (k : Fin mask.length),
                        NF.StructureExec.isT (NF.realX e) mask k = Bool.false →
                          v k = NF.StructureExec.rowOf (NF.realX e) mask.length b x k) →
                      ∀ (i : Fin mask.length),
                        NF.StructureExec.isT (NF.realX e) mask i = Bool.true →
                          StrictMono fun (t : ℝ) =>
                            NF.CouplingJacobian.couplingRowMap e c mask B net inverse x b (Function.update v i t) i :=
  @NF.CouplingConsequences.exec_coupling_feature_monotone_affine

theorem exec_coupling_feature_monotone_rq_tails :
    ∀ (e : Float → ℝ) (c : NF.ElCfg) (mask : List ℝ)
      (B : ℕ) (net : Array ℝ → Array ℝ) (inverse : Bool),
      NF.StructureExec.RQTailsCfgValid e c →
        ∀ (x : Array ℝ),
          x.size = B * mask.length →
            ∀ {b : ℕ},
              b < B →
                ∀ (v : Fin mask.length → ℝ),
                  (∀ (k : Fin mask.length),
                      NF.StructureExec.isT (NF.realX e) mask k = Bool.false →
                        v k = NF.StructureExec.rowOf (NF.realX e) mask.length b x k) →
                    ∀ (i : Fin mask.length),
                      NF.StructureExec.isT (NF.realX e) mask i = Bool.true →
                        StrictMono fun (t : ℝ) =>
                          NF.CouplingJacobian.couplingRowMap e c mask B net inverse x b (Function.update v i t) i :=
  @NF.CouplingConsequences.exec_coupling_feature_monotone_rq_tails

theorem exec_coupling_feature_monotone_rq :
    ∀ (e : Float → ℝ) (c : NF.ElCfg) (mask : List ℝ) (B : ℕ)
      (net : Array ℝ → Array ℝ),
      c.kind = "rq" →
        c.tails = Bool.false →
          ∀ (x : Array ℝ),
            x.size = B * mask.length →
              ∀ {b : ℕ},
                b < B →
                  ∀ (v : Fin mask.length → ℝ),
                    (∀ (k : Fin mask.length),
                        NF.StructureExec.isT (NF.realX e) mask k = Bool.false →
                          v k = NF.StructureExec.rowOf (NF.realX e) mask.length b x k) →
                      ∀ (i : Fin mask.length),
                        NF.StructureExec.isT (NF.realX e) mask i = Bool.true →
                          RQWhole.RQValid e (NF.StructureExec.rqCfgOf c)
                              (NF.StructureExec.rqW (NF.realX e) c
                                (NF.LayerDerivMore.chanSlice e c mask
                                  (net (NF.CouplingJacobian.idSplit (NF.realX e) mask B x)) b i))
                              (NF.StructureExec.rqH (NF.realX e) c
                                (NF.LayerDerivMore.chanSlice e c mask
                                  (net (NF.CouplingJacobian.idSplit (NF.realX e) mask B x)) b i))
                              (NF.StructureExec.rqD c
                                (NF.LayerDerivMore.chanSlice e c mask
                                  (net (NF.CouplingJacobian.idSplit (NF.realX e) mask B x)) b i)) →
                            StrictMonoOn
                                (fun (t : ℝ) =>
                                  NF.CouplingJacobian.couplingRowMap e c mask B net Bool.false x b (Function.update v i t)
                                    i)
                                (Set.Icc (e (NF.StructureExec.rqCfgOf c).box.left)
                                  (e (NF.StructureExec.rqCfgOf c).box.right)) ∧
                              StrictMonoOn
                                (fun (t : ℝ) =>
                                  NF.CouplingJacobian.couplingRowMap e c mask B net Bool.true x b (Function.update v i t) i)
                                (Set.Icc (e (NF.StructureExec.rqCfgOf c).box.bottom)
                                  (e (NF.StructureExec.rqCfgOf c).box.top)) :=
  @NF.CouplingConsequences.exec_coupling_feature_monotone_rq

theorem exec_coupling_feature_monotone_lin :
    ∀ (e : Float → ℝ) (c : NF.ElCfg) (mask : List ℝ) (B : ℕ)
      (net : Array ℝ → Array ℝ),
      c.kind = "lin" →
        c.tails = Bool.false →
          ∀ (x : Array ℝ),
            x.size = B * mask.length →
              ∀ {b : ℕ},
                b < B →
                  ∀ (v : Fin mask.length → ℝ),
                    (∀ (k : Fin mask.length),
                        NF.StructureExec.isT (NF.realX e) mask k = Bool.false →
                          v k = NF.StructureExec.rowOf (NF.realX e) mask.length b x k) →
                      ∀ (i : Fin mask.length),
                        NF.StructureExec.isT (NF.realX e) mask i = Bool.true →
                          LinWhole.LinValid e (NF.LayerDerivMore.linBoxOf c) 1e-6
                              (NF.LayerDerivMore.chanSlice e c mask
                                (net (NF.CouplingJacobian.idSplit (NF.realX e) mask B x)) b i) →
                            StrictMonoOn
                                (fun (t : ℝ) =>
                                  NF.CouplingJacobian.couplingRowMap e c mask B net Bool.false x b (Function.update v i t)
                                    i)
                                (Set.Icc (e (NF.LayerDerivMore.linBoxOf c).left) (e (NF.LayerDerivMore.linBoxOf c).right)) ∧
                              StrictMonoOn
                                (fun (t : ℝ) =>
                                  NF.CouplingJacobian.couplingRowMap e c mask B net Bool.true x b (Function.update v i t) i)
                                (Set.Icc (e (NF.LayerDerivMore.linBoxOf c).bottom) (e (NF.LayerDerivMore.linBoxOf c).top)) :=
  @NF.CouplingConsequences.exec_coupling_feature_monotone_lin

theorem exec_coupling_entry_monotone :
    ∀ (e : Float → ℝ) (c : NF.ElCfg) (mask : List ℝ) (S : ℕ)
      (inverse : Bool),
      0 ≤ e 1e-3 →
        c.kind = "additive" ∨ c.kind = "affine" →
          ∀ (net : Array ℝ → Array ℝ → Array ℝ) {B b t s : ℕ},
            b < B →
              t < (NF.transformIdx (NF.realX e) mask).length →
                s < S →
                  ∀ (x ctx : Array ℝ),
                    NF.flatIdx mask.length S b ((NF.transformIdx (NF.realX e) mask).getD t 0) s < x.size →
                      ∃ (f : ℝ → ℝ),
                        StrictMono f ∧
                          ∀ (τ : ℝ),
                            (NF.CouplingConsequences.layer (NF.realX e) c mask S inverse Option.none #[] net B
                                    (x.setIfInBounds
                                      (NF.flatIdx mask.length S b ((NF.transformIdx (NF.realX e) mask).getD t 0) s) τ)
                                    ctx).out[NF.flatIdx mask.length S b ((NF.transformIdx (NF.realX e) mask).getD t 0) s]? =
                              Option.some (f τ) :=
  @NF.CouplingConsequences.exec_coupling_entry_monotone

theorem exec_coupling_jacobian_triangular :
    ∀ (e : Float → ℝ) (c : NF.ElCfg) (mask : List ℝ) (B : ℕ)
      (net : Array ℝ → Array ℝ) (inverse : Bool) (x : Array ℝ),
      x.size = B * mask.length →
        ∀ {b : ℕ},
          b < B →
            ∀ {L : (Fin mask.length → ℝ) →L[ℝ] Fin mask.length → ℝ},
              HasFDerivAt (NF.CouplingJacobian.couplingRowMap e c mask B net inverse x b) L
                  (NF.StructureExec.rowOf (NF.realX e) mask.length b x) →
                ∀ (d : Fin mask.length → ℝ),
                  (∀ (i : Fin mask.length),
                      NF.StructureExec.isT (NF.realX e) mask i = Bool.true →
                        HasDerivAt
                          (NF.CouplingJacobian.couplingElMap e c mask
                            (net (NF.CouplingJacobian.idSplit (NF.realX e) mask B x)) inverse b i)
                          (d i) (NF.StructureExec.rowOf (NF.realX e) mask.length b x i)) →
                    (∀ (i j : Fin mask.length),
                        NF.StructureExec.isT (NF.realX e) mask i = Bool.false →
                          (L : (Fin mask.length → ℝ) → Fin mask.length → ℝ) (Pi.single j 1) i = if i = j then 1 else 0) ∧
                      (∀ (i j : Fin mask.length),
                          NF.StructureExec.isT (NF.realX e) mask i = Bool.true →
                            NF.StructureExec.isT (NF.realX e) mask j = Bool.true →
                              j ≠ i → (L : (Fin mask.length → ℝ) → Fin mask.length → ℝ) (Pi.single j 1) i = 0) ∧
                        ∀ (i : Fin mask.length),
                          NF.StructureExec.isT (NF.realX e) mask i = Bool.true →
                            (L : (Fin mask.length → ℝ) → Fin mask.length → ℝ) (Pi.single i 1) i = d i :=
  @NF.CouplingConsequences.exec_coupling_jacobian_triangular

theorem exec_coupling_jacobian_diag_pos :
    ∀ (e : Float → ℝ) (c : NF.ElCfg) (mask : List ℝ) (B : ℕ)
      (net : Array ℝ → Array ℝ) (inverse : Bool) (x : Array ℝ),
      x.size = B * mask.length →
        ∀ {b : ℕ},
          b < B →
            ∀ {L : (Fin mask.length → ℝ) →L[ℝ] Fin mask.length → ℝ},
              HasFDerivAt (NF.CouplingJacobian.couplingRowMap e c mask B net inverse x b) L
                  (NF.StructureExec.rowOf (NF.realX e) mask.length b x) →
                (∀ (i : Fin mask.length),
                    NF.StructureExec.isT (NF.realX e) mask i = Bool.true →
                      HasDerivAt
                        (NF.CouplingJacobian.couplingElMap e c mask
                          (net (NF.CouplingJacobian.idSplit (NF.realX e) mask B x)) inverse b i)
                        (Real.exp
                          (NF.CouplingJacobian.couplingElLd e c mask
                            (net (NF.CouplingJacobian.idSplit (NF.realX e) mask B x)) inverse b i
                            (NF.StructureExec.rowOf (NF.realX e) mask.length b x i)))
                        (NF.StructureExec.rowOf (NF.realX e) mask.length b x i)) →
                  ∀ (i : Fin mask.length),
                    NF.StructureExec.isT (NF.realX e) mask i = Bool.true →
                      (L : (Fin mask.length → ℝ) → Fin mask.length → ℝ) (Pi.single i 1) i =
                          Real.exp
                            (NF.CouplingJacobian.couplingElLd e c mask
                              (net (NF.CouplingJacobian.idSplit (NF.realX e) mask B x)) inverse b i
                              (NF.StructureExec.rowOf (NF.realX e) mask.length b x i)) ∧
                        0 < (L : (Fin mask.length → ℝ) → Fin mask.length → ℝ) (Pi.single i 1) i :=
  @NF.CouplingConsequences.exec_coupling_jacobian_diag_pos

theorem exec_coupling_jacobian_det_pos :
    ∀ (e : Float → ℝ) (c : NF.ElCfg) (mask : List ℝ) (B : ℕ)
      (net : Array ℝ → Array ℝ) (inverse : Bool) (x : Array ℝ),
      x.size = B * mask.length →
        ∀ {b : ℕ},
          b < B →
            ∀ {L : (Fin mask.length → ℝ) →L[ℝ] Fin mask.length → ℝ},
              HasFDerivAt (NF.CouplingJacobian.couplingRowMap e c mask B net inverse x b) L
                  (NF.StructureExec.rowOf (NF.realX e) mask.length b x) →
                (∀ (i : Fin mask.length),
                    NF.StructureExec.isT (NF.realX e) mask i = Bool.true →
                      HasDerivAt
                        (NF.CouplingJacobian.couplingElMap e c mask
                          (net (NF.CouplingJacobian.idSplit (NF.realX e) mask B x)) inverse b i)
                        (Real.exp
                          (NF.CouplingJacobian.couplingElLd e c mask
                            (net (NF.CouplingJacobian.idSplit (NF.realX e) mask B x)) inverse b i
                            (NF.StructureExec.rowOf (NF.realX e) mask.length b x i)))
                        (NF.StructureExec.rowOf (NF.realX e) mask.length b x i)) →
                  (L.det =
                      ∏ i : Fin mask.length,
                        if NF.StructureExec.isT (NF.realX e) mask i = Bool.true then
                          Real.exp
                            (NF.CouplingJacobian.couplingElLd e c mask
                              (net (NF.CouplingJacobian.idSplit (NF.realX e) mask B x)) inverse b i
                              (NF.StructureExec.rowOf (NF.realX e) mask.length b x i))
                        else 1) ∧
                    0 < L.det ∧
                      ∃ (l : ℝ),
                        (NF.CouplingJacobian.couplingRun (NF.realX e) c mask B net inverse x).ld[b]? = Option.some l ∧
                          L.det = Real.exp l :=
  @NF.CouplingConsequences.exec_coupling_jacobian_det_pos

theorem exec_coupling_jacobian_invertible :
    ∀ (e : Float → ℝ) (c : NF.ElCfg) (mask : List ℝ) (B : ℕ)
      (net : Array ℝ → Array ℝ) (inverse : Bool) (x : Array ℝ),
      x.size = B * mask.length →
        ∀ {b : ℕ},
          b < B →
            ∀ {L : (Fin mask.length → ℝ) →L[ℝ] Fin mask.length → ℝ},
              HasFDerivAt (NF.CouplingJacobian.couplingRowMap e c mask B net inverse x b) L
                  (NF.StructureExec.rowOf (NF.realX e) mask.length b x) →
                (∀ (i : Fin mask.length),
                    NF.StructureExec.isT (NF.realX e) mask i = Bool.true →
                      HasDerivAt
                        (NF.CouplingJacobian.couplingElMap e c mask
                          (net (NF.CouplingJacobian.idSplit (NF.realX e) mask B x)) inverse b i)
                        (Real.exp
                          (NF.CouplingJacobian.couplingElLd e c mask
                            (net (NF.CouplingJacobian.idSplit (NF.realX e) mask B x)) inverse b i
                            (NF.StructureExec.rowOf (NF.realX e) mask.length b x i)))
                        (NF.StructureExec.rowOf (NF.realX e) mask.length b x i)) →
                  ∃ (L' : (Fin mask.length → ℝ) ≃L[ℝ] Fin mask.length → ℝ),
                    (↑L' : (Fin mask.length → ℝ) →L[ℝ] Fin mask.length → ℝ) = L :=
  @NF.CouplingConsequences.exec_coupling_jacobian_invertible

theorem exec_coupling_local_diffeo :
    ∀ (e : Float → ℝ) (c : NF.ElCfg) (mask : List ℝ) (B : ℕ)
      (net : Array ℝ → Array ℝ) (inverse : Bool) (x : Array ℝ),
      x.size = B * mask.length →
        ∀ {b : ℕ},
          b < B →
            ∀ {L : (Fin mask.length → ℝ) →L[ℝ] Fin mask.length → ℝ},
              HasStrictFDerivAt (NF.CouplingJacobian.couplingRowMap e c mask B net inverse x b) L
                  (NF.StructureExec.rowOf (NF.realX e) mask.length b x) →
                (∀ (i : Fin mask.length),
                    NF.StructureExec.isT (NF.realX e) mask i = Bool.true →
                      HasDerivAt
                        (NF.CouplingJacobian.couplingElMap e c mask
                          (net (NF.CouplingJacobian.idSplit (NF.realX e) mask B x)) inverse b i)
                        (Real.exp
                          (NF.CouplingJacobian.couplingElLd e c mask
                            (net (NF.CouplingJacobian.idSplit (NF.realX e) mask B x)) inverse b i
                            (NF.StructureExec.rowOf (NF.realX e) mask.length b x i)))
                        (NF.StructureExec.rowOf (NF.realX e) mask.length b x i)) →
                  ∃ (φ : OpenPartialHomeomorph (Fin mask.length → ℝ) (Fin mask.length → ℝ)) (L' :
                    (Fin mask.length → ℝ) ≃L[ℝ] Fin mask.length → ℝ),
                    (↑φ : (Fin mask.length → ℝ) → Fin mask.length → ℝ) =
                        NF.CouplingJacobian.couplingRowMap e c mask B net inverse x b ∧
                      NF.StructureExec.rowOf (NF.realX e) mask.length b x ∈ φ.source ∧
                        (↑L' : (Fin mask.length → ℝ) →L[ℝ] Fin mask.length → ℝ) = L ∧
                          HasStrictFDerivAt (↑φ.symm : (Fin mask.length → ℝ) → Fin mask.length → ℝ)
                            (↑L'.symm : (Fin mask.length → ℝ) →L[ℝ] Fin mask.length → ℝ)
                            (NF.CouplingJacobian.couplingRowMap e c mask B net inverse x b
                              (NF.StructureExec.rowOf (NF.realX e) mask.length b x)) :=
  @NF.CouplingConsequences.exec_coupling_local_diffeo

theorem exec_identity_passthrough_weak :
    ∀ {α : Type} (o : XOps α) (c : NF.ElCfg) (mask : List α)
      (S : ℕ) (inverse : Bool) (uparams : Array α) (B : ℕ) (x params : Array α) {b ch s : ℕ},
      ch < mask.length →
        s < S →
          o.gt (mask.getD ch o.zero) o.zero = Bool.false →
            (NF.couplingApply o c mask B S x params inverse Option.none uparams).out[NF.flatIdx mask.length S b ch s]? =
              x[NF.flatIdx mask.length S b ch s]? :=
  @NF.CouplingConsequences.exec_identity_passthrough_weak

theorem exec_identity_unconditional :
    ∀ {α : Type} (o : XOps α) (c : NF.ElCfg) (mask : List α) (S : ℕ)
      (inverse : Bool) (uparams : Array α) (ucfg : NF.ElCfg) (B : ℕ) (x params : Array α) {b t s : ℕ},
      b < B →
        t < (NF.identityIdx o mask).length →
          s < S →
            (NF.identityIdx o mask).getD t 0 ∉ NF.transformIdx o mask →
              (NF.couplingApply o c mask B S x params inverse (Option.some ucfg)
                      uparams).out[NF.flatIdx mask.length S b ((NF.identityIdx o mask).getD t 0) s]? =
                NF.StructureExec.selOut
                  (NF.elTransform o ucfg inverse (NF.ucSlice o ucfg.mult S uparams t s)
                    (x.getD (NF.flatIdx mask.length S b ((NF.identityIdx o mask).getD t 0) s) o.zero))
                  x[NF.flatIdx mask.length S b ((NF.identityIdx o mask).getD t 0) s]? :=
  @NF.CouplingConsequences.exec_identity_unconditional

theorem exec_transformed_entry :
    ∀ {α : Type} (o : XOps α) (c : NF.ElCfg) (mask : List α) (S : ℕ)
      (inverse : Bool) (uparams : Array α) (B : ℕ) (x params : Array α) {b ch s : ℕ},
      b < B →
        ch < mask.length →
          s < S →
            o.gt (mask.getD ch o.zero) o.zero = Bool.true →
              ∃ t < (NF.transformIdx o mask).length,
                (NF.transformIdx o mask).getD t 0 = ch ∧
                  (NF.couplingApply o c mask B S x params inverse Option.none
                          uparams).out[NF.flatIdx mask.length S b ch s]? =
                    NF.StructureExec.selOut
                      (NF.couplingEl o c (NF.transformIdx o mask).length S params inverse b t s
                        (x.getD (NF.flatIdx mask.length S b ch s) o.zero))
                      x[NF.flatIdx mask.length S b ch s]? :=
  @NF.CouplingConsequences.exec_transformed_entry

theorem passthrough_needs_not_gt :
    NF.identityIdx NF.CouplingConsequences.overlapX [0] = [0] ∧
      NF.transformIdx NF.CouplingConsequences.overlapX [0] = [0] ∧
        (NF.couplingApply NF.CouplingConsequences.overlapX { kind := "additive" } [0] 1 1 #[3] #[5] Bool.false).out = #[8] :=
  @NF.CouplingConsequences.passthrough_needs_not_gt

end Properties.C07
